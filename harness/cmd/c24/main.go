//go:build verif

// Driver for C24: runs the real cache-key builders of /repo (pkg/storage/cache/keys,
// pkg/storage/{cache,keys}.go, internal/check EdgeCacheKey / NewRequest, pkg/tuple TupleKeys
// sort, modelgraph / model cache keys) on generated inputs and near-collision PAIRS, and
// records inputs + observed key bytes / digests for the Coq oracle (Codec/KeyEnc.v).
//
// Every case is generated from its own sub-seed, so `-replay` re-runs a case from its
// description {"k":kind,"s":subseed,"t":tier}.
package main

import (
	"bufio"
	"bytes"
	"context"
	"encoding/json"
	"math"
	"os"
	"sort"
	"strings"

	openfgav1 "github.com/openfga/api/proto/openfga/v1"
	authzGraph "github.com/openfga/language/pkg/go/graph"
	"github.com/openfga/language/pkg/go/transformer"
	"google.golang.org/protobuf/types/known/structpb"

	"github.com/openfga/openfga/internal/check"
	"github.com/openfga/openfga/internal/modelgraph"
	"github.com/openfga/openfga/internal/verifharness/lib/rec"
	"github.com/openfga/openfga/pkg/storage"
	"github.com/openfga/openfga/pkg/storage/cache/keys"
	"github.com/openfga/openfga/pkg/storage/memory"
	"github.com/openfga/openfga/pkg/storage/storagewrappers"
	"github.com/openfga/openfga/pkg/tuple"
)

// ------------------------------------------------------------------ strings

var words = []string{"", "a", "b", "ab", "doc:1", "doc:2", "user:anne", "user:bob", "user:*", "group:1#member",
	"group:1", "member", "viewer", "c1", "c2", "x", "k", "01ARZ3NDEKTSV4RRFFQ69G5FAV", "01ARZ3NDEKTSV4RRFFQ69G5FAW"}

// bytes that look like tags, length prefixes and separators
var trickyBytes = []byte{0, 1, 2, 3, 4, 5, 6, 7, 8, 9, 10, 11, 12, 0x7f, 0x80, 0x81, 0xff, '#', ':', '*', '|', ',', ' ', 'a', 'b'}

func gstr(r *rec.Rand) string {
	switch r.Intn(10) {
	case 0, 1, 2, 3:
		return rec.Pick(r, words)
	case 4, 5:
		n := r.Intn(4)
		b := make([]byte, n)
		for i := range b {
			b[i] = rec.Pick(r, trickyBytes)
		}
		return string(b)
	case 6:
		return rec.Pick(r, words) + string(rec.Pick(r, trickyBytes)) + rec.Pick(r, words)
	case 7:
		n := r.Intn(9)
		b := make([]byte, n)
		for i := range b {
			b[i] = byte(r.Intn(256))
		}
		return string(b)
	case 8:
		if r.Chance(2, 3) {
			return rec.Pick(r, words)
		}
		// around the 1-byte / 2-byte uvarint boundary
		n := rec.Pick(r, []int{126, 127, 128, 129, 130, 255, 256, 300})
		return strings.Repeat(string(rec.Pick(r, trickyBytes)), n)
	default:
		if r.Chance(1, 150) {
			// 3-byte uvarint length
			return strings.Repeat("z", rec.Pick(r, []int{16383, 16384, 16385}))
		}
		return rec.Pick(r, []string{"é", "\xc3", "\U0001F600", "doc:1#viewer", "a#b", "a:b", "a:*", "#", ":*"})
	}
}

// ------------------------------------------------------------------ abstract structpb values

type pbNode struct {
	kind int // 0 null 1 num 2 str 3 bool 4 unset 5 list 6 struct
	bits uint64
	s    string
	b    bool
	list []*pbNode
	keys []string
	vals []*pbNode
}

var floatBits = []uint64{
	0, 0x8000000000000000, // +0, -0
	0x3ff0000000000000, 0xbff0000000000000, // 1, -1
	0x4000000000000000, 0x4024000000000000, // 2, 10
	0x7ff0000000000000, 0xfff0000000000000, // +inf -inf
	0x7ff8000000000000,                     // NaN
	0x0000000000000001, 0x7fefffffffffffff, // denormal min, max
	0x43e0000000000000, 0x43f0000000000000, // 2^63, 2^64
	0x3fb999999999999a, // 0.1
}

func genPb(r *rec.Rand, depth int) *pbNode {
	k := r.Intn(10)
	if depth <= 0 && k >= 7 {
		k = r.Intn(7)
	}
	switch k {
	case 0:
		return &pbNode{kind: 0}
	case 1, 2:
		if r.Chance(2, 3) {
			return &pbNode{kind: 1, bits: rec.Pick(r, floatBits)}
		}
		f := float64(r.Intn(1000)) / float64(1+r.Intn(4))
		return &pbNode{kind: 1, bits: math.Float64bits(f)}
	case 3, 4:
		return &pbNode{kind: 2, s: gstr(r)}
	case 5:
		return &pbNode{kind: 3, b: r.Bool()}
	case 6:
		return &pbNode{kind: 4}
	case 7:
		n := r.Intn(4)
		l := make([]*pbNode, n)
		for i := range l {
			l[i] = genPb(r, depth-1)
		}
		return &pbNode{kind: 5, list: l}
	default:
		return genStruct(r, depth-1)
	}
}

func genStruct(r *rec.Rand, depth int) *pbNode {
	n := r.Intn(5)
	if r.Chance(1, 25) {
		n = 13 + r.Intn(6) // beyond the insertion-sort threshold of the Go sort
	}
	nd := &pbNode{kind: 6}
	seen := map[string]bool{}
	for i := 0; i < n; i++ {
		k := gstr(r)
		if len(k) > 400 {
			k = k[:3]
		}
		if seen[k] {
			continue
		}
		seen[k] = true
		nd.keys = append(nd.keys, k)
		nd.vals = append(nd.vals, genPb(r, depth))
	}
	return nd
}

func (n *pbNode) clone() *pbNode {
	if n == nil {
		return nil
	}
	c := *n
	c.list = nil
	c.keys = append([]string(nil), n.keys...)
	c.vals = nil
	for _, x := range n.list {
		c.list = append(c.list, x.clone())
	}
	for _, x := range n.vals {
		c.vals = append(c.vals, x.clone())
	}
	return &c
}

// toValue builds the structpb.Value; r chooses among the Go representations that the
// abstract value stands for (nil pointers vs empty containers).
func (n *pbNode) toValue(r *rec.Rand, allowNil bool) *structpb.Value {
	switch n.kind {
	case 0:
		return &structpb.Value{Kind: &structpb.Value_NullValue{}}
	case 1:
		return &structpb.Value{Kind: &structpb.Value_NumberValue{NumberValue: math.Float64frombits(n.bits)}}
	case 2:
		return &structpb.Value{Kind: &structpb.Value_StringValue{StringValue: n.s}}
	case 3:
		return &structpb.Value{Kind: &structpb.Value_BoolValue{BoolValue: n.b}}
	case 4:
		if allowNil && r.Bool() {
			return nil
		}
		return &structpb.Value{}
	case 5:
		if len(n.list) == 0 && r.Chance(1, 3) {
			return &structpb.Value{Kind: &structpb.Value_ListValue{ListValue: nil}}
		}
		lv := &structpb.ListValue{}
		for _, x := range n.list {
			lv.Values = append(lv.Values, x.toValue(r, true))
		}
		return &structpb.Value{Kind: &structpb.Value_ListValue{ListValue: lv}}
	default:
		return &structpb.Value{Kind: &structpb.Value_StructValue{StructValue: n.toStruct(r)}}
	}
}

func (n *pbNode) toStruct(r *rec.Rand) *structpb.Struct {
	if len(n.keys) == 0 {
		switch r.Intn(3) {
		case 0:
			return nil
		case 1:
			return &structpb.Struct{}
		}
	}
	st := &structpb.Struct{Fields: map[string]*structpb.Value{}}
	for i, k := range n.keys {
		st.Fields[k] = n.vals[i].toValue(r, true)
	}
	return st
}

// rec encodes the abstract value; struct fields are written in a random order (Go maps have
// none), the model has to sort them.
func (n *pbNode) rec(r *rec.Rand) rec.V {
	switch n.kind {
	case 0:
		return rec.L(rec.I(0))
	case 1:
		return rec.L(rec.I(1), rec.U64(n.bits))
	case 2:
		return rec.L(rec.I(2), rec.S(n.s))
	case 3:
		return rec.L(rec.I(3), rec.Bool(n.b))
	case 4:
		return rec.L(rec.I(4))
	case 5:
		vs := []rec.V{rec.I(5)}
		for _, x := range n.list {
			vs = append(vs, x.rec(r))
		}
		return rec.L(vs...)
	default:
		return rec.L(append([]rec.V{rec.I(6)}, n.fieldsRec(r)...)...)
	}
}

func (n *pbNode) fieldsRec(r *rec.Rand) []rec.V {
	idx := make([]int, len(n.keys))
	for i := range idx {
		idx[i] = i
	}
	if len(idx) <= 300 { // large structs are built in ascending key order and recorded that way
		rec.Shuffle(r, idx)
	}
	var vs []rec.V
	for _, i := range idx {
		vs = append(vs, rec.S(n.keys[i]), n.vals[i].rec(r))
	}
	return vs
}

func emptyStruct() *pbNode { return &pbNode{kind: 6} }

// ------------------------------------------------------------------ abstract tuples

type atuple struct {
	o, r, u string
	hasCond bool
	name    string
	ctx     *pbNode // struct
	nilPtr  bool    // nil *TupleKey (behaves as the empty tuple without condition)
}

func (t atuple) toKey(r *rec.Rand) *openfgav1.TupleKey {
	if t.nilPtr {
		return nil
	}
	tk := &openfgav1.TupleKey{Object: t.o, Relation: t.r, User: t.u}
	if t.hasCond {
		tk.Condition = &openfgav1.RelationshipCondition{Name: t.name, Context: t.ctx.toStruct(r)}
	}
	return tk
}

func (t atuple) rec(r *rec.Rand) rec.V {
	if !t.hasCond {
		return rec.L(rec.S(t.o), rec.S(t.r), rec.S(t.u), rec.I(0))
	}
	return rec.L(rec.S(t.o), rec.S(t.r), rec.S(t.u), rec.I(1), rec.S(t.name), rec.L(t.ctx.fieldsRec(r)...))
}

func (t atuple) clone() atuple {
	c := t
	c.ctx = t.ctx.clone()
	return c
}

var tObjects = []string{"doc:1", "doc:2", "group:1", "doc:1", "", "a"}
var tRels = []string{"viewer", "member", "parent", "", "a"}
var tUsers = []string{"user:anne", "user:bob", "group:1#member", "user:*", "", "a"}
var tConds = []string{"c1", "c2", "", "a", "c1"}

func genTuple(r *rec.Rand, wild bool) atuple {
	var t atuple
	if wild && r.Chance(1, 3) {
		t = atuple{o: gstr(r), r: gstr(r), u: gstr(r)}
	} else {
		t = atuple{o: rec.Pick(r, tObjects), r: rec.Pick(r, tRels), u: rec.Pick(r, tUsers)}
	}
	if r.Chance(2, 5) {
		t.hasCond = true
		t.name = rec.Pick(r, tConds)
		if wild && r.Chance(1, 4) {
			t.name = gstr(r)
		}
		if r.Chance(1, 2) {
			t.ctx = genStruct(r, 1)
		} else {
			t.ctx = emptyStruct()
		}
	}
	if wild && r.Chance(1, 60) {
		t = atuple{nilPtr: true}
	}
	return t
}

// ------------------------------------------------------------------ check inputs (invariant + sub-problem key)

type checkIn struct {
	store, model, obj, rel, user string
	ctx                          *pbNode
	tuples                       []atuple
}

func (c checkIn) clone() checkIn {
	d := c
	d.ctx = c.ctx.clone()
	d.tuples = nil
	for _, t := range c.tuples {
		d.tuples = append(d.tuples, t.clone())
	}
	return d
}

const dsl = `model
  schema 1.1
type user
type group
  relations
    define member: [user, user with c1, user with c2, group#member, user:*]
type doc
  relations
    define viewer: [user, user with c1, group#member, group#member with c1, user:* with c2]
    define parent: [doc]
    define can: viewer or viewer from parent
condition c1(x: int) {
  x < 10
}
condition c2(s: string) {
  s == "a"
}
`

var theGraph *modelgraph.AuthorizationModelGraph

const validModelID = "01ARZ3NDEKTSV4RRFFQ69G5FAV"

func initGraph() {
	m := transformer.MustTransformDSLToProto(dsl)
	m.Id = validModelID
	g, err := modelgraph.New(m)
	if err != nil {
		panic(err)
	}
	theGraph = g
}

// tuples that NewRequest accepts as contextual tuples for the model above
var validCtxTuples = []atuple{
	{o: "group:1", r: "member", u: "user:anne"},
	{o: "group:1", r: "member", u: "user:bob"},
	{o: "group:1", r: "member", u: "user:anne", hasCond: true, name: "c1"},
	{o: "group:1", r: "member", u: "user:anne", hasCond: true, name: "c2"},
	{o: "group:1", r: "member", u: "group:2#member"},
	{o: "group:2", r: "member", u: "user:*"},
	{o: "doc:1", r: "viewer", u: "user:anne"},
	{o: "doc:1", r: "viewer", u: "user:anne", hasCond: true, name: "c1"},
	{o: "doc:1", r: "viewer", u: "group:1#member"},
	{o: "doc:1", r: "viewer", u: "group:1#member", hasCond: true, name: "c1"},
	{o: "doc:1", r: "viewer", u: "user:*", hasCond: true, name: "c2"},
	{o: "doc:2", r: "parent", u: "doc:1"},
}

func genCheckIn(r *rec.Rand, valid bool) checkIn {
	var c checkIn
	if valid {
		c = checkIn{store: rec.Pick(r, []string{"01ARZ3NDEKTSV4RRFFQ69G5FAW", "s", "store2"}), model: validModelID,
			obj: rec.Pick(r, []string{"doc:1", "doc:2"}), rel: rec.Pick(r, []string{"viewer", "can"}),
			user: rec.Pick(r, []string{"user:anne", "user:bob", "group:1#member", "user:*"})}
		n := r.Intn(5)
		if r.Chance(1, 15) {
			n = 13 + r.Intn(8)
		}
		for i := 0; i < n; i++ {
			t := rec.Pick(r, validCtxTuples).clone()
			if t.hasCond {
				// beyond 12 tuples Go's sort is no longer the modelled insertion sort: keep tied
				// tuples identical there (mostly), so that the sorted order is unique
				if r.Chance(2, 3) && (n <= 12 || r.Chance(1, 10)) {
					t.ctx = genStruct(r, 1)
				} else {
					t.ctx = emptyStruct()
				}
			}
			c.tuples = append(c.tuples, t)
		}
	} else {
		c = checkIn{store: gstr(r), model: gstr(r), obj: gstr(r), rel: gstr(r), user: gstr(r)}
		n := r.Intn(5)
		if r.Chance(1, 15) {
			n = 13 + r.Intn(8)
		}
		for i := 0; i < n; i++ {
			if len(c.tuples) > 0 && r.Chance(1, 4) {
				// deliberately provoke ties: same object/relation/user, maybe another condition/context
				t := rec.Pick(r, c.tuples).clone()
				t.nilPtr = false
				how := r.Intn(4)
				if n > 12 && !r.Chance(1, 10) {
					how = 0
				}
				switch how {
				case 0:
				case 1:
					if t.hasCond {
						t.ctx = genStruct(r, 1)
					}
				case 2:
					t.hasCond, t.name, t.ctx = true, rec.Pick(r, tConds), genStruct(r, 0)
				default:
					t.hasCond, t.name, t.ctx = false, "", nil
				}
				c.tuples = append(c.tuples, t)
			} else {
				c.tuples = append(c.tuples, genTuple(r, true))
			}
		}
	}
	if r.Chance(1, 3) {
		c.ctx = emptyStruct()
	} else {
		c.ctx = genStruct(r, 2)
	}
	return c
}

// mutate derives the second element of a pair. It returns a label for the statistics.
func mutateCheckIn(r *rec.Rand, a checkIn, valid bool) (checkIn, string) {
	b := a.clone()
	shift := func(x, y *string) bool { // move one byte across a field boundary
		if len(*x) > 0 && r.Bool() {
			*y = (*x)[len(*x)-1:] + *y
			*x = (*x)[:len(*x)-1]
			return true
		}
		if len(*y) > 0 {
			*x = *x + (*y)[:1]
			*y = (*y)[1:]
			return true
		}
		return false
	}
	m := r.Intn(16)
	if valid {
		m = rec.Pick(r, []int{0, 0, 1, 5, 6, 7, 8, 9, 12, 13, 14})
	}
	switch m {
	case 0:
		rec.Shuffle(r, b.tuples)
		return b, "same_reordered"
	case 1:
		if len(b.tuples) > 0 {
			i := r.Intn(len(b.tuples))
			b.tuples = append(b.tuples, b.tuples[i].clone())
			rec.Shuffle(r, b.tuples)
			return b, "dup_tuple"
		}
		b.store += "x"
		return b, "store_changed"
	case 2:
		if shift(&b.store, &b.model) {
			return b, "shift_store_model"
		}
		return b, "same"
	case 3:
		switch r.Intn(3) {
		case 0:
			shift(&b.obj, &b.rel)
		case 1:
			shift(&b.rel, &b.user)
		default:
			shift(&b.store, &b.obj)
		}
		return b, "shift_check_fields"
	case 4:
		if len(b.tuples) > 0 {
			i := r.Intn(len(b.tuples))
			t := &b.tuples[i]
			if !t.nilPtr {
				switch r.Intn(3) {
				case 0:
					shift(&t.o, &t.r)
				case 1:
					shift(&t.r, &t.u)
				default:
					if t.hasCond {
						shift(&t.u, &t.name)
					} else {
						shift(&t.o, &t.u)
					}
				}
			}
			return b, "shift_tuple_fields"
		}
		return b, "same"
	case 5:
		// condition present vs absent / empty name / empty context
		if len(b.tuples) > 0 {
			i := r.Intn(len(b.tuples))
			t := &b.tuples[i]
			if t.nilPtr {
				return b, "same"
			}
			if t.hasCond {
				if r.Bool() && !valid {
					t.hasCond, t.name, t.ctx = false, "", nil
					return b, "cond_dropped"
				}
				t.ctx = genStruct(r, 1)
				return b, "cond_ctx_changed"
			}
			if !valid {
				t.hasCond, t.name, t.ctx = true, rec.Pick(r, []string{"", "c1"}), emptyStruct()
				return b, "cond_added"
			}
		}
		return b, "same"
	case 6:
		// request context moved into / out of the last tuple's condition context
		if len(b.tuples) > 0 {
			t := &b.tuples[len(b.tuples)-1]
			if t.hasCond {
				t.ctx, b.ctx = b.ctx.clone(), t.ctx.clone()
				return b, "swap_ctx_with_last_cond_ctx"
			}
		}
		b.ctx = genStruct(r, 2)
		return b, "ctx_regenerated"
	case 7:
		// value kind confusion inside the context
		if len(b.ctx.vals) > 0 {
			i := r.Intn(len(b.ctx.vals))
			v := b.ctx.vals[i]
			switch v.kind {
			case 1:
				b.ctx.vals[i] = &pbNode{kind: 2, s: "1"}
			case 2:
				b.ctx.vals[i] = &pbNode{kind: 1, bits: 0x3ff0000000000000}
			case 3:
				b.ctx.vals[i] = &pbNode{kind: 1, bits: map[bool]uint64{false: 0, true: 0x3ff0000000000000}[v.b]}
			case 0:
				b.ctx.vals[i] = &pbNode{kind: 4}
			case 4:
				b.ctx.vals[i] = &pbNode{kind: 0}
			case 5:
				// list [k, v] vs struct {k: v}
				nd := &pbNode{kind: 6}
				for j := 0; j+1 < len(v.list); j += 2 {
					if v.list[j].kind == 2 {
						nd.keys = append(nd.keys, v.list[j].s)
						nd.vals = append(nd.vals, v.list[j+1])
					}
				}
				nd2 := &pbNode{kind: 6}
				seen := map[string]bool{}
				for j, k := range nd.keys {
					if !seen[k] {
						seen[k] = true
						nd2.keys = append(nd2.keys, k)
						nd2.vals = append(nd2.vals, nd.vals[j])
					}
				}
				b.ctx.vals[i] = nd2
			default:
				// struct {k: v} vs list [k, v]
				nd := &pbNode{kind: 5}
				for j, k := range v.keys {
					nd.list = append(nd.list, &pbNode{kind: 2, s: k}, v.vals[j])
				}
				b.ctx.vals[i] = nd
			}
			return b, "ctx_kind_confusion"
		}
		b.ctx.keys = append(b.ctx.keys, "k")
		b.ctx.vals = append(b.ctx.vals, &pbNode{kind: 0})
		return b, "ctx_null_field_added"
	case 8:
		// drop or add a field (missing vs null / unset / empty)
		if len(b.ctx.keys) > 0 && r.Bool() {
			i := r.Intn(len(b.ctx.keys))
			b.ctx.keys = append(b.ctx.keys[:i], b.ctx.keys[i+1:]...)
			b.ctx.vals = append(b.ctx.vals[:i], b.ctx.vals[i+1:]...)
			return b, "ctx_field_dropped"
		}
		k := "zz" + gstr(r)
		if len(k) > 40 {
			k = k[:5]
		}
		for _, e := range b.ctx.keys {
			if e == k {
				return b, "same"
			}
		}
		b.ctx.keys = append(b.ctx.keys, k)
		b.ctx.vals = append(b.ctx.vals, rec.Pick(r, []*pbNode{{kind: 0}, {kind: 4}, {kind: 6}, {kind: 5}, {kind: 2}}))
		return b, "ctx_empty_field_added"
	case 9:
		// nesting: {"a": {"b": v}} vs {"a.b": v} / key-value swap
		if len(b.ctx.keys) > 0 {
			i := r.Intn(len(b.ctx.keys))
			v := b.ctx.vals[i]
			if v.kind == 6 && len(v.keys) > 0 {
				nk := b.ctx.keys[i] + v.keys[0]
				for _, e := range b.ctx.keys {
					if e == nk {
						return b, "same"
					}
				}
				b.ctx.keys[i] = nk
				b.ctx.vals[i] = v.vals[0]
				return b, "ctx_flattened"
			}
			if v.kind == 2 && v.s != b.ctx.keys[i] {
				for _, e := range b.ctx.keys {
					if e == v.s {
						return b, "same"
					}
				}
				b.ctx.keys[i], b.ctx.vals[i] = v.s, &pbNode{kind: 2, s: b.ctx.keys[i]}
				return b, "ctx_key_value_swapped"
			}
		}
		return b, "same"
	case 10:
		// a 3-field tuple followed by another tuple vs one 5-field tuple
		if len(b.tuples) >= 2 {
			t0, t1 := b.tuples[0], b.tuples[1]
			if !t0.hasCond && !t0.nilPtr && !t1.nilPtr {
				b.tuples = append([]atuple{{o: t0.o, r: t0.r, u: t0.u, hasCond: true, name: t1.o, ctx: emptyStruct()}}, b.tuples[2:]...)
				return b, "two_tuples_vs_conditioned_tuple"
			}
		}
		return b, "same"
	case 11:
		b.model, b.store = b.store, b.model
		return b, "store_model_swapped"
	case 12:
		switch r.Intn(5) {
		case 0:
			b.store += rec.Pick(r, []string{"x", "\x00", "\x04"})
		case 1:
			b.obj = rec.Pick(r, []string{"doc:1", "doc:2", "doc:3"})
		case 2:
			b.rel = rec.Pick(r, []string{"viewer", "can"})
		case 3:
			b.user = rec.Pick(r, []string{"user:anne", "user:bob", "group:1#member", "user:*"})
		default:
			if !valid {
				b.model += "1"
			}
		}
		return b, "one_field_changed"
	case 13:
		// duplicated contextual tuple that differs only in its condition context, in both orders
		if len(b.tuples) > 0 {
			i := r.Intn(len(b.tuples))
			if b.tuples[i].hasCond {
				t := b.tuples[i].clone()
				t.ctx = genStruct(r, 1)
				b.tuples = append([]atuple{t}, b.tuples...)
				return b, "tied_tuple_prepended"
			}
		}
		return b, "same"
	case 14:
		// number bit patterns
		if len(b.ctx.vals) > 0 {
			i := r.Intn(len(b.ctx.vals))
			if b.ctx.vals[i].kind == 1 {
				b.ctx.vals[i] = &pbNode{kind: 1, bits: b.ctx.vals[i].bits ^ 0x8000000000000000}
				return b, "number_sign_flipped"
			}
		}
		return b, "same"
	default:
		return genCheckIn(r, false), "independent"
	}
}

func (c checkIn) run(r *rec.Rand, w *rec.Writer, valid bool) rec.V {
	tks := make([]*openfgav1.TupleKey, len(c.tuples))
	for i, t := range c.tuples {
		tks[i] = t.toKey(r)
	}
	ctx := c.ctx.toStruct(r)
	before := make([]*openfgav1.TupleKey, len(tks))
	copy(before, tks)
	inv := storage.InvariantCacheKey(c.store, c.model, ctx, tks...)
	for i := range tks {
		if tks[i] != before[i] {
			w.PropFail("InvariantCacheKey reordered the caller's contextual tuples", map[string]any{"store": c.store})
			break
		}
	}
	key := storage.CheckCacheKey(c.store, c.obj, c.rel, c.user, inv)
	via := 0
	var edgeKey []byte
	if valid {
		req, err := check.NewRequest(check.RequestParams{StoreID: c.store, Model: theGraph,
			TupleKey: &openfgav1.TupleKey{Object: c.obj, Relation: c.rel, User: c.user}, ContextualTuples: tks, Context: ctx})
		if err == nil {
			via = 1
			w.Stat("check.via_NewRequest", 1)
			if req.GetInvariantCacheKey() != inv || !bytes.Equal(req.GetCacheKey().Bytes(), key.Bytes()) {
				w.PropFail("NewRequest's cache key differs from CheckCacheKey(InvariantCacheKey(...))", map[string]any{"obj": c.obj, "user": c.user})
			}
			for _, t := range c.tuples { // the contextual-tuple indexes are keyed by ctxTuplesBy*Key
				if lst, ok := req.GetContextualTuplesByObjectID(t.o, t.r, userTypeOf(t.u)); !ok || len(lst) == 0 {
					w.PropFail("contextual tuple not found through its by-object index key", map[string]any{"o": t.o, "r": t.r, "u": t.u})
				}
			}
			edges, _ := theGraph.GetEdgesFromNodeID("doc#viewer")
			if len(edges) > 0 {
				e := edges[r.Intn(len(edges))]
				edgeKey = append([]byte{}, check.EdgeCacheKey(req, e).Bytes()...)
				want := edgeArgs{c.store, c.model, c.obj, c.user, e.GetRelationDefinition(), uint64(e.GetEdgeType()),
					e.GetTo().GetUniqueLabel(), e.GetTuplesetRelation(), inv}
				w.Case(map[string]any{"k": "edge_via_request", "nt": true}, rec.I(7), want.rec(edgeKey), want.rec(edgeKey))
				w.Stat("plain.edge_via_NewRequest", 1)
			}
		} else {
			w.Stat("check.NewRequest_rejected", 1)
		}
	}
	ts := make([]rec.V, len(c.tuples))
	for i, t := range c.tuples {
		ts[i] = t.rec(r)
	}
	perm := sortPerm(tks)
	// diagnostic replica of the digest input (the real function only returns the digest; the
	// oracle checks the real digest against xxhash64(model bytes) independently of this)
	rb := keys.GetBuilder()
	rb.EncodeString(c.store)
	rb.EncodeString(c.model)
	sorted := make(tuple.TupleKeys, len(tks))
	copy(sorted, tks)
	sort.Sort(sorted)
	rb.EncodeArrayHeader(len(sorted))
	for _, t := range sorted {
		(*keys.Tuple)(t).WriteTo(rb.Builder)
	}
	(*keys.PbValue)(structpb.NewStructValue(ctx)).WriteTo(rb.Builder)
	replica := append([]byte{}, rb.Bytes()...)
	rb.Close()
	return rec.L(rec.S(c.store), rec.S(c.model), rec.S(c.obj), rec.S(c.rel), rec.S(c.user),
		rec.L(c.ctx.fieldsRec(r)...), rec.L(ts...), rec.U64(inv), rec.B(key.Bytes()), rec.I(via), rec.LI(perm), rec.B(replica))
}

// sortPerm returns the order sort.Sort(tuple.TupleKeys) puts the tuples in, as indices into tks.
// Distinct wrapper pointers make the order observable even among tied or nil entries.
func sortPerm(tks []*openfgav1.TupleKey) []int {
	cp := make(tuple.TupleKeys, len(tks))
	pos := map[*openfgav1.TupleKey]int{}
	for i, t := range tks {
		if t == nil {
			// a nil *TupleKey reads as the empty tuple through the getters; a distinct empty
			// stand-in keeps its position observable
			c := &openfgav1.TupleKey{}
			cp[i] = c
			pos[c] = i
			continue
		}
		c := &openfgav1.TupleKey{Object: t.GetObject(), Relation: t.GetRelation(), User: t.GetUser(), Condition: t.GetCondition()}
		cp[i] = c
		pos[c] = i
	}
	sort.Sort(cp)
	perm := make([]int, 0, len(cp))
	for _, c := range cp {
		perm = append(perm, pos[c])
	}
	return perm
}

func userTypeOf(u string) string {
	if tuple.IsObjectRelation(u) {
		return tuple.ToObjectRelationString(tuple.GetType(u), tuple.GetRelation(u))
	}
	return tuple.GetType(u)
}

// ------------------------------------------------------------------ iterator filters

type ufEntry struct{ o, r string }
type refEntry struct {
	t    string
	kind int // 0 relation, 1 wildcard, 2 none
	r    string
}
type iterIn struct {
	which                  int // 4 RSWU, 5 RUT, 6 READ
	store, a, b, user      string
	uf                     []ufEntry
	refs                   []refEntry
	oidsNil                bool
	oids                   []string
	conds                  []string
	condsNil               bool
}

var condVocab = []string{"", "c1", "c2", "c1", "cond", "a"}

func genConds(r *rec.Rand) ([]string, bool) {
	if r.Chance(1, 4) {
		return nil, r.Bool()
	}
	n := r.Intn(4)
	if r.Chance(1, 20) {
		n = 13 + r.Intn(5)
	}
	out := make([]string, n)
	for i := range out {
		if r.Chance(1, 6) {
			out[i] = gstr(r)
		} else {
			out[i] = rec.Pick(r, condVocab)
		}
	}
	return out, false
}

func genIter(r *rec.Rand, which int) iterIn {
	it := iterIn{which: which, store: gstr(r), a: gstr(r), b: gstr(r), user: gstr(r)}
	if r.Chance(2, 3) {
		it.store = rec.Pick(r, []string{"01ARZ3NDEKTSV4RRFFQ69G5FAW", "s"})
		it.a = rec.Pick(r, []string{"doc", "doc:1", "group:1"})
		it.b = rec.Pick(r, []string{"viewer", "member"})
		it.user = rec.Pick(r, []string{"user:anne", "group:1#member"})
	}
	it.conds, it.condsNil = genConds(r)
	switch which {
	case 4:
		n := r.Intn(4)
		if r.Chance(1, 20) {
			n = 13 + r.Intn(4)
		}
		for i := 0; i < n; i++ {
			e := ufEntry{o: rec.Pick(r, []string{"user:anne", "user:*", "group:1", "group:1#member", "group:2", ""}),
				r: rec.Pick(r, []string{"", "", "member", "viewer", "member#x"})}
			if r.Chance(1, 6) {
				e = ufEntry{gstr(r), gstr(r)}
			}
			it.uf = append(it.uf, e)
		}
		switch r.Intn(4) {
		case 0:
			it.oidsNil = true
		case 1:
		default:
			m := 1 + r.Intn(4)
			for i := 0; i < m; i++ {
				if r.Chance(1, 5) {
					it.oids = append(it.oids, gstr(r))
				} else {
					it.oids = append(it.oids, rec.Pick(r, []string{"1", "2", "3", "10", "", "a"}))
				}
			}
		}
	case 5:
		n := r.Intn(4)
		if r.Chance(1, 20) {
			n = 13 + r.Intn(4)
		}
		for i := 0; i < n; i++ {
			e := refEntry{t: rec.Pick(r, []string{"user", "group", "group#member", "group:*", "g", ""}), kind: r.Intn(3),
				r: rec.Pick(r, []string{"member", "", "viewer", "*"})}
			if r.Chance(1, 6) {
				e.t, e.r = gstr(r), gstr(r)
			}
			if e.kind != 0 {
				e.r = ""
			}
			it.refs = append(it.refs, e)
		}
	}
	return it
}

func (it iterIn) clone() iterIn {
	c := it
	c.uf = append([]ufEntry(nil), it.uf...)
	c.refs = append([]refEntry(nil), it.refs...)
	c.oids = append([]string(nil), it.oids...)
	c.conds = append([]string(nil), it.conds...)
	return c
}

func mutateIter(r *rec.Rand, a iterIn) (iterIn, string) {
	b := a.clone()
	switch r.Intn(12) {
	case 0:
		rec.Shuffle(r, b.uf)
		rec.Shuffle(r, b.refs)
		rec.Shuffle(r, b.conds)
		rec.Shuffle(r, b.oids)
		return b, "same_reordered"
	case 1:
		if len(b.conds) > 0 {
			b.conds = append(b.conds, b.conds[r.Intn(len(b.conds))])
			rec.Shuffle(r, b.conds)
			return b, "dup_condition"
		}
		b.conds, b.condsNil = []string{""}, false
		return b, "nocond_sentinel_vs_nil"
	case 2:
		if len(b.uf) > 0 {
			b.uf = append(b.uf, b.uf[r.Intn(len(b.uf))])
			return b, "dup_userfilter"
		}
		if len(b.refs) > 0 {
			b.refs = append(b.refs, b.refs[r.Intn(len(b.refs))])
			return b, "dup_ref"
		}
		return b, "same"
	case 3:
		// object "x#y" without relation vs object "x" with relation "y"
		for i, e := range b.uf {
			if e.r != "" {
				b.uf[i] = ufEntry{o: e.o + "#" + e.r}
				return b, "uf_hash_moved"
			}
			if j := strings.IndexByte(e.o, '#'); j >= 0 {
				b.uf[i] = ufEntry{o: e.o[:j], r: e.o[j+1:]}
				return b, "uf_hash_moved"
			}
		}
		for i, e := range b.refs {
			switch e.kind {
			case 0:
				b.refs[i] = refEntry{t: e.t + "#" + e.r, kind: 2}
			case 1:
				b.refs[i] = refEntry{t: e.t + ":*", kind: 2}
			default:
				if j := strings.IndexByte(e.t, '#'); j >= 0 {
					b.refs[i] = refEntry{t: e.t[:j], kind: 0, r: e.t[j+1:]}
				} else if strings.HasSuffix(e.t, ":*") {
					b.refs[i] = refEntry{t: e.t[:len(e.t)-2], kind: 1}
				} else {
					b.refs[i] = refEntry{t: e.t, kind: 1}
				}
			}
			return b, "ref_kind_moved"
		}
		return b, "same"
	case 4:
		// nil vs empty ObjectIDs / nil vs empty conditions
		if b.which == 4 && len(b.oids) == 0 {
			b.oidsNil = !b.oidsNil
			return b, "oids_nil_vs_empty"
		}
		if len(b.conds) == 0 {
			b.condsNil = !b.condsNil
			return b, "conds_nil_vs_empty"
		}
		return b, "same"
	case 5:
		// move an entry between the arrays of the hashed suffix
		if b.which == 4 && len(b.oids) > 0 {
			b.conds = append(b.conds, b.oids[len(b.oids)-1])
			b.oids = b.oids[:len(b.oids)-1]
			if len(b.oids) == 0 {
				b.oidsNil = r.Bool()
			}
			return b, "oid_moved_to_conds"
		}
		if b.which == 5 && len(b.conds) > 0 {
			b.refs = append(b.refs, refEntry{t: b.conds[0], kind: 2})
			b.conds = b.conds[1:]
			return b, "cond_moved_to_refs"
		}
		if b.which == 4 && len(b.conds) > 0 {
			b.uf = append(b.uf, ufEntry{o: b.conds[0]})
			b.conds = b.conds[1:]
			return b, "cond_moved_to_uf"
		}
		return b, "same"
	case 6:
		x, y := &b.a, &b.b
		if r.Bool() {
			x, y = &b.store, &b.a
		}
		if len(*x) > 0 {
			*y = (*x)[len(*x)-1:] + *y
			*x = (*x)[:len(*x)-1]
			return b, "shift_outer_fields"
		}
		return b, "same"
	case 7:
		b.store += "2"
		return b, "store_changed"
	case 8:
		// two conditions joined into one
		if len(b.conds) >= 2 {
			b.conds = append([]string{b.conds[0] + b.conds[1]}, b.conds[2:]...)
			return b, "conds_joined"
		}
		if len(b.oids) >= 2 {
			b.oids = append([]string{b.oids[0] + b.oids[1]}, b.oids[2:]...)
			return b, "oids_joined"
		}
		return b, "same"
	case 9:
		if len(b.oids) > 0 {
			b.oids = append(b.oids, b.oids[0]) // the set ignores it
			return b, "oid_added_twice"
		}
		b.user += "x"
		return b, "user_changed"
	case 10:
		b.which = a.which
		c := genIter(r, a.which)
		c.store, c.a, c.b, c.user = a.store, a.a, a.b, a.user
		return c, "same_outer_other_filters"
	default:
		return genIter(r, a.which), "independent"
	}
}

func (it iterIn) run(w *rec.Writer) rec.V {
	conds := it.conds
	if len(conds) == 0 {
		if it.condsNil {
			conds = nil
		} else {
			conds = []string{}
		}
	}
	cl := rec.LS(it.conds)
	switch it.which {
	case 4:
		var uf []*openfgav1.ObjectRelation
		var ufr []rec.V
		for _, e := range it.uf {
			uf = append(uf, &openfgav1.ObjectRelation{Object: e.o, Relation: e.r})
			ufr = append(ufr, rec.L(rec.S(e.o), rec.S(e.r)))
		}
		f := storage.ReadStartingWithUserFilter{ObjectType: it.a, Relation: it.b, UserFilter: uf, Conditions: conds}
		oidr := rec.L(rec.I(0))
		if !it.oidsNil {
			set := storage.NewSortedSet(it.oids...)
			f.ObjectIDs = set
			oidr = rec.L(rec.I(1), rec.LS(set.Values()))
		}
		k := storage.ReadStartingWithUserKey(it.store, f)
		return rec.L(rec.S(it.store), rec.S(it.a), rec.S(it.b), rec.L(ufr...), oidr, cl, rec.B(k.Bytes()))
	case 5:
		var refs []*openfgav1.RelationReference
		var rr []rec.V
		for _, e := range it.refs {
			ref := &openfgav1.RelationReference{Type: e.t}
			switch e.kind {
			case 0:
				ref.RelationOrWildcard = &openfgav1.RelationReference_Relation{Relation: e.r}
			case 1:
				ref.RelationOrWildcard = &openfgav1.RelationReference_Wildcard{Wildcard: &openfgav1.Wildcard{}}
			}
			refs = append(refs, ref)
			rr = append(rr, rec.L(rec.S(e.t), rec.I(e.kind), rec.S(e.r)))
		}
		f := storage.ReadUsersetTuplesFilter{Object: it.a, Relation: it.b, AllowedUserTypeRestrictions: refs, Conditions: conds}
		k := storage.ReadUsersetTuplesKey(it.store, f)
		return rec.L(rec.S(it.store), rec.S(it.a), rec.S(it.b), rec.L(rr...), cl, rec.B(k.Bytes()))
	default:
		f := storage.ReadFilter{Object: it.a, Relation: it.b, User: it.user, Conditions: conds}
		k := storage.ReadKey(it.store, f)
		return rec.L(rec.S(it.store), rec.S(it.a), rec.S(it.b), rec.S(it.user), cl, rec.B(k.Bytes()))
	}
}

// ------------------------------------------------------------------ plain keys

type edgeArgs struct {
	store, model, obj, user, reldef string
	etype                           uint64
	tolabel, tsrel                  string
	inv                             uint64
}

func (e edgeArgs) rec(key []byte) rec.V {
	return rec.L(rec.I(7), rec.L(rec.S(e.store), rec.S(e.model), rec.S(e.obj), rec.S(e.user), rec.S(e.reldef),
		rec.U64(e.etype), rec.S(e.tolabel), rec.S(e.tsrel), rec.U64(e.inv)), rec.B(key))
}

type plainIn struct {
	ctor int
	s    []string
	n    []uint64
}

func genPlain(r *rec.Rand) plainIn {
	p := plainIn{ctor: 1 + r.Intn(8)}
	ar := map[int]int{1: 1, 2: 1, 3: 3, 4: 3, 5: 2, 6: 2, 7: 7, 8: 4}[p.ctor]
	for i := 0; i < ar; i++ {
		p.s = append(p.s, gstr(r))
	}
	u := func() uint64 {
		if r.Chance(1, 3) {
			return rec.Pick(r, []uint64{0, 1, 255, 256, 1 << 32, 1<<63 - 1, 1 << 63, math.MaxUint64})
		}
		return r.Uint64()
	}
	switch p.ctor {
	case 7:
		p.n = []uint64{uint64(r.Intn(8)), u()}
		if r.Chance(1, 8) {
			p.n[0] = u()
		}
	case 8:
		p.n = []uint64{u()}
	}
	return p
}

func mutatePlain(r *rec.Rand, a plainIn) (plainIn, string) {
	b := plainIn{ctor: a.ctor, s: append([]string(nil), a.s...), n: append([]uint64(nil), a.n...)}
	switch r.Intn(6) {
	case 0:
		return b, "same"
	case 1:
		if len(b.s) >= 2 {
			i := r.Intn(len(b.s) - 1)
			if len(b.s[i]) > 0 {
				b.s[i+1] = b.s[i][len(b.s[i])-1:] + b.s[i+1]
				b.s[i] = b.s[i][:len(b.s[i])-1]
				return b, "shift"
			}
		}
		b.s[0] += "\x04"
		return b, "suffix_tag_byte"
	case 2:
		// same arguments, another constructor of the same arity
		alt := map[int]int{1: 2, 2: 1, 3: 4, 4: 3, 5: 6, 6: 5}
		if c, ok := alt[a.ctor]; ok {
			b.ctor = c
			return b, "other_ctor_same_args"
		}
		if len(b.n) > 0 {
			b.n[len(b.n)-1] ^= 1 << uint(r.Intn(64))
			return b, "bit_flip"
		}
		return b, "same"
	case 3:
		if len(b.n) > 0 {
			b.n[r.Intn(len(b.n))] ^= 1 << uint(r.Intn(64))
			return b, "bit_flip"
		}
		if len(b.s) >= 2 {
			b.s[0], b.s[1] = b.s[1], b.s[0]
			return b, "swap"
		}
		b.s[0] = gstr(r)
		return b, "one_changed"
	case 4:
		i := r.Intn(len(b.s))
		b.s[i] = gstr(r)
		return b, "one_changed"
	default:
		return genPlain(r), "independent"
	}
}

func (p plainIn) run() rec.V {
	var key keys.Key
	switch p.ctor {
	case 1:
		key = storage.ChangelogCacheKey(p.s[0])
	case 2:
		key = storage.InvalidIteratorCacheKey(p.s[0])
	case 3:
		key = storage.InvalidIteratorByObjectRelationCacheKey(p.s[0], p.s[1], p.s[2])
	case 4:
		key = storage.InvalidIteratorByUserObjectTypeCacheKey(p.s[0], p.s[1], p.s[2])
	case 5:
		key = storagewrappers.ModelCacheKey(p.s[0], p.s[1])
	case 6:
		key = modelgraph.CacheKey(p.s[0], p.s[1])
	case 7:
		// a hand-built graph gives an edge with arbitrary labels; a literal Request has invariant 0
		g := authzGraph.NewWeightedAuthorizationModelGraph()
		g.AddNode("from", "from", authzGraph.SpecificTypeAndRelation)
		g.AddNode(p.s[5], p.s[5], authzGraph.SpecificType)
		g.AddEdge("from", p.s[5], authzGraph.EdgeType(p.n[0]), p.s[4], p.s[6], nil)
		edges, _ := g.GetEdgesFromNodeID("from")
		req := &check.Request{StoreID: p.s[0], AuthorizationModelID: p.s[1], TupleKey: &openfgav1.TupleKey{Object: p.s[2], Relation: "ignored", User: p.s[3]}}
		key = check.EdgeCacheKey(req, edges[0])
		e := edgeArgs{p.s[0], p.s[1], p.s[2], p.s[3], p.s[4], p.n[0], p.s[5], p.s[6], 0}
		return e.rec(key.Bytes())
	default:
		key = storage.CheckCacheKey(p.s[0], p.s[1], p.s[2], p.s[3], p.n[0])
	}
	vs := make([]rec.V, 0, len(p.s)+len(p.n))
	for _, s := range p.s {
		vs = append(vs, rec.S(s))
	}
	for _, n := range p.n {
		vs = append(vs, rec.U64(n))
	}
	// Key.String must be the upper-case hex of the bytes
	const hexd = "0123456789ABCDEF"
	var sb strings.Builder
	for _, c := range key.Bytes() {
		sb.WriteByte(hexd[c>>4])
		sb.WriteByte(hexd[c&15])
	}
	if sb.String() != key.String() {
		panic("Key.String is not the hex form of Key.Bytes")
	}
	return rec.L(rec.I(p.ctor), rec.L(vs...), rec.B(key.Bytes()))
}

// ------------------------------------------------------------------ generic Serializable values

type serNode struct {
	kind int // 0 bytes 1 byte 2 bool 3 null 4 unset 5 u64 6 string 7 array 8 map 9 pair
	s    string
	n    uint64
	kids []*serNode
}

func genSer(r *rec.Rand, depth int) *serNode {
	k := r.Intn(12)
	if depth <= 0 && k >= 7 {
		k = r.Intn(7)
	}
	switch {
	case k == 0 || k == 6:
		return &serNode{kind: k, s: gstr(r)}
	case k == 1:
		return &serNode{kind: 1, n: uint64(r.Intn(256))}
	case k == 2:
		return &serNode{kind: 2, n: uint64(r.Intn(2))}
	case k == 3 || k == 4:
		return &serNode{kind: k}
	case k == 5:
		return &serNode{kind: 5, n: rec.Pick(r, []uint64{0, 1, 4, 255, 256, 1 << 40, math.MaxUint64, r.Uint64()})}
	case k == 7 || k == 10:
		n := r.Intn(4)
		nd := &serNode{kind: 7}
		for i := 0; i < n; i++ {
			nd.kids = append(nd.kids, genSer(r, depth-1))
		}
		return nd
	case k == 8 || k == 11:
		n := r.Intn(3)
		nd := &serNode{kind: 8}
		for i := 0; i < 2*n; i++ {
			nd.kids = append(nd.kids, genSer(r, depth-1))
		}
		return nd
	default:
		return &serNode{kind: 9, kids: []*serNode{genSer(r, depth-1), genSer(r, depth-1)}}
	}
}

func (n *serNode) toSer() keys.Serializable {
	switch n.kind {
	case 0:
		return keys.Bytes(n.s)
	case 1:
		return keys.Byte(byte(n.n))
	case 2:
		return keys.Bool(n.n == 1)
	case 3:
		return keys.Null{}
	case 4:
		return keys.Unset{}
	case 5:
		return keys.Uint64(n.n)
	case 6:
		return keys.String(n.s)
	case 7:
		a := make(keys.Array, len(n.kids))
		for i, k := range n.kids {
			a[i] = k.toSer()
		}
		return a
	case 8:
		m := make(keys.Map, len(n.kids)/2)
		for i := range m {
			m[i] = keys.MapEntry{Key: n.kids[2*i].toSer(), Value: n.kids[2*i+1].toSer()}
		}
		return m
	default:
		return keys.Pair{Key: n.kids[0].toSer(), Value: n.kids[1].toSer()}
	}
}

func (n *serNode) rec() rec.V {
	switch n.kind {
	case 0, 6:
		return rec.L(rec.I(n.kind), rec.S(n.s))
	case 1, 2, 5:
		return rec.L(rec.I(n.kind), rec.U64(n.n))
	case 3, 4:
		return rec.L(rec.I(n.kind))
	default:
		vs := []rec.V{rec.I(n.kind)}
		for _, k := range n.kids {
			vs = append(vs, k.rec())
		}
		return rec.L(vs...)
	}
}


// ------------------------------------------------------------------ boundary sizes of every counted quantity

// uvarint 1/2/3-byte boundaries and the single-byte wrap
var boundSizes = []int{0, 1, 2, 4, 5, 6, 127, 128, 129, 255, 256, 257, 16383, 16384}

const boundFamilies = 19

var nestDepths = []int{31, 32, 33, 40, 100}

func nKeys(n int) []string {
	out := make([]string, n)
	for i := range out {
		out[i] = "k" + pad5(i)
	}
	return out
}

func pad5(i int) string {
	s := "00000" + itoa(i)
	return s[len(s)-5:]
}

func itoa(i int) string {
	if i == 0 {
		return "0"
	}
	var b []byte
	for i > 0 {
		b = append([]byte{byte('0' + i%10)}, b...)
		i /= 10
	}
	return string(b)
}

func nNulls(n int) []*pbNode {
	out := make([]*pbNode, n)
	for i := range out {
		out[i] = &pbNode{kind: 0}
	}
	return out
}

func structOf(ks []string, v func(i int) *pbNode) *pbNode {
	nd := &pbNode{kind: 6}
	for i, k := range ks {
		nd.keys = append(nd.keys, k)
		nd.vals = append(nd.vals, v(i))
	}
	return nd
}

// nest wraps leaf in depth containers (lists, structs, or alternating)
func nest(depth, how int, leaf *pbNode) *pbNode {
	v := leaf
	for i := 0; i < depth; i++ {
		useList := how == 0 || (how == 2 && i%2 == 0)
		if useList {
			v = &pbNode{kind: 5, list: []*pbNode{v}}
		} else {
			v = &pbNode{kind: 6, keys: []string{"a"}, vals: []*pbNode{v}}
		}
	}
	return v
}

func baseCheck() checkIn {
	return checkIn{store: "01ARZ3NDEKTSV4RRFFQ69G5FAW", model: validModelID, obj: "doc:1", rel: "viewer", user: "user:anne", ctx: emptyStruct()}
}

func baseIter(which int) iterIn {
	return iterIn{which: which, store: "01ARZ3NDEKTSV4RRFFQ69G5FAW", a: "doc", b: "viewer", user: "user:anne", oidsNil: true}
}

// boundCase builds boundary case (family, n). Large struct / filter lists are recorded in
// ascending order (fieldsRec keeps the order of sorted input for large n) so that the model's
// insertion sort stays linear.
func boundCase(w *rec.Writer, d desc, r *rec.Rand, seed uint64, fam, n int) {
	checkPair := func(a, b checkIn, m string) {
		d.M = m
		w.Case(d, rec.I(3), rec.U64(seed), a.run(r, w, false), b.run(r, w, false))
		w.Stat("bound.check_pairs", 1)
	}
	iterPair := func(a, b iterIn, m string) {
		d.M = m
		w.Case(d, rec.I(a.which), rec.U64(seed), a.run(w), b.run(w))
		w.Stat("bound.iter_pairs", 1)
	}
	serCase := func(nd *serNode) {
		b := keys.GetBuilder()
		b.Serialize(nd.toSer())
		out := append([]byte{}, b.Bytes()...)
		b.Close()
		w.Case(d, rec.I(1), nd.rec(), rec.B(out))
		w.Stat("bound.ser", 1)
	}
	pbCase := func(nd *pbNode) {
		b := keys.GetBuilder()
		(*keys.PbValue)(nd.toValue(r, false)).WriteTo(b.Builder)
		out := append([]byte{}, b.Bytes()...)
		b.Close()
		w.Case(d, rec.I(2), rec.I(1), nd.rec(r), rec.B(out))
		w.Stat("bound.pb", 1)
	}
	switch fam {
	case 0: // array of n elements nested in an array, followed by a sibling
		inner := &serNode{kind: 7}
		for i := 0; i < n; i++ {
			inner.kids = append(inner.kids, &serNode{kind: 3})
		}
		serCase(&serNode{kind: 7, kids: []*serNode{inner, {kind: 6, s: "x"}}})
	case 1: // map of n entries
		m := &serNode{kind: 8}
		for i := 0; i < n; i++ {
			m.kids = append(m.kids, &serNode{kind: 1, n: uint64(i % 256)}, &serNode{kind: 3})
		}
		serCase(m)
	case 2: // string / bytes of length n
		serCase(&serNode{kind: 7, kids: []*serNode{{kind: 6, s: strings.Repeat("s", n)}, {kind: 0, s: strings.Repeat("\x04", n)}}})
	case 3: // list of n values, top level and nested
		pbCase(&pbNode{kind: 5, list: nNulls(n)})
		pbCase(&pbNode{kind: 5, list: []*pbNode{{kind: 5, list: nNulls(n)}, {kind: 3, b: true}}})
	case 4: // struct of n fields, top level and nested
		pbCase(structOf(nKeys(n), func(i int) *pbNode { return &pbNode{kind: 3, b: i%2 == 0} }))
		pbCase(&pbNode{kind: 5, list: []*pbNode{structOf(nKeys(n), func(int) *pbNode { return &pbNode{kind: 0} }), {kind: 4}}})
	case 5: // {"l": [[e0..e(n-1)]]} vs {"l": [[e0], e1..e(n-1)]}: same element stream, counts 1/n vs n/1
		if n < 2 {
			return
		}
		a, b := baseCheck(), baseCheck()
		a.ctx = structOf([]string{"l"}, func(int) *pbNode { return &pbNode{kind: 5, list: []*pbNode{{kind: 5, list: nNulls(n)}}} })
		b.ctx = structOf([]string{"l"}, func(int) *pbNode {
			return &pbNode{kind: 5, list: append([]*pbNode{{kind: 5, list: nNulls(1)}}, nNulls(n-1)...)}
		})
		checkPair(a, b, "list_elements_across_boundary")
	case 6: // {"a": {k0..k(n-1)}} vs {"a": {k0}, k1..k(n-1)}
		if n < 2 {
			return
		}
		ks := nKeys(n)
		null := func(int) *pbNode { return &pbNode{kind: 0} }
		a, b := baseCheck(), baseCheck()
		a.ctx = structOf([]string{"a"}, func(int) *pbNode { return structOf(ks, null) })
		b.ctx = structOf(append([]string{"a"}, ks[1:]...), func(i int) *pbNode {
			if i == 0 {
				return structOf(ks[:1], null)
			}
			return &pbNode{kind: 0}
		})
		checkPair(a, b, "struct_fields_across_boundary")
	case 7: // n top-level context fields; the pair differs in the last one
		a, b := baseCheck(), baseCheck()
		a.ctx = structOf(nKeys(n), func(int) *pbNode { return &pbNode{kind: 3, b: true} })
		b.ctx = structOf(nKeys(n), func(i int) *pbNode { return &pbNode{kind: 3, b: i != n-1} })
		checkPair(a, b, "last_ctx_field_changed")
	case 8: // n contextual tuples (capped: tie_free is quadratic in the oracle)
		if n > 300 {
			return
		}
		a := baseCheck()
		for i := 0; i < n; i++ {
			a.tuples = append(a.tuples, atuple{o: "doc:" + pad5(i), r: "viewer", u: "user:anne"})
		}
		b := a.clone()
		if n > 0 {
			b.tuples[n-1].u = "user:bob"
		}
		checkPair(a, b, "last_ctx_tuple_changed")
		// the last tuple's condition context swallows / releases the request context
		if n > 0 {
			c, e := a.clone(), a.clone()
			c.tuples[n-1].hasCond, c.tuples[n-1].name, c.tuples[n-1].ctx = true, "c1", emptyStruct()
			c.ctx = structOf([]string{"x"}, func(int) *pbNode { return &pbNode{kind: 0} })
			e.tuples[n-1].hasCond, e.tuples[n-1].name = true, "c1"
			e.tuples[n-1].ctx = structOf([]string{"x"}, func(int) *pbNode { return &pbNode{kind: 0} })
			checkPair(c, e, "ctx_vs_last_cond_ctx")
		}
	case 9: // a condition context with n fields
		a := baseCheck()
		a.tuples = []atuple{{o: "doc:1", r: "viewer", u: "user:anne", hasCond: true, name: "c1",
			ctx: structOf(nKeys(n), func(int) *pbNode { return &pbNode{kind: 2, s: "v"} })}}
		b := a.clone()
		if n > 0 {
			b.tuples[0].ctx.vals[n-1] = &pbNode{kind: 2, s: "w"}
		}
		checkPair(a, b, "last_cond_ctx_field_changed")
	case 10, 11, 12: // n conditions in the three iterator keys; the pair differs in the last (sorted) one
		which := 4 + fam - 10
		a := baseIter(which)
		a.conds = nKeys(n)
		b := a.clone()
		if n > 0 {
			b.conds[n-1] = "kzzzz"
		}
		iterPair(a, b, "last_condition_changed")
	case 13: // n user filters
		a := baseIter(4)
		for i := 0; i < n; i++ {
			a.uf = append(a.uf, ufEntry{o: "group:" + pad5(i), r: "member"})
		}
		b := a.clone()
		if n > 0 {
			b.uf[n-1].r = "owner"
		}
		iterPair(a, b, "last_userfilter_changed")
	case 14: // n object ids
		a := baseIter(4)
		a.oidsNil = false
		a.oids = nKeys(n)
		b := a.clone()
		if n > 0 {
			b.oids[n-1] = "kzzzz"
		}
		iterPair(a, b, "last_objectid_changed")
	case 15: // n user type restrictions
		a := baseIter(5)
		for i := 0; i < n; i++ {
			a.refs = append(a.refs, refEntry{t: "t" + pad5(i), kind: i % 3})
			if i%3 == 0 {
				a.refs[i].r = "member"
			}
		}
		b := a.clone()
		if n > 0 {
			b.refs[n-1] = refEntry{t: "tzzzzz", kind: 2}
		}
		iterPair(a, b, "last_restriction_changed")
	case 16: // string fields of length n, one byte moved across the boundary
		a := baseCheck()
		a.store, a.model = strings.Repeat("s", n), "m"
		b := a.clone()
		if n > 0 {
			b.store, b.model = a.store[:n-1], "s"+a.model
		}
		checkPair(a, b, "store_model_byte_shift")
		it := baseIter(6)
		it.a = strings.Repeat("o", n)
		it2 := it.clone()
		if n > 0 {
			it2.a, it2.b = it.a[:n-1], "o"+it.b
		}
		iterPair(it, it2, "object_relation_byte_shift")
	case 17, 18: // deep nesting: values that differ only at the deepest level
		for _, depth := range nestDepths {
			for how := 0; how < 3; how++ {
				a, b := baseCheck(), baseCheck()
				leafA, leafB := &pbNode{kind: 2, s: "x"}, &pbNode{kind: 2, s: "y"}
				if fam == 18 { // the deepest container's size differs
					leafA, leafB = &pbNode{kind: 5, list: nNulls(1)}, &pbNode{kind: 5, list: nNulls(2)}
				}
				a.ctx = structOf([]string{"d"}, func(int) *pbNode { return nest(depth, how, leafA) })
				b.ctx = structOf([]string{"d"}, func(int) *pbNode { return nest(depth, how, leafB) })
				if n == 0 {
					checkPair(a, b, "deep_leaf_changed")
				} else if how == 0 && fam == 17 { // ... inside a contextual tuple's condition context
					c, e := baseCheck(), baseCheck()
					c.tuples = []atuple{{o: "doc:1", r: "viewer", u: "user:anne", hasCond: true, name: "c1", ctx: a.ctx}}
					e.tuples = []atuple{{o: "doc:1", r: "viewer", u: "user:anne", hasCond: true, name: "c1", ctx: b.ctx}}
					checkPair(c, e, "deep_leaf_changed_in_cond_ctx")
				}
			}
		}
	}
}

// ------------------------------------------------------------------ cases

type desc struct {
	K    string `json:"k"`
	S    uint64 `json:"s"`
	T    string `json:"t"`
	M    string `json:"m,omitempty"`
	NT   *bool  `json:"nt,omitempty"`
	Note string `json:"note,omitempty"`
}

func runCase(w *rec.Writer, kind string, sub uint64, tier string) {
	r := rec.NewRand(sub)
	d := desc{K: kind, S: sub, T: tier}
	seed := r.Uint64()
	keys.Seed = seed // Digest.Reset re-reads it on every GetDigest
	switch kind {
	case "bound":
		fam, si := int(sub/100), int(sub%100)
		if fam >= boundFamilies || si >= len(boundSizes) {
			return
		}
		if fam >= 17 && si > 1 {
			return
		}
		boundCase(w, d, r, seed, fam, boundSizes[si])
	case "ser":
		n := genSer(r, 3)
		b := keys.GetBuilder()
		if r.Bool() {
			b.Serialize(n.toSer())
		} else {
			n.toSer().WriteTo(b.Builder)
		}
		out := append([]byte{}, b.Bytes()...)
		b.Close()
		w.Case(d, rec.I(1), n.rec(), rec.B(out))
		w.Stat("ser.cases", 1)
	case "pb":
		b := keys.GetBuilder()
		if r.Chance(1, 30) {
			(*keys.PbValue)(nil).WriteTo(b.Builder)
			out := append([]byte{}, b.Bytes()...)
			b.Close()
			w.Case(d, rec.I(2), rec.I(0), rec.L(rec.I(4)), rec.B(out))
			w.Stat("pb.nil_pointer", 1)
			return
		}
		n := genPb(r, 3)
		v := n.toValue(r, false)
		(*keys.PbValue)(v).WriteTo(b.Builder)
		out := append([]byte{}, b.Bytes()...)
		b.Close()
		w.Case(d, rec.I(2), rec.I(1), n.rec(r), rec.B(out))
		w.Stat("pb.cases", 1)
		w.Stat("pb.kind"+string(rune('0'+n.kind)), 1)
	case "check", "checkvalid":
		valid := kind == "checkvalid"
		a := genCheckIn(r, valid)
		b, m := mutateCheckIn(r, a, valid)
		d.M = m
		ra := a.run(r, w, valid)
		rb := b.run(r, w, valid)
		w.Case(d, rec.I(3), rec.U64(seed), ra, rb)
		w.Stat("check.pairs", 1)
		w.Stat("check.mut."+m, 1)
		if len(a.tuples) > 12 {
			w.Stat("check.more_than_12_ctx_tuples", 1)
		}
	case "rswu", "rut", "read":
		which := map[string]int{"rswu": 4, "rut": 5, "read": 6}[kind]
		a := genIter(r, which)
		b, m := mutateIter(r, a)
		d.M = m
		w.Case(d, rec.I(which), rec.U64(seed), a.run(w), b.run(w))
		w.Stat("iter."+kind+".pairs", 1)
		w.Stat("iter.mut."+m, 1)
	case "plain":
		a := genPlain(r)
		b, m := mutatePlain(r, a)
		d.M = m
		w.Case(d, rec.I(7), a.run(), b.run())
		w.Stat("plain.pairs", 1)
		w.Stat("plain.ctor"+string(rune('0'+a.ctor)), 1)
	case "sort":
		n := r.Intn(7)
		if r.Chance(1, 4) {
			n = 7 + r.Intn(14)
		}
		var ts []atuple
		for i := 0; i < n; i++ {
			if len(ts) > 0 && r.Chance(1, 3) {
				t := rec.Pick(r, ts).clone()
				t.nilPtr = false
				switch r.Intn(4) {
				case 0:
					t.hasCond, t.name, t.ctx = true, rec.Pick(r, tConds), emptyStruct()
				case 1:
					t.hasCond, t.name, t.ctx = false, "", nil
				case 2:
					t.u = rec.Pick(r, tUsers)
				}
				ts = append(ts, t)
			} else {
				ts = append(ts, genTuple(r, r.Chance(1, 4)))
			}
		}
		tks := make(tuple.TupleKeys, len(ts))
		in := make([]rec.V, len(ts))
		for i, t := range ts {
			// tag each tuple with its input position through the condition context so that the
			// observed order is unambiguous even among tied tuples
			tks[i] = t.toKey(r)
			in[i] = t.rec(r)
		}
		var less []rec.V
		if n <= 7 {
			for i := 0; i < n; i++ {
				for j := 0; j < n; j++ {
					less = append(less, rec.Bool(tks.Less(i, j)))
				}
			}
		}
		perm := sortPerm(tks)
		w.Case(d, rec.I(8), rec.L(in...), rec.LI(perm), rec.L(less...))
		w.Stat("sort.cases", 1)
		if n > 12 {
			w.Stat("sort.more_than_12", 1)
		}
	case "nilempty":
		// the semantic side of the nil-vs-empty ObjectIDs conflation, on the memory backend
		ds := memory.New()
		defer ds.Close()
		ctx := context.Background()
		store := "01ARZ3NDEKTSV4RRFFQ69G5FAW"
		_ = ds.Write(ctx, store, nil, []*openfgav1.TupleKey{
			{Object: "doc:1", Relation: "viewer", User: "user:anne"}, {Object: "doc:2", Relation: "viewer", User: "user:anne"}})
		count := func(ids storage.SortedSet) int {
			f := storage.ReadStartingWithUserFilter{ObjectType: "doc", Relation: "viewer",
				UserFilter: []*openfgav1.ObjectRelation{{Object: "user:anne"}}, ObjectIDs: ids}
			it, err := ds.ReadStartingWithUser(ctx, store, f, storage.ReadStartingWithUserOptions{})
			if err != nil {
				return -1
			}
			defer it.Stop()
			n := 0
			for {
				if _, err := it.Next(ctx); err != nil {
					break
				}
				n++
			}
			return n
		}
		uf := []*openfgav1.ObjectRelation{{Object: "user:anne"}}
		k1 := storage.ReadStartingWithUserKey(store, storage.ReadStartingWithUserFilter{ObjectType: "doc", Relation: "viewer", UserFilter: uf})
		k2 := storage.ReadStartingWithUserKey(store, storage.ReadStartingWithUserFilter{ObjectType: "doc", Relation: "viewer", UserFilter: uf, ObjectIDs: storage.NewSortedSet()})
		w.Case(d, rec.I(9), rec.Bool(bytes.Equal(k1.Bytes(), k2.Bytes())), rec.I(count(nil)), rec.I(count(storage.NewSortedSet())))
		w.Stat("nilempty.semantic_probe", 1)
	}
}

var kinds = []string{"ser", "pb", "pb", "check", "check", "check", "checkvalid", "checkvalid", "rswu", "rswu", "rut", "read", "plain", "plain", "sort"}

func main() {
	o := rec.ParseFlags()
	w := rec.NewWriter(o.Out)
	defer w.Close()
	initGraph()
	if o.Replay != "" {
		f, err := os.Open(o.Replay)
		if err != nil {
			panic(err)
		}
		defer f.Close()
		sc := bufio.NewScanner(f)
		sc.Buffer(make([]byte, 1<<20), 1<<26)
		for sc.Scan() {
			var d desc
			if json.Unmarshal(sc.Bytes(), &d) == nil && d.K != "" && d.K != "edge_via_request" {
				runCase(w, d.K, d.S, d.T)
			}
		}
		return
	}
	r := rec.NewRand(o.Seed)
	runCase(w, "nilempty", r.Uint64(), o.Tier)
	// boundary sizes of every counted quantity, in every tier
	for fam := 0; fam < boundFamilies; fam++ {
		for si := range boundSizes {
			runCase(w, "bound", uint64(fam*100+si), o.Tier)
		}
	}
	for i := 0; i < o.N; i++ {
		runCase(w, kinds[r.Intn(len(kinds))], r.Uint64(), o.Tier)
	}
}
