//go:build verif

// Driver for C22: runs the real mpmc.Queue and mpsc.Accumulator of /repo
//
//	(1) single-threadedly on generated call sequences (method granularity, "would block"
//	    detected with a cancellable context) -> records compared call by call with the Coq
//	    models Conc/Mpmc.v / Conc/Mpsc.v run on the same sequence;
//	(2) free-running with 2-6 goroutines (small capacities, growth, close in the middle) ->
//	    histories (thread, op, arg, result, invocation/response stamps) checked by the oracle
//	    for linearizability against Conc/FifoSpec.v;
//	(3) as a bounded stress that looks for the MPMC lost wake-up (finding F10).
package main

import (
	"context"
	"encoding/json"
	"bufio"
	"os"
	"runtime"
	"strings"
	"sync"
	"sync/atomic"
	"time"

	"github.com/openfga/openfga/internal/containers/mpmc"
	"github.com/openfga/openfga/internal/containers/mpsc"
	"github.com/openfga/openfga/internal/verifharness/lib/rec"
)

// op codes shared with the oracle
const (
	opSend    = 0
	opRecv    = 1
	opClose   = 2
	opGrow    = 3
	opTryRecv = 4
	opSeqTake = 5
)

// result codes
const (
	resFalse     = 0
	resTrue      = 1
	resBlocked   = 2 // did not return until its context was cancelled, then returned false
	resCancelled = 3 // concurrent histories: returned false because the driver cancelled it at the end
	resHung      = 9 // did not return even after cancellation
)

const (
	shortWait = 40 * time.Millisecond // a call the driver expects to block
	longWait  = 15 * time.Second      // a call the driver expects to return
)

type callResult struct {
	ok  bool
	val int
}

// call runs f with a cancellable context and classifies the outcome.  The expectation only
// selects how long the driver waits before cancelling: a call that is expected to return is
// given longWait, so scheduling noise cannot turn it into "blocked"; a call expected to block
// is cancelled after shortWait and must then return false.
func call(expectBlock bool, f func(ctx context.Context) callResult) (res int, val int) {
	ctx, cancel := context.WithCancel(context.Background())
	defer cancel()
	done := make(chan callResult, 1)
	go func() { done <- f(ctx) }()
	wait := longWait
	if expectBlock {
		wait = shortWait
	}
	t := time.NewTimer(wait)
	defer t.Stop()
	select {
	case r := <-done:
		if r.ok {
			return resTrue, r.val
		}
		return resFalse, 0
	case <-t.C:
	}
	cancel()
	t2 := time.NewTimer(longWait)
	defer t2.Stop()
	select {
	case r := <-done:
		if r.ok {
			return resTrue, r.val
		}
		return resBlocked, 0
	case <-t2.C:
		return resHung, 0
	}
}

// ------------------------------------------------------------------------------------------
// (1a) sequential MPMC

type seqOp struct {
	Code int `json:"c"`
	Arg  int `json:"a"`
}

type mpmcSeqDesc struct {
	Kind string  `json:"kind"`
	Cap  int     `json:"cap"`
	Exts int     `json:"exts"`
	Ops  []seqOp `json:"ops"`
	NT   *bool   `json:"nt,omitempty"`
}

func isPow2(n int) bool { return n > 0 && n&(n-1) == 0 }

// shadow bookkeeping used only to choose waiting times and to bias generation
type shadow struct {
	count, capn, exts, extended int
	closed                      bool
}

func (s *shadow) sendBlocks() bool {
	return !s.closed && s.count == s.capn && !(s.exts < 0 || s.extended < s.exts)
}
func (s *shadow) recvBlocks() bool { return !s.closed && s.count == 0 }
func (s *shadow) send() {
	if s.closed {
		return
	}
	if s.count == s.capn {
		if s.exts < 0 || s.extended < s.exts {
			s.capn *= 2
			s.extended++
		} else {
			return
		}
	}
	s.count++
}
func (s *shadow) recv() {
	if s.count > 0 {
		s.count--
	}
}
func (s *shadow) grow(n int) {
	if isPow2(n) && n > s.capn {
		s.capn = n
		s.extended++
	}
}

// structured sequences: growth with a non-zero tail offset, many wrap-arounds, close with
// buffered items followed by a drain
func genMpmcTemplate(r *rec.Rand) mpmcSeqDesc {
	d := mpmcSeqDesc{Kind: "mpmc_seq"}
	d.Cap = rec.Pick(r, []int{2, 4, 4, 8})
	next := 1
	send := func(n int) {
		for i := 0; i < n; i++ {
			d.Ops = append(d.Ops, seqOp{opSend, next})
			next++
		}
	}
	recv := func(n int) {
		for i := 0; i < n; i++ {
			d.Ops = append(d.Ops, seqOp{opRecv, 0})
		}
	}
	switch r.Intn(3) {
	case 0: // fill, drain k, overflow -> extend copies from a tail in the middle of the ring
		d.Exts = rec.Pick(r, []int{1, 2, -1})
		rounds := r.Range(1, 3)
		fill := d.Cap
		buffered := 0
		for i := 0; i < rounds && (d.Exts < 0 || i < d.Exts); i++ {
			send(fill - buffered)
			k := r.Range(1, fill-1)
			recv(k)
			send(k + r.Range(1, 2))
			buffered = fill + 1
			fill *= 2
			if r.Chance(1, 3) {
				d.Ops = append(d.Ops, seqOp{opGrow, fill * 2})
				fill *= 2
			}
		}
		recv(buffered - r.Intn(2))
	case 1: // wrap around several times without growth
		d.Exts = 0
		level := 0
		for i := 0; i < r.Range(4, 8); i++ {
			a := r.Range(0, d.Cap-level)
			send(a)
			level += a
			b := r.Range(0, level)
			recv(b)
			level -= b
		}
	default: // close with items buffered, drain, then the failing calls
		d.Exts = rec.Pick(r, []int{0, 1})
		a := r.Range(1, d.Cap)
		send(a)
		recv(r.Intn(a))
		d.Ops = append(d.Ops, seqOp{opClose, 0})
		send(1)
		recv(a + 1)
		d.Ops = append(d.Ops, seqOp{opGrow, d.Cap * 2}, seqOp{opClose, 0})
		send(1)
		recv(1)
	}
	return d
}

func genMpmcSeq(r *rec.Rand) mpmcSeqDesc {
	if r.Chance(3, 10) {
		return genMpmcTemplate(r)
	}
	d := mpmcSeqDesc{Kind: "mpmc_seq"}
	d.Cap = rec.Pick(r, []int{2, 2, 2, 4, 4, 8})
	d.Exts = rec.Pick(r, []int{0, 0, 0, 1, 1, 2, -1})
	n := r.Range(3, 36)
	sh := &shadow{capn: d.Cap, exts: d.Exts}
	next := 1
	blockedBudget := 1
	if r.Chance(1, 6) {
		blockedBudget = 2
	}
	for i := 0; i < n; i++ {
		x := r.Intn(100)
		switch {
		case x < 42: // send
			if sh.sendBlocks() {
				if blockedBudget == 0 {
					continue
				}
				blockedBudget--
			}
			d.Ops = append(d.Ops, seqOp{opSend, next})
			next++
			sh.send()
		case x < 80: // recv
			if sh.recvBlocks() {
				if blockedBudget == 0 || r.Chance(2, 3) {
					continue
				}
				blockedBudget--
			}
			d.Ops = append(d.Ops, seqOp{opRecv, 0})
			sh.recv()
		case x < 86: // grow (powers of two, sometimes not, sometimes smaller)
			g := rec.Pick(r, []int{1, 2, 4, 8, 16, 3, 6, 0, 32})
			d.Ops = append(d.Ops, seqOp{opGrow, g})
			sh.grow(g)
		case x < 92: // close (rarely early)
			if i < n/2 && r.Chance(2, 3) {
				continue
			}
			d.Ops = append(d.Ops, seqOp{opClose, 0})
			sh.closed = true
		default: // Seq: take k items, then break (closes the queue)
			k := r.Range(1, 3)
			if !sh.closed && sh.count < k {
				continue
			}
			d.Ops = append(d.Ops, seqOp{opSeqTake, k})
			for j := 0; j < k; j++ {
				sh.recv()
			}
			sh.closed = true
		}
	}
	return d
}

func runMpmcSeq(w *rec.Writer, d mpmcSeqDesc) {
	q, err := mpmc.NewQueue[int](d.Cap, d.Exts)
	if err != nil {
		// invalid capacity: record the class only
		w.Case(d, rec.I(1), rec.I(d.Cap), rec.I(d.Exts), rec.I(0), rec.L())
		w.Stat("mpmc_seq.invalid_capacity", 1)
		return
	}
	sh := &shadow{capn: d.Cap, exts: d.Exts}
	var out []rec.V
	for _, o := range d.Ops {
		res, val := 0, 0
		var vals []int
		switch o.Code {
		case opSend:
			exp := sh.sendBlocks()
			arg := o.Arg
			res, _ = call(exp, func(ctx context.Context) callResult { return callResult{q.Send(ctx, arg), 0} })
			if res == resTrue {
				sh.send()
			}
			if res == resBlocked {
				w.Stat("mpmc_seq.send_blocked", 1)
			}
		case opRecv:
			exp := sh.recvBlocks()
			res, val = call(exp, func(ctx context.Context) callResult {
				v, ok := q.Recv(ctx)
				return callResult{ok, v}
			})
			if res == resTrue {
				sh.recv()
			}
			if res == resBlocked {
				w.Stat("mpmc_seq.recv_blocked", 1)
			}
		case opClose:
			q.Close()
			sh.closed = true
		case opGrow:
			if e := q.Grow(o.Arg); e != nil {
				res = 1
			} else {
				sh.grow(o.Arg)
			}
		case opSeqTake:
			k := o.Arg
			exp := !sh.closed && sh.count < k
			res, _ = call(exp, func(ctx context.Context) callResult {
				for v := range q.Seq(ctx) {
					vals = append(vals, v)
					if len(vals) == k {
						break
					}
				}
				return callResult{true, 0}
			})
			for range vals {
				sh.recv()
			}
			sh.closed = true
		}
		vv := make([]rec.V, len(vals))
		for i, v := range vals {
			vv[i] = rec.I(v)
		}
		out = append(out, rec.L(rec.I(o.Code), rec.I(o.Arg), rec.I(res), rec.I(val), rec.I(q.Size()), rec.I(q.Capacity()), rec.L(vv...)))
	}
	w.Case(d, rec.I(1), rec.I(d.Cap), rec.I(d.Exts), rec.I(1), rec.L(out...))
	w.Stat("mpmc_seq.cases", 1)
	w.Stat("mpmc_seq.ops", len(d.Ops))
	if q.Capacity() > d.Cap {
		w.Stat("mpmc_seq.grown", 1)
	}
	if sh.closed {
		w.Stat("mpmc_seq.closed", 1)
	}
}

// ------------------------------------------------------------------------------------------
// (1b) sequential MPSC

type thrOp struct {
	T    int `json:"t"` // 0 = consumer, k>=1 = producer k
	Code int `json:"c"`
	Arg  int `json:"a"`
}

type mpscSeqDesc struct {
	Kind  string  `json:"kind"`
	Prods int     `json:"prods"`
	Ops   []thrOp `json:"ops"`
}

func genMpscSeq(r *rec.Rand) mpscSeqDesc {
	d := mpscSeqDesc{Kind: "mpsc_seq", Prods: r.Range(1, 3)}
	n := r.Range(3, 30)
	count, closed, consumerDone := 0, false, false
	next := make([]int, d.Prods+1)
	for i := 0; i < n; i++ {
		x := r.Intn(100)
		switch {
		case x < 45:
			p := r.Range(1, d.Prods)
			next[p]++
			d.Ops = append(d.Ops, thrOp{p, opSend, p*1000 + next[p]})
			if !closed {
				count++
			}
		case x < 70:
			if consumerDone {
				continue
			}
			if count == 0 && !closed {
				// would block: allowed only as the consumer's last call
				if r.Chance(1, 8) {
					d.Ops = append(d.Ops, thrOp{0, opRecv, 0})
					consumerDone = true
				}
				continue
			}
			d.Ops = append(d.Ops, thrOp{0, opRecv, 0})
			if count > 0 {
				count--
			}
		case x < 90:
			if consumerDone {
				continue
			}
			d.Ops = append(d.Ops, thrOp{0, opTryRecv, 0})
			if count > 0 {
				count--
			}
		default:
			if i < n/2 && r.Chance(2, 3) {
				continue
			}
			d.Ops = append(d.Ops, thrOp{r.Range(1, d.Prods), opClose, 0})
			closed = true
		}
	}
	return d
}

func runMpscSeq(w *rec.Writer, d mpscSeqDesc) {
	a := mpsc.NewAccumulator[int]()
	count, closed := 0, false
	var out []rec.V
	for _, o := range d.Ops {
		res, val := 0, 0
		switch o.Code {
		case opSend:
			if a.Send(o.Arg) {
				res = resTrue
				count++
			}
		case opRecv:
			exp := count == 0 && !closed
			res, val = call(exp, func(ctx context.Context) callResult {
				v, ok := a.Recv(ctx)
				return callResult{ok, v}
			})
			if res == resTrue {
				count--
			}
			if res == resBlocked {
				w.Stat("mpsc_seq.recv_blocked", 1)
			}
		case opTryRecv:
			v, ok := a.TryRecv()
			if ok {
				res, val = resTrue, v
				count--
			}
		case opClose:
			a.Close()
			closed = true
		}
		out = append(out, rec.L(rec.I(o.T), rec.I(o.Code), rec.I(o.Arg), rec.I(res), rec.I(val)))
	}
	w.Case(d, rec.I(2), rec.I(d.Prods), rec.L(out...))
	w.Stat("mpsc_seq.cases", 1)
	w.Stat("mpsc_seq.ops", len(d.Ops))
	if closed {
		w.Stat("mpsc_seq.closed", 1)
	}
}

// ------------------------------------------------------------------------------------------
// (2) concurrent histories

type hop struct {
	thread, code, arg, res, val int
	inv, resp                   int64
}

type history struct {
	mu    sync.Mutex
	ops   []hop
	clock atomic.Int64
}

func (h *history) do(thread, code, arg int, f func() (int, int)) (int, int) {
	inv := h.clock.Add(1)
	res, val := f()
	resp := h.clock.Add(1)
	h.mu.Lock()
	h.ops = append(h.ops, hop{thread, code, arg, res, val, inv, resp})
	h.mu.Unlock()
	return res, val
}

func (h *history) values() rec.V {
	vs := make([]rec.V, len(h.ops))
	for i, o := range h.ops {
		vs[i] = rec.L(rec.I(o.thread), rec.I(o.code), rec.I(o.arg), rec.I(o.res), rec.I(o.val), rec.I64(o.inv), rec.I64(o.resp))
	}
	return rec.L(vs...)
}

type concDesc struct {
	Kind      string `json:"kind"`
	Seed      uint64 `json:"seed"`
	Cap       int    `json:"cap,omitempty"`
	Exts      int    `json:"exts,omitempty"`
	Prods     int    `json:"prods"`
	Cons      int    `json:"cons"`
	Items     int    `json:"items"`
	CloseMode int    `json:"close"` // 0 = by the driver after everything was received; 1 = after the producers finished; 2 = in the middle
	Grow      bool   `json:"grow,omitempty"`
	Try       bool   `json:"try,omitempty"`
}

// countParked counts goroutines parked in a select inside fn (e.g. "mpmc.(*Queue").
func countParked(fn string) int {
	buf := make([]byte, 1<<20)
	n := runtime.Stack(buf, true)
	cnt := 0
	for _, g := range strings.Split(string(buf[:n]), "\n\n") {
		nl := strings.IndexByte(g, '\n')
		if nl < 0 {
			continue
		}
		head := g[:nl]
		if !strings.Contains(head, "[select") {
			continue
		}
		if strings.Contains(g, fn) && strings.Contains(g, ".Recv(") {
			cnt++
		}
	}
	return cnt
}

// waitProgress waits until cond() holds; it gives up only when progress() has not changed for
// `quiet` AND stuck() confirms twice (1 s apart) that a receiver is parked in its select.
func waitProgress(cond func() bool, progress func() int64, stuck func() bool, quiet time.Duration) bool {
	last := progress()
	lastChange := time.Now()
	begin := time.Now()
	for {
		if cond() {
			return true
		}
		if time.Since(begin) > 20*time.Second {
			// neither finished nor provably parked: leave the verdict to the history check
			return true
		}
		time.Sleep(200 * time.Microsecond)
		if p := progress(); p != last {
			last, lastChange = p, time.Now()
			continue
		}
		if time.Since(lastChange) > quiet {
			if cond() {
				return true
			}
			if stuck() {
				time.Sleep(time.Second)
				if progress() == last && !cond() && stuck() {
					return false
				}
			}
			lastChange = time.Now()
		}
	}
}

func runMpmcConc(w *rec.Writer, d concDesc) {
	r := rec.NewRand(d.Seed)
	q := mpmc.MustQueue[int](d.Cap, d.Exts)
	h := &history{}
	ctx, cancel := context.WithCancel(context.Background())
	defer cancel()
	var sentOK, received atomic.Int64
	var prodWG, consWG sync.WaitGroup
	closeAfter := int64(r.Range(1, d.Prods*d.Items))
	start := make(chan struct{})
	jitter := make([]int, d.Prods+d.Cons+2)
	for i := range jitter {
		jitter[i] = r.Intn(4)
	}
	for p := 1; p <= d.Prods; p++ {
		prodWG.Add(1)
		go func(p int) {
			defer prodWG.Done()
			<-start
			for i := 1; i <= d.Items; i++ {
				v := p*1000 + i
				for y := 0; y < jitter[p]; y++ {
					runtime.Gosched()
				}
				h.do(p, opSend, v, func() (int, int) {
					if q.Send(ctx, v) {
						sentOK.Add(1)
						return resTrue, 0
					}
					if ctx.Err() != nil {
						return resCancelled, 0
					}
					return resFalse, 0
				})
			}
		}(p)
	}
	for c := 1; c <= d.Cons; c++ {
		consWG.Add(1)
		go func(c int) {
			defer consWG.Done()
			<-start
			t := d.Prods + c
			for {
				res, _ := h.do(t, opRecv, 0, func() (int, int) {
					v, ok := q.Recv(ctx)
					if ok {
						received.Add(1)
						return resTrue, v
					}
					if ctx.Err() != nil {
						return resCancelled, 0
					}
					return resFalse, 0
				})
				if res != resTrue {
					return
				}
			}
		}(c)
	}
	closer := d.Prods + d.Cons + 1
	var auxWG sync.WaitGroup
	if d.CloseMode == 2 {
		auxWG.Add(1)
		go func() {
			defer auxWG.Done()
			<-start
			for sentOK.Load() < closeAfter && ctx.Err() == nil {
				runtime.Gosched()
			}
			h.do(closer, opClose, 0, func() (int, int) { q.Close(); return 0, 0 })
		}()
	}
	if d.Grow {
		auxWG.Add(1)
		go func() {
			defer auxWG.Done()
			<-start
			n := d.Cap * 4
			h.do(closer+1, opGrow, n, func() (int, int) {
				if q.Grow(n) != nil {
					return 1, 0
				}
				return 0, 0
			})
		}()
	}
	close(start)
	prodDone := make(chan struct{})
	go func() { prodWG.Wait(); close(prodDone) }()
	hung := false
	select {
	case <-prodDone:
	case <-time.After(30 * time.Second):
		hung = true
		cancel()
		<-prodDone
	}
	auxWG.Wait()
	lost := false
	if !hung && d.CloseMode != 2 {
		if d.CloseMode == 0 {
			// let the consumers take everything before the queue is closed
			ok := waitProgress(
				func() bool { return received.Load() >= sentOK.Load() },
				func() int64 { return received.Load() },
				func() bool { return q.Size() > 0 && countParked("mpmc.(*Queue") > 0 },
				2*time.Second)
			lost = !ok
		}
		h.do(closer, opClose, 0, func() (int, int) { q.Close(); return 0, 0 })
	}
	consDone := make(chan struct{})
	go func() { consWG.Wait(); close(consDone) }()
	select {
	case <-consDone:
	case <-time.After(30 * time.Second):
		hung = true
		cancel()
		<-consDone
	}
	if hung {
		w.PropFail("mpmc concurrent scenario did not terminate (deadlock)", d)
	}
	// drain: the queue is closed (or is closed now), Recv never blocks any more
	h.do(0, opClose, 0, func() (int, int) { q.Close(); return 0, 0 })
	for {
		res, _ := h.do(0, opRecv, 0, func() (int, int) {
			v, ok := q.Recv(context.Background())
			if ok {
				return resTrue, v
			}
			return resFalse, 0
		})
		if res != resTrue {
			break
		}
	}
	if lost {
		what := "receiver parked in select on p.empty for > 3 s while items were buffered and all senders had returned"
		if d.Cons >= 2 {
			w.Known("mpmc_lost_wakeup", what, d)
		} else {
			w.PropFail("single receiver: "+what, d)
		}
	}
	w.Case(d, rec.I(3), rec.I(d.Cap), rec.I(d.Exts), rec.I(d.Prods+d.Cons+2), h.values())
	w.Stat("mpmc_conc.cases", 1)
	w.Stat("mpmc_conc.ops", len(h.ops))
	if q.Capacity() > d.Cap {
		w.Stat("mpmc_conc.grown", 1)
	}
	if d.CloseMode == 2 {
		w.Stat("mpmc_conc.close_mid", 1)
	}
	if d.Cons == 1 {
		w.Stat("mpmc_conc.single_consumer", 1)
	}
	for _, o := range h.ops {
		if o.code == opSend && o.res == resFalse {
			w.Stat("mpmc_conc.send_failed_after_close", 1)
		}
	}
}

func genMpmcConc(r *rec.Rand) concDesc {
	d := concDesc{Kind: "mpmc_conc", Seed: r.Uint64()}
	d.Cap = rec.Pick(r, []int{2, 2, 4, 4, 8})
	d.Exts = rec.Pick(r, []int{0, 0, 1, 2, -1})
	d.Prods = r.Range(1, 3)
	d.Cons = r.Range(1, 3)
	d.Items = r.Range(1, 6)
	d.CloseMode = rec.Pick(r, []int{0, 0, 1, 1, 2, 2, 2})
	d.Grow = r.Chance(1, 5)
	return d
}

func runMpscConc(w *rec.Writer, d concDesc) {
	r := rec.NewRand(d.Seed)
	a := mpsc.NewAccumulator[int]()
	h := &history{}
	ctx, cancel := context.WithCancel(context.Background())
	defer cancel()
	var sentOK, received atomic.Int64
	var prodWG, consWG, auxWG sync.WaitGroup
	closeAfter := int64(r.Range(1, d.Prods*d.Items))
	start := make(chan struct{})
	jitter := make([]int, d.Prods+2)
	for i := range jitter {
		jitter[i] = r.Intn(4)
	}
	for p := 1; p <= d.Prods; p++ {
		prodWG.Add(1)
		go func(p int) {
			defer prodWG.Done()
			<-start
			for i := 1; i <= d.Items; i++ {
				v := p*1000 + i
				for y := 0; y < jitter[p]; y++ {
					runtime.Gosched()
				}
				h.do(p, opSend, v, func() (int, int) {
					if a.Send(v) {
						sentOK.Add(1)
						return resTrue, 0
					}
					return resFalse, 0
				})
			}
		}(p)
	}
	consWG.Add(1)
	go func() {
		defer consWG.Done()
		<-start
		k := 0
		for {
			k++
			if d.Try && k%3 == 0 {
				h.do(0, opTryRecv, 0, func() (int, int) {
					v, ok := a.TryRecv()
					if ok {
						received.Add(1)
						return resTrue, v
					}
					return resFalse, 0
				})
				continue
			}
			res, _ := h.do(0, opRecv, 0, func() (int, int) {
				v, ok := a.Recv(ctx)
				if ok {
					received.Add(1)
					return resTrue, v
				}
				if ctx.Err() != nil {
					return resCancelled, 0
				}
				return resFalse, 0
			})
			if res != resTrue {
				return
			}
		}
	}()
	closer := d.Prods + 1
	if d.CloseMode == 2 {
		auxWG.Add(1)
		go func() {
			defer auxWG.Done()
			<-start
			for sentOK.Load() < closeAfter {
				runtime.Gosched()
			}
			h.do(closer, opClose, 0, func() (int, int) { a.Close(); return 0, 0 })
		}()
	}
	close(start)
	prodWG.Wait()
	auxWG.Wait()
	lost := false
	if d.CloseMode != 2 {
		if d.CloseMode == 0 {
			ok := waitProgress(
				func() bool { return received.Load() >= sentOK.Load() },
				func() int64 { return received.Load() },
				func() bool { return countParked("mpsc.(*Accumulator") > 0 },
				2*time.Second)
			lost = !ok
		}
		h.do(closer, opClose, 0, func() (int, int) { a.Close(); return 0, 0 })
	}
	consDone := make(chan struct{})
	go func() { consWG.Wait(); close(consDone) }()
	select {
	case <-consDone:
	case <-time.After(30 * time.Second):
		cancel()
		<-consDone
		w.PropFail("mpsc concurrent scenario did not terminate", d)
	}
	if lost {
		w.PropFail("mpsc: consumer parked for > 3 s while linked items were pending and all producers had returned", d)
	}
	w.Case(d, rec.I(4), rec.I(d.Prods), h.values())
	w.Stat("mpsc_conc.cases", 1)
	w.Stat("mpsc_conc.ops", len(h.ops))
	if d.CloseMode == 2 {
		w.Stat("mpsc_conc.close_mid", 1)
	}
	for _, o := range h.ops {
		if o.code == opSend && o.res == resFalse {
			w.Stat("mpsc_conc.send_failed_after_close", 1)
		}
	}
}

func genMpscConc(r *rec.Rand) concDesc {
	d := concDesc{Kind: "mpsc_conc", Seed: r.Uint64()}
	d.Prods = r.Range(1, 4)
	d.Cons = 1
	d.Items = r.Range(1, 7)
	d.CloseMode = rec.Pick(r, []int{0, 1, 1, 2, 2})
	d.Try = r.Chance(1, 3)
	return d
}

// ------------------------------------------------------------------------------------------
// (3) lost wake-up stress (finding F10): R receivers and R senders, one item each.  All senders
// return; if a receiver is still parked in its select while items are buffered, nothing will
// ever wake it.

type stressDesc struct {
	Kind   string `json:"kind"`
	Millis int    `json:"millis"`
	Procs  int    `json:"procs"`
	R      int    `json:"r"`
}

func runStress(w *rec.Writer, d stressDesc) {
	old := runtime.GOMAXPROCS(d.Procs)
	defer runtime.GOMAXPROCS(old)
	deadline := time.Now().Add(time.Duration(d.Millis) * time.Millisecond)
	rounds, observed := 0, 0
	witnessBuffered := 0
	for time.Now().Before(deadline) && observed == 0 {
		rounds++
		q := mpmc.MustQueue[int](16, 0)
		var got atomic.Int64
		var rw, sw sync.WaitGroup
		start := make(chan struct{})
		for i := 0; i < d.R; i++ {
			rw.Add(1)
			go func() {
				defer rw.Done()
				<-start
				if _, ok := q.Recv(context.Background()); ok {
					got.Add(1)
				}
			}()
		}
		for i := 0; i < d.R; i++ {
			sw.Add(1)
			go func(i int) {
				defer sw.Done()
				<-start
				q.Send(context.Background(), i)
			}(i)
		}
		close(start)
		sw.Wait()
		done := make(chan struct{})
		go func() { rw.Wait(); close(done) }()
		select {
		case <-done:
		case <-time.After(50 * time.Millisecond):
			// slow or stuck: decide with the strict criterion
			ok := waitProgress(
				func() bool { return got.Load() >= int64(d.R) },
				func() int64 { return got.Load() },
				func() bool { return q.Size() > 0 && countParked("mpmc.(*Queue") > 0 },
				2*time.Second)
			if !ok {
				observed++
				witnessBuffered = q.Size()
			}
		}
		q.Close() // releases every parked receiver
		<-done
	}
	w.Case(d, rec.I(5), rec.I(rounds), rec.I(observed), rec.I(witnessBuffered), rec.I(d.R))
	w.Stat("stress.rounds", rounds)
	w.Stat("stress.lost_wakeup_observed", observed)
}

// ------------------------------------------------------------------------------------------

func replay(w *rec.Writer, path string) {
	f, err := os.Open(path)
	if err != nil {
		panic(err)
	}
	defer f.Close()
	sc := bufio.NewScanner(f)
	sc.Buffer(make([]byte, 1<<20), 1<<26)
	for sc.Scan() {
		line := sc.Bytes()
		var k struct {
			Kind string `json:"kind"`
		}
		if json.Unmarshal(line, &k) != nil {
			continue
		}
		switch k.Kind {
		case "mpmc_seq":
			var d mpmcSeqDesc
			if json.Unmarshal(line, &d) == nil {
				runMpmcSeq(w, d)
			}
		case "mpsc_seq":
			var d mpscSeqDesc
			if json.Unmarshal(line, &d) == nil {
				runMpscSeq(w, d)
			}
		case "mpmc_conc":
			var d concDesc
			if json.Unmarshal(line, &d) == nil {
				for i := 0; i < 50; i++ { // schedules are not reproducible: repeat
					runMpmcConc(w, d)
				}
			}
		case "mpsc_conc":
			var d concDesc
			if json.Unmarshal(line, &d) == nil {
				for i := 0; i < 50; i++ {
					runMpscConc(w, d)
				}
			}
		case "stress":
			var d stressDesc
			if json.Unmarshal(line, &d) == nil {
				runStress(w, d)
			}
		case "mpsc_oneshot":
			var d stressDesc
			if json.Unmarshal(line, &d) == nil {
				runMpscOneShot(w, d)
			}
		case "probe":
			var d probeDesc
			if json.Unmarshal(line, &d) == nil {
				runProbe(w, d)
			}
		case "sweep":
			var d sweepDesc
			if json.Unmarshal(line, &d) == nil {
				runSweep(w, d)
			}
		case "medium":
			var d mediumDesc
			if json.Unmarshal(line, &d) == nil {
				runMedium(w, d)
			}
		}
	}
}

func main() {
	o := rec.ParseFlags()
	w := rec.NewWriter(o.Out)
	defer w.Close()
	selfTestMedia()
	if o.Replay != "" {
		replay(w, o.Replay)
		return
	}
	r := rec.NewRand(o.Seed)
	n := o.N
	nSeqM, nSeqS, nConM, nConS, nMed := n*35/100, n*12/100, n*23/100, n*12/100, n*18/100
	for v := 1; v <= 9; v++ {
		runProbe(w, probeDesc{Kind: "probe", Variant: v})
	}
	// the teardown sequence of ProcessSender on a QueueMedium / AccumulatorMedium
	for k := 0; k <= 1; k++ {
		runMedium(w, mediumDesc{Kind: "medium", Medium: k, Cap: 4, Ops: []medOp{
			{opRecv, false, 0}, {opSend, true, 1}, {opSend, true, 2}, {opClose, true, 0},
			{opRecv, true, 0}, {opRecv, true, 0}, {opRecv, true, 0}, {opRecv, true, 0}}})
	}
	runSweeps(w)
	for i := 0; i < nMed; i++ {
		runMedium(w, genMedium(r.Fork()))
	}
	// fixed corner cases first
	f := false
	runMpmcSeq(w, mpmcSeqDesc{Kind: "mpmc_seq", Cap: 3, Exts: 0, NT: &f})
	runMpmcSeq(w, mpmcSeqDesc{Kind: "mpmc_seq", Cap: 1, Exts: 0, NT: &f})
	runMpmcSeq(w, mpmcSeqDesc{Kind: "mpmc_seq", Cap: 2, Exts: 0, Ops: []seqOp{{opSend, 1}, {opSend, 2}, {opSend, 3}, {opRecv, 0}, {opSend, 4}, {opClose, 0}, {opSend, 5}, {opRecv, 0}, {opRecv, 0}, {opRecv, 0}}})
	for i := 0; i < nSeqM; i++ {
		runMpmcSeq(w, genMpmcSeq(r.Fork()))
	}
	for i := 0; i < nSeqS; i++ {
		runMpscSeq(w, genMpscSeq(r.Fork()))
	}
	for i := 0; i < nConM; i++ {
		runMpmcConc(w, genMpmcConc(r.Fork()))
	}
	for i := 0; i < nConS; i++ {
		runMpscConc(w, genMpscConc(r.Fork()))
	}
	ms, ms1 := 4000, 2500
	if o.Tier == "thorough" {
		ms, ms1 = 60000, 30000
	}
	procs := rec.Pick(r, []int{2, 3, 4, 8})
	runMpscOneShot(w, stressDesc{Kind: "mpsc_oneshot", Millis: ms1, Procs: procs, R: 4})
	runStress(w, stressDesc{Kind: "stress", Millis: ms, Procs: procs, R: 6})
}
