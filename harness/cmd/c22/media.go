//go:build verif

// C22 driver, second part:
//
//	(4) deterministic wake-up probes: the queues evaluate ctx.Done() exactly when they enter
//	    their parking select (after the "empty"/"full" check, after RUnlock), so a context
//	    whose Done() method performs calls on the same queue places those calls precisely in
//	    the check-then-park window.  The same trick with two receivers reproduces the MPMC lost
//	    wake-up (F10) deterministically.
//	(5) the media of worker/medium.go (QueueMedium, AccumulatorMedium, ChannelMedium) driven at
//	    method granularity, cancelled contexts included, the [closed] latch read after every
//	    call.  worker is internal to the pipeline tree: its functions are reached through
//	    go:linkname and its structs through layout mirrors, validated by a start-up self test.
//	(6) one-shot MPSC stress: every producer sends ONE item and stops, nobody closes.
package main

import (
	"context"
	"fmt"
	"runtime"
	"sync"
	"sync/atomic"
	"time"
	"unsafe"

	"github.com/openfga/openfga/internal/containers/mpmc"
	"github.com/openfga/openfga/internal/containers/mpsc"
	_ "github.com/openfga/openfga/internal/listobjects/pipeline"
	"github.com/openfga/openfga/internal/verifharness/lib/rec"
)

// ------------------------------------------------------------------------------------------
// hook context

type hookCtx struct {
	context.Context
	once sync.Once
	hook func()
}

func (h *hookCtx) Done() <-chan struct{} {
	h.once.Do(h.hook)
	return h.Context.Done()
}

// callWait is `call` with an explicit first waiting time; a call that has not returned after
// `wait` is cancelled and reported as blocked, together with whether a goroutine was parked in a
// select inside fn's Recv at that moment.
func callWait(wait time.Duration, parkedIn string, f func(ctx context.Context) callResult) (res, val int, parked bool) {
	ctx, cancel := context.WithCancel(context.Background())
	defer cancel()
	done := make(chan callResult, 1)
	go func() { done <- f(ctx) }()
	t := time.NewTimer(wait)
	defer t.Stop()
	select {
	case r := <-done:
		if r.ok {
			return resTrue, r.val, false
		}
		return resFalse, 0, false
	case <-t.C:
	}
	if parkedIn != "" {
		parked = countParked(parkedIn) > 0
	}
	cancel()
	select {
	case r := <-done:
		if r.ok {
			return resTrue, r.val, parked
		}
		return resBlocked, 0, parked
	case <-time.After(longWait):
		return resHung, 0, parked
	}
}

type probeDesc struct {
	Kind    string `json:"kind"`
	Variant int    `json:"variant"`
}

const probeWait = 2 * time.Second

func pair(res, val int) rec.V { return rec.L(rec.I(res), rec.I(val)) }

func runProbe(w *rec.Writer, d probeDesc) {
	var out []rec.V
	bg := context.Background()
	switch d.Variant {
	case 1, 2, 3, 4: // MPSC: the hook runs between the consumer's nil check and its select
		a := mpsc.NewAccumulator[int]()
		hook := func() {
			switch d.Variant {
			case 1:
				a.Send(1)
			case 2:
				a.Send(1)
				a.Send(2)
			case 3:
				a.Close()
			case 4:
				a.Send(1)
				a.Close()
			}
		}
		n := map[int]int{1: 1, 2: 2, 3: 1, 4: 2}[d.Variant]
		for i := 0; i < n; i++ {
			res, val, parked := callWait(probeWait, "mpsc.(*Accumulator", func(ctx context.Context) callResult {
				c := ctx
				if i == 0 {
					c = &hookCtx{Context: ctx, hook: hook}
				}
				v, ok := a.Recv(c)
				return callResult{ok, v}
			})
			if res == resBlocked && parked {
				w.Stat("probe.parked_after_hook", 1)
			}
			out = append(out, pair(res, val))
			if res != resTrue {
				break
			}
		}
	case 5, 6, 7: // MPMC, single receiver: the hook runs after RUnlock, before the select on p.empty
		q := mpmc.MustQueue[int](2, 0)
		hook := func() {
			switch d.Variant {
			case 5:
				q.Send(bg, 1)
			case 6:
				q.Close()
			case 7:
				q.Send(bg, 1)
				q.Send(bg, 2)
			}
		}
		n := map[int]int{5: 1, 6: 1, 7: 2}[d.Variant]
		for i := 0; i < n; i++ {
			res, val, _ := callWait(probeWait, "mpmc.(*Queue", func(ctx context.Context) callResult {
				c := ctx
				if i == 0 {
					c = &hookCtx{Context: ctx, hook: hook}
				}
				v, ok := q.Recv(c)
				return callResult{ok, v}
			})
			out = append(out, pair(res, val))
			if res != resTrue {
				break
			}
		}
	case 8: // MPMC sender on a full queue: the hook (a Recv) runs before the select on p.full
		q := mpmc.MustQueue[int](2, 0)
		q.Send(bg, 1)
		q.Send(bg, 2)
		got := 0
		res, _, _ := callWait(probeWait, "", func(ctx context.Context) callResult {
			c := &hookCtx{Context: ctx, hook: func() {
				if v, ok := q.Recv(bg); ok {
					got = v
				}
			}}
			return callResult{q.Send(c, 3), 0}
		})
		out = append(out, pair(res, got), pair(q.Size(), 0))
	case 9: // F10, deterministic: both receivers stand before their select when the two sends signal
		q := mpmc.MustQueue[int](2, 0)
		r2Ready := make(chan struct{})
		results := make(chan callResult, 2)
		ctx, cancel := context.WithCancel(bg)
		ctx2 := &hookCtx{Context: ctx, hook: func() {
			q.Send(bg, 7)
			q.Send(bg, 8) // p.empty already holds a token: this signal is dropped
			close(r2Ready)
		}}
		ctx1 := &hookCtx{Context: ctx, hook: func() {
			go func() {
				v, ok := q.Recv(ctx2)
				results <- callResult{ok, v}
			}()
			<-r2Ready
		}}
		go func() {
			v, ok := q.Recv(ctx1)
			results <- callResult{ok, v}
		}()
		returned, values := 0, 0
		timeout := time.After(probeWait)
	loop:
		for returned < 2 {
			select {
			case r := <-results:
				returned++
				if r.ok {
					values = values*10 + r.val
				}
			case <-timeout:
				break loop
			}
		}
		parked := 0
		buffered := q.Size()
		if returned < 2 {
			parked = countParked("mpmc.(*Queue")
			time.Sleep(time.Second)
			if countParked("mpmc.(*Queue") < parked {
				parked = 0 // it moved after all
			}
			buffered = q.Size()
		}
		cancel()
		q.Close()
		for returned < 2 {
			<-results
			returned++
		}
		out = append(out, pair(values, parked), pair(buffered, 0))
	}
	w.Case(d, rec.I(6), rec.I(d.Variant), rec.L(out...))
	w.Stat("probe.cases", 1)
}

// ------------------------------------------------------------------------------------------
// media by linkname

//go:linkname newQueueMedium github.com/openfga/openfga/internal/listobjects/pipeline/internal/worker.NewQueueMedium
func newQueueMedium(edge unsafe.Pointer, capacity int) unsafe.Pointer

//go:linkname qmRecv github.com/openfga/openfga/internal/listobjects/pipeline/internal/worker.(*QueueMedium).Recv
func qmRecv(m unsafe.Pointer, ctx context.Context) (unsafe.Pointer, bool)

//go:linkname qmSend github.com/openfga/openfga/internal/listobjects/pipeline/internal/worker.(*QueueMedium).Send
func qmSend(m unsafe.Pointer, ctx context.Context, msg unsafe.Pointer) bool

//go:linkname qmClose github.com/openfga/openfga/internal/listobjects/pipeline/internal/worker.(*QueueMedium).Close
func qmClose(m unsafe.Pointer)

//go:linkname newAccumulatorMedium github.com/openfga/openfga/internal/listobjects/pipeline/internal/worker.NewAccumulatorMedium
func newAccumulatorMedium(edge unsafe.Pointer) unsafe.Pointer

//go:linkname amRecv github.com/openfga/openfga/internal/listobjects/pipeline/internal/worker.(*AccumulatorMedium).Recv
func amRecv(m unsafe.Pointer, ctx context.Context) (unsafe.Pointer, bool)

//go:linkname amSend github.com/openfga/openfga/internal/listobjects/pipeline/internal/worker.(*AccumulatorMedium).Send
func amSend(m unsafe.Pointer, ctx context.Context, msg unsafe.Pointer) bool

//go:linkname amClose github.com/openfga/openfga/internal/listobjects/pipeline/internal/worker.(*AccumulatorMedium).Close
func amClose(m unsafe.Pointer)

//go:linkname newChannelMedium github.com/openfga/openfga/internal/listobjects/pipeline/internal/worker.NewChannelMedium
func newChannelMedium(edge unsafe.Pointer, capacity int) unsafe.Pointer

//go:linkname cmRecv github.com/openfga/openfga/internal/listobjects/pipeline/internal/worker.(*ChannelMedium).Recv
func cmRecv(m unsafe.Pointer, ctx context.Context) (unsafe.Pointer, bool)

//go:linkname cmSend github.com/openfga/openfga/internal/listobjects/pipeline/internal/worker.(*ChannelMedium).Send
func cmSend(m unsafe.Pointer, ctx context.Context, msg unsafe.Pointer) bool

//go:linkname cmClose github.com/openfga/openfga/internal/listobjects/pipeline/internal/worker.(*ChannelMedium).Close
func cmClose(m unsafe.Pointer)

// worker.Message
type messageMirror struct {
	pool     unsafe.Pointer
	Value    []string
	Callback func()
}

// worker.QueueMedium and worker.AccumulatorMedium: key, queue/acc, label, closed
type latchMirror struct {
	key    unsafe.Pointer
	inner  unsafe.Pointer
	label  string
	closed bool
}

type mediumAPI struct {
	recv  func(unsafe.Pointer, context.Context) (unsafe.Pointer, bool)
	send  func(unsafe.Pointer, context.Context, unsafe.Pointer) bool
	close func(unsafe.Pointer)
	latch func(unsafe.Pointer) bool
}

func latchOf(m unsafe.Pointer) bool { return (*latchMirror)(m).closed }

var mediaAPIs = map[int]mediumAPI{
	0: {qmRecv, qmSend, qmClose, latchOf},
	1: {amRecv, amSend, amClose, latchOf},
	2: {cmRecv, cmSend, cmClose, func(unsafe.Pointer) bool { return false }},
}

func newMedium(kind, capacity int) unsafe.Pointer {
	switch kind {
	case 0:
		return newQueueMedium(nil, capacity)
	case 1:
		return newAccumulatorMedium(nil)
	default:
		return newChannelMedium(nil, capacity)
	}
}

// keeps the messages alive and maps them back to their numbers
type msgTable struct {
	msgs []*messageMirror
}

func (t *msgTable) make(v int) unsafe.Pointer {
	m := &messageMirror{Value: []string{fmt.Sprint(v)}}
	t.msgs = append(t.msgs, m)
	return unsafe.Pointer(m)
}
func (t *msgTable) num(p unsafe.Pointer) int {
	for _, m := range t.msgs {
		if unsafe.Pointer(m) == p {
			var v int
			fmt.Sscan(m.Value[0], &v)
			return v
		}
	}
	return -1
}

// selfTestMedia aborts the run when the mirrored layouts do not match the real structs.
func selfTestMedia() {
	cancelled, cancel := context.WithCancel(context.Background())
	cancel()
	for kind := 0; kind <= 2; kind++ {
		api := mediaAPIs[kind]
		m := newMedium(kind, 4)
		var tb msgTable
		if kind < 2 {
			lm := (*latchMirror)(m)
			if lm.label != "nil->nil" || lm.closed || lm.inner == nil || lm.key != nil {
				panic(fmt.Sprintf("c22 self test: medium kind %d layout mismatch (label %q)", kind, lm.label))
			}
		}
		p := tb.make(41)
		if !api.send(m, context.Background(), p) {
			panic("c22 self test: Send failed")
		}
		got, ok := api.recv(m, context.Background())
		if !ok || got != p || (*messageMirror)(got).Value[0] != "41" {
			panic("c22 self test: Recv did not return the message that was sent (Message layout?)")
		}
		if _, ok := api.recv(m, cancelled); ok {
			panic("c22 self test: Recv on an empty medium with a cancelled context returned an item")
		}
		api.close(m)
		if _, ok := api.recv(m, context.Background()); ok {
			panic("c22 self test: Recv after Close on an empty medium returned an item")
		}
		if kind < 2 && !latchOf(m) {
			panic("c22 self test: closed latch not visible through the mirror")
		}
	}
}

type medOp struct {
	Code int  `json:"c"` // opSend, opRecv, opClose
	Live bool `json:"l"`
	Arg  int  `json:"a"`
}

type mediumDesc struct {
	Kind   string  `json:"kind"`
	Medium int     `json:"medium"` // 0 queue, 1 accumulator, 2 channel
	Cap    int     `json:"cap"`
	Ops    []medOp `json:"ops"`
}

func genMedium(r *rec.Rand) mediumDesc {
	d := mediumDesc{Kind: "medium", Medium: rec.Pick(r, []int{0, 0, 0, 1, 1, 2}), Cap: rec.Pick(r, []int{2, 4})}
	n := r.Range(3, 24)
	// approximate bookkeeping, only to keep the number of parking calls small; the real
	// expectation is recomputed from the observations in runMedium
	count, closed, latched := 0, false, false
	next := 1
	blockBudget := 1
	for i := 0; i < n; i++ {
		x := r.Intn(100)
		switch {
		case x < 40:
			live := r.Chance(4, 5)
			if d.Medium == 2 {
				if closed {
					continue // ChannelMedium.Send after Close panics (out of contract)
				}
				if live && count >= d.Cap {
					continue
				}
			}
			d.Ops = append(d.Ops, medOp{opSend, live, next})
			next++
			if live && !closed {
				count++
			}
		case x < 88:
			live := r.Chance(3, 5)
			if live && count == 0 && !closed && !latched {
				if blockBudget == 0 || r.Chance(2, 3) {
					continue
				}
				blockBudget--
			}
			d.Ops = append(d.Ops, medOp{opRecv, live, 0})
			if count > 0 && !latched && (live || d.Medium != 2) {
				count--
			} else if live && closed && count == 0 && d.Medium != 2 {
				latched = true
			}
		default:
			if i < n/2 && r.Chance(1, 2) {
				continue
			}
			d.Ops = append(d.Ops, medOp{opClose, true, 0})
			closed = true
		}
	}
	// teardown as in ProcessSender: cancelled Recv, late Sends, Close, drain with a live context
	if r.Chance(3, 5) && d.Medium != 2 {
		d.Ops = append(d.Ops, medOp{opRecv, false, 0})
		if !closed {
			d.Ops = append(d.Ops, medOp{opSend, true, next}, medOp{opSend, true, next + 1})
		}
		d.Ops = append(d.Ops, medOp{opClose, true, 0})
		for j := 0; j < count+4; j++ {
			d.Ops = append(d.Ops, medOp{opRecv, true, 0})
		}
	}
	return d
}

func runMedium(w *rec.Writer, d mediumDesc) {
	api := mediaAPIs[d.Medium]
	m := newMedium(d.Medium, d.Cap)
	var tb msgTable
	cancelled, cancel := context.WithCancel(context.Background())
	cancel()
	count, closed := 0, false
	var out []rec.V
	for _, o := range d.Ops {
		res, val := 0, 0
		switch o.Code {
		case opSend:
			if d.Medium == 2 && closed {
				res = resHung // not executed: would panic
				break
			}
			p := tb.make(o.Arg)
			if !o.Live {
				if api.send(m, cancelled, p) {
					res = resTrue
					count++
				}
				break
			}
			exp := d.Medium == 2 && count >= d.Cap
			res, _ = call(exp, func(ctx context.Context) callResult { return callResult{api.send(m, ctx, p), 0} })
			if res == resTrue {
				count++
			}
		case opRecv:
			if !o.Live {
				if p, ok := api.recv(m, cancelled); ok {
					res, val = resTrue, tb.num(p)
					count--
				}
				break
			}
			exp := count == 0 && !closed && !api.latch(m)
			res, val = call(exp, func(ctx context.Context) callResult {
				p, ok := api.recv(m, ctx)
				if !ok {
					return callResult{false, 0}
				}
				return callResult{true, tb.num(p)}
			})
			if res == resTrue {
				count--
			}
			if res == resBlocked {
				w.Stat("medium.recv_blocked", 1)
			}
		case opClose:
			api.close(m)
			closed = true
		}
		live := 0
		if o.Live {
			live = 1
		}
		out = append(out, rec.L(rec.I(o.Code), rec.I(live), rec.I(o.Arg), rec.I(res), rec.I(val), rec.Bool(api.latch(m))))
	}
	runtime.KeepAlive(&tb)
	w.Case(d, rec.I(7), rec.I(d.Medium), rec.I(d.Cap), rec.L(out...))
	w.Stat("medium.cases", 1)
	w.Stat(fmt.Sprintf("medium.kind%d", d.Medium), 1)
	w.Stat("medium.ops", len(d.Ops))
}

// ------------------------------------------------------------------------------------------
// one-shot MPSC stress: P producers send one item each and stop; nobody closes.  The consumer
// must receive all P items.  (The theorem mpsc_no_lost_wakeup says it always does.)

func runMpscOneShot(w *rec.Writer, d stressDesc) {
	old := runtime.GOMAXPROCS(d.Procs)
	defer runtime.GOMAXPROCS(old)
	deadline := time.Now().Add(time.Duration(d.Millis) * time.Millisecond)
	rounds, observed := 0, 0
	for time.Now().Before(deadline) && observed == 0 {
		rounds++
		p := 1 + rounds%d.R
		a := mpsc.NewAccumulator[int]()
		ctx, cancel := context.WithCancel(context.Background())
		var got atomic.Int64
		var pw sync.WaitGroup
		start := make(chan struct{})
		cdone := make(chan struct{})
		go func() {
			defer close(cdone)
			<-start
			for i := 0; i < p; i++ {
				if _, ok := a.Recv(ctx); !ok {
					return
				}
				got.Add(1)
			}
		}()
		for i := 0; i < p; i++ {
			pw.Add(1)
			go func(i int) {
				defer pw.Done()
				<-start
				for y := 0; y < (rounds+i)%3; y++ {
					runtime.Gosched()
				}
				a.Send(i)
			}(i)
		}
		close(start)
		pw.Wait()
		select {
		case <-cdone:
		case <-time.After(50 * time.Millisecond):
			ok := waitProgress(
				func() bool { return got.Load() >= int64(p) },
				func() int64 { return got.Load() },
				func() bool { return countParked("mpsc.(*Accumulator") > 0 },
				2*time.Second)
			if !ok {
				observed++
				w.PropFail(fmt.Sprintf("mpsc lost wake-up: consumer parked in the Recv select for > 3 s with %d of %d items still queued after all producers returned (no Close)", int64(p)-got.Load(), p), d)
			}
		}
		cancel()
		<-cdone
	}
	w.Case(d, rec.I(8), rec.I(rounds), rec.I(observed))
	w.Stat("mpsc_oneshot.rounds", rounds)
}

// ------------------------------------------------------------------------------------------
// (7) cancellation landing DURING a call: a context that becomes cancelled after its N-th
// consultation (Err() or Done()), deterministic, no timing.  For Send the record says whether the
// item was delivered afterwards: "delivered <=> Send returned true" (exactly-once hand-over).

type flipCtx struct {
	parent context.Context
	n      int32
	calls  atomic.Int32
}

var closedChan = func() chan struct{} { c := make(chan struct{}); close(c); return c }()

func (c *flipCtx) flipped() bool { return c.calls.Add(1) > c.n }
func (c *flipCtx) Err() error {
	if c.flipped() {
		return context.Canceled
	}
	return c.parent.Err()
}
func (c *flipCtx) Done() <-chan struct{} {
	if c.flipped() {
		return closedChan
	}
	return c.parent.Done()
}
func (c *flipCtx) Deadline() (time.Time, bool) { return time.Time{}, false }
func (c *flipCtx) Value(any) any               { return nil }

type sweepDesc struct {
	Kind     string `json:"kind"`
	Target   int    `json:"target"`   // 0 QueueMedium, 1 AccumulatorMedium, 2 ChannelMedium, 3 mpmc.Queue
	Op       int    `json:"op"`       // opSend / opRecv
	Scenario int    `json:"scenario"` // Send: 0 open, 1 closed; Recv: 0 one item buffered, 1 empty open, 2 empty closed
	N        int    `json:"n"`
}

// sweepTarget hides the four objects behind one face
type sweepTarget struct {
	send  func(ctx context.Context, v int) bool
	recv  func(ctx context.Context) (int, bool)
	close func()
	latch func() bool
}

func newSweepTarget(target int) (*sweepTarget, *msgTable) {
	tb := &msgTable{}
	if target == 3 {
		q := mpmc.MustQueue[int](4, 0)
		return &sweepTarget{
			send:  func(ctx context.Context, v int) bool { return q.Send(ctx, v) },
			recv:  func(ctx context.Context) (int, bool) { return q.Recv(ctx) },
			close: q.Close,
			latch: func() bool { return false },
		}, tb
	}
	api := mediaAPIs[target]
	m := newMedium(target, 4)
	return &sweepTarget{
		send: func(ctx context.Context, v int) bool { return api.send(m, ctx, tb.make(v)) },
		recv: func(ctx context.Context) (int, bool) {
			p, ok := api.recv(m, ctx)
			if !ok {
				return 0, false
			}
			return tb.num(p), true
		},
		close: func() { api.close(m) },
		latch: func() bool { return api.latch(m) },
	}, tb
}

func runSweep(w *rec.Writer, d sweepDesc) {
	t, tb := newSweepTarget(d.Target)
	bg := context.Background()
	res, val, delivered, latch := 0, 0, 0, false
	if d.Op == opSend {
		if d.Scenario == 1 {
			t.close()
		}
		res, _ = call(false, func(ctx context.Context) callResult {
			return callResult{t.send(&flipCtx{parent: ctx, n: int32(d.N)}, 7), 0}
		})
		t.close()
		for {
			v, ok := t.recv(bg)
			if !ok {
				break
			}
			if v == 7 {
				delivered++
			} else {
				delivered += 100
			}
		}
	} else {
		if d.Scenario == 0 {
			t.send(bg, 7)
		}
		if d.Scenario == 2 {
			t.close()
		}
		// parks iff the context is still live when the call reaches its select (the oracle
		// decides whether that is right); the expectation only selects the waiting time
		exp := d.Scenario == 1 && d.N >= 1
		res, val = call(exp, func(ctx context.Context) callResult {
			v, ok := t.recv(&flipCtx{parent: ctx, n: int32(d.N)})
			return callResult{ok, v}
		})
		latch = t.latch()
		// whatever the swept call did, nothing may be lost: close and drain with a live context
		t.close()
		for {
			v, ok := t.recv(bg)
			if !ok {
				break
			}
			if v == 7 {
				delivered++
			} else {
				delivered += 100
			}
		}
	}
	runtime.KeepAlive(tb)
	w.Case(d, rec.I(9), rec.I(d.Target), rec.I(d.Op), rec.I(d.Scenario), rec.I(d.N),
		rec.I(res), rec.I(val), rec.I(delivered), rec.Bool(latch))
	w.Stat("sweep.cases", 1)
}

func runSweeps(w *rec.Writer) {
	for target := 0; target <= 3; target++ {
		for n := 0; n <= 8; n++ {
			runSweep(w, sweepDesc{"sweep", target, opSend, 0, n})
			if target != 2 { // ChannelMedium.Send after Close panics
				runSweep(w, sweepDesc{"sweep", target, opSend, 1, n})
			}
			runSweep(w, sweepDesc{"sweep", target, opRecv, 0, n})
			runSweep(w, sweepDesc{"sweep", target, opRecv, 2, n})
			if n <= 3 {
				runSweep(w, sweepDesc{"sweep", target, opRecv, 1, n})
			}
		}
	}
}
