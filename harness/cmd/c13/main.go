//go:build verif

// Driver for C13: applies the same generated write history to the in-memory backend and to the
// sqlite backend (a database file created offline with the repository's own migrations, the way
// pkg/testfixtures/storage does it), then enumerates every read operation x filter combination
// over the history's small universe on both and records the canonicalised results (sorted
// multisets of tuples, conditions and contexts included) for the Coq oracle
// (Store/ReadSpec.v, Store/MemoryRead.v, Store/SqlRead.v).
package main

import (
	"bufio"
	"context"
	"encoding/json"
	"errors"
	"fmt"
	"os"
	"path/filepath"
	"sort"
	"strings"

	"github.com/oklog/ulid/v2"
	"github.com/pressly/goose/v3"
	"google.golang.org/protobuf/types/known/structpb"

	openfgav1 "github.com/openfga/api/proto/openfga/v1"

	"github.com/openfga/openfga/assets"
	"github.com/openfga/openfga/internal/verifharness/lib/rec"
	"github.com/openfga/openfga/pkg/storage"
	"github.com/openfga/openfga/pkg/storage/memory"
	"github.com/openfga/openfga/pkg/storage/sqlcommon"
	"github.com/openfga/openfga/pkg/storage/sqlite"
	"github.com/openfga/openfga/pkg/tuple"
)

// ---- the structured view shared with the Coq model -------------------------------------------

type usr struct{ T, ID, R string }

func (u usr) String() string {
	s := u.T + ":" + u.ID
	if u.R != "" {
		s += "#" + u.R
	}
	return s
}

type tup struct {
	OT, OID, Rel string
	U            usr
	Cond         string
	Ctx          int // index into ctxTable; 0 = none / empty
}

func (t tup) key() string { return t.OT + ":" + t.OID + "#" + t.Rel + "@" + t.U.String() }

func (t tup) enc() rec.V {
	return rec.L(rec.S(t.OT), rec.S(t.OID), rec.S(t.Rel), rec.S(t.U.T), rec.S(t.U.ID), rec.S(t.U.R), rec.S(t.Cond), rec.I(t.Ctx))
}

// condition contexts; compared structurally through their canonical JSON
var ctxTable = []map[string]any{
	nil, // 0: no context (nil) — an empty struct is observed the same way
	{"x": 1.0},
	{"x": "1"},
	{"x": 1.0, "y": []any{true, nil, map[string]any{"z": "q"}}},
	{"": ""},
	{"n": 1e19, "s": "é|'%_\"\\"},
	{"a": map[string]any{"b": map[string]any{"c": []any{}}}},
}

var ctxJSON []string

func canon(m map[string]any) string {
	if m == nil {
		m = map[string]any{}
	}
	b, err := json.Marshal(m) // map keys sorted; numbers are float64 on both sides
	if err != nil {
		return "!" + err.Error()
	}
	return string(b)
}

func init() {
	for _, m := range ctxTable {
		ctxJSON = append(ctxJSON, canon(m))
	}
}

func ctxID(s *structpb.Struct) int {
	if s == nil {
		return 0
	}
	j := canon(s.AsMap())
	for i, c := range ctxJSON {
		if c == j {
			return i
		}
	}
	return 999
}

func ctxStruct(id int, emptyAsStruct bool) *structpb.Struct {
	if id == 0 {
		if emptyAsStruct {
			return &structpb.Struct{}
		}
		return nil
	}
	s, err := structpb.NewStruct(ctxTable[id])
	if err != nil {
		panic(err)
	}
	return s
}

// what a backend handed back, in the model's terms
func fromProto(t *openfgav1.Tuple) tup {
	k := t.GetKey()
	ot, oid := tuple.SplitObject(k.GetObject())
	ut, uid, ur := tuple.ToUserParts(k.GetUser())
	out := tup{OT: ot, OID: oid, Rel: k.GetRelation(), U: usr{ut, uid, ur}}
	if c := k.GetCondition(); c != nil {
		out.Cond = c.GetName()
		out.Ctx = ctxID(c.GetContext())
		if c.GetContext() == nil {
			out.Ctx = 998 // AsTuple always materialises a context for a named condition
		}
	}
	return out
}

type result struct {
	status int // 0 ok, 1 ErrNotFound, 9 other error
	tuples []tup
}

func (r result) enc() rec.V {
	vs := make([]string, len(r.tuples))
	for i, t := range r.tuples {
		vs[i] = string(t.enc())
	}
	sort.Strings(vs)
	out := make([]rec.V, len(vs))
	for i, v := range vs {
		out[i] = rec.V(v)
	}
	return rec.L(rec.I(r.status), rec.L(out...))
}

func drain(it storage.TupleIterator, err error) result {
	if err != nil {
		return result{status: 9}
	}
	defer it.Stop()
	var res result
	for {
		t, err := it.Next(context.Background())
		if err != nil {
			if errors.Is(err, storage.ErrIteratorDone) {
				return res
			}
			return result{status: 9}
		}
		res.tuples = append(res.tuples, fromProto(t))
	}
}

// ---- filters ---------------------------------------------------------------------------------

type ofilter struct {
	kind   int // 0 any, 1 type, 2 full
	ty, id string
}

func (o ofilter) str() string {
	switch o.kind {
	case 1:
		return o.ty + ":"
	case 2:
		return o.ty + ":" + o.id
	}
	return ""
}
func (o ofilter) enc() rec.V {
	switch o.kind {
	case 1:
		return rec.L(rec.I(1), rec.S(o.ty))
	case 2:
		return rec.L(rec.I(2), rec.S(o.ty), rec.S(o.id))
	}
	return rec.L(rec.I(0))
}

type ufilter struct {
	kind int // 0 any, 1 type, 2 exact
	u    usr
}

func (f ufilter) str() string {
	switch f.kind {
	case 1:
		return f.u.T + ":"
	case 2:
		return f.u.String()
	}
	return ""
}
func (f ufilter) enc() rec.V {
	switch f.kind {
	case 1:
		return rec.L(rec.I(1), rec.S(f.u.T))
	case 2:
		return rec.L(rec.I(2), rec.S(f.u.T), rec.S(f.u.ID), rec.S(f.u.R))
	}
	return rec.L(rec.I(0))
}

type condList struct {
	isNil bool
	cs    []string
}

func (c condList) slice() []string {
	if c.isNil {
		return nil
	}
	return append([]string{}, c.cs...)
}
func (c condList) enc() rec.V {
	n := 0
	if c.isNil {
		n = 1
	}
	return rec.L(rec.I(n), rec.LS(c.cs))
}

type restr struct {
	kind    int // 0 relation, 1 wildcard, 2 bare type
	ty, rel string
}

func (r restr) proto() *openfgav1.RelationReference {
	switch r.kind {
	case 0:
		return &openfgav1.RelationReference{Type: r.ty, RelationOrWildcard: &openfgav1.RelationReference_Relation{Relation: r.rel}}
	case 1:
		return &openfgav1.RelationReference{Type: r.ty, RelationOrWildcard: &openfgav1.RelationReference_Wildcard{Wildcard: &openfgav1.Wildcard{}}}
	}
	return &openfgav1.RelationReference{Type: r.ty}
}
func (r restr) enc() rec.V {
	switch r.kind {
	case 0:
		return rec.L(rec.I(0), rec.S(r.ty), rec.S(r.rel))
	case 1:
		return rec.L(rec.I(1), rec.S(r.ty))
	}
	return rec.L(rec.I(2), rec.S(r.ty))
}

type restrList struct {
	isNil bool
	rs    []restr
}

type oidSet struct {
	isNil bool
	ids   []string
}

// ---- universe of one history ------------------------------------------------------------------

type universe struct {
	otypes [2]string
	oids   [3]string // the third is rarely stored
	rels   [2]string
	users  []usr
	conds  [3]string // conds[0] == ""
	absent string
}

var idPool = []string{"1", "2", "3", "a", "b", "x|y", "o'q", "%", "_", "é", "long-identifier-0123456789", "A", "0"}
var typePool = []string{"doc", "folder", "d", "f", "repo", "org_unit", "t-1"}
var relPool = []string{"viewer", "parent", "v", "p", "can_view", "r-1"}
var condPool = []string{"c1", "c2", "cond_a", "k", "é'"}

func pickDistinct(r *rec.Rand, pool []string, n int) []string {
	p := append([]string{}, pool...)
	rec.Shuffle(r, p)
	return p[:n]
}

func newUniverse(r *rec.Rand, plain bool) universe {
	var u universe
	if plain {
		u.otypes = [2]string{"doc", "folder"}
		u.oids = [3]string{"1", "2", "3"}
		u.rels = [2]string{"viewer", "parent"}
		u.conds = [3]string{"", "c1", "c2"}
	} else {
		copy(u.otypes[:], pickDistinct(r, typePool, 2))
		copy(u.oids[:], pickDistinct(r, idPool, 3))
		copy(u.rels[:], pickDistinct(r, relPool, 2))
		cs := pickDistinct(r, condPool, 2)
		u.conds = [3]string{"", cs[0], cs[1]}
	}
	u.absent = "zz"
	g, usr0 := "group", "user"
	a, b := u.oids[0], u.oids[1]
	u.users = []usr{
		{usr0, "a", ""}, {usr0, "b", ""}, {usr0, "*", ""},
		{g, a, ""}, {g, b, ""}, {g, "*", ""},
		{g, a, "member"}, {g, b, "member"}, {g, a, "admin"},
		{u.otypes[1], a, ""}, {u.otypes[1], a, u.rels[0]}, {u.otypes[0], a, u.rels[0]},
	}
	return u
}

// ---- backends ---------------------------------------------------------------------------------

type backends struct {
	mem storage.OpenFGADatastore
	sql storage.OpenFGADatastore
}

func openSqlite(dir string) (storage.OpenFGADatastore, error) {
	// the steps of pkg/testfixtures/storage.(*sqliteTestContainer).RunSqliteTestDatabase
	goose.SetLogger(goose.NopLogger())
	goose.SetBaseFS(assets.EmbedMigrations)
	path := filepath.Join(dir, "database.db")
	uri := fmt.Sprintf("file:%s?_pragma=journal_mode(WAL)&_pragma=busy_timeout(5000)&_pragma=synchronous(NORMAL)", path)
	db, err := goose.OpenDBWithDriver("sqlite", uri)
	if err != nil {
		return nil, err
	}
	if err := goose.Up(db, assets.SqliteMigrationDir); err != nil {
		db.Close()
		return nil, err
	}
	if err := db.Close(); err != nil {
		return nil, err
	}
	return sqlite.New(uri, sqlcommon.NewConfig())
}

// ---- history ----------------------------------------------------------------------------------

type history struct {
	u     universe
	store []tup // expected content, in insertion order
	id    string
}

func tkOf(t tup, emptyCtxAsStruct bool) *openfgav1.TupleKey {
	tk := &openfgav1.TupleKey{Object: t.OT + ":" + t.OID, Relation: t.Rel, User: t.U.String()}
	if t.Cond != "" || t.Ctx != 0 {
		tk.Condition = &openfgav1.RelationshipCondition{Name: t.Cond, Context: ctxStruct(t.Ctx, emptyCtxAsStruct)}
	}
	return tk
}

func runHistory(w *rec.Writer, b backends, hseed uint64, plain bool) (*history, bool) {
	r := rec.NewRand(hseed)
	h := &history{u: newUniverse(r, plain), id: ulid.Make().String()}
	ctx := context.Background()
	have := map[string]int{}
	rebuild := func() {
		have = map[string]int{}
		for i, t := range h.store {
			have[t.key()] = i
		}
	}
	randTuple := func() tup {
		u := h.u
		t := tup{OT: rec.Pick(r, u.otypes[:]), Rel: rec.Pick(r, u.rels[:]), U: rec.Pick(r, u.users)}
		if r.Chance(1, 8) {
			t.OID = u.oids[2]
		} else {
			t.OID = u.oids[r.Intn(2)]
		}
		switch r.Intn(10) {
		case 0, 1, 2, 3:
			t.Cond = u.conds[1]
		case 4:
			t.Cond = u.conds[2]
		}
		if t.Cond != "" && r.Chance(2, 3) {
			t.Ctx = r.Range(1, len(ctxTable)-1)
		}
		return t
	}
	calls := r.Range(2, 5)
	for c := 0; c < calls; c++ {
		var writes []*openfgav1.TupleKey
		var deletes []*openfgav1.TupleKeyWithoutCondition
		var opts []storage.TupleWriteOption
		next := append([]tup{}, h.store...)
		// deletes of existing tuples
		if len(next) > 0 && c > 0 {
			nd := r.Intn(1 + len(next)/3)
			for i := 0; i < nd; i++ {
				j := r.Intn(len(next))
				d := next[j]
				deletes = append(deletes, &openfgav1.TupleKeyWithoutCondition{Object: d.OT + ":" + d.OID, Relation: d.Rel, User: d.U.String()})
				next = append(next[:j], next[j+1:]...)
				w.Stat("hist_deletes", 1)
			}
		}
		deleted := map[string]bool{}
		for _, d := range deletes {
			deleted[d.GetObject()+"#"+d.GetRelation()+"@"+d.GetUser()] = true
		}
		inCall := map[string]bool{}
		nw := r.Range(2, 7)
		if c == 0 {
			nw = r.Range(5, 10)
		}
		for i := 0; i < nw; i++ {
			t := randTuple()
			k := t.key()
			if _, ok := have[k]; ok || inCall[k] || deleted[k] {
				continue
			}
			inCall[k] = true
			emptyAsStruct := r.Bool()
			writes = append(writes, tkOf(t, emptyAsStruct))
			next = append(next, t)
			w.Stat("hist_writes", 1)
			if t.Cond != "" {
				w.Stat("hist_writes_conditioned", 1)
			}
			if t.Ctx != 0 {
				w.Stat("hist_writes_with_context", 1)
			}
		}
		// a record with an empty condition name but a context: stored, returned without condition
		if r.Chance(1, 6) {
			t := randTuple()
			t.Cond = ""
			t.Ctx = r.Range(1, len(ctxTable)-1)
			k := t.key()
			if _, ok := have[k]; !ok && !inCall[k] && !deleted[k] {
				inCall[k] = true
				writes = append(writes, tkOf(t, false))
				next = append(next, t)
				w.Stat("hist_writes_unnamed_condition_with_context", 1)
			}
		}
		// no-op items under the ignore options: an identical re-insert, a delete of a missing tuple
		if r.Chance(1, 4) && len(h.store) > 0 {
			opts = append(opts, storage.WithOnDuplicateInsert(storage.OnDuplicateInsertIgnore), storage.WithOnMissingDelete(storage.OnMissingDeleteIgnore))
			e := rec.Pick(r, h.store)
			if !deleted[e.key()] && (e.Cond == "" && e.Ctx == 0 || e.Cond != "" && e.Ctx != 0) {
				writes = append(writes, tkOf(e, false))
				w.Stat("hist_ignored_duplicate_insert", 1)
			}
			m := randTuple()
			if _, ok := have[m.key()]; !ok && !inCall[m.key()] {
				deletes = append(deletes, &openfgav1.TupleKeyWithoutCondition{Object: m.OT + ":" + m.OID, Relation: m.Rel, User: m.U.String()})
				w.Stat("hist_ignored_missing_delete", 1)
			}
		}
		if len(writes) == 0 && len(deletes) == 0 {
			continue
		}
		errM := b.mem.Write(ctx, h.id, deletes, writes, opts...)
		errS := b.sql.Write(ctx, h.id, deletes, writes, opts...)
		w.Stat("hist_write_calls", 1)
		if errM != nil || errS != nil {
			// every generated call is valid: a refusal is a divergence of its own
			w.PropFail("a valid Write call was refused", map[string]any{"h": hseed, "plain": plain, "call": c,
				"memory": fmt.Sprint(errM), "sqlite": fmt.Sprint(errS)})
			return h, false
		}
		h.store = next
		rebuild()
		// a failing call (duplicate insert under the default options) must change nothing
		if r.Chance(1, 5) && len(h.store) > 0 {
			e := rec.Pick(r, h.store)
			fresh := randTuple()
			if _, ok := have[fresh.key()]; !ok {
				bad := []*openfgav1.TupleKey{tkOf(fresh, false), tkOf(e, false)}
				e1 := b.mem.Write(ctx, h.id, nil, bad)
				e2 := b.sql.Write(ctx, h.id, nil, bad)
				w.Stat("hist_refused_calls", 1)
				if e1 == nil || e2 == nil {
					w.PropFail("a duplicate insert was accepted", map[string]any{"h": hseed, "plain": plain, "call": c,
						"memory": fmt.Sprint(e1), "sqlite": fmt.Sprint(e2)})
					return h, false
				}
			}
		}
	}
	return h, true
}

// ---- enumeration ------------------------------------------------------------------------------

type emitter struct {
	w      *rec.Writer
	b      backends
	h      *history
	hseed  uint64
	plain  bool
	want   map[string]bool // replay: the (op,i) pairs requested; nil = all
	storeV rec.V
	idx    map[string]int
}

func (e *emitter) wanted(op string) (int, bool) {
	i := e.idx[op]
	e.idx[op] = i + 1
	if e.want == nil {
		return i, true
	}
	return i, e.want[fmt.Sprintf("%s/%d", op, i)]
}

func (e *emitter) emit(op string, i int, opcode int, oc bool, extra map[string]any, filter rec.V, rm, rs result) {
	desc := map[string]any{"h": e.hseed, "plain": e.plain, "op": op, "i": i}
	for k, v := range extra {
		desc[k] = v
	}
	ocv := 0
	if oc {
		ocv = 1
		e.w.Stat(op+"_out_of_contract", 1)
	}
	e.w.Stat(op, 1)
	if len(rm.tuples) > 0 || len(rs.tuples) > 0 {
		e.w.Stat(op+"_nonempty", 1)
	}
	e.w.Case(desc, rec.I(opcode), rec.I(ocv), e.storeV, filter, rm.enc(), rs.enc())
}

func readAllPages(ds storage.OpenFGADatastore, store string, f storage.ReadFilter, pageSize int, cons storage.ConsistencyOptions) result {
	var res result
	token := ""
	for guard := 0; guard < 1000; guard++ {
		page, next, err := ds.ReadPage(context.Background(), store, f, storage.ReadPageOptions{
			Pagination:  storage.PaginationOptions{PageSize: pageSize, From: token},
			Consistency: cons,
		})
		if err != nil {
			return result{status: 9}
		}
		if len(page) > pageSize {
			return result{status: 8}
		}
		for _, t := range page {
			res.tuples = append(res.tuples, fromProto(t))
		}
		if next == "" {
			return res
		}
		token = next
	}
	return result{status: 7}
}

func cons(i int) storage.ConsistencyOptions {
	if i%3 == 1 {
		return storage.ConsistencyOptions{Preference: openfgav1.ConsistencyPreference_HIGHER_CONSISTENCY}
	}
	if i%3 == 2 {
		return storage.ConsistencyOptions{Preference: openfgav1.ConsistencyPreference_MINIMIZE_LATENCY}
	}
	return storage.ConsistencyOptions{}
}

func (e *emitter) enumerate() {
	u := e.h.u
	ctx := context.Background()
	z := u.absent
	condLists := []condList{
		{isNil: true}, {cs: []string{}}, {cs: []string{""}}, {cs: []string{u.conds[1]}},
		{cs: []string{"", u.conds[1]}}, {cs: []string{u.conds[1], u.conds[1], z}}, {cs: []string{u.conds[2], ""}},
	}
	ofs := []ofilter{
		{}, {1, u.otypes[0], ""}, {1, u.otypes[1], ""}, {1, z, ""},
		{2, u.otypes[0], u.oids[0]}, {2, u.otypes[0], u.oids[1]}, {2, u.otypes[1], u.oids[0]}, {2, u.otypes[0], z},
	}
	rels := []string{"", u.rels[0], u.rels[1], z}
	ufs := []ufilter{{}, {1, usr{T: "user"}}, {1, usr{T: "group"}}, {1, usr{T: u.otypes[1]}}}
	exact := []usr{u.users[0], u.users[2], u.users[3], u.users[6], u.users[7], u.users[5], u.users[9], u.users[10], {"user", z, ""}}
	for _, x := range exact {
		ufs = append(ufs, ufilter{2, x})
	}

	// Read and ReadPage (all pages)
	for _, o := range ofs {
		for _, rl := range rels {
			for _, uf := range ufs {
				for _, cl := range condLists {
					f := storage.ReadFilter{Object: o.str(), Relation: rl, User: uf.str(), Conditions: cl.slice()}
					fv := rec.L(o.enc(), rec.S(rl), uf.enc(), cl.enc())
					if i, ok := e.wanted("read"); ok {
						rm := drain(e.b.mem.Read(ctx, e.h.id, f, storage.ReadOptions{Consistency: cons(i)}))
						rs := drain(e.b.sql.Read(ctx, e.h.id, f, storage.ReadOptions{Consistency: cons(i)}))
						e.emit("read", i, 1, false, nil, fv, rm, rs)
					}
					if i, ok := e.wanted("readpage"); ok {
						ps := []int{1, 2, 3, 50}[i%4]
						rm := readAllPages(e.b.mem, e.h.id, f, ps, cons(i))
						rs := readAllPages(e.b.sql, e.h.id, f, ps, cons(i))
						e.emit("readpage", i, 2, false, map[string]any{"page_size": ps}, rec.L(o.enc(), rec.S(rl), uf.enc(), cl.enc(), rec.I(ps)), rm, rs)
					}
				}
			}
		}
	}

	// ReadUserTuple: full keys; an empty relation is outside the documented contract
	objs := [][2]string{{u.otypes[0], u.oids[0]}, {u.otypes[0], u.oids[1]}, {u.otypes[1], u.oids[0]}, {u.otypes[0], z}}
	for _, ob := range objs {
		for _, rl := range rels {
			for _, x := range exact {
				for _, cl := range condLists {
					i, ok := e.wanted("usertuple")
					if !ok {
						continue
					}
					f := storage.ReadUserTupleFilter{Object: ob[0] + ":" + ob[1], Relation: rl, User: x.String(), Conditions: cl.slice()}
					one := func(ds storage.OpenFGADatastore) result {
						t, err := ds.ReadUserTuple(ctx, e.h.id, f, storage.ReadUserTupleOptions{Consistency: cons(i)})
						if err != nil {
							if errors.Is(err, storage.ErrNotFound) {
								return result{status: 1}
							}
							return result{status: 9}
						}
						return result{tuples: []tup{fromProto(t)}}
					}
					fv := rec.L(rec.S(ob[0]), rec.S(ob[1]), rec.S(rl), rec.S(x.T), rec.S(x.ID), rec.S(x.R), cl.enc())
					e.emit("usertuple", i, 3, rl == "", nil, fv, one(e.b.mem), one(e.b.sql))
				}
			}
		}
	}

	// ReadUsersetTuples
	g := "group"
	rrel := func(ty, rel string) restr { return restr{0, ty, rel} }
	rwild := func(ty string) restr { return restr{1, ty, ""} }
	rbare := func(ty string) restr { return restr{2, ty, ""} }
	rlists := []restrList{
		{isNil: true}, {rs: []restr{}},
		{rs: []restr{rrel(g, "member")}}, {rs: []restr{rwild("user")}},
		{rs: []restr{rrel(g, "member"), rrel(g, "member")}}, {rs: []restr{rwild("user"), rwild("user")}},
		{rs: []restr{rrel(g, "member"), rwild("user")}},
		{rs: []restr{rrel(g, "admin"), rrel(g, "member"), rrel(u.otypes[1], u.rels[0])}},
		{rs: []restr{rwild(g), rrel(u.otypes[0], u.rels[0])}},
		{rs: []restr{rrel("user", "")}}, {rs: []restr{rrel("user", ""), rwild("user")}},
		{rs: []restr{rrel(z, "member"), rrel(g, z)}},
		{rs: []restr{rbare("user")}}, {rs: []restr{rbare(g), rrel(g, "member")}},
	}
	uofs := []ofilter{ofs[4], ofs[5], ofs[6], ofs[7], ofs[1], ofs[0]}
	for _, o := range uofs {
		for _, rl := range rels {
			for _, rlst := range rlists {
				for _, cl := range condLists {
					i, ok := e.wanted("usersets")
					if !ok {
						continue
					}
					var refs []*openfgav1.RelationReference
					if !rlst.isNil {
						refs = []*openfgav1.RelationReference{}
					}
					oc := false
					rvs := make([]rec.V, 0, len(rlst.rs))
					for _, x := range rlst.rs {
						refs = append(refs, x.proto())
						rvs = append(rvs, x.enc())
						if x.kind == 2 {
							oc = true
						}
					}
					f := storage.ReadUsersetTuplesFilter{Object: o.str(), Relation: rl, AllowedUserTypeRestrictions: refs, Conditions: cl.slice()}
					nilv := 0
					if rlst.isNil {
						nilv = 1
					}
					fv := rec.L(o.enc(), rec.S(rl), rec.L(rec.I(nilv), rec.L(rvs...)), cl.enc())
					rm := drain(e.b.mem.ReadUsersetTuples(ctx, e.h.id, f, storage.ReadUsersetTuplesOptions{Consistency: cons(i)}))
					rs := drain(e.b.sql.ReadUsersetTuples(ctx, e.h.id, f, storage.ReadUsersetTuplesOptions{Consistency: cons(i)}))
					e.emit("usersets", i, 4, oc, nil, fv, rm, rs)
				}
			}
		}
	}

	// ReadStartingWithUser
	us := u.users
	ulists := [][]usr{
		{us[0]}, {us[2]}, {us[3]}, {us[6]}, {us[0], us[2]}, {us[0], us[0]}, {us[3], us[6]},
		{us[6], us[6], us[1]}, {us[9]}, {us[9], us[10], us[7]}, {{"user", z, ""}}, {us[5]}, {us[4], us[11], us[8]},
		{},
	}
	oidSets := []oidSet{
		{isNil: true}, {ids: []string{}}, {ids: []string{u.oids[0]}}, {ids: []string{u.oids[0], u.oids[1]}},
		{ids: []string{z}}, {ids: []string{u.oids[1], u.oids[2]}},
	}
	for _, ot := range []string{u.otypes[0], u.otypes[1], z} {
		for _, rl := range []string{u.rels[0], u.rels[1], z} {
			for _, ul := range ulists {
				for _, os := range oidSets {
					for _, cl := range condLists {
						i, ok := e.wanted("rswu")
						if !ok {
							continue
						}
						var ufl []*openfgav1.ObjectRelation
						uvs := make([]rec.V, 0, len(ul))
						for _, x := range ul {
							ufl = append(ufl, &openfgav1.ObjectRelation{Object: x.T + ":" + x.ID, Relation: x.R})
							uvs = append(uvs, rec.L(rec.S(x.T), rec.S(x.ID), rec.S(x.R)))
						}
						f := storage.ReadStartingWithUserFilter{ObjectType: ot, Relation: rl, UserFilter: ufl, Conditions: cl.slice()}
						ov := rec.L(rec.I(0))
						if !os.isNil {
							set := storage.NewSortedSet()
							for _, id := range os.ids {
								set.Add(id)
							}
							f.ObjectIDs = set
							ov = rec.L(rec.I(1), rec.LS(os.ids))
						}
						sorted := i%2 == 0
						opts := storage.ReadStartingWithUserOptions{Consistency: cons(i), WithResultsSortedAscending: sorted}
						run := func(name string, ds storage.OpenFGADatastore) result {
							res := drain(ds.ReadStartingWithUser(ctx, e.h.id, f, opts))
							if sorted {
								for j := 1; j < len(res.tuples); j++ {
									if res.tuples[j-1].OID > res.tuples[j].OID {
										e.w.PropFail("ReadStartingWithUser with WithResultsSortedAscending is not sorted by object id ("+name+")",
											map[string]any{"h": e.hseed, "plain": e.plain, "op": "rswu", "i": i})
										break
									}
								}
							}
							return res
						}
						fv := rec.L(rec.S(ot), rec.S(rl), rec.L(uvs...), ov, cl.enc())
						e.emit("rswu", i, 5, false, map[string]any{"sorted": sorted}, fv, run("memory", e.b.mem), run("sqlite", e.b.sql))
					}
				}
			}
		}
	}
}

// ---- main -------------------------------------------------------------------------------------

func runOne(w *rec.Writer, b backends, hseed uint64, plain bool, want map[string]bool) {
	h, ok := runHistory(w, b, hseed, plain)
	if !ok {
		return
	}
	w.Stat("histories", 1)
	w.Stat("stored_tuples", len(h.store))
	for _, t := range h.store {
		if t.U.R != "" {
			w.Stat("stored_usersets", 1)
		} else if t.U.ID == "*" {
			w.Stat("stored_wildcards", 1)
		}
		if t.Cond != "" {
			w.Stat("stored_conditioned", 1)
		}
	}
	sv := make([]rec.V, len(h.store))
	for i, t := range h.store {
		sv[i] = t.enc()
	}
	e := &emitter{w: w, b: b, h: h, hseed: hseed, plain: plain, want: want, storeV: rec.L(sv...), idx: map[string]int{}}
	e.enumerate()
}

func main() {
	o := rec.ParseFlags()
	w := rec.NewWriter(o.Out)
	defer w.Close()

	dir := filepath.Join("/tmp/c13", fmt.Sprintf("run-%d-%d", os.Getpid(), o.Seed))
	if err := os.MkdirAll(dir, 0o755); err != nil {
		panic(err)
	}
	defer func() {
		os.RemoveAll(dir)
		os.Remove("/tmp/c13") // only succeeds when no other run is using it
	}()
	sq, err := openSqlite(dir)
	if err != nil {
		os.RemoveAll(dir)
		panic(err)
	}
	defer sq.Close()
	b := backends{mem: memory.New(), sql: sq}

	if o.Replay != "" {
		type d struct {
			H     uint64 `json:"h"`
			Plain bool   `json:"plain"`
			Op    string `json:"op"`
			I     int    `json:"i"`
		}
		f, err := os.Open(o.Replay)
		if err != nil {
			panic(err)
		}
		defer f.Close()
		type hk struct {
			h     uint64
			plain bool
		}
		wants := map[hk]map[string]bool{}
		var order []hk
		sc := bufio.NewScanner(f)
		sc.Buffer(make([]byte, 1<<20), 1<<26)
		for sc.Scan() {
			line := strings.TrimSpace(sc.Text())
			if line == "" || line == "null" {
				continue
			}
			var x d
			if json.Unmarshal([]byte(line), &x) != nil || x.H == 0 {
				continue
			}
			k := hk{x.H, x.Plain}
			if wants[k] == nil {
				wants[k] = map[string]bool{}
				order = append(order, k)
			}
			if x.Op != "" { // a description without op comes from a history-level failure: re-run the history only
				wants[k][fmt.Sprintf("%s/%d", x.Op, x.I)] = true
			}
		}
		for _, k := range order {
			runOne(w, b, k.h, k.plain, wants[k])
		}
		return
	}

	r := rec.NewRand(o.Seed)
	for i := 0; i < o.N; i++ {
		hseed := r.Uint64()
		runOne(w, b, hseed, i%3 == 0, nil)
	}
}
