//go:build verif

// Driver for C13: applies the same generated write history to the in-memory backend and to the
// sqlite backend (a database file created offline with the repository's own migrations, the way
// pkg/testfixtures/storage does it), then enumerates every read operation x filter combination
// over the history's small universe on both and records the canonicalised results (sorted
// multisets of tuples, conditions and contexts included) for the Coq oracle
// (Store/ReadSpec.v, Store/MemoryRead.v, Store/SqlRead.v).
package main

import (
	"bufio"
	"context"
	"encoding/json"
	"errors"
	"fmt"
	"os"
	"path/filepath"
	"sort"
	"strings"

	"github.com/oklog/ulid/v2"
	"github.com/pressly/goose/v3"
	"google.golang.org/protobuf/types/known/structpb"

	openfgav1 "github.com/openfga/api/proto/openfga/v1"

	"github.com/openfga/openfga/assets"
	"github.com/openfga/openfga/internal/verifharness/lib/rec"
	"github.com/openfga/openfga/pkg/storage"
	"github.com/openfga/openfga/pkg/storage/memory"
	"github.com/openfga/openfga/pkg/storage/sqlcommon"
	"github.com/openfga/openfga/pkg/storage/sqlite"
	"github.com/openfga/openfga/pkg/tuple"
)

// ---- the structured view shared with the Coq model -------------------------------------------

type usr struct{ T, ID, R string }

// obj is the object part of the user: "type:id", or the bare id of an untyped user
func (u usr) obj() string {
	if u.T == "" {
		return u.ID
	}
	return u.T + ":" + u.ID
}

func (u usr) String() string {
	s := u.obj()
	if u.R != "" {
		s += "#" + u.R
	}
	return s
}

type tup struct {
	OT, OID, Rel string
	U            usr
	Cond         string
	Ctx          int // index into ctxTable; 0 = none / empty
}

func (t tup) key() string { return t.OT + ":" + t.OID + "#" + t.Rel + "@" + t.U.String() }

func (t tup) enc() rec.V {
	return rec.L(rec.S(t.OT), rec.S(t.OID), rec.S(t.Rel), rec.S(t.U.T), rec.S(t.U.ID), rec.S(t.U.R), rec.S(t.Cond), rec.I(t.Ctx))
}

// condition contexts; compared structurally through their canonical JSON
var ctxTable = []map[string]any{
	nil, // 0: no context (nil) — an empty struct is observed the same way
	{"x": 1.0},
	{"x": "1"},
	{"x": 1.0, "y": []any{true, nil, map[string]any{"z": "q"}}},
	{"": ""},
	{"n": 1e19, "s": "é|'%_\"\\"},
	{"a": map[string]any{"b": map[string]any{"c": []any{}}}},
}

var ctxJSON []string

func canon(m map[string]any) string {
	if m == nil {
		m = map[string]any{}
	}
	b, err := json.Marshal(m) // map keys sorted; numbers are float64 on both sides
	if err != nil {
		return "!" + err.Error()
	}
	return string(b)
}

func init() {
	for _, m := range ctxTable {
		ctxJSON = append(ctxJSON, canon(m))
	}
}

func ctxID(s *structpb.Struct) int {
	if s == nil {
		return 0
	}
	j := canon(s.AsMap())
	for i, c := range ctxJSON {
		if c == j {
			return i
		}
	}
	return 999
}

func ctxStruct(id int, emptyAsStruct bool) *structpb.Struct {
	if id == 0 {
		if emptyAsStruct {
			return &structpb.Struct{}
		}
		return nil
	}
	s, err := structpb.NewStruct(ctxTable[id])
	if err != nil {
		panic(err)
	}
	return s
}

// what a backend handed back, in the model's terms
func fromProto(t *openfgav1.Tuple) tup {
	k := t.GetKey()
	ot, oid := tuple.SplitObject(k.GetObject())
	ut, uid, ur := tuple.ToUserParts(k.GetUser())
	out := tup{OT: ot, OID: oid, Rel: k.GetRelation(), U: usr{ut, uid, ur}}
	if c := k.GetCondition(); c != nil {
		out.Cond = c.GetName()
		out.Ctx = ctxID(c.GetContext())
		if c.GetContext() == nil {
			out.Ctx = 998 // AsTuple always materialises a context for a named condition
		}
	}
	return out
}

type result struct {
	status int // 0 ok, 1 ErrNotFound, 9 other error
	tuples []tup
}

func (r result) enc() rec.V {
	vs := make([]string, len(r.tuples))
	for i, t := range r.tuples {
		vs[i] = string(t.enc())
	}
	sort.Strings(vs)
	out := make([]rec.V, len(vs))
	for i, v := range vs {
		out[i] = rec.V(v)
	}
	return rec.L(rec.I(r.status), rec.L(out...))
}

// ---- filters ---------------------------------------------------------------------------------

type ofilter struct {
	kind   int // 0 any, 1 type, 2 full
	ty, id string
}

func (o ofilter) str() string {
	switch o.kind {
	case 1:
		return o.ty + ":"
	case 2:
		return o.ty + ":" + o.id
	}
	return ""
}
func (o ofilter) enc() rec.V {
	switch o.kind {
	case 1:
		return rec.L(rec.I(1), rec.S(o.ty))
	case 2:
		return rec.L(rec.I(2), rec.S(o.ty), rec.S(o.id))
	}
	return rec.L(rec.I(0))
}

type ufilter struct {
	kind int // 0 any, 1 type, 2 exact
	u    usr
}

func (f ufilter) str() string {
	switch f.kind {
	case 1:
		return f.u.T + ":"
	case 2:
		return f.u.String()
	}
	return ""
}
func (f ufilter) enc() rec.V {
	switch f.kind {
	case 1:
		return rec.L(rec.I(1), rec.S(f.u.T))
	case 2:
		return rec.L(rec.I(2), rec.S(f.u.T), rec.S(f.u.ID), rec.S(f.u.R))
	}
	return rec.L(rec.I(0))
}

type condList struct {
	isNil bool
	cs    []string
}

func (c condList) slice() []string {
	if c.isNil {
		return nil
	}
	return append([]string{}, c.cs...)
}
func (c condList) enc() rec.V {
	n := 0
	if c.isNil {
		n = 1
	}
	return rec.L(rec.I(n), rec.LS(c.cs))
}

type restr struct {
	kind    int // 0 relation, 1 wildcard, 2 bare type
	ty, rel string
}

func (r restr) proto() *openfgav1.RelationReference {
	switch r.kind {
	case 0:
		return &openfgav1.RelationReference{Type: r.ty, RelationOrWildcard: &openfgav1.RelationReference_Relation{Relation: r.rel}}
	case 1:
		return &openfgav1.RelationReference{Type: r.ty, RelationOrWildcard: &openfgav1.RelationReference_Wildcard{Wildcard: &openfgav1.Wildcard{}}}
	}
	return &openfgav1.RelationReference{Type: r.ty}
}
func (r restr) enc() rec.V {
	switch r.kind {
	case 0:
		return rec.L(rec.I(0), rec.S(r.ty), rec.S(r.rel))
	case 1:
		return rec.L(rec.I(1), rec.S(r.ty))
	}
	return rec.L(rec.I(2), rec.S(r.ty))
}

type restrList struct {
	isNil bool
	rs    []restr
}

type oidSet struct {
	isNil   bool
	ids     []string
	big     bool     // a large set: the record carries `reduced` and the size
	reduced []string // members that are stored object ids (or one non-stored member)
}

// ---- universe of one history ------------------------------------------------------------------

type universe struct {
	otypes [2]string
	oids   [3]string // the third is rarely stored
	rels   [2]string
	users  []usr
	conds  [3]string // conds[0] == ""
	absent string
}

var idPool = []string{"1", "2", "3", "a", "b", "x|y", "o'q", "%", "_", "é", "long-identifier-0123456789", "A", "0"}
var typePool = []string{"doc", "folder", "d", "f", "repo", "org_unit", "t-1"}
var relPool = []string{"viewer", "parent", "v", "p", "can_view", "r-1"}
var condPool = []string{"c1", "c2", "cond_a", "k", "é'"}

func pickDistinct(r *rec.Rand, pool []string, n int) []string {
	p := append([]string{}, pool...)
	rec.Shuffle(r, p)
	return p[:n]
}

// prefix-related names: one name is a strict prefix of another in every name-like field
var prefTypes = [][2]string{{"doc", "doc-ext"}, {"doc", "document"}, {"d", "doc"}, {"folder", "folder2"}}
var prefIDs = [][3]string{{"1", "10", "100"}, {"a", "ab", "a|b"}, {"x", "x1", "x-"}, {"ob", "obj", "o"}}
var prefRels = [][2]string{{"viewer", "viewer2"}, {"view", "viewer"}, {"p", "parent"}, {"can_view", "can_view_all"}}
var prefConds = [][2]string{{"c1", "c11"}, {"c", "c1"}, {"cond", "cond_a"}}

// kind 0: the plain / pooled universes (the draws of these must never change: corpus entries name
// histories by seed); kind 1: prefix-related names, extra user types, untyped users
func newUniverse(r *rec.Rand, plain bool, kind int) universe {
	var u universe
	if kind == 1 {
		u.otypes = rec.Pick(r, prefTypes)
		u.oids = rec.Pick(r, prefIDs)
		u.rels = rec.Pick(r, prefRels)
		cs := rec.Pick(r, prefConds)
		u.conds = [3]string{"", cs[0], cs[1]}
		if r.Bool() {
			u.otypes[0], u.otypes[1] = u.otypes[1], u.otypes[0]
		}
		if r.Bool() {
			u.rels[0], u.rels[1] = u.rels[1], u.rels[0]
		}
		if r.Bool() {
			u.conds[1], u.conds[2] = u.conds[2], u.conds[1]
		}
	} else if plain {
		u.otypes = [2]string{"doc", "folder"}
		u.oids = [3]string{"1", "2", "3"}
		u.rels = [2]string{"viewer", "parent"}
		u.conds = [3]string{"", "c1", "c2"}
	} else {
		copy(u.otypes[:], pickDistinct(r, typePool, 2))
		copy(u.oids[:], pickDistinct(r, idPool, 3))
		copy(u.rels[:], pickDistinct(r, relPool, 2))
		cs := pickDistinct(r, condPool, 2)
		u.conds = [3]string{"", cs[0], cs[1]}
	}
	u.absent = "zz"
	g, usr0 := "group", "user"
	a, b := u.oids[0], u.oids[1]
	u.users = []usr{
		{usr0, "a", ""}, {usr0, "b", ""}, {usr0, "*", ""},
		{g, a, ""}, {g, b, ""}, {g, "*", ""},
		{g, a, "member"}, {g, b, "member"}, {g, a, "admin"},
		{u.otypes[1], a, ""}, {u.otypes[1], a, u.rels[0]}, {u.otypes[0], a, u.rels[0]},
	}
	if kind == 1 {
		// indices 12..: types of which "user" / "group" are strict prefixes, and untyped users
		u.users = append(u.users,
			usr{"user2", "a", ""}, usr{"user2", "*", ""}, usr{"userset_admin", a, "member"},
			usr{"groupadmin", a, "member"}, usr{"groupadmin", a, ""}, usr{"", "users-legacy", ""},
			usr{"", "group", ""}, usr{"use", "a", ""})
	}
	return u
}

// ---- backends ---------------------------------------------------------------------------------

type backends struct {
	mem storage.OpenFGADatastore
	sql storage.OpenFGADatastore
}

func openSqlite(dir string) (storage.OpenFGADatastore, error) {
	// the steps of pkg/testfixtures/storage.(*sqliteTestContainer).RunSqliteTestDatabase
	goose.SetLogger(goose.NopLogger())
	goose.SetBaseFS(assets.EmbedMigrations)
	path := filepath.Join(dir, "database.db")
	uri := fmt.Sprintf("file:%s?_pragma=journal_mode(WAL)&_pragma=busy_timeout(5000)&_pragma=synchronous(NORMAL)", path)
	db, err := goose.OpenDBWithDriver("sqlite", uri)
	if err != nil {
		return nil, err
	}
	if err := goose.Up(db, assets.SqliteMigrationDir); err != nil {
		db.Close()
		return nil, err
	}
	if err := db.Close(); err != nil {
		return nil, err
	}
	return sqlite.New(uri, sqlcommon.NewConfig())
}

// ---- history ----------------------------------------------------------------------------------

type history struct {
	u     universe
	store []tup // expected content, in insertion order
	id    string
}

func tkOf(t tup, emptyCtxAsStruct bool) *openfgav1.TupleKey {
	tk := &openfgav1.TupleKey{Object: t.OT + ":" + t.OID, Relation: t.Rel, User: t.U.String()}
	if t.Cond != "" || t.Ctx != 0 {
		tk.Condition = &openfgav1.RelationshipCondition{Name: t.Cond, Context: ctxStruct(t.Ctx, emptyCtxAsStruct)}
	}
	return tk
}

func runHistory(w *rec.Writer, b backends, hseed uint64, plain bool, kind int) (*history, bool) {
	r := rec.NewRand(hseed)
	h := &history{u: newUniverse(r, plain, kind), id: ulid.Make().String()}
	ctx := context.Background()
	have := map[string]int{}
	rebuild := func() {
		have = map[string]int{}
		for i, t := range h.store {
			have[t.key()] = i
		}
	}
	randTuple := func() tup {
		u := h.u
		t := tup{OT: rec.Pick(r, u.otypes[:]), Rel: rec.Pick(r, u.rels[:]), U: rec.Pick(r, u.users)}
		if r.Chance(1, 8) {
			t.OID = u.oids[2]
		} else {
			t.OID = u.oids[r.Intn(2)]
		}
		switch r.Intn(10) {
		case 0, 1, 2, 3:
			t.Cond = u.conds[1]
		case 4:
			t.Cond = u.conds[2]
		}
		if t.Cond != "" && r.Chance(2, 3) {
			t.Ctx = r.Range(1, len(ctxTable)-1)
		}
		return t
	}
	calls := r.Range(2, 5)
	for c := 0; c < calls; c++ {
		var writes []*openfgav1.TupleKey
		var deletes []*openfgav1.TupleKeyWithoutCondition
		var opts []storage.TupleWriteOption
		next := append([]tup{}, h.store...)
		// deletes of existing tuples
		if len(next) > 0 && c > 0 {
			nd := r.Intn(1 + len(next)/3)
			for i := 0; i < nd; i++ {
				j := r.Intn(len(next))
				d := next[j]
				deletes = append(deletes, &openfgav1.TupleKeyWithoutCondition{Object: d.OT + ":" + d.OID, Relation: d.Rel, User: d.U.String()})
				next = append(next[:j], next[j+1:]...)
				w.Stat("hist_deletes", 1)
			}
		}
		deleted := map[string]bool{}
		for _, d := range deletes {
			deleted[d.GetObject()+"#"+d.GetRelation()+"@"+d.GetUser()] = true
		}
		inCall := map[string]bool{}
		nw := r.Range(2, 7)
		if c == 0 {
			nw = r.Range(5, 10)
		}
		for i := 0; i < nw; i++ {
			t := randTuple()
			k := t.key()
			if _, ok := have[k]; ok || inCall[k] || deleted[k] {
				continue
			}
			inCall[k] = true
			emptyAsStruct := r.Bool()
			writes = append(writes, tkOf(t, emptyAsStruct))
			next = append(next, t)
			w.Stat("hist_writes", 1)
			if t.Cond != "" {
				w.Stat("hist_writes_conditioned", 1)
			}
			if t.Ctx != 0 {
				w.Stat("hist_writes_with_context", 1)
			}
		}
		// a record with an empty condition name but a context: stored, returned without condition
		if r.Chance(1, 6) {
			t := randTuple()
			t.Cond = ""
			t.Ctx = r.Range(1, len(ctxTable)-1)
			k := t.key()
			if _, ok := have[k]; !ok && !inCall[k] && !deleted[k] {
				inCall[k] = true
				writes = append(writes, tkOf(t, false))
				next = append(next, t)
				w.Stat("hist_writes_unnamed_condition_with_context", 1)
			}
		}
		// no-op items under the ignore options: an identical re-insert, a delete of a missing tuple
		if r.Chance(1, 4) && len(h.store) > 0 {
			opts = append(opts, storage.WithOnDuplicateInsert(storage.OnDuplicateInsertIgnore), storage.WithOnMissingDelete(storage.OnMissingDeleteIgnore))
			e := rec.Pick(r, h.store)
			if !deleted[e.key()] && (e.Cond == "" && e.Ctx == 0 || e.Cond != "" && e.Ctx != 0) {
				writes = append(writes, tkOf(e, false))
				w.Stat("hist_ignored_duplicate_insert", 1)
			}
			m := randTuple()
			if _, ok := have[m.key()]; !ok && !inCall[m.key()] {
				deletes = append(deletes, &openfgav1.TupleKeyWithoutCondition{Object: m.OT + ":" + m.OID, Relation: m.Rel, User: m.U.String()})
				w.Stat("hist_ignored_missing_delete", 1)
			}
		}
		if len(writes) == 0 && len(deletes) == 0 {
			continue
		}
		errM := b.mem.Write(ctx, h.id, deletes, writes, opts...)
		errS := b.sql.Write(ctx, h.id, deletes, writes, opts...)
		w.Stat("hist_write_calls", 1)
		if errM != nil || errS != nil {
			// every generated call is valid: a refusal is a divergence of its own
			w.PropFail("a valid Write call was refused", map[string]any{"h": hseed, "plain": plain, "u": kind, "call": c,
				"memory": fmt.Sprint(errM), "sqlite": fmt.Sprint(errS)})
			return h, false
		}
		h.store = next
		rebuild()
		// a failing call (duplicate insert under the default options) must change nothing
		if r.Chance(1, 5) && len(h.store) > 0 {
			e := rec.Pick(r, h.store)
			fresh := randTuple()
			if _, ok := have[fresh.key()]; !ok {
				bad := []*openfgav1.TupleKey{tkOf(fresh, false), tkOf(e, false)}
				e1 := b.mem.Write(ctx, h.id, nil, bad)
				e2 := b.sql.Write(ctx, h.id, nil, bad)
				w.Stat("hist_refused_calls", 1)
				if e1 == nil || e2 == nil {
					w.PropFail("a duplicate insert was accepted", map[string]any{"h": hseed, "plain": plain, "u": kind, "call": c,
						"memory": fmt.Sprint(e1), "sqlite": fmt.Sprint(e2)})
					return h, false
				}
			}
		}
	}
	return h, true
}

// ---- enumeration ------------------------------------------------------------------------------

type emitter struct {
	w      *rec.Writer
	b      backends
	h      *history
	hseed  uint64
	plain  bool
	kind   int
	want   map[string]bool // replay: the (op,i) pairs requested; nil = all
	storeV rec.V
	idx    map[string]int
}

func (e *emitter) wanted(op string) (int, bool) {
	i := e.idx[op]
	e.idx[op] = i + 1
	if e.want == nil {
		return i, true
	}
	return i, e.want[fmt.Sprintf("%s/%d", op, i)]
}

func (e *emitter) desc(op string, i int) map[string]any {
	return map[string]any{"h": e.hseed, "plain": e.plain, "u": e.kind, "op": op, "i": i}
}

func (e *emitter) emit(op string, i int, opcode int, oc bool, extra map[string]any, filter rec.V, rm, rs result) {
	desc := e.desc(op, i)
	for k, v := range extra {
		desc[k] = v
	}
	ocv := 0
	if oc {
		ocv = 1
		e.w.Stat(op+"_out_of_contract", 1)
	}
	e.w.Stat(op, 1)
	if len(rm.tuples) > 0 || len(rs.tuples) > 0 {
		e.w.Stat(op+"_nonempty", 1)
	}
	e.w.Case(desc, rec.I(opcode), rec.I(ocv), e.storeV, filter, rm.enc(), rs.enc())
}

// consume drains an iterator.  Two calls out of three follow a Head/Next schedule derived from
// (history seed, op, index): before every Next, 0..2 Head peeks.  Each Head must hand out exactly
// the tuple (condition name and context included) that the following Next hands out, and
// ErrIteratorDone exactly when the following Next does; the Next sequence is the recorded result.
func (e *emitter) consume(backend, op string, i int, it storage.TupleIterator, err error) result {
	if err != nil {
		return result{status: 9}
	}
	defer it.Stop()
	var sched *rec.Rand
	if i%3 != 0 {
		sched = rec.NewRand(e.hseed ^ (uint64(i+1) * 0x9e3779b97f4a7c15) ^ uint64(len(op))<<56)
	}
	ctx := context.Background()
	var res result
	fail := func(what string, extra map[string]any) {
		d := e.desc(op, i)
		d["backend"] = backend
		for k, v := range extra {
			d[k] = v
		}
		e.w.PropFail(what, d)
	}
	for step := 0; ; step++ {
		var heads []*tup
		headDone := 0
		if sched != nil {
			for k := sched.Intn(3); k > 0; k-- {
				e.w.Stat("iter_head_calls", 1)
				t, herr := it.Head(ctx)
				if herr != nil {
					if !errors.Is(herr, storage.ErrIteratorDone) {
						return result{status: 9}
					}
					headDone++
					continue
				}
				x := fromProto(t)
				heads = append(heads, &x)
			}
		}
		t, nerr := it.Next(ctx)
		if nerr != nil {
			if !errors.Is(nerr, storage.ErrIteratorDone) {
				return result{status: 9}
			}
			if len(heads) > 0 {
				fail("iterator: Head returned a tuple but the following Next reports the end", map[string]any{"step": step})
			}
			if sched != nil && sched.Bool() {
				if _, herr := it.Head(ctx); !errors.Is(herr, storage.ErrIteratorDone) {
					fail("iterator: Head after the end does not report ErrIteratorDone", map[string]any{"step": step})
				}
			}
			return res
		}
		x := fromProto(t)
		if headDone > 0 {
			fail("iterator: Head reported the end but the following Next returned a tuple", map[string]any{"step": step})
		}
		for _, hd := range heads {
			if *hd != x {
				e.w.Stat("iter_head_mismatch", 1)
				fail("iterator: Head differs from the following Next (key, condition name or context)",
					map[string]any{"step": step, "head": fmt.Sprint(*hd), "next": fmt.Sprint(x)})
				break
			}
		}
		if len(heads) > 0 && x.Ctx != 0 {
			e.w.Stat("iter_head_then_next_with_context", 1)
		}
		res.tuples = append(res.tuples, x)
	}
}

func readAllPages(ds storage.OpenFGADatastore, store string, f storage.ReadFilter, pageSize int, cons storage.ConsistencyOptions) result {
	var res result
	token := ""
	for guard := 0; guard < 1000; guard++ {
		page, next, err := ds.ReadPage(context.Background(), store, f, storage.ReadPageOptions{
			Pagination:  storage.PaginationOptions{PageSize: pageSize, From: token},
			Consistency: cons,
		})
		if err != nil {
			return result{status: 9}
		}
		if len(page) > pageSize {
			return result{status: 8}
		}
		for _, t := range page {
			res.tuples = append(res.tuples, fromProto(t))
		}
		if next == "" {
			return res
		}
		token = next
	}
	return result{status: 7}
}

func cons(i int) storage.ConsistencyOptions {
	if i%3 == 1 {
		return storage.ConsistencyOptions{Preference: openfgav1.ConsistencyPreference_HIGHER_CONSISTENCY}
	}
	if i%3 == 2 {
		return storage.ConsistencyOptions{Preference: openfgav1.ConsistencyPreference_MINIMIZE_LATENCY}
	}
	return storage.ConsistencyOptions{}
}

// bigOidSet builds an ObjectIDs set of `size` members: `keep` (stored ids) plus generated ids
// "!0000".. (sorting below every stored id) and "~0000".. (sorting above the ASCII ones), so that
// stored ids which are not members lie between Min and Max.  `reduced` is what the oracle gets:
// the members that are stored object ids, or one non-stored member when there is none
// (Props/C13.v rswu_object_ids_reduction: only that matters).
func (e *emitter) bigOidSet(size int, keep []string) oidSet {
	ids := append([]string{}, keep...)
	for k := 0; len(ids) < size; k++ {
		pre := "!"
		if k%2 == 1 {
			pre = "~"
		}
		ids = append(ids, fmt.Sprintf("%s%04d", pre, k/2))
	}
	stored := map[string]bool{}
	for _, t := range e.h.store {
		stored[t.OID] = true
	}
	var reduced []string
	for _, id := range ids {
		if stored[id] {
			reduced = append(reduced, id)
		}
	}
	if len(reduced) == 0 {
		reduced = []string{ids[len(ids)-1]}
	}
	return oidSet{ids: ids, reduced: reduced, big: true}
}

// NOTE: corpus entries name a case by (history seed, op, index): new shapes are only ever appended
// after the existing loops of an op, and the draws of kind-0 histories never change.
func (e *emitter) enumerate() {
	u := e.h.u
	ctx := context.Background()
	z := u.absent
	condLists := []condList{
		{isNil: true}, {cs: []string{}}, {cs: []string{""}}, {cs: []string{u.conds[1]}},
		{cs: []string{"", u.conds[1]}}, {cs: []string{u.conds[1], u.conds[1], z}}, {cs: []string{u.conds[2], ""}},
	}
	ofs := []ofilter{
		{}, {1, u.otypes[0], ""}, {1, u.otypes[1], ""}, {1, z, ""},
		{2, u.otypes[0], u.oids[0]}, {2, u.otypes[0], u.oids[1]}, {2, u.otypes[1], u.oids[0]}, {2, u.otypes[0], z},
	}
	rels := []string{"", u.rels[0], u.rels[1], z}
	ufs := []ufilter{{}, {1, usr{T: "user"}}, {1, usr{T: "group"}}, {1, usr{T: u.otypes[1]}}}
	exact := []usr{u.users[0], u.users[2], u.users[3], u.users[6], u.users[7], u.users[5], u.users[9], u.users[10], {"user", z, ""}}
	for _, x := range exact {
		ufs = append(ufs, ufilter{2, x})
	}

	readCase := func(o ofilter, rl string, uf ufilter, cl condList) {
		f := storage.ReadFilter{Object: o.str(), Relation: rl, User: uf.str(), Conditions: cl.slice()}
		fv := rec.L(o.enc(), rec.S(rl), uf.enc(), cl.enc())
		if i, ok := e.wanted("read"); ok {
			itm, errm := e.b.mem.Read(ctx, e.h.id, f, storage.ReadOptions{Consistency: cons(i)})
			rm := e.consume("memory", "read", i, itm, errm)
			its, errs := e.b.sql.Read(ctx, e.h.id, f, storage.ReadOptions{Consistency: cons(i)})
			rs := e.consume("sqlite", "read", i, its, errs)
			e.emit("read", i, 1, false, nil, fv, rm, rs)
		}
		if i, ok := e.wanted("readpage"); ok {
			ps := []int{1, 2, 3, 50}[i%4]
			rm := readAllPages(e.b.mem, e.h.id, f, ps, cons(i))
			rs := readAllPages(e.b.sql, e.h.id, f, ps, cons(i))
			e.emit("readpage", i, 2, false, map[string]any{"page_size": ps}, rec.L(o.enc(), rec.S(rl), uf.enc(), cl.enc(), rec.I(ps)), rm, rs)
		}
	}
	userTupleCase := func(ob [2]string, rl string, x usr, cl condList) {
		i, ok := e.wanted("usertuple")
		if !ok {
			return
		}
		f := storage.ReadUserTupleFilter{Object: ob[0] + ":" + ob[1], Relation: rl, User: x.String(), Conditions: cl.slice()}
		one := func(ds storage.OpenFGADatastore) result {
			t, err := ds.ReadUserTuple(ctx, e.h.id, f, storage.ReadUserTupleOptions{Consistency: cons(i)})
			if err != nil {
				if errors.Is(err, storage.ErrNotFound) {
					return result{status: 1}
				}
				return result{status: 9}
			}
			return result{tuples: []tup{fromProto(t)}}
		}
		fv := rec.L(rec.S(ob[0]), rec.S(ob[1]), rec.S(rl), rec.S(x.T), rec.S(x.ID), rec.S(x.R), cl.enc())
		e.emit("usertuple", i, 3, rl == "", nil, fv, one(e.b.mem), one(e.b.sql))
	}
	usersetsCase := func(o ofilter, rl string, rlst restrList, cl condList) {
		i, ok := e.wanted("usersets")
		if !ok {
			return
		}
		var refs []*openfgav1.RelationReference
		if !rlst.isNil {
			refs = []*openfgav1.RelationReference{}
		}
		oc := false
		rvs := make([]rec.V, 0, len(rlst.rs))
		for _, x := range rlst.rs {
			refs = append(refs, x.proto())
			rvs = append(rvs, x.enc())
			if x.kind == 2 {
				oc = true
			}
		}
		f := storage.ReadUsersetTuplesFilter{Object: o.str(), Relation: rl, AllowedUserTypeRestrictions: refs, Conditions: cl.slice()}
		nilv := 0
		if rlst.isNil {
			nilv = 1
		}
		fv := rec.L(o.enc(), rec.S(rl), rec.L(rec.I(nilv), rec.L(rvs...)), cl.enc())
		itm, errm := e.b.mem.ReadUsersetTuples(ctx, e.h.id, f, storage.ReadUsersetTuplesOptions{Consistency: cons(i)})
		rm := e.consume("memory", "usersets", i, itm, errm)
		its, errs := e.b.sql.ReadUsersetTuples(ctx, e.h.id, f, storage.ReadUsersetTuplesOptions{Consistency: cons(i)})
		rs := e.consume("sqlite", "usersets", i, its, errs)
		e.emit("usersets", i, 4, oc, nil, fv, rm, rs)
	}
	rswuCase := func(ot, rl string, ul []usr, os oidSet, cl condList) {
		i, ok := e.wanted("rswu")
		if !ok {
			return
		}
		var ufl []*openfgav1.ObjectRelation
		uvs := make([]rec.V, 0, len(ul))
		for _, x := range ul {
			ufl = append(ufl, &openfgav1.ObjectRelation{Object: x.obj(), Relation: x.R})
			uvs = append(uvs, rec.L(rec.S(x.T), rec.S(x.ID), rec.S(x.R)))
		}
		f := storage.ReadStartingWithUserFilter{ObjectType: ot, Relation: rl, UserFilter: ufl, Conditions: cl.slice()}
		ov := rec.L(rec.I(0))
		extra := map[string]any{}
		if !os.isNil {
			set := storage.NewSortedSet()
			for _, id := range os.ids {
				set.Add(id)
			}
			f.ObjectIDs = set
			if os.big {
				ov = rec.L(rec.I(1), rec.LS(os.reduced), rec.I(len(os.ids)))
				extra["object_ids_size"] = len(os.ids)
				e.w.Stat("rswu_big_object_ids", 1)
			} else {
				ov = rec.L(rec.I(1), rec.LS(os.ids))
			}
		}
		sorted := i%2 == 0
		extra["sorted"] = sorted
		opts := storage.ReadStartingWithUserOptions{Consistency: cons(i), WithResultsSortedAscending: sorted}
		run := func(name string, ds storage.OpenFGADatastore) result {
			it, err := ds.ReadStartingWithUser(ctx, e.h.id, f, opts)
			res := e.consume(name, "rswu", i, it, err)
			if sorted {
				for j := 1; j < len(res.tuples); j++ {
					if res.tuples[j-1].OID > res.tuples[j].OID {
						e.w.PropFail("ReadStartingWithUser with WithResultsSortedAscending is not sorted by object id ("+name+")", e.desc("rswu", i))
						break
					}
				}
			}
			return res
		}
		fv := rec.L(rec.S(ot), rec.S(rl), rec.L(uvs...), ov, cl.enc())
		rm := run("memory", e.b.mem)
		rs := run("sqlite", e.b.sql)
		if os.big && (len(rm.tuples) > 0 || len(rs.tuples) > 0) {
			e.w.Stat("rswu_big_object_ids_nonempty", 1)
		}
		e.emit("rswu", i, 5, false, extra, fv, rm, rs)
	}

	// Read and ReadPage (all pages)
	for _, o := range ofs {
		for _, rl := range rels {
			for _, uf := range ufs {
				for _, cl := range condLists {
					readCase(o, rl, uf, cl)
				}
			}
		}
	}

	// ReadUserTuple: full keys; an empty relation is outside the documented contract
	objs := [][2]string{{u.otypes[0], u.oids[0]}, {u.otypes[0], u.oids[1]}, {u.otypes[1], u.oids[0]}, {u.otypes[0], z}}
	for _, ob := range objs {
		for _, rl := range rels {
			for _, x := range exact {
				for _, cl := range condLists {
					userTupleCase(ob, rl, x, cl)
				}
			}
		}
	}

	// ReadUsersetTuples
	g := "group"
	rrel := func(ty, rel string) restr { return restr{0, ty, rel} }
	rwild := func(ty string) restr { return restr{1, ty, ""} }
	rbare := func(ty string) restr { return restr{2, ty, ""} }
	rlists := []restrList{
		{isNil: true}, {rs: []restr{}},
		{rs: []restr{rrel(g, "member")}}, {rs: []restr{rwild("user")}},
		{rs: []restr{rrel(g, "member"), rrel(g, "member")}}, {rs: []restr{rwild("user"), rwild("user")}},
		{rs: []restr{rrel(g, "member"), rwild("user")}},
		{rs: []restr{rrel(g, "admin"), rrel(g, "member"), rrel(u.otypes[1], u.rels[0])}},
		{rs: []restr{rwild(g), rrel(u.otypes[0], u.rels[0])}},
		{rs: []restr{rrel("user", "")}}, {rs: []restr{rrel("user", ""), rwild("user")}},
		{rs: []restr{rrel(z, "member"), rrel(g, z)}},
		{rs: []restr{rbare("user")}}, {rs: []restr{rbare(g), rrel(g, "member")}},
	}
	uofs := []ofilter{ofs[4], ofs[5], ofs[6], ofs[7], ofs[1], ofs[0]}
	for _, o := range uofs {
		for _, rl := range rels {
			for _, rlst := range rlists {
				for _, cl := range condLists {
					usersetsCase(o, rl, rlst, cl)
				}
			}
		}
	}

	// ReadStartingWithUser
	us := u.users
	ulists := [][]usr{
		{us[0]}, {us[2]}, {us[3]}, {us[6]}, {us[0], us[2]}, {us[0], us[0]}, {us[3], us[6]},
		{us[6], us[6], us[1]}, {us[9]}, {us[9], us[10], us[7]}, {{"user", z, ""}}, {us[5]}, {us[4], us[11], us[8]},
		{},
	}
	oidSets := []oidSet{
		{isNil: true}, {ids: []string{}}, {ids: []string{u.oids[0]}}, {ids: []string{u.oids[0], u.oids[1]}},
		{ids: []string{z}}, {ids: []string{u.oids[1], u.oids[2]}},
	}
	for _, ot := range []string{u.otypes[0], u.otypes[1], z} {
		for _, rl := range []string{u.rels[0], u.rels[1], z} {
			for _, ul := range ulists {
				for _, os := range oidSets {
					for _, cl := range condLists {
						rswuCase(ot, rl, ul, os, cl)
					}
				}
			}
		}
	}

	// ---- appended shapes (indices continue after the loops above) -----------------------------

	// large ObjectIDs sets around typical thresholds, with gaps: stored ids that are not members
	// sort between Min and Max
	allUsers := [][]usr{{us[0], us[1], us[2], us[3], us[6], us[9]}, {us[4], us[5], us[7], us[8], us[10], us[11]}}
	if e.kind == 1 {
		allUsers[0] = append(allUsers[0], us[12], us[14], us[17])
		allUsers[1] = append(allUsers[1], us[13], us[15], us[16], us[18])
	}
	keeps := [][]string{{}, {u.oids[0]}, {u.oids[1], u.oids[2]}}
	for _, size := range []int{99, 100, 101, 255, 256, 257, 300, 1000, 1500} {
		for _, keep := range keeps {
			set := e.bigOidSet(size, keep)
			for _, ot := range u.otypes {
				for _, rl := range u.rels {
					for ui, ul := range allUsers {
						rswuCase(ot, rl, ul, set, condLists[(size+ui+len(keep))%2*2]) // nil or [""]
					}
				}
			}
		}
	}

	if e.kind != 1 {
		return
	}
	// prefix-related user types, untyped users (object types, ids, relations and condition names of
	// this universe are prefix-related already and are covered by the loops above)
	xufs := []ufilter{
		{1, usr{T: "user2"}}, {1, usr{T: "use"}}, {1, usr{T: "userset_admin"}}, {1, usr{T: "groupadmin"}}, {1, usr{T: "group"}},
		{2, us[12]}, {2, us[13]}, {2, us[14]}, {2, us[16]}, {2, us[17]}, {2, us[18]}, {2, us[19]},
		{2, usr{"user", "a2", ""}}, {2, usr{"", "users", ""}},
	}
	for _, o := range []ofilter{ofs[0], ofs[1], ofs[4]} {
		for _, rl := range []string{"", u.rels[0]} {
			for _, uf := range xufs {
				for _, cl := range []condList{condLists[0], condLists[2], condLists[3]} {
					readCase(o, rl, uf, cl)
				}
			}
		}
	}
	for _, ob := range objs[:2] {
		for _, rl := range u.rels {
			for _, x := range []usr{us[12], us[13], us[14], us[15], us[17], us[19]} {
				for _, cl := range []condList{condLists[0], condLists[4]} {
					userTupleCase(ob, rl, x, cl)
				}
			}
		}
	}
	xrlists := []restrList{
		{rs: []restr{rrel(g, "member"), rrel("groupadmin", "member")}}, {rs: []restr{rrel("groupadmin", "member")}},
		{rs: []restr{rwild("user2")}}, {rs: []restr{rwild("use")}}, {rs: []restr{rwild("user"), rwild("user2")}},
		{rs: []restr{rrel("userset_admin", "member")}}, {rs: []restr{rrel("userset", "member"), rrel("groupadmi", "member")}},
		{rs: []restr{rrel(g, "memb"), rrel(g, "members")}},
	}
	for _, o := range []ofilter{ofs[4], ofs[5], ofs[1]} {
		for _, rl := range []string{"", u.rels[0], u.rels[1]} {
			for _, rlst := range xrlists {
				for _, cl := range []condList{condLists[0], condLists[3]} {
					usersetsCase(o, rl, rlst, cl)
				}
			}
		}
	}
	xulists := [][]usr{
		{us[12]}, {us[0], us[12]}, {us[13]}, {us[2], us[13]}, {us[17]}, {us[18], us[3]}, {us[14], us[15]},
		{us[16], us[6]}, {us[19]}, {{"user", "a2", ""}, {"", "users", ""}},
	}
	for _, ot := range u.otypes {
		for _, rl := range u.rels {
			for _, ul := range xulists {
				for _, os := range []oidSet{oidSets[0], oidSets[3]} {
					for _, cl := range []condList{condLists[0], condLists[2]} {
						rswuCase(ot, rl, ul, os, cl)
					}
				}
			}
		}
	}
}

// ---- main -------------------------------------------------------------------------------------

func runOne(w *rec.Writer, b backends, hseed uint64, plain bool, kind int, want map[string]bool) {
	h, ok := runHistory(w, b, hseed, plain, kind)
	if !ok {
		return
	}
	w.Stat("histories", 1)
	if kind == 1 {
		w.Stat("histories_prefix_related_names", 1)
	}
	w.Stat("stored_tuples", len(h.store))
	for _, t := range h.store {
		if t.U.R != "" {
			w.Stat("stored_usersets", 1)
		} else if t.U.ID == "*" {
			w.Stat("stored_wildcards", 1)
		}
		if t.Cond != "" {
			w.Stat("stored_conditioned", 1)
		}
		if t.Ctx != 0 && t.Cond != "" {
			w.Stat("stored_with_context", 1)
		}
		if t.U.T == "" {
			w.Stat("stored_untyped_users", 1)
		}
	}
	sv := make([]rec.V, len(h.store))
	for i, t := range h.store {
		sv[i] = t.enc()
	}
	e := &emitter{w: w, b: b, h: h, hseed: hseed, plain: plain, kind: kind, want: want, storeV: rec.L(sv...), idx: map[string]int{}}
	e.enumerate()
}

func main() {
	o := rec.ParseFlags()
	w := rec.NewWriter(o.Out)
	defer w.Close()

	dir := filepath.Join("/tmp/c13", fmt.Sprintf("run-%d-%d", os.Getpid(), o.Seed))
	if err := os.MkdirAll(dir, 0o755); err != nil {
		panic(err)
	}
	defer func() {
		os.RemoveAll(dir)
		os.Remove("/tmp/c13") // only succeeds when no other run is using it
	}()
	sq, err := openSqlite(dir)
	if err != nil {
		os.RemoveAll(dir)
		panic(err)
	}
	defer sq.Close()
	b := backends{mem: memory.New(), sql: sq}

	if o.Replay != "" {
		type d struct {
			H     uint64 `json:"h"`
			Plain bool   `json:"plain"`
			U     int    `json:"u"`
			Op    string `json:"op"`
			I     int    `json:"i"`
		}
		f, err := os.Open(o.Replay)
		if err != nil {
			panic(err)
		}
		defer f.Close()
		type hk struct {
			h     uint64
			plain bool
			kind  int
		}
		wants := map[hk]map[string]bool{}
		var order []hk
		sc := bufio.NewScanner(f)
		sc.Buffer(make([]byte, 1<<20), 1<<26)
		for sc.Scan() {
			line := strings.TrimSpace(sc.Text())
			if line == "" || line == "null" {
				continue
			}
			var x d
			if json.Unmarshal([]byte(line), &x) != nil || x.H == 0 {
				continue
			}
			k := hk{x.H, x.Plain, x.U}
			if wants[k] == nil {
				wants[k] = map[string]bool{}
				order = append(order, k)
			}
			if x.Op != "" { // a description without op comes from a history-level failure: re-run the history only
				wants[k][fmt.Sprintf("%s/%d", x.Op, x.I)] = true
			}
		}
		for _, k := range order {
			runOne(w, b, k.h, k.plain, k.kind, wants[k])
		}
		return
	}

	r := rec.NewRand(o.Seed)
	for i := 0; i < o.N; i++ {
		hseed := r.Uint64()
		// i%3: 0 plain names, 1 prefix-related names (kind 1), 2 names drawn from the pools
		kind := 0
		if i%3 == 1 {
			kind = 1
		}
		runOne(w, b, hseed, i%3 == 0, kind, nil)
	}
}
