//go:build verif

// Driver for C10 ("higher-consistency requests are never stale").
//
// One case = one server configuration (check query cache, check iterator cache, ListObjects
// iterator cache, shared iterators, cache controller, weighted-graph Check: all 64 combinations
// are cycled through) + one model (three templates) + one HISTORY of 30-45 operations on ONE real
// server (memory backend, TTLs of one hour):
//
//	tuple writes and deletes through the Write API (chosen among the tuples the probes depend on, so
//	that the correct answer of a probe changes with almost every write),
//	MINIMIZE_LATENCY / UNSPECIFIED Check, BatchCheck, ListObjects, ListUsers requests (they populate
//	the caches and may be answered stale: allowed),
//	HIGHER_CONSISTENCY Check, BatchCheck, ListObjects, ListUsers requests,
//	a few malformed requests (unknown type / relation, bad user).
//
// Every request is also sent to a REFERENCE server on the same datastore: same engine flag, no cache
// at all.  When the answer of a HIGHER_CONSISTENCY request differs from the reference, the reference
// is evaluated a second time to recognise answers that are unstable on their own.
//
// Record: ( cfg bits ) ( ops ), op = (0) for a write, (1 api hi key ref obs unstable (clobber)) for a
// request; answers are interned codes (0 denied, 1 allowed, other codes: error classes / result
// sets).  The oracle (ocaml/c10_oracle.ml) replays the history on the Coq model
// (Cache/Consistency.v, `replay`): PROP when a HIGHER_CONSISTENCY answer is not the reference,
// DIFF when a cached answer is not one the model allows.
package main

import (
	"bufio"
	"context"
	"encoding/json"
	"errors"
	"fmt"
	"os"
	"sort"
	"strings"
	"sync/atomic"
	"time"

	openfgav1 "github.com/openfga/api/proto/openfga/v1"
	"google.golang.org/grpc/status"
	"google.golang.org/protobuf/types/known/structpb"

	"github.com/openfga/openfga/internal/verifharness/lib/rec"
	"github.com/openfga/openfga/internal/verifharness/lib/scen"
	"github.com/openfga/openfga/pkg/server"
	serverconfig "github.com/openfga/openfga/pkg/server/config"
	"github.com/openfga/openfga/pkg/storage"
	"github.com/openfga/openfga/pkg/storage/memory"
)

type noClose struct{ storage.OpenFGADatastore }

func (noClose) Close() {}

// faultDS makes the tuple reads fail while armed: failFrom = n > 0 lets the first n-1 reads through
// and fails every later one until it is disarmed (a transient datastore outage during one request).
type faultDS struct {
	storage.OpenFGADatastore
	failFrom atomic.Int64
	reads    atomic.Int64
	failed   atomic.Int64
}

var errInjected = errors.New("c10: injected datastore failure")

func (f *faultDS) arm(n int) { f.reads.Store(0); f.failed.Store(0); f.failFrom.Store(int64(n)) }
func (f *faultDS) disarm() int {
	f.failFrom.Store(0)
	return int(f.failed.Load())
}
func (f *faultDS) fail() bool {
	n := f.failFrom.Load()
	if n == 0 {
		return false
	}
	if f.reads.Add(1) >= n {
		f.failed.Add(1)
		return true
	}
	return false
}

func (f *faultDS) Read(ctx context.Context, store string, filter storage.ReadFilter, o storage.ReadOptions) (storage.TupleIterator, error) {
	if f.fail() {
		return nil, errInjected
	}
	return f.OpenFGADatastore.Read(ctx, store, filter, o)
}

func (f *faultDS) ReadUserTuple(ctx context.Context, store string, filter storage.ReadUserTupleFilter, o storage.ReadUserTupleOptions) (*openfgav1.Tuple, error) {
	if f.fail() {
		return nil, errInjected
	}
	return f.OpenFGADatastore.ReadUserTuple(ctx, store, filter, o)
}

func (f *faultDS) ReadUsersetTuples(ctx context.Context, store string, filter storage.ReadUsersetTuplesFilter, o storage.ReadUsersetTuplesOptions) (storage.TupleIterator, error) {
	if f.fail() {
		return nil, errInjected
	}
	return f.OpenFGADatastore.ReadUsersetTuples(ctx, store, filter, o)
}

func (f *faultDS) ReadStartingWithUser(ctx context.Context, store string, filter storage.ReadStartingWithUserFilter, o storage.ReadStartingWithUserOptions) (storage.TupleIterator, error) {
	if f.fail() {
		return nil, errInjected
	}
	return f.OpenFGADatastore.ReadStartingWithUser(ctx, store, filter, o)
}

// ---- configuration ------------------------------------------------------------------------------

type Cfg struct {
	Query  bool `json:"query"`
	Iter   bool `json:"iter"`
	LoIter bool `json:"lo_iter"`
	Shared bool `json:"shared"`
	Ctrl   bool `json:"ctrl"`
	V2     bool `json:"v2"`
	// secondary knobs
	CtrlTTLms int  `json:"ctrl_ttl_ms"` // cache controller TTL (how often the changelog is re-read)
	Pipeline  bool `json:"pipeline"`    // ListObjects pipeline
}

func cfgOf(i int) Cfg {
	return Cfg{Query: i&1 != 0, Iter: i&2 != 0, LoIter: i&4 != 0, Shared: i&8 != 0, Ctrl: i&16 != 0, V2: i&32 != 0}
}

func (c Cfg) bits() rec.V {
	return rec.L(rec.Bool(c.Query), rec.Bool(c.Iter), rec.Bool(c.LoIter), rec.Bool(c.Shared), rec.Bool(c.Ctrl), rec.Bool(c.V2))
}

const longTTL = time.Hour

func newServer(ds storage.OpenFGADatastore, c Cfg, caches bool) *server.Server {
	opts := []server.OpenFGAServiceV1Option{
		server.WithDatastore(noClose{ds}),
		server.WithRequestTimeout(60 * time.Second),
		server.WithListObjectsDeadline(60 * time.Second),
		server.WithListUsersDeadline(60 * time.Second),
		server.WithListObjectsPipelineEnabled(c.Pipeline),
	}
	if c.V2 {
		opts = append(opts, server.WithExperimentals(serverconfig.ExperimentalWeightedGraphCheck))
	}
	if caches {
		opts = append(opts,
			server.WithCheckCacheLimit(10000),
			server.WithCheckQueryCacheEnabled(c.Query),
			server.WithCheckQueryCacheTTL(longTTL),
			server.WithCheckIteratorCacheEnabled(c.Iter),
			server.WithCheckIteratorCacheMaxResults(1000),
			server.WithCheckIteratorCacheTTL(longTTL),
			server.WithListObjectsIteratorCacheEnabled(c.LoIter),
			server.WithListObjectsIteratorCacheMaxResults(1000),
			server.WithListObjectsIteratorCacheTTL(longTTL),
			server.WithSharedIteratorEnabled(c.Shared),
			server.WithSharedIteratorLimit(1000),
			server.WithCacheControllerEnabled(c.Ctrl),
			server.WithCacheControllerTTL(time.Duration(c.CtrlTTLms)*time.Millisecond),
		)
	}
	return server.MustNewServerWithOpts(opts...)
}

// ---- models -------------------------------------------------------------------------------------

func template(i int) *scen.Scenario {
	U, G := scen.RObj("user"), scen.RSet("group", "member")
	switch i {
	case 0: // documents in folders, nested groups, exclusion, intersection, wildcard, condition
		return &scen.Scenario{Shape: "docs", Conds: []string{"c1"}, Types: []scen.TypeDef{
			{Name: "user"},
			{Name: "group", Rels: []scen.RelDef{{Name: "member", RW: scen.This(), Restr: []scen.Restr{U, G}}}},
			{Name: "folder", Rels: []scen.RelDef{
				{Name: "parent", RW: scen.This(), Restr: []scen.Restr{scen.RObj("folder")}},
				{Name: "owner", RW: scen.This(), Restr: []scen.Restr{U}},
				{Name: "viewer", RW: scen.Union(scen.This(), scen.Comp("owner"), scen.TTU("parent", "viewer")),
					Restr: []scen.Restr{U, scen.RWild("user"), G}},
			}},
			{Name: "doc", Rels: []scen.RelDef{
				{Name: "parent", RW: scen.This(), Restr: []scen.Restr{scen.RObj("folder")}},
				{Name: "owner", RW: scen.This(), Restr: []scen.Restr{U}},
				{Name: "editor", RW: scen.Union(scen.This(), scen.Comp("owner")), Restr: []scen.Restr{U, G}},
				{Name: "blocked", RW: scen.This(), Restr: []scen.Restr{U, G}},
				{Name: "vip", RW: scen.This(), Restr: []scen.Restr{U.With("c1")}},
				{Name: "viewer", RW: scen.Union(scen.This(), scen.Comp("editor"), scen.TTU("parent", "viewer")), Restr: []scen.Restr{U, G}},
				{Name: "can_view", RW: scen.Diff(scen.Comp("viewer"), scen.Comp("blocked"))},
				{Name: "can_edit", RW: scen.Inter(scen.Comp("editor"), scen.Comp("viewer"))},
			}},
		}}
	case 1: // flat: teams and repositories
		T := scen.RSet("team", "member")
		return &scen.Scenario{Shape: "repos", Types: []scen.TypeDef{
			{Name: "user"},
			{Name: "team", Rels: []scen.RelDef{{Name: "member", RW: scen.This(), Restr: []scen.Restr{U}}}},
			{Name: "repo", Rels: []scen.RelDef{
				{Name: "admin", RW: scen.This(), Restr: []scen.Restr{U, T}},
				{Name: "writer", RW: scen.Union(scen.This(), scen.Comp("admin")), Restr: []scen.Restr{U, T}},
				{Name: "reader", RW: scen.Union(scen.This(), scen.Comp("writer")), Restr: []scen.Restr{U, scen.RWild("user")}},
				{Name: "banned", RW: scen.This(), Restr: []scen.Restr{U}},
				{Name: "can_read", RW: scen.Diff(scen.Comp("reader"), scen.Comp("banned"))},
				{Name: "can_push", RW: scen.Inter(scen.Comp("writer"), scen.Diff(scen.Comp("reader"), scen.Comp("banned")))},
			}},
		}}
	case 3: // RECURSIVE tuple-to-userset: folder tree (viewer from parent, parent: [folder]), files in folders
		return &scen.Scenario{Shape: "tree", Types: []scen.TypeDef{
			{Name: "user"},
			{Name: "folder", Rels: []scen.RelDef{
				{Name: "parent", RW: scen.This(), Restr: []scen.Restr{scen.RObj("folder")}},
				{Name: "banned", RW: scen.This(), Restr: []scen.Restr{U}},
				{Name: "viewer", RW: scen.Union(scen.This(), scen.TTU("parent", "viewer")), Restr: []scen.Restr{U}},
				{Name: "can_view", RW: scen.Diff(scen.Comp("viewer"), scen.Comp("banned"))},
			}},
			{Name: "file", Rels: []scen.RelDef{
				{Name: "parent", RW: scen.This(), Restr: []scen.Restr{scen.RObj("folder")}},
				{Name: "owner", RW: scen.This(), Restr: []scen.Restr{U}},
				{Name: "viewer", RW: scen.Union(scen.Comp("owner"), scen.TTU("parent", "viewer"))},
			}},
		}}
	case 4: // RECURSIVE userset: nested groups (member: [user, group#member]), areas granted to groups
		return &scen.Scenario{Shape: "nest", Types: []scen.TypeDef{
			{Name: "user"},
			{Name: "group", Rels: []scen.RelDef{
				{Name: "member", RW: scen.This(), Restr: []scen.Restr{U, G}},
			}},
			{Name: "area", Rels: []scen.RelDef{
				{Name: "lead", RW: scen.This(), Restr: []scen.Restr{U}},
				{Name: "excluded", RW: scen.This(), Restr: []scen.Restr{U}},
				{Name: "member", RW: scen.Union(scen.This(), scen.Comp("lead")), Restr: []scen.Restr{U, G}},
				{Name: "active", RW: scen.Diff(scen.Comp("member"), scen.Comp("excluded"))},
			}},
		}}
	default: // chain of tuple-to-userset hops: org -> project -> item
		return &scen.Scenario{Shape: "orgs", Conds: []string{"c1"}, Types: []scen.TypeDef{
			{Name: "user"},
			{Name: "org", Rels: []scen.RelDef{
				{Name: "member", RW: scen.This(), Restr: []scen.Restr{U}},
				{Name: "admin", RW: scen.This(), Restr: []scen.Restr{U}},
			}},
			{Name: "project", Rels: []scen.RelDef{
				{Name: "org", RW: scen.This(), Restr: []scen.Restr{scen.RObj("org")}},
				{Name: "lead", RW: scen.This(), Restr: []scen.Restr{U}},
				{Name: "member", RW: scen.Union(scen.This(), scen.Comp("lead"), scen.TTU("org", "member")), Restr: []scen.Restr{U}},
				{Name: "manager", RW: scen.Union(scen.Comp("lead"), scen.TTU("org", "admin"))},
			}},
			{Name: "item", Rels: []scen.RelDef{
				{Name: "project", RW: scen.This(), Restr: []scen.Restr{scen.RObj("project")}},
				{Name: "assignee", RW: scen.This(), Restr: []scen.Restr{U, U.With("c1")}},
				{Name: "locked", RW: scen.This(), Restr: []scen.Restr{U}},
				{Name: "viewer", RW: scen.Union(scen.Comp("assignee"), scen.TTU("project", "member"))},
				{Name: "can_touch", RW: scen.Diff(scen.Comp("viewer"), scen.Comp("locked"))},
				{Name: "can_close", RW: scen.Inter(scen.Comp("viewer"), scen.TTU("project", "manager"))},
			}},
		}}
	}
}

// object ids 0..nIDs-1 per type (3, or 5 for the recursive templates: chains up to 4 deep); users u0..u2
var nIDs = 3

func idCount(t string) int {
	if t == "user" {
		return 3
	}
	return nIDs
}

func oid(t string, i int) string { return fmt.Sprintf("%s:%s%d", t, t[:1], i) }

// randomTuple draws a tuple that is valid for the model.  References to the object's own type only
// point to larger ids, so that tuples never form a cycle (cycles make the engines' answers depend
// on goroutine order, which is not this property's subject: C01 / C03 findings).
func randomTuple(r *rec.Rand, s *scen.Scenario) (scen.Tuple, bool) {
	for tries := 0; tries < 20; tries++ {
		td := s.Types[r.Intn(len(s.Types))]
		if len(td.Rels) == 0 {
			continue
		}
		rd := td.Rels[r.Intn(len(td.Rels))]
		if len(rd.Restr) == 0 {
			continue
		}
		rs := rd.Restr[r.Intn(len(rd.Restr))]
		oi := r.Intn(nIDs)
		ui := r.Intn(idCount(rs.Type))
		if rs.Type == td.Name {
			if oi == nIDs-1 {
				continue
			}
			ui = oi + 1 + r.Intn(nIDs-1-oi)
		}
		t := scen.Tuple{Obj: oid(td.Name, oi), Rel: rd.Name}
		switch rs.Kind {
		case scen.KObj:
			t.User = oid(rs.Type, ui)
		case scen.KWild:
			t.User = rs.Type + ":*"
		default:
			t.User = oid(rs.Type, ui) + "#" + rs.Rel
		}
		if rs.Cond != "" {
			t.Cond = rs.Cond
			x := 1
			if r.Chance(1, 3) {
				x = -1
			}
			t.Ctx = map[string]any{"x": x}
		}
		return t, true
	}
	return scen.Tuple{}, false
}

// directedTuple: a direct grant of some relation of a probe's object (or of an object one hop above
// it) to the probe's user: such writes and deletes flip the correct answer of the probe.
func directedTuple(r *rec.Rand, s *scen.Scenario, probes []Probe) (scen.Tuple, bool) {
	for tries := 0; tries < 20; tries++ {
		pr := probes[r.Intn(len(probes))]
		if pr.Bad || !strings.HasPrefix(pr.User, "user:u") {
			continue
		}
		typ := pr.Type
		obj := pr.Obj
		if pr.API == 2 {
			obj = oid(typ, r.Intn(nIDs))
		} else {
			typ, _ = scen.SplitObj(pr.Obj)
		}
		user := pr.User
		if pr.API == 3 {
			user = oid("user", r.Intn(3))
		}
		td := s.Type(typ)
		if td == nil {
			continue
		}
		if r.Chance(1, 3) {
			// one hop above: an object this object points to through a present-or-future parent tuple
			td2 := s.Types[r.Intn(len(s.Types))]
			if len(td2.Rels) == 0 {
				continue
			}
			td = &td2
			obj = oid(td.Name, r.Intn(nIDs))
		}
		rd := td.Rels[r.Intn(len(td.Rels))]
		if r.Chance(2, 5) {
			// a link from the object: a userset grant (object#rel@group:g#member) or a tupleset tuple
			// (object#parent@folder:f).  These are read through ReadUsersetTuples / Read, i.e. through
			// the iterator caches (a direct grant is read with ReadUserTuple, which is never cached).
			var links []scen.Restr
			for _, rs := range rd.Restr {
				if rs.Kind == scen.KSet || (rs.Kind == scen.KObj && rs.Type != "user") {
					links = append(links, rs)
				}
			}
			if len(links) == 0 {
				continue
			}
			rs := links[r.Intn(len(links))]
			_, id := scen.SplitObj(obj)
			oi := int(id[len(id)-1] - '0')
			ui := r.Intn(nIDs)
			if rs.Type == td.Name {
				if oi >= nIDs-1 {
					continue
				}
				ui = oi + 1 + r.Intn(nIDs-1-oi)
			}
			t := scen.Tuple{Obj: obj, Rel: rd.Name, User: oid(rs.Type, ui)}
			if rs.Kind == scen.KSet {
				t.User += "#" + rs.Rel
			}
			return t, true
		}
		for _, rs := range rd.Restr {
			if rs.Type == "user" && rs.Kind == scen.KObj {
				t := scen.Tuple{Obj: obj, Rel: rd.Name, User: user}
				if rs.Cond != "" {
					t.Cond = rs.Cond
					t.Ctx = map[string]any{"x": 1}
				}
				return t, true
			}
		}
	}
	return scen.Tuple{}, false
}

// ---- probes -------------------------------------------------------------------------------------

type Probe struct {
	API   int          `json:"api"` // 0 check (also used as BatchCheck item), 2 ListObjects, 3 ListUsers
	Obj   string       `json:"obj,omitempty"`
	Type  string       `json:"type,omitempty"`
	Rel   string       `json:"rel"`
	User  string       `json:"user,omitempty"`
	FType string       `json:"ftype,omitempty"` // ListUsers filter
	FRel  string       `json:"frel,omitempty"`
	Ctx   []scen.Tuple `json:"ctx,omitempty"` // contextual tuples
	Key   int          `json:"key"`
	Bad   bool         `json:"bad,omitempty"`
}

// partition: the part of the check cache key that is constant below one request (user, contextual
// tuples; the model and the request context are the same for every probe)
func (p Probe) partition() string {
	ks := make([]string, len(p.Ctx))
	for i, t := range p.Ctx {
		ks[i] = t.Key() + "|" + t.Cond
	}
	sort.Strings(ks)
	return p.User + "||" + strings.Join(ks, ",")
}

func relsWithRewrite(s *scen.Scenario) [][2]string {
	var out [][2]string
	for _, td := range s.Types {
		for _, rd := range td.Rels {
			out = append(out, [2]string{td.Name, rd.Name})
		}
	}
	return out
}

func genProbes(r *rec.Rand, s *scen.Scenario) []Probe {
	rels := relsWithRewrite(s)
	var ps []Probe
	users := []string{"user:u0", "user:u1", "user:u2"}
	seen := map[string]bool{}
	nCheck := r.Range(4, 7)
	for len(ps) < nCheck {
		tr := rels[r.Intn(len(rels))]
		// prefer the derived relations (the later ones of a type)
		if r.Chance(1, 2) {
			tr = rels[len(rels)-1-r.Intn(4)]
		}
		p := Probe{API: 0, Obj: oid(tr[0], r.Intn(nIDs)), Rel: tr[1], User: users[r.Intn(len(users))]}
		switch {
		case r.Chance(1, 12):
			p.User = "user:*"
		case r.Chance(1, 12) && s.Type("group") != nil:
			p.User = oid("group", r.Intn(nIDs)) + "#member"
		}
		if r.Chance(1, 6) {
			if t, ok := randomTuple(r, s); ok {
				p.Ctx = []scen.Tuple{t}
			}
		}
		k := p.Obj + "#" + p.Rel + "@" + p.partition()
		if seen[k] {
			continue
		}
		seen[k] = true
		p.Key = len(ps) + 1
		ps = append(ps, p)
	}
	for i := 0; i < 3; i++ {
		tr := rels[len(rels)-1-r.Intn(5)]
		p := Probe{API: 2, Type: tr[0], Rel: tr[1], User: users[r.Intn(len(users))], Key: 1000 + i}
		if i < 2 {
			// aligned with a Check probe: same type, relation, user (the candidate checks of ListObjects
			// then share cache keys with that probe, and the flips of the probe flip the list)
			c := ps[r.Intn(nCheck)]
			if strings.HasPrefix(c.User, "user:u") && len(c.Ctx) == 0 {
				t, _ := scen.SplitObj(c.Obj)
				p.Type, p.Rel, p.User = t, c.Rel, c.User
			}
		}
		if r.Chance(1, 6) {
			if t, ok := randomTuple(r, s); ok {
				p.Ctx = []scen.Tuple{t}
			}
		}
		ps = append(ps, p)
	}
	for i := 0; i < 2; i++ {
		tr := rels[len(rels)-1-r.Intn(5)]
		p := Probe{API: 3, Obj: oid(tr[0], r.Intn(nIDs)), Rel: tr[1], FType: "user", Key: 2000 + i}
		ps = append(ps, p)
	}
	// malformed requests: the same error with and without a cache, whatever the preference
	switch r.Intn(3) {
	case 0:
		ps = append(ps, Probe{API: 0, Obj: "nosuch:1", Rel: "viewer", User: "user:u0", Key: 3000, Bad: true})
	case 1:
		ps = append(ps, Probe{API: 0, Obj: oid(rels[0][0], 0), Rel: "no_such_relation", User: "user:u0", Key: 3000, Bad: true})
	default:
		ps = append(ps, Probe{API: 0, Obj: oid(rels[0][0], 0), Rel: rels[0][1], User: "user", Key: 3000, Bad: true})
	}
	ps = append(ps, Probe{API: 2, Type: "nosuch", Rel: "viewer", User: "user:u1", Key: 3001, Bad: true})
	return ps
}

// ---- flip recipes ---------------------------------------------------------------------------------

// A recipe gives access to `user` on an object of type T through ONE link tuple of the object (a
// tupleset tuple or a userset grant: read with Read / ReadUsersetTuples, the reads the iterator
// caches and the shared iterators serve) plus a grant at the far end.  Writing / deleting the link
// flips the correct answer of the probes on that object while the cached iterators still hold the
// old tuples.
type recipe struct {
	T, LinkRel, LT, LRel, GrantRel string // link = T:x#LinkRel@LT:y[#LRel]; grant = LT:y#GrantRel@user
}

func recipes(tmpl int) []recipe {
	switch tmpl {
	case 0:
		return []recipe{
			{"doc", "parent", "folder", "", "viewer"}, {"doc", "parent", "folder", "", "owner"},
			{"doc", "viewer", "group", "member", "member"}, {"doc", "editor", "group", "member", "member"},
			{"doc", "blocked", "group", "member", "member"},
			{"folder", "parent", "folder", "", "viewer"}, {"folder", "viewer", "group", "member", "member"},
			{"group", "member", "group", "member", "member"},
		}
	case 1:
		return []recipe{{"repo", "admin", "team", "member", "member"}, {"repo", "writer", "team", "member", "member"}}
	case 3:
		return []recipe{{"folder", "parent", "folder", "", "viewer"}, {"file", "parent", "folder", "", "viewer"}}
	case 4:
		return []recipe{{"group", "member", "group", "member", "member"}, {"area", "member", "group", "member", "member"}}
	}
	return []recipe{
		{"project", "org", "org", "", "member"}, {"project", "org", "org", "", "admin"},
		{"item", "project", "project", "", "lead"}, {"item", "project", "project", "", "member"},
	}
}

// ---- plan ---------------------------------------------------------------------------------------

type Op struct {
	Kind   string       `json:"k"` // w | check | batch | lo | lu
	Writes []scen.Tuple `json:"w,omitempty"`
	Dels   []scen.Tuple `json:"d,omitempty"`
	Probes []int        `json:"p,omitempty"` // indices into Plan.Probes
	Cons   int          `json:"c,omitempty"` // 0 unspecified, 1 minimize latency, 2 higher consistency
	Fault  int          `json:"f,omitempty"` // n > 0: from its n-th tuple read on, the datastore of the server under test fails during this request
}

type Plan struct {
	Sub    uint64 `json:"sub"`
	CfgIdx int    `json:"cfg_idx"`
	Tier   string `json:"tier"`
	Cfg    Cfg    `json:"cfg"`
	Tmpl   int    `json:"tmpl"`
	NT     bool   `json:"nt"`

	scen   *scen.Scenario
	init   []scen.Tuple
	probes []Probe
	ops    []Op
}

func makePlan(sub uint64, cfgIdx int, tier string) *Plan {
	r := rec.NewRand(sub)
	p := &Plan{Sub: sub, CfgIdx: cfgIdx, Tier: tier, NT: true}
	p.Cfg = cfgOf(cfgIdx)
	p.Cfg.CtrlTTLms = []int{1, 20, 3600000}[r.Intn(3)]
	p.Cfg.Pipeline = r.Chance(1, 3)
	p.Tmpl = r.Intn(5)
	nIDs = 3
	if p.Tmpl >= 3 {
		nIDs = 5
	}
	p.scen = template(p.Tmpl)
	p.probes = genProbes(r, p.scen)

	present := map[string]scen.Tuple{}
	var order []string
	add := func(t scen.Tuple) {
		if _, ok := present[t.Key()]; !ok {
			present[t.Key()] = t
			order = append(order, t.Key())
		}
	}
	draw := func() (scen.Tuple, bool) {
		if r.Chance(1, 2) {
			return directedTuple(r, p.scen, p.probes)
		}
		return randomTuple(r, p.scen)
	}
	for i, n := 0, r.Range(10, 18); i < n; i++ {
		if t, ok := draw(); ok {
			add(t)
		}
	}
	for _, k := range order {
		p.init = append(p.init, present[k])
	}

	var checks, los, lus []int
	for i, pr := range p.probes {
		switch pr.API {
		case 0:
			checks = append(checks, i)
		case 2:
			los = append(los, i)
		default:
			lus = append(lus, i)
		}
	}
	nOps := r.Range(30, 45)
	if tier == "thorough" {
		nOps = r.Range(40, 70)
	}
	// the items of one batch are evaluated concurrently: keep at most one item per cache partition
	// (same user, same contextual tuples), otherwise which of two items sees the other's sub-problem
	// entries depends on goroutine order
	solo := func(items []int, n int) []int {
		var out []int
		seen := map[string]bool{}
		for _, i := range items {
			pt := p.probes[i].partition()
			if p.probes[i].Bad {
				pt = fmt.Sprintf("bad%d", i)
			}
			if seen[pt] || len(out) >= n {
				continue
			}
			seen[pt] = true
			out = append(out, i)
		}
		return out
	}
	last := -1 // the probe of the previous single-probe request
	rcps := recipes(p.Tmpl)
	loCons := func() int { return r.Intn(2) }
	// block: make the probe's answer depend on one link tuple, ask (cached), flip the link, ask again
	// cached (stale is allowed), HIGHER_CONSISTENCY (must be fresh), cached again
	block := func() {
		var cand []int
		for _, i := range checks {
			pr := p.probes[i]
			if pr.Bad || !strings.HasPrefix(pr.User, "user:u") {
				continue
			}
			t, _ := scen.SplitObj(pr.Obj)
			for _, rc := range rcps {
				if rc.T == t {
					cand = append(cand, i)
					break
				}
			}
		}
		if len(cand) == 0 {
			return
		}
		pi := cand[r.Intn(len(cand))]
		pr := p.probes[pi]
		t, id := scen.SplitObj(pr.Obj)
		var rs []recipe
		for _, rc := range rcps {
			if rc.T == t {
				rs = append(rs, rc)
			}
		}
		rc := rs[r.Intn(len(rs))]
		oi := int(id[len(id)-1] - '0')
		y := r.Intn(nIDs)
		if rc.LT == rc.T {
			if oi >= nIDs-1 {
				return
			}
			y = oi + 1 + r.Intn(nIDs-1-oi)
		}
		link := scen.Tuple{Obj: pr.Obj, Rel: rc.LinkRel, User: oid(rc.LT, y)}
		if rc.LRel != "" {
			link.User += "#" + rc.LRel
		}
		grant := scen.Tuple{Obj: oid(rc.LT, y), Rel: rc.GrantRel, User: pr.User}
		// recursive relation: put the grant 1-3 hops further up a chain of the same links
		var chain []scen.Tuple
		for _, rr := range rcps {
			if rr.T == rc.LT && rr.LT == rc.LT && y < nIDs-1 && r.Chance(2, 3) {
				for hops, cur := r.Range(1, 3), y; hops > 0 && cur < nIDs-1; hops-- {
					nx := cur + 1 + r.Intn(nIDs-1-cur)
					l := scen.Tuple{Obj: oid(rc.LT, cur), Rel: rr.LinkRel, User: oid(rc.LT, nx)}
					if rr.LRel != "" {
						l.User += "#" + rr.LRel
					}
					chain = append(chain, l)
					cur = nx
					grant = scen.Tuple{Obj: oid(rc.LT, cur), Rel: rr.GrantRel, User: pr.User}
				}
				break
			}
		}
		// other requests of the same kind to interleave: a batch containing the probe, a ListObjects
		ask := func(cons int) {
			switch r.Intn(4) {
			case 0:
				items := []int{pi}
				for _, j := range checks {
					if j != pi && r.Chance(1, 2) {
						items = append(items, j)
					}
				}
				p.ops = append(p.ops, Op{Kind: "batch", Probes: solo(items, 3), Cons: cons})
			default:
				p.ops = append(p.ops, Op{Kind: "check", Probes: []int{pi}, Cons: cons})
			}
		}
		setup := Op{Kind: "w"}
		_, hasLink := present[link.Key()]
		startWith := r.Chance(2, 3) // start with the link present (then delete it) or absent (then add it)
		if _, ok := present[grant.Key()]; !ok {
			add(grant)
			setup.Writes = append(setup.Writes, grant)
		}
		for _, l := range chain {
			if _, ok := present[l.Key()]; !ok && l.Key() != link.Key() {
				add(l)
				setup.Writes = append(setup.Writes, l)
			}
		}
		rm := func(t scen.Tuple) {
			delete(present, t.Key())
			for j, k := range order {
				if k == t.Key() {
					order = append(order[:j], order[j+1:]...)
					break
				}
			}
		}
		if startWith && !hasLink {
			add(link)
			setup.Writes = append(setup.Writes, link)
		} else if !startWith && hasLink {
			rm(link)
			setup.Dels = append(setup.Dels, link)
		}
		if len(setup.Writes)+len(setup.Dels) > 0 {
			p.ops = append(p.ops, setup)
		}
		ask(loCons())
		if r.Chance(1, 2) {
			ask(loCons())
		}
		// a ListObjects probe on the same type and user, if there is one
		lop := -1
		for _, j := range los {
			if p.probes[j].Type == t && p.probes[j].User == pr.User {
				lop = j
			}
		}
		if lop < 0 && len(los) > 0 {
			lop = los[r.Intn(len(los))]
		}
		if lop >= 0 && r.Chance(1, 2) {
			p.ops = append(p.ops, Op{Kind: "lo", Probes: []int{lop}, Cons: loCons()})
		}
		flip := Op{Kind: "w"}
		if startWith {
			rm(link)
			flip.Dels = []scen.Tuple{link}
		} else {
			add(link)
			flip.Writes = []scen.Tuple{link}
		}
		p.ops = append(p.ops, flip)
		if r.Chance(2, 3) {
			ask(loCons())
		}
		ask(2)
		ask(loCons())
		if lop >= 0 && r.Chance(1, 2) {
			if r.Chance(1, 2) {
				p.ops = append(p.ops, Op{Kind: "lo", Probes: []int{lop}, Cons: loCons()})
			}
			p.ops = append(p.ops, Op{Kind: "lo", Probes: []int{lop}, Cons: 2})
		}
		last = pi
	}
	for len(p.ops) < nOps {
		x := r.Intn(100)
		switch {
		case x < 10:
			block()
		case x < 34: // write / delete
			op := Op{Kind: "w"}
			if len(order) > 0 && r.Chance(2, 5) {
				for i, n := 0, r.Range(1, 2); i < n && len(order) > 0; i++ {
					j := r.Intn(len(order))
					k := order[j]
					op.Dels = append(op.Dels, present[k])
					delete(present, k)
					order = append(order[:j], order[j+1:]...)
				}
			}
			for i, n := 0, r.Range(0, 3); i < n || (len(op.Dels) == 0 && len(op.Writes) == 0); i++ {
				t, ok := draw()
				if !ok {
					break
				}
				if _, dup := present[t.Key()]; dup {
					if i > 8 {
						break
					}
					continue
				}
				deleted := false
				for _, d := range op.Dels {
					if d.Key() == t.Key() {
						deleted = true
					}
				}
				if deleted {
					continue
				}
				add(t)
				op.Writes = append(op.Writes, t)
			}
			if len(op.Writes)+len(op.Dels) > 0 {
				p.ops = append(p.ops, op)
			}
		default:
			cons := 2
			if r.Chance(9, 20) {
				cons = r.Intn(2)
			}
			y := r.Intn(100)
			switch {
			case y < 45:
				i := checks[r.Intn(len(checks))]
				if last >= 0 && p.probes[last].API == 0 && r.Chance(2, 5) {
					i = last // the same probe again: top-level hit, or HIGHER after cached
				}
				last = i
				p.ops = append(p.ops, Op{Kind: "check", Probes: []int{i}, Cons: cons})
			case y < 62:
				n := r.Range(2, 4)
				perm := append([]int{}, checks...)
				rec.Shuffle(r, perm)
				p.ops = append(p.ops, Op{Kind: "batch", Probes: solo(perm, n), Cons: cons})
			case y < 84:
				i := los[r.Intn(len(los))]
				last = i
				p.ops = append(p.ops, Op{Kind: "lo", Probes: []int{i}, Cons: cons})
			default:
				i := lus[r.Intn(len(lus))]
				p.ops = append(p.ops, Op{Kind: "lu", Probes: []int{i}, Cons: cons})
			}
		}
	}
	// transient datastore faults: before a quarter of the HIGHER_CONSISTENCY Check / BatchCheck requests
	// the same request is issued once while the tuple reads of the server under test fail (from the
	// 1st, 2nd or 3rd read on).  It may fail; it must not answer with an old cached decision.
	var withFaults []Op
	for _, op := range p.ops {
		if (op.Kind == "check" || op.Kind == "batch") && op.Cons == 2 && r.Chance(1, 4) {
			f := op
			f.Fault = r.Range(1, 3)
			withFaults = append(withFaults, f)
		}
		withFaults = append(withFaults, op)
	}
	p.ops = withFaults
	return p
}

// ---- execution ----------------------------------------------------------------------------------

func consOf(c int) openfgav1.ConsistencyPreference {
	switch c {
	case 1:
		return openfgav1.ConsistencyPreference_MINIMIZE_LATENCY
	case 2:
		return openfgav1.ConsistencyPreference_HIGHER_CONSISTENCY
	}
	return openfgav1.ConsistencyPreference_UNSPECIFIED
}

func ctProto(ts []scen.Tuple) *openfgav1.ContextualTupleKeys {
	if len(ts) == 0 {
		return nil
	}
	out := &openfgav1.ContextualTupleKeys{}
	for _, t := range ts {
		out.TupleKeys = append(out.TupleKeys, t.Proto())
	}
	return out
}

func errAnswer(err error) string {
	if os.Getenv("C10_DEBUG") != "" {
		fmt.Fprintf(os.Stderr, "  error: %v\n", err)
	}
	return fmt.Sprintf("err:%d", int(status.Code(err)))
}

type runner struct {
	srv     *server.Server
	store   string
	modelID string
}

func (x *runner) check(ctx context.Context, p Probe, cons int) string {
	r, err := x.srv.Check(ctx, &openfgav1.CheckRequest{StoreId: x.store, AuthorizationModelId: x.modelID,
		TupleKey:         &openfgav1.CheckRequestTupleKey{Object: p.Obj, Relation: p.Rel, User: p.User},
		ContextualTuples: ctProto(p.Ctx), Consistency: consOf(cons)})
	if err != nil {
		return errAnswer(err)
	}
	if r.GetAllowed() {
		return "allow"
	}
	return "deny"
}

func (x *runner) batch(ctx context.Context, ps []Probe, cons int) []string {
	var items []*openfgav1.BatchCheckItem
	for i, p := range ps {
		items = append(items, &openfgav1.BatchCheckItem{
			TupleKey:         &openfgav1.CheckRequestTupleKey{Object: p.Obj, Relation: p.Rel, User: p.User},
			ContextualTuples: ctProto(p.Ctx), CorrelationId: fmt.Sprintf("i%d", i)})
	}
	r, err := x.srv.BatchCheck(ctx, &openfgav1.BatchCheckRequest{StoreId: x.store, AuthorizationModelId: x.modelID,
		Checks: items, Consistency: consOf(cons)})
	out := make([]string, len(ps))
	for i := range ps {
		if err != nil {
			out[i] = errAnswer(err)
			continue
		}
		it := r.GetResult()[fmt.Sprintf("i%d", i)]
		switch {
		case it == nil:
			out[i] = "err:missing"
		case it.GetError() != nil:
			if os.Getenv("C10_DEBUG") != "" {
				fmt.Fprintf(os.Stderr, "  item error: %v\n", it.GetError())
			}
			msg := it.GetError().GetMessage()
			if strings.Contains(msg, "context canceled") || strings.Contains(msg, "Request Cancelled") {
				out[i] = "err:2058" // a cancellation surfaces as internal_error in a batch item
			} else {
				out[i] = fmt.Sprintf("err:item:%d:%d", it.GetError().GetInputError(), it.GetError().GetInternalError())
			}
		case it.GetAllowed():
			out[i] = "allow"
		default:
			out[i] = "deny"
		}
	}
	return out
}

func (x *runner) listObjects(ctx context.Context, p Probe, cons int) string {
	r, err := x.srv.ListObjects(ctx, &openfgav1.ListObjectsRequest{StoreId: x.store, AuthorizationModelId: x.modelID,
		Type: p.Type, Relation: p.Rel, User: p.User, ContextualTuples: ctProto(p.Ctx), Consistency: consOf(cons)})
	if err != nil {
		return errAnswer(err)
	}
	os := append([]string{}, r.GetObjects()...)
	sort.Strings(os)
	return "set:" + strings.Join(os, ",")
}

func (x *runner) listUsers(ctx context.Context, p Probe, cons int) string {
	ot, oi := scen.SplitObj(p.Obj)
	r, err := x.srv.ListUsers(ctx, &openfgav1.ListUsersRequest{StoreId: x.store, AuthorizationModelId: x.modelID,
		Object: &openfgav1.Object{Type: ot, Id: oi}, Relation: p.Rel,
		UserFilters: []*openfgav1.UserTypeFilter{{Type: p.FType, Relation: p.FRel}}, Consistency: consOf(cons)})
	if err != nil {
		return errAnswer(err)
	}
	var us []string
	for _, u := range r.GetUsers() {
		switch v := u.GetUser().(type) {
		case *openfgav1.User_Object:
			us = append(us, v.Object.GetType()+":"+v.Object.GetId())
		case *openfgav1.User_Userset:
			us = append(us, v.Userset.GetType()+":"+v.Userset.GetId()+"#"+v.Userset.GetRelation())
		case *openfgav1.User_Wildcard:
			us = append(us, v.Wildcard.GetType()+":*")
		}
	}
	sort.Strings(us)
	return "set:" + strings.Join(us, ",")
}

func (x *runner) write(ctx context.Context, ws, ds []scen.Tuple) error {
	req := &openfgav1.WriteRequest{StoreId: x.store, AuthorizationModelId: x.modelID}
	if len(ws) > 0 {
		req.Writes = &openfgav1.WriteRequestWrites{}
		for _, t := range ws {
			req.Writes.TupleKeys = append(req.Writes.TupleKeys, t.Proto())
		}
	}
	if len(ds) > 0 {
		req.Deletes = &openfgav1.WriteRequestDeletes{}
		for _, t := range ds {
			req.Deletes.TupleKeys = append(req.Deletes.TupleKeys, &openfgav1.TupleKeyWithoutCondition{Object: t.Obj, Relation: t.Rel, User: t.User})
		}
	}
	_, err := x.srv.Write(ctx, req)
	return err
}

type interner struct {
	m          map[string]int
	nerr, nset int
}

func (in *interner) code(a string) int {
	switch a {
	case "deny":
		return 0
	case "allow":
		return 1
	case "err:2058": // Request Cancelled (the model's cancelled_code)
		return 2
	}
	if c, ok := in.m[a]; ok {
		return c
	}
	// error classes 3..99, result sets 100.. (the model's is_error)
	var c int
	if strings.HasPrefix(a, "err") {
		in.nerr++
		c = 2 + in.nerr
		if c > 99 {
			panic("too many error classes")
		}
	} else {
		in.nset++
		c = 99 + in.nset
	}
	in.m[a] = c
	return c
}

var _ = structpb.NewStruct

func runCase(ctx context.Context, w *rec.Writer, p *Plan) {
	ds := memory.New()
	defer ds.Close()
	refCfg := Cfg{V2: p.Cfg.V2, Pipeline: p.Cfg.Pipeline}
	ref := newServer(ds, refCfg, false)
	defer ref.Close()
	fds := &faultDS{OpenFGADatastore: ds}
	tst := newServer(fds, p.Cfg, true)
	defer tst.Close()

	st, err := ref.CreateStore(ctx, &openfgav1.CreateStoreRequest{Name: "c10-store"})
	if err != nil {
		panic(err)
	}
	m := p.scen.ModelProto()
	wm, err := ref.WriteAuthorizationModel(ctx, &openfgav1.WriteAuthorizationModelRequest{StoreId: st.GetId(),
		TypeDefinitions: m.GetTypeDefinitions(), SchemaVersion: m.GetSchemaVersion(), Conditions: m.GetConditions()})
	if err != nil {
		panic(fmt.Sprintf("template %d rejected: %v", p.Tmpl, err))
	}
	R := &runner{srv: ref, store: st.GetId(), modelID: wm.GetAuthorizationModelId()}
	// With the weighted-graph flag on, a Check whose weighted-graph evaluation fails with a
	// non-terminal error (an injected datastore failure is one) is answered by the DEFAULT engine
	// (Server.Check / BatchCheck fallback).  Under an injected fault the current answer is therefore
	// the one of whichever engine answered: a second cache-less reference with the flag off.
	var R1 *runner
	if p.Cfg.V2 {
		ref1 := newServer(ds, Cfg{Pipeline: p.Cfg.Pipeline}, false)
		defer ref1.Close()
		R1 = &runner{srv: ref1, store: st.GetId(), modelID: wm.GetAuthorizationModelId()}
	}
	// fallbackRef: the reference to judge a faulted request by
	fallbackRef := func(obs, rf string, v1 func() string) string {
		if R1 == nil || obs == rf || strings.HasPrefix(obs, "err") {
			return rf
		}
		if a := v1(); a == obs {
			w.Stat("fault_answered_by_default_engine_fallback", 1)
			return a
		}
		return rf
	}
	T := &runner{srv: tst, store: st.GetId(), modelID: wm.GetAuthorizationModelId()}
	for _, t := range p.init {
		if err := T.write(ctx, []scen.Tuple{t}, nil); err != nil {
			panic(fmt.Sprintf("initial tuple %v rejected: %v", t, err))
		}
	}

	in := &interner{m: map[string]int{}}
	// clobber sets: the other check probes of the same partition
	clobber := func(pr Probe) rec.V {
		var ks []int
		for _, q := range p.probes {
			if q.API == 0 && !q.Bad && q.Key != pr.Key && q.partition() == pr.partition() {
				ks = append(ks, q.Key)
			}
		}
		return rec.LI(ks)
	}
	lastSeen := map[int]string{}
	var ops []rec.V
	emit := func(api int, pr Probe, cons int, obs, rf string, unstable bool, fault bool) {
		hi := cons == 2
		if os.Getenv("C10_DEBUG") != "" {
			fmt.Fprintf(os.Stderr, "req api=%d cons=%d probe=%+v obs=%q ref=%q unstable=%v\n", api, cons, pr, obs, rf, unstable)
		}
		ops = append(ops, rec.L(rec.I(1), rec.I(api), rec.Bool(hi), rec.I(pr.Key), rec.I(in.code(rf)), rec.I(in.code(obs)),
			rec.Bool(unstable), clobber(pr), rec.Bool(fault)))
		if fault {
			switch {
			case strings.HasPrefix(obs, "err"):
				w.Stat("higher_under_fault_error", 1)
			case obs == rf:
				w.Stat("higher_under_fault_current_answer", 1)
			default:
				w.Stat("higher_under_fault_OTHER_DECISION", 1)
			}
		}
		name := []string{"check", "batch_item", "list_objects", "list_users"}[api]
		cn := []string{"unspecified", "minimize_latency", "higher"}[cons]
		w.Stat("req_"+name+"_"+cn, 1)
		if pr.Bad {
			w.Stat("req_malformed", 1)
		}
		if rf == "allow" {
			w.Stat("reference_allowed", 1)
		} else if rf == "deny" {
			w.Stat("reference_denied", 1)
		} else if strings.HasPrefix(rf, "set:") && rf != "set:" {
			w.Stat("reference_nonempty_set", 1)
		} else if rf == "set:" {
			w.Stat("reference_empty_set", 1)
		}
		if prev, ok := lastSeen[pr.Key]; ok && prev != rf {
			if hi {
				w.Stat("higher_after_answer_changed", 1)
			} else {
				w.Stat("cached_after_answer_changed", 1)
			}
		}
		if !hi && obs == "err:2058" && rf != obs {
			w.Stat("cached_answer_cancelled_by_shared_iterator", 1)
		} else if !hi && obs != rf {
			w.Stat("cached_answer_stale", 1)
		}
		if hi && obs != rf && !unstable {
			w.Stat("higher_answer_not_reference", 1)
		}
		if unstable {
			w.Stat("reference_unstable", 1)
			p.NT = false
		}
		lastSeen[pr.Key] = rf
	}
	for _, op := range p.ops {
		switch op.Kind {
		case "w":
			if err := T.write(ctx, op.Writes, op.Dels); err != nil {
				w.Stat("write_rejected", 1)
			} else {
				w.Stat("writes", 1)
			}
			ops = append(ops, rec.L(rec.I(0)))
		case "check":
			pr := p.probes[op.Probes[0]]
			if op.Fault > 0 {
				fds.arm(op.Fault)
			}
			obs := T.check(ctx, pr, op.Cons)
			hit := fds.disarm() > 0
			rf := R.check(ctx, pr, op.Cons)
			unstable := false
			if obs != rf && op.Cons == 2 && !strings.HasPrefix(obs, "err") {
				unstable = R.check(ctx, pr, op.Cons) != rf
			}
			if op.Fault > 0 && !hit {
				w.Stat("fault_not_reached", 1)
			}
			if op.Fault > 0 {
				rf = fallbackRef(obs, rf, func() string { return R1.check(ctx, pr, op.Cons) })
			}
			emit(0, pr, op.Cons, obs, rf, unstable, op.Fault > 0)
		case "batch":
			var ps []Probe
			for _, i := range op.Probes {
				ps = append(ps, p.probes[i])
			}
			if op.Fault > 0 {
				fds.arm(op.Fault)
			}
			obs := T.batch(ctx, ps, op.Cons)
			if fds.disarm() == 0 && op.Fault > 0 {
				w.Stat("fault_not_reached", 1)
			}
			rf := R.batch(ctx, ps, op.Cons)
			var rf2 []string
			if op.Fault > 0 && R1 != nil {
				var v1 []string
				for i := range ps {
					i := i
					rf[i] = fallbackRef(obs[i], rf[i], func() string {
						if v1 == nil {
							v1 = R1.batch(ctx, ps, op.Cons)
						}
						return v1[i]
					})
				}
			}
			for i := range ps {
				unstable := false
				if obs[i] != rf[i] && op.Cons == 2 && !strings.HasPrefix(obs[i], "err") {
					if rf2 == nil {
						rf2 = R.batch(ctx, ps, op.Cons)
					}
					unstable = rf2[i] != rf[i]
				}
				emit(1, ps[i], op.Cons, obs[i], rf[i], unstable, op.Fault > 0)
			}
		case "lo":
			pr := p.probes[op.Probes[0]]
			obs := T.listObjects(ctx, pr, op.Cons)
			rf := R.listObjects(ctx, pr, op.Cons)
			unstable := false
			if obs != rf && op.Cons == 2 {
				unstable = R.listObjects(ctx, pr, op.Cons) != rf
			}
			emit(2, pr, op.Cons, obs, rf, unstable, false)
		case "lu":
			pr := p.probes[op.Probes[0]]
			obs := T.listUsers(ctx, pr, op.Cons)
			rf := R.listUsers(ctx, pr, op.Cons)
			unstable := false
			if obs != rf && op.Cons == 2 {
				unstable = R.listUsers(ctx, pr, op.Cons) != rf
			}
			emit(3, pr, op.Cons, obs, rf, unstable, false)
		}
	}
	w.Stat(fmt.Sprintf("template_%s", p.scen.Shape), 1)
	w.Stat(fmt.Sprintf("engine_v2_%v", p.Cfg.V2), 1)
	for name, on := range map[string]bool{"query": p.Cfg.Query, "iter": p.Cfg.Iter, "lo_iter": p.Cfg.LoIter, "shared": p.Cfg.Shared, "ctrl": p.Cfg.Ctrl} {
		if on {
			w.Stat("flag_"+name, 1)
		}
	}
	w.Case(p, p.Cfg.bits(), rec.L(ops...))
}

// selfTest: a hand-made history on which every cache layer should serve a stale answer (diagnostic,
// run with C10_SELFTEST=<cfg index>)
func selfTest(ctx context.Context, cfgIdx int) {
	ds := memory.New()
	c := cfgOf(cfgIdx)
	c.CtrlTTLms = 3600000
	ref := newServer(ds, Cfg{V2: c.V2}, false)
	tst := newServer(ds, c, true)
	sc := template(2)
	st, _ := ref.CreateStore(ctx, &openfgav1.CreateStoreRequest{Name: "c10-store"})
	m := sc.ModelProto()
	wm, err := ref.WriteAuthorizationModel(ctx, &openfgav1.WriteAuthorizationModelRequest{StoreId: st.GetId(),
		TypeDefinitions: m.GetTypeDefinitions(), SchemaVersion: m.GetSchemaVersion(), Conditions: m.GetConditions()})
	if err != nil {
		panic(err)
	}
	T := &runner{srv: tst, store: st.GetId(), modelID: wm.GetAuthorizationModelId()}
	link := scen.Tuple{Obj: "project:p0", Rel: "org", User: "org:o0"}
	fmt.Println("write", T.write(ctx, []scen.Tuple{link, {Obj: "org:o0", Rel: "member", User: "user:u0"}}, nil))
	pr := Probe{Obj: "project:p0", Rel: "member", User: "user:u0"}
	lo := Probe{Type: "project", Rel: "member", User: "user:u0"}
	for i := 0; i < 3; i++ {
		fmt.Println("cached check", T.check(ctx, pr, 1), "cached list", T.listObjects(ctx, lo, 1))
		time.Sleep(20 * time.Millisecond)
	}
	fmt.Println("delete", T.write(ctx, nil, []scen.Tuple{link}))
	for i := 0; i < 3; i++ {
		fmt.Println("cached check", T.check(ctx, pr, 1), "cached list", T.listObjects(ctx, lo, 1), "higher check", T.check(ctx, pr, 2), "higher list", T.listObjects(ctx, lo, 2))
		time.Sleep(20 * time.Millisecond)
	}
}

func main() {
	o := rec.ParseFlags()
	if v := os.Getenv("C10_SELFTEST"); v != "" {
		var i int
		fmt.Sscanf(v, "%d", &i)
		selfTest(context.Background(), i)
		return
	}
	w := rec.NewWriter(o.Out)
	defer w.Close()
	ctx := context.Background()
	if o.Replay != "" {
		f, err := os.Open(o.Replay)
		if err != nil {
			panic(err)
		}
		defer f.Close()
		sc := bufio.NewScanner(f)
		sc.Buffer(make([]byte, 1<<20), 1<<26)
		for sc.Scan() {
			line := strings.TrimSpace(sc.Text())
			if line == "" || line == "null" {
				continue
			}
			var d Plan
			if err := json.Unmarshal([]byte(line), &d); err != nil {
				continue
			}
			tier := d.Tier
			if tier == "" {
				tier = o.Tier
			}
			runCase(ctx, w, makePlan(d.Sub, d.CfgIdx, tier))
		}
		return
	}
	r := rec.NewRand(o.Seed)
	// all 64 flag combinations, in an order that depends on the seed
	perm := make([]int, 64)
	for i := range perm {
		perm[i] = i
	}
	rec.Shuffle(r, perm)
	for i := 0; i < o.N; i++ {
		runCase(ctx, w, makePlan(r.Uint64(), perm[i%64], o.Tier))
	}
}
