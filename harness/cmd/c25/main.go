//go:build verif

// Driver for C25: runs the real eval.EvaluateTupleCondition, EvaluableCondition.Evaluate and
// ParameterType.ConvertValue on generated conditions of the modelled CEL fragment and on
// (request context, stored context) pairs that agree / conflict / omit / mistype / overflow,
// and writes inputs and observed outcomes as records for the Coq oracle (Sem/Cond.v).
package main

import (
	"bufio"
	"context"
	"encoding/json"
	"errors"
	"fmt"
	"math"
	"net/netip"
	"os"
	"sort"
	"strconv"
	"strings"
	"time"

	openfgav1 "github.com/openfga/api/proto/openfga/v1"
	parser "github.com/openfga/language/pkg/go/transformer"
	"google.golang.org/protobuf/types/known/structpb"

	"github.com/openfga/openfga/internal/condition"
	"github.com/openfga/openfga/internal/condition/eval"
	"github.com/openfga/openfga/internal/condition/types"
	"github.com/openfga/openfga/internal/verifharness/lib/rec"
)

// ---------------------------------------------------------------------------------------------
// parameter types

const (
	tBool = iota
	tString
	tInt
	tUint
	tDouble
	tList
	tMap
	tTimestamp
	tDuration
	tIpaddr
	tAny
	tBad
)

type PT struct {
	K int `json:"k"`
	E *PT `json:"e,omitempty"`
}

func (t PT) rec() rec.V {
	if t.K == tList || t.K == tMap {
		return rec.L(rec.I(t.K), t.E.rec())
	}
	return rec.L(rec.I(t.K))
}

var dslNames = map[int]string{tBool: "bool", tString: "string", tInt: "int", tUint: "uint", tDouble: "double",
	tTimestamp: "timestamp", tDuration: "duration", tIpaddr: "ipaddress"}

func (t PT) dsl() (string, bool) {
	switch t.K {
	case tList, tMap:
		in, ok := t.E.dsl()
		if !ok {
			return "", false
		}
		if t.K == tList {
			return "list<" + in + ">", true
		}
		return "map<" + in + ">", true
	case tAny, tBad:
		return "", false
	}
	return dslNames[t.K], true
}

func (t PT) ref() *openfgav1.ConditionParamTypeRef {
	switch t.K {
	case tBool:
		return &openfgav1.ConditionParamTypeRef{TypeName: openfgav1.ConditionParamTypeRef_TYPE_NAME_BOOL}
	case tString:
		return &openfgav1.ConditionParamTypeRef{TypeName: openfgav1.ConditionParamTypeRef_TYPE_NAME_STRING}
	case tInt:
		return &openfgav1.ConditionParamTypeRef{TypeName: openfgav1.ConditionParamTypeRef_TYPE_NAME_INT}
	case tUint:
		return &openfgav1.ConditionParamTypeRef{TypeName: openfgav1.ConditionParamTypeRef_TYPE_NAME_UINT}
	case tDouble:
		return &openfgav1.ConditionParamTypeRef{TypeName: openfgav1.ConditionParamTypeRef_TYPE_NAME_DOUBLE}
	case tList:
		return &openfgav1.ConditionParamTypeRef{TypeName: openfgav1.ConditionParamTypeRef_TYPE_NAME_LIST,
			GenericTypes: []*openfgav1.ConditionParamTypeRef{t.E.ref()}}
	case tMap:
		return &openfgav1.ConditionParamTypeRef{TypeName: openfgav1.ConditionParamTypeRef_TYPE_NAME_MAP,
			GenericTypes: []*openfgav1.ConditionParamTypeRef{t.E.ref()}}
	case tTimestamp:
		return &openfgav1.ConditionParamTypeRef{TypeName: openfgav1.ConditionParamTypeRef_TYPE_NAME_TIMESTAMP}
	case tDuration:
		return &openfgav1.ConditionParamTypeRef{TypeName: openfgav1.ConditionParamTypeRef_TYPE_NAME_DURATION}
	case tIpaddr:
		return &openfgav1.ConditionParamTypeRef{TypeName: openfgav1.ConditionParamTypeRef_TYPE_NAME_IPADDRESS}
	case tAny:
		return &openfgav1.ConditionParamTypeRef{TypeName: openfgav1.ConditionParamTypeRef_TYPE_NAME_ANY}
	}
	// tBad: a list without its generic type
	return &openfgav1.ConditionParamTypeRef{TypeName: openfgav1.ConditionParamTypeRef_TYPE_NAME_LIST}
}

func isScalar(k int) bool { return k <= tDouble }

// ---------------------------------------------------------------------------------------------
// context values (google.protobuf.Value)

const (
	vNull = 0
	vBool = 1
	vNum  = 2
	vStr  = 5
	vList = 6
	vMap  = 7
)

type Val struct {
	K int             `json:"k"`
	B bool            `json:"b,omitempty"`
	F string          `json:"f,omitempty"` // float64 bits, hex
	S string          `json:"s,omitempty"`
	L []Val           `json:"l,omitempty"`
	M map[string]Val  `json:"m,omitempty"`
}

func num(f float64) Val    { return Val{K: vNum, F: strconv.FormatUint(math.Float64bits(f), 16)} }
func str(s string) Val     { return Val{K: vStr, S: s} }
func boolean(b bool) Val   { return Val{K: vBool, B: b} }
func (v Val) float() float64 {
	u, _ := strconv.ParseUint(v.F, 16, 64)
	return math.Float64frombits(u)
}

func (v Val) pb() *structpb.Value {
	switch v.K {
	case vNull:
		return structpb.NewNullValue()
	case vBool:
		return structpb.NewBoolValue(v.B)
	case vNum:
		return structpb.NewNumberValue(v.float())
	case vStr:
		return structpb.NewStringValue(v.S)
	case vList:
		l := &structpb.ListValue{}
		for _, x := range v.L {
			l.Values = append(l.Values, x.pb())
		}
		return structpb.NewListValue(l)
	default:
		s := &structpb.Struct{Fields: map[string]*structpb.Value{}}
		for k, x := range v.M {
			s.Fields[k] = x.pb()
		}
		return structpb.NewStructValue(s)
	}
}

// float64 -> (neg, mantissa, exponent) with value = mantissa * 2^exponent exactly
func floatRec(tag int, f float64) rec.V {
	if f == 0 {
		return rec.L(rec.I(tag), rec.I(0), rec.I(0), rec.I(0))
	}
	fr, ex := math.Frexp(math.Abs(f))
	m := uint64(fr * (1 << 53))
	return rec.L(rec.I(tag), rec.Bool(f < 0), rec.U64(m), rec.I(ex-53))
}

func sortedKeys[T any](m map[string]T) []string {
	ks := make([]string, 0, len(m))
	for k := range m {
		ks = append(ks, k)
	}
	sort.Strings(ks)
	return ks
}

func (v Val) rec() rec.V {
	switch v.K {
	case vNull:
		return rec.L(rec.I(0))
	case vBool:
		return rec.L(rec.I(1), rec.Bool(v.B))
	case vNum:
		f := v.float()
		switch {
		case math.IsNaN(f):
			return rec.L(rec.I(3))
		case math.IsInf(f, 0):
			return rec.L(rec.I(4), rec.Bool(f < 0))
		}
		return floatRec(2, f)
	case vStr:
		return rec.L(rec.I(5), rec.S(v.S))
	case vList:
		vs := []rec.V{rec.I(6)}
		for _, x := range v.L {
			vs = append(vs, x.rec())
		}
		return rec.L(vs...)
	default:
		vs := []rec.V{rec.I(7)}
		for _, k := range sortedKeys(v.M) {
			vs = append(vs, rec.L(rec.S(k), v.M[k].rec()))
		}
		return rec.L(vs...)
	}
}

type Ctx map[string]Val

func (c Ctx) rec() rec.V {
	var vs []rec.V
	for _, k := range sortedKeys(c) {
		vs = append(vs, rec.L(rec.S(k), c[k].rec()))
	}
	return rec.L(vs...)
}

func (c Ctx) fields() map[string]*structpb.Value {
	m := map[string]*structpb.Value{}
	for k, v := range c {
		m[k] = v.pb()
	}
	return m
}

// every string that occurs in a value (for the table of the external parsers' verdicts)
func (v Val) strings(out map[string]bool) {
	switch v.K {
	case vStr:
		out[v.S] = true
	case vNum:
		f := v.float()
		switch { // structpb.AsInterface
		case math.IsNaN(f):
			out["NaN"] = true
		case math.IsInf(f, 1):
			out["Infinity"] = true
		case math.IsInf(f, -1):
			out["-Infinity"] = true
		}
	case vList:
		for _, x := range v.L {
			x.strings(out)
		}
	case vMap:
		for _, x := range v.M {
			x.strings(out)
		}
	}
}

// the external parsers, called directly (not through /repo's converters)
func extOK(kind int, s string) bool {
	switch kind {
	case 0:
		_, err := time.Parse(time.RFC3339, s)
		return err == nil
	case 1:
		_, err := time.ParseDuration(s)
		return err == nil
	default:
		_, err := netip.ParseAddr(s)
		return err == nil
	}
}

func extTable(strs map[string]bool) rec.V {
	ks := make([]string, 0, len(strs))
	for k := range strs {
		ks = append(ks, k)
	}
	sort.Strings(ks)
	var vs []rec.V
	for _, s := range ks {
		for kind := 0; kind < 3; kind++ {
			if extOK(kind, s) {
				vs = append(vs, rec.L(rec.I(kind), rec.S(s), rec.I(1)))
			}
		}
	}
	return rec.L(vs...)
}

// ---------------------------------------------------------------------------------------------
// expressions of the fragment

const (
	eBool = iota
	eStr
	eInt
	eUint
	eDouble
	eParam
	eCmp
	eAnd
	eOr
	eNot
	eIn
	eListLit
	eIdx
)

type Expr struct {
	T   int     `json:"t"`
	B   bool    `json:"b,omitempty"`
	S   string  `json:"s,omitempty"`   // string literal / parameter name
	I   string  `json:"i,omitempty"`   // integer literal, decimal with sign
	F   string  `json:"f,omitempty"`   // double literal, float64 bits hex
	Op  int     `json:"op,omitempty"`  // 0 == 1 != 2 < 3 <= 4 > 5 >=
	A   *Expr   `json:"a,omitempty"`
	Bx  *Expr   `json:"bx,omitempty"`
	L   []*Expr `json:"l,omitempty"`
}

func (e *Expr) float() float64 {
	u, _ := strconv.ParseUint(e.F, 16, 64)
	return math.Float64frombits(u)
}

var opText = []string{"==", "!=", "<", "<=", ">", ">="}

func celString(s string) string {
	var sb strings.Builder
	sb.WriteByte('"')
	for _, r := range s {
		switch r {
		case '"':
			sb.WriteString(`\"`)
		case '\\':
			sb.WriteString(`\\`)
		default:
			sb.WriteRune(r)
		}
	}
	sb.WriteByte('"')
	return sb.String()
}

func celDouble(f float64) string {
	s := strconv.FormatFloat(f, 'g', -1, 64)
	if !strings.ContainsAny(s, ".e") {
		s += ".0"
	}
	return s
}

func (e *Expr) cel() string {
	switch e.T {
	case eBool:
		if e.B {
			return "true"
		}
		return "false"
	case eStr:
		return celString(e.S)
	case eInt:
		return e.I
	case eUint:
		return e.I + "u"
	case eDouble:
		return celDouble(e.float())
	case eParam:
		return e.S
	case eCmp:
		return "(" + e.A.cel() + " " + opText[e.Op] + " " + e.Bx.cel() + ")"
	case eAnd:
		return "(" + e.A.cel() + " && " + e.Bx.cel() + ")"
	case eOr:
		return "(" + e.A.cel() + " || " + e.Bx.cel() + ")"
	case eNot:
		return "!" + e.A.cel()
	case eIn:
		return "(" + e.A.cel() + " in " + e.Bx.cel() + ")"
	case eListLit:
		parts := make([]string, len(e.L))
		for i, x := range e.L {
			parts[i] = x.cel()
		}
		return "[" + strings.Join(parts, ", ") + "]"
	default:
		return e.A.cel() + "[" + e.Bx.cel() + "]"
	}
}

func intRec(tag int, dec string) rec.V {
	neg := strings.HasPrefix(dec, "-")
	return rec.L(rec.I(tag), rec.Bool(neg), rec.Dec(strings.TrimPrefix(dec, "-")))
}

func (e *Expr) rec() rec.V {
	switch e.T {
	case eBool:
		return rec.L(rec.I(0), rec.Bool(e.B))
	case eStr:
		return rec.L(rec.I(1), rec.S(e.S))
	case eInt:
		return intRec(2, e.I)
	case eUint:
		return rec.L(rec.I(3), rec.Dec(e.I))
	case eDouble:
		return floatRec(4, e.float())
	case eParam:
		return rec.L(rec.I(5), rec.S(e.S))
	case eCmp:
		return rec.L(rec.I(6), rec.I(e.Op), e.A.rec(), e.Bx.rec())
	case eAnd:
		return rec.L(rec.I(7), e.A.rec(), e.Bx.rec())
	case eOr:
		return rec.L(rec.I(8), e.A.rec(), e.Bx.rec())
	case eNot:
		return rec.L(rec.I(9), e.A.rec())
	case eIn:
		return rec.L(rec.I(10), e.A.rec(), e.Bx.rec())
	case eListLit:
		vs := []rec.V{rec.I(11)}
		for _, x := range e.L {
			vs = append(vs, x.rec())
		}
		return rec.L(vs...)
	default:
		return rec.L(rec.I(12), e.A.rec(), e.Bx.rec())
	}
}

// ---------------------------------------------------------------------------------------------
// conditions

type Param struct {
	N string `json:"n"`
	T PT     `json:"t"`
}

type Cond struct {
	Name   string  `json:"name"`
	Params []Param `json:"params"` // sorted by name
	Expr   *Expr   `json:"expr"`
	Via    string  `json:"via"`  // "dsl" or "proto"
	Mode   int     `json:"mode"` // 0 NewUncompiled; 1 + WithTrackEvaluationCost/WithMaxEvaluationCost/WithInterruptCheckFrequency
	Cel    string  `json:"cel,omitempty"` // the expression text (information only; rebuilt from Expr)
}

func (c *Cond) paramsRec() rec.V {
	var vs []rec.V
	for _, p := range c.Params {
		vs = append(vs, rec.L(rec.S(p.N), p.T.rec()))
	}
	return rec.L(vs...)
}

func (c *Cond) dslOK() bool {
	if len(c.Params) == 0 || len(c.Name) < 2 {
		return false
	}
	for _, p := range c.Params {
		if _, ok := p.T.dsl(); !ok {
			return false
		}
	}
	return true
}

// proto builds the openfgav1.Condition, through the DSL transformer of /repo's language module
// when the condition can be written in the DSL.
func (c *Cond) proto() (*openfgav1.Condition, error) {
	if c.Via == "dsl" {
		var ps []string
		for _, p := range c.Params {
			t, _ := p.T.dsl()
			ps = append(ps, p.N+": "+t)
		}
		dsl := "model\n  schema 1.1\ntype user\ntype document\n  relations\n    define viewer: [user with " + c.Name + "]\n" +
			"condition " + c.Name + "(" + strings.Join(ps, ", ") + ") {\n  " + c.Expr.cel() + "\n}\n"
		m, err := parser.TransformDSLToProto(dsl)
		if err != nil {
			return nil, fmt.Errorf("dsl: %w\n%s", err, dsl)
		}
		pc, ok := m.GetConditions()[c.Name]
		if !ok {
			return nil, fmt.Errorf("dsl: condition %q not in the transformed model", c.Name)
		}
		return pc, nil
	}
	pc := &openfgav1.Condition{Name: c.Name, Expression: c.Expr.cel(), Parameters: map[string]*openfgav1.ConditionParamTypeRef{}}
	for _, p := range c.Params {
		pc.Parameters[p.N] = p.T.ref()
	}
	return pc, nil
}

func (c *Cond) build(pc *openfgav1.Condition) *condition.EvaluableCondition {
	ec := condition.NewUncompiled(pc)
	if c.Mode == 1 {
		ec = ec.WithTrackEvaluationCost().WithMaxEvaluationCost(1000000).WithInterruptCheckFrequency(100)
	}
	return ec
}

// ---------------------------------------------------------------------------------------------
// one evaluation

type Case struct {
	Kind    int    `json:"kind"` // 1 evaluate, 2 convert
	Cond    *Cond  `json:"cond,omitempty"`
	TName   string `json:"tname"`          // condition name in the tuple
	EC      bool   `json:"ec"`             // an evaluable condition is passed (else nil)
	Req     Ctx    `json:"req,omitempty"`
	ReqNil  bool   `json:"req_nil,omitempty"`    // pass a nil *structpb.Struct
	Stored  Ctx    `json:"stored,omitempty"`
	StNil   bool   `json:"stored_nil,omitempty"` // the tuple condition has a nil context
	CondNil bool   `json:"cond_nil,omitempty"`   // the tuple key has no condition at all (TName == "")
	Type    *PT    `json:"type,omitempty"`       // kind 2
	Value   *Val   `json:"value,omitempty"`      // kind 2
	NT      *bool  `json:"nt,omitempty"`
	Expect  *int   `json:"expect,omitempty"` // fixed witnesses: the outcome class the property demands
}

func classify(err error) int {
	var pte *condition.ParameterTypeError
	var ce *condition.CompilationError
	switch {
	case errors.As(err, &ce):
		return 6
	case errors.As(err, &pte):
		return 3
	}
	m := err.Error()
	switch {
	case strings.Contains(m, "condition was not found"):
		return 2
	case strings.Contains(m, "missing context parameters"):
		return 4
	case strings.Contains(m, "failed to evaluate condition expression"):
		return 5
	}
	return 8
}

type compiled struct {
	pc *openfgav1.Condition
	ec *condition.EvaluableCondition
}

// outcome class of EvaluateTupleCondition: 0 met, 1 not met, 2.. error classes, 7 panic
func runTuple(c *Case, ec *condition.EvaluableCondition) (cls int) {
	defer func() {
		if r := recover(); r != nil {
			cls = 7
		}
	}()
	tk := &openfgav1.TupleKey{Object: "document:1", Relation: "viewer", User: "user:a"}
	if !c.CondNil {
		rc := &openfgav1.RelationshipCondition{Name: c.TName}
		if !c.StNil {
			rc.Context = &structpb.Struct{Fields: c.Stored.fields()}
		}
		tk.Condition = rc
	}
	var req *structpb.Struct
	if !c.ReqNil {
		req = &structpb.Struct{Fields: c.Req.fields()}
	}
	met, err := eval.EvaluateTupleCondition(context.Background(), tk, ec, req)
	if err != nil {
		if met {
			return 8
		}
		return classify(err)
	}
	if met {
		return 0
	}
	return 1
}

// EvaluableCondition.Evaluate on the same two maps
func runEvaluate(c *Case, ec *condition.EvaluableCondition) (out rec.V) {
	defer func() {
		if r := recover(); r != nil {
			out = rec.L(rec.I(2))
		}
	}()
	res, err := ec.Evaluate(context.Background(), c.Req.fields(), c.Stored.fields())
	if err != nil {
		return rec.L(rec.I(1), rec.I(classify(err)))
	}
	ms := append([]string(nil), res.MissingParameters...)
	sort.Strings(ms)
	return rec.L(rec.I(0), rec.Bool(res.ConditionMet), rec.LS(ms))
}

func goValueRec(t PT, v any) rec.V {
	if t.K == tAny {
		return rec.L(rec.I(9))
	}
	switch x := v.(type) {
	case bool:
		return rec.L(rec.I(0), rec.Bool(x))
	case string:
		return rec.L(rec.I(1), rec.S(x))
	case int64:
		return intRec(2, strconv.FormatInt(x, 10))
	case uint64:
		return rec.L(rec.I(3), rec.U64(x))
	case float64:
		switch {
		case math.IsNaN(x):
			return rec.L(rec.I(15))
		case math.IsInf(x, 0):
			return rec.L(rec.I(14), rec.Bool(x < 0))
		}
		return floatRec(4, x)
	case []any:
		vs := []rec.V{rec.I(6)}
		for _, y := range x {
			vs = append(vs, goValueRec(*t.E, y))
		}
		return rec.L(vs...)
	case map[string]any:
		vs := []rec.V{rec.I(7)}
		for _, k := range sortedKeys(x) {
			vs = append(vs, rec.L(rec.S(k), goValueRec(*t.E, x[k])))
		}
		return rec.L(vs...)
	case time.Time, time.Duration, types.IPAddress:
		return rec.L(rec.I(8))
	}
	return rec.L(rec.I(99))
}

func runConvert(t PT, v Val) (out rec.V) {
	defer func() {
		if r := recover(); r != nil {
			out = rec.L(rec.I(2))
		}
	}()
	pt, err := types.DecodeParameterType(t.ref())
	if err != nil {
		return rec.L(rec.I(1))
	}
	got, err := pt.ConvertValue(v.pb().AsInterface())
	if err != nil {
		return rec.L(rec.I(1))
	}
	return rec.L(rec.I(0), goValueRec(t, got))
}

type runner struct {
	w     *rec.Writer
	cache map[*Cond]*compiled
}

func (r *runner) compiledFor(c *Cond) (*compiled, error) {
	if cc, ok := r.cache[c]; ok {
		return cc, nil
	}
	pc, err := c.proto()
	if err != nil {
		return nil, err
	}
	cc := &compiled{pc: pc, ec: c.build(pc)}
	r.cache[c] = cc
	return cc, nil
}

// returns the outcome class of EvaluateTupleCondition (or -1)
func (r *runner) run(c *Case) int {
	w := r.w
	if c.Kind == 2 {
		strs := map[string]bool{}
		c.Value.strings(strs)
		w.Case(c, rec.I(2), c.Type.rec(), c.Value.rec(), extTable(strs), runConvert(*c.Type, *c.Value))
		return -1
	}
	cc, err := r.compiledFor(c.Cond)
	if err != nil {
		w.PropFail("the generated condition could not be built: "+err.Error(), c)
		return -1
	}
	var ec *condition.EvaluableCondition
	if c.EC {
		ec = cc.ec
		if c.Cond.Via == "bad" { // a condition that does not compile reports the error only once
			ec = c.Cond.build(cc.pc)
		}
	}
	cls := runTuple(c, ec)
	if c.Expect != nil && cls != *c.Expect {
		w.PropFail(fmt.Sprintf("fixed witness: EvaluateTupleCondition outcome class %d, the property demands %d (0 met, 1 not met, 3 type error)", cls, *c.Expect), c)
	}
	ev := rec.L(rec.I(3))
	if c.EC && cls != 6 {
		ev = runEvaluate(c, ec)
	}
	strs := map[string]bool{}
	for _, v := range c.Req {
		v.strings(strs)
	}
	for _, v := range c.Stored {
		v.strings(strs)
	}
	w.Case(c, rec.I(1), rec.S(c.TName), rec.Bool(c.EC), rec.S(c.Cond.Name), c.Cond.paramsRec(), c.Cond.Expr.rec(),
		c.Req.rec(), c.Stored.rec(), extTable(strs), rec.I(cls), ev)
	return cls
}

// ---------------------------------------------------------------------------------------------
// generators

var paramNames = []string{"pa", "pb", "pc", "pd", "pe"}
var condNames = []string{"c1", "cond_x", "xy", "in_range"}
var strPool = []string{"", "a", "b", "ab", "A", "é", "z9", "NaN", "1", "a b"}
var mapKeys = []string{"a", "b", "k"}

var intLits = []string{"0", "1", "-1", "2", "5", "42", "9007199254740992", "4611686018427387904",
	"9223372036854775807", "-9223372036854775808", "-9223372036854775807"}
var uintLits = []string{"0", "1", "2", "5", "42", "9223372036854775807", "9223372036854775808", "18446744073709551615"}
var dblLits = []float64{0, 1, -1, 0.5, 1.5, 2, 1e300, -2.5, 5e-324, 9007199254740992}

// numbers a context may carry for a numeric parameter
var numPool = []float64{0, 1, -1, 2, 5, 42, 0.5, 1.5, -0.25, 1e-3, 9007199254740992, -9007199254740992,
	4611686018427387904, 9223372036854775807 /* = 2^63 as float64 */, -9223372036854775808, 1e19, 1.8e19, 3e19, -1e19,
	18446744073709551616, 1e300, -1e300, 5e-324, math.MaxFloat64, math.Copysign(0, -1), 9223372036854774784, -9223372036854777856}

var numStrings = []string{"0", "1", "+1", "-1", "01", "2", "5", "42", "1.0", "1e0", "10e-1", "1.5", "abc", "", " 1", "1 ",
	"0x10", "1_0", "1p3", "1P-1", "Inf", "inf", "+Inf", "-inf", "INF", "Infinity", "NaN", "9223372036854775807", "9223372036854775808",
	"-9223372036854775808", "-9223372036854775809", "18446744073709551615", "18446744073709551616", "1e19", "1E19",
	"1.00000000000000000000000001", "4611686018427387904.25", "4611686018427387904.5", "9223372036854775807.5",
	"1e-400", "1e400", "1e308", "1e309", ".5", "5.", ".", "e5", "1e", "1e+", "1e-", "--1", "+-1", "1..2", "1.2.3", "1.2e3",
	"١", "0.5", "0.1", "0.25", "-0", "-0.0", "+", "-", "2e0x", "1e5e5", "0e9", "5e-324", "2.5", "-2.5", "42e0", "4.2e1",
	"9007199254740993", "0.30000000000000004", "1e22", "1e23", "123456789012345678901234567890", "1e-5", "100000e-5",
	"9223372036854775806.75", "1.5p1", "3p-1"}

func pick[T any](r *rec.Rand, xs []T) T { return rec.Pick(r, xs) }

func randNumString(r *rec.Rand) string {
	var sb strings.Builder
	if r.Chance(1, 6) { // around the 64-bit rounding border of big.ParseFloat: ties, near-ties
		base := pick(r, []uint64{1 << 62, 1<<63 - 2, 1<<63 - 1, 1<<62 + 1, 1<<61 + 3, 1 << 63, 1<<64 - 1, 1<<64 - 2})
		base += uint64(r.Intn(5)) - 2
		if r.Chance(1, 4) {
			sb.WriteByte('-')
		}
		sb.WriteString(strconv.FormatUint(base, 10))
		sb.WriteString(pick(r, []string{"", ".0", ".25", ".5", ".75", ".125", ".50000000000000000001", ".49999999999999999999", ".5e0", "e0", "0e-1", "5e-1"}))
		return sb.String()
	}
	switch r.Intn(6) {
	case 0:
		sb.WriteByte('-')
	case 1:
		sb.WriteByte('+')
	}
	nd := r.Range(1, 22)
	dot := -1
	if r.Chance(1, 2) {
		dot = r.Intn(nd + 1)
	}
	for i := 0; i < nd; i++ {
		if i == dot {
			sb.WriteByte('.')
		}
		if r.Chance(1, 3) {
			sb.WriteByte('0')
		} else {
			sb.WriteByte(byte('0' + r.Intn(10)))
		}
	}
	if dot == nd {
		sb.WriteByte('.')
	}
	if r.Chance(1, 3) {
		sb.WriteByte(pick(r, []byte{'e', 'E', 'p'}))
		switch r.Intn(3) {
		case 0:
			sb.WriteByte('-')
		case 1:
			sb.WriteByte('+')
		}
		sb.WriteString(strconv.Itoa(r.Intn(pick(r, []int{3, 30, 330}))))
	}
	if r.Chance(1, 25) {
		sb.WriteString(pick(r, []string{" ", "x", "_", ".", "e", ".5", "..", "e1.5"}))
	}
	return sb.String()
}

func randFloat(r *rec.Rand) float64 {
	switch r.Intn(5) {
	case 0:
		return float64(r.Intn(10) - 3)
	case 1: // around the int64 / uint64 borders
		base := pick(r, []float64{9223372036854775808, 18446744073709551616, 4611686018427387904, 9007199254740992})
		f := base
		for i := r.Intn(4); i > 0; i-- {
			if r.Bool() {
				f = math.Nextafter(f, math.Inf(1))
			} else {
				f = math.Nextafter(f, 0)
			}
		}
		if r.Chance(1, 3) {
			f = -f
		}
		return f
	case 2:
		return float64(r.Intn(2000)-1000) / float64(int(1)<<uint(r.Intn(6)))
	case 3:
		return math.Float64frombits(r.Uint64())
	default:
		return pick(r, numPool)
	}
}

// literals of the expression per scalar kind, as context values: contexts built from them make
// the comparisons of the expression flip
type hints map[int][]Val

func (e *Expr) collect(h hints) {
	if e == nil {
		return
	}
	switch e.T {
	case eStr:
		h[tString] = append(h[tString], str(e.S))
	case eInt, eUint:
		k := tInt
		if e.T == eUint {
			k = tUint
		}
		f, _ := strconv.ParseFloat(e.I, 64)
		if strconv.FormatFloat(f, 'f', 0, 64) == e.I {
			h[k] = append(h[k], num(f))
		} else {
			h[k] = append(h[k], str(e.I))
		}
	case eDouble:
		h[tDouble] = append(h[tDouble], num(e.float()))
	}
	e.A.collect(h)
	e.Bx.collect(h)
	for _, x := range e.L {
		x.collect(h)
	}
}

var curHints hints

// a value of the right kind for the type (it may still fail the conversion for numeric edge cases)
func genValid(r *rec.Rand, t PT, edge bool) Val {
	if !edge && isScalar(t.K) && len(curHints[t.K]) > 0 && r.Chance(1, 2) {
		return pick(r, curHints[t.K])
	}
	switch t.K {
	case tBool:
		return boolean(r.Bool())
	case tString:
		return str(pick(r, strPool))
	case tInt, tUint, tDouble:
		if !edge {
			switch t.K {
			case tInt:
				if r.Chance(1, 6) {
					return str(pick(r, []string{"0", "1", "-1", "2", "5", "42", "9223372036854775807", "-9223372036854775808"}))
				}
				return num(pick(r, []float64{0, 1, -1, 2, 5, 42, 9007199254740992, 4611686018427387904, -9223372036854775808}))
			case tUint:
				if r.Chance(1, 6) {
					return str(pick(r, []string{"0", "1", "2", "5", "42", "9223372036854775807"}))
				}
				return num(pick(r, []float64{0, 1, 2, 5, 42, 9007199254740992, 4611686018427387904}))
			default:
				if r.Chance(1, 6) {
					return str(pick(r, []string{"0", "1", "-1", "0.5", "1.5", "2", "1e300", "-2.5", "5e-324", "Inf", "-Inf"}))
				}
				return num(pick(r, dblLits))
			}
		}
		switch r.Intn(4) {
		case 0:
			return str(pick(r, numStrings))
		case 1:
			return str(randNumString(r))
		default:
			return num(randFloat(r))
		}
	case tList:
		n := r.Intn(4)
		v := Val{K: vList}
		for i := 0; i < n; i++ {
			v.L = append(v.L, genValid(r, *t.E, edge && r.Chance(1, 2)))
		}
		return v
	case tMap:
		v := Val{K: vMap, M: map[string]Val{}}
		for _, k := range mapKeys {
			if r.Chance(1, 2) || (!edge && r.Chance(2, 3)) {
				v.M[k] = genValid(r, *t.E, edge && r.Chance(1, 2))
			}
		}
		return v
	case tTimestamp:
		if !edge {
			return str(pick(r, []string{"2024-01-02T03:04:05Z", "2024-01-02T03:04:05+01:00", "1999-12-31T23:59:59.5Z"}))
		}
		return str(pick(r, []string{"2024-01-02T03:04:05Z", "2024-01-02T03:04:05+01:00", "2024-01-02 03:04:05", "2024-13-02T03:04:05Z", "1", ""}))
	case tDuration:
		if !edge {
			return str(pick(r, []string{"1h", "10s", "1h30m", "-5ms"}))
		}
		return str(pick(r, []string{"1h", "10s", "1h30m", "-5ms", "1d", "abc", "1", ""}))
	case tIpaddr:
		if !edge {
			return str(pick(r, []string{"192.168.0.1", "::1", "::ffff:10.0.0.1"}))
		}
		return str(pick(r, []string{"192.168.0.1", "::1", "::ffff:10.0.0.1", "192.168.0.256", "10.0.0.0/8", "host", ""}))
	}
	return genAny(r, 2)
}

func genAny(r *rec.Rand, depth int) Val {
	k := r.Intn(6)
	if depth == 0 && k >= 4 {
		k = r.Intn(4)
	}
	switch k {
	case 0:
		return Val{K: vNull}
	case 1:
		return boolean(r.Bool())
	case 2:
		if r.Chance(1, 8) {
			return num(pick(r, []float64{math.NaN(), math.Inf(1), math.Inf(-1)}))
		}
		return num(randFloat(r))
	case 3:
		if r.Chance(1, 2) {
			return str(pick(r, numStrings))
		}
		return str(pick(r, strPool))
	case 4:
		v := Val{K: vList}
		for i := r.Intn(3); i > 0; i-- {
			v.L = append(v.L, genAny(r, depth-1))
		}
		return v
	default:
		v := Val{K: vMap, M: map[string]Val{}}
		for _, k := range mapKeys {
			if r.Chance(1, 3) {
				v.M[k] = genAny(r, depth-1)
			}
		}
		return v
	}
}

// a value of the wrong kind for the type
func genMistyped(r *rec.Rand, t PT) Val {
	for i := 0; i < 20; i++ {
		v := genAny(r, 1)
		switch t.K {
		case tBool:
			if v.K == vBool {
				continue
			}
		case tString, tTimestamp, tDuration, tIpaddr:
			if v.K == vStr {
				continue
			}
		case tInt, tUint, tDouble:
			if v.K == vNum || v.K == vStr {
				continue
			}
		case tList:
			if v.K == vList && len(v.L) == 0 {
				continue
			}
		case tMap:
			if v.K == vMap && len(v.M) == 0 {
				continue
			}
		}
		return v
	}
	return Val{K: vNull}
}

func genType(r *rec.Rand, allowNonDSL bool) PT {
	switch x := r.Intn(100); {
	case x < 12:
		return PT{K: tBool}
	case x < 26:
		return PT{K: tString}
	case x < 44:
		return PT{K: tInt}
	case x < 58:
		return PT{K: tUint}
	case x < 70:
		return PT{K: tDouble}
	case x < 80:
		e := PT{K: pick(r, []int{tString, tString, tInt, tUint, tDouble, tBool})}
		return PT{K: tList, E: &e}
	case x < 90:
		e := PT{K: pick(r, []int{tString, tString, tInt, tUint, tDouble, tBool})}
		return PT{K: tMap, E: &e}
	case x < 93:
		return PT{K: tTimestamp}
	case x < 95:
		return PT{K: tDuration}
	case x < 97:
		return PT{K: tIpaddr}
	default:
		if allowNonDSL {
			return PT{K: tAny}
		}
		return PT{K: tInt}
	}
}

type gen struct {
	r  *rec.Rand
	ps []Param
}

func (g *gen) paramsOf(pred func(PT) bool) []Param {
	var out []Param
	for _, p := range g.ps {
		if pred(p.T) {
			out = append(out, p)
		}
	}
	return out
}

func (g *gen) literal(k int) *Expr {
	r := g.r
	switch k {
	case tBool:
		return &Expr{T: eBool, B: r.Bool()}
	case tString:
		return &Expr{T: eStr, S: pick(r, strPool)}
	case tInt:
		return &Expr{T: eInt, I: pick(r, intLits)}
	case tUint:
		return &Expr{T: eUint, I: pick(r, uintLits)}
	default:
		return &Expr{T: eDouble, F: strconv.FormatUint(math.Float64bits(pick(r, dblLits)), 16)}
	}
}

// a scalar-typed operand of kind k: a parameter, a literal or a map element
func (g *gen) operand(k int, preferParam bool) *Expr {
	r := g.r
	ps := g.paramsOf(func(t PT) bool { return t.K == k })
	ms := g.paramsOf(func(t PT) bool { return t.K == tMap && t.E.K == k })
	x := r.Intn(10)
	if preferParam {
		x = r.Intn(7)
	}
	switch {
	case x < 5 && len(ps) > 0:
		return &Expr{T: eParam, S: pick(r, ps).N}
	case x < 7 && len(ms) > 0:
		m := pick(r, ms)
		var key *Expr
		ss := g.paramsOf(func(t PT) bool { return t.K == tString })
		if len(ss) > 0 && r.Chance(1, 4) {
			key = &Expr{T: eParam, S: pick(r, ss).N}
		} else {
			key = &Expr{T: eStr, S: pick(r, mapKeys)}
		}
		return &Expr{T: eIdx, A: &Expr{T: eParam, S: m.N}, Bx: key}
	}
	return g.literal(k)
}

func isLiteral(e *Expr) bool { return e.T <= eDouble }

// an operand that is not a literal, when the parameters allow one
func (g *gen) nonLiteral(k int) *Expr {
	e := g.operand(k, true)
	for i := 0; i < 8 && isLiteral(e); i++ {
		e = g.operand(k, true)
	}
	return e
}

func (g *gen) atom() *Expr {
	r := g.r
	for try := 0; try < 8; try++ {
		switch r.Intn(10) {
		case 0: // bool parameter / literal
			bs := g.paramsOf(func(t PT) bool { return t.K == tBool })
			if len(bs) > 0 {
				return &Expr{T: eParam, S: pick(r, bs).N}
			}
			if r.Chance(1, 4) {
				return &Expr{T: eBool, B: r.Bool()}
			}
		case 1, 2: // membership
			ls := g.paramsOf(func(t PT) bool { return t.K == tList && isScalar(t.E.K) })
			ms := g.paramsOf(func(t PT) bool { return t.K == tMap && isScalar(t.E.K) })
			switch {
			case len(ls) > 0 && r.Chance(1, 2):
				l := pick(r, ls)
				return &Expr{T: eIn, A: g.operand(l.T.E.K, false), Bx: &Expr{T: eParam, S: l.N}}
			case len(ms) > 0 && r.Chance(1, 2):
				m := pick(r, ms)
				return &Expr{T: eIn, A: g.operand(tString, false), Bx: &Expr{T: eParam, S: m.N}}
			default:
				k := pick(r, []int{tString, tInt, tUint, tDouble})
				if len(g.paramsOf(func(t PT) bool { return t.K == k })) == 0 {
					continue
				}
				lit := &Expr{T: eListLit}
				for i := r.Range(1, 3); i > 0; i-- {
					lit.L = append(lit.L, g.literal(k))
				}
				return &Expr{T: eIn, A: g.nonLiteral(k), Bx: lit}
			}
		default: // comparison
			var ks []int
			for _, p := range g.ps {
				switch {
				case isScalar(p.T.K):
					ks = append(ks, p.T.K)
				case p.T.K == tMap && isScalar(p.T.E.K):
					ks = append(ks, p.T.E.K)
				}
			}
			if len(ks) == 0 {
				ks = []int{tInt, tString, tBool}
			}
			k := pick(r, ks)
			op := r.Intn(6)
			if r.Chance(1, 3) {
				op = r.Intn(2)
			}
			a, b := g.nonLiteral(k), g.operand(k, false)
			for i := 0; i < 8 && a.cel() == b.cel() && !r.Chance(1, 30); i++ {
				b = g.operand(k, false)
			}
			if r.Bool() {
				a, b = b, a
			}
			return &Expr{T: eCmp, Op: op, A: a, Bx: b}
		}
	}
	return &Expr{T: eCmp, Op: 0, A: g.literal(tInt), Bx: g.literal(tInt)}
}

func (g *gen) boolExpr(depth int) *Expr {
	r := g.r
	if depth == 0 || r.Chance(1, 4) {
		return g.atom()
	}
	switch r.Intn(5) {
	case 0, 1:
		return &Expr{T: eAnd, A: g.boolExpr(depth - 1), Bx: g.boolExpr(depth - 1)}
	case 2, 3:
		return &Expr{T: eOr, A: g.boolExpr(depth - 1), Bx: g.boolExpr(depth - 1)}
	default:
		return &Expr{T: eNot, A: g.boolExpr(depth - 1)}
	}
}

// an expression that the checker must reject (or whose output is not bool)
func (g *gen) illTyped() *Expr {
	r := g.r
	sc := g.paramsOf(func(t PT) bool { return isScalar(t.K) })
	switch r.Intn(6) {
	case 0: // output type is not bool
		if len(sc) > 0 {
			p := pick(r, sc)
			if p.T.K != tBool {
				return &Expr{T: eParam, S: p.N}
			}
		}
		return g.literal(pick(r, []int{tString, tInt, tUint, tDouble}))
	case 1: // undeclared identifier
		return &Expr{T: eCmp, Op: 0, A: &Expr{T: eParam, S: "zz"}, Bx: g.literal(tInt)}
	case 2: // operands of different types
		ks := []int{tBool, tString, tInt, tUint, tDouble}
		k1 := pick(r, ks)
		k2 := pick(r, ks)
		for k2 == k1 {
			k2 = pick(r, ks)
		}
		return &Expr{T: eCmp, Op: r.Intn(6), A: g.operand(k1, true), Bx: g.literal(k2)}
	case 3: // a non-bool operand of && / ||
		return &Expr{T: pick(r, []int{eAnd, eOr}), A: g.boolExpr(1), Bx: g.literal(pick(r, []int{tString, tInt}))}
	case 4: // negation of a non-bool
		return &Expr{T: eNot, A: g.literal(pick(r, []int{tString, tInt, tDouble}))}
	default: // membership with the wrong element type
		lit := &Expr{T: eListLit, L: []*Expr{g.literal(tString), g.literal(tString)}}
		return &Expr{T: eIn, A: g.literal(pick(r, []int{tInt, tUint, tBool})), Bx: lit}
	}
}

func genCond(r *rec.Rand) *Cond {
	c := &Cond{Name: pick(r, condNames), Mode: r.Intn(2)}
	np := r.Range(1, 4)
	if r.Chance(1, 40) {
		np = 0
	}
	nonDSL := r.Chance(1, 6)
	names := append([]string(nil), paramNames...)
	rec.Shuffle(r, names)
	names = names[:np]
	sort.Strings(names)
	for _, n := range names {
		c.Params = append(c.Params, Param{N: n, T: genType(r, nonDSL)})
	}
	if np > 0 && r.Chance(9, 10) { // make sure the expression has a fragment parameter to talk about
		usable := false
		for _, p := range c.Params {
			if isScalar(p.T.K) || (p.T.K == tMap && isScalar(p.T.E.K)) {
				usable = true
			}
		}
		if !usable {
			c.Params[r.Intn(np)].T = PT{K: pick(r, []int{tBool, tString, tInt, tUint, tDouble})}
		}
	}
	g := &gen{r: r, ps: c.Params}
	c.Via = "proto"
	switch {
	case r.Chance(1, 14):
		c.Expr = g.illTyped()
		c.Via = "bad"
	case r.Chance(1, 50) && np > 0:
		c.Params[r.Intn(np)].T = PT{K: tBad}
		c.Expr = g.boolExpr(1)
		c.Via = "bad"
	default:
		c.Expr = g.boolExpr(r.Range(0, 3))
	}
	if c.Via != "bad" && c.dslOK() && r.Chance(4, 5) {
		c.Via = "dsl"
	}
	c.Cel = c.Expr.cel()
	return c
}

// the (request, stored) pairs for one condition
func genContexts(r *rec.Rand, c *Cond, n int) []*Case {
	var out []*Case
	curHints = hints{}
	c.Expr.collect(curHints)
	defer func() { curHints = nil }()
	for i := 0; i < n; i++ {
		cs := &Case{Kind: 1, Cond: c, TName: c.Name, EC: true, Req: Ctx{}, Stored: Ctx{}}
		// the first half: complete and valid contexts with varying values (so that the expression
		// is exercised); then adversarial ones
		adversarial := i >= (n*4+6)/7
		for _, p := range c.Params {
			where := r.Intn(4) // 0 request, 1 stored, 2 both (agree), 3 both (conflict)
			v := genValid(r, p.T, false)
			if adversarial {
				switch x := r.Intn(20); {
				case x < 3: // omitted
					continue
				case x < 6: // mistyped
					v = genMistyped(r, p.T)
				case x < 12: // numeric / string edge cases, overflow
					v = genValid(r, p.T, true)
				}
			}
			switch where {
			case 0:
				cs.Req[p.N] = v
			case 1:
				cs.Stored[p.N] = v
			case 2:
				cs.Req[p.N] = v
				cs.Stored[p.N] = v
			default:
				other := genValid(r, p.T, adversarial && r.Chance(1, 3))
				if adversarial && r.Chance(1, 4) {
					other = genMistyped(r, p.T)
				}
				if r.Bool() {
					cs.Req[p.N], cs.Stored[p.N] = v, other
				} else {
					cs.Req[p.N], cs.Stored[p.N] = other, v
				}
			}
		}
		if adversarial {
			if r.Chance(1, 6) { // keys that are not parameters
				if r.Bool() {
					cs.Req["zz"] = genAny(r, 1)
				} else {
					cs.Stored["zq"] = genAny(r, 1)
				}
			}
			if r.Chance(1, 12) {
				cs.Req = Ctx{}
			}
			if r.Chance(1, 12) {
				cs.Stored = Ctx{}
			}
			switch r.Intn(40) {
			case 0:
				cs.TName = ""
				cs.CondNil = r.Bool()
				f := false
				cs.NT = &f
			case 1:
				cs.TName = pick(r, []string{"other", c.Name + "x", strings.ToUpper(c.Name), "c"})
			case 2:
				cs.EC = false
			}
		}
		if len(cs.Req) == 0 && r.Bool() {
			cs.ReqNil = true
		}
		if len(cs.Stored) == 0 && r.Bool() && !cs.CondNil {
			cs.StNil = true
		}
		out = append(out, cs)
	}
	return out
}

func genConvertCase(r *rec.Rand) *Case {
	t := genType(r, true)
	if r.Chance(1, 60) {
		t = PT{K: tBad}
	}
	var v Val
	switch x := r.Intn(10); {
	case x < 6:
		v = genValid(r, t, true)
	case x < 8:
		v = genValid(r, t, false)
	default:
		v = genMistyped(r, t)
	}
	return &Case{Kind: 2, Type: &t, Value: &v}
}

// the witnesses of finding F8 (DESIGN.md section 8; repaired) and of the fraction rounding, always run first
func fixedCases() []*Case {
	var out []*Case
	ci := &Cond{Name: "ci", Params: []Param{{N: "y", T: PT{K: tInt}}}, Via: "dsl",
		Expr: &Expr{T: eCmp, Op: 0, A: &Expr{T: eParam, S: "y"}, Bx: &Expr{T: eInt, I: "9223372036854775807"}}}
	cu := &Cond{Name: "cu", Params: []Param{{N: "x", T: PT{K: tUint}}}, Via: "dsl", Mode: 1,
		Expr: &Expr{T: eCmp, Op: 0, A: &Expr{T: eParam, S: "x"}, Bx: &Expr{T: eUint, I: "9223372036854775807"}}}
	c1 := &Cond{Name: "c1", Params: []Param{{N: "y", T: PT{K: tInt}}}, Via: "dsl",
		Expr: &Expr{T: eCmp, Op: 0, A: &Expr{T: eParam, S: "y"}, Bx: &Expr{T: eInt, I: "1"}}}
	// the witnesses of F8 (repaired by fd0d452): beyond int64 => type error; for uint the values
	// up to 2^64-1 are themselves (so != MaxInt64: not met), beyond => type error
	exp := func(i int) *int { return &i }
	cmax := &Cond{Name: "cm", Params: []Param{{N: "x", T: PT{K: tUint}}}, Via: "dsl",
		Expr: &Expr{T: eCmp, Op: 0, A: &Expr{T: eParam, S: "x"}, Bx: &Expr{T: eUint, I: "18446744073709551615"}}}
	for _, wv := range []struct {
		v    Val
		uint int
	}{{num(1e19), 1}, {str("10000000000000000000"), 1}, {num(1.8e19), 1}, {num(3e19), 3}, {str("9223372036854775808"), 1},
		{str("18446744073709551616"), 3}, {num(-1e19), 3}} {
		v := wv.v
		out = append(out, &Case{Kind: 1, Cond: ci, TName: "ci", EC: true, Req: Ctx{"y": v}, Stored: Ctx{}, Expect: exp(3)})
		out = append(out, &Case{Kind: 1, Cond: cu, TName: "cu", EC: true, Req: Ctx{"x": v}, Stored: Ctx{}, Expect: exp(wv.uint)})
		out = append(out, &Case{Kind: 1, Cond: cu, TName: "cu", EC: true, Req: Ctx{"x": num(1)}, Stored: Ctx{"x": v}, Expect: exp(wv.uint)})
	}
	out = append(out, &Case{Kind: 1, Cond: cmax, TName: "cm", EC: true, Req: Ctx{"x": str("18446744073709551615")}, Stored: Ctx{}, Expect: exp(0)})
	out = append(out, &Case{Kind: 1, Cond: cmax, TName: "cm", EC: true, Req: Ctx{}, Stored: Ctx{"x": str("18446744073709551615")}, Expect: exp(0)})
	out = append(out, &Case{Kind: 1, Cond: cu, TName: "cu", EC: true, Req: Ctx{"x": str("9223372036854775807")}, Stored: Ctx{}, Expect: exp(0)})
	out = append(out, &Case{Kind: 1, Cond: ci, TName: "ci", EC: true, Req: Ctx{"y": str("9223372036854775807")}, Stored: Ctx{}, Expect: exp(0)})
	out = append(out, &Case{Kind: 1, Cond: c1, TName: "c1", EC: true, Req: Ctx{"y": str("1.00000000000000000000000001")}, Stored: Ctx{}})
	out = append(out, &Case{Kind: 1, Cond: c1, TName: "c1", EC: true, Req: Ctx{"y": num(1)}, Stored: Ctx{}})
	out = append(out, &Case{Kind: 1, Cond: c1, TName: "c1", EC: true, Req: Ctx{"y": num(1)}, Stored: Ctx{"y": num(2)}})
	out = append(out, &Case{Kind: 1, Cond: c1, TName: "c1", EC: true, Req: Ctx{"y": num(2)}, Stored: Ctx{"y": num(1)}})
	out = append(out, &Case{Kind: 1, Cond: c1, TName: "c1", EC: true, Req: Ctx{}, Stored: Ctx{}})
	ti, tu := PT{K: tInt}, PT{K: tUint}
	for _, s := range numStrings {
		v1, v2 := str(s), str(s)
		out = append(out, &Case{Kind: 2, Type: &ti, Value: &v1}, &Case{Kind: 2, Type: &tu, Value: &v2})
		td := PT{K: tDouble}
		v3 := str(s)
		out = append(out, &Case{Kind: 2, Type: &td, Value: &v3})
	}
	for _, f := range numPool {
		v1, v2 := num(f), num(f)
		out = append(out, &Case{Kind: 2, Type: &ti, Value: &v1}, &Case{Kind: 2, Type: &tu, Value: &v2})
	}
	return out
}

// ---------------------------------------------------------------------------------------------

func main() {
	o := rec.ParseFlags()
	w := rec.NewWriter(o.Out)
	defer w.Close()
	run := &runner{w: w, cache: map[*Cond]*compiled{}}

	if o.Replay != "" {
		f, err := os.Open(o.Replay)
		if err != nil {
			panic(err)
		}
		defer f.Close()
		sc := bufio.NewScanner(f)
		sc.Buffer(make([]byte, 1<<20), 1<<26)
		for sc.Scan() {
			var c Case
			if err := json.Unmarshal(sc.Bytes(), &c); err != nil || c.Kind == 0 {
				continue
			}
			run.run(&c)
			w.Stat("replayed", 1)
		}
		return
	}

	// observation (not part of the property): Compile reports its error only on the first call
	// (sync.Once); a second Evaluate on the same object dereferences the nil CEL environment
	func() {
		defer func() {
			if recover() != nil {
				w.Stat("obs_second_evaluate_after_compile_error_panics", 1)
			}
		}()
		ec := condition.NewUncompiled(&openfgav1.Condition{Name: "bad", Expression: "1 +", Parameters: map[string]*openfgav1.ConditionParamTypeRef{}})
		_, err1 := ec.Evaluate(context.Background(), map[string]*structpb.Value{})
		if err1 != nil {
			w.Stat("obs_first_evaluate_reports_compile_error", 1)
		}
		_, err2 := ec.Evaluate(context.Background(), map[string]*structpb.Value{})
		if err2 != nil {
			w.Stat("obs_second_evaluate_reports_error", 1)
		}
	}()

	r := rec.NewRand(o.Seed)
	for _, c := range fixedCases() {
		run.run(c)
		w.Stat("fixed_cases", 1)
	}
	clsNames := []string{"met", "not_met", "err_notfound", "err_type", "err_missing", "err_runtime", "err_compile", "panic", "err_other"}
	// o.N = number of evaluation cases; one condition gets perCond contexts; as many direct converter cases
	perCond := 14
	if o.Tier == "thorough" {
		perCond = 21
	}
	for done := 0; done < o.N; {
		cr := r.Fork()
		c := genCond(cr)
		w.Stat("conditions", 1)
		w.Stat("cond_via_"+c.Via, 1)
		w.Stat(fmt.Sprintf("cond_params_%d", len(c.Params)), 1)
		n := perCond
		if c.Via == "bad" {
			n = 2
		}
		seen := map[int]int{}
		for _, cs := range genContexts(cr, c, n) {
			cls := run.run(cs)
			done++
			if cls >= 0 && cls < len(clsNames) {
				w.Stat("eval_"+clsNames[cls], 1)
				seen[cls]++
			}
			switch {
			case cs.TName == "":
				w.Stat("ctx_no_condition", 1)
			case !cs.EC || cs.TName != c.Name:
				w.Stat("ctx_unknown_condition", 1)
			}
			both, conflict := 0, 0
			for k, v := range cs.Req {
				if sv, ok := cs.Stored[k]; ok {
					both++
					a, _ := json.Marshal(v)
					b, _ := json.Marshal(sv)
					if string(a) != string(b) {
						conflict++
					}
				}
			}
			if both > 0 {
				w.Stat("ctx_param_in_both", 1)
			}
			if conflict > 0 {
				w.Stat("ctx_conflicting", 1)
			}
		}
		if c.Via != "bad" {
			// is the expression constant over its test contexts?
			w.Stat("expr_total", 1)
			if seen[0] == 0 || seen[1] == 0 {
				w.Stat("expr_constant_over_its_contexts", 1)
			}
			if seen[0]+seen[1] == 0 {
				w.Stat("expr_never_evaluated", 1)
			}
		}
		delete(run.cache, c)
		for i := 0; i < n; i++ {
			run.run(genConvertCase(r))
			w.Stat("convert_cases", 1)
		}
	}
}
