//go:build verif

// gen_c26 reads the access-control source of /repo with go/ast and writes
// coq/Generated/C26Tables.v:
//
//   - gen_api_methods: the constants of internal/utils/apimethod (identifier, string value);
//   - gen_relations: the `CanCall*` constants of internal/authz/authz.go (identifier, string value);
//   - gen_relation_table: the switch of (*Authorizer).getRelation, clause by clause (a method that
//     no clause mentions falls into `default`, which must return an error => None);
//   - gen_max_modules: the constant MaxModulesInRequest;
//     (plain data, no inductive types: the file compiles whatever the source looks like, and the
//     model Sec/Authz.v does not depend on it; Sec/AuthzProofs.v compares the two)
//   - c26_handlers: every RPC handler method of *Server in pkg/server/*.go (exported, one
//     parameter whose type is `*pkg.XxxRequest`), whether its body reads `req.GetStoreId()`,
//     and the ordered list of its interesting calls:
//     CValidate            x.Validate()
//     CAuthz m store g     s.checkAuthz(ctx, <store>, apimethod.m)
//     CWriteAuthz g        s.checkWriteAuthz(...)
//     CCreateStoreAuthz g  s.checkCreateStoreAuthz(ctx)
//     CAccessibleStores g  s.getAccessibleStores(ctx)
//     CResolveModel        s.resolveTypesystem(...)            (reads the store's model)
//     CData what           a call that receives / is made on a data handle (s.datastore, the
//     model-graph resolver, the shared datastore resources, a value built from them)
//     CDelegate h g        s.<other RPC handler>(...)
//     CUnknown what        anything on the server value that this tool does not recognise
//     `g` (guarded) is true when the call is a statement of the handler's top-level block of the
//     form `.., err := call` / `err = call` that is immediately followed by
//     `if err != nil { return ..., err }`.  Non-handler methods of *Server are inlined at their
//     call site (calls inside an inlined body are never `guarded`).
//   - c26_authz_helpers: for checkAuthz / checkWriteAuthz / checkCreateStoreAuthz /
//     getAccessibleStores the ordered calls made on s.authorizer and whether the body starts with
//     the SkipAuthzCheckFromContext short-cut;
//   - c26_list_stores_empty_guard: ListStores answers an empty non-nil accessible list itself,
//     before the query is built;
//   - c26_unknown: shapes of authz.go that were not recognised (must be empty).
//
// Fail closed: every unrecognised shape becomes a CUnknown / c26_unknown entry, which makes the
// theorems of Props/C26.v fail.
package main

import (
	"bytes"
	"flag"
	"fmt"
	"go/ast"
	"go/parser"
	"go/printer"
	"go/token"
	"os"
	"path/filepath"
	"sort"
	"strconv"
	"strings"
)

func fail(format string, a ...any) {
	fmt.Fprintf(os.Stderr, "gen_c26: "+format+"\n", a...)
	os.Exit(1)
}

func coqStr(s string) string { return "\"" + strings.ReplaceAll(s, "\"", "\"\"") + "\"" }

func coqBytes(s string) string {
	parts := make([]string, len(s))
	for i := 0; i < len(s); i++ {
		parts[i] = strconv.Itoa(int(s[i]))
	}
	return "[" + strings.Join(parts, "; ") + "]"
}

var fset = token.NewFileSet()

func src(n ast.Node) string {
	var b bytes.Buffer
	if err := printer.Fprint(&b, fset, n); err != nil {
		return "?"
	}
	return strings.Join(strings.Fields(b.String()), " ")
}

func parseFile(p string) *ast.File {
	f, err := parser.ParseFile(fset, p, nil, parser.SkipObjectResolution)
	if err != nil {
		fail("parse %s: %v", p, err)
	}
	return f
}

type kv struct{ name, val string }

// string constants `Name [Type] = "lit"` of a file, in source order.
func stringConsts(f *ast.File) []kv {
	var out []kv
	for _, d := range f.Decls {
		gd, ok := d.(*ast.GenDecl)
		if !ok || gd.Tok != token.CONST {
			continue
		}
		for _, sp := range gd.Specs {
			vs := sp.(*ast.ValueSpec)
			for i, n := range vs.Names {
				if i < len(vs.Values) {
					if bl, ok := vs.Values[i].(*ast.BasicLit); ok && bl.Kind == token.STRING {
						s, err := strconv.Unquote(bl.Value)
						if err == nil {
							out = append(out, kv{n.Name, s})
						}
					}
				}
			}
		}
	}
	return out
}

func intConst(f *ast.File, name string) (int, bool) {
	for _, d := range f.Decls {
		gd, ok := d.(*ast.GenDecl)
		if !ok || gd.Tok != token.CONST {
			continue
		}
		for _, sp := range gd.Specs {
			vs := sp.(*ast.ValueSpec)
			for i, n := range vs.Names {
				if n.Name == name && i < len(vs.Values) {
					if bl, ok := vs.Values[i].(*ast.BasicLit); ok && bl.Kind == token.INT {
						v, err := strconv.Atoi(bl.Value)
						return v, err == nil
					}
				}
			}
		}
	}
	return 0, false
}

// ---------------------------------------------------------------------------------------------
// handler walk

type call struct {
	kind    string // Validate Authz WriteAuthz CreateStoreAuthz AccessibleStores ResolveModel Data Delegate Unknown
	a, b    string
	guarded bool
}

type walker struct {
	methods  map[string]*ast.FuncDecl // all methods of *Server
	handlers map[string]bool
	recv     string
	tainted  map[string]bool
	stack    []string
	calls    []call
	guardOf  map[*ast.CallExpr]bool
	inlined  bool
	// locals of the handler that are assigned exactly once, by `v := <expr>`: name -> source of expr
	storeVars map[string]string
}

// singleAssign returns the locals of a function body that are defined by one `v := expr`
// statement and never assigned again.
func singleAssign(body *ast.BlockStmt) map[string]string {
	defs := map[string]string{}
	count := map[string]int{}
	ast.Inspect(body, func(n ast.Node) bool {
		switch x := n.(type) {
		case *ast.AssignStmt:
			for i, l := range x.Lhs {
				id, ok := l.(*ast.Ident)
				if !ok {
					continue
				}
				count[id.Name]++
				if x.Tok == token.DEFINE && len(x.Lhs) == len(x.Rhs) {
					defs[id.Name] = src(x.Rhs[i])
				}
			}
		case *ast.IncDecStmt:
			if id, ok := x.X.(*ast.Ident); ok {
				count[id.Name] += 2
			}
		case *ast.UnaryExpr:
			if x.Op == token.AND {
				if id, ok := x.X.(*ast.Ident); ok {
					count[id.Name] += 2
				}
			}
		}
		return true
	})
	out := map[string]string{}
	for k, v := range defs {
		if count[k] == 1 {
			out[k] = v
		}
	}
	return out
}

// fields of Server through which stored data can be reached
var dataFields = map[string]bool{
	"datastore": true, "typesystemResolver": true, "authzModelGraphResolver": true,
	"shadowAuthzModelGraphResolver": true, "sharedDatastoreResources": true,
}

// fields of Server that are configuration / plumbing: method calls on them touch no stored data
var benignFields = map[string]bool{
	"logger": true, "transport": true, "featureFlagClient": true, "cacheSettings": true,
	"encoder": true, "tokenSerializer": true, "listObjectsPipelineConfig": true,
	"singleflightGroup": true,
}

// root identifier and field path of a selector chain  s.a.b.c  -> ("s", ["a","b","c"])
func chain(e ast.Expr) (string, []string) {
	var path []string
	for {
		switch x := e.(type) {
		case *ast.SelectorExpr:
			path = append([]string{x.Sel.Name}, path...)
			e = x.X
		case *ast.Ident:
			return x.Name, path
		case *ast.CallExpr:
			// a method call on the result of another call: f(...).g is not a member of the root
			return "", path
		case *ast.ParenExpr:
			e = x.X
		case *ast.StarExpr:
			e = x.X
		case *ast.IndexExpr:
			e = x.X
		case *ast.TypeAssertExpr:
			e = x.X
		default:
			return "", path
		}
	}
}

// does the expression mention a data handle (s.<dataField>...) or a tainted local?
func (w *walker) mentionsData(e ast.Expr) bool {
	found := false
	ast.Inspect(e, func(n ast.Node) bool {
		if found {
			return false
		}
		switch x := n.(type) {
		case *ast.FuncLit:
			return false
		case *ast.SelectorExpr:
			root, path := chain(x)
			if root == w.recv && len(path) > 0 && dataFields[path[0]] {
				found = true
				return false
			}
		case *ast.Ident:
			if w.tainted[x.Name] {
				found = true
				return false
			}
		}
		return true
	})
	return found
}

func (w *walker) emit(c call) { w.calls = append(w.calls, c) }

func (w *walker) classify(c *ast.CallExpr) {
	guarded := w.guardOf[c] && !w.inlined
	sel, isSel := c.Fun.(*ast.SelectorExpr)
	if isSel {
		root, path := chain(sel)
		if root == w.recv && len(path) == 1 {
			name := path[0]
			switch name {
			case "checkAuthz":
				m, store := "?", "?"
				if len(c.Args) >= 3 {
					store = src(c.Args[1])
					if s2, ok := c.Args[2].(*ast.SelectorExpr); ok {
						if id, ok := s2.X.(*ast.Ident); ok && id.Name == "apimethod" {
							m = s2.Sel.Name
						}
					}
				}
				if id, ok := c.Args[1].(*ast.Ident); ok && len(c.Args) >= 3 {
					if def, ok := w.storeVars[id.Name]; ok {
						store = def
					}
				}
				if m == "?" || len(c.Args) != 3 {
					w.emit(call{kind: "Unknown", a: "checkAuthz with unrecognised arguments: " + src(c)})
					return
				}
				w.emit(call{kind: "Authz", a: m, b: store, guarded: guarded})
			case "checkWriteAuthz":
				w.emit(call{kind: "WriteAuthz", guarded: guarded})
			case "checkCreateStoreAuthz":
				w.emit(call{kind: "CreateStoreAuthz", guarded: guarded})
			case "getAccessibleStores":
				w.emit(call{kind: "AccessibleStores", guarded: guarded})
			case "resolveTypesystem":
				w.emit(call{kind: "ResolveModel"})
			default:
				if w.handlers[name] {
					w.emit(call{kind: "Delegate", a: name, guarded: guarded})
					return
				}
				if fd, ok := w.methods[name]; ok {
					// parameters that receive a data handle are data handles inside the helper
					var params []string
					for _, p := range fd.Type.Params.List {
						for _, n := range p.Names {
							params = append(params, n.Name)
						}
					}
					handles := map[string]bool{}
					for i, a := range c.Args {
						if i < len(params) && w.mentionsData(a) {
							handles[params[i]] = true
						}
					}
					w.inline(name, fd, handles)
					return
				}
				w.emit(call{kind: "Unknown", a: "call of unknown server member " + src(c.Fun)})
			}
			return
		}
		if root == w.recv && len(path) >= 2 {
			switch {
			case dataFields[path[0]]:
				w.emit(call{kind: "Data", a: src(c.Fun)})
			case path[0] == "authorizer" && path[1] == "AccessControlStoreID":
			case benignFields[path[0]]:
			default:
				w.emit(call{kind: "Unknown", a: "call through unreviewed server field " + src(c.Fun)})
			}
			return
		}
		if len(path) >= 1 && path[len(path)-1] == "Validate" && len(c.Args) == 0 {
			w.emit(call{kind: "Validate"})
			return
		}
		// a method call on a tainted value (q.Execute, checker.Execute, ...)
		if w.tainted[root] {
			w.emit(call{kind: "Data", a: src(c.Fun)})
			return
		}
	}
	// any call that receives a data handle is a command / query constructor or a data access
	for _, a := range c.Args {
		if _, isFn := a.(*ast.FuncLit); isFn {
			continue
		}
		if w.mentionsData(a) {
			w.emit(call{kind: "Data", a: src(c.Fun)})
			return
		}
	}
}

func (w *walker) inline(name string, fd *ast.FuncDecl, handles map[string]bool) {
	for _, s := range w.stack {
		if s == name {
			w.emit(call{kind: "Unknown", a: "recursive helper " + name})
			return
		}
	}
	if len(w.stack) > 6 {
		w.emit(call{kind: "Unknown", a: "helper nesting too deep at " + name})
		return
	}
	// a helper has its own receiver name and its own locals
	saveRecv, saveTaint, saveInl := w.recv, w.tainted, w.inlined
	w.recv = recvName(fd)
	w.tainted = handles
	w.inlined = true
	w.stack = append(w.stack, name)
	w.block(fd.Body)
	w.stack = w.stack[:len(w.stack)-1]
	w.recv, w.tainted, w.inlined = saveRecv, saveTaint, saveInl
}

// expression walk in evaluation order: operands / arguments first, then the call itself
func (w *walker) expr(e ast.Node) {
	if e == nil {
		return
	}
	switch x := e.(type) {
	case *ast.CallExpr:
		if sel, ok := x.Fun.(*ast.SelectorExpr); ok {
			w.expr(sel.X)
		} else {
			w.expr(x.Fun)
		}
		for _, a := range x.Args {
			w.expr(a)
		}
		w.classify(x)
	case *ast.FuncLit:
		w.block(x.Body)
	default:
		// generic traversal of the children, keeping source order
		ast.Inspect(e, func(n ast.Node) bool {
			if n == nil || n == e {
				return true
			}
			switch n.(type) {
			case *ast.CallExpr, *ast.FuncLit:
				w.expr(n)
				return false
			case ast.Stmt:
				w.stmt(n.(ast.Stmt))
				return false
			}
			return true
		})
	}
}

func (w *walker) taintLHS(lhs []ast.Expr, rhs []ast.Expr) {
	// a local becomes a data handle when it is built by a call that receives a data handle
	// (a command / query constructor, an option carrying the datastore) or aliases one; the
	// *result* of a method call on a handle (q.Execute) is a response, not a handle
	data := false
	for _, r := range rhs {
		if c, ok := r.(*ast.CallExpr); ok {
			if sel, ok := c.Fun.(*ast.SelectorExpr); ok {
				if root, path := chain(sel); root == w.recv && len(path) == 1 {
					continue // result of a server helper / handler: a response
				}
			}
			for _, a := range c.Args {
				if _, isFn := a.(*ast.FuncLit); !isFn && w.mentionsData(a) {
					data = true
				}
			}
			continue
		}
		if w.mentionsData(r) {
			data = true
		}
	}
	if !data {
		return
	}
	for _, l := range lhs {
		if id, ok := l.(*ast.Ident); ok && id.Name != "_" && id.Name != "err" {
			w.tainted[id.Name] = true
		}
	}
}

func (w *walker) stmt(s ast.Stmt) {
	switch x := s.(type) {
	case *ast.AssignStmt:
		for _, r := range x.Rhs {
			w.expr(r)
		}
		w.taintLHS(x.Lhs, x.Rhs)
	case *ast.DeclStmt:
		if gd, ok := x.Decl.(*ast.GenDecl); ok {
			for _, sp := range gd.Specs {
				if vs, ok := sp.(*ast.ValueSpec); ok {
					for _, v := range vs.Values {
						w.expr(v)
					}
					lhs := make([]ast.Expr, len(vs.Names))
					for i, n := range vs.Names {
						lhs[i] = n
					}
					w.taintLHS(lhs, vs.Values)
				}
			}
		}
	case *ast.BlockStmt:
		w.block(x)
	default:
		w.expr(s)
	}
}

func (w *walker) block(b *ast.BlockStmt) {
	if b == nil {
		return
	}
	for _, s := range b.List {
		w.stmt(s)
	}
}

// the guarded calls of a handler body: top-level `.., err (:=|=) call` followed by
// `if err != nil { return ..., err }`
func guardedCalls(body *ast.BlockStmt) map[*ast.CallExpr]bool {
	out := map[*ast.CallExpr]bool{}
	for i, s := range body.List {
		as, ok := s.(*ast.AssignStmt)
		if !ok || len(as.Rhs) != 1 || len(as.Lhs) == 0 {
			continue
		}
		c, ok := as.Rhs[0].(*ast.CallExpr)
		if !ok {
			continue
		}
		last, ok := as.Lhs[len(as.Lhs)-1].(*ast.Ident)
		if !ok || last.Name != "err" || i+1 >= len(body.List) {
			continue
		}
		ifs, ok := body.List[i+1].(*ast.IfStmt)
		if !ok || ifs.Init != nil || ifs.Else != nil {
			continue
		}
		be, ok := ifs.Cond.(*ast.BinaryExpr)
		if !ok || be.Op != token.NEQ {
			continue
		}
		l, lok := be.X.(*ast.Ident)
		r, rok := be.Y.(*ast.Ident)
		if !lok || !rok || l.Name != "err" || r.Name != "nil" {
			continue
		}
		if len(ifs.Body.List) != 1 {
			continue
		}
		ret, ok := ifs.Body.List[0].(*ast.ReturnStmt)
		if !ok || len(ret.Results) == 0 {
			continue
		}
		lr, ok := ret.Results[len(ret.Results)-1].(*ast.Ident)
		if !ok || lr.Name != "err" {
			continue
		}
		out[c] = true
	}
	return out
}

func recvName(fd *ast.FuncDecl) string {
	if fd.Recv == nil || len(fd.Recv.List) != 1 || len(fd.Recv.List[0].Names) != 1 {
		return ""
	}
	return fd.Recv.List[0].Names[0].Name
}

func isServerMethod(fd *ast.FuncDecl) bool {
	if fd.Recv == nil || len(fd.Recv.List) != 1 {
		return false
	}
	st, ok := fd.Recv.List[0].Type.(*ast.StarExpr)
	if !ok {
		return false
	}
	id, ok := st.X.(*ast.Ident)
	return ok && id.Name == "Server"
}

// the name of the request parameter when fd is an RPC handler, "" otherwise
func requestParam(fd *ast.FuncDecl) string {
	if !fd.Name.IsExported() || fd.Type.Params == nil {
		return ""
	}
	for _, p := range fd.Type.Params.List {
		st, ok := p.Type.(*ast.StarExpr)
		if !ok {
			continue
		}
		sel, ok := st.X.(*ast.SelectorExpr)
		if !ok || !strings.HasSuffix(sel.Sel.Name, "Request") {
			continue
		}
		if len(p.Names) == 1 {
			return p.Names[0].Name
		}
	}
	return ""
}

func coqCall(c call) string {
	g := "false"
	if c.guarded {
		g = "true"
	}
	switch c.kind {
	case "Validate":
		return "CValidate"
	case "Authz":
		return fmt.Sprintf("CAuthz %s %s %s", coqStr(c.a), coqStr(c.b), g)
	case "WriteAuthz":
		return "CWriteAuthz " + g
	case "CreateStoreAuthz":
		return "CCreateStoreAuthz " + g
	case "AccessibleStores":
		return "CAccessibleStores " + g
	case "ResolveModel":
		return "CResolveModel"
	case "Data":
		return "CData " + coqStr(c.a)
	case "Delegate":
		return fmt.Sprintf("CDelegate %s %s", coqStr(c.a), g)
	}
	return "CUnknown " + coqStr(c.a)
}

func main() {
	repo := flag.String("repo", "/repo", "repository root")
	out := flag.String("out", "", "output directory (coq/Generated)")
	flag.Parse()
	if *out == "" {
		fail("-out is required")
	}
	var unknown []string

	// ---- API methods
	var methods []kv
	apiFiles, _ := filepath.Glob(filepath.Join(*repo, "internal/utils/apimethod/*.go"))
	sort.Strings(apiFiles)
	for _, p := range apiFiles {
		if strings.HasSuffix(p, "_test.go") {
			continue
		}
		f := parseFile(p)
		for _, d := range f.Decls {
			gd, ok := d.(*ast.GenDecl)
			if !ok || gd.Tok != token.CONST {
				continue
			}
			for _, sp := range gd.Specs {
				vs := sp.(*ast.ValueSpec)
				tid, ok := vs.Type.(*ast.Ident)
				if !ok || tid.Name != "APIMethod" {
					continue
				}
				for i, n := range vs.Names {
					if i >= len(vs.Values) {
						unknown = append(unknown, "apimethod constant without value: "+n.Name)
						continue
					}
					bl, ok := vs.Values[i].(*ast.BasicLit)
					if !ok || bl.Kind != token.STRING {
						unknown = append(unknown, "apimethod constant that is not a string literal: "+n.Name)
						continue
					}
					s, _ := strconv.Unquote(bl.Value)
					methods = append(methods, kv{n.Name, s})
				}
			}
		}
	}
	if len(methods) == 0 {
		fail("no APIMethod constants found")
	}

	// ---- authz.go: relations, max modules, the switch
	af := parseFile(filepath.Join(*repo, "internal/authz/authz.go"))
	var relations []kv
	consts := map[string]string{}
	for _, c := range stringConsts(af) {
		consts[c.name] = c.val
		if strings.HasPrefix(c.name, "CanCall") {
			relations = append(relations, c)
		}
	}
	maxModules, ok := intConst(af, "MaxModulesInRequest")
	if !ok {
		unknown = append(unknown, "MaxModulesInRequest is not an integer literal constant")
	}
	relOf := map[string]string{} // method const name -> relation const name
	defaultErr := false
	var getRelation *ast.FuncDecl
	authzFuncs := map[string]*ast.FuncDecl{}
	for _, d := range af.Decls {
		if fd, ok := d.(*ast.FuncDecl); ok && fd.Body != nil {
			if fd.Name.Name == "getRelation" {
				getRelation = fd
			}
			if fd.Recv != nil {
				if st, ok := fd.Recv.List[0].Type.(*ast.StarExpr); ok {
					if id, ok := st.X.(*ast.Ident); ok && id.Name == "Authorizer" {
						authzFuncs[fd.Name.Name] = fd
					}
				}
			} else {
				authzFuncs[fd.Name.Name] = fd
			}
		}
	}
	if getRelation == nil {
		unknown = append(unknown, "getRelation not found")
	} else {
		var sw *ast.SwitchStmt
		if len(getRelation.Body.List) == 1 {
			sw, _ = getRelation.Body.List[0].(*ast.SwitchStmt)
		}
		if sw == nil || sw.Init != nil {
			unknown = append(unknown, "getRelation is no longer a single switch statement")
		} else {
			if id, ok := sw.Tag.(*ast.Ident); !ok || id.Name != "apiMethod" {
				unknown = append(unknown, "getRelation switches on "+src(sw.Tag))
			}
			for _, cl := range sw.Body.List {
				cc := cl.(*ast.CaseClause)
				if len(cc.Body) != 1 {
					unknown = append(unknown, "getRelation clause with a body that is not one return: "+src(cc))
					continue
				}
				ret, ok := cc.Body[0].(*ast.ReturnStmt)
				if !ok || len(ret.Results) != 2 {
					unknown = append(unknown, "getRelation clause with a body that is not `return x, y`: "+src(cc))
					continue
				}
				if cc.List == nil { // default
					if bl, ok := ret.Results[0].(*ast.BasicLit); ok && bl.Value == `""` {
						if id, ok := ret.Results[1].(*ast.Ident); !ok || id.Name != "nil" {
							defaultErr = true
						}
					}
					if !defaultErr {
						unknown = append(unknown, "getRelation default clause does not return an error: "+src(ret))
					}
					continue
				}
				rid, ok := ret.Results[0].(*ast.Ident)
				nilid, ok2 := ret.Results[1].(*ast.Ident)
				if !ok || !ok2 || nilid.Name != "nil" || !strings.HasPrefix(rid.Name, "CanCall") {
					unknown = append(unknown, "getRelation clause does not return (CanCall*, nil): "+src(ret))
					continue
				}
				if _, known := consts[rid.Name]; !known {
					unknown = append(unknown, "getRelation returns an undeclared relation "+rid.Name)
					continue
				}
				for _, e := range cc.List {
					s2, ok := e.(*ast.SelectorExpr)
					pk, ok2 := (ast.Expr)(nil), false
					if ok {
						pk = s2.X
						_, ok2 = pk.(*ast.Ident)
					}
					if !ok || !ok2 || pk.(*ast.Ident).Name != "apimethod" {
						unknown = append(unknown, "getRelation case label is not apimethod.X: "+src(e))
						continue
					}
					if prev, dup := relOf[s2.Sel.Name]; dup {
						unknown = append(unknown, "getRelation mentions "+s2.Sel.Name+" twice ("+prev+")")
						continue
					}
					relOf[s2.Sel.Name] = rid.Name
				}
			}
			if !defaultErr {
				unknown = append(unknown, "getRelation has no default clause returning an error")
			}
		}
	}
	known := map[string]bool{}
	for _, m := range methods {
		known[m.name] = true
	}
	for m := range relOf {
		if !known[m] {
			unknown = append(unknown, "getRelation mentions an undeclared API method "+m)
		}
	}

	// the comparison that guards the module branch
	authorizeCmp := ""
	if fd := authzFuncs["Authorize"]; fd != nil {
		ast.Inspect(fd.Body, func(n ast.Node) bool {
			if be, ok := n.(*ast.BinaryExpr); ok {
				if strings.Contains(src(be), "MaxModulesInRequest") {
					authorizeCmp = src(be)
				}
			}
			return true
		})
	}
	if authorizeCmp != "len(modules) > MaxModulesInRequest" {
		unknown = append(unknown, "Authorize: module limit comparison is `"+authorizeCmp+"`")
	}

	// ---- server handlers
	srvFiles, _ := filepath.Glob(filepath.Join(*repo, "pkg/server/*.go"))
	sort.Strings(srvFiles)
	allMethods := map[string]*ast.FuncDecl{}
	fileOf := map[string]string{}
	var order []string
	for _, p := range srvFiles {
		if strings.HasSuffix(p, "_test.go") {
			continue
		}
		f := parseFile(p)
		for _, d := range f.Decls {
			fd, ok := d.(*ast.FuncDecl)
			if !ok || fd.Body == nil || !isServerMethod(fd) {
				continue
			}
			allMethods[fd.Name.Name] = fd
			fileOf[fd.Name.Name] = filepath.Base(p)
			order = append(order, fd.Name.Name)
		}
	}
	handlers := map[string]bool{}
	for _, n := range order {
		if requestParam(allMethods[n]) != "" {
			handlers[n] = true
		}
	}
	if len(handlers) == 0 {
		fail("no RPC handlers found in pkg/server")
	}

	type hrec struct {
		name, file string
		scoped     bool
		calls      []call
	}
	var hs []hrec
	for _, n := range order {
		if !handlers[n] {
			continue
		}
		fd := allMethods[n]
		req := requestParam(fd)
		scoped := false
		ast.Inspect(fd.Body, func(x ast.Node) bool {
			if c, ok := x.(*ast.CallExpr); ok {
				if sel, ok := c.Fun.(*ast.SelectorExpr); ok && sel.Sel.Name == "GetStoreId" {
					if id, ok := sel.X.(*ast.Ident); ok && id.Name == req {
						scoped = true
					}
				}
			}
			return true
		})
		w := &walker{methods: allMethods, handlers: handlers, recv: recvName(fd), tainted: map[string]bool{},
			guardOf: guardedCalls(fd.Body), storeVars: singleAssign(fd.Body)}
		w.stack = []string{n}
		w.block(fd.Body)
		hs = append(hs, hrec{n, fileOf[n], scoped, w.calls})
	}

	// ---- the four authz helpers of server.go
	type helper struct {
		name  string
		skip  bool
		calls []string
	}
	var helpers []helper
	for _, hn := range []string{"checkAuthz", "checkCreateStoreAuthz", "getAccessibleStores", "checkWriteAuthz"} {
		fd := allMethods[hn]
		if fd == nil {
			unknown = append(unknown, "server helper "+hn+" not found")
			continue
		}
		h := helper{name: hn}
		if len(fd.Body.List) > 0 {
			if ifs, ok := fd.Body.List[0].(*ast.IfStmt); ok && src(ifs.Cond) == "authclaims.SkipAuthzCheckFromContext(ctx)" {
				h.skip = true
			}
		}
		rn := recvName(fd)
		ast.Inspect(fd.Body, func(x ast.Node) bool {
			if c, ok := x.(*ast.CallExpr); ok {
				if sel, ok := c.Fun.(*ast.SelectorExpr); ok {
					root, path := chain(sel)
					if root == rn && len(path) == 2 && path[0] == "authorizer" {
						h.calls = append(h.calls, path[1])
					}
					if root == rn && len(path) == 1 && (path[0] == "checkAuthz") {
						h.calls = append(h.calls, "->checkAuthz")
					}
				}
			}
			return true
		})
		helpers = append(helpers, h)
	}

	// ---- ListStores: `if storeIDs != nil && len(storeIDs) == 0 { return <resp>, nil }` between the
	// getAccessibleStores statement and the first statement that mentions the datastore
	emptyGuard := false
	if fd := allMethods["ListStores"]; fd != nil {
		accIdx, guardIdx, dataIdx := -1, -1, -1
		accVar := ""
		rn := recvName(fd)
		for i, st := range fd.Body.List {
			if as, ok := st.(*ast.AssignStmt); ok && len(as.Rhs) == 1 && len(as.Lhs) == 2 {
				if c, ok := as.Rhs[0].(*ast.CallExpr); ok && src(c.Fun) == rn+".getAccessibleStores" && accIdx < 0 {
					if id, ok := as.Lhs[0].(*ast.Ident); ok {
						accIdx, accVar = i, id.Name
					}
					continue
				}
			}
			if ifs, ok := st.(*ast.IfStmt); ok && accVar != "" && guardIdx < 0 && ifs.Init == nil && ifs.Else == nil &&
				src(ifs.Cond) == accVar+" != nil && len("+accVar+") == 0" && len(ifs.Body.List) == 1 {
				if ret, ok := ifs.Body.List[0].(*ast.ReturnStmt); ok && len(ret.Results) == 2 {
					if id, ok := ret.Results[1].(*ast.Ident); ok && id.Name == "nil" && !strings.Contains(src(ret.Results[0]), rn+".datastore") {
						guardIdx = i
						continue
					}
				}
			}
			if dataIdx < 0 && strings.Contains(src(st), rn+".datastore") {
				dataIdx = i
			}
		}
		emptyGuard = accIdx >= 0 && guardIdx > accIdx && (dataIdx < 0 || guardIdx < dataIdx)
	}

	// ---- emit
	var b strings.Builder
	b.WriteString("(* GENERATED by harness/cmd/gen_c26 from the Go source of /repo on every bin/check run.\n   Do not edit: the file is overwritten. *)\n")
	b.WriteString("From Coq Require Import List String NArith.\nImport ListNotations.\nLocal Open Scope string_scope.\nLocal Open Scope N_scope.\n\n")

	b.WriteString("(* internal/utils/apimethod: (Go identifier, string value as bytes), in source order *)\nDefinition gen_api_methods : list (string * list N) :=\n  [")
	for i, m := range methods {
		if i > 0 {
			b.WriteString(";\n   ")
		}
		fmt.Fprintf(&b, "(%s, %s)", coqStr(m.name), coqBytes(m.val))
	}
	b.WriteString("].\n\n(* internal/authz/authz.go: the CanCall* constants (Go identifier, string value as bytes) *)\nDefinition gen_relations : list (string * list N) :=\n  [")
	for i, r := range relations {
		if i > 0 {
			b.WriteString(";\n   ")
		}
		fmt.Fprintf(&b, "(%s, %s)", coqStr(r.name), coqBytes(r.val))
	}
	b.WriteString("].\n\n(* Authorizer.getRelation: per API method (string value) the string value of the relation its\n   clause returns; None = no clause mentions the method, i.e. the default clause (error) *)\nDefinition gen_relation_table : list (list N * option (list N)) :=\n  [")
	for i, m := range methods {
		if i > 0 {
			b.WriteString(";\n   ")
		}
		if r, ok := relOf[m.name]; ok {
			fmt.Fprintf(&b, "(%s, Some %s)", coqBytes(m.val), coqBytes(consts[r]))
		} else {
			fmt.Fprintf(&b, "(%s, None)", coqBytes(m.val))
		}
	}
	b.WriteString("].\n\n")
	fmt.Fprintf(&b, "Definition gen_max_modules : N := %d.\n\n", maxModules)
	for _, k := range []string{"StoreType", "ModuleType", "ApplicationType", "SystemType", "SystemRelationOnStore", "RootSystemID"} {
		v, ok := consts[k]
		if !ok {
			unknown = append(unknown, "constant "+k+" not found in authz.go")
		}
		fmt.Fprintf(&b, "Definition const_%s : string := %s.\n", k, coqStr(v))
	}

	b.WriteString("\n(* pkg/server: RPC handlers of Server *)\nInductive c26_call :=\n| CValidate\n| CAuthz (method store_arg : string) (guarded : bool)\n| CWriteAuthz (guarded : bool)\n| CCreateStoreAuthz (guarded : bool)\n| CAccessibleStores (guarded : bool)\n| CResolveModel\n| CData (what : string)\n| CDelegate (handler : string) (guarded : bool)\n| CUnknown (what : string).\n\n")
	b.WriteString("Record c26_handler := mkC26Handler { h_name : string; h_file : string; h_store_scoped : bool; h_calls : list c26_call }.\n\n")
	b.WriteString("Definition c26_handlers : list c26_handler :=\n  [")
	for i, h := range hs {
		if i > 0 {
			b.WriteString(";\n   ")
		}
		sc := "false"
		if h.scoped {
			sc = "true"
		}
		fmt.Fprintf(&b, "mkC26Handler %s %s %s\n     [", coqStr(h.name), coqStr(h.file), sc)
		for j, c := range h.calls {
			if j > 0 {
				b.WriteString("; ")
			}
			b.WriteString(coqCall(c))
		}
		b.WriteString("]")
	}
	b.WriteString("].\n\n")

	b.WriteString("(* server.go: the helpers between the handlers and the authorizer:\n   (name, starts with the SkipAuthzCheckFromContext short-cut, calls on s.authorizer in order) *)\n")
	b.WriteString("Definition c26_authz_helpers : list (string * bool * list string) :=\n  [")
	for i, h := range helpers {
		if i > 0 {
			b.WriteString(";\n   ")
		}
		sk := "false"
		if h.skip {
			sk = "true"
		}
		cs := make([]string, len(h.calls))
		for j, c := range h.calls {
			cs[j] = coqStr(c)
		}
		fmt.Fprintf(&b, "(%s, %s, [%s])", coqStr(h.name), sk, strings.Join(cs, "; "))
	}
	b.WriteString("].\n\n")

	b.WriteString("(* stores.go ListStores: an empty non-nil accessible list is answered with an empty page before\n   the query is built (fix c075cf0) *)\n")
	fmt.Fprintf(&b, "Definition c26_list_stores_empty_guard : bool := %v.\n\n", emptyGuard)
	b.WriteString("(* shapes of authz.go / apimethod that this tool did not recognise *)\nDefinition c26_unknown : list string :=\n  [")
	for i, u := range unknown {
		if i > 0 {
			b.WriteString(";\n   ")
		}
		b.WriteString(coqStr(u))
	}
	b.WriteString("].\n")

	if err := os.MkdirAll(*out, 0o755); err != nil {
		fail("mkdir: %v", err)
	}
	target := filepath.Join(*out, "C26Tables.v")
	old, _ := os.ReadFile(target)
	if string(old) != b.String() {
		if err := os.WriteFile(target, []byte(b.String()), 0o644); err != nil {
			fail("write: %v", err)
		}
	}
	fmt.Printf("gen_c26: %d API methods, %d relations, %d handlers, %d unknown shapes\n", len(methods), len(relations), len(hs), len(unknown))
}
