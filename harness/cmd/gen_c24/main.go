//go:build verif

// gen_c24 reads the cache-key source of /repo with go/ast and writes coq/Generated/C24Tags.v:
//
//   - the tag constants of pkg/storage/cache/keys/build.go (iota block),
//   - the tag each Builder.Encode* method appends first,
//   - the named cache-key prefix constants,
//   - every function that calls keys.GetBuilder() ("site"), with the ordered list of the
//     builder calls it makes (method + argument: "=lit" for a string literal, "$Name" for a
//     package-level string constant, "@expr" otherwise),
//   - the field lists of the three iterator filter structs.
//
// Coq proves tags_pairwise_distinct / prefixes_pairwise_distinct over these constants by
// vm_compute and compares the site table and the field lists with the modelled ones.
package main

import (
	"flag"
	"fmt"
	"go/ast"
	"go/parser"
	"go/token"
	"go/types"
	"os"
	"path/filepath"
	"sort"
	"strconv"
	"strings"
)

var builderMethods = map[string]bool{
	"EncodeString": true, "EncodeUint64": true, "EncodeArray": true, "EncodeBytes": true,
	"EncodeByte": true, "EncodeBool": true, "EncodeNull": true, "EncodeUnset": true,
	"EncodeMap": true, "EncodePair": true, "Serialize": true, "EncodeArrayHeader": true,
	"EncodeMapHeader": true, "Write": true, "WriteByte": true, "WriteString": true, "Reset": true,
	"Sum64": true,
}

type site struct {
	name  string
	calls [][2]string
}

func fail(format string, a ...any) {
	fmt.Fprintf(os.Stderr, "gen_c24: "+format+"\n", a...)
	os.Exit(1)
}

func coqStr(s string) string {
	return "\"" + strings.ReplaceAll(s, "\"", "\"\"") + "\""
}

func coqBytes(s string) string {
	parts := make([]string, len(s))
	for i := 0; i < len(s); i++ {
		parts[i] = strconv.Itoa(int(s[i]))
	}
	return "[" + strings.Join(parts, "; ") + "]"
}

func isGetBuilder(c *ast.CallExpr) bool {
	sel, ok := c.Fun.(*ast.SelectorExpr)
	if !ok || sel.Sel.Name != "GetBuilder" {
		return false
	}
	id, ok := sel.X.(*ast.Ident)
	return ok && id.Name == "keys"
}

func main() {
	repo := flag.String("repo", "/repo", "repository root")
	out := flag.String("out", "", "output directory (coq/Generated)")
	flag.Parse()
	if *out == "" {
		fail("-out is required")
	}
	fset := token.NewFileSet()

	// ---- all non-test Go files
	var files []string
	err := filepath.Walk(*repo, func(p string, info os.FileInfo, err error) error {
		if err != nil {
			return nil
		}
		if info.IsDir() {
			b := info.Name()
			if b == ".git" || b == "vendor" || b == "node_modules" || b == "verifharness" || b == "testdata" {
				return filepath.SkipDir
			}
			return nil
		}
		if strings.HasSuffix(p, ".go") && !strings.HasSuffix(p, "_test.go") {
			files = append(files, p)
		}
		return nil
	})
	if err != nil {
		fail("walk: %v", err)
	}
	sort.Strings(files)

	parsed := map[string]*ast.File{}
	parse := func(p string) *ast.File {
		if f, ok := parsed[p]; ok {
			return f
		}
		f, err := parser.ParseFile(fset, p, nil, parser.SkipObjectResolution)
		if err != nil {
			fail("parse %s: %v", p, err)
		}
		parsed[p] = f
		return f
	}

	// ---- tag constants (iota block of build.go)
	buildGo := filepath.Join(*repo, "pkg/storage/cache/keys/build.go")
	bf := parse(buildGo)
	type tagc struct {
		name string
		val  int
	}
	var tags []tagc
	for _, d := range bf.Decls {
		gd, ok := d.(*ast.GenDecl)
		if !ok || gd.Tok != token.CONST {
			continue
		}
		isTagBlock := false
		for i, sp := range gd.Specs {
			vs := sp.(*ast.ValueSpec)
			if i == 0 {
				if len(vs.Names) == 1 && strings.HasPrefix(vs.Names[0].Name, "tag") && len(vs.Values) == 1 {
					if id, ok := vs.Values[0].(*ast.Ident); ok && id.Name == "iota" {
						isTagBlock = true
					}
				}
				if !isTagBlock {
					break
				}
			}
			if i > 0 && (len(vs.Values) != 0 || len(vs.Names) != 1) {
				fail("tag const block of build.go is no longer a plain iota block (spec %d)", i)
			}
			if !strings.HasPrefix(vs.Names[0].Name, "tag") {
				fail("unexpected name %s in the tag block", vs.Names[0].Name)
			}
			tags = append(tags, tagc{vs.Names[0].Name, i})
		}
	}
	if len(tags) == 0 {
		fail("no tag iota block found in %s", buildGo)
	}

	// ---- first tag appended by each Builder method
	type mt struct{ method, tags string }
	var methodTags []mt
	for _, d := range bf.Decls {
		fd, ok := d.(*ast.FuncDecl)
		if !ok || fd.Recv == nil || fd.Body == nil || !strings.HasPrefix(fd.Name.Name, "Encode") {
			continue
		}
		var seen []string
		ast.Inspect(fd.Body, func(n ast.Node) bool {
			if id, ok := n.(*ast.Ident); ok && strings.HasPrefix(id.Name, "tag") {
				seen = append(seen, id.Name)
			}
			return true
		})
		methodTags = append(methodTags, mt{fd.Name.Name, strings.Join(seen, ",")})
	}
	sort.Slice(methodTags, func(i, j int) bool { return methodTags[i].method < methodTags[j].method })

	// ---- package-level string constants, per directory
	strConsts := map[string]map[string]string{} // dir -> name -> value
	constsOf := func(dir string) map[string]string {
		if m, ok := strConsts[dir]; ok {
			return m
		}
		m := map[string]string{}
		for _, p := range files {
			if filepath.Dir(p) != dir {
				continue
			}
			f := parse(p)
			for _, d := range f.Decls {
				gd, ok := d.(*ast.GenDecl)
				if !ok || gd.Tok != token.CONST {
					continue
				}
				for _, sp := range gd.Specs {
					vs := sp.(*ast.ValueSpec)
					for i, nm := range vs.Names {
						if i < len(vs.Values) {
							if bl, ok := vs.Values[i].(*ast.BasicLit); ok && bl.Kind == token.STRING {
								if v, err := strconv.Unquote(bl.Value); err == nil {
									m[nm.Name] = v
								}
							}
						}
					}
				}
			}
		}
		strConsts[dir] = m
		return m
	}

	// ---- sites
	var sites []site
	usedConsts := map[string]string{}
	for _, p := range files {
		src, err := os.ReadFile(p)
		if err != nil || !strings.Contains(string(src), "keys.GetBuilder()") {
			continue
		}
		f := parse(p)
		rel, _ := filepath.Rel(*repo, p)
		consts := constsOf(filepath.Dir(p))
		storageConsts := constsOf(filepath.Join(*repo, "pkg/storage"))
		for _, d := range f.Decls {
			fd, ok := d.(*ast.FuncDecl)
			if !ok || fd.Body == nil {
				continue
			}
			var cur *site
			k := 0
			ast.Inspect(fd.Body, func(n ast.Node) bool {
				c, ok := n.(*ast.CallExpr)
				if !ok {
					return true
				}
				if isGetBuilder(c) {
					if cur != nil {
						sites = append(sites, *cur)
					}
					k++
					nm := rel + ":" + fd.Name.Name
					if k > 1 {
						nm += "#" + strconv.Itoa(k)
					}
					cur = &site{name: nm}
					return true
				}
				sel, ok := c.Fun.(*ast.SelectorExpr)
				if !ok || cur == nil || !builderMethods[sel.Sel.Name] {
					return true
				}
				arg := ""
				if len(c.Args) > 0 {
					a := c.Args[0]
					switch x := a.(type) {
					case *ast.BasicLit:
						if x.Kind == token.STRING {
							v, _ := strconv.Unquote(x.Value)
							arg = "=" + v
						} else {
							arg = "@" + x.Value
						}
					case *ast.Ident:
						if v, ok := consts[x.Name]; ok {
							arg = "$" + x.Name
							usedConsts[x.Name] = v
						} else {
							arg = "@" + x.Name
						}
					case *ast.SelectorExpr:
						if pk, ok := x.X.(*ast.Ident); ok && pk.Name == "storage" {
							if v, ok := storageConsts[x.Sel.Name]; ok {
								arg = "$" + x.Sel.Name
								usedConsts[x.Sel.Name] = v
								break
							}
						}
						arg = "@" + types.ExprString(a)
					default:
						arg = "@" + types.ExprString(a)
					}
				}
				cur.calls = append(cur.calls, [2]string{sel.Sel.Name, arg})
				return true
			})
			if cur != nil {
				sites = append(sites, *cur)
			}
		}
	}
	sort.Slice(sites, func(i, j int) bool { return sites[i].name < sites[j].name })
	if len(sites) == 0 {
		fail("no keys.GetBuilder() call site found")
	}

	// ---- filter structs
	sf := parse(filepath.Join(*repo, "pkg/storage/storage.go"))
	type fl struct {
		name   string
		fields []string
	}
	var filters []fl
	for _, want := range []string{"ReadFilter", "ReadStartingWithUserFilter", "ReadUsersetTuplesFilter"} {
		found := false
		for _, d := range sf.Decls {
			gd, ok := d.(*ast.GenDecl)
			if !ok || gd.Tok != token.TYPE {
				continue
			}
			for _, sp := range gd.Specs {
				ts := sp.(*ast.TypeSpec)
				st, ok := ts.Type.(*ast.StructType)
				if !ok || ts.Name.Name != want {
					continue
				}
				found = true
				var names []string
				for _, fld := range st.Fields.List {
					if len(fld.Names) == 0 {
						names = append(names, "<embedded "+types.ExprString(fld.Type)+">")
					}
					for _, nm := range fld.Names {
						names = append(names, nm.Name)
					}
				}
				filters = append(filters, fl{want, names})
			}
		}
		if !found {
			fail("struct %s not found in pkg/storage/storage.go", want)
		}
	}

	// ---- emit
	var b strings.Builder
	b.WriteString("(* GENERATED by harness/cmd/gen_c24 from the Go source of /repo on every bin/check run.\n   Do not edit: the file is overwritten. *)\n")
	b.WriteString("From Coq Require Import NArith List String.\nImport ListNotations.\nOpen Scope N_scope.\n\n")
	for _, t := range tags {
		fmt.Fprintf(&b, "Definition c24_%s : N := %d.\n", t.name, t.val)
	}
	b.WriteString("\nDefinition c24_tag_table : list (string * N) :=\n  [")
	for i, t := range tags {
		if i > 0 {
			b.WriteString(";\n   ")
		}
		fmt.Fprintf(&b, "(%s, c24_%s)", coqStr(t.name), t.name)
	}
	b.WriteString("]%string.\n\n")
	b.WriteString("Definition c24_method_tags : list (string * string) :=\n  [")
	for i, m := range methodTags {
		if i > 0 {
			b.WriteString(";\n   ")
		}
		fmt.Fprintf(&b, "(%s, %s)", coqStr(m.method), coqStr(m.tags))
	}
	b.WriteString("]%string.\n\n")
	var cn []string
	for k := range usedConsts {
		cn = append(cn, k)
	}
	sort.Strings(cn)
	for _, k := range cn {
		fmt.Fprintf(&b, "Definition c24_%s : list N := %s. (* %s *)\n", k, coqBytes(usedConsts[k]), strconv.Quote(usedConsts[k]))
	}
	b.WriteString("\nDefinition c24_prefix_table : list (string * list N) :=\n  [")
	for i, k := range cn {
		if i > 0 {
			b.WriteString(";\n   ")
		}
		fmt.Fprintf(&b, "(%s, c24_%s)", coqStr(k), k)
	}
	b.WriteString("]%string.\n\n")
	b.WriteString("Definition c24_key_sites : list (string * list (string * string)) :=\n  [")
	for i, s := range sites {
		if i > 0 {
			b.WriteString(";\n   ")
		}
		fmt.Fprintf(&b, "(%s,\n    [", coqStr(s.name))
		for j, c := range s.calls {
			if j > 0 {
				b.WriteString("; ")
			}
			fmt.Fprintf(&b, "(%s, %s)", coqStr(c[0]), coqStr(c[1]))
		}
		b.WriteString("])")
	}
	b.WriteString("]%string.\n\n")
	b.WriteString("Definition c24_filter_fields : list (string * list string) :=\n  [")
	for i, f := range filters {
		if i > 0 {
			b.WriteString(";\n   ")
		}
		fmt.Fprintf(&b, "(%s, [", coqStr(f.name))
		for j, n := range f.fields {
			if j > 0 {
				b.WriteString("; ")
			}
			b.WriteString(coqStr(n))
		}
		b.WriteString("])")
	}
	b.WriteString("]%string.\n")

	if err := os.MkdirAll(*out, 0o755); err != nil {
		fail("mkdir: %v", err)
	}
	dst := filepath.Join(*out, "C24Tags.v")
	if old, err := os.ReadFile(dst); err == nil && string(old) == b.String() {
		return // unchanged: keep the timestamp so that make does not rebuild the cone
	}
	if err := os.WriteFile(dst, []byte(b.String()), 0o644); err != nil {
		fail("write: %v", err)
	}
}
