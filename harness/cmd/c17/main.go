//go:build verif

// Driver for C17: histories of valid and invalid model writes, model reads, listings and Check
// probes (with and without model id) over 3 stores on the real server (memory and sqlite, with
// and without the query caches, v1 and v2 check), raw datastore histories with caller-chosen
// ids, and a gated concurrent scenario for the singleflight on the latest-model lookup.
package main

import (
	"context"
	"crypto/sha256"
	"encoding/json"
	"fmt"
	"os"
	"sort"
	"strings"
	"sync"
	"time"

	"google.golang.org/protobuf/proto"
	"google.golang.org/protobuf/types/known/wrapperspb"

	openfgav1 "github.com/openfga/api/proto/openfga/v1"

	"github.com/openfga/openfga/internal/verifharness/lib/rec"
	sh "github.com/openfga/openfga/internal/verifharness/lib/storehist"
	"github.com/openfga/openfga/pkg/server"
	"github.com/openfga/openfga/pkg/storage"
	"github.com/openfga/openfga/pkg/typesystem"
)

const root = "/tmp/c17"

// ---- models -----------------------------------------------------------------------------------

// variant v (0..7): Check(document:1#bK@user:anne) is true iff bit K of v is set, given the tuple
// document:1#viewer@user:anne.
func variantDSL(v int, deco int) string { return variantDSLc(v, deco, false) }

// withCond: viewer also accepts `user with cond1`, cond1 being defined (a valid use of a condition
// on a plain type restriction)
func variantDSLc(v int, deco int, withCond bool) string {
	pick := func(k int) string {
		if v&(1<<k) != 0 {
			return "viewer"
		}
		return "editor"
	}
	var sb strings.Builder
	sb.WriteString("model\n  schema 1.1\ntype user\n")
	for i := 0; i < deco; i++ {
		fmt.Fprintf(&sb, "type extra%d\n  relations\n    define member: [user]\n", i)
	}
	if withCond {
		sb.WriteString("type document\n  relations\n    define viewer: [user, user with cond1]\n    define editor: [user]\n")
	} else {
		sb.WriteString("type document\n  relations\n    define viewer: [user]\n    define editor: [user]\n")
	}
	fmt.Fprintf(&sb, "    define b0: %s\n    define b1: %s\n    define b2: %s\n", pick(0), pick(1), pick(2))
	if withCond {
		sb.WriteString("condition cond1(x: int) {\n  x < 100\n}\n")
	}
	return sb.String()
}

type body struct {
	m       *openfgav1.AuthorizationModel // schema version, type definitions, conditions (id empty)
	variant int                           // 0..7, 9 = not a probe model
	kind    string
	cvalid  int // validity BY CONSTRUCTION of the generator: 1 valid, 0 invalid, -1 not decided by construction
}

func validBody(r *rec.Rand, v int) body {
	if r.Chance(1, 4) {
		return body{m: sh.Model(variantDSLc(v, r.Intn(3), true)), variant: v, kind: "valid_with_condition", cvalid: 1}
	}
	return body{m: sh.Model(variantDSL(v, r.Intn(4))), variant: v, kind: "valid", cvalid: 1}
}

func cu(rel string) *openfgav1.Userset {
	return &openfgav1.Userset{Userset: &openfgav1.Userset_ComputedUserset{ComputedUserset: &openfgav1.ObjectRelation{Relation: rel}}}
}

// invalid models: a mutation stream over valid ones
func mutatedBody(r *rec.Rand, w *rec.Writer) body {
	b := validBody(r, r.Intn(8))
	trueVariant := b.variant
	b.variant = 9
	m := b.m
	doc := m.TypeDefinitions[len(m.TypeDefinitions)-1]
	k := r.Intn(12)
	switch k {
	case 0: // computed userset to an undefined relation
		doc.Relations["b0"] = cu("nosuch")
	case 1: // type restriction naming an undefined type
		doc.Metadata.Relations["viewer"].DirectlyRelatedUserTypes = append(doc.Metadata.Relations["viewer"].DirectlyRelatedUserTypes, &openfgav1.RelationReference{Type: "ghost"})
	case 2: // duplicate type
		m.TypeDefinitions = append(m.TypeDefinitions, proto.Clone(doc).(*openfgav1.TypeDefinition))
	case 3: // unsupported schema version that passes request validation
		m.SchemaVersion = "1.0"
	case 4: // cycle without entry point
		doc.Relations["b0"] = cu("b1")
		doc.Relations["b1"] = cu("b0")
	case 5: // undefined condition
		doc.Metadata.Relations["viewer"].DirectlyRelatedUserTypes[0].Condition = "nocond"
	case 6: // request-level: no type definitions
		m.TypeDefinitions = nil
	case 7: // request-level: schema version not in the list
		m.SchemaVersion = "2.0"
	case 8: // 101 type definitions
		for i := 0; i < 100; i++ {
			m.TypeDefinitions = append(m.TypeDefinitions, &openfgav1.TypeDefinition{Type: fmt.Sprintf("filler%d", i)})
		}
	case 9: // exactly 100 type definitions (accepted)
		b.variant = trueVariant
		for len(m.TypeDefinitions) < 100 {
			m.TypeDefinitions = append(m.TypeDefinitions, &openfgav1.TypeDefinition{Type: fmt.Sprintf("filler%d", len(m.TypeDefinitions))})
		}
	case 10: // larger than 256 KiB
		for i := 0; i < 60; i++ {
			td := &openfgav1.TypeDefinition{Type: fmt.Sprintf("big%d", i), Relations: map[string]*openfgav1.Userset{}, Metadata: &openfgav1.Metadata{Relations: map[string]*openfgav1.RelationMetadata{}}}
			for j := 0; j < 60; j++ {
				name := fmt.Sprintf("r%d_%s", j, strings.Repeat("x", 30))
				td.Relations[name] = &openfgav1.Userset{Userset: &openfgav1.Userset_This{}}
				td.Metadata.Relations[name] = &openfgav1.RelationMetadata{DirectlyRelatedUserTypes: []*openfgav1.RelationReference{{Type: "user"}}}
			}
			m.TypeDefinitions = append(m.TypeDefinitions, td)
		}
	case 11: // relation whose rewrite is missing
		doc.Relations["b2"] = &openfgav1.Userset{}
	}
	b.kind = fmt.Sprintf("mut%d", k)
	switch k {
	case 0, 1, 2, 3, 4, 5, 11:
		b.cvalid = 0 // each of these breaks a rule of the model language
	case 8, 9, 10:
		b.cvalid = 1 // only large
	default:
		b.cvalid = -1 // rejected by request validation before the validator is asked
	}
	w.Stat("gen_body_"+b.kind, 1)
	return b
}

const dummyID = "01ARZ3NDEKTSV4RRFFQ69G5FAV"

func encContent(m *openfgav1.AuthorizationModel) []byte {
	c := proto.Clone(m).(*openfgav1.AuthorizationModel)
	c.Id = ""
	e := sh.Enc(c)
	if len(e) > 4096 {
		h := sha256.Sum256(e)
		return h[:]
	}
	return e
}

// recBody: ( enc wf valid ntypes size variant ).  `valid` is the generator's verdict by
// construction where it has one (so that a validator that lets a broken model through shows up
// as a difference), the real validator's verdict otherwise; the second result says whether the
// two verdicts differ.
func recBody(b body) (rec.V, bool) {
	withID := proto.Clone(b.m).(*openfgav1.AuthorizationModel)
	withID.Id = dummyID
	req := &openfgav1.WriteAuthorizationModelRequest{StoreId: dummyID, SchemaVersion: b.m.GetSchemaVersion(), TypeDefinitions: b.m.GetTypeDefinitions(), Conditions: b.m.GetConditions()}
	wf := req.Validate() == nil
	_, err := typesystem.NewAndValidate(context.Background(), withID)
	valid := err == nil
	mismatch := false
	if b.cvalid >= 0 {
		mismatch = valid != (b.cvalid == 1)
		valid = b.cvalid == 1
	}
	return rec.L(rec.B(encContent(b.m)), rec.Bool(wf), rec.Bool(valid), rec.I(len(b.m.GetTypeDefinitions())), rec.I(proto.Size(withID)), rec.I(b.variant)), mismatch
}

// ---- header capture -----------------------------------------------------------------------------

type hdrKey struct{}
type hdrRec struct {
	mu sync.Mutex
	m  map[string]string
}
type capTransport struct{}

func (capTransport) SetHeader(ctx context.Context, key, value string) {
	if h, ok := ctx.Value(hdrKey{}).(*hdrRec); ok {
		h.mu.Lock()
		h.m[key] = value
		h.mu.Unlock()
	}
}
func withHdr() (context.Context, *hdrRec) {
	h := &hdrRec{m: map[string]string{}}
	return context.WithValue(context.Background(), hdrKey{}, h), h
}

// ---- environments ---------------------------------------------------------------------------------

type env struct {
	backend string
	combo   int
	be      *sh.Backend
	gate    *sh.GateDS
	srv     *server.Server
}

var comboNames = []string{"default", "query_cache", "v2_check", "v2_check_query_cache"}

func comboOpts(c int) []server.OpenFGAServiceV1Option {
	opts := []server.OpenFGAServiceV1Option{server.WithTransport(capTransport{})}
	cache := []server.OpenFGAServiceV1Option{
		server.WithCheckQueryCacheEnabled(true), server.WithCheckCacheLimit(10000), server.WithCheckQueryCacheTTL(time.Hour),
		server.WithCheckIteratorCacheEnabled(true), server.WithCacheControllerEnabled(true),
	}
	switch c {
	case 1:
		opts = append(opts, cache...)
	case 2:
		opts = append(opts, server.WithExperimentals("weighted_graph_check"))
	case 3:
		opts = append(opts, cache...)
		opts = append(opts, server.WithExperimentals("weighted_graph_check"))
	}
	return opts
}

type desc struct {
	Seed    uint64 `json:"seed"`
	Backend string `json:"backend"`
	Layer   string `json:"layer"` // server | datastore | concurrent
	Combo   int    `json:"combo"`
	Ops     int    `json:"ops"`
}

func bk(d desc) int {
	if d.Backend == "sqlite" {
		return 1
	}
	return 0
}

// ---- server scenario --------------------------------------------------------------------------------

type pendingOp func(ids *sh.IDMap) rec.V

func checkOnce(e *env, store, modelID, rel string) (bool, int, string) {
	ctx, h := withHdr()
	res, err := e.srv.Check(ctx, &openfgav1.CheckRequest{StoreId: store, AuthorizationModelId: modelID,
		TupleKey: &openfgav1.CheckRequestTupleKey{Object: "document:1", Relation: rel, User: "user:anne"}})
	h.mu.Lock()
	id := h.m[server.AuthorizationModelIDHeader]
	h.mu.Unlock()
	return res.GetAllowed(), sh.ErrClass(err), id
}

// probe: three Checks; returns class, variant, resolved id seen in the response header ("" if none)
func probe(w *rec.Writer, e *env, d desc, store, modelID string) (int, int, string) {
	v := 0
	cls0, id0 := 0, ""
	for k := 0; k < 3; k++ {
		allowed, cls, id := checkOnce(e, store, modelID, fmt.Sprintf("b%d", k))
		if k == 0 {
			cls0, id0 = cls, id
		} else if cls != cls0 || id != id0 {
			w.PropFail("three consecutive Checks of one probe disagree on error class or resolved model", map[string]any{"desc": d})
		}
		if allowed {
			v |= 1 << k
		}
	}
	return cls0, v, id0
}

func serverScenario(w *rec.Writer, e *env, d desc) {
	r := rec.NewRand(d.Seed)
	ctx := sh.Ctx
	ids := sh.NewIDMap()
	var stores []string
	for i := 0; i < 3; i++ {
		res, err := e.srv.CreateStore(ctx, &openfgav1.CreateStoreRequest{Name: "shared-name"})
		if err != nil {
			panic(err)
		}
		stores = append(stores, res.GetId())
		ids.Bind(res.GetId(), sh.CanonID('S', i))
	}
	ghostStore := sh.NewULID()
	ids.Bind(ghostStore, sh.CanonID('S', 9))
	ghostModel := "7ZZZZZZZZZZZZZZZZZZZZZZGHT" // greater than any id drawn now, never written
	var modelIDs []string                       // accepted model ids, in order of creation
	modelStore := map[string]string{}
	lastVariant := map[string]int{}
	hasTuple := map[string]bool{}
	var ops []pendingOp

	pickStore := func() string {
		switch p := r.Intn(40); {
		case p == 0:
			return ghostStore
		case p == 1:
			return rec.Pick(r, []string{"", "abc", "01ARZ3NDEKTSV4RRFFQ69G5FA|", strings.ToLower(stores[0])})
		}
		return stores[r.Intn(3)]
	}
	pickModelID := func(s string) string {
		switch p := r.Intn(12); {
		case p == 0:
			return ghostModel
		case p == 1:
			return rec.Pick(r, []string{"abc", "8ZZZZZZZZZZZZZZZZZZZZZZZZZ", "01ARZ3NDEKTSV4RRFFQ69G5FA|", strings.ToLower(dummyID), "9ZZZZZZZZZZZZZZZZZZZZZZZZZ"})
		case p <= 3 && len(modelIDs) > 0:
			return modelIDs[r.Intn(len(modelIDs))] // any store's model
		}
		var own []string
		for _, m := range modelIDs {
			if modelStore[m] == s {
				own = append(own, m)
			}
		}
		if len(own) == 0 {
			return ghostModel
		}
		if r.Chance(1, 2) {
			return own[len(own)-1]
		}
		return own[r.Intn(len(own))]
	}
	doProbe := func(s, mid string) {
		cls, v, hid := probe(w, e, d, s, mid)
		ops = append(ops, func(ids *sh.IDMap) rec.V {
			ido := rec.L()
			if mid != "" {
				ido = rec.L(rec.S(ids.Canon(mid)))
			}
			return rec.L(rec.I(3), rec.S(ids.Canon(s)), ido, rec.I(cls), rec.I(v), rec.S(ids.Canon(hid)))
		})
		if mid == "" {
			w.Stat(fmt.Sprintf("op_probe_modelless_class_%d", cls), 1)
		} else {
			w.Stat(fmt.Sprintf("op_probe_explicit_class_%d", cls), 1)
		}
	}
	doWrite := func() {
		s := pickStore()
		var b body
		if r.Chance(3, 4) {
			v := r.Intn(8)
			for v == lastVariant[s]-1 {
				v = r.Intn(8)
			}
			b = validBody(r, v)
		} else {
			b = mutatedBody(r, w)
		}
		rb, mismatch := recBody(b)
		if mismatch {
			w.PropFail("typesystem.NewAndValidate disagrees with the construction of the model (a model from the invalid mutation stream validates, or a valid one does not)",
				map[string]any{"desc": d, "kind": b.kind})
		}
		res, err := e.srv.WriteAuthorizationModel(ctx, &openfgav1.WriteAuthorizationModelRequest{
			StoreId: s, SchemaVersion: b.m.GetSchemaVersion(), TypeDefinitions: b.m.GetTypeDefinitions(), Conditions: b.m.GetConditions()})
		cls := sh.ErrClass(err)
		id := res.GetAuthorizationModelId()
		if err == nil {
			modelIDs = append(modelIDs, id)
			modelStore[id] = s
			if b.variant < 8 {
				lastVariant[s] = b.variant + 1
			}
			if !hasTuple[s] && b.variant < 8 {
				if _, err := e.srv.Write(ctx, &openfgav1.WriteRequest{StoreId: s, Writes: &openfgav1.WriteRequestWrites{
					TupleKeys: []*openfgav1.TupleKey{{Object: "document:1", Relation: "viewer", User: "user:anne"}}}}); err != nil {
					panic(err)
				}
				hasTuple[s] = true
			}
		}
		ops = append(ops, func(ids *sh.IDMap) rec.V {
			return rec.L(rec.I(0), rec.S(ids.Canon(s)), rb, rec.I(cls), rec.S(ids.Canon(id)))
		})
		w.Stat(fmt.Sprintf("op_write_class_%d", cls), 1)
		if err == nil && hasTuple[s] && r.Chance(3, 5) {
			w.Stat("probe_immediately_after_write", 1)
			doProbe(s, "")
		}
	}
	doList := func(s string) {
		res, err := e.srv.ReadAuthorizationModels(ctx, &openfgav1.ReadAuthorizationModelsRequest{StoreId: s, PageSize: wrapperspb.Int32(100)})
		cls := sh.ErrClass(err)
		var got []string
		for _, m := range res.GetAuthorizationModels() {
			got = append(got, m.GetId())
		}
		if err == nil && res.GetContinuationToken() != "" {
			w.PropFail("ReadAuthorizationModels returned a continuation token for fewer than 100 models", map[string]any{"desc": d})
		}
		ops = append(ops, func(ids *sh.IDMap) rec.V {
			c := make([]string, len(got))
			for i, g := range got {
				c[i] = ids.Canon(g)
			}
			return rec.L(rec.I(2), rec.S(ids.Canon(s)), rec.I(cls), rec.LS(c))
		})
		w.Stat("op_list", 1)
	}
	// several model writes back to back (no work between the requests, so that some fall into the
	// same millisecond): the ids must still increase and the last one must be the latest
	bursts := 0
	doBurst := func() {
		s := stores[r.Intn(3)]
		n := r.Range(6, 12)
		bodies := make([]body, n)
		recs := make([]rec.V, n)
		last := lastVariant[s] - 1
		for i := range bodies {
			v := r.Intn(8)
			for v == last {
				v = r.Intn(8)
			}
			last = v
			bodies[i] = body{m: sh.Model(variantDSL(v, 0)), variant: v, kind: "valid", cvalid: 1}
			recs[i], _ = recBody(bodies[i])
		}
		reqs := make([]*openfgav1.WriteAuthorizationModelRequest, n)
		for i, b := range bodies {
			reqs[i] = &openfgav1.WriteAuthorizationModelRequest{StoreId: s, SchemaVersion: "1.1", TypeDefinitions: b.m.GetTypeDefinitions()}
		}
		got := make([]string, n)
		t0 := time.Now()
		for i := range reqs {
			res, err := e.srv.WriteAuthorizationModel(ctx, reqs[i])
			if err != nil {
				panic(err)
			}
			got[i] = res.GetAuthorizationModelId()
		}
		if time.Since(t0) < time.Duration(n)*time.Millisecond {
			w.Stat("burst_faster_than_1ms_per_write", 1)
		}
		for i := range got {
			id, rb := got[i], recs[i]
			modelIDs = append(modelIDs, id)
			modelStore[id] = s
			ops = append(ops, func(ids *sh.IDMap) rec.V {
				return rec.L(rec.I(0), rec.S(ids.Canon(s)), rb, rec.I(0), rec.S(ids.Canon(id)))
			})
		}
		lastVariant[s] = bodies[n-1].variant + 1
		if !hasTuple[s] {
			if _, err := e.srv.Write(ctx, &openfgav1.WriteRequest{StoreId: s, Writes: &openfgav1.WriteRequestWrites{
				TupleKeys: []*openfgav1.TupleKey{{Object: "document:1", Relation: "viewer", User: "user:anne"}}}}); err != nil {
				panic(err)
			}
			hasTuple[s] = true
		}
		w.Stat("op_write_burst", 1)
		w.Stat("op_write_class_0", n)
		doList(s)
		doProbe(s, "")
	}
	doProbe(stores[0], "")
	for i := 0; i < d.Ops; i++ {
		switch p := r.Intn(20); {
		case p == 0 && bursts < 2:
			bursts++
			doBurst()
		case p < 8:
			doWrite()
		case p < 11:
			s := pickStore()
			mid := pickModelID(s)
			res, err := e.srv.ReadAuthorizationModel(ctx, &openfgav1.ReadAuthorizationModelRequest{StoreId: s, Id: mid})
			cls := sh.ErrClass(err)
			var enc []byte
			rid := ""
			if err == nil {
				enc = encContent(res.GetAuthorizationModel())
				rid = res.GetAuthorizationModel().GetId()
			}
			ops = append(ops, func(ids *sh.IDMap) rec.V {
				return rec.L(rec.I(1), rec.S(ids.Canon(s)), rec.S(ids.Canon(mid)), rec.I(cls), rec.S(ids.Canon(rid)), rec.B(enc))
			})
			w.Stat(fmt.Sprintf("op_read_class_%d", cls), 1)
		case p < 13:
			doList(pickStore())
		default:
			s := pickStore()
			if r.Chance(7, 10) {
				doProbe(s, "")
			} else {
				doProbe(s, pickModelID(s))
			}
		}
	}
	// canonical ids: the rank of the real id among all accepted ids of the scenario
	sorted := sh.SortedStrings(modelIDs)
	for rank, m := range sorted {
		ids.Bind(m, sh.CanonID('M', rank))
	}
	out := make([]rec.V, len(ops))
	for i, f := range ops {
		out[i] = f(ids)
	}
	w.Case(d, rec.I(1), rec.I(bk(d)), rec.I(d.Combo), rec.L(out...))
	w.Stat("scenario_server_"+d.Backend+"_"+comboNames[d.Combo], 1)
}

// ---- raw datastore scenario -----------------------------------------------------------------------------

var rawIDs = []string{"01", "02", "03", "04", "05", "06", "07", "08", "1", "", "0|"}

func rawScenario(w *rec.Writer, e *env, d desc) {
	r := rec.NewRand(d.Seed)
	ctx := sh.Ctx
	prefix := fmt.Sprintf("q%x.", d.Seed)
	stores := []string{"s1", "s2", ""}
	monotonic := r.Chance(1, 3)
	next := 0
	var ops []rec.V
	for i := 0; i < d.Ops; i++ {
		s := rec.Pick(r, stores)
		switch p := r.Intn(10); {
		case p < 4:
			id := rec.Pick(r, rawIDs)
			if monotonic {
				id = fmt.Sprintf("m%04d", next)
				next++
			}
			var b body
			if r.Chance(5, 6) {
				b = validBody(r, r.Intn(8))
			} else {
				b = validBody(r, 0)
				b.m.TypeDefinitions = nil // the backends special-case models without type definitions
				b.variant = 9
				w.Stat("raw_write_no_typedefs", 1)
			}
			m := proto.Clone(b.m).(*openfgav1.AuthorizationModel)
			m.Id = id
			err := e.be.DS.WriteAuthorizationModel(ctx, prefix+s, m)
			cls := 0
			if err != nil {
				cls = 1
			}
			rb, _ := recBody(b)
			ops = append(ops, rec.L(rec.I(0), rec.S(s), rec.S(id), rb, rec.I(cls)))
			w.Stat(fmt.Sprintf("raw_write_class_%d", cls), 1)
		case p < 6:
			id := rec.Pick(r, rawIDs)
			if monotonic && next > 0 {
				id = fmt.Sprintf("m%04d", r.Intn(next+1))
			}
			m, err := e.be.DS.ReadAuthorizationModel(ctx, prefix+s, id)
			ops = append(ops, rawModelObs(1, s, id, m, err))
			w.Stat("raw_read", 1)
		case p < 8:
			m, err := e.be.DS.FindLatestAuthorizationModel(ctx, prefix+s)
			ops = append(ops, rawModelObs(2, s, "", m, err))
			w.Stat("raw_latest", 1)
		default:
			ms, _, err := e.be.DS.ReadAuthorizationModels(ctx, prefix+s, storage.ReadAuthorizationModelsOptions{})
			cls := 0
			if err != nil {
				cls = 1
			}
			var got []string
			for _, m := range ms {
				got = append(got, m.GetId())
			}
			ops = append(ops, rec.L(rec.I(3), rec.S(s), rec.I(cls), rec.LS(got)))
			w.Stat("raw_list", 1)
		}
	}
	if monotonic {
		w.Stat("scenario_datastore_monotonic_ids_"+d.Backend, 1)
	} else {
		w.Stat("scenario_datastore_arbitrary_ids_"+d.Backend, 1)
	}
	w.Case(d, rec.I(0), rec.I(bk(d)), rec.I(0), rec.L(ops...))
}

func rawModelObs(kind int, s, id string, m *openfgav1.AuthorizationModel, err error) rec.V {
	cls := 0 // 0 found, 1 not found, 2 other error
	var enc []byte
	rid := ""
	switch {
	case err == nil:
		enc = encContent(m)
		rid = m.GetId()
	case err == storage.ErrNotFound:
		cls = 1
	default:
		cls = 2
	}
	return rec.L(rec.I(kind), rec.S(s), rec.S(id), rec.I(cls), rec.S(rid), rec.B(enc))
}

// ---- concurrent scenario (singleflight) -------------------------------------------------------------------

func concurrentScenario(w *rec.Writer, e *env, d desc) {
	ctx := sh.Ctx
	r := rec.NewRand(d.Seed)
	res, err := e.srv.CreateStore(ctx, &openfgav1.CreateStoreRequest{Name: "shared-name"})
	if err != nil {
		panic(err)
	}
	s := res.GetId()
	writeModel := func(v int) string {
		b := validBody(r, v)
		res, err := e.srv.WriteAuthorizationModel(ctx, &openfgav1.WriteAuthorizationModelRequest{
			StoreId: s, SchemaVersion: "1.1", TypeDefinitions: b.m.GetTypeDefinitions(), Conditions: b.m.GetConditions()})
		if err != nil {
			panic(err)
		}
		return res.GetAuthorizationModelId()
	}
	m1 := writeModel(0) // b0 false
	if _, err := e.srv.Write(ctx, &openfgav1.WriteRequest{StoreId: s, Writes: &openfgav1.WriteRequestWrites{
		TupleKeys: []*openfgav1.TupleKey{{Object: "document:1", Relation: "viewer", User: "user:anne"}}}}); err != nil {
		panic(err)
	}
	g := e.gate
	g.Arm(s)
	type result struct {
		allowed bool
		cls     int
		id      string
	}
	r1c, r2c := make(chan result, 1), make(chan result, 1)
	go func() {
		a, c, id := checkOnce(e, s, "", "b0")
		r1c <- result{a, c, id}
	}()
	<-g.Entered()               // request 1 is inside the latest-model lookup (the datastore has answered m1)
	m2 := writeModel(1)         // b0 true; the write has completed before request 2 starts
	go func() {
		a, c, id := checkOnce(e, s, "", "b0")
		r2c <- result{a, c, id}
	}()
	time.Sleep(40 * time.Millisecond)
	joined := g.Calls(s) == 1 // request 2 did not reach the datastore: it waits on the call in flight
	g.Release()
	r1, r2 := <-r1c, <-r2c
	served := func(x result) int { // 1 = m1, 2 = m2, 0 = error
		if x.cls != 0 {
			return 0
		}
		if x.id != "" {
			switch x.id {
			case m1:
				return 1
			case m2:
				return 2
			}
			return 0
		}
		if x.allowed {
			return 2
		}
		return 1
	}
	if m1 >= m2 {
		w.PropFail("second model id is not greater than the first", map[string]any{"desc": d})
	}
	w.Case(d, rec.I(2), rec.I(bk(d)), rec.I(d.Combo), rec.Bool(joined), rec.I(served(r1)), rec.I(served(r2)))
	if joined {
		w.Stat("concurrent_joined_inflight_lookup", 1)
	} else {
		w.Stat("concurrent_not_joined", 1)
	}
	w.Stat("scenario_concurrent_"+d.Backend+"_"+comboNames[d.Combo], 1)
}

// concurrent2Scenario: the latest-model lookup of store A is held in flight while a model-less
// request for store B arrives: B must be evaluated against B's latest model.
func concurrent2Scenario(w *rec.Writer, e *env, d desc) {
	ctx := sh.Ctx
	r := rec.NewRand(d.Seed)
	type st struct{ id, model string }
	var ss [2]st
	for i := range ss {
		res, err := e.srv.CreateStore(ctx, &openfgav1.CreateStoreRequest{Name: "shared-name"})
		if err != nil {
			panic(err)
		}
		ss[i].id = res.GetId()
		b := validBody(r, i) // A: b0 false, B: b0 true
		mres, err := e.srv.WriteAuthorizationModel(ctx, &openfgav1.WriteAuthorizationModelRequest{StoreId: ss[i].id, SchemaVersion: "1.1", TypeDefinitions: b.m.GetTypeDefinitions(), Conditions: b.m.GetConditions()})
		if err != nil {
			panic(err)
		}
		ss[i].model = mres.GetAuthorizationModelId()
		if _, err := e.srv.Write(ctx, &openfgav1.WriteRequest{StoreId: ss[i].id, Writes: &openfgav1.WriteRequestWrites{
			TupleKeys: []*openfgav1.TupleKey{{Object: "document:1", Relation: "viewer", User: "user:anne"}}}}); err != nil {
			panic(err)
		}
	}
	g := e.gate
	g.Arm(ss[0].id)
	type result struct {
		allowed bool
		cls     int
		id      string
	}
	r1c, r2c := make(chan result, 1), make(chan result, 1)
	go func() {
		a, c, id := checkOnce(e, ss[0].id, "", "b0")
		r1c <- result{a, c, id}
	}()
	<-g.Entered() // A's lookup is in flight
	go func() {
		a, c, id := checkOnce(e, ss[1].id, "", "b0")
		r2c <- result{a, c, id}
	}()
	var r2 result
	doneBefore := false
	select {
	case r2 = <-r2c:
		doneBefore = true
	case <-time.After(1500 * time.Millisecond):
	}
	g.Release()
	r1 := <-r1c
	if !doneBefore {
		r2 = <-r2c
	}
	// 1 = the model of the request's own store, 2 = the other store's model, 0 = error
	served := func(x result, own, other string, ownB0 bool) int {
		if x.cls != 0 {
			return 0
		}
		if x.id != "" {
			switch x.id {
			case own:
				return 1
			case other:
				return 2
			}
			return 0
		}
		if x.allowed == ownB0 {
			return 1
		}
		return 2
	}
	w.Case(d, rec.I(3), rec.I(bk(d)), rec.I(d.Combo), rec.Bool(doneBefore),
		rec.I(served(r1, ss[0].model, ss[1].model, false)), rec.I(served(r2, ss[1].model, ss[0].model, true)))
	if doneBefore {
		w.Stat("concurrent2_other_store_not_blocked", 1)
	} else {
		w.Stat("concurrent2_other_store_waited_for_release", 1)
	}
	w.Stat("scenario_concurrent2_"+d.Backend+"_"+comboNames[d.Combo], 1)
}

func main() {
	o := rec.ParseFlags()
	w := rec.NewWriter(o.Out)
	defer w.Close()
	defer sh.CleanupRoot(root)

	envs := map[string]*env{}
	get := func(kind string, combo int) *env {
		k := fmt.Sprintf("%s/%d", kind, combo)
		if e, ok := envs[k]; ok {
			return e
		}
		be, err := sh.Open(kind, root)
		if err != nil {
			panic(err)
		}
		e := &env{backend: kind, combo: combo, be: be}
		e.gate = sh.NewGate(be.DS)
		be.Disown() // the server's Close closes the datastore
		all := append([]server.OpenFGAServiceV1Option{server.WithDatastore(e.gate)}, comboOpts(combo)...)
		e.srv = server.MustNewServerWithOpts(all...)
		envs[k] = e
		return e
	}
	defer func() {
		keys := make([]string, 0, len(envs))
		for k := range envs {
			keys = append(keys, k)
		}
		sort.Strings(keys)
		for _, k := range keys {
			envs[k].srv.Close()
			envs[k].be.Close()
		}
	}()
	run := func(d desc) {
		e := get(d.Backend, d.Combo)
		switch d.Layer {
		case "server":
			serverScenario(w, e, d)
		case "datastore":
			rawScenario(w, e, d)
		case "concurrent":
			concurrentScenario(w, e, d)
		case "concurrent2":
			concurrent2Scenario(w, e, d)
		}
	}
	if o.Replay != "" {
		data, err := os.ReadFile(o.Replay)
		if err != nil {
			panic(err)
		}
		for _, line := range strings.Split(string(data), "\n") {
			line = strings.TrimSpace(line)
			if line == "" || line == "null" {
				continue
			}
			var d desc
			if err := json.Unmarshal([]byte(line), &d); err != nil || d.Backend == "" {
				var wrap struct {
					Desc desc `json:"desc"`
				}
				if err2 := json.Unmarshal([]byte(line), &wrap); err2 != nil || wrap.Desc.Backend == "" {
					continue
				}
				d = wrap.Desc
			}
			run(d)
		}
		return
	}
	r := rec.NewRand(o.Seed)
	// the concurrent scenario, on both backends, v1 path with and without caches
	for i, bkd := range []string{"memory", "sqlite", "memory"} {
		run(desc{Seed: r.Uint64(), Backend: bkd, Layer: "concurrent", Combo: i % 2})
	}
	// two stores: A's lookup in flight while a model-less request for B arrives
	for i, bkd := range []string{"memory", "sqlite", "sqlite", "memory"} {
		run(desc{Seed: r.Uint64(), Backend: bkd, Layer: "concurrent2", Combo: i % 2})
	}
	for i := 0; i < o.N; i++ {
		d := desc{Seed: r.Uint64(), Ops: r.Range(20, 60), Backend: "memory", Combo: r.Intn(4)}
		if i%3 == 2 || (o.Tier == "thorough" && i%2 == 1) {
			d.Backend = "sqlite"
		}
		d.Layer = "server"
		if r.Chance(1, 5) {
			d.Layer = "datastore"
			d.Combo = 0
		}
		run(d)
	}
}
