//go:build verif

// Driver for C14 (paginated reads return every item exactly once).
//
// For every generated data set (tuple history with deletes, stores and authorization models with
// out-of-order ids) written through the real datastore -- memory and sqlite (a migrated database
// file under /tmp/c14, removed afterwards) -- it follows continuation tokens through the real
// command layer (ReadQuery, ReadChangesQuery, ListStoresQuery, ReadAuthorizationModelsQuery, real
// base64 encoder and token serializer) for every page size in {1,2,3,5,n-1,n,n+1,default,...} and
// every filter variant, evaluates the property predicate directly (concatenated pages == the
// expected listing in documented order, each item once, no page longer than the size) and writes
// one record per traversal for the Coq oracle (Store/Paging.v).  A token-mutation stream (tokens
// of other queries/types, truncated, offset arithmetic, huge/negative/non-numeric, garbage ULIDs,
// broken base64) is sent as single requests; panics are caught with recover() and recorded.
package main

import (
	"context"
	"database/sql"
	"encoding/base64"
	"encoding/json"
	"fmt"
	"os"
	"path/filepath"
	"runtime"
	"sort"
	"strconv"
	"strings"
	"sync"
	"time"

	"github.com/oklog/ulid/v2"
	openfgav1 "github.com/openfga/api/proto/openfga/v1"
	"github.com/pressly/goose/v3"
	"google.golang.org/grpc/status"
	"google.golang.org/protobuf/types/known/wrapperspb"

	"github.com/openfga/openfga/assets"
	"github.com/openfga/openfga/internal/verifharness/lib/rec"
	"github.com/openfga/openfga/pkg/encoder"
	"github.com/openfga/openfga/pkg/server/commands"
	"github.com/openfga/openfga/pkg/storage"
	"github.com/openfga/openfga/pkg/storage/memory"
	"github.com/openfga/openfga/pkg/storage/sqlcommon"
	"github.com/openfga/openfga/pkg/storage/sqlite"
	"github.com/openfga/openfga/pkg/tuple"
	"github.com/openfga/openfga/pkg/typesystem"
)

const (
	apiRead    = 0
	apiChanges = 1
	apiStores  = 2
	apiModels  = 3

	codePage     = 0
	codeInvalid  = 11
	codeMismatch = 12
	codeValid    = 13
	codeInternal = 14
	codePanic    = 20
	codeRunaway  = 30

	scratch = "/tmp/c14"
)

var apiNames = []string{"read", "changes", "stores", "models"}
var backendNames = []string{"memory", "sqlite"}

type tup struct{ obj, rel, user string }

func (t tup) key() string { return t.obj + "#" + t.rel + "@" + t.user }

type change struct {
	op int // 0 write, 1 delete
	t  tup
}

func (c change) key() string { return strconv.Itoa(c.op) + "/" + c.t.key() }

// dataset is what the driver itself knows about the data it wrote (the ground truth the pages are
// compared with); nothing in it is read back through the code under test, except the ULIDs.
type dataset struct {
	idx     int
	ops     []op     // history
	tuples  []tup    // final store contents, in store order (insertion order, deletes removed)
	changes []change // commit order
	stores  []idname // creation order
	models  []string // ids, creation order
}

type idname struct{ id, name string }

type op struct {
	writes  []tup
	deletes []tup
}

// ------------------------------------------------------------------------------------------------
// generation

var objTypes = []string{"doc", "folder", "group"}
var relations = []string{"viewer", "editor", "parent", "member"}

func genTuple(r *rec.Rand, spread int) tup {
	ot := rec.Pick(r, objTypes)
	obj := ot + ":" + strconv.Itoa(r.Intn(spread))
	rel := rec.Pick(r, relations)
	var user string
	switch r.Intn(10) {
	case 0:
		user = "user:*"
	case 1, 2:
		user = "group:g" + strconv.Itoa(r.Intn(4)) + "#member"
	default:
		user = "user:u" + strconv.Itoa(r.Intn(spread))
	}
	return tup{obj, rel, user}
}

func pickSize(r *rec.Rand, max int) int {
	switch r.Intn(8) {
	case 0:
		return r.Intn(4) // 0..3
	case 1:
		return r.Range(4, 12)
	case 2:
		return max
	case 3:
		return r.Range(max/2, max)
	case 4:
		return 50 + r.Intn(3) - 1 // around the default page size
	default:
		return r.Range(0, max)
	}
}

func ulidFrom(r *rec.Rand, ms uint64) string {
	var id ulid.ULID
	_ = id.SetTime(ms)
	var e [10]byte
	for i := range e {
		e[i] = byte(r.Intn(256))
	}
	_ = id.SetEntropy(e[:])
	return id.String()
}

func genDataset(r *rec.Rand, idx int, maxItems, maxSmall int) *dataset {
	d := &dataset{idx: idx}
	target := pickSize(r, maxItems)
	if target > maxItems {
		target = maxItems
	}
	seen := map[string]bool{}
	spread := 3 + target/4
	cur := []tup{}
	for written := 0; written < target; {
		batch := r.Range(1, 40)
		if r.Chance(1, 3) {
			batch = 1
		}
		if batch > target-written {
			batch = target - written
		}
		var ws []tup
		for len(ws) < batch {
			t := genTuple(r, spread)
			if seen[t.key()] {
				spread++
				continue
			}
			seen[t.key()] = true
			ws = append(ws, t)
		}
		written += len(ws)
		d.ops = append(d.ops, op{writes: ws})
		cur = append(cur, ws...)
		for _, t := range ws {
			d.changes = append(d.changes, change{0, t})
		}
		if len(cur) > 2 && r.Chance(1, 3) {
			// delete 1..3 existing tuples, in store order (the order in which the memory backend logs
			// them; sqlite logs them in request order -- the same here)
			k := r.Range(1, 3)
			pos := map[int]bool{}
			for len(pos) < k {
				pos[r.Intn(len(cur))] = true
			}
			var ps []int
			for p := range pos {
				ps = append(ps, p)
			}
			sort.Ints(ps)
			var ds []tup
			for _, p := range ps {
				ds = append(ds, cur[p])
			}
			var rest []tup
			for i, t := range cur {
				if !pos[i] {
					rest = append(rest, t)
				}
			}
			cur = rest
			d.ops = append(d.ops, op{deletes: ds})
			for _, t := range ds {
				d.changes = append(d.changes, change{1, t})
			}
		}
	}
	d.tuples = cur

	ns := pickSize(r, maxSmall)
	base := uint64(1700000000000)
	names := []string{"st-alpha", "st-beta", "st-gamma"}
	ids := map[string]bool{}
	for len(d.stores) < ns {
		id := ulidFrom(r, base+uint64(r.Intn(5000)))
		if ids[id] {
			continue
		}
		ids[id] = true
		d.stores = append(d.stores, idname{id, rec.Pick(r, names)})
	}
	nm := pickSize(r, maxSmall)
	for len(d.models) < nm {
		id := ulidFrom(r, base+uint64(r.Intn(5000)))
		if ids[id] {
			continue
		}
		ids[id] = true
		d.models = append(d.models, id)
	}
	return d
}

// ------------------------------------------------------------------------------------------------
// backends

type backend struct {
	kind   int
	ds     storage.OpenFGADatastore
	dbpath string
	store  string
	// ULIDs (read out, not checked against anything but their order)
	tupleUlid  map[string]string // tuple key -> ulid (sqlite)
	changeUlid []string          // per change, commit order
}

var gooseReady bool

func newSqlite(name string) (*backend, error) {
	if err := os.MkdirAll(scratch, 0o755); err != nil {
		return nil, err
	}
	path := filepath.Join(scratch, name+".db")
	_ = os.Remove(path)
	uri := fmt.Sprintf("file:%s?_pragma=journal_mode(WAL)&_pragma=busy_timeout(5000)&_pragma=synchronous(NORMAL)", path)
	if !gooseReady {
		goose.SetLogger(goose.NopLogger())
		goose.SetBaseFS(assets.EmbedMigrations)
		gooseReady = true
	}
	db, err := goose.OpenDBWithDriver("sqlite", uri)
	if err != nil {
		return nil, err
	}
	if err := goose.Up(db, assets.SqliteMigrationDir); err != nil {
		db.Close()
		return nil, err
	}
	db.Close()
	ds, err := sqlite.New(uri, sqlcommon.NewConfig())
	if err != nil {
		return nil, err
	}
	return &backend{kind: 1, ds: ds, dbpath: path}, nil
}

func (b *backend) close() {
	b.ds.Close()
	if b.dbpath != "" {
		for _, suf := range []string{"", "-wal", "-shm"} {
			_ = os.Remove(b.dbpath + suf)
		}
	}
}

func tk(t tup) *openfgav1.TupleKey {
	return &openfgav1.TupleKey{Object: t.obj, Relation: t.rel, User: t.user}
}

func load(ctx context.Context, b *backend, d *dataset) error {
	b.store = ulid.Make().String()
	for _, o := range d.ops {
		var ws storage.Writes
		var dl storage.Deletes
		for _, t := range o.writes {
			ws = append(ws, tk(t))
		}
		for _, t := range o.deletes {
			dl = append(dl, &openfgav1.TupleKeyWithoutCondition{Object: t.obj, Relation: t.rel, User: t.user})
		}
		if err := b.ds.Write(ctx, b.store, dl, ws); err != nil {
			return fmt.Errorf("write: %w", err)
		}
	}
	for _, s := range d.stores {
		if _, err := b.ds.CreateStore(ctx, &openfgav1.Store{Id: s.id, Name: s.name}); err != nil {
			return fmt.Errorf("create store: %w", err)
		}
	}
	for _, id := range d.models {
		m := &openfgav1.AuthorizationModel{
			Id:            id,
			SchemaVersion: typesystem.SchemaVersion1_1,
			TypeDefinitions: []*openfgav1.TypeDefinition{
				{Type: "user"},
			},
		}
		if err := b.ds.WriteAuthorizationModel(ctx, b.store, m); err != nil {
			return fmt.Errorf("write model: %w", err)
		}
	}
	time.Sleep(3 * time.Millisecond) // the changelog horizon compares with "now"
	return nil
}

// ------------------------------------------------------------------------------------------------
// calling the command layer

type outcome struct {
	code  int
	items []string // item identities (tuple key / change key / id)
	next  string   // wire token
}

func classify(err error) int {
	st, ok := status.FromError(err)
	if !ok {
		return codeInternal
	}
	switch int32(st.Code()) {
	case int32(openfgav1.ErrorCode_invalid_continuation_token):
		return codeInvalid
	case int32(openfgav1.ErrorCode_query_string_type_continuation_token_mismatch):
		return codeMismatch
	case int32(openfgav1.ErrorCode_validation_error):
		return codeValid
	}
	return codeInternal
}

type query struct {
	api    int
	filter *openfgav1.ReadRequestTupleKey // Read
	typ    string                         // ReadChanges
	name   string                         // ListStores
	ids    []string                       // ListStores
}

func pageSize(ps int) *wrapperspb.Int32Value {
	if ps == 0 {
		return nil
	}
	return wrapperspb.Int32(int32(ps))
}

func call(ctx context.Context, b *backend, q query, ps int, token string) (out outcome) {
	defer func() {
		if r := recover(); r != nil {
			out = outcome{code: codePanic}
		}
	}()
	enc := encoder.NewBase64Encoder()
	ser := encoder.NewStringContinuationTokenSerializer()
	switch q.api {
	case apiRead:
		cmd := commands.NewReadQuery(b.ds, commands.WithReadQueryEncoder(enc), commands.WithReadQueryTokenSerializer(ser))
		resp, err := cmd.Execute(ctx, &openfgav1.ReadRequest{StoreId: b.store, TupleKey: q.filter, PageSize: pageSize(ps), ContinuationToken: token})
		if err != nil {
			return outcome{code: classify(err)}
		}
		for _, t := range resp.GetTuples() {
			k := t.GetKey()
			out.items = append(out.items, tup{k.GetObject(), k.GetRelation(), k.GetUser()}.key())
		}
		out.next = resp.GetContinuationToken()
	case apiChanges:
		cmd := commands.NewReadChangesQuery(b.ds, commands.WithReadChangesQueryEncoder(enc),
			commands.WithContinuationTokenSerializer(ser), commands.WithReadChangeQueryHorizonOffset(0))
		resp, err := cmd.Execute(ctx, &openfgav1.ReadChangesRequest{StoreId: b.store, Type: q.typ, PageSize: pageSize(ps), ContinuationToken: token})
		if err != nil {
			return outcome{code: classify(err)}
		}
		for _, c := range resp.GetChanges() {
			k := c.GetTupleKey()
			o := 0
			if c.GetOperation() == openfgav1.TupleOperation_TUPLE_OPERATION_DELETE {
				o = 1
			}
			out.items = append(out.items, change{o, tup{k.GetObject(), k.GetRelation(), k.GetUser()}}.key())
		}
		out.next = resp.GetContinuationToken()
	case apiStores:
		cmd := commands.NewListStoresQuery(b.ds, commands.WithListStoresQueryEncoder(enc))
		resp, err := cmd.Execute(ctx, &openfgav1.ListStoresRequest{PageSize: pageSize(ps), ContinuationToken: token, Name: q.name}, q.ids)
		if err != nil {
			return outcome{code: classify(err)}
		}
		for _, s := range resp.GetStores() {
			out.items = append(out.items, s.GetId())
		}
		out.next = resp.GetContinuationToken()
	case apiModels:
		cmd := commands.NewReadAuthorizationModelsQuery(b.ds, commands.WithReadAuthModelsQueryEncoder(enc))
		resp, err := cmd.Execute(ctx, &openfgav1.ReadAuthorizationModelsRequest{StoreId: b.store, PageSize: pageSize(ps), ContinuationToken: token})
		if err != nil {
			return outcome{code: classify(err)}
		}
		for _, m := range resp.GetAuthorizationModels() {
			out.items = append(out.items, m.GetId())
		}
		out.next = resp.GetContinuationToken()
	}
	return out
}

func decodeWire(tok string) ([]byte, bool) {
	b, err := base64.URLEncoding.DecodeString(tok)
	return b, err == nil
}

// ------------------------------------------------------------------------------------------------
// expected listings (driver's own bookkeeping)

type row struct {
	key string // ULID / id ("" for offset-paged listings)
	id  int
	ident string
}

func matchTuple(t tup, f *openfgav1.ReadRequestTupleKey) bool {
	if f == nil {
		return true
	}
	if f.GetObject() != "" {
		ft, fid := tuple.SplitObject(f.GetObject())
		ot, oid := tuple.SplitObject(t.obj)
		if ft != ot || (fid != "" && fid != oid) {
			return false
		}
	}
	if f.GetRelation() != "" && f.GetRelation() != t.rel {
		return false
	}
	if f.GetUser() != "" {
		if strings.HasSuffix(f.GetUser(), ":") {
			if !strings.HasPrefix(t.user, f.GetUser()) {
				return false
			}
		} else if f.GetUser() != t.user {
			return false
		}
	}
	return true
}

func readRows(b *backend, d *dataset, f *openfgav1.ReadRequestTupleKey) []row {
	var rows []row
	for i, t := range d.tuples {
		if matchTuple(t, f) {
			key := ""
			if b.kind == 1 {
				key = b.tupleUlid[t.key()]
			}
			rows = append(rows, row{key, i, t.key()})
		}
	}
	return rows
}

func changeRows(b *backend, d *dataset, typ string) []row {
	var rows []row
	for i, c := range d.changes {
		ot, _ := tuple.SplitObject(c.t.obj)
		if typ == "" || ot == typ {
			key := ""
			if i < len(b.changeUlid) {
				key = b.changeUlid[i]
			}
			rows = append(rows, row{key, i, c.key()})
		}
	}
	return rows
}

func storeRows(d *dataset, name string, ids []string) []row {
	var rows []row
	for i, s := range d.stores {
		if name != "" && s.name != name {
			continue
		}
		if len(ids) > 0 {
			in := false
			for _, x := range ids {
				if x == s.id {
					in = true
				}
			}
			if !in {
				continue
			}
		}
		rows = append(rows, row{s.id, i, s.id})
	}
	return rows
}

func modelRows(d *dataset) []row {
	var rows []row
	for i, id := range d.models {
		rows = append(rows, row{id, i, id})
	}
	return rows
}

// documented order of the listing
func documented(api int, rows []row) []row {
	out := append([]row(nil), rows...)
	switch api {
	case apiStores:
		sort.SliceStable(out, func(i, j int) bool { return out[i].key < out[j].key })
	case apiModels:
		sort.SliceStable(out, func(i, j int) bool { return out[i].key > out[j].key })
	}
	return out
}

func rowsV(rows []row) rec.V {
	vs := make([]rec.V, len(rows))
	for i, r := range rows {
		vs[i] = rec.L(rec.S(r.key), rec.I(r.id))
	}
	return rec.L(vs...)
}

const unknownID = 999999

func identIDs(rows []row, items []string) []int {
	m := map[string]int{}
	for _, r := range rows {
		m[r.ident] = r.id
	}
	ids := make([]int, len(items))
	for i, it := range items {
		if id, ok := m[it]; ok {
			ids[i] = id
		} else {
			ids[i] = unknownID
		}
	}
	return ids
}

// ------------------------------------------------------------------------------------------------
// traversal

type ctxInfo struct {
	seed  uint64
	tier  string
	ds    int
	b     *backend
	d     *dataset
	w     *rec.Writer
	allTu []row // all tuples (identity map for items outside the filter)
}

func qdesc(q query) map[string]any {
	m := map[string]any{"api": apiNames[q.api]}
	if q.filter != nil {
		m["filter"] = map[string]string{"object": q.filter.GetObject(), "relation": q.filter.GetRelation(), "user": q.filter.GetUser()}
	}
	if q.api == apiChanges {
		m["type"] = q.typ
	}
	if q.name != "" {
		m["name"] = q.name
	}
	if len(q.ids) > 0 {
		m["ids"] = len(q.ids)
	}
	return m
}

func (c *ctxInfo) desc(kind string, q query, ps int, extra map[string]any) map[string]any {
	m := map[string]any{"kind": kind, "seed": c.seed, "tier": c.tier, "ds": c.ds, "backend": backendNames[c.b.kind], "q": qdesc(q), "ps": ps}
	for k, v := range extra {
		m[k] = v
	}
	return m
}

func effective(ps int) int {
	if ps <= 0 {
		return storage.DefaultPageSize
	}
	return ps
}

// idUniverse: rows used to map returned identities to ids (for Read: all tuples, so that an item
// outside the filter still gets its id)
func (c *ctxInfo) universe(q query, rows []row) []row {
	switch q.api {
	case apiRead:
		return c.allTu
	case apiChanges:
		return changeRows(c.b, c.d, "")
	case apiStores:
		return storeRows(c.d, "", nil)
	}
	return rows
}

type pageObs struct {
	ids  []int
	next []byte
}

func traverse(ctx context.Context, c *ctxInfo, q query, rows []row, ps int) (tokens []string) {
	w := c.w
	uni := c.universe(q, rows)
	var pages []pageObs
	end := codePage
	token := ""
	limit := len(rows) + 5
	var all []int
	for step := 0; ; step++ {
		if step > limit {
			end = codeRunaway
			break
		}
		out := call(ctx, c.b, q, ps, token)
		if out.code != codePage {
			end = out.code
			break
		}
		dec, ok := decodeWire(out.next)
		if !ok {
			w.PropFail("server issued a token that is not base64", c.desc("traversal", q, ps, map[string]any{"token": out.next}))
			dec = []byte("?")
		}
		ids := identIDs(uni, out.items)
		pages = append(pages, pageObs{ids, dec})
		all = append(all, ids...)
		if len(out.items) > effective(ps) {
			w.PropFail("page longer than the page size", c.desc("traversal", q, ps, map[string]any{"page": step, "len": len(out.items)}))
		}
		w.Stat("pages", 1)
		if q.api == apiChanges {
			if len(out.items) == 0 {
				break
			}
		} else if out.next == "" {
			break
		}
		token = out.next
		tokens = append(tokens, token)
	}
	// property predicate, on the implementation's output alone
	want := documented(q.api, rows)
	okp := end == codePage && len(all) == len(want)
	if okp {
		for i := range want {
			if all[i] != want[i].id {
				okp = false
				break
			}
		}
	}
	if !okp {
		wantIDs := make([]int, len(want))
		for i, r := range want {
			wantIDs[i] = r.id
		}
		w.PropFail("following continuation tokens does not return the expected listing exactly once in documented order",
			c.desc("traversal", q, ps, map[string]any{"end": end, "got": trunc(all), "want": trunc(wantIDs)}))
	}
	pv := make([]rec.V, len(pages))
	for i, p := range pages {
		pv[i] = rec.L(rec.LI(p.ids), rec.B(p.next))
	}
	w.Case(c.desc("traversal", q, ps, map[string]any{"n": len(rows)}),
		rec.I(1), rec.I(q.api), rec.I(c.b.kind), rec.I(ps), rec.S(q.typ), rowsV(rows), rec.L(pv...), rec.I(end))
	w.Stat("traversals_"+apiNames[q.api]+"_"+backendNames[c.b.kind], 1)
	w.Stat("items_returned", len(all))
	if len(rows) == 0 {
		w.Stat("traversals_empty_listing", 1)
	} else if len(rows)%effective(ps) == 0 {
		w.Stat("traversals_exact_page_boundary", 1)
	}
	if len(pages) > 1 {
		w.Stat("traversals_multi_page", 1)
	}
	return tokens
}

func trunc(xs []int) []int {
	if len(xs) > 40 {
		return xs[:40]
	}
	return xs
}

func sizesFor(r *rec.Rand, n int, first bool) []int {
	cand := []int{1, 2, 3, 5, n - 1, n, n + 1, 0, r.Range(1, n+2), r.Range(1, n+2)}
	if first {
		cand = append(cand, -1, storage.DefaultPageSize, storage.DefaultPageSize+1, storage.DefaultPageSize-1)
	}
	seen := map[int]bool{}
	var out []int
	for _, s := range cand {
		if s < -1 || seen[s] {
			continue
		}
		if s < 1 && s != 0 && s != -1 {
			continue
		}
		seen[s] = true
		out = append(out, s)
	}
	return out
}

// ------------------------------------------------------------------------------------------------
// one request with an arbitrary token

func single(ctx context.Context, c *ctxInfo, q query, rows []row, ps int, wire string, why string) {
	w := c.w
	uni := c.universe(q, rows)
	out := call(ctx, c.b, q, ps, wire)
	dec, ok := decodeWire(wire)
	var nextDec []byte
	if out.code == codePage {
		nd, ok2 := decodeWire(out.next)
		if !ok2 {
			w.PropFail("server issued a token that is not base64", c.desc("token", q, ps, map[string]any{"token": out.next}))
		}
		nextDec = nd
		if len(out.items) > effective(ps) {
			w.PropFail("page longer than the page size", c.desc("token", q, ps, map[string]any{"wire": wire}))
		}
	}
	ids := identIDs(uni, out.items)
	w.Case(c.desc("token", q, ps, map[string]any{"wire": wire, "why": why}),
		rec.I(2), rec.I(q.api), rec.I(c.b.kind), rec.I(ps), rec.S(q.typ), rowsV(rows), rec.Bool(ok), rec.B(dec),
		rec.L(rec.I(out.code), rec.LI(ids), rec.B(nextDec)))
	switch {
	case out.code == codePanic:
		w.Stat("token_panic", 1)
		w.PropFail("a continuation token made the request panic", c.desc("token", q, ps, map[string]any{"wire": wire, "why": why}))
	case out.code == codePage && len(out.items) > 0:
		w.Stat("token_accepted_with_items", 1)
	case out.code == codePage:
		w.Stat("token_accepted_empty", 1)
	case out.code == codeInvalid:
		w.Stat("token_rejected_invalid", 1)
	case out.code == codeMismatch:
		w.Stat("token_rejected_type_mismatch", 1)
	default:
		w.Stat("token_rejected_other", 1)
	}
}

func b64(s string) string { return base64.URLEncoding.EncodeToString([]byte(s)) }

func bumpLast(s string, delta int) string {
	if s == "" {
		return s
	}
	b := []byte(s)
	b[len(b)-1] = byte(int(b[len(b)-1]) + delta)
	return string(b)
}

func numericMutations(r *rec.Rand, n int, ps int) []string {
	e := effective(ps)
	xs := []string{
		"0", "1", strconv.Itoa(n - 1), strconv.Itoa(n), strconv.Itoa(n + 1), strconv.Itoa(n + e), strconv.Itoa(n + 50), "99",
		"2147483648", "9223372036854775807", "9223372036854775806", "9223372036854775808", "18446744073709551616", "1" + strings.Repeat("0", 30),
		"-1", "-0", strconv.Itoa(-n), "-9223372036854775808", "-9223372036854775809",
		"+3", "+0", "007", " 3", "3 ", "0x10", "1_0", "1e3", "３", "3.0", "", "abc", "-", "+", "--1",
		strconv.Itoa(r.Range(-5, n+5)), strconv.Itoa(r.Range(0, n+1)), strconv.Itoa(r.Range(0, n+1)),
	}
	return xs
}

func ulidMutations(r *rec.Rand, keys []string) []string {
	xs := []string{"", strings.Repeat("0", 26), "7" + strings.Repeat("Z", 25), "8" + strings.Repeat("0", 25), "99", "-1", "zzz", "0", "3",
		strings.Repeat("0", 25), strings.Repeat("0", 27), "01J" + strings.Repeat("!", 23)}
	if len(keys) > 0 {
		for _, k := range []string{keys[0], keys[len(keys)/2], keys[len(keys)-1], rec.Pick(r, keys)} {
			xs = append(xs, k, bumpLast(k, 1), bumpLast(k, -1), strings.ToLower(k), k[:len(k)-1], k+"0", k[:10]+strings.Repeat("0", 16),
				k[:10]+strings.Repeat("Z", 16), k[:5]+"I"+k[6:], k[:20]+"ULOI"+k[24:], k[:12]+"u"+k[13:], k[:25]+"*")
		}
	}
	return xs
}

// ------------------------------------------------------------------------------------------------
// per data set

func learnUlids(ctx context.Context, c *ctxInfo) {
	b, d := c.b, c.d
	if b.kind == 1 {
		db, err := sql.Open("sqlite", "file:"+b.dbpath)
		if err != nil {
			panic(err)
		}
		defer db.Close()
		b.tupleUlid = map[string]string{}
		rows, err := db.Query("SELECT ulid, object_type, object_id, relation, user_object_type, user_object_id, user_relation FROM tuple WHERE store = ? ORDER BY ulid", b.store)
		if err != nil {
			panic(err)
		}
		var order []string
		for rows.Next() {
			var u, ot, oid, rel, ut, uid, urel string
			if err := rows.Scan(&u, &ot, &oid, &rel, &ut, &uid, &urel); err != nil {
				panic(err)
			}
			t := tup{tuple.BuildObject(ot, oid), rel, tuple.FromUserParts(ut, uid, urel)}
			b.tupleUlid[t.key()] = u
			order = append(order, t.key())
		}
		rows.Close()
		same := len(order) == len(d.tuples)
		for i := 0; same && i < len(order); i++ {
			same = order[i] == d.tuples[i].key()
		}
		if !same {
			c.w.PropFail("sqlite tuple table does not hold the written tuples in commit (ulid) order", map[string]any{"ds": d.idx, "seed": c.seed, "have": len(order), "want": len(d.tuples)})
		}
		rows, err = db.Query("SELECT ulid, operation, object_type, object_id, relation, user_object_type, user_object_id, user_relation FROM changelog WHERE store = ? ORDER BY ulid", b.store)
		if err != nil {
			panic(err)
		}
		b.changeUlid = nil
		i := 0
		okc := true
		for rows.Next() {
			var u, ot, oid, rel, ut, uid, urel string
			var o int
			if err := rows.Scan(&u, &o, &ot, &oid, &rel, &ut, &uid, &urel); err != nil {
				panic(err)
			}
			ch := change{0, tup{tuple.BuildObject(ot, oid), rel, tuple.FromUserParts(ut, uid, urel)}}
			if o == int(openfgav1.TupleOperation_TUPLE_OPERATION_DELETE) {
				ch.op = 1
			}
			if i >= len(d.changes) || d.changes[i].key() != ch.key() {
				okc = false
			}
			b.changeUlid = append(b.changeUlid, u)
			i++
		}
		rows.Close()
		if !okc || i != len(d.changes) {
			c.w.PropFail("sqlite changelog does not hold the history in commit order", map[string]any{"ds": d.idx, "seed": c.seed, "have": i, "want": len(d.changes)})
		}
		return
	}
	// memory: the ULID of change i is the token returned with it when paging one by one
	b.changeUlid = nil
	q := query{api: apiChanges}
	token := ""
	for i := 0; i <= len(d.changes); i++ {
		out := call(ctx, b, q, 1, token)
		if out.code != codePage || len(out.items) == 0 {
			break
		}
		dec, _ := decodeWire(out.next)
		u, _, _ := strings.Cut(string(dec), "|")
		b.changeUlid = append(b.changeUlid, u)
		token = out.next
	}
}

func runDataset(ctx context.Context, w *rec.Writer, seed uint64, tier string, idx int, r *rec.Rand, maxItems, maxSmall int, onlyBackend int) {
	d := genDataset(r.Fork(), idx, maxItems, maxSmall)
	qseed := r.Uint64()
	for kind := 0; kind < 2; kind++ {
		if onlyBackend >= 0 && kind != onlyBackend {
			continue
		}
		var b *backend
		if kind == 0 {
			b = &backend{kind: 0, ds: memory.New()}
		} else {
			var err error
			b, err = newSqlite(fmt.Sprintf("s%d-d%d-%d", seed, idx, os.Getpid()))
			if err != nil {
				panic(err)
			}
		}
		func() {
			defer b.close()
			if err := load(ctx, b, d); err != nil {
				panic(err)
			}
			c := &ctxInfo{seed: seed, tier: tier, ds: idx, b: b, d: d, w: w}
			learnUlids(ctx, c)
			for i, t := range d.tuples {
				c.allTu = append(c.allTu, row{"", i, t.key()})
			}
			runQueries(ctx, c, rec.NewRand(qseed)) // same query choices on both backends
			faultStream(ctx, c, rec.NewRand(qseed^0xfa17), false)
		}()
		w.Stat("datasets_"+backendNames[kind], 1)
	}
	w.Stat("tuples_written", len(d.tuples))
	w.Stat("changes_written", len(d.changes))
	w.Stat("stores_written", len(d.stores))
	w.Stat("models_written", len(d.models))
}

func readFilters(r *rec.Rand, d *dataset) []*openfgav1.ReadRequestTupleKey {
	fs := []*openfgav1.ReadRequestTupleKey{nil}
	if len(d.tuples) == 0 {
		fs = append(fs, &openfgav1.ReadRequestTupleKey{Object: "doc:1"}, &openfgav1.ReadRequestTupleKey{Object: "doc:", User: "user:u1"})
		return fs
	}
	for k := 0; k < 2; k++ {
		t := rec.Pick(r, d.tuples)
		ot, _ := tuple.SplitObject(t.obj)
		ut, _ := tuple.SplitObject(t.user)
		if i := strings.Index(ut, "#"); i >= 0 {
			ut = ut[:i]
		}
		fs = append(fs,
			&openfgav1.ReadRequestTupleKey{Object: t.obj},
			&openfgav1.ReadRequestTupleKey{Object: t.obj, Relation: t.rel},
			&openfgav1.ReadRequestTupleKey{Object: t.obj, Relation: t.rel, User: t.user},
			&openfgav1.ReadRequestTupleKey{Object: t.obj, User: t.user},
			&openfgav1.ReadRequestTupleKey{Object: ot + ":", User: t.user},
			&openfgav1.ReadRequestTupleKey{Object: ot + ":", Relation: t.rel, User: t.user},
			&openfgav1.ReadRequestTupleKey{Object: ot + ":", User: "user:"},
			&openfgav1.ReadRequestTupleKey{Object: ot + ":", Relation: t.rel, User: "user:"},
			&openfgav1.ReadRequestTupleKey{Object: t.obj, User: "group:"},
		)
	}
	fs = append(fs, &openfgav1.ReadRequestTupleKey{Object: "doc:nosuch"}, &openfgav1.ReadRequestTupleKey{Object: "nosuch:", User: "user:u1"})
	return fs
}

func runQueries(ctx context.Context, c *ctxInfo, r *rec.Rand) {
	d, b := c.d, c.b
	type tokCtx struct {
		q    query
		rows []row
		toks []string
	}
	var issued []tokCtx

	// Read
	for fi, f := range readFilters(r, d) {
		q := query{api: apiRead, filter: f}
		rows := readRows(b, d, f)
		for _, ps := range sizesFor(r, len(rows), fi == 0) {
			toks := traverse(ctx, c, q, rows, ps)
			if len(toks) > 0 {
				issued = append(issued, tokCtx{q, rows, toks})
			}
		}
		if f != nil {
			c.w.Stat("read_filter_variants", 1)
		}
	}
	// ReadChanges
	for ti, typ := range []string{"", "doc", "folder", "group", "nosuch"} {
		q := query{api: apiChanges, typ: typ}
		rows := changeRows(b, d, typ)
		for _, ps := range sizesFor(r, len(rows), ti == 0) {
			toks := traverse(ctx, c, q, rows, ps)
			if len(toks) > 0 {
				issued = append(issued, tokCtx{q, rows, toks})
			}
		}
	}
	// ListStores: all, by name, by id subset
	storeQs := []query{{api: apiStores}, {api: apiStores, name: "st-beta"}, {api: apiStores, name: "nosuch"}}
	if len(d.stores) > 1 {
		var ids []string
		for _, s := range d.stores {
			if r.Bool() {
				ids = append(ids, s.id)
			}
		}
		if len(ids) > 0 {
			storeQs = append(storeQs, query{api: apiStores, ids: ids}, query{api: apiStores, ids: ids, name: "st-alpha"})
		}
	}
	for qi, q := range storeQs {
		rows := storeRows(d, q.name, q.ids)
		for _, ps := range sizesFor(r, len(rows), qi == 0) {
			toks := traverse(ctx, c, q, rows, ps)
			if len(toks) > 0 {
				issued = append(issued, tokCtx{q, rows, toks})
			}
		}
	}
	// ReadAuthorizationModels
	{
		q := query{api: apiModels}
		rows := modelRows(d)
		for _, ps := range sizesFor(r, len(rows), true) {
			toks := traverse(ctx, c, q, rows, ps)
			if len(toks) > 0 {
				issued = append(issued, tokCtx{q, rows, toks})
			}
		}
	}

	// ---- token mutation stream
	mr := r.Fork()
	pick := func(n int) int { return rec.Pick(mr, []int{1, 2, 3, 0, n, n + 1, mr.Range(1, n+2)}) }

	// Read
	for _, f := range []*openfgav1.ReadRequestTupleKey{nil, readFilters(mr, d)[2]} {
		q := query{api: apiRead, filter: f}
		rows := readRows(b, d, f)
		n := len(rows)
		if b.kind == 0 {
			for _, x := range numericMutations(mr, n, 2) {
				ps := pick(n)
				single(ctx, c, q, rows, ps, b64(x+"|"), "offset")
				if mr.Chance(1, 4) {
					single(ctx, c, q, rows, ps, b64(x), "offset-no-separator")
					single(ctx, c, q, rows, ps, b64(x+"|doc"), "offset-with-type")
					single(ctx, c, q, rows, ps, b64(x+"||"), "offset-two-separators")
				}
			}
			single(ctx, c, q, rows, 2, b64("01ARZ3NDEKTSV4RRFFQ69G5FAV|"), "ulid-token-on-offset-backend")
		} else {
			var keys []string
			for _, rw := range rows {
				keys = append(keys, rw.key)
			}
			for _, x := range ulidMutations(mr, keys) {
				ps := pick(n)
				single(ctx, c, q, rows, ps, b64(x+"|"), "ulid")
				if mr.Chance(1, 6) {
					single(ctx, c, q, rows, ps, b64(x), "ulid-no-separator")
					single(ctx, c, q, rows, ps, b64(x+"|doc|x"), "ulid-with-type")
				}
			}
			single(ctx, c, q, rows, 2, b64("3|"), "offset-token-on-keyset-backend")
		}
		single(ctx, c, q, rows, 2, b64("|"), "empty-position")
		single(ctx, c, q, rows, 2, b64("|doc"), "empty-position")
		single(ctx, c, q, rows, 2, "!!!!", "not-base64")
		single(ctx, c, q, rows, 2, "abc", "not-base64")
		single(ctx, c, q, rows, 2, "MTI", "not-base64-padding")
	}
	// ReadChanges
	var allKeys []string
	allKeys = append(allKeys, b.changeUlid...)
	for _, typ := range []string{"", "doc", "group"} {
		q := query{api: apiChanges, typ: typ}
		rows := changeRows(b, d, typ)
		n := len(rows)
		for _, x := range ulidMutations(mr, allKeys) {
			ps := pick(n)
			single(ctx, c, q, rows, ps, b64(x+"|"+typ), "ulid")
			if mr.Chance(1, 5) {
				other := rec.Pick(mr, []string{"", "doc", "folder", "group", "doc|x", "Doc", "do"})
				single(ctx, c, q, rows, ps, b64(x+"|"+other), "ulid-other-type")
				single(ctx, c, q, rows, ps, b64(x), "ulid-no-separator")
			}
		}
		single(ctx, c, q, rows, 2, b64("3|"+typ), "offset-token")
		single(ctx, c, q, rows, 2, "!!!!", "not-base64")
	}
	// ListStores / ReadAuthorizationModels
	for _, q := range []query{{api: apiStores}, {api: apiStores, name: "st-beta"}, {api: apiModels}} {
		var rows []row
		if q.api == apiStores {
			rows = storeRows(d, q.name, nil)
		} else {
			rows = modelRows(d)
		}
		n := len(rows)
		var muts []string
		if b.kind == 0 {
			muts = numericMutations(mr, n, 2)
			muts = append(muts, "3|", "01ARZ3NDEKTSV4RRFFQ69G5FAV")
		} else {
			var keys []string
			for _, rw := range documented(q.api, rows) {
				keys = append(keys, rw.key)
			}
			muts = ulidMutations(mr, keys)
			muts = append(muts, "3|")
		}
		for _, x := range muts {
			single(ctx, c, q, rows, pick(n), b64(x), "raw")
		}
		single(ctx, c, q, rows, 2, "!!!!", "not-base64")
	}
	// issued tokens replayed elsewhere: other filter / type / api / page size, truncated, arithmetic
	for k := 0; k < 60 && len(issued) > 0; k++ {
		src := rec.Pick(mr, issued)
		tok := rec.Pick(mr, src.toks)
		dst := rec.Pick(mr, issued)
		ps := pick(len(dst.rows))
		switch mr.Intn(6) {
		case 0: // same query, other page size
			single(ctx, c, src.q, src.rows, pick(len(src.rows)), tok, "issued-other-page-size")
		case 1: // another query's token
			single(ctx, c, dst.q, dst.rows, ps, tok, "issued-by-"+apiNames[src.q.api])
		case 2: // truncated wire
			cut := mr.Range(1, 3)
			if len(tok) > cut {
				single(ctx, c, src.q, src.rows, ps, tok[:len(tok)-cut], "issued-truncated-wire")
			}
		case 3: // truncated payload
			dec, _ := decodeWire(tok)
			cut := mr.Range(1, 3)
			if len(dec) > cut {
				single(ctx, c, src.q, src.rows, ps, base64.URLEncoding.EncodeToString(dec[:len(dec)-cut]), "issued-truncated-payload")
			}
		case 4: // ReadChanges token with every other type filter: must be rejected
			if src.q.api == apiChanges {
				for _, typ := range []string{"", "doc", "folder", "group", "nosuch"} {
					if typ == src.q.typ {
						continue
					}
					q2 := query{api: apiChanges, typ: typ}
					out := call(ctx, c.b, q2, ps, tok)
					if out.code == codePage {
						c.w.PropFail("a ReadChanges token was accepted with a different type filter",
							c.desc("token", q2, ps, map[string]any{"wire": tok, "issued_for": src.q.typ}))
					}
					single(ctx, c, q2, changeRows(b, d, typ), ps, tok, "issued-for-other-type")
					c.w.Stat("changes_token_other_type", 1)
				}
			}
		default: // payload arithmetic on the position part
			dec, _ := decodeWire(tok)
			pos, rest, found := strings.Cut(string(dec), "|")
			if v, err := strconv.Atoi(pos); err == nil {
				pos = strconv.Itoa(v + rec.Pick(mr, []int{-1, 1, -v - 1, 1000}))
			} else {
				pos = bumpLast(pos, rec.Pick(mr, []int{-1, 1}))
			}
			s := pos
			if found {
				s += "|" + rest
			}
			single(ctx, c, src.q, src.rows, ps, b64(s), "issued-arithmetic")
		}
	}
	// the tuple_key restriction of Read
	for _, tkv := range []struct {
		has       bool
		obj, user string
	}{{false, "", ""}, {true, "", ""}, {true, "doc:1", ""}, {true, "doc:", ""}, {true, "doc:", "user:u1"}, {true, "doc", "user:u1"},
		{true, ":1", "user:u1"}, {true, "", "user:u1"}, {true, "doc:1", "user:u1"}, {true, ":", ""}, {true, "doc:1:2", ""}} {
		var f *openfgav1.ReadRequestTupleKey
		if tkv.has {
			f = &openfgav1.ReadRequestTupleKey{Object: tkv.obj, User: tkv.user}
		}
		out := call(ctx, c.b, query{api: apiRead, filter: f}, 2, "")
		c.w.Case(map[string]any{"kind": "tuple_key", "seed": c.seed, "tier": c.tier, "ds": c.ds, "backend": backendNames[b.kind], "object": tkv.obj, "user": tkv.user, "has": tkv.has, "nt": c.ds == 0 && b.kind == 0},
			rec.I(3), rec.Bool(tkv.has), rec.S(tkv.obj), rec.S(tkv.user), rec.Bool(out.code == codeValid))
		if out.code != codePage && out.code != codeValid {
			c.w.PropFail("Read without token failed unexpectedly", map[string]any{"object": tkv.obj, "user": tkv.user, "code": out.code})
		}
	}
}

// runWitness replays the witnesses of the repaired finding F5 (fix 3cab6a7) on
// the real memory backend: five tuples, page size 2, tokens "99|" and "-1|".
func runWitness(ctx context.Context, w *rec.Writer, seed uint64, tier string) {
	d := &dataset{idx: -1}
	for i := 0; i < 5; i++ {
		t := tup{"doc:" + strconv.Itoa(i), "viewer", "user:anne"}
		d.ops = append(d.ops, op{writes: []tup{t}})
		d.tuples = append(d.tuples, t)
		d.changes = append(d.changes, change{0, t})
	}
	b := &backend{kind: 0, ds: memory.New()}
	defer b.close()
	if err := load(ctx, b, d); err != nil {
		panic(err)
	}
	c := &ctxInfo{seed: seed, tier: tier, ds: -1, b: b, d: d, w: w}
	learnUlids(ctx, c)
	for i, t := range d.tuples {
		c.allTu = append(c.allTu, row{"", i, t.key()})
	}
	q := query{api: apiRead}
	rows := readRows(b, d, nil)
	traverse(ctx, c, q, rows, 2)
	// the former F5 witnesses (repaired by 3cab6a7): must never come back
	if out := call(ctx, b, q, 2, b64("99|")); out.code == codePanic || (out.code == codePage && len(out.items) > 0) {
		w.PropFail("memory Read: an offset token beyond the end of the listing returned items again (or panicked) instead of the empty last page or an error",
			c.desc("token", q, 2, map[string]any{"wire": b64("99|"), "why": "F5-witness", "items": len(out.items)}))
	}
	if out := call(ctx, b, q, 2, b64("-1|")); out.code == codePanic || out.code == codePage {
		w.PropFail("memory Read: a negative offset token was not rejected (panic or page)",
			c.desc("token", q, 2, map[string]any{"wire": b64("-1|"), "why": "F5-witness", "code": out.code}))
	}
	single(ctx, c, q, rows, 2, b64("99|"), "F5-witness")
	single(ctx, c, q, rows, 2, b64("-1|"), "F5-witness")
	single(ctx, c, q, rows, 2, b64("4|"), "F5-contrast-in-range")
	single(ctx, c, q, rows, 2, b64("5|"), "F5-contrast-in-range")
	w.Stat("witness_scenarios", 1)
}

// ------------------------------------------------------------------------------------------------
// fault stream (sqlite): the row with a given key cannot be produced -- the table is hidden behind
// a view whose select-list expression for that row raises "integer overflow" at step time, so
// rows.Next() stops there with rows.Err() set (second connection to the same file; the code under
// test is untouched).  Every page request is then repeated: it must fail, or answer exactly as
// without the fault.

type faultSpec struct{ table, keyCol, faultCol string }

var tInstall, tRemove, tReq, tErr time.Duration

var faultTables = map[int]faultSpec{
	apiRead:    {"tuple", "ulid", "relation"},
	apiChanges: {"changelog", "ulid", "relation"},
	apiStores:  {"store", "id", "name"},
	apiModels:  {"authorization_model", "authorization_model_id", "schema_version"},
}

func mustExec(db *sql.DB, q string) {
	if _, err := db.Exec(q); err != nil {
		panic(fmt.Errorf("%s: %w", q, err))
	}
}

func installFault(db *sql.DB, fs faultSpec, key string) {
	rows, err := db.Query("SELECT name FROM pragma_table_info('" + fs.table + "')")
	if err != nil {
		panic(err)
	}
	var cols []string
	for rows.Next() {
		var c string
		if err := rows.Scan(&c); err != nil {
			panic(err)
		}
		if c == fs.faultCol {
			c = fmt.Sprintf("CASE WHEN %s = '%s' THEN abs(-9223372036854775808) ELSE %s END AS %s", fs.keyCol, key, c, c)
		}
		cols = append(cols, c)
	}
	rows.Close()
	if len(cols) == 0 {
		panic("no columns for " + fs.table)
	}
	mustExec(db, "ALTER TABLE "+fs.table+" RENAME TO "+fs.table+"_real")
	mustExec(db, "CREATE VIEW "+fs.table+" AS SELECT "+strings.Join(cols, ", ")+" FROM "+fs.table+"_real")
}

func removeFault(db *sql.DB, fs faultSpec) {
	mustExec(db, "DROP VIEW "+fs.table)
	mustExec(db, "ALTER TABLE "+fs.table+"_real RENAME TO "+fs.table)
}

type reqObs struct {
	ps    int
	token string
	clean outcome
}

func sameOutcome(a, b outcome) bool {
	if a.code != b.code || a.next != b.next || len(a.items) != len(b.items) {
		return false
	}
	for i := range a.items {
		if a.items[i] != b.items[i] {
			return false
		}
	}
	return true
}

// changesPrefixContinuation: a non-empty prefix of the fault-free page whose token is "<ulid of its
// last change>|<type>" -- the next request continues exactly after it.
func changesPrefixContinuation(b *backend, d *dataset, typ string, got, clean outcome) bool {
	if got.code != codePage || clean.code != codePage || len(got.items) == 0 || len(got.items) > len(clean.items) {
		return false
	}
	for i := range got.items {
		if got.items[i] != clean.items[i] {
			return false
		}
	}
	last := got.items[len(got.items)-1]
	for i, ch := range d.changes {
		if ch.key() == last && i < len(b.changeUlid) {
			dec, ok := decodeWire(got.next)
			return ok && string(dec) == b.changeUlid[i]+"|"+typ
		}
	}
	return false
}

func obsV(uni []row, o outcome) rec.V {
	var nd []byte
	if o.code == codePage {
		nd, _ = decodeWire(o.next)
	}
	return rec.L(rec.I(o.code), rec.LI(identIDs(uni, o.items)), rec.B(nd))
}

func faultStream(ctx context.Context, c *ctxInfo, r *rec.Rand, exhaustive bool) {
	b, d, w := c.b, c.d, c.w
	if b.kind != 1 {
		return
	}
	db, err := sql.Open("sqlite", "file:"+b.dbpath+"?_pragma=busy_timeout(5000)&_pragma=synchronous(OFF)")
	if err != nil {
		panic(err)
	}
	defer db.Close()
	for api := apiRead; api <= apiModels; api++ {
		q := query{api: api}
		var rows []row
		switch api {
		case apiRead:
			rows = readRows(b, d, nil)
		case apiChanges:
			rows = changeRows(b, d, "")
		case apiStores:
			rows = storeRows(d, "", nil)
		default:
			rows = modelRows(d)
		}
		n := len(rows)
		if n == 0 {
			continue
		}
		doc := documented(api, rows)
		uni := c.universe(q, rows)
		sizes := []int{1, 2, 3, n, n + 1}
		if exhaustive {
			sizes = []int{1, 2, 3, 5, 10}
		}
		seen := map[int]bool{}
		var reqs []reqObs
		for _, ps := range sizes {
			if seen[ps] {
				continue
			}
			seen[ps] = true
			token := ""
			for step := 0; step <= n+2; step++ {
				out := call(ctx, b, q, ps, token)
				reqs = append(reqs, reqObs{ps, token, out})
				if out.code != codePage || (api == apiChanges && len(out.items) == 0) || (api != apiChanges && out.next == "") {
					break
				}
				token = out.next
			}
		}
		var ks []int
		if exhaustive || n <= 6 {
			for k := 0; k < n; k++ {
				ks = append(ks, k)
			}
		} else {
			ks = []int{0, 1, n / 2, n - 1, r.Intn(n)}
		}
		fs := faultTables[api]
		for _, k := range ks {
			bad := doc[k].key
			t0 := time.Now()
			installFault(db, fs, bad)
			tInstall += time.Since(t0)
			picked := reqs
			if !exhaustive && len(reqs) > 16 {
				picked = nil
				for i := 0; i < 16; i++ {
					picked = append(picked, rec.Pick(r, reqs))
				}
			}
			for _, rq := range picked {
				t2 := time.Now()
				out := call(ctx, b, q, rq.ps, rq.token)
				tReq += time.Since(t2)
				if out.code != codePage {
					tErr += time.Since(t2)
				}
				dec, _ := decodeWire(rq.token)
				w.Case(c.desc("fault", q, rq.ps, map[string]any{"wire": rq.token, "k": k, "n": n}),
					rec.I(4), rec.I(api), rec.I(rq.ps), rec.S(q.typ), rowsV(rows), rec.B(dec), rec.S(bad),
					obsV(uni, out), obsV(uni, rq.clean))
				w.Stat("fault_requests_"+apiNames[api], 1)
				switch {
				case out.code != codePage && out.code != codePanic:
					w.Stat("fault_surfaced_as_error", 1)
				case sameOutcome(out, rq.clean):
					w.Stat("fault_not_reached_same_answer", 1)
				case api == apiChanges && changesPrefixContinuation(b, d, q.typ, out, rq.clean):
					w.Stat("fault_short_page_correct_continuation", 1)
				default:
					w.Stat("fault_deviating_answer", 1)
					w.PropFail("a storage fault in the middle of the result set was answered with a page that differs from the fault-free answer and no error (items silently lost)",
						c.desc("fault", q, rq.ps, map[string]any{"wire": rq.token, "k": k, "n": n, "got_items": len(out.items), "got_token_empty": out.next == "", "want_items": len(rq.clean.items)}))
				}
			}
			t1 := time.Now()
			removeFault(db, fs)
			tRemove += time.Since(t1)
		}
	}
}

// runFaultWitness: five tuples / changes / stores / models on sqlite, a fault on every row in turn,
// page sizes 1,2,3,5,10, every request of the traversal.
func runFaultWitness(ctx context.Context, w *rec.Writer, seed uint64, tier string) {
	d := &dataset{idx: -2}
	r := rec.NewRand(seed ^ 0x5eed)
	for i := 0; i < 5; i++ {
		t := tup{"doc:" + strconv.Itoa(i), "viewer", "user:anne"}
		d.ops = append(d.ops, op{writes: []tup{t}})
		d.tuples = append(d.tuples, t)
		d.changes = append(d.changes, change{0, t})
		d.stores = append(d.stores, idname{ulidFrom(r, 1700000000000+uint64(r.Intn(5000))), "st-alpha"})
		d.models = append(d.models, ulidFrom(r, 1700000000000+uint64(r.Intn(5000))))
	}
	b, err := newSqlite(fmt.Sprintf("s%d-fw-%d", seed, os.Getpid()))
	if err != nil {
		panic(err)
	}
	defer b.close()
	if err := load(ctx, b, d); err != nil {
		panic(err)
	}
	c := &ctxInfo{seed: seed, tier: tier, ds: -2, b: b, d: d, w: w}
	learnUlids(ctx, c)
	for i, t := range d.tuples {
		c.allTu = append(c.allTu, row{"", i, t.key()})
	}
	faultStream(ctx, c, r, true)
	w.Stat("fault_witness_scenarios", 1)
}

// ------------------------------------------------------------------------------------------------
// concurrent writers: k goroutines each doing m single-tuple Writes on one store (distinct tuples,
// tiny random sleeps / yields so that the lock hand-over varies).  Afterwards, with no writer
// running: the unpaged changelog must hold every committed write exactly once, its timestamps
// (the source of the ULID time) must not decrease in returned order on the memory backend -- the
// changelog is in ULID order, which is what resuming with `ulid > token` relies on -- and every
// paged traversal (page sizes 1, 2, 3, 7) must return exactly the unpaged listing.

type changeObs struct {
	key string
	ms  int64
}

func readChangesRaw(ctx context.Context, b *backend, typ string, ps int, token string) (items []changeObs, next string, code int) {
	defer func() {
		if r := recover(); r != nil {
			code = codePanic
		}
	}()
	cmd := commands.NewReadChangesQuery(b.ds, commands.WithReadChangeQueryHorizonOffset(0))
	resp, err := cmd.Execute(ctx, &openfgav1.ReadChangesRequest{StoreId: b.store, Type: typ, PageSize: pageSize(ps), ContinuationToken: token})
	if err != nil {
		return nil, "", classify(err)
	}
	for _, c := range resp.GetChanges() {
		k := c.GetTupleKey()
		o := 0
		if c.GetOperation() == openfgav1.TupleOperation_TUPLE_OPERATION_DELETE {
			o = 1
		}
		items = append(items, changeObs{change{o, tup{k.GetObject(), k.GetRelation(), k.GetUser()}}.key(), c.GetTimestamp().AsTime().UnixMilli()})
	}
	return items, resp.GetContinuationToken(), codePage
}

func concurrentRound(ctx context.Context, w *rec.Writer, seed uint64, tier string, r *rec.Rand, kind, k, m, preload, round int) {
	var b *backend
	if kind == 0 {
		b = &backend{kind: 0, ds: memory.New()}
	} else {
		var err error
		b, err = newSqlite(fmt.Sprintf("s%d-cc%d-%d", seed, round, os.Getpid()))
		if err != nil {
			panic(err)
		}
	}
	defer b.close()
	b.store = ulid.Make().String()
	desc := map[string]any{"kind": "concurrent", "seed": seed, "tier": tier, "ds": -3, "backend": backendNames[kind], "writers": k, "writes_each": m, "round": round}
	// a large store makes every Write hold the lock longer (memory.Write walks all tuples)
	for done := 0; done < preload; {
		var ws storage.Writes
		for i := 0; i < 100 && done < preload; i++ {
			ws = append(ws, &openfgav1.TupleKey{Object: "bulk:" + strconv.Itoa(done), Relation: "viewer", User: "user:bulk"})
			done++
		}
		if err := b.ds.Write(ctx, b.store, nil, ws); err != nil {
			panic(err)
		}
	}
	type res struct{ ok []string }
	results := make([]res, k)
	seeds := make([]uint64, k)
	for i := range seeds {
		seeds[i] = r.Uint64()
	}
	var wg sync.WaitGroup
	start := make(chan struct{})
	for g := 0; g < k; g++ {
		wg.Add(1)
		go func(g int) {
			defer wg.Done()
			lr := rec.NewRand(seeds[g])
			<-start
			for j := 0; j < m; j++ {
				switch lr.Intn(4) {
				case 0:
					runtime.Gosched()
				case 1:
					time.Sleep(time.Duration(lr.Intn(300)) * time.Microsecond)
				case 2:
					time.Sleep(time.Duration(lr.Intn(40)) * time.Microsecond)
				}
				t := tup{"doc:g" + strconv.Itoa(g) + "-" + strconv.Itoa(j), "viewer", "user:w" + strconv.Itoa(g)}
				if err := b.ds.Write(ctx, b.store, nil, storage.Writes{tk(t)}); err == nil {
					results[g].ok = append(results[g].ok, change{0, t}.key())
				}
			}
		}(g)
	}
	close(start)
	wg.Wait()
	time.Sleep(3 * time.Millisecond)
	written := map[string]bool{}
	for _, rs := range results {
		for _, kx := range rs.ok {
			written[kx] = true
		}
	}
	w.Stat("concurrent_rounds_"+backendNames[kind], 1)
	w.Stat("concurrent_writes_committed", len(written))

	// unpaged listing
	full, _, code := readChangesRaw(ctx, b, "doc", len(written)+10, "")
	if code != codePage && !(len(written) == 0) {
		w.PropFail("ReadChanges (one page) failed after concurrent writes", desc)
		return
	}
	seen := map[string]int{}
	for _, it := range full {
		seen[it.key]++
	}
	okSet := len(full) == len(written)
	for kx := range written {
		if seen[kx] != 1 {
			okSet = false
		}
	}
	if !okSet {
		d2 := map[string]any{"listed": len(full), "committed": len(written)}
		for kk, v := range desc {
			d2[kk] = v
		}
		w.PropFail("after concurrent writers the unpaged changelog does not hold every committed write exactly once", d2)
	}
	if kind == 0 {
		inversions := 0
		for i := 1; i < len(full); i++ {
			if full[i].ms < full[i-1].ms {
				inversions++
			}
		}
		if inversions > 0 {
			d2 := map[string]any{"inversions": inversions, "changes": len(full)}
			for kk, v := range desc {
				d2[kk] = v
			}
			w.PropFail("changelog not in ULID order: the millisecond timestamps that seed the changelog ULIDs decrease in commit order (ReadChanges resumes with ulid > token)", d2)
			w.Stat("concurrent_ulid_time_inversions", inversions)
		}
	}
	// paged traversals against the unpaged listing
	var ulids []string
	for _, ps := range []int{1, 2, 3, 7} {
		var got []string
		var pages []pageObs
		token := ""
		end := codePage
		uni := make([]row, len(full))
		for i, it := range full {
			uni[i] = row{"", i, it.key}
		}
		for step := 0; ; step++ {
			if step > len(full)+5 {
				end = codeRunaway
				break
			}
			items, next, c := readChangesRaw(ctx, b, "doc", ps, token)
			if c != codePage {
				end = c
				break
			}
			var ks []string
			for _, it := range items {
				ks = append(ks, it.key)
			}
			got = append(got, ks...)
			dec, _ := decodeWire(next)
			pages = append(pages, pageObs{identIDs(uni, ks), dec})
			if ps == 1 && len(items) == 1 {
				u, _, _ := strings.Cut(string(dec), "|")
				ulids = append(ulids, u)
			}
			if len(items) == 0 {
				break
			}
			token = next
		}
		same := end == codePage && len(got) == len(full)
		for i := 0; same && i < len(got); i++ {
			same = got[i] == full[i].key
		}
		if !same {
			d2 := map[string]any{"ps": ps, "paged": len(got), "unpaged": len(full), "end": end}
			for kk, v := range desc {
				d2[kk] = v
			}
			w.PropFail("after concurrent writers a paged ReadChanges traversal differs from the unpaged listing (a change is missing or repeated)", d2)
		}
		w.Stat("concurrent_traversals", 1)
		// model record (keys = the ULIDs learned from the one-by-one traversal, when it was complete)
		if len(ulids) == len(full) {
			rows := make([]row, len(full))
			for i, it := range full {
				rows[i] = row{ulids[i], i, it.key}
			}
			pv := make([]rec.V, len(pages))
			for i, p := range pages {
				pv[i] = rec.L(rec.LI(p.ids), rec.B(p.next))
			}
			d2 := map[string]any{"ps": ps, "n": len(full)}
			for kk, v := range desc {
				d2[kk] = v
			}
			w.Case(d2, rec.I(1), rec.I(apiChanges), rec.I(kind), rec.I(ps), rec.S("doc"), rowsV(rows), rec.L(pv...), rec.I(end))
		}
	}
}

func runConcurrent(ctx context.Context, w *rec.Writer, seed uint64, tier string) {
	r := rec.NewRand(seed ^ 0xc0c0)
	type cfg struct{ kind, k, m, preload int }
	cfgs := []cfg{{0, 4, 60, 1500}, {0, 8, 50, 1500}, {0, 16, 30, 2000}, {0, 12, 40, 2500}, {1, 4, 10, 0}, {1, 8, 6, 0}}
	if tier == "thorough" {
		cfgs = append(cfgs, cfg{0, 16, 80, 3000}, cfg{0, 8, 120, 3000}, cfg{0, 6, 100, 4000}, cfg{1, 16, 8, 0})
	}
	for i, c := range cfgs {
		concurrentRound(ctx, w, seed, tier, r.Fork(), c.kind, c.k, c.m, c.preload, i)
	}
}

func main() {
	o := rec.ParseFlags()
	w := rec.NewWriter(o.Out)
	defer w.Close()
	defer os.RemoveAll(scratch)
	ctx := context.Background()
	maxItems, maxSmall := 60, 60
	if o.Tier == "thorough" {
		maxItems, maxSmall = 300, 120
	}
	if o.Replay != "" {
		// a replay re-generates the data sets named in the descriptions (seed, ds, tier, backend) and
		// re-runs all their cases; ULIDs are fresh, everything else is identical
		data, err := os.ReadFile(o.Replay)
		if err != nil {
			panic(err)
		}
		type key struct {
			seed    uint64
			ds      int
			tier    string
			backend int
		}
		done := map[key]bool{}
		for _, line := range strings.Split(string(data), "\n") {
			var m map[string]any
			if json.Unmarshal([]byte(line), &m) != nil || m == nil {
				continue
			}
			seed, _ := m["seed"].(float64)
			ds, _ := m["ds"].(float64)
			tier, _ := m["tier"].(string)
			bk := -1
			if s, ok := m["backend"].(string); ok && s == "sqlite" {
				bk = 1
			} else if ok {
				bk = 0
			}
			k := key{uint64(seed), int(ds), tier, bk}
			if done[k] || k.seed == 0 {
				continue
			}
			done[k] = true
			if k.ds == -3 {
				runConcurrent(ctx, w, k.seed, tier)
				continue
			}
			if k.ds == -2 {
				runFaultWitness(ctx, w, k.seed, tier)
				continue
			}
			if k.ds < 0 {
				runWitness(ctx, w, k.seed, tier)
				continue
			}
			mi, ms := 60, 60
			if tier == "thorough" {
				mi, ms = 300, 120
			}
			r := rec.NewRand(k.seed)
			for i := 0; i <= k.ds; i++ {
				f := r.Fork()
				if i == k.ds {
					runDataset(ctx, w, k.seed, tier, i, f, mi, ms, bk)
				}
			}
		}
		return
	}
	runWitness(ctx, w, o.Seed, o.Tier)
	runFaultWitness(ctx, w, o.Seed, o.Tier)
	runConcurrent(ctx, w, o.Seed, o.Tier)
	r := rec.NewRand(o.Seed)
	for i := 0; i < o.N; i++ {
		runDataset(ctx, w, o.Seed, o.Tier, i, r.Fork(), maxItems, maxSmall, -1)
	}
	if os.Getenv("C14_TIMING") != "" {
		fmt.Fprintln(os.Stderr, "install", tInstall, "remove", tRemove, "req", tReq, "err", tErr)
	}
}
