//go:build verif

// Driver for C20 ("queries terminate and release their resources").
//
// SUPPORT, not proof: the real server (pkg/server, all six query APIs) runs on cyclic and wide
// data behind a counting datastore with short deadlines (1-50 ms, server-side for ListObjects /
// ListUsers, context deadline for all) and client-side cancellation at random points.  Observed
// per call: wall time against the effective deadline; per batch: goroutine census against the
// baseline (goleak style, polled until clean or a grace period) and iterator accounting (every
// iterator returned by a Read* method must be stopped).  For the scenarios that are small
// enough, the outcome of the real Check (default strategy, no deadline) is recorded so that the
// oracle can run the algorithm model Check/V1.v with the fuel bounds of the termination
// theorems and compare.
package main

import (
	"bufio"
	"context"
	"encoding/json"
	"errors"
	"fmt"
	"os"
	"path/filepath"
	"runtime"
	"sort"
	"strconv"
	"strings"
	"sync"
	"sync/atomic"
	"time"

	openfgav1 "github.com/openfga/api/proto/openfga/v1"
	"google.golang.org/grpc"
	"google.golang.org/grpc/codes"
	"google.golang.org/grpc/metadata"
	"google.golang.org/grpc/status"

	"github.com/openfga/openfga/internal/graph"
	"github.com/openfga/openfga/internal/verifharness/lib/rec"
	"github.com/openfga/openfga/internal/verifharness/lib/scen"
	"github.com/openfga/openfga/internal/verifharness/lib/storegen"
	"github.com/openfga/openfga/pkg/logger"
	"github.com/openfga/openfga/pkg/server"
	serverconfig "github.com/openfga/openfga/pkg/server/config"
	"github.com/openfga/openfga/pkg/storage"
	"github.com/openfga/openfga/pkg/storage/memory"
)

const (
	slack      = 3 * time.Second  // scheduling slack on top of the effective deadline
	grace      = 6 * time.Second  // goroutines / iterators must be gone this long after the batch
	noDeadline = 20 * time.Second // bound of calls made without a short deadline (small data only)
	// truthWatchdog: a Check on a SMALL scenario (milliseconds of work) that has not returned after
	// this long is a hang, not load; the first hang ends the no-deadline checks of the whole run.
	truthWatchdog = 8 * time.Second
	// hangMargin: a call that has not returned at effective deadline + slack + hangMargin is
	// abandoned (recorded with that elapsed time: a deadline overrun) and the run is cut short.
	hangMargin = 2 * time.Second
)

var apiNames = []string{"check", "batchcheck", "listobjects", "streamedlistobjects", "listusers", "expand"}

const (
	apiCheck = iota
	apiBatch
	apiLO
	apiSLO
	apiLU
	apiExpand
)

// Config is the server / datastore configuration of one scenario (all derived from its seed).
type Config struct {
	Backend       string `json:"backend"`
	Pipeline      bool   `json:"pipeline"`
	LOOpt         bool   `json:"lo_opt"`
	V2Check       bool   `json:"v2_check"`
	QueryCache    bool   `json:"query_cache"`
	IterCache     bool   `json:"iter_cache"`
	LOIterCache   bool   `json:"lo_iter_cache"`
	SharedIter    bool   `json:"shared_iter"`
	DispThrottle  bool   `json:"dispatch_throttle"`
	DSThrottle    bool   `json:"ds_throttle"`
	Breadth       int    `json:"breadth"`
	MaxReads      int    `json:"max_reads"`
	Depth         int    `json:"depth"`
	LODeadlineMs  int    `json:"lo_deadline_ms"`
	LUDeadlineMs  int    `json:"lu_deadline_ms"`
	LOMax         int    `json:"lo_max"`
	LUMax         int    `json:"lu_max"`
	ReadDelayUs   int    `json:"read_delay_us"`
	NextDelayUs   int    `json:"next_delay_us"`
	Parallel      int    `json:"parallel"`
	Batches       int    `json:"batches"`
	CallsPerBatch int    `json:"calls_per_batch"`
}

type Desc struct {
	Kind   string `json:"kind"`
	Seed   string `json:"seed"` // the scenario's own seed (decimal uint64)
	Tier   string `json:"tier"`
	Shape  string `json:"shape,omitempty"`
	Size   int    `json:"size,omitempty"`
	Tuples int    `json:"tuples,omitempty"`
	Small  bool   `json:"small"`
	Cfg    Config `json:"cfg"`
	// observations that are not part of the oracle's record
	Leaked    []string `json:"leaked_goroutines,omitempty"`
	IterSites []string `json:"unstopped_iterators,omitempty"`
	Overruns  []string `json:"overruns,omitempty"`
	// overruns that did not repeat when the request was re-executed alone (not a violation)
	Inconclusive []string `json:"inconclusive_overruns,omitempty"`
	HangDumps    []string `json:"hang_dumps,omitempty"`
	NT           *bool    `json:"nt,omitempty"`
}

type streamSrv struct {
	grpc.ServerStream
	ctx context.Context
	mu  sync.Mutex
	n   int
}

func (s *streamSrv) Send(m *openfgav1.StreamedListObjectsResponse) error {
	s.mu.Lock()
	s.n++
	s.mu.Unlock()
	return nil
}
func (s *streamSrv) Context() context.Context     { return s.ctx }
func (s *streamSrv) SetHeader(metadata.MD) error  { return nil }
func (s *streamSrv) SendHeader(metadata.MD) error { return nil }
func (s *streamSrv) SetTrailer(metadata.MD)       {}

type call struct {
	api       int
	obj, rel  string
	user      string
	typ       string
	users     []string // batch check
	timeoutUs int      // context deadline, 0 = none
	cancelUs  int      // client cancellation, 0 = none
}

type obs struct {
	api       int
	effUs     int64
	elapsedUs int64
	class     string
	n         int
	items     [4]int       // batch check items: ok, deadline, cancelled, other error
	hung      bool         // abandoned by the watchdog: the call never returned
	dump      string       // summary of the goroutine dump taken when the call was abandoned
	confirmed bool         // the overrun happened again when the request was re-executed alone
	done      chan callRes // abandoned call: receives when it finally returns
	start     time.Time
}

type runner struct {
	w   *rec.Writer
	r   *rec.Rand
	sh  *scen.C20Shape
	env *scen.Env
	ds  *countDS
	srv *server.Server
	cfg Config

	truthDumps []string
}

func classOf(err error) string {
	if err == nil {
		return "ok"
	}
	switch {
	case errors.Is(err, context.DeadlineExceeded):
		return "deadline"
	case errors.Is(err, context.Canceled):
		return "canceled"
	}
	if st, ok := status.FromError(err); ok {
		switch st.Code() {
		case codes.DeadlineExceeded:
			return "deadline"
		case codes.Canceled:
			return "canceled"
		case codes.InvalidArgument:
			return "invalid"
		}
		switch int(st.Code()) {
		case 2002:
			return "depth"
		case 2058:
			return "canceled"
		case 4004:
			return "deadline"
		case 3500:
			return "throttled_timeout"
		case 4000:
			return "internal_error"
		}
		msg := st.Message()
		switch {
		case strings.Contains(msg, "too complex"):
			return "depth"
		case strings.Contains(msg, "deadline") || strings.Contains(msg, "timeout") || strings.Contains(msg, "timed out"):
			return "deadline"
		case strings.Contains(msg, "canceled") || strings.Contains(msg, "cancelled"):
			return "canceled"
		}
		return "code_" + strconv.Itoa(int(st.Code()))
	}
	return "error"
}

// exec runs one call against the real server and measures it.
func (x *runner) exec(c call) obs {
	ctx := context.Background()
	var cancels []context.CancelFunc
	eff := int64(0)
	setEff := func(us int64) {
		if us > 0 && (eff == 0 || us < eff) {
			eff = us
		}
	}
	if c.timeoutUs > 0 {
		var cf context.CancelFunc
		ctx, cf = context.WithTimeout(ctx, time.Duration(c.timeoutUs)*time.Microsecond)
		cancels = append(cancels, cf)
		setEff(int64(c.timeoutUs))
	}
	var timer *time.Timer
	if c.cancelUs > 0 {
		var cf context.CancelFunc
		ctx, cf = context.WithCancel(ctx)
		cancels = append(cancels, cf)
		timer = time.AfterFunc(time.Duration(c.cancelUs)*time.Microsecond, cf)
		setEff(int64(c.cancelUs))
	}
	switch c.api {
	case apiLO, apiSLO:
		setEff(int64(x.cfg.LODeadlineMs) * 1000)
	case apiLU:
		setEff(int64(x.cfg.LUDeadlineMs) * 1000)
	}
	if eff == 0 {
		var cf context.CancelFunc
		ctx, cf = context.WithTimeout(ctx, noDeadline)
		cancels = append(cancels, cf)
		eff = noDeadline.Microseconds()
	}
	start := time.Now()
	done := make(chan callRes, 1)
	go x.invoke(ctx, c, done)
	wd := time.NewTimer(time.Duration(eff)*time.Microsecond + slack + hangMargin)
	var res callRes
	hung := false
	select {
	case res = <-done:
	case <-wd.C:
		hung = true
	}
	wd.Stop()
	el := time.Since(start)
	if timer != nil {
		timer.Stop()
	}
	for _, cf := range cancels {
		cf()
	}
	if hung {
		dump := dumpAll(fmt.Sprintf("%s %s#%s@%s type=%s abandoned after %v (effective deadline %d us)", apiNames[c.api], c.obj, c.rel, c.user, c.typ, el, eff))
		return obs{api: c.api, effUs: eff, elapsedUs: el.Microseconds(), class: "hung", hung: true, dump: dump, done: done, start: start}
	}
	return obs{api: c.api, effUs: eff, elapsedUs: el.Microseconds(), class: classOf(res.err), n: res.n, items: res.items}
}

type callRes struct {
	err   error
	n     int
	items [4]int
}

// invoke performs the API call; it runs in its own goroutine so that a call that never returns
// can be abandoned by exec.
func (x *runner) invoke(ctx context.Context, c call, done chan<- callRes) {
	store, model := x.env.StoreID, x.env.Model.GetId()
	reqCtx := scen.Struct(x.env.S.ReqCtx)
	var err error
	n := 0
	var items [4]int
	switch c.api {
	case apiCheck:
		var resp *openfgav1.CheckResponse
		resp, err = x.srv.Check(ctx, &openfgav1.CheckRequest{StoreId: store, AuthorizationModelId: model,
			TupleKey: &openfgav1.CheckRequestTupleKey{Object: c.obj, Relation: c.rel, User: c.user}, Context: reqCtx})
		if resp.GetAllowed() {
			n = 1
		}
	case apiBatch:
		req := &openfgav1.BatchCheckRequest{StoreId: store, AuthorizationModelId: model}
		for i, u := range c.users {
			req.Checks = append(req.Checks, &openfgav1.BatchCheckItem{
				TupleKey:      &openfgav1.CheckRequestTupleKey{Object: c.obj, Relation: c.rel, User: u},
				CorrelationId: fmt.Sprintf("c%d", i), Context: reqCtx})
		}
		var resp *openfgav1.BatchCheckResponse
		resp, err = x.srv.BatchCheck(ctx, req)
		n = len(resp.GetResult())
		for _, it := range resp.GetResult() {
			switch {
			case it.GetError() == nil:
				items[0]++
			case it.GetError().GetInternalError() == openfgav1.InternalErrorCode_deadline_exceeded:
				items[1]++
			case it.GetError().GetInputError() == openfgav1.ErrorCode_cancelled:
				items[2]++
			default:
				items[3]++
				if os.Getenv("C20_DEBUG") == "3" {
					fmt.Fprintln(os.Stderr, "batch item error:", it.GetError().GetInputError(), it.GetError().GetInternalError(), it.GetError().GetMessage())
				}
			}
		}
	case apiLO:
		var resp *openfgav1.ListObjectsResponse
		resp, err = x.srv.ListObjects(ctx, &openfgav1.ListObjectsRequest{StoreId: store, AuthorizationModelId: model,
			Type: c.typ, Relation: c.rel, User: c.user, Context: reqCtx})
		n = len(resp.GetObjects())
	case apiSLO:
		ss := &streamSrv{ctx: ctx}
		err = x.srv.StreamedListObjects(&openfgav1.StreamedListObjectsRequest{StoreId: store, AuthorizationModelId: model,
			Type: c.typ, Relation: c.rel, User: c.user, Context: reqCtx}, ss)
		ss.mu.Lock()
		n = ss.n
		ss.mu.Unlock()
	case apiLU:
		t, id := scen.SplitObj(c.obj)
		ft, _, frel := scen.SplitUser(c.user)
		var resp *openfgav1.ListUsersResponse
		resp, err = x.srv.ListUsers(ctx, &openfgav1.ListUsersRequest{StoreId: store, AuthorizationModelId: model,
			Object: &openfgav1.Object{Type: t, Id: id}, Relation: c.rel,
			UserFilters: []*openfgav1.UserTypeFilter{{Type: ft, Relation: frel}}, Context: reqCtx})
		n = len(resp.GetUsers())
	case apiExpand:
		var resp *openfgav1.ExpandResponse
		resp, err = x.srv.Expand(ctx, &openfgav1.ExpandRequest{StoreId: store, AuthorizationModelId: model,
			TupleKey: &openfgav1.ExpandRequestTupleKey{Object: c.obj, Relation: c.rel}})
		if resp.GetTree() != nil {
			n = 1
		}
	}
	done <- callRes{err: err, n: n, items: items}
}

// relsOf returns the relations defined on the type of an object (or type name).
func (x *runner) relsOf(typ string) []string {
	td := x.sh.S.Type(typ)
	if td == nil {
		return nil
	}
	var out []string
	for _, rd := range td.Rels {
		out = append(out, rd.Name)
	}
	return out
}

func (x *runner) genCall() (call, bool) {
	r := x.r
	sh := x.sh
	c := call{api: r.Intn(len(apiNames))}
	if len(sh.Targets) == 0 || len(sh.Users) == 0 || len(sh.ObjTypes) == 0 {
		return c, false
	}
	plainUsers := func() []string {
		var us []string
		for _, u := range sh.Users {
			if !strings.Contains(u, "*") {
				us = append(us, u)
			}
		}
		return us
	}
	switch c.api {
	case apiCheck, apiBatch, apiExpand, apiLU:
		c.obj = rec.Pick(r, sh.Targets)
		if r.Chance(1, 3) {
			c.obj = sh.Targets[0] // the top of the shape: the heaviest sub-problem
		}
		t, _ := scen.SplitObj(c.obj)
		rels := x.relsOf(t)
		if len(rels) == 0 {
			return c, false
		}
		c.rel = rec.Pick(r, rels)
		us := plainUsers()
		if len(us) == 0 {
			return c, false
		}
		c.user = rec.Pick(r, us)
		if c.api == apiBatch {
			k := r.Range(1, 12)
			for i := 0; i < k; i++ {
				c.users = append(c.users, rec.Pick(r, us))
			}
		}
		if c.api == apiLU {
			// user filter: a type (user, or the type of a userset subject), sometimes type#relation
			u := rec.Pick(r, sh.Users)
			ut, _, urel := scen.SplitUser(u)
			c.user = ut + ":x"
			if urel != "" && r.Bool() {
				c.user = ut + ":x#" + urel
			}
		}
	default:
		c.typ = rec.Pick(r, sh.ObjTypes)
		rels := x.relsOf(c.typ)
		if len(rels) == 0 {
			return c, false
		}
		c.rel = rec.Pick(r, rels)
		c.user = rec.Pick(r, sh.Users)
	}
	// deadline / cancellation mix
	switch r.Intn(10) {
	case 0, 1, 2, 3: // context deadline 1-50 ms
		c.timeoutUs = r.Range(1000, 50000)
	case 4, 5, 6: // client cancellation at a random point, sometimes almost immediately
		if r.Chance(1, 4) {
			c.cancelUs = r.Range(1, 500)
		} else {
			c.cancelUs = r.Range(200, 50000)
		}
	case 7: // both
		c.timeoutUs = r.Range(1000, 50000)
		c.cancelUs = r.Range(100, 50000)
	case 8: // sub-millisecond deadline
		c.timeoutUs = r.Range(20, 1000)
	default: // only the server-side deadline (ListObjects / ListUsers), else 50 ms
		if c.api != apiLO && c.api != apiSLO && c.api != apiLU {
			c.timeoutUs = 50000
		}
	}
	return c, true
}

func (x *runner) serverOpts() []server.OpenFGAServiceV1Option {
	c := x.cfg
	opts := []server.OpenFGAServiceV1Option{
		server.WithDatastore(noCloseDS{x.ds}),
		server.WithLogger(logger.NewNoopLogger()),
		server.WithResolveNodeLimit(uint32(c.Depth)),
		server.WithResolveNodeBreadthLimit(uint32(c.Breadth)),
		server.WithMaxConcurrentReadsForCheck(uint32(c.MaxReads)),
		server.WithMaxConcurrentReadsForListObjects(uint32(c.MaxReads)),
		server.WithMaxConcurrentReadsForListUsers(uint32(c.MaxReads)),
		server.WithListObjectsDeadline(time.Duration(c.LODeadlineMs) * time.Millisecond),
		server.WithListUsersDeadline(time.Duration(c.LUDeadlineMs) * time.Millisecond),
		server.WithListObjectsMaxResults(uint32(c.LOMax)),
		server.WithListUsersMaxResults(uint32(c.LUMax)),
		server.WithRequestTimeout(100 * time.Millisecond),
		server.WithListObjectsPipelineEnabled(c.Pipeline),
		server.WithCheckQueryCacheEnabled(c.QueryCache),
		server.WithCheckIteratorCacheEnabled(c.IterCache),
		server.WithListObjectsIteratorCacheEnabled(c.LOIterCache),
		server.WithSharedIteratorEnabled(c.SharedIter),
	}
	var exp []string
	if c.Pipeline {
		exp = append(exp, serverconfig.ExperimentalPipelineListObjects)
	}
	if c.LOOpt {
		exp = append(exp, serverconfig.ExperimentalListObjectsOptimizations)
	}
	if c.V2Check {
		exp = append(exp, serverconfig.ExperimentalWeightedGraphCheck)
	}
	if c.DSThrottle {
		exp = append(exp, serverconfig.ExperimentalDatastoreThrottling)
		opts = append(opts, server.WithCheckDatabaseThrottle(3, 2*time.Millisecond),
			server.WithListObjectsDatabaseThrottle(3, 2*time.Millisecond),
			server.WithListUsersDatabaseThrottle(3, 2*time.Millisecond))
	}
	opts = append(opts, server.WithExperimentals(exp...))
	if c.DispThrottle {
		opts = append(opts,
			server.WithDispatchThrottlingCheckResolverEnabled(true),
			server.WithDispatchThrottlingCheckResolverFrequency(2*time.Millisecond),
			server.WithDispatchThrottlingCheckResolverThreshold(5),
			server.WithDispatchThrottlingCheckResolverMaxThreshold(10),
			server.WithListObjectsDispatchThrottlingEnabled(true),
			server.WithListObjectsDispatchThrottlingFrequency(2*time.Millisecond),
			server.WithListObjectsDispatchThrottlingThreshold(5),
			server.WithListObjectsDispatchThrottlingMaxThreshold(10),
			server.WithListUsersDispatchThrottlingEnabled(true),
			server.WithListUsersDispatchThrottlingFrequency(2*time.Millisecond),
			server.WithListUsersDispatchThrottlingThreshold(5),
			server.WithListUsersDispatchThrottlingMaxThreshold(10))
	}
	return opts
}

func genConfig(r *rec.Rand, tier string) Config {
	c := Config{
		Pipeline:      r.Chance(1, 2),
		LOOpt:         r.Chance(1, 3),
		V2Check:       r.Chance(1, 4),
		QueryCache:    r.Chance(1, 4),
		IterCache:     r.Chance(1, 4),
		LOIterCache:   r.Chance(1, 4),
		SharedIter:    r.Chance(1, 4),
		DispThrottle:  r.Chance(1, 5),
		DSThrottle:    r.Chance(1, 6),
		Breadth:       rec.Pick(r, []int{1, 2, 5, 10, 10, 25, 25}),
		MaxReads:      rec.Pick(r, []int{1, 3, 10, 30, 30}),
		Depth:         25,
		LODeadlineMs:  r.Range(1, 50),
		LUDeadlineMs:  r.Range(1, 50),
		LOMax:         rec.Pick(r, []int{1, 10, 1000, 1000}),
		LUMax:         rec.Pick(r, []int{1, 10, 1000, 1000}),
		Parallel:      r.Range(1, 4),
		Batches:       3,
		CallsPerBatch: 10,
	}
	if r.Chance(1, 5) {
		c.Depth = r.Range(3, 30)
	}
	switch r.Intn(6) {
	case 0: // no latency: pure CPU
	case 1, 2:
		c.ReadDelayUs = r.Range(100, 1500)
	case 3:
		c.NextDelayUs = r.Range(10, 100)
	default:
		c.ReadDelayUs = r.Range(100, 1000)
		c.NextDelayUs = r.Range(5, 60)
	}
	if tier == "thorough" {
		c.Batches = 5
		c.CallsPerBatch = 14
	}
	return c
}

func genShape(r *rec.Rand, tier string) (*scen.C20Shape, string) {
	big := tier == "thorough"
	switch r.Intn(10) {
	case 0, 1:
		return scen.C20Chain(r, r.Range(18, 34)), "chain"
	case 2, 3:
		k := r.Range(3, 12)
		return scen.C20DenseCycle(r, k, r.Range(40, 100)), "dense"
	case 4, 5:
		n := r.Range(150, 1500)
		if big && r.Chance(1, 3) {
			n = r.Range(1500, 4000)
		}
		return scen.C20Wide(r, n), "wide"
	case 6:
		return scen.C20CyclicOps(r, r.Range(3, 10)), "cyclic-ops"
	default:
		o := scen.DefaultOpts()
		return scen.C20FromGenerated(r, scen.Generate(r, o)), "generated"
	}
}

// truth records, for small scenarios, the outcome of the real Check (default strategy, no
// caches, generous timeout) for Targets x relations x Users, in the C01 record layout.
func (x *runner) truth(ctx context.Context, in *scen.Intern) (rec.V, rec.V, rec.V, rec.V, rec.V) {
	s := x.sh.S
	model := in.Model(s)
	conds := in.Conds(s)
	var tvs []rec.V
	for _, t := range s.Tuples {
		tvs = append(tvs, in.Tuple(t, x.env.CEval(ctx, t)))
	}
	objects := s.Objects(append(append([]string{}, x.sh.Users...), x.sh.Targets...)...)
	atoms := in.Atoms(s, objects)
	resolver, closer := scen.Resolver(scen.NewForcedPlanner("default"), uint32(x.cfg.Depth))
	defer closer()
	var svs []rec.V
	for _, sub := range x.sh.Users {
		if truthHung {
			break
		}
		var pxs []rec.V
		for _, p := range x.env.PathX(sub) {
			pxs = append(pxs, rec.L(rec.I(in.T(p[0])), rec.I(in.R(p[1]))))
		}
		var res []rec.V
		for _, o := range x.sh.Targets {
			ot, _ := scen.SplitObj(o)
			for _, rel := range x.relsOf(ot) {
				if truthHung {
					break
				}
				out := x.truthCheck(ctx, resolver, o, rel, sub)
				if out == scen.OutTimeout {
					// confirm: the same Check once more, alone
					if out = x.truthCheck(ctx, resolver, o, rel, sub); out != scen.OutTimeout {
						x.w.Stat("inconclusive_overruns", 1)
						fmt.Fprintf(os.Stderr, "c20: inconclusive hang of the no-deadline Check %s#%s@%s (answered on re-execution)\n", o, rel, sub)
					}
				}
				if out == scen.OutTimeout {
					// the first hang ends the no-deadline checks of this scenario and of the run
					truthHung = true
					x.w.Stat("truth_hang", 1)
				}
				x.w.Stat("truth_requests", 1)
				x.w.Stat("truth_"+[]string{"allowed", "denied", "denied_cycle", "err_cond", "err_depth", "err_other", "timeout", "invalid"}[out], 1)
				a, b := in.Obj(o)
				res = append(res, rec.L(a, b, rec.I(in.R(rel)), rec.I(out)))
			}
		}
		svs = append(svs, rec.L(in.Subject(sub), rec.L(pxs...), rec.L(res...)))
	}
	return model, conds, rec.L(tvs...), atoms, rec.L(svs...)
}

func runScenario(w *rec.Writer, seed uint64, tier string) {
	t0 := time.Now()
	defer func() {
		statMax(w, "max_scenario_ms", int(time.Since(t0).Milliseconds()))
		if os.Getenv("C20_DEBUG") != "" {
			fmt.Fprintf(os.Stderr, "scenario %d took %v\n", seed, time.Since(t0))
		}
	}()
	r := rec.NewRand(seed)
	sh, kind := genShape(r, tier)
	cfg := genConfig(r, tier)
	desc := Desc{Kind: kind, Seed: strconv.FormatUint(seed, 10), Tier: tier, Shape: sh.S.Shape, Size: sh.Size,
		Tuples: len(sh.S.Tuples), Small: sh.Small, Cfg: cfg}
	ctx := context.Background()

	// backend: memory, or (smaller data, one scenario in four) sqlite on a scratch file: real
	// database/sql rows behind the iterators, real context propagation
	cfg.Backend = "memory"
	if len(sh.S.Tuples) <= 700 && r.Chance(1, 4) {
		cfg.Backend = "sqlite"
	}
	desc.Cfg = cfg
	g0 := settle(500 * time.Millisecond) // process-level baseline
	var inner storage.OpenFGADatastore
	sqlitePath := ""
	if cfg.Backend == "sqlite" {
		b, err := storegen.NewSqlite()
		if err != nil {
			panic(err)
		}
		inner, sqlitePath = b.DS, b.Path
	} else {
		inner = memory.New()
	}
	defer func() {
		if sqlitePath != "" {
			storegen.RemoveDB(sqlitePath)
		}
	}()
	ds := newCountDS(inner)
	env, err := scen.NewEnvOn(ctx, ds, sh.S)
	if err != nil {
		ds.Close()
		if errors.Is(err, scen.ErrModelRejected) {
			w.Stat("models_rejected", 1)
			w.Stat("models_rejected_"+kind, 1)
			if os.Getenv("C20_DEBUG") != "" {
				fmt.Fprintln(os.Stderr, "rejected", kind, sh.S.Shape, err)
			}
			return
		}
		panic(err)
	}
	x := &runner{w: w, r: r, sh: sh, env: env, ds: ds, cfg: cfg}
	gd := snapshot() // baseline with the datastore's own workers (database/sql connection opener)
	if os.Getenv("C20_DEBUG") != "" {
		fmt.Fprintf(os.Stderr, "scenario %d %s %s size=%d tuples=%d small=%v setup=%v\n", seed, kind, sh.S.Shape, sh.Size, len(sh.S.Tuples), sh.Small, time.Since(t0))
	}
	w.Stat("scenarios", 1)
	w.Stat("shape_"+kind, 1)
	w.Stat("backend_"+cfg.Backend, 1)
	w.Stat("tuples", len(sh.S.Tuples))

	// ---- model side (small scenarios): outcome of the real Check without deadlines
	model, conds, tuples, atoms, subjects := rec.L(), rec.L(), rec.L(), rec.L(), rec.L()
	withModel := 0
	if sh.Small && truthHung {
		w.Stat("truth_skipped_after_hang", 1)
	}
	if sh.Small && !truthHung {
		in := scen.NewIntern()
		model, conds, tuples, atoms, subjects = x.truth(ctx, in)
		withModel = 1
		w.Stat("scenarios_with_model_run", 1)
	}
	// the truth pass must itself be clean
	var leakedDesc []string
	leakedN := 0
	if l := waitGoroutines(gd, allowRequestScope, grace); len(l) > 0 {
		leakedN += len(l)
		leakedDesc = append(leakedDesc, "after the no-deadline checks: "+describe(l, 4))
		for _, g := range l {
			g0[g.id] = g
		}
	}

	// ---- the server
	ds.readDelay.Store(int64(cfg.ReadDelayUs) * 1000)
	ds.nextDelay.Store(int64(cfg.NextDelayUs) * 1000)
	x.srv = server.MustNewServerWithOpts(x.serverOpts()...)
	for _, k := range []string{"pipeline", "lo_opt", "v2_check", "query_cache", "iter_cache", "lo_iter_cache", "shared_iter", "dispatch_throttle", "ds_throttle"} {
		on := map[string]bool{"pipeline": cfg.Pipeline, "lo_opt": cfg.LOOpt, "v2_check": cfg.V2Check, "query_cache": cfg.QueryCache,
			"iter_cache": cfg.IterCache, "lo_iter_cache": cfg.LOIterCache, "shared_iter": cfg.SharedIter,
			"dispatch_throttle": cfg.DispThrottle, "ds_throttle": cfg.DSThrottle}[k]
		if on {
			w.Stat("cfg_"+k, 1)
		}
	}
	if cfg.ReadDelayUs > 0 || cfg.NextDelayUs > 0 {
		w.Stat("cfg_datastore_latency", 1)
	}
	// warm-up (typesystem resolution, lazily started server-lifetime workers), then the baseline
	for api := 0; api < len(apiNames); api++ {
		for tries := 0; tries < 20; tries++ {
			if c, ok := x.genCall(); ok && c.api == api {
				c.timeoutUs, c.cancelUs = 100000, 0
				x.exec(c)
				break
			}
		}
	}
	g1 := settle(2 * time.Second)

	var calls []rec.V
	var overruns, inconclusive, hangDumps []string
	var iterSites []string
	iterLive := 0
	batches := cfg.Batches
	if cfg.Pipeline {
		batches++ // the cancellation sweep, see sweepCalls
	}
	for b := 0; b < batches; b++ {
		var cs []call
		if b == cfg.Batches {
			cs = x.sweepCalls()
			w.Stat("cancellation_sweeps", 1)
		}
		for b < cfg.Batches && len(cs) < cfg.CallsPerBatch {
			if c, ok := x.genCall(); ok {
				cs = append(cs, c)
			} else if len(sh.Targets) == 0 || len(sh.Users) == 0 || len(sh.ObjTypes) == 0 {
				break
			}
		}
		out := make([]obs, len(cs))
		var wg sync.WaitGroup
		sem := make(chan struct{}, cfg.Parallel)
		for i := range cs {
			wg.Add(1)
			sem <- struct{}{}
			go x.goExec(cs[i], &out[i], &wg, sem)
		}
		wg.Wait()
		// an overrun counts only when CONFIRMED: the same request, re-executed alone (no other
		// driver load), twice on the same server and once on a fresh server over the same data,
		// overruns again.  A stall that does not repeat is reported as inconclusive.
		for i := range out {
			if out[i].elapsedUs <= out[i].effUs+slack.Microseconds() {
				continue
			}
			w.Stat("overruns_observed", 1)
			first := out[i]
			for attempt := 0; attempt < 3 && !out[i].confirmed; attempt++ {
				var again obs
				if attempt < 2 {
					again = x.exec(cs[i])
				} else {
					again = x.execFresh(cs[i])
				}
				if again.elapsedUs > again.effUs+slack.Microseconds() {
					out[i] = again
					out[i].confirmed = true
					if out[i].dump == "" {
						out[i].dump = first.dump
					}
				}
			}
			if !out[i].confirmed && first.hung {
				// the abandoned call itself: if it still has not returned after the re-executions
				// and a further grace period, it is a hang, not a stall
				select {
				case <-first.done:
					w.Stat("abandoned_calls_returned_late", 1)
				case <-time.After(grace):
					out[i] = first
					out[i].elapsedUs = time.Since(first.start).Microseconds()
					out[i].confirmed = true
					w.Stat("abandoned_calls_never_returned", 1)
				}
			}
			if out[i].confirmed {
				w.Stat("overruns_confirmed", 1)
			} else {
				w.Stat("inconclusive_overruns", 1)
				fmt.Fprintf(os.Stderr, "c20: inconclusive overrun (not repeated in 3 re-executions): %s %s#%s@%s type=%s: %d us, effective deadline %d us; scenario seed %d\n",
					apiNames[first.api], cs[i].obj, cs[i].rel, cs[i].user, cs[i].typ, first.elapsedUs, first.effUs, seed)
				inconclusive = append(inconclusive, fmt.Sprintf("%s %s#%s@%s type=%s: %d us, effective deadline %d us (hung=%v) %s",
					apiNames[first.api], cs[i].obj, cs[i].rel, cs[i].user, cs[i].typ, first.elapsedUs, first.effUs, first.hung, first.dump))
				out[i] = first
			}
		}
		for i, o := range out {
			if o.hung && o.confirmed {
				abortRun = true
				w.Stat("calls_never_returned", 1)
			}
			conf := 0
			if o.confirmed {
				conf = 1
			}
			if o.dump != "" && o.confirmed {
				hangDumps = append(hangDumps, o.dump)
			}
			calls = append(calls, rec.L(rec.I(o.api), rec.I64(o.effUs), rec.I64(o.elapsedUs), rec.I(conf)))
			if os.Getenv("C20_DEBUG") == "2" {
				fmt.Fprintf(os.Stderr, "%s %-20s %-10s el=%7d eff=%7d n=%d items=%v %s#%s@%s t=%s\n", kind, apiNames[o.api], o.class, o.elapsedUs, o.effUs, o.n, o.items, cs[i].obj, cs[i].rel, cs[i].user, cs[i].typ)
			}
			w.Stat("calls", 1)
			w.Stat("api_"+apiNames[o.api], 1)
			w.Stat("res_"+apiNames[o.api]+"_"+o.class, 1)
			if o.elapsedUs > o.effUs {
				w.Stat("calls_past_deadline_within_slack", 1)
			}
			if o.elapsedUs*10 >= o.effUs*9 {
				w.Stat("deadline_reached_"+apiNames[o.api], 1)
			} else {
				w.Stat("finished_early_"+apiNames[o.api], 1)
			}
			if o.n > 0 {
				w.Stat("calls_with_results", 1)
			}
			for k, name := range []string{"ok", "deadline", "canceled", "other_error"} {
				if o.items[k] > 0 {
					w.Stat("batch_item_"+name, o.items[k])
				}
			}
			if cs[i].cancelUs > 0 {
				w.Stat("calls_with_client_cancel", 1)
			}
			if o.confirmed {
				overruns = append(overruns, fmt.Sprintf("%s %s#%s@%s type=%s: %d us, effective deadline %d us",
					apiNames[o.api], cs[i].obj, cs[i].rel, cs[i].user, cs[i].typ, o.elapsedUs, o.effUs))
			}
			if over := o.elapsedUs - o.effUs; over > 0 {
				statMax(w, "max_overrun_us", int(over))
			}
		}
		// census after the batch (after a hang the verdict is already a violation: short grace)
		grace := grace
		if abortRun {
			grace = time.Second
		}
		statMax(w, "max_goroutines_during_run", len(snapshot()))
		if l := waitGoroutines(g1, allowRequestScope, grace); len(l) > 0 {
			leakedN += len(l)
			leakedDesc = append(leakedDesc, fmt.Sprintf("after batch %d: %s", b, describe(l, 4)))
			// do not report the same goroutines again
			for _, g := range l {
				g1[g.id] = g
				g0[g.id] = g
			}
		}
		if n, sites := ds.waitIterators(grace); n > 0 {
			iterLive += n
			iterSites = append(iterSites, sites...)
			ds.mu.Lock()
			ds.live = map[int64]*[10]uintptr{}
			ds.mu.Unlock()
		}
		if abortRun {
			break
		}
	}
	// ---- close the server: everything it started must be gone
	closed := make(chan struct{})
	go x.closeServer(closed)
	select {
	case <-closed:
	case <-time.After(10 * time.Second):
		w.Stat("server_close_hung", 1)
		leakedN++
		leakedDesc = append(leakedDesc, "Server.Close did not return within 10 s")
	}
	finalGrace := grace
	if abortRun {
		finalGrace = time.Second
	}
	if l := waitGoroutines(g0, allowRequestScope, finalGrace); len(l) > 0 {
		leakedN += len(l)
		leakedDesc = append(leakedDesc, "after Server.Close: "+describe(l, 4))
	}
	statMax(w, "max_census_wait_ms", maxCensusWaitMs)
	statMax(w, "max_iterator_wait_ms", maxIterWaitMs)
	w.Stat("iterators_opened", int(ds.opens.Load()))
	w.Stat("datastore_reads", int(ds.reads.Load()))

	desc.Leaked, desc.IterSites, desc.Overruns = leakedDesc, iterSites, overruns
	desc.Inconclusive, desc.HangDumps = inconclusive, append(hangDumps, x.truthDumps...)
	sort.Strings(desc.IterSites)
	w.Case(desc, rec.I(1), rec.I(withModel), model, conds, tuples, atoms, rec.I(cfg.Depth), subjects,
		rec.L(calls...), rec.I64(slack.Microseconds()), rec.I(leakedN), rec.I64(ds.opens.Load()), rec.I64(ds.stops.Load()), rec.I(iterLive), rec.I64(truthWatchdog.Microseconds()))
}

// noCloseDS: Server.Close closes its datastore; the scenario's datastore outlives its servers.
type noCloseDS struct{ *countDS }

func (noCloseDS) Close() {}

// execFresh re-executes a call on a fresh server over the same datastore.
func (x *runner) execFresh(c call) obs {
	old := x.srv
	x.srv = server.MustNewServerWithOpts(x.serverOpts()...)
	o := x.exec(c)
	fresh := x.srv
	x.srv = old
	done := make(chan struct{})
	go func() { fresh.Close(); close(done) }()
	select {
	case <-done:
	case <-time.After(10 * time.Second):
	}
	return o
}

var dumpDir string
var dumpSeq int32

// dumpAll writes the stacks of all goroutines to a side file and returns a summary: the file
// name and the most frequent (state, innermost openfga/driver frame) pairs.
func dumpAll(what string) string {
	buf := make([]byte, 1<<22)
	for {
		n := runtime.Stack(buf, true)
		if n < len(buf) {
			buf = buf[:n]
			break
		}
		buf = make([]byte, 2*len(buf))
	}
	name := ""
	if dumpDir != "" {
		name = filepath.Join(dumpDir, fmt.Sprintf("c20-hang-%d-%d.txt", os.Getpid(), atomic.AddInt32(&dumpSeq, 1)))
		_ = os.WriteFile(name, append([]byte(what+"\n\n"), buf...), 0o644)
	}
	count := map[string]int{}
	for _, blk := range strings.Split(string(buf), "\n\n") {
		lines := strings.Split(strings.TrimSpace(blk), "\n")
		if len(lines) < 2 || !strings.HasPrefix(lines[0], "goroutine ") {
			continue
		}
		state := lines[0][strings.Index(lines[0], "["):]
		if i := strings.IndexAny(state, ",]"); i > 0 {
			state = state[1:i]
		}
		site := fnName(lines[1])
		for k := 1; k < len(lines); k += 2 {
			if strings.Contains(lines[k], "openfga/") || strings.HasPrefix(lines[k], "main.") {
				site = fnName(lines[k])
				break
			}
		}
		count[state+" "+site]++
	}
	type kv struct {
		k string
		n int
	}
	var kvs []kv
	for k, n := range count {
		kvs = append(kvs, kv{k, n})
	}
	sort.Slice(kvs, func(i, j int) bool { return kvs[i].n > kvs[j].n || (kvs[i].n == kvs[j].n && kvs[i].k < kvs[j].k) })
	var parts []string
	for i, e := range kvs {
		if i >= 14 {
			break
		}
		parts = append(parts, fmt.Sprintf("%dx %s", e.n, e.k))
	}
	return fmt.Sprintf("dump=%s goroutines=%d: %s", name, len(count), strings.Join(parts, "; "))
}

// truthCheck: the real Check (default strategy) under the watchdog; shortly before the watchdog
// expires the goroutine stacks are dumped, so that a hang shows where it sits.
func (x *runner) truthCheck(ctx context.Context, resolver graph.CheckResolver, o, rel, sub string) int {
	wctx, wcancel := context.WithTimeout(ctx, truthWatchdog)
	defer wcancel()
	var mu sync.Mutex
	t := time.AfterFunc(truthWatchdog-time.Second, func() {
		d := dumpAll(fmt.Sprintf("no-deadline Check %s#%s@%s still running after %v", o, rel, sub, truthWatchdog-time.Second))
		mu.Lock()
		x.truthDumps = append(x.truthDumps, d)
		mu.Unlock()
	})
	out, _ := x.env.Check(wctx, resolver, o, rel, sub, nil)
	t.Stop()
	mu.Lock()
	defer mu.Unlock()
	if out != scen.OutTimeout {
		x.truthDumps = nil
	}
	return out
}

// sweepCalls: for the pipeline engine, the same ListObjects / StreamedListObjects request on a
// recursive relation cancelled by the client at evenly spread points of its own (uncancelled)
// running time: cancellation in the middle of reads and broadcasts, not only at the ends.
func (x *runner) sweepCalls() []call {
	var cs []call
	for tries := 0; tries < 40 && len(cs) == 0; tries++ {
		c, ok := x.genCall()
		if !ok || (c.api != apiLO && c.api != apiSLO) {
			continue
		}
		c.timeoutUs, c.cancelUs = 100000, 0
		t0 := x.exec(c).elapsedUs
		if t0 < 200 {
			t0 = 200
		}
		if t0 > 60000 {
			t0 = 60000
		}
		k := x.cfg.CallsPerBatch + 2
		for i := 1; i <= k; i++ {
			d := c
			d.timeoutUs = 0
			d.cancelUs = int(t0) * i / (k + 1)
			if d.cancelUs < 1 {
				d.cancelUs = 1
			}
			if i%2 == 0 {
				d.api = apiLO + apiSLO - c.api
			}
			cs = append(cs, d)
		}
	}
	return cs
}

func (x *runner) closeServer(done chan struct{}) {
	x.srv.Close()
	x.ds.Close()
	close(done)
}

func (x *runner) goExec(c call, out *obs, wg *sync.WaitGroup, sem chan struct{}) {
	defer wg.Done()
	*out = x.exec(c)
	<-sem
}

var maxes = map[string]int{}

// truthHung: a no-deadline Check hit the watchdog; abortRun: a deadline call never returned.
var truthHung, abortRun bool

// statMax keeps a running maximum in a !STAT counter.
func statMax(w *rec.Writer, key string, v int) {
	if v > maxes[key] {
		w.Stat(key, v-maxes[key])
		maxes[key] = v
	}
}

func main() {
	o := rec.ParseFlags()
	storegen.ScratchBase = filepath.Join(os.TempDir(), "c20")
	defer storegen.Cleanup()
	inject = os.Getenv("C20_INJECT")
	dumpDir = filepath.Dir(o.Out)
	if os.Getenv("C20_DEBUG") != "" {
		debugSlow = func(n int, sites []string) { fmt.Fprintln(os.Stderr, "slow iterators:", n, sites) }
	}
	w := rec.NewWriter(o.Out)
	defer w.Close()
	if o.Replay != "" {
		f, err := os.Open(o.Replay)
		if err != nil {
			panic(err)
		}
		defer f.Close()
		sc := bufio.NewScanner(f)
		sc.Buffer(make([]byte, 1<<20), 1<<26)
		for sc.Scan() {
			var d Desc
			if json.Unmarshal(sc.Bytes(), &d) != nil || d.Seed == "" {
				continue
			}
			seed, err := strconv.ParseUint(d.Seed, 10, 64)
			if err != nil {
				continue
			}
			tier := d.Tier
			if tier == "" {
				tier = o.Tier
			}
			runScenario(w, seed, tier)
		}
		return
	}
	r := rec.NewRand(o.Seed)
	for i := 0; i < o.N; i++ {
		if abortRun {
			// a call never returned: the violation is recorded; do not pile more work on a stuck server
			w.Stat("scenarios_skipped_after_hang", o.N-i)
			break
		}
		runScenario(w, r.Uint64(), o.Tier)
	}
}
