//go:build verif

package main

import (
	"context"
	"fmt"
	"runtime"
	"sort"
	"strconv"
	"strings"
	"sync"
	"sync/atomic"
	"time"

	openfgav1 "github.com/openfga/api/proto/openfga/v1"

	"github.com/openfga/openfga/pkg/storage"
)

// ---------------------------------------------------------------------------------------------
// counting datastore: every iterator handed out by a Read* method is registered; Stop unregisters
// it.  Optional latency (honouring the context, like a network datastore driver) makes short
// deadlines strike in the middle of a traversal.

type countDS struct {
	storage.OpenFGADatastore
	opens, stops atomic.Int64
	reads        atomic.Int64
	readDelay    atomic.Int64 // ns per Read* call
	nextDelay    atomic.Int64 // ns per Next
	mu           sync.Mutex
	live         map[int64]*[10]uintptr
	seq          atomic.Int64
}

func newCountDS(inner storage.OpenFGADatastore) *countDS {
	return &countDS{OpenFGADatastore: inner, live: map[int64]*[10]uintptr{}}
}

func sleepCtx(ctx context.Context, ns int64) error {
	if ns <= 0 {
		return nil
	}
	t := time.NewTimer(time.Duration(ns))
	defer t.Stop()
	select {
	case <-t.C:
		return nil
	case <-ctx.Done():
		return ctx.Err()
	}
}

type countIter struct {
	storage.TupleIterator
	ds   *countDS
	id   int64
	once sync.Once
}

func (it *countIter) Next(ctx context.Context) (*openfgav1.Tuple, error) {
	if err := sleepCtx(ctx, it.ds.nextDelay.Load()); err != nil {
		return nil, err
	}
	return it.TupleIterator.Next(ctx)
}

func (it *countIter) Stop() {
	it.once.Do(func() {
		it.ds.stops.Add(1)
		it.ds.mu.Lock()
		delete(it.ds.live, it.id)
		it.ds.mu.Unlock()
	})
	it.TupleIterator.Stop()
}

func (d *countDS) wrap(it storage.TupleIterator, err error) (storage.TupleIterator, error) {
	if err != nil || it == nil {
		return it, err
	}
	id := d.seq.Add(1)
	var pcs [10]uintptr
	runtime.Callers(3, pcs[:])
	d.mu.Lock()
	d.live[id] = &pcs
	d.mu.Unlock()
	d.opens.Add(1)
	return &countIter{TupleIterator: it, ds: d, id: id}, nil
}

func (d *countDS) Read(ctx context.Context, store string, f storage.ReadFilter, o storage.ReadOptions) (storage.TupleIterator, error) {
	d.reads.Add(1)
	if err := sleepCtx(ctx, d.readDelay.Load()); err != nil {
		return nil, err
	}
	return d.wrap(d.OpenFGADatastore.Read(ctx, store, f, o))
}

func (d *countDS) ReadUsersetTuples(ctx context.Context, store string, f storage.ReadUsersetTuplesFilter, o storage.ReadUsersetTuplesOptions) (storage.TupleIterator, error) {
	d.reads.Add(1)
	if err := sleepCtx(ctx, d.readDelay.Load()); err != nil {
		return nil, err
	}
	return d.wrap(d.OpenFGADatastore.ReadUsersetTuples(ctx, store, f, o))
}

func (d *countDS) ReadStartingWithUser(ctx context.Context, store string, f storage.ReadStartingWithUserFilter, o storage.ReadStartingWithUserOptions) (storage.TupleIterator, error) {
	d.reads.Add(1)
	if err := sleepCtx(ctx, d.readDelay.Load()); err != nil {
		return nil, err
	}
	return d.wrap(d.OpenFGADatastore.ReadStartingWithUser(ctx, store, f, o))
}

// inject (self-test of the detectors, C20_INJECT=iterator|goroutine|slow, never set by bin/check):
// simulates, inside the datastore, the three kinds of defect the census looks for.
var inject string

var injectBlock = make(chan struct{})

func leakyWorker() { <-injectBlock }

func (d *countDS) ReadUserTuple(ctx context.Context, store string, f storage.ReadUserTupleFilter, o storage.ReadUserTupleOptions) (*openfgav1.Tuple, error) {
	d.reads.Add(1)
	switch inject {
	case "iterator": // an iterator that nobody stops
		if d.reads.Load()%50 == 0 {
			_, _ = d.wrap(d.OpenFGADatastore.Read(ctx, store, storage.ReadFilter{Object: f.Object, Relation: f.Relation}, storage.ReadOptions{}))
		}
	case "goroutine": // a worker that outlives the request
		if d.reads.Load()%50 == 0 {
			go leakyWorker()
		}
	case "slow": // a read that ignores the context
		if d.reads.Load()%50 == 0 {
			time.Sleep(slack + 500*time.Millisecond)
		}
	}
	if err := sleepCtx(ctx, d.readDelay.Load()); err != nil {
		return nil, err
	}
	return d.OpenFGADatastore.ReadUserTuple(ctx, store, f, o)
}

// unstopped returns the number of live iterators and the creation sites of a few of them.
func (d *countDS) unstopped() (int, []string) {
	d.mu.Lock()
	defer d.mu.Unlock()
	var sites []string
	for _, pcs := range d.live {
		if len(sites) >= 3 {
			break
		}
		fr := runtime.CallersFrames(pcs[:])
		var parts []string
		for {
			f, more := fr.Next()
			if f.Function != "" {
				fn := f.Function
				if i := strings.LastIndex(fn, "/"); i >= 0 {
					fn = fn[i+1:]
				}
				parts = append(parts, fn)
			}
			if !more || len(parts) >= 7 {
				break
			}
		}
		sites = append(sites, strings.Join(parts, " < "))
	}
	sort.Strings(sites)
	return len(d.live), sites
}

// waitIterators polls until every opened iterator was stopped or the grace period ends.
func (d *countDS) waitIterators(grace time.Duration) (int, []string) {
	start := time.Now()
	end := start.Add(grace)
	for {
		n, sites := d.unstopped()
		if n == 0 || time.Now().After(end) {
			if ms := int(time.Since(start).Milliseconds()); ms > maxIterWaitMs {
				maxIterWaitMs = ms
			}
			return n, sites
		}
		if debugSlow != nil && time.Since(start) > 500*time.Millisecond {
			debugSlow(n, sites)
			debugSlow = nil
		}
		time.Sleep(2 * time.Millisecond)
	}
}

// ---------------------------------------------------------------------------------------------
// goroutine census (goleak style): goroutine ids present now that were not present in the
// baseline, minus an allowlist of background work that ends on its own or with the server.

type gor struct {
	id    int64
	state string
	text  string // full stack text
	top   string // innermost function
	by    string // "created by" function
}

func snapshot() map[int64]gor {
	buf := make([]byte, 1<<20)
	for {
		n := runtime.Stack(buf, true)
		if n < len(buf) {
			buf = buf[:n]
			break
		}
		buf = make([]byte, 2*len(buf))
	}
	out := map[int64]gor{}
	for _, blk := range strings.Split(string(buf), "\n\n") {
		blk = strings.TrimSpace(blk)
		if !strings.HasPrefix(blk, "goroutine ") {
			continue
		}
		lines := strings.Split(blk, "\n")
		hdr := strings.TrimPrefix(lines[0], "goroutine ")
		sp := strings.IndexByte(hdr, ' ')
		if sp < 0 {
			continue
		}
		id, err := strconv.ParseInt(hdr[:sp], 10, 64)
		if err != nil {
			continue
		}
		g := gor{id: id, state: strings.Trim(hdr[sp+1:], "[]:"), text: blk}
		if len(lines) > 1 {
			g.top = fnName(lines[1])
		}
		for _, l := range lines {
			if strings.HasPrefix(l, "created by ") {
				g.by = fnName(strings.TrimPrefix(l, "created by "))
			}
		}
		out[id] = g
	}
	return out
}

func fnName(l string) string {
	l = strings.TrimSpace(l)
	if i := strings.Index(l, " in goroutine"); i >= 0 {
		l = l[:i]
	}
	if i := strings.LastIndex(l, "("); i > 0 && strings.HasSuffix(l, ")") {
		l = l[:i]
	}
	if i := strings.LastIndex(l, "/"); i >= 0 {
		l = l[i+1:]
	}
	return l
}

// allowlisted: background work that is not "started for a request and left running":
// the driver's own goroutines, Go runtime helpers, and (documented in checks/C20.json) the
// server-lifetime workers that a request may start lazily and that end with Server.Close.
var allowRequestScope = []string{
	"main.(*runner).",    // the driver's own call goroutines
	"main.main",          // the driver's main goroutine
	"runtime.ensureSigM", // runtime
	"os/signal.",         // runtime
	"runtime.ReadTrace",  // runtime
}

func allowed(g gor, allow []string) bool {
	for _, a := range allow {
		if strings.Contains(g.text, a) {
			return true
		}
	}
	return false
}

// leaked returns the goroutines that are not in base and not allowlisted.
func leaked(base map[int64]gor, allow []string) []gor {
	now := snapshot()
	var out []gor
	for id, g := range now {
		if _, ok := base[id]; ok {
			continue
		}
		if allowed(g, allow) {
			continue
		}
		out = append(out, g)
	}
	sort.Slice(out, func(i, j int) bool { return out[i].id < out[j].id })
	return out
}

// waitGoroutines polls until no goroutine outside base/allowlist remains or the grace ends.
func waitGoroutines(base map[int64]gor, allow []string, grace time.Duration) []gor {
	start := time.Now()
	end := start.Add(grace)
	for {
		l := leaked(base, allow)
		if len(l) == 0 || time.Now().After(end) {
			if ms := int(time.Since(start).Milliseconds()); ms > maxCensusWaitMs {
				maxCensusWaitMs = ms
			}
			return l
		}
		time.Sleep(3 * time.Millisecond)
	}
}

var maxCensusWaitMs, maxIterWaitMs int

var debugSlow func(int, []string)

// settle waits until the set of goroutine ids stops changing (used to take baselines).
func settle(max time.Duration) map[int64]gor {
	end := time.Now().Add(max)
	prev := snapshot()
	same := 0
	for time.Now().Before(end) {
		time.Sleep(5 * time.Millisecond)
		cur := snapshot()
		eq := len(cur) == len(prev)
		if eq {
			for id := range cur {
				if _, ok := prev[id]; !ok {
					eq = false
					break
				}
			}
		}
		if eq {
			same++
			if same >= 3 {
				return cur
			}
		} else {
			same = 0
		}
		prev = cur
	}
	return prev
}

func describe(gs []gor, max int) string {
	var parts []string
	for i, g := range gs {
		if i >= max {
			parts = append(parts, fmt.Sprintf("... %d more", len(gs)-max))
			break
		}
		parts = append(parts, fmt.Sprintf("[%s] %s <- created by %s", g.state, g.top, g.by))
	}
	return strings.Join(parts, "; ")
}
