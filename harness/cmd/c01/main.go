//go:build verif

// Driver for C01: real CheckQuery (memory backend, no caches, planner forced to the default
// strategy) on every (object, relation) x subject of generated scenarios.
package main

import (
	"bufio"
	"context"
	"encoding/json"
	"errors"
	"os"

	"github.com/openfga/openfga/internal/verifharness/lib/rec"
	"github.com/openfga/openfga/internal/verifharness/lib/scen"
)

func runScenario(ctx context.Context, w *rec.Writer, r *rec.Rand, s *scen.Scenario, subjects []string, maxDepth int) {
	env, err := scen.NewEnv(ctx, s)
	if err != nil {
		if errors.Is(err, scen.ErrModelRejected) {
			w.Stat("models_rejected", 1)
			return
		}
		panic(err)
	}
	defer env.Close()
	w.Stat("models_accepted", 1)
	w.Stat("shape_"+s.Shape, 1)
	in := scen.NewIntern()
	model := in.Model(s)
	conds := in.Conds(s)
	var tvs []rec.V
	for _, t := range s.Tuples {
		ce := env.CEval(ctx, t)
		if ce == 2 {
			w.Stat("tuples_cond_error", 1)
		}
		tvs = append(tvs, in.Tuple(t, ce))
	}
	w.Stat("tuples", len(s.Tuples))
	if subjects == nil {
		subjects = s.Subjects(r, 4)
	}
	objects := s.Objects(subjects...)
	atoms := in.Atoms(s, objects)
	resolver, closer := scen.Resolver(scen.NewForcedPlanner("default"), uint32(maxDepth))
	defer closer()
	var svs []rec.V
	for _, sub := range subjects {
		var pxs []rec.V
		for _, p := range env.PathX(sub) {
			pxs = append(pxs, rec.L(rec.I(in.T(p[0])), rec.I(in.R(p[1]))))
		}
		var res []rec.V
		for _, o := range objects {
			ot, _ := scen.SplitObj(o)
			td := s.Type(ot)
			if td == nil {
				continue
			}
			for _, rd := range td.Rels {
				out, _ := env.Check(ctx, resolver, o, rd.Name, sub, nil)
				w.Stat("requests", 1)
				w.Stat("impl_"+[]string{"allowed", "denied", "denied_cycle", "err_cond", "err_depth", "err_other", "timeout", "invalid"}[out], 1)
				a, b := in.Obj(o)
				res = append(res, rec.L(a, b, rec.I(in.R(rd.Name)), rec.I(out)))
			}
		}
		svs = append(svs, rec.L(in.Subject(sub), rec.L(pxs...), rec.L(res...)))
	}
	w.Case(map[string]any{"scenario": s, "subjects": subjects, "max_depth": maxDepth, "text": s.String()},
		rec.I(1), model, conds, rec.L(tvs...), atoms, rec.I(maxDepth), rec.L(svs...))
}

func main() {
	o := rec.ParseFlags()
	w := rec.NewWriter(o.Out)
	defer w.Close()
	ctx := context.Background()
	if o.Replay != "" {
		f, err := os.Open(o.Replay)
		if err != nil {
			panic(err)
		}
		defer f.Close()
		sc := bufio.NewScanner(f)
		sc.Buffer(make([]byte, 1<<20), 1<<26)
		for sc.Scan() {
			var d struct {
				Scenario *scen.Scenario `json:"scenario"`
				Subjects []string       `json:"subjects"`
				MaxDepth int            `json:"max_depth"`
			}
			if json.Unmarshal(sc.Bytes(), &d) != nil || d.Scenario == nil {
				continue
			}
			if d.MaxDepth == 0 {
				d.MaxDepth = 25
			}
			runScenario(ctx, w, rec.NewRand(1), d.Scenario, d.Subjects, d.MaxDepth)
		}
		return
	}
	r := rec.NewRand(o.Seed)
	for i := 0; i < o.N; i++ {
		rr := r.Fork()
		s := scen.Generate(rr, scen.DefaultOpts())
		runScenario(ctx, w, rr, s, nil, 25)
		if rr.Chance(1, 3) {
			// the same scenario under a small resolution-depth limit: exercises the depth counter
			runScenario(ctx, w, rr, s, nil, rr.Range(1, 4))
		}
	}
}
