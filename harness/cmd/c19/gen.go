//go:build verif

package main

// Generators of hostile requests.  Every case is rebuilt from (generator name, seed, variant)
// alone, so a case description is enough to replay it.

import (
	"bytes"
	"encoding/base64"
	"fmt"
	"math"
	"sort"
	"strings"
	"time"

	"google.golang.org/protobuf/encoding/protojson"
	"google.golang.org/protobuf/encoding/protowire"
	"google.golang.org/protobuf/proto"
	"google.golang.org/protobuf/reflect/protoreflect"
	"google.golang.org/protobuf/types/known/structpb"
	"google.golang.org/protobuf/types/known/wrapperspb"

	openfgav1 "github.com/openfga/api/proto/openfga/v1"
	parser "github.com/openfga/language/pkg/go/transformer"

	"github.com/openfga/openfga/internal/verifharness/lib/rec"
)

type prng = rec.Rand

type httpReq struct {
	verb, path string
	body       []byte
}

type tokCase struct {
	n        int    // tuples in the listing
	hasPS    bool   // page_size present in the request
	ps       int64  // its value
	token    string // continuation_token as sent
	decoded  []byte // after base64 URL decoding (nil if undecodable)
	decodeOK bool
	patOK    bool // matches the validator's pattern and length limit
}

// one request of a case
type step struct {
	rpc   *rpcInfo
	wire  []byte
	http  *httpReq
	heavy bool
	note  string
	limit time.Duration // overrides the deadline-overrun limit (before load scaling)
	// after a successful response: extract something for later steps
	after func(resp proto.Message, env *caseEnv)
	// build lazily from what earlier steps produced
	lazy func(env *caseEnv) (*rpcInfo, []byte)
}

type caseEnv struct {
	modelID string
	storeID string
}

type built struct {
	steps  []step
	abs    string // abstraction of the authorization model of the first step (kind 7 record)
	tok    *tokCase
	direct func() directOut
	stats  []string
}

type generator struct {
	name     string
	variants int // number of systematic variants (v in [0,variants)); v = -1 means random
	weight   int // share of the random stream
	build    func(fx *fixture, r *prng, v int) built
}

// ---------------------------------------------------------------------------------------
// hostile strings

var hostileStrings = []string{
	"", " ", ":", "#", "@", "*", "|", "::", "##", "@@", "a:b:c", "a#b#c", "a@b", "user:", ":id", "user:*", "user:**", "*:*", "*",
	"group:a#", "group:a#member#member", "group:a#member@x", "#member", "doc ument:1", "document:1 ", " document:1", "\t", "\n",
	"document:1\n", "document:\x00", "\x00", "\x7f", "user:\x7f", "\u0085", "\u2028", "\u202e", "\ufeff", "\u00a0", "é", "日本:語", "😀:😀",
	"user:é#é", "document:1#viewer@user:anne", "document:1|viewer", "%00", "%s%s%n", "../../etc/passwd", "${jndi:x}", "' OR 1=1 --",
	"{{.}}", "<script>", "\\", "\"", "user:\"", "null", "true", "-1", "0", "1e400", "NaN",
	"01ARZ3NDEKTSV4RRFFQ69G5FAV", "01arz3ndektsv4rrffq69g5fav", "01ARZ3NDEKTSV4RRFFQ69G5FA", "01ARZ3NDEKTSV4RRFFQ69G5FAVX", "ZZZZZZZZZZZZZZZZZZZZZZZZZZ",
	"IIIIIIIIIIIIIIIIIIIIIIIIII", "7ZZZZZZZZZZZZZZZZZZZZZZZZZ", "8ZZZZZZZZZZZZZZZZZZZZZZZZZ",
}

// byte strings that are not valid UTF-8 (sent by byte substitution in the wire form)
var invalidUTF8 = []string{
	"\xff", "\xc0\x80", "\xed\xa0\x80", "document:\xff\xfe", "a\xe2\x82", "user:\xf0\x9f\x98", "\x80", "\xf8\x88\x80\x80\x80", "doc\xc3:1", "user:an\xffne",
}

var longLens = []int{50, 51, 254, 255, 256, 257, 511, 512, 513, 1024, 5120, 5121, 65536, 300000, 700000}

func hostileString(r *prng) string {
	switch r.Intn(10) {
	case 0, 1, 2, 3:
		return rec.Pick(r, hostileStrings)
	case 4:
		return rec.Pick(r, invalidUTF8)
	case 5:
		n := rec.Pick(r, longLens[:11])
		if r.Chance(1, 12) {
			n = rec.Pick(r, longLens)
		}
		p := rec.Pick(r, []string{"", "document:", "user:", "group:a#"})
		return p + strings.Repeat(rec.Pick(r, []string{"a", "é", ":", "#", " ", "😀"}), n)
	case 6:
		return rec.Pick(r, []string{"document:", "user:", "group:", "folder:"}) + rec.Pick(r, hostileStrings)
	case 7:
		return rec.Pick(r, hostileStrings) + rec.Pick(r, []string{":1", "#member", ":*", "@user:a"})
	default:
		n := r.Range(1, 12)
		var sb strings.Builder
		for i := 0; i < n; i++ {
			sb.WriteString(rec.Pick(r, []string{"a", "b", ":", "#", "@", "*", " ", "|", "\n", "é", "\x00", "1", "_", "-", "/", "."}))
		}
		return sb.String()
	}
}

func isValidUTF8(s string) bool { return strings.ToValidUTF8(s, "\x00\x01") == s }

// ---------------------------------------------------------------------------------------
// reflection walk over a request: every settable spot

type spot struct {
	path string
	kind string // "string" "int" "enum" "bool" "msg" "list" "struct" "mapkey" "bytes" "double"
	set  func(v protoreflect.Value)
	get  func() protoreflect.Value
	fd   protoreflect.FieldDescriptor
	par  protoreflect.Message
	list protoreflect.List
	mp   protoreflect.Map
	key  protoreflect.MapKey
}

func kindName(fd protoreflect.FieldDescriptor) string {
	switch fd.Kind() {
	case protoreflect.StringKind:
		return "string"
	case protoreflect.BytesKind:
		return "bytes"
	case protoreflect.BoolKind:
		return "bool"
	case protoreflect.EnumKind:
		return "enum"
	case protoreflect.DoubleKind, protoreflect.FloatKind:
		return "double"
	case protoreflect.MessageKind, protoreflect.GroupKind:
		return "msg"
	default:
		return "int"
	}
}

func isStructMsg(md protoreflect.MessageDescriptor) bool {
	n := md.FullName()
	return n == "google.protobuf.Struct" || n == "google.protobuf.Value" || n == "google.protobuf.ListValue"
}

func walkSpots(m protoreflect.Message, path string, out *[]spot, depth int) {
	if depth > 12 {
		return
	}
	fds := m.Descriptor().Fields()
	for i := 0; i < fds.Len(); i++ {
		fd := fds.Get(i)
		p := path + "." + string(fd.Name())
		switch {
		case fd.IsMap():
			mp := m.Mutable(fd).Map()
			*out = append(*out, spot{path: p, kind: "map", fd: fd, par: m, mp: mp})
			var keys []protoreflect.MapKey
			mp.Range(func(k protoreflect.MapKey, _ protoreflect.Value) bool { keys = append(keys, k); return true })
			sort.Slice(keys, func(a, b int) bool { return keys[a].String() < keys[b].String() })
			for _, k := range keys {
				k := k
				kp := p + "[" + k.String() + "]"
				if fd.MapKey().Kind() == protoreflect.StringKind {
					*out = append(*out, spot{path: kp, kind: "mapkey", fd: fd, par: m, mp: mp, key: k})
				}
				if fd.MapValue().Kind() == protoreflect.MessageKind {
					if isStructMsg(fd.MapValue().Message()) {
						*out = append(*out, spot{path: kp, kind: "struct", fd: fd.MapValue(), mp: mp, key: k,
							set: func(v protoreflect.Value) { mp.Set(k, v) }})
					} else {
						walkSpots(mp.Get(k).Message(), kp, out, depth+1)
					}
				}
			}
		case fd.IsList():
			l := m.Mutable(fd).List()
			*out = append(*out, spot{path: p, kind: "list", fd: fd, par: m, list: l})
			for j := 0; j < l.Len(); j++ {
				j := j
				jp := fmt.Sprintf("%s[%d]", p, j)
				if fd.Kind() == protoreflect.MessageKind {
					walkSpots(l.Get(j).Message(), jp, out, depth+1)
				} else {
					*out = append(*out, spot{path: jp, kind: kindName(fd), fd: fd, list: l,
						set: func(v protoreflect.Value) { l.Set(j, v) }, get: func() protoreflect.Value { return l.Get(j) }})
				}
			}
		case fd.Kind() == protoreflect.MessageKind:
			if isStructMsg(fd.Message()) {
				*out = append(*out, spot{path: p, kind: "struct", fd: fd, par: m, set: func(v protoreflect.Value) { m.Set(fd, v) }})
				continue
			}
			*out = append(*out, spot{path: p, kind: "msg", fd: fd, par: m})
			if m.Has(fd) {
				walkSpots(m.Get(fd).Message(), p, out, depth+1)
			}
		default:
			fd := fd
			*out = append(*out, spot{path: p, kind: kindName(fd), fd: fd, par: m,
				set: func(v protoreflect.Value) { m.Set(fd, v) }, get: func() protoreflect.Value { return m.Get(fd) }})
		}
	}
}

// placeholders for strings that proto.Marshal would refuse
type subst struct{ placeholder, real string }

var placeholderBytes = []byte{0x1f, 0x1e, 0x1d, 0x1c, 0x1b}

func finishWire(m proto.Message, subs []subst) []byte {
	b, err := proto.MarshalOptions{AllowPartial: true, Deterministic: true}.Marshal(m)
	if err != nil {
		return []byte{0xff, 0xff, 0xff} // not a message at all
	}
	for _, s := range subs {
		if bytes.Count(b, []byte(s.placeholder)) == 1 {
			b = bytes.Replace(b, []byte(s.placeholder), []byte(s.real), 1)
		}
	}
	return b
}

// setString sets a string spot to s; an invalid UTF-8 string is smuggled in through a placeholder
func setString(sp spot, s string, subs *[]subst) {
	if isValidUTF8(s) {
		sp.set(protoreflect.ValueOfString(s))
		return
	}
	ph := strings.Repeat(string(placeholderBytes[len(*subs)%len(placeholderBytes)]), len(s))
	sp.set(protoreflect.ValueOfString(ph))
	*subs = append(*subs, subst{ph, s})
}

// ---------------------------------------------------------------------------------------
// nested structpb values

func nestValue(shape string, depth, width int, leaf *structpb.Value) *structpb.Value {
	v := leaf
	for i := 0; i < depth; i++ {
		kind := shape
		if shape == "mixed" {
			if i%2 == 0 {
				kind = "list"
			} else {
				kind = "struct"
			}
		}
		switch kind {
		case "list":
			vals := []*structpb.Value{v}
			for j := 1; j < width; j++ {
				vals = append(vals, structpb.NewNumberValue(float64(j)))
			}
			v = structpb.NewListValue(&structpb.ListValue{Values: vals})
		default:
			fs := map[string]*structpb.Value{"k": v}
			for j := 1; j < width; j++ {
				fs[fmt.Sprintf("k%d", j)] = structpb.NewBoolValue(j%2 == 0)
			}
			v = structpb.NewStructValue(&structpb.Struct{Fields: fs})
		}
	}
	return v
}

var nestDepths = []int{10, 31, 32, 33, 99, 100, 101, 1000, 2500, 4999, 5000, 5001, 9999, 10001, 20000}

func hostileLeaf(r *prng) *structpb.Value {
	switch r.Intn(12) {
	case 0:
		return structpb.NewNullValue()
	case 1:
		return structpb.NewNumberValue(math.NaN())
	case 2:
		return structpb.NewNumberValue(math.Inf(1))
	case 3:
		return structpb.NewNumberValue(math.Inf(-1))
	case 4:
		return structpb.NewNumberValue(rec.Pick(r, []float64{0, -0.0, 1e308, -1e308, 5e-324, 9007199254740993, 1.8446744073709552e19, -9.223372036854775808e18, 0.1}))
	case 5:
		return structpb.NewStringValue(hostileStringValid(r))
	case 6:
		return &structpb.Value{} // no kind set
	case 7:
		return structpb.NewListValue(nil) // nil ListValue
	case 8:
		return structpb.NewStructValue(nil) // nil Struct
	case 9:
		return structpb.NewListValue(&structpb.ListValue{Values: []*structpb.Value{nil, {}, structpb.NewNullValue()}})
	case 10:
		return structpb.NewStructValue(&structpb.Struct{Fields: map[string]*structpb.Value{"": nil, "\x00": {}, "k": structpb.NewBoolValue(true)}})
	default:
		return structpb.NewBoolValue(r.Bool())
	}
}

func hostileStringValid(r *prng) string {
	for i := 0; i < 8; i++ {
		s := hostileString(r)
		if isValidUTF8(s) && len(s) < 70000 {
			return s
		}
	}
	return "x"
}

// a context for the base model's conditions in which one parameter is replaced by a monster
func hostileContext(r *prng, v int) (*structpb.Struct, string) {
	base := map[string]*structpb.Value{
		"x": structpb.NewNumberValue(1), "s": structpb.NewStringValue("abc"), "ip": structpb.NewStringValue("10.0.0.1"),
		"l": structpb.NewListValue(&structpb.ListValue{Values: []*structpb.Value{structpb.NewStringValue("a")}}),
		"b": structpb.NewBoolValue(true),
	}
	keys := []string{"x", "s", "ip", "l", "m", "t", "d", "u", "f", "b", "a", "ll", "extra", ""}
	var depth int
	if v >= 0 {
		depth = nestDepths[v%len(nestDepths)]
	} else if r.Chance(1, 5) {
		depth = rec.Pick(r, nestDepths)
	} else {
		depth = r.Range(0, 40)
	}
	shape := rec.Pick(r, []string{"list", "struct", "mixed"})
	width := 1
	if depth < 200 && r.Chance(1, 3) {
		width = r.Range(2, 6)
	}
	key := rec.Pick(r, keys)
	var val *structpb.Value
	note := fmt.Sprintf("ctx key=%q %s depth=%d width=%d", key, shape, depth, width)
	switch r.Intn(6) {
	case 0: // wide and flat
		n := rec.Pick(r, []int{100, 1000, 20000, 60000})
		vals := make([]*structpb.Value, n)
		for i := range vals {
			vals[i] = structpb.NewStringValue("v")
		}
		val = structpb.NewListValue(&structpb.ListValue{Values: vals})
		note = fmt.Sprintf("ctx key=%q flat list n=%d", key, n)
	case 1: // wrong scalar types for the declared parameter
		val = hostileLeaf(r)
		note = fmt.Sprintf("ctx key=%q hostile leaf", key)
	default:
		val = nestValue(shape, depth, width, hostileLeaf(r))
	}
	base[key] = val
	if r.Chance(1, 6) { // many extra keys
		for i := 0; i < rec.Pick(r, []int{10, 1000, 20000}); i++ {
			base[fmt.Sprintf("p%d", i)] = structpb.NewNumberValue(float64(i))
		}
	}
	return &structpb.Struct{Fields: base}, note
}

// ---------------------------------------------------------------------------------------
// hostile models

func usersetDepth(kind string, depth int, leaf *openfgav1.Userset) *openfgav1.Userset {
	u := leaf
	for i := 0; i < depth; i++ {
		k := kind
		if kind == "mixed" {
			k = []string{"union", "intersection", "difference", "difference_sub"}[i%4]
		}
		switch k {
		case "union":
			u = &openfgav1.Userset{Userset: &openfgav1.Userset_Union{Union: &openfgav1.Usersets{Child: []*openfgav1.Userset{u, this()}}}}
		case "intersection":
			u = &openfgav1.Userset{Userset: &openfgav1.Userset_Intersection{Intersection: &openfgav1.Usersets{Child: []*openfgav1.Userset{this(), u}}}}
		case "difference":
			u = &openfgav1.Userset{Userset: &openfgav1.Userset_Difference{Difference: &openfgav1.Difference{Base: u, Subtract: computed("blocked")}}}
		default:
			u = &openfgav1.Userset{Userset: &openfgav1.Userset_Difference{Difference: &openfgav1.Difference{Base: this(), Subtract: u}}}
		}
	}
	return u
}

func this() *openfgav1.Userset {
	return &openfgav1.Userset{Userset: &openfgav1.Userset_This{This: &openfgav1.DirectUserset{}}}
}
func computed(rel string) *openfgav1.Userset {
	return &openfgav1.Userset{Userset: &openfgav1.Userset_ComputedUserset{ComputedUserset: &openfgav1.ObjectRelation{Relation: rel}}}
}
func ttu(ts, c string) *openfgav1.Userset {
	return &openfgav1.Userset{Userset: &openfgav1.Userset_TupleToUserset{TupleToUserset: &openfgav1.TupleToUserset{
		Tupleset: &openfgav1.ObjectRelation{Relation: ts}, ComputedUserset: &openfgav1.ObjectRelation{Relation: c}}}}
}
func direct(types ...string) *openfgav1.RelationMetadata {
	var rs []*openfgav1.RelationReference
	for _, t := range types {
		ty, rel, has := strings.Cut(t, "#")
		rr := &openfgav1.RelationReference{Type: ty}
		if has {
			rr.RelationOrWildcard = &openfgav1.RelationReference_Relation{Relation: rel}
		}
		if strings.HasSuffix(ty, ":*") {
			rr.Type = strings.TrimSuffix(ty, ":*")
			rr.RelationOrWildcard = &openfgav1.RelationReference_Wildcard{Wildcard: &openfgav1.Wildcard{}}
		}
		rs = append(rs, rr)
	}
	return &openfgav1.RelationMetadata{DirectlyRelatedUserTypes: rs}
}

var modelDepths = []int{10, 24, 25, 26, 100, 1000, 2000, 3300, 3400, 5000, 10000}

const nModelShapes = 26

// hostileModel returns a WriteAuthorizationModelRequest for the scratch store
func hostileModel(fx *fixture, r *prng, v int) (*openfgav1.WriteAuthorizationModelRequest, string) {
	shape := v
	if v < 0 {
		shape = r.Intn(nModelShapes)
	}
	depth := rec.Pick(r, modelDepths)
	if v >= 0 {
		depth = modelDepths[(v/nModelShapes)%len(modelDepths)]
		shape = v % nModelShapes
	}
	user := &openfgav1.TypeDefinition{Type: "user"}
	doc := &openfgav1.TypeDefinition{Type: "document", Relations: map[string]*openfgav1.Userset{
		"blocked": this(), "parent": this(), "viewer": this(), "editor": this()},
		Metadata: &openfgav1.Metadata{Relations: map[string]*openfgav1.RelationMetadata{
			"blocked": direct("user"), "parent": direct("document"), "viewer": direct("user", "user:*", "document#editor"), "editor": direct("user")}}}
	req := &openfgav1.WriteAuthorizationModelRequest{StoreId: fx.scratch, SchemaVersion: "1.1", TypeDefinitions: []*openfgav1.TypeDefinition{user, doc}}
	note := ""
	setDeep := func(u *openfgav1.Userset) {
		doc.Relations["deep"] = u
		doc.Metadata.Relations["deep"] = direct("user")
	}
	switch shape {
	case 0, 1, 2, 3:
		kind := []string{"union", "intersection", "difference", "mixed"}[shape]
		setDeep(usersetDepth(kind, depth, this()))
		note = fmt.Sprintf("nested %s depth=%d", kind, depth)
	case 4:
		setDeep(usersetDepth("union", depth, computed("viewer")))
		note = fmt.Sprintf("nested union over computed depth=%d", depth)
	case 5:
		setDeep(usersetDepth("mixed", depth, ttu("parent", "deep")))
		note = fmt.Sprintf("nested mixed over recursive ttu depth=%d", depth)
	case 6: // wide union
		n := rec.Pick(r, []int{100, 5000, 40000})
		ch := make([]*openfgav1.Userset, n)
		for i := range ch {
			ch[i] = this()
		}
		setDeep(&openfgav1.Userset{Userset: &openfgav1.Userset_Union{Union: &openfgav1.Usersets{Child: ch}}})
		note = fmt.Sprintf("wide union n=%d", n)
	case 7: // computed cycle
		doc.Relations["a"] = computed("b")
		doc.Relations["b"] = computed("c")
		doc.Relations["c"] = computed("a")
		note = "computed cycle a->b->c->a"
	case 8: // long computed chain (valid)
		// n = 1500 (cubic cost, finding model_validation_hascycle_cost) only as a systematic variant
		n := rec.Pick(r, []int{30, 100, 300})
		if v >= 0 {
			n = []int{30, 300, 1500}[(v/nModelShapes)%3]
		}
		for i := 0; i < n; i++ {
			doc.Relations[fmt.Sprintf("r%d", i)] = computed(fmt.Sprintf("r%d", i+1))
		}
		doc.Relations[fmt.Sprintf("r%d", n)] = this()
		doc.Metadata.Relations[fmt.Sprintf("r%d", n)] = direct("user")
		note = fmt.Sprintf("computed chain n=%d", n)
	case 9: // nil / empty pieces
		doc.Relations["n1"] = nil
		doc.Relations["n2"] = &openfgav1.Userset{}
		doc.Relations["n3"] = &openfgav1.Userset{Userset: &openfgav1.Userset_Union{}}
		doc.Relations["n4"] = &openfgav1.Userset{Userset: &openfgav1.Userset_Union{Union: &openfgav1.Usersets{}}}
		doc.Relations["n5"] = &openfgav1.Userset{Userset: &openfgav1.Userset_Difference{Difference: &openfgav1.Difference{}}}
		doc.Relations["n6"] = &openfgav1.Userset{Userset: &openfgav1.Userset_TupleToUserset{TupleToUserset: &openfgav1.TupleToUserset{}}}
		doc.Relations["n7"] = &openfgav1.Userset{Userset: &openfgav1.Userset_ComputedUserset{}}
		doc.Relations["n8"] = &openfgav1.Userset{Userset: &openfgav1.Userset_Union{Union: &openfgav1.Usersets{Child: []*openfgav1.Userset{nil, nil}}}}
		pickOne := r.Intn(8) + 1
		for i := 1; i <= 8; i++ {
			if i != pickOne && r.Chance(2, 3) {
				delete(doc.Relations, fmt.Sprintf("n%d", i))
			}
		}
		note = "nil/empty rewrite pieces"
	case 10: // undefined references
		doc.Relations["u1"] = computed("nope")
		doc.Relations["u2"] = ttu("nope", "viewer")
		doc.Relations["u3"] = ttu("parent", "nope")
		doc.Relations["u4"] = this()
		doc.Metadata.Relations["u4"] = direct("ghost", "user#nope", "ghost:*", "document#nope")
		note = "undefined references"
	case 11: // metadata without relation, relation without metadata, nil metadata entries
		doc.Metadata.Relations["ghost"] = direct("user")
		doc.Relations["bare"] = this()
		doc.Metadata.Relations["viewer"] = nil
		if r.Bool() {
			doc.Metadata = nil
		}
		note = "metadata mismatch"
	case 12: // many types
		n := rec.Pick(r, []int{99, 100, 101, 2000})
		for i := 0; i < n; i++ {
			req.TypeDefinitions = append(req.TypeDefinitions, &openfgav1.TypeDefinition{Type: fmt.Sprintf("t%d", i)})
		}
		note = fmt.Sprintf("many types n=%d", n)
	case 13: // duplicate and hostile type / relation names
		req.TypeDefinitions = append(req.TypeDefinitions, &openfgav1.TypeDefinition{Type: "user"},
			&openfgav1.TypeDefinition{Type: hostileStringValid(r), Relations: map[string]*openfgav1.Userset{hostileStringValid(r): this()}})
		note = "duplicate / hostile names"
	case 14: // many relations on one type, each referencing the next through ttu on a self parent
		n := rec.Pick(r, []int{50, 500, 2000})
		for i := 0; i < n; i++ {
			doc.Relations[fmt.Sprintf("q%d", i)] = &openfgav1.Userset{Userset: &openfgav1.Userset_Union{Union: &openfgav1.Usersets{Child: []*openfgav1.Userset{this(), ttu("parent", fmt.Sprintf("q%d", (i+1)%n))}}}}
			doc.Metadata.Relations[fmt.Sprintf("q%d", i)] = direct("user")
		}
		note = fmt.Sprintf("ttu ring n=%d", n)
	case 15: // exponential-looking diamond: r_i = r_{i+1} or r_{i+1}
		// n = 24 (minutes of CPU, finding model_validation_hascycle_cost) only as a systematic variant
		n := rec.Pick(r, []int{6, 10, 14})
		if v >= 0 {
			n = []int{8, 12, 24}[(v/nModelShapes)%3]
		}
		for i := 0; i < n; i++ {
			nx := computed(fmt.Sprintf("e%d", i+1))
			doc.Relations[fmt.Sprintf("e%d", i)] = &openfgav1.Userset{Userset: &openfgav1.Userset_Union{Union: &openfgav1.Usersets{Child: []*openfgav1.Userset{nx, nx, ttu("parent", fmt.Sprintf("e%d", i+1))}}}}
		}
		doc.Relations[fmt.Sprintf("e%d", n)] = this()
		doc.Metadata.Relations[fmt.Sprintf("e%d", n)] = direct("user")
		note = fmt.Sprintf("diamond chain n=%d", n)
	case 16: // schema versions
		req.SchemaVersion = rec.Pick(r, []string{"", "1.0", "1.2", "2.0", "9.9", "1.1.1", "x", "1,1", " 1.1"})
		note = "schema version " + req.SchemaVersion
	case 17: // conditions: hostile expressions
		exprs := []string{"", "x", "x >", "1", "\"a\"", "x > 0 &&", "true || x", "y > 0", "x.foo()", "[x].map(i, i).size() > 0",
			strings.Repeat("(", 300) + "x > 0" + strings.Repeat(")", 300), strings.Repeat("!", 1000) + "true",
			"x" + strings.Repeat(" + x", 3000) + " > 0", strings.Repeat("true && ", 3000) + "true",
			"\"" + strings.Repeat("a", 100000) + "\" == \"b\"", "x > 0 ? true : false", "has(x.y)", "x in [1,2,3]", "x == 1u", "1/0 > x", "x % 0 == 0",
			"\xff > 0", "x > 9223372036854775808", "timestamp(\"x\") > timestamp(\"y\")", "duration(\"1h\") > duration(\"" + strings.Repeat("9", 400) + "s\")"}
		e := rec.Pick(r, exprs)
		if !isValidUTF8(e) {
			e = "x > 0"
		}
		req.Conditions = map[string]*openfgav1.Condition{"c": {Name: "c", Expression: e,
			Parameters: map[string]*openfgav1.ConditionParamTypeRef{"x": {TypeName: openfgav1.ConditionParamTypeRef_TYPE_NAME_INT}}}}
		doc.Metadata.Relations["viewer"].DirectlyRelatedUserTypes = append(doc.Metadata.Relations["viewer"].DirectlyRelatedUserTypes,
			&openfgav1.RelationReference{Type: "user", Condition: "c"})
		note = "condition expr " + clip(e, 40)
	case 18: // conditions: hostile parameter types
		var pt *openfgav1.ConditionParamTypeRef
		switch r.Intn(6) {
		case 0:
			pt = &openfgav1.ConditionParamTypeRef{TypeName: openfgav1.ConditionParamTypeRef_TYPE_NAME_LIST}
		case 1:
			pt = &openfgav1.ConditionParamTypeRef{TypeName: openfgav1.ConditionParamTypeRef_TYPE_NAME_MAP, GenericTypes: []*openfgav1.ConditionParamTypeRef{nil}}
		case 2:
			pt = &openfgav1.ConditionParamTypeRef{TypeName: openfgav1.ConditionParamTypeRef_TypeName(99)}
		case 3:
			pt = &openfgav1.ConditionParamTypeRef{TypeName: openfgav1.ConditionParamTypeRef_TYPE_NAME_INT, GenericTypes: []*openfgav1.ConditionParamTypeRef{{TypeName: openfgav1.ConditionParamTypeRef_TYPE_NAME_INT}}}
		case 4:
			pt = nil
		default:
			d := rec.Pick(r, []int{10, 100, 1000, 4000})
			pt = &openfgav1.ConditionParamTypeRef{TypeName: openfgav1.ConditionParamTypeRef_TYPE_NAME_STRING}
			for i := 0; i < d; i++ {
				pt = &openfgav1.ConditionParamTypeRef{TypeName: openfgav1.ConditionParamTypeRef_TYPE_NAME_LIST, GenericTypes: []*openfgav1.ConditionParamTypeRef{pt}}
			}
		}
		req.Conditions = map[string]*openfgav1.Condition{"c": {Name: "c", Expression: "true", Parameters: map[string]*openfgav1.ConditionParamTypeRef{"p": pt}}}
		doc.Metadata.Relations["viewer"].DirectlyRelatedUserTypes = append(doc.Metadata.Relations["viewer"].DirectlyRelatedUserTypes,
			&openfgav1.RelationReference{Type: "user", Condition: "c"})
		note = "condition parameter types"
	case 19: // condition key / name mismatch, nil condition, unused, many
		req.Conditions = map[string]*openfgav1.Condition{"c": {Name: "d", Expression: "true"}, "n": nil, "": {Name: "", Expression: "true"}}
		if r.Bool() {
			req.Conditions = map[string]*openfgav1.Condition{}
			for i := 0; i < rec.Pick(r, []int{10, 300}); i++ {
				n := fmt.Sprintf("c%d", i)
				req.Conditions[n] = &openfgav1.Condition{Name: n, Expression: "x > " + fmt.Sprint(i), Parameters: map[string]*openfgav1.ConditionParamTypeRef{"x": {TypeName: openfgav1.ConditionParamTypeRef_TYPE_NAME_INT}}}
			}
		}
		note = "condition table shapes"
	case 20: // nil type definitions / nil entries
		req.TypeDefinitions = append(req.TypeDefinitions, nil, &openfgav1.TypeDefinition{}, &openfgav1.TypeDefinition{Type: "x", Relations: map[string]*openfgav1.Userset{"": nil}})
		note = "nil type definitions"
	case 21: // empty model
		req.TypeDefinitions = nil
		note = "no types"
	case 22: // big metadata: module / source info
		doc.Metadata.Module = hostileStringValid(r)
		doc.Metadata.SourceInfo = &openfgav1.SourceInfo{File: hostileStringValid(r)}
		doc.Metadata.Relations["viewer"].Module = strings.Repeat("m", rec.Pick(r, []int{50, 51, 100000}))
		note = "metadata strings"
	case 23, 24: // directly assignable usersets forming a loop across two or three types
		team := &openfgav1.TypeDefinition{Type: "team", Relations: map[string]*openfgav1.Userset{"member": this()},
			Metadata: &openfgav1.Metadata{Relations: map[string]*openfgav1.RelationMetadata{"member": direct("org#admin", "user")}}}
		org := &openfgav1.TypeDefinition{Type: "org", Relations: map[string]*openfgav1.Userset{"admin": this()},
			Metadata: &openfgav1.Metadata{Relations: map[string]*openfgav1.RelationMetadata{"admin": direct("team#member")}}}
		note = "cross-type userset loop team#member <-> org#admin (valid)"
		if shape == 24 { // no terminal type anywhere: must be rejected (no entrypoints), not looped over
			team.Metadata.Relations["member"] = direct("org#admin")
			note = "cross-type userset loop without entrypoint"
		}
		if depth >= 1000 { // a longer ring through a third type
			dept := &openfgav1.TypeDefinition{Type: "dept", Relations: map[string]*openfgav1.Userset{"lead": this()},
				Metadata: &openfgav1.Metadata{Relations: map[string]*openfgav1.RelationMetadata{"lead": direct("team#member")}}}
			org.Metadata.Relations["admin"] = direct("dept#lead")
			req.TypeDefinitions = append(req.TypeDefinitions, dept)
			note += " through three types"
		}
		doc.Metadata.Relations["viewer"] = direct("user", "team#member")
		req.TypeDefinitions = append(req.TypeDefinitions, team, org)
	default: // the valid base model again (control)
		m := parser.MustTransformDSLToProto(baseDSL)
		req.TypeDefinitions, req.Conditions = m.GetTypeDefinitions(), m.GetConditions()
		note = "valid base model"
	}
	return req, note
}

// modelAbs abstracts a model to what typesystem.hasCycle looks at: per type, the relations in
// sorted-name order with their rewrites; (0) this, (1) tuple-to-userset, (2 i) computed userset on
// the i-th relation of the type (i = number of relations when undefined), (3 children...) union /
// intersection / difference / empty
func modelAbs(req *openfgav1.WriteAuthorizationModelRequest) string {
	var types []rec.V
	tds := append([]*openfgav1.TypeDefinition(nil), req.GetTypeDefinitions()...)
	sort.SliceStable(tds, func(a, b int) bool { return tds[a].GetType() < tds[b].GetType() })
	for _, td := range tds {
		names := make([]string, 0, len(td.GetRelations()))
		for n := range td.GetRelations() {
			names = append(names, n)
		}
		sort.Strings(names)
		id := map[string]int{}
		for i, n := range names {
			id[n] = i
		}
		var enc func(u *openfgav1.Userset) rec.V
		enc = func(u *openfgav1.Userset) rec.V {
			switch x := u.GetUserset().(type) {
			case *openfgav1.Userset_This:
				return rec.L(rec.I(0))
			case *openfgav1.Userset_TupleToUserset:
				return rec.L(rec.I(1))
			case *openfgav1.Userset_ComputedUserset:
				i, ok := id[x.ComputedUserset.GetRelation()]
				if !ok {
					i = len(names)
				}
				return rec.L(rec.I(2), rec.I(i))
			case *openfgav1.Userset_Union:
				vs := []rec.V{rec.I(3)}
				for _, c := range x.Union.GetChild() {
					vs = append(vs, enc(c))
				}
				return rec.L(vs...)
			case *openfgav1.Userset_Intersection:
				vs := []rec.V{rec.I(3)}
				for _, c := range x.Intersection.GetChild() {
					vs = append(vs, enc(c))
				}
				return rec.L(vs...)
			case *openfgav1.Userset_Difference:
				return rec.L(rec.I(3), enc(x.Difference.GetBase()), enc(x.Difference.GetSubtract()))
			default:
				return rec.L(rec.I(3))
			}
		}
		var rels []rec.V
		for _, n := range names {
			rels = append(rels, enc(td.GetRelations()[n]))
		}
		types = append(types, rec.L(rels...))
	}
	return string(rec.L(types...))
}

// expensive CEL conditions that compile
var celExprs = []string{
	"l.all(a, l.all(b, l.all(c, l.all(d, a + b + c + d != \"x\"))))",
	"l.map(a, l.map(b, a + b)).size() > 0",
	"l.exists(a, l.exists(b, l.exists(c, a.size() + b.size() + c.size() > 100000)))",
	"s.matches(\"^(a+)+$\")",
	"s.matches(\"(x+x+)+y\")",
	"(s + s + s + s + s + s + s + s).size() > 0",
	"l.map(a, s + s + s + a).size() > 0 && l.filter(a, a.contains(s)).size() >= 0",
	"l.all(a, a.matches(s))",
	"l.size() > 0 && l[0] == s",
	"l[1000000] == s",
	"m[s] == s",
	"int(s) > 0",
	"timestamp(s) > timestamp(\"2020-01-01T00:00:00Z\")",
	"duration(s) > duration(\"1s\")",
	"n / (n - n) > 0",
	"n * n * n * n * n * n * n * n > 0",
	"-n - 9223372036854775807 < 0",
	"u - 1u > 0u",
	"s.substring(5) == \"x\"",
	"s.charAt(100) == \"x\"",
	"s.split(\"\").size() > 0",
	"[1,2,3].map(i, [1,2,3].map(j, [1,2,3].map(k, i*j*k))).size() > 0",
}

func celModel(fx *fixture, r *prng, v int) (*openfgav1.WriteAuthorizationModelRequest, string) {
	e := celExprs[0]
	if v >= 0 {
		e = celExprs[v%len(celExprs)]
	} else {
		e = rec.Pick(r, celExprs)
	}
	m := parser.MustTransformDSLToProto(pagingDSL)
	req := &openfgav1.WriteAuthorizationModelRequest{StoreId: fx.scratch, SchemaVersion: "1.1", TypeDefinitions: m.GetTypeDefinitions()}
	str := &openfgav1.ConditionParamTypeRef{TypeName: openfgav1.ConditionParamTypeRef_TYPE_NAME_STRING}
	req.Conditions = map[string]*openfgav1.Condition{"c": {Name: "c", Expression: e, Parameters: map[string]*openfgav1.ConditionParamTypeRef{
		"s": str, "n": {TypeName: openfgav1.ConditionParamTypeRef_TYPE_NAME_INT}, "u": {TypeName: openfgav1.ConditionParamTypeRef_TYPE_NAME_UINT},
		"l": {TypeName: openfgav1.ConditionParamTypeRef_TYPE_NAME_LIST, GenericTypes: []*openfgav1.ConditionParamTypeRef{str}},
		"m": {TypeName: openfgav1.ConditionParamTypeRef_TYPE_NAME_MAP, GenericTypes: []*openfgav1.ConditionParamTypeRef{str}}}}}
	for _, td := range req.TypeDefinitions {
		if td.GetType() == "doc" {
			td.Metadata.Relations["viewer"].DirectlyRelatedUserTypes = append(td.Metadata.Relations["viewer"].DirectlyRelatedUserTypes,
				&openfgav1.RelationReference{Type: "user", Condition: "c"})
		}
	}
	return req, e
}

func celContext(r *prng) *structpb.Struct {
	n := rec.Pick(r, []int{0, 1, 30, 200, 3000})
	vals := make([]*structpb.Value, n)
	for i := range vals {
		vals[i] = structpb.NewStringValue(rec.Pick(r, []string{"a", "aaaaaaaaaaaaaaaaaaaaaaaaaaaaaaaa!", "x", "(", "[", "\\"}))
	}
	s := rec.Pick(r, []string{"", "a", strings.Repeat("a", 40) + "!", strings.Repeat("x", 60), "(a+)+$", "[", "\\", "9223372036854775807", "2020-13-45T00:00:00Z", "1000000000h", strings.Repeat("a", 30000)})
	return &structpb.Struct{Fields: map[string]*structpb.Value{
		"s": structpb.NewStringValue(s), "n": structpb.NewNumberValue(rec.Pick(r, []float64{0, 1, -1, 9.2e18, -9.3e18, 3037000500, 1.5})),
		"u": structpb.NewNumberValue(rec.Pick(r, []float64{0, 1, 1.9e19, -1})),
		"l": structpb.NewListValue(&structpb.ListValue{Values: vals}),
		"m": structpb.NewStructValue(&structpb.Struct{Fields: map[string]*structpb.Value{"k": structpb.NewStringValue("v")}})}}
}

// ---------------------------------------------------------------------------------------
// continuation tokens

var decodedTokens = []string{
	"", "0|", "2|", "5|", "6|", "99|", "-1|", "-0|", "+3|", "-5|", "-9223372036854775808|", "9223372036854775807|", "9223372036854775808|",
	"-9223372036854775809|", "abc|", "|", "||", "3", "-1", "3|x", "-1|x|y", "-2|document", " 1|", "1 |", "0x10|", "1_0|", "٣|", "1e2|", "1.0|",
	"00000000000000000000000000000000000002|", "-00000000000000000000000000000000000002|", "\x00|", "2|\xff", "\xff|", "--1|", "-+1|", "- 1|",
	"01ARZ3NDEKTSV4RRFFQ69G5FAV|", "01ARZ3NDEKTSV4RRFFQ69G5FAV|document", "01ARZ3NDEKTSV4RRFFQ69G5FAV|nope", "ZZZZZZZZZZZZZZZZZZZZZZZZZZ|", "7ZZZZZZZZZZZZZZZZZZZZZZZZZ|",
	"{\"pk\":\"x\",\"sk\":\"y\"}|", "01ARZ3NDEKTSV4RRFFQ69G5FAV", "-1", "99", "2",
}

var rawTokens = []string{ // sent as is (not produced by the encoder)
	"LTF8", "LTF8=", "LTF8==", "LTF8===", "L", "LT", "LTF", "====", "=", "-", "_", "+/+/", "LTF8\n", " LTF8", "LT F8", "LTF8LTF8LTF8", "!!!!", "é",
}

var pageSizes = []int64{math.MinInt64 /* absent */, 1, 2, 5, 6, 100, 0, -1, 101, math.MaxInt32, math.MinInt32}

func tokenFor(r *prng, v int) (tokStr string) {
	all := len(decodedTokens) + len(rawTokens) + 2
	i := v
	if v < 0 {
		i = r.Intn(all)
	}
	i %= all
	switch {
	case i < len(decodedTokens):
		return base64.URLEncoding.EncodeToString([]byte(decodedTokens[i]))
	case i < len(decodedTokens)+len(rawTokens):
		return rawTokens[i-len(decodedTokens)]
	case i == len(decodedTokens)+len(rawTokens):
		return strings.Repeat("A", 5120)
	default:
		return strings.Repeat("A", 5124)
	}
}

func nTokenVariants() int { return (len(decodedTokens) + len(rawTokens) + 2) * len(pageSizes) }

func psFor(r *prng, v int) (bool, int64) {
	ps := pageSizes[0]
	if v < 0 {
		ps = rec.Pick(r, pageSizes)
	} else {
		ps = pageSizes[(v/(len(decodedTokens)+len(rawTokens)+2))%len(pageSizes)]
	}
	if ps == math.MinInt64 {
		return false, 0
	}
	return true, ps
}

// ---------------------------------------------------------------------------------------
// wire-level mutations

func mutateWire(b []byte, r *prng) ([]byte, string) {
	b = append([]byte(nil), b...)
	n := 1 + r.Intn(3)
	var notes []string
	for k := 0; k < n; k++ {
		op := r.Intn(12)
		switch op {
		case 0: // flip a bit
			if len(b) > 0 {
				i := r.Intn(len(b))
				b[i] ^= 1 << uint(r.Intn(8))
				notes = append(notes, fmt.Sprintf("flip@%d", i))
			}
		case 1: // set a byte
			if len(b) > 0 {
				i := r.Intn(len(b))
				b[i] = rec.Pick(r, []byte{0, 1, 0x7f, 0x80, 0xff, 0x0a, 0x12, 0x1a, 0x0b, 0x0c})
				notes = append(notes, fmt.Sprintf("set@%d", i))
			}
		case 2: // truncate
			if len(b) > 0 {
				i := r.Intn(len(b))
				b = b[:i]
				notes = append(notes, fmt.Sprintf("trunc@%d", i))
			}
		case 3: // duplicate a segment
			if len(b) > 1 {
				i := r.Intn(len(b))
				j := i + r.Intn(len(b)-i)
				b = append(b[:j:j], append(append([]byte(nil), b[i:j]...), b[j:]...)...)
				notes = append(notes, fmt.Sprintf("dup[%d:%d]", i, j))
			}
		case 4: // append the whole message again (field merge: last scalar wins, repeated fields concatenate)
			b = append(b, b...)
			notes = append(notes, "double")
		case 5: // append unknown fields
			var u []byte
			u = protowire.AppendTag(u, protowire.Number(1000+r.Intn(1000)), protowire.BytesType)
			u = protowire.AppendBytes(u, bytes.Repeat([]byte{0xAA}, r.Intn(64)))
			u = protowire.AppendTag(u, protowire.Number(536870911), protowire.VarintType)
			u = protowire.AppendVarint(u, math.MaxUint64)
			b = append(b, u...)
			notes = append(notes, "unknown")
		case 6: // deeply nested groups as an unknown field
			d := rec.Pick(r, []int{10, 100, 9999, 10001, 50000})
			var u []byte
			for i := 0; i < d; i++ {
				u = protowire.AppendTag(u, 2000, protowire.StartGroupType)
			}
			if r.Bool() {
				for i := 0; i < d; i++ {
					u = protowire.AppendTag(u, 2000, protowire.EndGroupType)
				}
			}
			b = append(b, u...)
			notes = append(notes, fmt.Sprintf("groups=%d", d))
		case 7: // a length prefix that lies
			var u []byte
			u = protowire.AppendTag(u, protowire.Number(1+r.Intn(12)), protowire.BytesType)
			u = protowire.AppendVarint(u, rec.Pick(r, []uint64{1 << 20, 1 << 31, 1<<32 - 1, 1 << 40, math.MaxUint64, 5}))
			b = append(b, u...)
			notes = append(notes, "lying length")
		case 8: // field with the wrong wire type
			var u []byte
			u = protowire.AppendTag(u, protowire.Number(1+r.Intn(12)), rec.Pick(r, []protowire.Type{protowire.VarintType, protowire.Fixed32Type, protowire.Fixed64Type}))
			u = append(u, 0xff, 0xff, 0xff, 0xff, 0xff, 0xff, 0xff, 0xff, 0xff, 0x01)
			b = append(b, u...)
			notes = append(notes, "wrong wire type")
		case 9: // overlong varint / invalid tag
			b = append(b, 0xff, 0xff, 0xff, 0xff, 0xff, 0xff, 0xff, 0xff, 0xff, 0xff, 0xff, 0x01)
			notes = append(notes, "overlong varint")
		case 10: // insert random bytes
			i := r.Intn(len(b) + 1)
			ins := make([]byte, 1+r.Intn(8))
			for j := range ins {
				ins[j] = byte(r.Intn(256))
			}
			b = append(b[:i:i], append(ins, b[i:]...)...)
			notes = append(notes, fmt.Sprintf("ins@%d", i))
		default: // remove a segment
			if len(b) > 1 {
				i := r.Intn(len(b))
				j := i + r.Intn(len(b)-i)
				b = append(b[:i:i], b[j:]...)
				notes = append(notes, fmt.Sprintf("del[%d:%d]", i, j))
			}
		}
	}
	return b, strings.Join(notes, ",")
}

// a field that nests the same message type inside itself to a great depth cannot be built with
// the API messages except through Userset / structpb; this one nests raw length-delimited fields
func nestedRaw(field protowire.Number, depth int) []byte {
	// sizes bottom-up, then the headers top-down (linear)
	sizes := make([]int, depth+1) // sizes[i] = encoded size of i levels
	for i := 1; i <= depth; i++ {
		sizes[i] = protowire.SizeTag(field) + protowire.SizeBytes(sizes[i-1])
	}
	b := make([]byte, 0, sizes[depth])
	for i := depth; i >= 1; i-- {
		b = protowire.AppendTag(b, field, protowire.BytesType)
		b = protowire.AppendVarint(b, uint64(sizes[i-1]))
	}
	return b
}

// ---------------------------------------------------------------------------------------
// HTTP bodies

func jsonOf(m proto.Message) []byte {
	b, err := protojson.MarshalOptions{UseProtoNames: true}.Marshal(m)
	if err != nil {
		return []byte("{}")
	}
	return b
}

func hostileJSON(base []byte, r *prng, v int) ([]byte, string) {
	k := v
	if v < 0 {
		k = r.Intn(20)
	}
	nest := func(open, cl string, d int) string { return strings.Repeat(open, d) + strings.Repeat(cl, d) }
	switch k % 20 {
	case 0:
		return base, "valid"
	case 1:
		d := rec.Pick(r, []int{100, 9999, 10001, 100000})
		return []byte(`{"context":{"a":` + nest(`{"a":`, `}`, d)[:len(`{"a":`)*d] + `1` + strings.Repeat("}", d) + `}}`), fmt.Sprintf("deep object %d", d)
	case 2:
		d := rec.Pick(r, []int{100, 9999, 10001, 100000, 1000000})
		return []byte(`{"context":{"a":` + nest("[", "]", d) + `}}`), fmt.Sprintf("deep array %d", d)
	case 3:
		d := rec.Pick(r, []int{1000, 100000})
		return []byte(strings.Repeat("[", d)), fmt.Sprintf("unclosed arrays %d", d)
	case 4:
		return append(append([]byte(nil), base...), []byte(" trailing garbage")...), "trailing garbage"
	case 5:
		return base[:len(base)/2], "truncated"
	case 6:
		return []byte(`{"tuple_key":{"object":"document:\xff","relation":"viewer","user":"user:\xc0\x80"}}`), "invalid utf-8"
	case 7:
		return []byte(`{"tuple_key":{"object":"document:\ud800","relation":"viewer","user":"user:\udc00x"}}`), "lone surrogates"
	case 8:
		return []byte(`{"tuple_key":{"object":1,"relation":[],"user":{}},"context":[],"contextual_tuples":"x"}`), "wrong types"
	case 9:
		return []byte(`{"page_size":1e10,"continuation_token":"LTF8"}`), "page size 1e10"
	case 10:
		return []byte(`{"page_size":-1,"continuation_token":"LTF8"}`), "negative page size, negative offset token"
	case 11:
		return []byte(`{"page_size":"2","continuation_token":"LTF8"}`), "negative offset token over HTTP"
	case 12:
		return []byte(`{"context":{"x":1e400,"y":-1e400,"z":NaN}}`), "huge numbers"
	case 13:
		return []byte(`{"tuple_key":{"object":"document:1","object":"document:2","relation":"viewer","user":"user:anne"}}`), "duplicate keys"
	case 14:
		return []byte(`{"consistency":"NOPE","tuple_key":{"object":"document:1","relation":"viewer","user":"user:anne"}}`), "unknown enum"
	case 15:
		return []byte(`{"consistency":99999999999,"tuple_key":null,"context":null,"contextual_tuples":null}`), "nulls"
	case 16:
		return []byte("\xef\xbb\xbf" + string(base)), "BOM"
	case 17:
		return []byte(`{"tuple_key":{"object":"` + strings.Repeat("a", 700000) + `"}}`), "huge string"
	case 18:
		return []byte(`{"unknown_field":` + nest("[", "]", 50000) + `}`), "deep unknown field"
	default:
		return []byte(``), "empty body"
	}
}

// ---------------------------------------------------------------------------------------
// the generators

func oneStep(rpc *rpcInfo, m proto.Message, subs []subst, note string) step {
	return step{rpc: rpc, wire: finishWire(m, subs), note: note, heavy: rpc.heavy}
}

var generators []*generator

func init() {
	generators = []*generator{
		{name: "valid", weight: 10, build: func(fx *fixture, r *prng, v int) built {
			rpc := rec.Pick(r, rpcs)
			return built{steps: []step{oneStep(rpc, rpc.newReq(fx, r), nil, "baseline "+rpc.name)}, stats: []string{"valid:" + rpc.name}}
		}},
		{name: "tok_read", variants: nTokenVariants(), weight: 8, build: func(fx *fixture, r *prng, v int) built {
			tok := tokenFor(r, v)
			has, ps := psFor(r, v)
			req := &openfgav1.ReadRequest{StoreId: fx.pstore, ContinuationToken: tok}
			if has {
				req.PageSize = wrapperspb.Int32(int32(ps))
			}
			tc := &tokCase{n: pagingTuples, hasPS: has, ps: ps, token: tok}
			if d, err := base64.URLEncoding.DecodeString(tok); err == nil {
				tc.decoded, tc.decodeOK = d, true
			}
			var subs []subst
			if !isValidUTF8(tok) {
				sp := spot{set: func(v protoreflect.Value) { req.ContinuationToken = v.String() }}
				setString(sp, tok, &subs)
			}
			return built{steps: []step{oneStep(rpcByName("Read"), req, subs, fmt.Sprintf("Read ps=%v/%d token=%q", has, ps, clip(tok, 40)))}, tok: tc,
				stats: []string{"tok_read"}}
		}},
		{name: "tok_other", variants: 4 * (len(decodedTokens) + len(rawTokens) + 2), weight: 6, build: func(fx *fixture, r *prng, v int) built {
			tok := tokenFor(r, v)
			which := r.Intn(4)
			if v >= 0 {
				which = (v / (len(decodedTokens) + len(rawTokens) + 2)) % 4
			}
			var m proto.Message
			var rpc *rpcInfo
			ps := wrapperspb.Int32(int32(rec.Pick(r, []int{1, 2, 50, 100})))
			switch which {
			case 0:
				rpc, m = rpcByName("ReadChanges"), &openfgav1.ReadChangesRequest{StoreId: fx.store, Type: rec.Pick(r, []string{"", "document"}), PageSize: ps, ContinuationToken: tok}
			case 1:
				rpc, m = rpcByName("ListStores"), &openfgav1.ListStoresRequest{PageSize: ps, ContinuationToken: tok}
			case 2:
				rpc, m = rpcByName("ReadAuthorizationModels"), &openfgav1.ReadAuthorizationModelsRequest{StoreId: fx.pstore, PageSize: ps, ContinuationToken: tok}
			default:
				rpc, m = rpcByName("Read"), &openfgav1.ReadRequest{StoreId: fx.store, PageSize: ps, ContinuationToken: tok,
					TupleKey: &openfgav1.ReadRequestTupleKey{Object: "document:", User: "user:anne"}}
			}
			if !isValidUTF8(tok) {
				return built{steps: []step{oneStep(rpc, rpc.newReq(fx, r), nil, "baseline")}, stats: []string{"tok_other"}}
			}
			var tc *tokCase
			if which == 3 { // the same ReadPage code on a listing whose length the model is not told
				tc = &tokCase{n: -1, hasPS: true, ps: int64(ps.GetValue()), token: tok}
				if d, err := base64.URLEncoding.DecodeString(tok); err == nil {
					tc.decoded, tc.decodeOK = d, true
				}
			}
			return built{steps: []step{oneStep(rpc, m, nil, fmt.Sprintf("%s token=%q", rpc.name, clip(tok, 40)))}, tok: tc, stats: []string{"tok_other:" + rpc.name}}
		}},
		{name: "strfield", weight: 22, build: func(fx *fixture, r *prng, v int) built {
			rpc := rec.Pick(r, rpcs)
			m := rpc.newReq(fx, r)
			var spots []spot
			walkSpots(m.ProtoReflect(), "", &spots, 0)
			var strs []spot
			for _, s := range spots {
				if s.kind == "string" || s.kind == "mapkey" {
					strs = append(strs, s)
				}
			}
			var subs []subst
			var notes []string
			for k := 0; k < 1+r.Intn(2) && len(strs) > 0; k++ {
				sp := rec.Pick(r, strs)
				h := hostileString(r)
				if sp.kind == "mapkey" {
					if !isValidUTF8(h) {
						h = hostileStringValid(r)
					}
					val := sp.mp.Get(sp.key)
					sp.mp.Clear(sp.key)
					sp.mp.Set(protoreflect.ValueOfString(h).MapKey(), val)
				} else {
					setString(sp, h, &subs)
				}
				notes = append(notes, fmt.Sprintf("%s=%q", sp.path, clip(h, 30)))
			}
			return built{steps: []step{oneStep(rpc, m, subs, rpc.name+" "+strings.Join(notes, " "))}, stats: []string{"strfield:" + rpc.name}}
		}},
		{name: "numfield", weight: 10, build: func(fx *fixture, r *prng, v int) built {
			rpc := rec.Pick(r, rpcs)
			m := rpc.newReq(fx, r)
			var spots []spot
			walkSpots(m.ProtoReflect(), "", &spots, 0)
			var cand []spot
			for _, s := range spots {
				if s.kind != "string" && s.kind != "mapkey" && s.kind != "struct" {
					cand = append(cand, s)
				}
			}
			note := rpc.name
			if len(cand) > 0 {
				sp := rec.Pick(r, cand)
				note += " " + sp.path + ":" + sp.kind
				switch sp.kind {
				case "int":
					x := rec.Pick(r, []int64{0, -1, 1, math.MinInt32, math.MaxInt32, 101, 100})
					switch sp.fd.Kind() {
					case protoreflect.Int64Kind, protoreflect.Sint64Kind, protoreflect.Sfixed64Kind:
						sp.set(protoreflect.ValueOfInt64(x))
					case protoreflect.Uint32Kind, protoreflect.Fixed32Kind:
						sp.set(protoreflect.ValueOfUint32(uint32(x)))
					case protoreflect.Uint64Kind, protoreflect.Fixed64Kind:
						sp.set(protoreflect.ValueOfUint64(uint64(x)))
					default:
						sp.set(protoreflect.ValueOfInt32(int32(x)))
					}
				case "enum":
					sp.set(protoreflect.ValueOfEnum(protoreflect.EnumNumber(rec.Pick(r, []int32{-1, 99, math.MaxInt32, math.MinInt32, 3}))))
				case "bool":
					sp.set(protoreflect.ValueOfBool(r.Bool()))
				case "double":
					sp.set(protoreflect.ValueOfFloat64(rec.Pick(r, []float64{math.NaN(), math.Inf(1), -1e308})))
				case "bytes":
					sp.set(protoreflect.ValueOfBytes(bytes.Repeat([]byte{0xff}, r.Intn(100))))
				case "msg":
					if r.Bool() {
						sp.par.Clear(sp.fd)
					} else {
						sp.par.Set(sp.fd, protoreflect.ValueOfMessage(sp.par.NewField(sp.fd).Message())) // present but empty
					}
				case "list":
					n := sp.list.Len()
					switch r.Intn(4) {
					case 0:
						sp.list.Truncate(0)
					case 1:
						if n > 0 { // blow it up with copies of the first element
							times := rec.Pick(r, []int{19, 20, 21, 49, 50, 51, 99, 100, 101, 1000})
							for i := 0; i < times; i++ {
								if sp.fd.Kind() == protoreflect.MessageKind {
									sp.list.Append(protoreflect.ValueOfMessage(proto.Clone(sp.list.Get(0).Message().Interface()).ProtoReflect()))
								} else {
									sp.list.Append(sp.list.Get(0))
								}
							}
							note += fmt.Sprintf(" x%d", times)
						}
					case 2:
						if sp.fd.Kind() == protoreflect.MessageKind {
							sp.list.Append(protoreflect.ValueOfMessage(sp.list.NewElement().Message())) // an empty element
						}
					default:
						if n > 1 {
							sp.list.Truncate(n - 1)
						}
					}
				case "map":
					sp.mp.Range(func(k protoreflect.MapKey, _ protoreflect.Value) bool { sp.mp.Clear(k); return false })
				}
			}
			return built{steps: []step{oneStep(rpc, m, nil, note)}, stats: []string{"numfield:" + rpc.name}}
		}},
		{name: "ctx_nest", variants: 6 * len(nestDepths), weight: 12, build: func(fx *fixture, r *prng, v int) built {
			names := []string{"Check", "ListObjects", "ListUsers", "BatchCheck", "Write", "WriteAssertions"}
			name := rec.Pick(r, names)
			if v >= 0 {
				name = names[(v/len(nestDepths))%len(names)]
			}
			rpc := rpcByName(name)
			m := rpc.newReq(fx, r)
			ctx, note := hostileContext(r, v)
			switch q := m.(type) {
			case *openfgav1.CheckRequest:
				q.Context = ctx
				q.TupleKey = &openfgav1.CheckRequestTupleKey{Object: rec.Pick(r, []string{"document:4", "document:5", "group:ip", "group:int"}), Relation: "viewer", User: "user:anne"}
				if strings.HasPrefix(q.TupleKey.Object, "group:") {
					q.TupleKey.Relation = "member"
				}
				if r.Bool() {
					q.ContextualTuples = &openfgav1.ContextualTupleKeys{TupleKeys: []*openfgav1.TupleKey{
						{Object: "document:4", Relation: "viewer", User: "user:*", Condition: &openfgav1.RelationshipCondition{Name: "cond_str", Context: ctx}}}}
				}
			case *openfgav1.ListObjectsRequest:
				q.Context, q.Type, q.Relation = ctx, "document", "viewer"
			case *openfgav1.ListUsersRequest:
				q.Context, q.Object, q.Relation = ctx, &openfgav1.Object{Type: "document", Id: "4"}, "viewer"
			case *openfgav1.BatchCheckRequest:
				for _, it := range q.Checks {
					it.Context = ctx
				}
			case *openfgav1.WriteRequest:
				q.Deletes = nil
				q.Writes = &openfgav1.WriteRequestWrites{TupleKeys: []*openfgav1.TupleKey{
					{Object: fmt.Sprintf("document:c%d", r.Intn(1000)), Relation: "viewer", User: "user:*", Condition: &openfgav1.RelationshipCondition{Name: "cond_str", Context: ctx}}}}
			case *openfgav1.WriteAssertionsRequest:
				q.Assertions = []*openfgav1.Assertion{{TupleKey: &openfgav1.AssertionTupleKey{Object: "document:4", Relation: "viewer", User: "user:anne"}, Context: ctx}}
			}
			return built{steps: []step{oneStep(rpc, m, nil, name+" "+note)}, stats: []string{"ctx_nest:" + name}}
		}},
		{name: "ctx_empty", variants: 10, weight: 2, build: func(fx *fixture, r *prng, v int) built {
			// a context that is PRESENT but empty on the wire, against tuples that carry their own
			// condition context (stored: group:ip, document:4, document:5; or contextual)
			names := []string{"Check", "BatchCheck", "ListObjects", "ListUsers", "StreamedListObjects"}
			k := v
			if v < 0 {
				k = r.Intn(10)
			}
			name := names[k%5]
			withCT := k >= 5
			rpc := rpcByName(name)
			empty := &structpb.Struct{}
			var ct []*openfgav1.TupleKey
			if withCT {
				ct = []*openfgav1.TupleKey{tkc("document:9", "viewer", "user:*", "cond_str", map[string]any{"s": "abc"})}
			}
			var m proto.Message
			switch name {
			case "Check":
				m = &openfgav1.CheckRequest{StoreId: fx.store, AuthorizationModelId: fx.model, Context: empty, ContextualTuples: &openfgav1.ContextualTupleKeys{TupleKeys: ct},
					TupleKey: &openfgav1.CheckRequestTupleKey{Object: map[bool]string{false: "document:4", true: "document:9"}[withCT], Relation: "viewer", User: "user:zed"}}
			case "BatchCheck":
				m = &openfgav1.BatchCheckRequest{StoreId: fx.store, AuthorizationModelId: fx.model, Checks: []*openfgav1.BatchCheckItem{
					{CorrelationId: "a", Context: empty, ContextualTuples: &openfgav1.ContextualTupleKeys{TupleKeys: ct}, TupleKey: &openfgav1.CheckRequestTupleKey{Object: "group:ip", Relation: "member", User: "user:ivy"}},
					{CorrelationId: "b", Context: empty, TupleKey: &openfgav1.CheckRequestTupleKey{Object: "document:4", Relation: "viewer", User: "user:zed"}}}}
			case "ListObjects":
				m = &openfgav1.ListObjectsRequest{StoreId: fx.store, AuthorizationModelId: fx.model, Context: empty, ContextualTuples: &openfgav1.ContextualTupleKeys{TupleKeys: ct},
					Type: "document", Relation: "viewer", User: "user:zed"}
			case "StreamedListObjects":
				m = &openfgav1.StreamedListObjectsRequest{StoreId: fx.store, AuthorizationModelId: fx.model, Context: empty, ContextualTuples: &openfgav1.ContextualTupleKeys{TupleKeys: ct},
					Type: "group", Relation: "member", User: "user:ivy"}
			default:
				m = &openfgav1.ListUsersRequest{StoreId: fx.store, AuthorizationModelId: fx.model, Context: empty, ContextualTuples: ct,
					Object: &openfgav1.Object{Type: "document", Id: "4"}, Relation: "viewer", UserFilters: []*openfgav1.UserTypeFilter{{Type: "user"}}}
			}
			return built{steps: []step{oneStep(rpc, m, nil, fmt.Sprintf("%s with context {} (present, empty), contextual conditioned tuple=%v", name, withCT))}, stats: []string{"ctx_empty:" + name}}
		}},
		{name: "ctuples", weight: 6, build: func(fx *fixture, r *prng, v int) built {
			name := rec.Pick(r, []string{"Check", "ListObjects", "ListUsers", "Expand", "BatchCheck"})
			rpc := rpcByName(name)
			m := rpc.newReq(fx, r)
			n := rec.Pick(r, []int{0, 1, 20, 21, 99, 100, 101, 1000, 4000})
			var ts []*openfgav1.TupleKey
			for i := 0; i < n; i++ {
				var t *openfgav1.TupleKey
				switch r.Intn(6) {
				case 0:
					t = tk("group:a", "member", "group:b#member") // duplicates of stored cycle edges
				case 1:
					t = tk(fmt.Sprintf("group:x%d", i), "member", fmt.Sprintf("group:x%d#member", (i+1)%max(n, 1))) // a ring
				case 2:
					t = tkc("document:4", "viewer", "user:*", "cond_str", map[string]any{"s": fmt.Sprint(i)})
				case 3:
					t = tk(hostileStringValid(r), hostileStringValid(r), hostileStringValid(r))
				case 4:
					t = nil
				default:
					o := objs(r)
					t = tk(o, relOf(o, r), users(r))
				}
				ts = append(ts, t)
			}
			switch q := m.(type) {
			case *openfgav1.CheckRequest:
				q.ContextualTuples = &openfgav1.ContextualTupleKeys{TupleKeys: ts}
			case *openfgav1.ListObjectsRequest:
				q.ContextualTuples = &openfgav1.ContextualTupleKeys{TupleKeys: ts}
			case *openfgav1.ListUsersRequest:
				q.ContextualTuples = ts
			case *openfgav1.ExpandRequest:
				q.ContextualTuples = &openfgav1.ContextualTupleKeys{TupleKeys: ts}
			case *openfgav1.BatchCheckRequest:
				for _, it := range q.Checks {
					it.ContextualTuples = &openfgav1.ContextualTupleKeys{TupleKeys: ts}
				}
			}
			return built{steps: []step{oneStep(rpc, m, nil, fmt.Sprintf("%s contextual tuples n=%d", name, n))}, stats: []string{"ctuples:" + name}}
		}},
		{name: "batch", weight: 3, build: func(fx *fixture, r *prng, v int) built {
			rpc := rpcByName("BatchCheck")
			n := rec.Pick(r, []int{0, 1, 49, 50, 51, 500, 5000})
			req := &openfgav1.BatchCheckRequest{StoreId: fx.store, AuthorizationModelId: fx.model}
			for i := 0; i < n; i++ {
				o := objs(r)
				id := fmt.Sprintf("c-%d", i)
				if r.Chance(1, 20) {
					id = rec.Pick(r, []string{"c-0", "", hostileStringValid(r), strings.Repeat("a", 37)})
				}
				var tkk *openfgav1.CheckRequestTupleKey
				if !r.Chance(1, 30) {
					tkk = &openfgav1.CheckRequestTupleKey{Object: o, Relation: relOf(o, r), User: users(r)}
				}
				req.Checks = append(req.Checks, &openfgav1.BatchCheckItem{CorrelationId: id, TupleKey: tkk})
			}
			if r.Chance(1, 10) {
				req.Checks = append(req.Checks, nil)
			}
			return built{steps: []step{oneStep(rpc, req, nil, fmt.Sprintf("BatchCheck n=%d", n))}, stats: []string{"batch"}}
		}},
		{name: "write_many", weight: 3, build: func(fx *fixture, r *prng, v int) built {
			rpc := rpcByName("Write")
			n := rec.Pick(r, []int{0, 1, 99, 100, 101, 2000})
			req := &openfgav1.WriteRequest{StoreId: fx.scratch, AuthorizationModelId: fx.smodel, Writes: &openfgav1.WriteRequestWrites{}, Deletes: &openfgav1.WriteRequestDeletes{}}
			for i := 0; i < n; i++ {
				t := tk(fmt.Sprintf("document:m%d", r.Intn(3000)), "viewer", "user:anne")
				switch r.Intn(8) {
				case 0:
					req.Deletes.TupleKeys = append(req.Deletes.TupleKeys, &openfgav1.TupleKeyWithoutCondition{Object: t.Object, Relation: t.Relation, User: t.User})
				case 1:
					req.Writes.TupleKeys = append(req.Writes.TupleKeys, t, t) // same tuple twice
				case 2:
					req.Writes.TupleKeys = append(req.Writes.TupleKeys, nil)
				case 3:
					req.Writes.TupleKeys = append(req.Writes.TupleKeys, tk("group:s", "member", "group:s#member")) // self-referencing userset
				default:
					req.Writes.TupleKeys = append(req.Writes.TupleKeys, t)
				}
			}
			if r.Chance(1, 4) {
				req.Writes = nil
			}
			if r.Chance(1, 4) {
				req.Deletes = nil
			}
			return built{steps: []step{oneStep(rpc, req, nil, fmt.Sprintf("Write n=%d", n))}, stats: []string{"write_many"}}
		}},
		{name: "model", variants: nModelShapes * 3, weight: 12, build: func(fx *fixture, r *prng, v int) built {
			req, note := hostileModel(fx, r, v)
			rpc := rpcByName("WriteAuthorizationModel")
			first := oneStep(rpc, req, nil, "WriteAuthorizationModel "+note)
			first.heavy = true
			if strings.Contains(note, "diamond chain n=24") || strings.Contains(note, "computed chain n=1500") {
				first.limit = 7 * time.Second // the witnesses of model_validation_hascycle_cost: minutes of CPU
			}
			first.after = func(resp proto.Message, env *caseEnv) {
				env.modelID = resp.(*openfgav1.WriteAuthorizationModelResponse).GetAuthorizationModelId()
			}
			// when the model was accepted: query it
			rels := []string{"deep", "viewer", "a", "r0", "q0", "e0", "n1", "u1", "bare", "viewer"}
			var follow []step
			for _, fn := range []string{"Check", "ListObjects", "ListUsers", "Expand", "ReadAuthorizationModel"} {
				fn := fn
				rel := rec.Pick(r, rels)
				follow = append(follow, step{heavy: true, note: fn + " on the new model rel=" + rel, lazy: func(env *caseEnv) (*rpcInfo, []byte) {
					if env.modelID == "" {
						return nil, nil
					}
					var m proto.Message
					switch fn {
					case "Check":
						m = &openfgav1.CheckRequest{StoreId: fx.scratch, AuthorizationModelId: env.modelID, TupleKey: &openfgav1.CheckRequestTupleKey{Object: "document:w1", Relation: rel, User: "user:anne"}}
					case "ListObjects":
						m = &openfgav1.ListObjectsRequest{StoreId: fx.scratch, AuthorizationModelId: env.modelID, Type: "document", Relation: rel, User: "user:anne"}
					case "ListUsers":
						m = &openfgav1.ListUsersRequest{StoreId: fx.scratch, AuthorizationModelId: env.modelID, Object: &openfgav1.Object{Type: "document", Id: "w1"}, Relation: rel,
							UserFilters: []*openfgav1.UserTypeFilter{{Type: "user"}}}
					case "Expand":
						m = &openfgav1.ExpandRequest{StoreId: fx.scratch, AuthorizationModelId: env.modelID, TupleKey: &openfgav1.ExpandRequestTupleKey{Object: "document:w1", Relation: rel}}
					default:
						m = &openfgav1.ReadAuthorizationModelRequest{StoreId: fx.scratch, Id: env.modelID}
					}
					return rpcByName(fn), finishWire(m, nil)
				}})
			}
			return built{steps: append([]step{first}, follow...), abs: modelAbs(req), stats: []string{"model:" + strings.SplitN(note, " ", 3)[0]}}
		}},
		{name: "cel", variants: len(celExprs), weight: 5, build: func(fx *fixture, r *prng, v int) built {
			req, e := celModel(fx, r, v)
			first := oneStep(rpcByName("WriteAuthorizationModel"), req, nil, "WriteAuthorizationModel cel: "+clip(e, 60))
			first.after = func(resp proto.Message, env *caseEnv) {
				env.modelID = resp.(*openfgav1.WriteAuthorizationModelResponse).GetAuthorizationModelId()
			}
			ctx := celContext(r)
			var follow []step
			for _, fn := range []string{"Check", "ListObjects", "ListUsers"} {
				fn := fn
				follow = append(follow, step{heavy: true, note: fn + " evaluating the condition", lazy: func(env *caseEnv) (*rpcInfo, []byte) {
					if env.modelID == "" {
						return nil, nil
					}
					ct := []*openfgav1.TupleKey{{Object: "doc:1", Relation: "viewer", User: "user:anne", Condition: &openfgav1.RelationshipCondition{Name: "c"}}}
					var m proto.Message
					switch fn {
					case "Check":
						m = &openfgav1.CheckRequest{StoreId: fx.scratch, AuthorizationModelId: env.modelID, Context: ctx, ContextualTuples: &openfgav1.ContextualTupleKeys{TupleKeys: ct},
							TupleKey: &openfgav1.CheckRequestTupleKey{Object: "doc:1", Relation: "viewer", User: "user:anne"}}
					case "ListObjects":
						m = &openfgav1.ListObjectsRequest{StoreId: fx.scratch, AuthorizationModelId: env.modelID, Context: ctx, ContextualTuples: &openfgav1.ContextualTupleKeys{TupleKeys: ct},
							Type: "doc", Relation: "viewer", User: "user:anne"}
					default:
						m = &openfgav1.ListUsersRequest{StoreId: fx.scratch, AuthorizationModelId: env.modelID, Context: ctx, ContextualTuples: ct,
							Object: &openfgav1.Object{Type: "doc", Id: "1"}, Relation: "viewer", UserFilters: []*openfgav1.UserTypeFilter{{Type: "user"}}}
					}
					return rpcByName(fn), finishWire(m, nil)
				}})
			}
			return built{steps: append([]step{first}, follow...), stats: []string{"cel"}}
		}},
		{name: "wiremut", weight: 14, build: func(fx *fixture, r *prng, v int) built {
			rpc := rec.Pick(r, rpcs)
			b := finishWire(rpc.newReq(fx, r), nil)
			var note string
			if r.Chance(1, 12) {
				d := rec.Pick(r, []int{100, 5000, 9999, 10001, 100000})
				f := protowire.Number(1 + r.Intn(8))
				b, note = append(b, nestedRaw(f, d)...), fmt.Sprintf("nested field %d depth %d", f, d)
			} else {
				b, note = mutateWire(b, r)
			}
			return built{steps: []step{{rpc: rpc, wire: b, note: rpc.name + " wire " + note, heavy: rpc.heavy}}, stats: []string{"wiremut:" + rpc.name}}
		}},
		{name: "http", variants: 20 * 4, weight: 8, build: func(fx *fixture, r *prng, v int) built {
			names := []string{"Check", "Read", "ListObjects", "WriteAuthorizationModel", "Write", "BatchCheck", "ListUsers", "Expand", "ReadChanges", "ListStores", "StreamedListObjects", "WriteAssertions"}
			name := rec.Pick(r, names)
			if v >= 0 {
				name = names[(v/20)%4]
			}
			rpc := rpcByName(name)
			body, note := hostileJSON(jsonOf(rpc.newReq(fx, r)), r, v)
			path := rpc.httpPath(fx)
			if name == "Read" {
				path = "/stores/" + fx.pstore + "/read"
			}
			if rpc.httpVerb == "GET" {
				path += "?" + rec.Pick(r, []string{"page_size=2&continuation_token=LTF8", "page_size=-1", "page_size=1e9", "continuation_token=" + strings.Repeat("A", 6000), "type=%ff%fe", "page_size=2&page_size=3", "name=%00"})
				body = nil
			}
			var tc *tokCase
			if name == "Read" && (strings.HasPrefix(note, "negative offset token over HTTP") || strings.HasPrefix(note, "negative page size")) {
				tc = &tokCase{n: -1, hasPS: true, ps: 2, token: "LTF8", decoded: []byte("-1|"), decodeOK: true}
				if strings.HasPrefix(note, "negative page size") {
					tc.ps = -1
				}
			}
			return built{steps: []step{{rpc: rpc, http: &httpReq{verb: rpc.httpVerb, path: path, body: body}, note: "HTTP " + name + " " + note, heavy: true}},
				tok: tc, stats: []string{"http:" + name}}
		}},
	}
	generators = append(generators, directGenerators()...)
	// fault injection below the handlers (fault.go); the child handles it outside build()
	generators = append(generators, &generator{name: "fault", variants: nFaultVariants(), weight: 3})
}
