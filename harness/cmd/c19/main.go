//go:build verif

// Driver for C19 ("malformed or hostile input never crashes the server").
//
// SUPPORT, NOT PROOF.  The parent process generates case descriptions; a child process (this
// binary with VERIF_C19_CHILD=1) runs the real server -- cmd/run's ServerContext.Run: gRPC server
// with the full interceptor chain + HTTP gateway, memory datastore -- and executes each case
// against it over real gRPC (raw wire bytes, so mutated and non-UTF-8 messages reach the server's
// decoder) or HTTP, under a deadline, while a watcher samples the heap.  A case's outcome class:
//
//	0 ok   1 validation error   2 other client error   3 deadline answer   4 internal error
//	5 PANIC that escaped the handler (recovered only by the recovery interceptor / http handler)
//	6 panic captured inside the handler and turned into an error   7 deadline overrun
//	8 memory blow-up   9 PROCESS CRASH (the child died: unrecovered goroutine panic, fatal error)
//	10 transport error
//
// If the child dies the parent records class 9 for the case in flight and starts a new child.
// Direct cases call the modelled functions in-process inside recover() so that the Coq model's
// Panic prediction (Sec/NoPanic.v) is compared with the code: memory ReadPage, PbValue.WriteTo,
// pkg/tuple splitting, typesystem validation of nested rewrites.
package main

import (
	"bufio"
	"bytes"
	"context"
	"encoding/base64"
	"encoding/json"
	"errors"
	"fmt"
	"hash/fnv"
	"io"
	"net/http"
	"os"
	"os/exec"
	"regexp"
	"runtime"
	"runtime/debug"
	"runtime/metrics"
	"strings"
	"sync"
	"sync/atomic"
	"time"

	"google.golang.org/grpc"
	"google.golang.org/grpc/codes"
	"google.golang.org/grpc/status"
	"google.golang.org/protobuf/encoding/protojson"
	"google.golang.org/protobuf/proto"

	openfgav1 "github.com/openfga/api/proto/openfga/v1"

	"github.com/openfga/openfga/internal/verifharness/lib/rec"
)

const (
	clOK = iota
	clValidation
	clClient
	clDeadline
	clInternal
	clPanicEscaped
	clPanicCaptured
	clOverrun
	clMemory
	clCrash
	clTransport
)

var className = []string{"ok", "validation", "client_error", "deadline_answer", "internal_error", "PANIC_escaped_handler",
	"panic_captured_in_handler", "DEADLINE_OVERRUN", "MEMORY_BLOWUP", "PROCESS_CRASH", "transport_error"}

// severity order for multi-request cases
var severity = map[int]int{clOK: 0, clValidation: 1, clClient: 2, clDeadline: 3, clInternal: 4, clTransport: 5, clPanicCaptured: 6,
	clPanicEscaped: 7, clOverrun: 8, clMemory: 9, clCrash: 10}

const (
	baseOverrun    = 15 * time.Second // 5 x the server's request deadline (3 s) on an idle machine
	memGrowthLimit = 768 << 20        // growth of the LIVE heap (as marked by the GC cycles) during one case
	memHardLimit   = 3 << 30
	childRestart   = 1500 // cases per child (the memory datastore never frees models)
)

// The machine is shared: wall-clock limits are scaled by the oversubscription factor
// loadavg(1 min) / number of CPUs, read at the start of every request.
func loadFactor() float64 {
	b, err := os.ReadFile("/proc/loadavg")
	if err != nil {
		return 1
	}
	var l1, l5, l15 float64
	var running, total int
	fmt.Sscanf(string(b), "%f %f %f %d/%d", &l1, &l5, &l15, &running, &total)
	l := l1
	if float64(running) > l { // the 1-minute average lags behind a burst
		l = float64(running)
	}
	f := l / float64(runtime.NumCPU())
	if f < 1 {
		return 1
	}
	if f > 20 {
		return 20
	}
	return f
}

func overrunLimit() time.Duration { return time.Duration(float64(baseOverrun) * loadFactor()) }

type caseDesc struct {
	G     string `json:"g"`
	S     uint64 `json:"s"`
	V     int    `json:"v"`
	W     bool   `json:"w,omitempty"` // witness of a listed finding: an overrun is not re-run
	Note  string `json:"note,omitempty"`
	Crash string `json:"crash,omitempty"`
}

type caseResult struct {
	Class   int      `json:"class"`
	Rec     string   `json:"rec"`
	Note    string   `json:"note"`
	Stats   []string `json:"stats"`
	Last    string   `json:"last,omitempty"`
	MS      int64    `json:"ms"`
	BuildMS int64    `json:"build_ms"`
	GCMS    int64    `json:"gc_ms"`
	PeakMB  int64    `json:"peak_mb"`
	Ready   bool     `json:"ready,omitempty"`
	Err     string   `json:"err,omitempty"`
	Classes []int    `json:"classes,omitempty"`
}

func genByName(n string) *generator {
	for _, g := range generators {
		if g.name == n {
			return g
		}
	}
	return nil
}

// =======================================================================================
// child

type child struct {
	faults  []*faultServer // started on the first fault case
	ts      *testServer
	fx      *fixture
	httpc   *http.Client
	peak    atomic.Uint64
	sampler *time.Ticker
}

func heapBytes() uint64 {
	s := []metrics.Sample{{Name: "/memory/classes/heap/objects:bytes"}}
	metrics.Read(s)
	return s[0].Value.Uint64()
}

// live heap as of the last completed GC cycle: unlike the heap-objects gauge it does not count
// garbage that simply has not been collected yet, so it does not depend on GC pacing
func heapLive() uint64 {
	s := []metrics.Sample{{Name: "/gc/heap/live:bytes"}}
	metrics.Read(s)
	if s[0].Value.Kind() != metrics.KindUint64 {
		return heapBytes()
	}
	return s[0].Value.Uint64()
}

func (c *child) watch() {
	for range c.sampler.C {
		h := heapLive()
		if hb := heapBytes(); hb > memHardLimit {
			h = hb
		}
		for {
			p := c.peak.Load()
			if h <= p || c.peak.CompareAndSwap(p, h) {
				break
			}
		}
		if h > memHardLimit {
			out, _ := json.Marshal(caseResult{Class: clMemory, Note: fmt.Sprintf("heap %d MB over the hard limit", h>>20), Rec: fmt.Sprintf("1 %d 0 0", clMemory)})
			fmt.Println(string(out))
			os.Exit(3)
		}
	}
}

func classifyGRPC(err error) int {
	if err == nil {
		return clOK
	}
	c := status.Code(err)
	switch {
	case c == codes.InvalidArgument || (c >= 2000 && c < 3000):
		return clValidation
	case c == codes.DeadlineExceeded || c == codes.Canceled || c == 4004 || c == 3500:
		return clDeadline
	case c == codes.Unavailable:
		if strings.Contains(err.Error(), "error reading from server") || strings.Contains(err.Error(), "connection") {
			return clTransport
		}
		return clClient
	case c == codes.Internal || c == codes.Unknown || c == codes.DataLoss || (c >= 4000 && c < 5000):
		// the server's decoder rejecting a mutated message is a client error, not an internal one
		m := err.Error()
		if strings.Contains(m, "error unmarshalling request") || strings.Contains(m, "failed to unmarshal") || strings.Contains(m, "invalid UTF-8") ||
			strings.Contains(m, "received message larger than max") {
			return clClient
		}
		return clInternal
	default:
		return clClient
	}
}

func classifyHTTP(code int) int {
	switch {
	case code >= 200 && code < 300:
		return clOK
	case code == 400 || code == 422:
		return clValidation
	case code == 408 || code == 504 || code == 499:
		return clDeadline
	case code >= 500:
		return clInternal
	default:
		return clClient
	}
}

type stepOut struct {
	class int
	resp  []byte
	err   error
	dur   time.Duration
}

func (c *child) send(st step) stepOut {
	limit := overrunLimit()
	if st.limit > 0 {
		limit = time.Duration(float64(st.limit) * loadFactor())
	}
	ctx, cancel := context.WithTimeout(context.Background(), limit+time.Second)
	defer cancel()
	c.ts.last.Store("")
	rec0, cap0 := c.ts.recovered.Load(), c.ts.captured.Load()
	t0 := time.Now()
	var out stepOut
	switch {
	case st.http != nil:
		req, err := http.NewRequestWithContext(ctx, st.http.verb, "http://"+c.ts.httpAddr+st.http.path, bytes.NewReader(st.http.body))
		if err != nil {
			out.class, out.err = clClient, err
			break
		}
		req.Header.Set("Content-Type", "application/json")
		resp, err := c.httpc.Do(req)
		if err != nil {
			out.err = err
			if errors.Is(err, context.DeadlineExceeded) {
				out.class = clDeadline
			} else {
				out.class = clTransport
			}
			break
		}
		body, _ := io.ReadAll(io.LimitReader(resp.Body, 64<<20))
		resp.Body.Close()
		out.class, out.resp = classifyHTTP(resp.StatusCode), body
	case st.rpc.stream:
		s, err := c.ts.conn.NewStream(ctx, &grpc.StreamDesc{ServerStreams: true}, st.rpc.method, grpc.ForceCodec(rawCodec{}))
		if err == nil {
			w := st.wire
			if err = s.SendMsg(&w); err == nil {
				err = s.CloseSend()
			}
			for err == nil {
				var b []byte
				err = s.RecvMsg(&b)
			}
			if err == io.EOF {
				err = nil
			}
		}
		out.err, out.class = err, classifyGRPC(err)
	default:
		w := st.wire
		var resp []byte
		err := c.ts.conn.Invoke(ctx, st.rpc.method, &w, &resp, grpc.ForceCodec(rawCodec{}))
		out.err, out.class, out.resp = err, classifyGRPC(err), resp
	}
	out.dur = time.Since(t0)
	if out.class != clOK { // give the logging interceptor a moment to write its entry
		time.Sleep(2 * time.Millisecond)
	}
	switch {
	case c.ts.recovered.Load() > rec0:
		out.class = clPanicEscaped
	case c.ts.captured.Load() > cap0:
		out.class = clPanicCaptured
	}
	if out.dur > limit && severity[out.class] < severity[clOverrun] {
		out.class = clOverrun
	}
	return out
}

var faultSeq int

func (c *child) runCase(d caseDesc) caseResult {
	if d.G == "fault" {
		if c.faults == nil {
			for i := 0; i < nFaultServers; i++ {
				fs, err := startFaultServer(i)
				if err != nil {
					return caseResult{Class: clClient, Rec: fmt.Sprintf("1 %d 0 0", clClient), Note: "fault server: " + err.Error()}
				}
				c.faults = append(c.faults, fs)
			}
		}
		faultSeq++
		fmt.Fprintf(os.Stderr, "C19CASE %d\n", faultSeq)
		t0 := time.Now()
		res := c.runFault(d)
		res.MS = time.Since(t0).Milliseconds()
		return res
	}
	g := genByName(d.G)
	if g == nil {
		return caseResult{Class: clClient, Rec: fmt.Sprintf("1 %d 0 0", clClient), Note: "unknown generator " + d.G}
	}
	r := rec.NewRand(d.S)
	tb := time.Now()
	b := g.build(c.fx, r, d.V)
	buildMS := time.Since(tb).Milliseconds()
	tg := time.Now()
	if heapBytes() > 256<<20 {
		runtime.GC()
	}
	gcMS := time.Since(tg).Milliseconds()
	base := heapLive()
	c.peak.Store(base)
	t0 := time.Now()
	res := caseResult{Stats: b.stats}
	if b.direct != nil {
		o := b.direct()
		vals := make([]string, len(o.values))
		for i, v := range o.values {
			vals[i] = string(v)
		}
		res.Rec = strings.Join(vals, " ")
		if o.panicked {
			res.Class, res.Last = clPanicEscaped, clip(o.panicMsg, 300)
		}
		res.Note = d.G
	} else {
		env := &caseEnv{}
		h := fnv.New64a()
		worst := clOK
		var notes []string
		var first stepOut
		for i, st := range b.steps {
			if st.lazy != nil {
				rpc, wire := st.lazy(env)
				if rpc == nil {
					continue
				}
				st.rpc, st.wire = rpc, wire
			}
			fmt.Fprintf(os.Stderr, "C19STEP %s\n", clip(st.note, 300))
			h.Write([]byte(st.rpc.name))
			if st.http != nil {
				h.Write([]byte(st.http.verb + st.http.path))
				h.Write(st.http.body)
			} else if st.lazy == nil { // follow-up requests carry a fresh model id: not part of the input
				h.Write(st.wire)
			}
			if os.Getenv("VERIF_C19_DUMP") != "" && st.http == nil {
				m := st.rpc.newReq(c.fx, rec.NewRand(1))
				proto.Reset(m)
				if err := proto.Unmarshal(st.wire, m); err == nil {
					fmt.Fprintf(os.Stderr, "REQUEST %s %s\n", st.rpc.name, clip(protojson.Format(m), 6000))
				} else {
					fmt.Fprintf(os.Stderr, "REQUEST %s undecodable: %v\n", st.rpc.name, err)
				}
			}
			o := c.send(st)
			if os.Getenv("VERIF_C19_DUMP") != "" {
				fmt.Fprintf(os.Stderr, "ANSWER %s in %v: %v %s\n", className[o.class], o.dur, o.err, clip(string(o.resp), 300))
			}
			if i == 0 {
				first = o
			}
			res.Classes = append(res.Classes, o.class)
			notes = append(notes, fmt.Sprintf("%s -> %s", st.note, className[o.class]))
			if o.class >= clPanicEscaped || o.class == clInternal {
				res.Last = clip(fmt.Sprint(c.ts.last.Load())+" | "+fmt.Sprint(o.err), 500)
			}
			if severity[o.class] > severity[worst] {
				worst = o.class
			}
			if o.class == clOK && st.after != nil && st.http == nil && !st.rpc.stream {
				m := st.rpc.newResp()
				if proto.Unmarshal(o.resp, m) == nil {
					st.after(m, env)
				}
			}
		}
		res.Class = worst
		res.Note = clip(strings.Join(notes, " ; "), 700)
		if b.tok != nil {
			res.Rec = tokRecord(b.tok, first)
		} else if b.abs != "" {
			res.Rec = fmt.Sprintf("7 %d %d %d %s", worst, len(b.steps), first.class, b.abs)
		} else {
			res.Rec = fmt.Sprintf("1 %d %d %d", worst, len(b.steps), h.Sum64())
		}
	}
	res.MS = time.Since(t0).Milliseconds()
	res.BuildMS, res.GCMS = buildMS, gcMS
	peak := c.peak.Load()
	if h := heapLive(); h > peak {
		peak = h
	}
	res.PeakMB = int64(peak >> 20)
	if peak > base && peak-base > memGrowthLimit && severity[res.Class] < severity[clMemory] {
		res.Class = clMemory
		res.Note += fmt.Sprintf(" ; heap grew by %d MB", (peak-base)>>20)
		if b.tok == nil && b.direct == nil {
			if b.abs != "" {
				res.Rec = fmt.Sprintf("7 %d %d %d %s", clMemory, len(b.steps), clMemory, b.abs)
			} else {
				res.Rec = fmt.Sprintf("1 %d %d 0", clMemory, len(b.steps))
			}
		}
	}
	return res
}

// kind 2: a Read request with a continuation token on a listing of known length
func tokRecord(t *tokCase, o stepOut) string {
	count := 0
	var next []byte
	nextOK := 1
	if o.class == clOK {
		var resp openfgav1.ReadResponse
		if err := proto.Unmarshal(o.resp, &resp); err == nil {
			count = len(resp.GetTuples())
			if tok := resp.GetContinuationToken(); tok != "" {
				d, err := base64.URLEncoding.DecodeString(tok)
				if err != nil {
					nextOK = 0
				}
				next = d
			}
		} else {
			nextOK = 0
		}
	}
	pat := 0
	if len(t.token) <= 5120 && tokenPattern.MatchString(t.token) {
		pat = 1
	}
	return strings.Join([]string{"2", fmt.Sprint(t.n), string(rec.Bool(t.hasPS)), fmt.Sprint(t.ps), fmt.Sprint(pat), string(rec.Bool(t.decodeOK)),
		string(rec.B(t.decoded)), fmt.Sprint(o.class), fmt.Sprint(count), fmt.Sprint(nextOK), string(rec.B(next))}, " ")
}

func childMain() {
	debug.SetMemoryLimit(2 << 30)
	tierQuick = os.Getenv("VERIF_C19_TIER") != "thorough"
	out := bufio.NewWriter(os.Stdout)
	emit := func(r caseResult) {
		b, _ := json.Marshal(r)
		out.Write(b)
		out.WriteByte('\n')
		out.Flush()
	}
	ts, err := startServer()
	if err != nil {
		emit(caseResult{Err: "start: " + err.Error()})
		os.Exit(4)
	}
	fx, err := setupFixture(ts)
	if err != nil {
		emit(caseResult{Err: "fixture: " + err.Error()})
		os.Exit(4)
	}
	c := &child{ts: ts, fx: fx, httpc: &http.Client{}, sampler: time.NewTicker(10 * time.Millisecond)}
	go c.watch()
	emit(caseResult{Ready: true})
	in := bufio.NewScanner(os.Stdin)
	in.Buffer(make([]byte, 1<<20), 1<<20)
	for in.Scan() {
		var d caseDesc
		if err := json.Unmarshal(in.Bytes(), &d); err != nil {
			emit(caseResult{Class: clClient, Rec: fmt.Sprintf("1 %d 0 0", clClient), Note: "bad description"})
			continue
		}
		emit(c.runCase(d))
	}
	ts.stop()
}

// =======================================================================================
// parent

type proc struct {
	cmd    *exec.Cmd
	stdin  io.WriteCloser
	out    *bufio.Reader
	stderr *tailBuf
	served int
}

type tailBuf struct {
	mu       sync.Mutex
	b        []byte
	lastStep string // the last "C19STEP ..." line (a fatal stack dump can push it out of the tail)
	crash    string // the first 2000 bytes from the first "fatal error:" / "panic:" on
}

func (t *tailBuf) Write(p []byte) (int, error) {
	t.mu.Lock()
	defer t.mu.Unlock()
	t.b = append(t.b, p...)
	s := string(t.b)
	if i := strings.LastIndex(s, "C19STEP "); i >= 0 {
		if j := strings.IndexByte(s[i:], '\n'); j >= 0 {
			t.lastStep = s[i+len("C19STEP ") : i+j]
		}
	}
	if len(t.crash) < 2000 {
		i := strings.Index(s, "fatal error:")
		if k := strings.Index(s, "panic:"); k >= 0 && (i < 0 || k < i) {
			i = k
		}
		if i >= 0 {
			t.crash = clip(s[i:], 2000)
		}
	}
	if len(t.b) > 1<<16 {
		t.b = t.b[len(t.b)-(1<<16):]
	}
	return len(p), nil
}

func (t *tailBuf) all() string {
	t.mu.Lock()
	defer t.mu.Unlock()
	return string(t.b)
}

func (t *tailBuf) head(n int) string {
	t.mu.Lock()
	defer t.mu.Unlock()
	if t.crash != "" {
		return clip(t.crash, n)
	}
	return clip(string(t.b), n)
}

func (t *tailBuf) step() string {
	t.mu.Lock()
	defer t.mu.Unlock()
	return t.lastStep
}

func startChild() (*proc, error) {
	cmd := exec.Command(os.Args[0])
	cmd.Env = append(os.Environ(), "VERIF_C19_CHILD=1", "GOTRACEBACK=single", "VERIF_C19_TIER="+childTier)
	stdin, err := cmd.StdinPipe()
	if err != nil {
		return nil, err
	}
	stdout, err := cmd.StdoutPipe()
	if err != nil {
		return nil, err
	}
	tb := &tailBuf{}
	cmd.Stderr = tb
	if os.Getenv("VERIF_C19_DUMP") != "" {
		cmd.Stderr = io.MultiWriter(tb, os.Stderr)
	}
	if err := cmd.Start(); err != nil {
		return nil, err
	}
	p := &proc{cmd: cmd, stdin: stdin, out: bufio.NewReaderSize(stdout, 1<<20), stderr: tb}
	r, err := p.read(time.Duration(float64(180*time.Second) * loadFactor()))
	if err != nil || !r.Ready {
		p.kill()
		return nil, fmt.Errorf("child did not become ready: %v %s %s", err, r.Err, tb.head(600))
	}
	return p, nil
}

func (p *proc) read(tmo time.Duration) (caseResult, error) {
	type lr struct {
		line []byte
		err  error
	}
	ch := make(chan lr, 1)
	go func() {
		l, err := p.out.ReadBytes('\n')
		ch <- lr{l, err}
	}()
	select {
	case x := <-ch:
		if x.err != nil {
			return caseResult{}, x.err
		}
		var r caseResult
		if err := json.Unmarshal(x.line, &r); err != nil {
			return caseResult{}, fmt.Errorf("bad child output %q", clip(string(x.line), 200))
		}
		return r, nil
	case <-time.After(tmo):
		return caseResult{}, errors.New("timeout")
	}
}

func (p *proc) kill() {
	p.stdin.Close()
	done := make(chan struct{})
	go func() { p.cmd.Wait(); close(done) }()
	select {
	case <-done:
	case <-time.After(20 * time.Second):
		p.cmd.Process.Kill()
		<-done
	}
}

var childTier = "quick"

type runner struct {
	w *rec.Writer
	p *proc
}

// run executes one case; a deadline overrun (or a child that stopped answering) must reproduce in a
// fresh child before it is recorded: a true hang is deterministic, a slow answer on a loaded
// machine is not.
func (rn *runner) run(d caseDesc) {
	noRetry := d.W || d.G == "fault" // a hang after an injected panic is classified by the oracle, not re-run
	class := rn.run1(d, noRetry)
	if class == clOverrun && !noRetry {
		rn.w.Stat("overrun_first_attempts", 1)
		if rn.run1(d, true) != clOverrun {
			rn.w.Stat("overrun_not_reproduced", 1)
		}
	}
}

func (rn *runner) run1(d caseDesc, final bool) int {
	w := rn.w
	if rn.p == nil || rn.p.served >= childRestart {
		if rn.p != nil {
			rn.p.kill()
		}
		var p *proc
		var err error
		for attempt := 0; attempt < 4; attempt++ { // start-up can time out on a loaded machine
			if p, err = startChild(); err == nil {
				break
			}
			fmt.Fprintln(os.Stderr, "c19: child start failed, retrying:", clip(err.Error(), 300))
			time.Sleep(time.Duration(2+3*attempt) * time.Second)
		}
		if err != nil {
			fmt.Fprintln(os.Stderr, "c19:", err)
			os.Exit(2)
		}
		rn.p = p
		w.Stat("child_starts", 1)
	}
	tStart := time.Now()
	b, _ := json.Marshal(d)
	_, werr := rn.p.stdin.Write(append(b, '\n'))
	var r caseResult
	var err error
	if werr == nil {
		r, err = rn.p.read(8*overrunLimit() + 120*time.Second)
	} else {
		err = werr
	}
	rn.p.served++
	if err != nil {
		// the child died (or hung beyond every deadline): that IS the observation
		class := clCrash
		note := "child process died: " + err.Error()
		if err.Error() == "timeout" {
			class, note = clOverrun, "child did not answer within the watchdog time"
			rn.p.cmd.Process.Kill()
		}
		rn.p.kill()
		d.Crash = note + " | " + rn.p.stderr.head(1500)
		rn0stderr := rn.p.stderr.all()
		if st := rn.p.stderr.step(); st != "" && d.G != "fault" {
			d.Note = "the process died during: " + st
		}
		rn.p = nil
		if class == clOverrun && !final {
			return class
		}
		if d.G == "fault" {
			// the child died: the wrapper said on stderr under which recovery site it was panicking
			p := faultDecode(d.V, rec.NewRand(d.S))
			fired, site := 0, -1
			tail := rn0stderr
			if i := strings.LastIndex(tail, "C19CASE "); i >= 0 {
				tail = tail[i:]
				if j := strings.LastIndex(tail, "C19FAULT site="); j >= 0 {
					fired = 1
					fmt.Sscanf(tail[j:], "C19FAULT site=%d", &site)
				}
			}
			w.Case(d, rec.Dec(faultRecord(p, fired, class, 0, site)))
			w.Stat("class."+className[class], 1)
			w.Stat("gen."+d.G, 1)
			w.Stat(fmt.Sprintf("fault_crash_site:%d", site), 1)
			return class
		}
		w.Case(d, rec.I(1), rec.I(class), rec.I(0), rec.I(0))
		w.Stat("class."+className[class], 1)
		w.Stat("gen."+d.G, 1)
		return class
	}
	if r.Class == clOverrun || r.Class == clMemory {
		rn.p.served = childRestart
		rn.p.cmd.Process.Kill() // a handler may still be spinning: do not wait for a graceful stop
	}
	if r.Class == clOverrun && !final {
		return r.Class
	}
	if r.Class == clMemory && r.Rec == "" {
		r.Rec = fmt.Sprintf("1 %d 0 0", clMemory)
	}
	d.Note = r.Note
	if r.Last != "" && r.Class >= clInternal {
		d.Note += " || " + r.Last
	}
	w.Case(d, rec.Dec(r.Rec))
	w.Stat("class."+className[r.Class], 1)
	w.Stat("gen."+d.G, 1)
	for _, s := range r.Stats {
		w.Stat("case."+s, 1)
	}
	for _, c := range r.Classes {
		w.Stat("request."+className[c], 1)
	}
	if os.Getenv("VERIF_C19_TIMES") != "" && r.MS > 800 {
		fmt.Fprintf(os.Stderr, "%6d ms %s v=%d %s\n", r.MS, d.G, d.V, clip(r.Note, 160))
	}
	w.Stat("ms."+d.G, int(r.MS))
	w.Stat("build_ms."+d.G, int(r.BuildMS))
	w.Stat("gc_ms", int(r.GCMS))
	w.Stat("roundtrip_ms."+d.G, int(time.Since(tStart).Milliseconds()))
	if r.MS > 3500 {
		w.Stat("slow_cases_over_3.5s", 1)
	}
	if r.PeakMB > 512 {
		w.Stat("cases_peak_heap_over_512MB", 1)
	}
	return r.Class
}

func main() {
	if os.Getenv("VERIF_C19_CHILD") == "1" {
		childMain()
		return
	}
	o := rec.ParseFlags()
	childTier = o.Tier
	w := rec.NewWriter(o.Out)
	defer w.Close()
	rn := &runner{w: w}
	defer func() {
		if rn.p != nil {
			rn.p.kill()
		}
	}()

	if o.Replay != "" {
		f, err := os.Open(o.Replay)
		if err != nil {
			fmt.Fprintln(os.Stderr, err)
			os.Exit(2)
		}
		sc := bufio.NewScanner(f)
		sc.Buffer(make([]byte, 1<<22), 1<<22)
		for sc.Scan() {
			var d caseDesc
			if json.Unmarshal(sc.Bytes(), &d) == nil && d.G != "" {
				d.Note, d.Crash = "", ""
				rn.run(d)
			}
		}
		return
	}

	r := rec.NewRand(o.Seed)
	// first, always: the witnesses of the repaired finding F5 ("-1|", "-5|", "-9223372036854775808|"
	// without a page size, and "LTF8" over HTTP); they are also corpus/C19-f5-fixed.jsonl
	for _, v := range []int{6, 9, 10} {
		rn.run(caseDesc{G: "tok_read", S: 1, V: v})
	}
	rn.run(caseDesc{G: "http", S: 1, V: 31})
	// systematic part: the variants of every generator (thinned in the quick tier)
	for _, g := range generators {
		step := 1
		if o.Tier != "thorough" && g.variants > 40 && g.name != "tok_read" && g.name != "d_readpage" {
			step = g.variants/40 + 1
		}
		if g.name == "fault" { // the probes, then a stride coprime to every parameter range
			for v := nFaultVariants(); v < nFaultVariants()+nFaultProbes; v++ {
				rn.run(caseDesc{G: g.name, S: r.Uint64(), V: v})
			}
			step = 193
			if o.Tier == "thorough" {
				step = 13
			}
		}
		off := 0
		if step > 1 {
			off = int(o.Seed % uint64(step))
		}
		for v := off; v < g.variants; v += step {
			if g.name == "model" && (v%nModelShapes == 15 || v%nModelShapes == 8) && v/nModelShapes == 2 {
				continue // the n = 24 diamond and the n = 1500 chain: run once, below, as witnesses
			}
			rn.run(caseDesc{G: g.name, S: r.Uint64(), V: v})
		}
	}
	// the model_validation_hascycle_cost witness: e_i: e_{i+1} or e_{i+1} or e_{i+1} from parent, 24 levels
	rn.run(caseDesc{G: "model", S: 1, V: 2*nModelShapes + 15, W: true})
	if o.Tier == "thorough" { // the cubic variant: a plain chain of 1500 computed usersets
		rn.run(caseDesc{G: "model", S: 1, V: 2*nModelShapes + 8, W: true})
	}
	// random part
	total := 0
	for _, g := range generators {
		total += g.weight
	}
	for i := 0; i < o.N; i++ {
		x := r.Intn(total)
		for _, g := range generators {
			if x < g.weight {
				rn.run(caseDesc{G: g.name, S: r.Uint64(), V: -1})
				break
			}
			x -= g.weight
		}
	}
}

// the validator's pattern for continuation tokens (openfga_service.pb.validate.go)
var tokenPattern = regexp.MustCompile("^$|^[A-Za-z0-9-_]+={0,2}$")
