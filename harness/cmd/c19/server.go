//go:build verif

package main

// The server under test: cmd/run's ServerContext.Run with the memory datastore, i.e. the real
// gRPC server with the interceptor chain exactly as `openfga run` builds it (recovery, ctxtags,
// request id, timeout, store id, logging, validator, authn=none) plus the HTTP gateway.  The only
// deviations from the defaults: loopback addresses on free ports, metrics / playground / profiler
// off (fixed ports), the check caches on (so that request contexts reach the cache-key builder
// PbValue.WriteTo), and a logger whose core counts the log entries that report a panic.

import (
	"context"
	"fmt"
	"net"
	"strings"
	"sync/atomic"
	"time"

	"go.uber.org/zap"
	"go.uber.org/zap/zapcore"
	"google.golang.org/grpc"
	"google.golang.org/grpc/credentials/insecure"
	"google.golang.org/grpc/encoding"
	healthv1pb "google.golang.org/grpc/health/grpc_health_v1"

	openfgav1 "github.com/openfga/api/proto/openfga/v1"

	"github.com/openfga/openfga/cmd/run"
	"github.com/openfga/openfga/pkg/logger"
	serverconfig "github.com/openfga/openfga/pkg/server/config"
)

// ---------------------------------------------------------------------------------------
// log core: counts entries that mention a panic (the recovery interceptor's "has recovered a
// panic", errors wrapping graph.ErrPanic, the pipeline's "recovered from panic")

type panicCore struct {
	recovered *atomic.Int64 // PanicRecoveryHandler / HTTPPanicRecoveryHandler
	captured  *atomic.Int64 // any other entry with "panic" in its message or fields
	last      *atomic.Value // string: the last such entry (for the report)
}

func (c panicCore) Enabled(l zapcore.Level) bool { return l >= zapcore.WarnLevel }
func (c panicCore) With([]zapcore.Field) zapcore.Core { return c }
func (c panicCore) Check(e zapcore.Entry, ce *zapcore.CheckedEntry) *zapcore.CheckedEntry {
	if c.Enabled(e.Level) {
		return ce.AddCore(e, c)
	}
	return ce
}
func (c panicCore) Sync() error { return nil }
func (c panicCore) Write(e zapcore.Entry, fields []zapcore.Field) error {
	msg := e.Message
	hit := strings.Contains(strings.ToLower(msg), "panic")
	var detail string
	if !hit || true {
		enc := zapcore.NewMapObjectEncoder()
		for _, f := range fields {
			if f.Key == "stacktrace" {
				continue
			}
			f.AddTo(enc)
		}
		for k, v := range enc.Fields {
			s := fmt.Sprint(v)
			if strings.Contains(strings.ToLower(s), "panic") || strings.Contains(s, "runtime error") {
				hit = true
			}
			if k == "error" || k == "raw_error" || k == "internal_error" {
				detail += " " + k + "=" + clip(s, 300)
			}
		}
	}
	if !hit {
		return nil
	}
	if strings.Contains(msg, "has recovered a panic") {
		c.recovered.Add(1)
	} else {
		c.captured.Add(1)
	}
	c.last.Store(clip(msg+detail, 600))
	return nil
}

func clip(s string, n int) string {
	if len(s) > n {
		return s[:n] + "..."
	}
	return s
}

// ---------------------------------------------------------------------------------------
// raw codec: the client sends and receives wire bytes untouched, so that requests that no Go
// client could marshal (invalid UTF-8 in string fields, truncated or mutated messages) reach the
// server's own decoder

type rawCodec struct{}

func (rawCodec) Marshal(v any) ([]byte, error) {
	b, ok := v.(*[]byte)
	if !ok {
		return nil, fmt.Errorf("rawCodec: want *[]byte, got %T", v)
	}
	return *b, nil
}
func (rawCodec) Unmarshal(data []byte, v any) error {
	b, ok := v.(*[]byte)
	if !ok {
		return fmt.Errorf("rawCodec: want *[]byte, got %T", v)
	}
	*b = append((*b)[:0], data...)
	return nil
}
func (rawCodec) Name() string { return "proto" } // content-subtype the server expects

var _ encoding.Codec = rawCodec{}

// ---------------------------------------------------------------------------------------

type testServer struct {
	grpcAddr, httpAddr string
	conn               *grpc.ClientConn
	client             openfgav1.OpenFGAServiceClient
	cancel             context.CancelFunc
	done               chan error
	recovered          atomic.Int64
	captured           atomic.Int64
	last               atomic.Value
}

func freePort() int {
	l, err := net.Listen("tcp", "127.0.0.1:0")
	if err != nil {
		panic(err)
	}
	defer l.Close()
	return l.Addr().(*net.TCPAddr).Port
}

const requestTimeout = 3 * time.Second

func startServer() (*testServer, error) {
	ts := &testServer{done: make(chan error, 1)}
	ts.last.Store("")
	core := panicCore{recovered: &ts.recovered, captured: &ts.captured, last: &ts.last}
	lg := &logger.ZapLogger{Logger: zap.New(core)}

	cfg := serverconfig.DefaultConfig()
	ts.grpcAddr = fmt.Sprintf("127.0.0.1:%d", freePort())
	ts.httpAddr = fmt.Sprintf("127.0.0.1:%d", freePort())
	cfg.GRPC.Addr = ts.grpcAddr
	cfg.HTTP.Addr = ts.httpAddr
	cfg.HTTP.Enabled = true
	cfg.Metrics.Enabled = false
	cfg.Playground.Enabled = false
	cfg.Profiler.Enabled = false
	cfg.Trace.Enabled = false
	cfg.Datastore.Engine = "memory"
	cfg.RequestTimeout = requestTimeout
	cfg.CheckQueryCache.Enabled = true
	cfg.CheckIteratorCache.Enabled = true
	cfg.ListObjectsIteratorCache.Enabled = true
	cfg.Log.Level = "warn"
	if err := cfg.Verify(); err != nil {
		return nil, fmt.Errorf("config: %w", err)
	}

	ctx, cancel := context.WithCancel(context.Background())
	ts.cancel = cancel
	sc := &run.ServerContext{Logger: lg}
	go func() { ts.done <- sc.Run(ctx, cfg) }()

	conn, err := grpc.NewClient(ts.grpcAddr,
		grpc.WithTransportCredentials(insecure.NewCredentials()),
		grpc.WithDefaultCallOptions(grpc.MaxCallRecvMsgSize(64<<20), grpc.MaxCallSendMsgSize(64<<20)))
	if err != nil {
		cancel()
		return nil, err
	}
	ts.conn = conn
	ts.client = openfgav1.NewOpenFGAServiceClient(conn)
	hc := healthv1pb.NewHealthClient(conn)
	deadline := time.Now().Add(time.Duration(float64(90*time.Second) * loadFactor()))
	for {
		select {
		case err := <-ts.done:
			cancel()
			return nil, fmt.Errorf("server exited during start-up: %v", err)
		default:
		}
		c, cl := context.WithTimeout(context.Background(), 2*time.Second)
		resp, err := hc.Check(c, &healthv1pb.HealthCheckRequest{Service: openfgav1.OpenFGAService_ServiceDesc.ServiceName})
		cl()
		if err == nil && resp.GetStatus() == healthv1pb.HealthCheckResponse_SERVING {
			break
		}
		if time.Now().After(deadline) {
			cancel()
			return nil, fmt.Errorf("server not healthy in time: %v", err)
		}
		time.Sleep(50 * time.Millisecond)
	}
	return ts, nil
}

func (ts *testServer) stop() {
	ts.conn.Close()
	ts.cancel()
	select {
	case <-ts.done:
	case <-time.After(15 * time.Second):
	}
}
