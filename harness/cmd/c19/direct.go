//go:build verif

package main

// Direct cases: the modelled functions called in-process (no server), each inside recover(), so
// that the Coq model's Panic / no-panic prediction is compared with what the Go code does.
//   kind 3  memory.MemoryBackend.ReadPage at the storage level (any page size, any From)
//   kind 4  keys.PbValue.WriteTo on a nested structpb value
//   kind 5  tuple.ToUserParts / FromUserParts / SplitObject / SplitObjectRelation
//   kind 6  typesystem.NewAndValidate on a deeply nested rewrite + its wire size and nesting

import (
	"context"
	"fmt"
	"math"
	"sort"
	"strconv"
	"strings"

	"google.golang.org/protobuf/proto"
	"google.golang.org/protobuf/reflect/protoreflect"
	"google.golang.org/protobuf/types/known/structpb"

	openfgav1 "github.com/openfga/api/proto/openfga/v1"

	"github.com/openfga/openfga/internal/verifharness/lib/rec"
	"github.com/openfga/openfga/pkg/storage"
	"github.com/openfga/openfga/pkg/storage/cache/keys"
	"github.com/openfga/openfga/pkg/storage/memory"
	"github.com/openfga/openfga/pkg/tuple"
	"github.com/openfga/openfga/pkg/typesystem"
)

type directOut struct {
	values   []rec.V
	panicked bool
	panicMsg string
}

func guard(f func()) (panicked bool, msg string) {
	defer func() {
		if r := recover(); r != nil {
			panicked, msg = true, fmt.Sprint(r)
		}
	}()
	f()
	return
}

// ---------------------------------------------------------------------------------------
// kind 3: storage-level ReadPage

var directFroms = []string{"", "0", "1", "2", "4", "5", "6", "99", "-1", "-0", "+2", "-5", "-9223372036854775808", "9223372036854775807",
	"9223372036854775808", "abc", " 1", "1 ", "0x1", "1_0", "-", "+", "--1", "00002", "-00001", "٣"}
var directSizes = []int{0, 1, 2, 4, 5, 6, 50, -1, -3, math.MinInt32, math.MaxInt32, math.MaxInt64, math.MinInt64}

func directReadPage(r *prng, v int) directOut {
	n := rec.Pick(r, []int{0, 1, 5, 7})
	from, size := rec.Pick(r, directFroms), rec.Pick(r, directSizes)
	if v >= 0 {
		from = directFroms[v%len(directFroms)]
		size = directSizes[(v/len(directFroms))%len(directSizes)]
		n = []int{5, 0}[(v/(len(directFroms)*len(directSizes)))%2]
	}
	ds := memory.New()
	defer ds.Close()
	ctx := context.Background()
	const store = "01ARZ3NDEKTSV4RRFFQ69G5FAV"
	for i := 0; i < n; i++ {
		if err := ds.Write(ctx, store, nil, storage.Writes{{Object: fmt.Sprintf("doc:%d", i), Relation: "viewer", User: "user:a"}}); err != nil {
			panic(err)
		}
	}
	var tuples []*openfgav1.Tuple
	var next string
	var err error
	p, msg := guard(func() {
		tuples, next, err = ds.ReadPage(ctx, store, storage.ReadFilter{}, storage.ReadPageOptions{Pagination: storage.PaginationOptions{PageSize: size, From: from}})
	})
	class := 0
	switch {
	case p:
		class = 5
	case err != nil:
		class = 1
	}
	idx := make([]int, 0, len(tuples))
	for _, t := range tuples {
		i, _ := strconv.Atoi(strings.TrimPrefix(t.GetKey().GetObject(), "doc:"))
		idx = append(idx, i)
	}
	return directOut{values: []rec.V{rec.I(3), rec.I(n), rec.I64(int64(size)), rec.S(from), rec.I(class), rec.LI(idx), rec.S(next)}, panicked: p, panicMsg: msg}
}

// ---------------------------------------------------------------------------------------
// kind 4: PbValue.WriteTo

func pbRec(v *structpb.Value) rec.V {
	switch k := v.GetKind().(type) {
	case *structpb.Value_NullValue:
		return rec.L(rec.I(0))
	case *structpb.Value_NumberValue:
		return rec.L(rec.I(1), rec.U64(math.Float64bits(k.NumberValue)))
	case *structpb.Value_StringValue:
		return rec.L(rec.I(2), rec.S(k.StringValue))
	case *structpb.Value_BoolValue:
		return rec.L(rec.I(3), rec.Bool(k.BoolValue))
	case *structpb.Value_ListValue:
		vs := []rec.V{rec.I(5)}
		for _, x := range k.ListValue.GetValues() {
			vs = append(vs, pbRec(x))
		}
		return rec.L(vs...)
	case *structpb.Value_StructValue:
		vs := []rec.V{rec.I(6)}
		fs := k.StructValue.GetFields()
		ks := make([]string, 0, len(fs))
		for key := range fs {
			ks = append(ks, key)
		}
		sort.Sort(sort.Reverse(sort.StringSlice(ks))) // deliberately not the order the code sorts into
		for _, key := range ks {
			vs = append(vs, rec.S(key), pbRec(fs[key]))
		}
		return rec.L(vs...)
	default:
		return rec.L(rec.I(4))
	}
}

func countNodes(v *structpb.Value) int {
	n := 1
	switch k := v.GetKind().(type) {
	case *structpb.Value_ListValue:
		for _, x := range k.ListValue.GetValues() {
			n += countNodes(x)
		}
	case *structpb.Value_StructValue:
		for _, x := range k.StructValue.GetFields() {
			n += countNodes(x)
		}
	}
	return n
}

func randPb(r *prng, depth, budget int) *structpb.Value {
	if depth <= 0 || budget <= 1 || r.Chance(1, 4) {
		return hostileLeafSmall(r)
	}
	n := r.Intn(5)
	if r.Bool() {
		vals := make([]*structpb.Value, n)
		for i := range vals {
			vals[i] = randPb(r, depth-1, budget/(n+1))
		}
		return structpb.NewListValue(&structpb.ListValue{Values: vals})
	}
	fs := map[string]*structpb.Value{}
	for i := 0; i < n; i++ {
		fs[rec.Pick(r, []string{"a", "b", "", "k", "é", "kk", "\x00", "z" + fmt.Sprint(i)})] = randPb(r, depth-1, budget/(n+1))
	}
	return structpb.NewStructValue(&structpb.Struct{Fields: fs})
}

func hostileLeafSmall(r *prng) *structpb.Value {
	switch r.Intn(8) {
	case 0:
		return structpb.NewNullValue()
	case 1:
		return structpb.NewNumberValue(rec.Pick(r, []float64{0, math.Copysign(0, -1), 1, math.NaN(), math.Inf(1), 1e308}))
	case 2:
		return structpb.NewStringValue(rec.Pick(r, []string{"", "a", "\x00", "é", strings.Repeat("x", 200)}))
	case 3:
		return &structpb.Value{}
	case 4:
		return structpb.NewListValue(nil)
	case 5:
		return structpb.NewStructValue(nil)
	default:
		return structpb.NewBoolValue(r.Bool())
	}
}

var pbDepths = []int{0, 1, 2, 10, 100, 1000, 3000, 5000}

func directPbValue(r *prng, v int) directOut {
	var val *structpb.Value
	if v >= 0 || r.Chance(1, 3) {
		d := rec.Pick(r, pbDepths)
		if v >= 0 {
			d = pbDepths[v%len(pbDepths)]
		}
		w := 1
		if d <= 100 {
			w = r.Range(1, 4)
		}
		val = nestValue(rec.Pick(r, []string{"list", "struct", "mixed"}), d, w, hostileLeafSmall(r))
	} else {
		val = randPb(r, r.Range(1, 6), 400)
	}
	nodes := countNodes(val)
	var out []byte
	p, msg := guard(func() {
		b := keys.GetBuilder()
		(*keys.PbValue)(val).WriteTo(b.Builder)
		out = append([]byte{}, b.Bytes()...)
		b.Close()
	})
	class := 0
	if p {
		class = 5
	}
	return directOut{values: []rec.V{rec.I(4), pbRec(val), rec.I(nodes), rec.I(class), rec.B(out)}, panicked: p, panicMsg: msg}
}

// ---------------------------------------------------------------------------------------
// kind 5: tuple string functions

func directTuple(r *prng, v int) directOut {
	s := hostileString(r)
	if len(s) > 2000 {
		s = s[:2000]
	}
	a, b, c := hostileString(r), hostileString(r), hostileString(r)
	if r.Bool() {
		a, b, c = rec.Pick(r, []string{"", "user", "t:"}), rec.Pick(r, []string{"", "1", "a#b"}), rec.Pick(r, []string{"", "member", "#"})
	}
	if len(a)+len(b)+len(c) > 3000 {
		a, b, c = "a", "b", "c"
	}
	var t, id, rel, so1, so2, sr1, sr2, joined string
	p, msg := guard(func() {
		t, id, rel = tuple.ToUserParts(s)
		so1, so2 = tuple.SplitObject(s)
		sr1, sr2 = tuple.SplitObjectRelation(s)
		joined = tuple.FromUserParts(a, b, c)
	})
	class := 0
	if p {
		class = 5
	}
	return directOut{values: []rec.V{rec.I(5), rec.S(s), rec.S(a), rec.S(b), rec.S(c), rec.I(class),
		rec.S(t), rec.S(id), rec.S(rel), rec.S(so1), rec.S(so2), rec.S(sr1), rec.S(sr2), rec.S(joined)}, panicked: p, panicMsg: msg}
}

// ---------------------------------------------------------------------------------------
// kind 6: model validation on nested rewrites; wire size against nesting

func msgDepth(m protoreflect.Message) int {
	d := 0
	m.Range(func(fd protoreflect.FieldDescriptor, v protoreflect.Value) bool {
		switch {
		case fd.IsMap():
			if fd.MapValue().Kind() == protoreflect.MessageKind {
				v.Map().Range(func(_ protoreflect.MapKey, x protoreflect.Value) bool {
					d = max(d, 1+msgDepth(x.Message())) // a map entry is itself a nested message
					return true
				})
			}
		case fd.IsList():
			if fd.Kind() == protoreflect.MessageKind {
				for i := 0; i < v.List().Len(); i++ {
					d = max(d, msgDepth(v.List().Get(i).Message()))
				}
			}
		case fd.Kind() == protoreflect.MessageKind:
			d = max(d, msgDepth(v.Message()))
		}
		return true
	})
	return d + 1
}

var validateDepths = []int{1, 10, 100, 1000, 4990, 5000, 20000}

func directValidate(r *prng, v int) directOut {
	depth := rec.Pick(r, validateDepths)
	kind := rec.Pick(r, []string{"union", "intersection", "difference", "mixed"})
	if tierQuick && depth > 5000 {
		depth = 5000
	}
	if v >= 0 {
		depth = validateDepths[v%len(validateDepths)]
		if tierQuick && depth > 5000 {
			depth = 4000
		}
		kind = []string{"union", "intersection", "difference", "mixed"}[(v/len(validateDepths))%4]
	}
	rw := usersetDepth(kind, depth, this())
	model := &openfgav1.AuthorizationModel{Id: "01ARZ3NDEKTSV4RRFFQ69G5FAV", SchemaVersion: "1.1", TypeDefinitions: []*openfgav1.TypeDefinition{
		{Type: "user"},
		{Type: "document", Relations: map[string]*openfgav1.Userset{"blocked": this(), "deep": rw},
			Metadata: &openfgav1.Metadata{Relations: map[string]*openfgav1.RelationMetadata{"blocked": direct("user"), "deep": direct("user")}}}}}
	size := proto.Size(model)
	md := msgDepth(model.ProtoReflect())
	var err error
	p, msg := guard(func() { _, err = typesystem.NewAndValidate(context.Background(), model) })
	class := 0
	switch {
	case p:
		class = 5
	case err != nil:
		class = 1
	}
	return directOut{values: []rec.V{rec.I(6), rec.I(depth), rec.I(md), rec.I(size), rec.I(class)}, panicked: p, panicMsg: msg}
}

// set by the child from VERIF_C19_TIER
var tierQuick = true

func directGenerators() []*generator {
	mk := func(name string, variants, weight int, f func(r *prng, v int) directOut) *generator {
		return &generator{name: name, variants: variants, weight: weight, build: func(fx *fixture, r *prng, v int) built {
			return built{direct: func() directOut { return f(r, v) }, stats: []string{name}}
		}}
	}
	return []*generator{
		mk("d_readpage", len(directFroms)*len(directSizes)*2, 6, directReadPage),
		mk("d_pbvalue", len(pbDepths)*3, 8, directPbValue),
		mk("d_tuple", 0, 8, directTuple),
		mk("d_validate", len(validateDepths)*4, 1, directValidate),
	}
}
