//go:build verif

package main

// Fault injection below the handlers.  The child process also runs three in-process OpenFGA
// servers (pkg/server behind a real grpc.Server with the interceptor chain of cmd/run:
// recovery, ctxtags, request id, timeout, store id, logging, validator, authn none) whose
// memory datastore is wrapped: once armed, the k-th call of one read method (Read,
// ReadUserTuple, ReadUsersetTuples, ReadStartingWithUser, or Next / Head / Stop of a returned
// iterator) panics with (0) an error value, (1) a string, (2) a struct that is not an error,
// (3) a runtime error (write to a nil map).  The three servers select the engines:
//
//	0  defaults: Check v1, ListObjects pipeline
//	1  no experimentals, pipeline off: Check v1, ListObjects classic reverse expand
//	2  weighted_graph_check + check / list-objects optimisations, pipeline off: Check v2,
//	   ListObjects weighted reverse expand
//
// Expected: the request ends with an error or a normal answer and the PROCESS survives and keeps
// serving.  Before panicking the wrapper writes to stderr which recovery site the panicking
// goroutine is under (read off its stack, innermost first), so that the parent knows it even
// when the process dies:
//
//	1 try        a conc/panics.Try of the resolvers (the panic becomes an error)
//	2 pipeline   a ListObjects pipeline worker (defer concurrency.RecoverFromPanic)
//	3 evaluate   ListObjectsQuery.evaluate's `go handler()` / a reverse-expand pool goroutine
//	0 handler    the request goroutine itself (the recovery interceptor)
//	4 other      none of these

import (
	"context"
	"errors"
	"fmt"
	"net"
	"os"
	"runtime"
	"strings"
	"sync"
	"sync/atomic"
	"time"

	grpc_ctxtags "github.com/grpc-ecosystem/go-grpc-middleware/tags"
	grpcauth "github.com/grpc-ecosystem/go-grpc-middleware/v2/interceptors/auth"
	grpc_recovery "github.com/grpc-ecosystem/go-grpc-middleware/v2/interceptors/recovery"
	"go.uber.org/zap"
	"google.golang.org/grpc"
	"google.golang.org/grpc/credentials/insecure"
	"google.golang.org/protobuf/proto"

	openfgav1 "github.com/openfga/api/proto/openfga/v1"

	"github.com/openfga/openfga/internal/authn"
	authnmw "github.com/openfga/openfga/internal/middleware/authn"
	"github.com/openfga/openfga/internal/verifharness/lib/rec"
	"github.com/openfga/openfga/pkg/logger"
	"github.com/openfga/openfga/pkg/middleware"
	"github.com/openfga/openfga/pkg/middleware/logging"
	"github.com/openfga/openfga/pkg/middleware/recovery"
	"github.com/openfga/openfga/pkg/middleware/requestid"
	"github.com/openfga/openfga/pkg/middleware/storeid"
	"github.com/openfga/openfga/pkg/middleware/validator"
	"github.com/openfga/openfga/pkg/server"
	serverconfig "github.com/openfga/openfga/pkg/server/config"
	"github.com/openfga/openfga/pkg/storage"
	"github.com/openfga/openfga/pkg/storage/memory"
)

var faultMethods = []string{"Read", "ReadUserTuple", "ReadUsersetTuples", "ReadStartingWithUser", "Next", "Head", "Stop"}
var faultRPCs = []string{"Check", "BatchCheck", "ListObjects", "StreamedListObjects", "ListUsers", "Expand", "Write", "Read"}
var faultKs = []int{1, 2, 3, 5}

const (
	nFaultKinds   = 4
	nFaultServers = 3
)

func nFaultVariants() int {
	return nFaultServers * len(faultRPCs) * len(faultMethods) * len(faultKs) * nFaultKinds
}

// probes (variants nFaultVariants() ..): the first ReadStartingWithUser / Read / ReadUsersetTuples
// of a pipeline ListObjects / StreamedListObjects (server 0, a plain user) and the first
// ReadUserTuple of a Check, with each of the four panic values
const nFaultProbes = 4 * 4

type faultParams struct {
	server, rpc, method, k, kind int
	probe                        bool
}

// variant -> parameters (kind varies fastest so that a thinned sweep still meets all four)
func faultDecode(v int, r *prng) faultParams {
	if v < 0 {
		v = r.Intn(nFaultVariants() + nFaultProbes)
	}
	if v >= nFaultVariants() {
		q := (v - nFaultVariants()) % nFaultProbes
		p := faultParams{probe: true, server: 0, k: 1, kind: q % 4}
		switch q / 4 {
		case 0:
			p.rpc, p.method = 2, 3 // ListObjects, ReadStartingWithUser
		case 1:
			p.rpc, p.method = 3, 3 // StreamedListObjects, ReadStartingWithUser
		case 2:
			p.rpc, p.method = 2, 2 // ListObjects, ReadUsersetTuples
		default:
			p.rpc, p.method = 0, 1 // Check, ReadUserTuple
		}
		return p
	}
	p := faultParams{}
	p.kind = v % nFaultKinds
	v /= nFaultKinds
	p.server = v % nFaultServers
	v /= nFaultServers
	p.method = v % len(faultMethods)
	v /= len(faultMethods)
	p.rpc = v % len(faultRPCs)
	v /= len(faultRPCs)
	p.k = faultKs[v%len(faultKs)]
	return p
}

type notAnError struct {
	Code int
	Why  string
}

type faultDS struct {
	storage.OpenFGADatastore
	mu     sync.Mutex
	armed  bool
	method string
	k      int
	kind   int
	count  int
	fired  atomic.Int64
	site   atomic.Int64
}

func (d *faultDS) arm(method string, k, kind int) {
	d.mu.Lock()
	d.armed, d.method, d.k, d.kind, d.count = true, method, k, kind, 0
	d.mu.Unlock()
	d.fired.Store(0)
	d.site.Store(-1)
}

func (d *faultDS) disarm() {
	d.mu.Lock()
	d.armed = false
	d.mu.Unlock()
}

func panicSite() int {
	buf := make([]byte, 64<<10)
	buf = buf[:runtime.Stack(buf, false)]
	for _, line := range strings.Split(string(buf), "\n") {
		if strings.HasPrefix(line, "\t") || strings.HasPrefix(line, "goroutine ") {
			continue
		}
		switch {
		case strings.Contains(line, "conc/panics.Try("):
			return 1
		case strings.Contains(line, "internal/listobjects/pipeline"):
			return 2
		case strings.Contains(line, "commands/reverseexpand.") || strings.Contains(line, "ListObjectsQuery).evaluate"):
			return 3
		case strings.Contains(line, "grpc.(*Server).processUnaryRPC") || strings.Contains(line, "grpc.(*Server).processStreamingRPC"):
			return 0
		}
	}
	return 4
}

func (d *faultDS) hit(method string) {
	d.mu.Lock()
	if !d.armed || d.method != method {
		d.mu.Unlock()
		return
	}
	d.count++
	if d.count != d.k {
		d.mu.Unlock()
		return
	}
	d.armed = false
	kind := d.kind
	d.mu.Unlock()
	site := panicSite()
	d.fired.Add(1)
	d.site.Store(int64(site))
	fmt.Fprintf(os.Stderr, "C19FAULT site=%d method=%s kind=%d\n", site, method, kind)
	switch kind {
	case 0:
		panic(errors.New("c19 injected datastore failure"))
	case 1:
		panic("c19 injected datastore failure")
	case 2:
		panic(notAnError{Code: 19, Why: "c19 injected"})
	default:
		var m map[string]int
		m["c19"] = 1
	}
}

type faultIter struct {
	storage.TupleIterator
	d *faultDS
}

func (it *faultIter) Next(ctx context.Context) (*openfgav1.Tuple, error) {
	it.d.hit("Next")
	return it.TupleIterator.Next(ctx)
}
func (it *faultIter) Head(ctx context.Context) (*openfgav1.Tuple, error) {
	it.d.hit("Head")
	return it.TupleIterator.Head(ctx)
}
func (it *faultIter) Stop() {
	it.d.hit("Stop")
	it.TupleIterator.Stop()
}

func (d *faultDS) wrap(it storage.TupleIterator, err error) (storage.TupleIterator, error) {
	if err != nil || it == nil {
		return it, err
	}
	return &faultIter{TupleIterator: it, d: d}, nil
}

func (d *faultDS) Read(ctx context.Context, store string, f storage.ReadFilter, o storage.ReadOptions) (storage.TupleIterator, error) {
	d.hit("Read")
	return d.wrap(d.OpenFGADatastore.Read(ctx, store, f, o))
}
func (d *faultDS) ReadUserTuple(ctx context.Context, store string, f storage.ReadUserTupleFilter, o storage.ReadUserTupleOptions) (*openfgav1.Tuple, error) {
	d.hit("ReadUserTuple")
	return d.OpenFGADatastore.ReadUserTuple(ctx, store, f, o)
}
func (d *faultDS) ReadUsersetTuples(ctx context.Context, store string, f storage.ReadUsersetTuplesFilter, o storage.ReadUsersetTuplesOptions) (storage.TupleIterator, error) {
	d.hit("ReadUsersetTuples")
	return d.wrap(d.OpenFGADatastore.ReadUsersetTuples(ctx, store, f, o))
}
func (d *faultDS) ReadStartingWithUser(ctx context.Context, store string, f storage.ReadStartingWithUserFilter, o storage.ReadStartingWithUserOptions) (storage.TupleIterator, error) {
	d.hit("ReadStartingWithUser")
	return d.wrap(d.OpenFGADatastore.ReadStartingWithUser(ctx, store, f, o))
}
func (d *faultDS) ReadPage(ctx context.Context, store string, f storage.ReadFilter, o storage.ReadPageOptions) ([]*openfgav1.Tuple, string, error) {
	d.hit("Read") // the Read API pages through ReadPage
	return d.OpenFGADatastore.ReadPage(ctx, store, f, o)
}

type faultServer struct {
	ts *testServer
	ds *faultDS
	fx *fixture
	gs *grpc.Server
}

func startFaultServer(which int) (*faultServer, error) {
	ts := &testServer{done: make(chan error, 1)}
	ts.last.Store("")
	core := panicCore{recovered: &ts.recovered, captured: &ts.captured, last: &ts.last}
	var lg logger.Logger = &logger.ZapLogger{Logger: zap.New(core)}
	ds := &faultDS{OpenFGADatastore: memory.New()}
	ctx, cancel := context.WithCancel(context.Background())
	ts.cancel = cancel

	var exps []string
	pipeline := false
	switch which {
	case 0:
		exps, pipeline = serverconfig.DefaultConfig().Experimentals, true
	case 2:
		exps = []string{serverconfig.ExperimentalWeightedGraphCheck, serverconfig.ExperimentalCheckOptimizations, serverconfig.ExperimentalListObjectsOptimizations}
	}
	svr := server.MustNewServerWithOpts(
		server.WithDatastore(ds),
		server.WithLogger(lg),
		server.WithContext(ctx),
		server.WithExperimentals(exps...),
		server.WithListObjectsPipelineEnabled(pipeline),
	)
	tm := middleware.NewTimeoutInterceptor(requestTimeout, lg)
	gs := grpc.NewServer(
		grpc.MaxRecvMsgSize(serverconfig.DefaultMaxRPCMessageSizeInBytes),
		grpc.ChainUnaryInterceptor(
			grpc_recovery.UnaryServerInterceptor(grpc_recovery.WithRecoveryHandlerContext(recovery.PanicRecoveryHandler(lg))),
			grpc_ctxtags.UnaryServerInterceptor(),
			requestid.NewUnaryInterceptor(),
			tm.NewUnaryTimeoutInterceptor(),
			storeid.NewUnaryInterceptor(),
			logging.NewLoggingInterceptor(lg),
			validator.UnaryServerInterceptor(),
			grpcauth.UnaryServerInterceptor(authnmw.AuthFunc(authn.NoopAuthenticator{})),
		),
		grpc.ChainStreamInterceptor(
			grpc_recovery.StreamServerInterceptor(grpc_recovery.WithRecoveryHandlerContext(recovery.PanicRecoveryHandler(lg))),
			grpc_ctxtags.StreamServerInterceptor(),
			requestid.NewStreamingInterceptor(),
			tm.NewStreamTimeoutInterceptor(),
			validator.StreamServerInterceptor(),
			grpcauth.StreamServerInterceptor(authnmw.AuthFunc(authn.NoopAuthenticator{})),
			storeid.NewStreamingInterceptor(),
			logging.NewStreamingLoggingInterceptor(lg),
		),
	)
	openfgav1.RegisterOpenFGAServiceServer(gs, svr)
	lis, err := net.Listen("tcp", "127.0.0.1:0")
	if err != nil {
		cancel()
		return nil, err
	}
	ts.grpcAddr = lis.Addr().String()
	go func() { _ = gs.Serve(lis) }()
	conn, err := grpc.NewClient(ts.grpcAddr, grpc.WithTransportCredentials(insecure.NewCredentials()),
		grpc.WithDefaultCallOptions(grpc.MaxCallRecvMsgSize(64<<20), grpc.MaxCallSendMsgSize(64<<20)))
	if err != nil {
		cancel()
		return nil, err
	}
	ts.conn = conn
	ts.client = openfgav1.NewOpenFGAServiceClient(conn)
	fx, err := setupFixture(ts)
	if err != nil {
		cancel()
		return nil, fmt.Errorf("fault server %d fixture: %w", which, err)
	}
	return &faultServer{ts: ts, ds: ds, fx: fx, gs: gs}, nil
}

// requests that make the engines read: deep / cyclic / conditioned parts of the fixture
func faultRequest(fx *fixture, rpcName string, r *prng) (*rpcInfo, proto.Message) {
	rpc := rpcByName(rpcName)
	switch rpcName {
	case "Check":
		o := rec.Pick(r, []string{"document:1", "document:2", "document:4", "folder:x", "group:a", "group:int"})
		return rpc, &openfgav1.CheckRequest{StoreId: fx.store, AuthorizationModelId: fx.model,
			TupleKey: &openfgav1.CheckRequestTupleKey{Object: o, Relation: relOf(o, r), User: rec.Pick(r, []string{"user:anne", "user:bob", "user:deep"})},
			Context:  someContext(r)}
	case "BatchCheck":
		var items []*openfgav1.BatchCheckItem
		for i := 0; i < 3; i++ {
			o := rec.Pick(r, []string{"document:1", "document:4", "folder:x", "group:a"})
			items = append(items, &openfgav1.BatchCheckItem{CorrelationId: fmt.Sprintf("c-%d", i),
				TupleKey: &openfgav1.CheckRequestTupleKey{Object: o, Relation: relOf(o, r), User: "user:anne"}})
		}
		return rpc, &openfgav1.BatchCheckRequest{StoreId: fx.store, AuthorizationModelId: fx.model, Checks: items}
	case "ListObjects":
		t := rec.Pick(r, []string{"document", "folder", "group"})
		return rpc, &openfgav1.ListObjectsRequest{StoreId: fx.store, AuthorizationModelId: fx.model, Type: t,
			Relation: map[string]string{"document": rec.Pick(r, []string{"viewer", "can_view", "editor"}), "folder": "viewer", "group": "member"}[t],
			User:     rec.Pick(r, []string{"user:anne", "user:bob", "group:a#member"}), Context: someContext(r)}
	case "StreamedListObjects":
		t := rec.Pick(r, []string{"document", "folder", "group"})
		return rpc, &openfgav1.StreamedListObjectsRequest{StoreId: fx.store, AuthorizationModelId: fx.model, Type: t,
			Relation: map[string]string{"document": rec.Pick(r, []string{"viewer", "can_view", "editor"}), "folder": "viewer", "group": "member"}[t],
			User:     rec.Pick(r, []string{"user:anne", "user:bob", "group:a#member"}), Context: someContext(r)}
	case "ListUsers":
		o := rec.Pick(r, []string{"document:1", "document:4", "folder:x", "group:a"})
		ty, id, _ := strings.Cut(o, ":")
		return rpc, &openfgav1.ListUsersRequest{StoreId: fx.store, AuthorizationModelId: fx.model, Object: &openfgav1.Object{Type: ty, Id: id},
			Relation: map[string]string{"document": "viewer", "folder": "viewer", "group": "member"}[ty], UserFilters: []*openfgav1.UserTypeFilter{{Type: "user"}}, Context: someContext(r)}
	case "Expand":
		o := rec.Pick(r, []string{"document:1", "folder:x", "group:a"})
		return rpc, &openfgav1.ExpandRequest{StoreId: fx.store, AuthorizationModelId: fx.model, TupleKey: &openfgav1.ExpandRequestTupleKey{Object: o, Relation: relOf(o, r)}}
	case "Write":
		return rpc, &openfgav1.WriteRequest{StoreId: fx.scratch, AuthorizationModelId: fx.smodel, Writes: &openfgav1.WriteRequestWrites{
			TupleKeys: []*openfgav1.TupleKey{tk(fmt.Sprintf("document:fw%d", r.Intn(1000000)), "viewer", "user:anne")}}}
	default:
		return rpc, &openfgav1.ReadRequest{StoreId: fx.store, TupleKey: &openfgav1.ReadRequestTupleKey{Object: "document:1"}}
	}
}

// kind 8 record:  8 server rpc method k kind fired class alive site
func faultRecord(p faultParams, fired, class, alive, site int) string {
	return fmt.Sprintf("8 %d %d %d %d %d %d %d %d %d", p.server, p.rpc, p.method, p.k, p.kind, fired, class, alive, site)
}

func (c *child) runFault(d caseDesc) caseResult {
	r := rec.NewRand(d.S)
	p := faultDecode(d.V, r)
	fs := c.faults[p.server]
	rpc, m := faultRequest(fs.fx, faultRPCs[p.rpc], r)
	if p.probe { // a request the pipeline engine takes: a plain user, the conditioned and ttu relations
		switch q := m.(type) {
		case *openfgav1.ListObjectsRequest:
			q.Type, q.Relation, q.User = "document", "viewer", "user:anne"
		case *openfgav1.StreamedListObjectsRequest:
			q.Type, q.Relation, q.User = "document", "viewer", "user:anne"
		case *openfgav1.CheckRequest:
			q.TupleKey = &openfgav1.CheckRequestTupleKey{Object: "document:1", Relation: "viewer", User: "user:anne"}
		}
	}
	// a request that survives the injected panic ends by the server's own 3 s deadlines
	st := step{rpc: rpc, wire: finishWire(m, nil), heavy: true, limit: 5 * time.Second}
	fs.ds.arm(faultMethods[p.method], p.k, p.kind)
	sub := &child{ts: fs.ts, fx: fs.fx, httpc: c.httpc}
	o := sub.send(st)
	fs.ds.disarm()
	fired := int(fs.ds.fired.Load())
	site := int(fs.ds.site.Load())
	// the process must keep serving: a plain Check, a moment later (a goroutine that is about to
	// die with an unrecovered panic takes the process down within that time)
	time.Sleep(20 * time.Millisecond)
	alive := 0
	_, pm := faultRequest(fs.fx, "Check", rec.NewRand(1))
	po := sub.send(step{rpc: rpcByName("Check"), wire: finishWire(pm, nil), limit: 5 * time.Second})
	if po.class != clTransport && po.class != clOverrun && po.class != clDeadline {
		alive = 1
	}
	note := fmt.Sprintf("fault server=%d %s: %s call #%d panics with kind %d -> %s (fired=%d site=%d), then Check -> %s",
		p.server, faultRPCs[p.rpc], faultMethods[p.method], p.k, p.kind, className[o.class], fired, site, className[po.class])
	res := caseResult{Class: o.class, Rec: faultRecord(p, fired, o.class, alive, site), Note: note,
		Stats: []string{"fault:" + faultRPCs[p.rpc], fmt.Sprintf("fault_site:%d", site), fmt.Sprintf("fault_fired:%d", fired)}, Classes: []int{o.class}}
	if o.class >= clInternal {
		res.Last = clip(fmt.Sprint(fs.ts.last.Load())+" | "+fmt.Sprint(o.err), 400)
	}
	return res
}
