//go:build verif

package main

// Fixture data written through the public API into the server under test, and the table of RPCs
// with a valid baseline request for each.

import (
	"context"
	"fmt"
	"strings"
	"time"

	"google.golang.org/protobuf/proto"
	"google.golang.org/protobuf/types/known/structpb"
	"google.golang.org/protobuf/types/known/wrapperspb"

	openfgav1 "github.com/openfga/api/proto/openfga/v1"
	parser "github.com/openfga/language/pkg/go/transformer"
)

const baseDSL = `model
  schema 1.1
type user
type group
  relations
    define member: [user, user:*, group#member, user with cond_ip, group#member with cond_int]
type folder
  relations
    define parent: [folder]
    define owner: [user, group#member]
    define viewer: [user, user:*, group#member] or owner or viewer from parent
type document
  relations
    define parent: [folder]
    define owner: [user]
    define editor: [user, group#member] or owner
    define blocked: [user, group#member]
    define viewer: [user, user:* with cond_str, group#member with cond_many] or editor or viewer from parent
    define can_view: viewer but not blocked
    define can_edit: editor and viewer
condition cond_int(x: int) {
  x > 0
}
condition cond_str(s: string) {
  s.startsWith("a")
}
condition cond_ip(ip: ipaddress) {
  ip.in_cidr("10.0.0.0/8")
}
condition cond_many(l: list<string>, m: map<int>, t: timestamp, d: duration, u: uint, f: double, b: bool, ll: list<string>) {
  l.size() < 3 || m.size() > 1 || t > timestamp("2020-01-01T00:00:00Z") || d > duration("1s") || u > 1u || f > 1.0 || b || ll.size() > 0
}
`

const pagingDSL = `model
  schema 1.1
type user
type doc
  relations
    define viewer: [user]
`

const pagingTuples = 5

type fixture struct {
	store, model   string // base store
	pstore, pmodel string // paging store: pagingTuples tuples doc:0..4#viewer@user:a
	scratch        string // store for WriteAuthorizationModel / Write cases
	smodel         string
}

func tk(o, r, u string) *openfgav1.TupleKey { return &openfgav1.TupleKey{Object: o, Relation: r, User: u} }

func tkc(o, r, u, c string, ctx map[string]any) *openfgav1.TupleKey {
	t := tk(o, r, u)
	t.Condition = &openfgav1.RelationshipCondition{Name: c}
	if ctx != nil {
		s, err := structpb.NewStruct(ctx)
		if err != nil {
			panic(err)
		}
		t.Condition.Context = s
	}
	return t
}

func baseTuples() []*openfgav1.TupleKey {
	var ts []*openfgav1.TupleKey
	// cyclic group membership, a self loop through two groups, and a chain longer than the
	// resolution depth limit (25)
	ts = append(ts,
		tk("group:a", "member", "group:b#member"), tk("group:b", "member", "group:a#member"),
		tk("group:a", "member", "user:anne"), tk("group:b", "member", "user:*"),
		tk("group:c", "member", "group:d#member"), tk("group:d", "member", "group:e#member"), tk("group:e", "member", "group:c#member"),
		tkc("group:ip", "member", "user:ivy", "cond_ip", map[string]any{"ip": "10.1.2.3"}),
		tkc("group:ip", "member", "user:ian", "cond_ip", nil),
		tkc("group:int", "member", "group:a#member", "cond_int", map[string]any{"x": 1}),
		tkc("group:int", "member", "group:b#member", "cond_int", nil),
	)
	for i := 0; i < 40; i++ {
		ts = append(ts, tk(fmt.Sprintf("group:g%d", i), "member", fmt.Sprintf("group:g%d#member", i+1)))
	}
	ts = append(ts, tk("group:g40", "member", "user:deep"))
	// folder cycles and a deep folder chain
	ts = append(ts,
		tk("folder:x", "parent", "folder:y"), tk("folder:y", "parent", "folder:x"),
		tk("folder:x", "viewer", "user:xv"), tk("folder:y", "owner", "group:a#member"),
		tk("folder:self", "parent", "folder:self"),
	)
	for i := 0; i < 40; i++ {
		ts = append(ts, tk(fmt.Sprintf("folder:f%d", i), "parent", fmt.Sprintf("folder:f%d", i+1)))
	}
	ts = append(ts, tk("folder:f40", "viewer", "user:deep"), tk("folder:f3", "viewer", "user:*"))
	// documents
	ts = append(ts,
		tk("document:1", "parent", "folder:x"), tk("document:1", "owner", "user:anne"),
		tk("document:1", "blocked", "group:a#member"), tk("document:1", "blocked", "user:bob"),
		tk("document:2", "parent", "folder:f0"), tk("document:2", "editor", "group:g0#member"),
		tk("document:3", "parent", "folder:self"), tk("document:3", "editor", "group:c#member"),
		tkc("document:4", "viewer", "user:*", "cond_str", map[string]any{"s": "abc"}),
		tkc("document:4", "viewer", "group:a#member", "cond_many", nil),
		tkc("document:5", "viewer", "user:*", "cond_str", nil),
		tkc("document:5", "viewer", "group:int#member", "cond_many", map[string]any{"l": []any{"x"}, "b": false}),
	)
	for i := 0; i < 30; i++ {
		ts = append(ts, tk(fmt.Sprintf("document:d%d", i), "viewer", "user:anne"))
	}
	return ts
}

func setupFixture(ts *testServer) (*fixture, error) {
	ctx, cancel := context.WithTimeout(context.Background(), time.Duration(float64(90*time.Second)*loadFactor()))
	defer cancel()
	fx := &fixture{}
	mk := func(name, dsl string) (string, string, error) {
		st, err := ts.client.CreateStore(ctx, &openfgav1.CreateStoreRequest{Name: name})
		if err != nil {
			return "", "", err
		}
		m := parser.MustTransformDSLToProto(dsl)
		wm, err := ts.client.WriteAuthorizationModel(ctx, &openfgav1.WriteAuthorizationModelRequest{
			StoreId: st.GetId(), SchemaVersion: m.GetSchemaVersion(), TypeDefinitions: m.GetTypeDefinitions(), Conditions: m.GetConditions()})
		if err != nil {
			return "", "", err
		}
		return st.GetId(), wm.GetAuthorizationModelId(), nil
	}
	var err error
	if fx.store, fx.model, err = mk("c19-base", baseDSL); err != nil {
		return nil, fmt.Errorf("base store: %w", err)
	}
	if fx.pstore, fx.pmodel, err = mk("c19-paging", pagingDSL); err != nil {
		return nil, fmt.Errorf("paging store: %w", err)
	}
	if fx.scratch, fx.smodel, err = mk("c19-scratch", baseDSL); err != nil {
		return nil, fmt.Errorf("scratch store: %w", err)
	}
	// the base tuples in batches of 90 (one request each); a rejected batch is retried one by one
	all := baseTuples()
	nfail := 0
	for i := 0; i < len(all); i += 90 {
		batch := all[i:min(i+90, len(all))]
		_, err := ts.client.Write(ctx, &openfgav1.WriteRequest{StoreId: fx.store, AuthorizationModelId: fx.model,
			Writes: &openfgav1.WriteRequestWrites{TupleKeys: batch}})
		if err == nil {
			continue
		}
		for _, t := range batch {
			_, err := ts.client.Write(ctx, &openfgav1.WriteRequest{StoreId: fx.store, AuthorizationModelId: fx.model,
				Writes: &openfgav1.WriteRequestWrites{TupleKeys: []*openfgav1.TupleKey{t}}})
			if err != nil {
				nfail++
				if nfail > 3 {
					return nil, fmt.Errorf("fixture tuple %v: %w", t, err)
				}
			}
		}
	}
	for i := 0; i < pagingTuples; i++ {
		_, err := ts.client.Write(ctx, &openfgav1.WriteRequest{StoreId: fx.pstore, AuthorizationModelId: fx.pmodel,
			Writes: &openfgav1.WriteRequestWrites{TupleKeys: []*openfgav1.TupleKey{tk(fmt.Sprintf("doc:%d", i), "viewer", "user:a")}}})
		if err != nil {
			return nil, fmt.Errorf("paging tuple: %w", err)
		}
	}
	// a second and third model in the paging store, so that ReadAuthorizationModels pages
	for i := 0; i < 2; i++ {
		m := parser.MustTransformDSLToProto(pagingDSL)
		if _, err := ts.client.WriteAuthorizationModel(ctx, &openfgav1.WriteAuthorizationModelRequest{
			StoreId: fx.pstore, SchemaVersion: m.GetSchemaVersion(), TypeDefinitions: m.GetTypeDefinitions()}); err != nil {
			return nil, err
		}
	}
	return fx, nil
}

// ---------------------------------------------------------------------------------------
// RPC table

type rpcInfo struct {
	name     string
	method   string // gRPC full method
	stream   bool
	httpVerb string
	httpPath func(fx *fixture) string
	newReq   func(fx *fixture, r *prng) proto.Message
	newResp  func() proto.Message
	heavy    bool // may legitimately take up to the request deadline
}

func pick[T any](r *prng, xs ...T) T { return xs[r.Intn(len(xs))] }

func objs(r *prng) string {
	return pick(r, "document:1", "document:2", "document:3", "document:4", "document:5", "document:d7", "folder:x", "folder:f0",
		"folder:self", "group:a", "group:c", "group:g0", "group:ip", "group:int", "document:nope")
}
func relOf(obj string, r *prng) string {
	switch {
	case strings.HasPrefix(obj, "document:"):
		return pick(r, "viewer", "can_view", "can_edit", "editor", "blocked", "owner", "parent")
	case strings.HasPrefix(obj, "folder:"):
		return pick(r, "viewer", "owner", "parent")
	default:
		return "member"
	}
}
func users(r *prng) string {
	return pick(r, "user:anne", "user:bob", "user:deep", "user:xv", "user:ivy", "user:*", "group:a#member", "group:g5#member", "user:nobody", "folder:x")
}

func someContext(r *prng) *structpb.Struct {
	if r.Chance(1, 3) {
		return nil
	}
	if r.Chance(1, 6) {
		return &structpb.Struct{} // present on the wire, no fields
	}
	s, _ := structpb.NewStruct(map[string]any{
		"x": float64(r.Intn(5) - 1), "s": pick(r, "abc", "zzz", ""), "ip": pick(r, "10.0.0.1", "192.168.0.1", "not-an-ip"),
		"l": []any{"a", "b"}, "m": map[string]any{"k": 1.0}, "t": "2024-01-01T00:00:00Z", "d": "2s", "u": 3.0, "f": 1.5, "b": r.Bool(), "a": 1.0,
		"ll": []any{"x"},
	})
	return s
}

func someCtxTuples(r *prng) *openfgav1.ContextualTupleKeys {
	n := r.Intn(4)
	if n == 0 {
		return nil
	}
	var ts []*openfgav1.TupleKey
	for i := 0; i < n; i++ {
		o := objs(r)
		t := tk(o, relOf(o, r), users(r))
		if r.Chance(1, 3) {
			t = tkc("document:4", "viewer", "user:*", "cond_str", map[string]any{"s": "a"})
		}
		ts = append(ts, t)
	}
	return &openfgav1.ContextualTupleKeys{TupleKeys: ts}
}

func stPath(suffix string) func(fx *fixture) string {
	return func(fx *fixture) string { return "/stores/" + fx.store + suffix }
}

var rpcs = []*rpcInfo{
	{name: "Check", method: openfgav1.OpenFGAService_Check_FullMethodName, httpVerb: "POST", httpPath: stPath("/check"), heavy: true,
		newReq: func(fx *fixture, r *prng) proto.Message {
			o := objs(r)
			return &openfgav1.CheckRequest{StoreId: fx.store, AuthorizationModelId: pick(r, fx.model, ""),
				TupleKey:         &openfgav1.CheckRequestTupleKey{Object: o, Relation: relOf(o, r), User: users(r)},
				ContextualTuples: someCtxTuples(r), Context: someContext(r),
				Consistency: pick(r, openfgav1.ConsistencyPreference_UNSPECIFIED, openfgav1.ConsistencyPreference_HIGHER_CONSISTENCY, openfgav1.ConsistencyPreference_MINIMIZE_LATENCY)}
		}, newResp: func() proto.Message { return &openfgav1.CheckResponse{} }},
	{name: "BatchCheck", method: openfgav1.OpenFGAService_BatchCheck_FullMethodName, httpVerb: "POST", httpPath: stPath("/batch-check"), heavy: true,
		newReq: func(fx *fixture, r *prng) proto.Message {
			n := 1 + r.Intn(4)
			var items []*openfgav1.BatchCheckItem
			for i := 0; i < n; i++ {
				o := objs(r)
				items = append(items, &openfgav1.BatchCheckItem{CorrelationId: fmt.Sprintf("c-%d", i),
					TupleKey:         &openfgav1.CheckRequestTupleKey{Object: o, Relation: relOf(o, r), User: users(r)},
					ContextualTuples: someCtxTuples(r), Context: someContext(r)})
			}
			return &openfgav1.BatchCheckRequest{StoreId: fx.store, AuthorizationModelId: fx.model, Checks: items}
		}, newResp: func() proto.Message { return &openfgav1.BatchCheckResponse{} }},
	{name: "Expand", method: openfgav1.OpenFGAService_Expand_FullMethodName, httpVerb: "POST", httpPath: stPath("/expand"),
		newReq: func(fx *fixture, r *prng) proto.Message {
			o := objs(r)
			return &openfgav1.ExpandRequest{StoreId: fx.store, AuthorizationModelId: fx.model,
				TupleKey: &openfgav1.ExpandRequestTupleKey{Object: o, Relation: relOf(o, r)}, ContextualTuples: someCtxTuples(r)}
		}, newResp: func() proto.Message { return &openfgav1.ExpandResponse{} }},
	{name: "ListObjects", method: openfgav1.OpenFGAService_ListObjects_FullMethodName, httpVerb: "POST", httpPath: stPath("/list-objects"), heavy: true,
		newReq: func(fx *fixture, r *prng) proto.Message {
			t := pick(r, "document", "folder", "group")
			return &openfgav1.ListObjectsRequest{StoreId: fx.store, AuthorizationModelId: fx.model, Type: t,
				Relation: relOf(t+":", r), User: users(r), ContextualTuples: someCtxTuples(r), Context: someContext(r)}
		}, newResp: func() proto.Message { return &openfgav1.ListObjectsResponse{} }},
	{name: "StreamedListObjects", method: openfgav1.OpenFGAService_StreamedListObjects_FullMethodName, stream: true, httpVerb: "POST", httpPath: stPath("/streamed-list-objects"), heavy: true,
		newReq: func(fx *fixture, r *prng) proto.Message {
			t := pick(r, "document", "folder", "group")
			return &openfgav1.StreamedListObjectsRequest{StoreId: fx.store, AuthorizationModelId: fx.model, Type: t,
				Relation: relOf(t+":", r), User: users(r), ContextualTuples: someCtxTuples(r), Context: someContext(r)}
		}, newResp: func() proto.Message { return &openfgav1.StreamedListObjectsResponse{} }},
	{name: "ListUsers", method: openfgav1.OpenFGAService_ListUsers_FullMethodName, httpVerb: "POST", httpPath: stPath("/list-users"), heavy: true,
		newReq: func(fx *fixture, r *prng) proto.Message {
			o := objs(r)
			ty, id, _ := strings.Cut(o, ":")
			uf := &openfgav1.UserTypeFilter{Type: pick(r, "user", "group")}
			if uf.Type == "group" {
				uf.Relation = "member"
			}
			var ct []*openfgav1.TupleKey
			if c := someCtxTuples(r); c != nil {
				ct = c.GetTupleKeys()
			}
			return &openfgav1.ListUsersRequest{StoreId: fx.store, AuthorizationModelId: fx.model, Object: &openfgav1.Object{Type: ty, Id: id},
				Relation: relOf(o, r), UserFilters: []*openfgav1.UserTypeFilter{uf}, ContextualTuples: ct, Context: someContext(r)}
		}, newResp: func() proto.Message { return &openfgav1.ListUsersResponse{} }},
	{name: "Read", method: openfgav1.OpenFGAService_Read_FullMethodName, httpVerb: "POST", httpPath: stPath("/read"),
		newReq: func(fx *fixture, r *prng) proto.Message {
			req := &openfgav1.ReadRequest{StoreId: fx.store}
			if r.Chance(2, 3) {
				o := objs(r)
				req.TupleKey = &openfgav1.ReadRequestTupleKey{Object: pick(r, o, "document:"), Relation: pick(r, relOf(o, r), ""), User: pick(r, users(r), "")}
			}
			if r.Bool() {
				req.PageSize = wrapperspb.Int32(int32(1 + r.Intn(100)))
			}
			return req
		}, newResp: func() proto.Message { return &openfgav1.ReadResponse{} }},
	{name: "ReadChanges", method: openfgav1.OpenFGAService_ReadChanges_FullMethodName, httpVerb: "GET", httpPath: stPath("/changes"),
		newReq: func(fx *fixture, r *prng) proto.Message {
			req := &openfgav1.ReadChangesRequest{StoreId: fx.store, Type: pick(r, "", "document", "group", "nope")}
			if r.Bool() {
				req.PageSize = wrapperspb.Int32(int32(1 + r.Intn(100)))
			}
			return req
		}, newResp: func() proto.Message { return &openfgav1.ReadChangesResponse{} }},
	{name: "Write", method: openfgav1.OpenFGAService_Write_FullMethodName, httpVerb: "POST",
		httpPath: func(fx *fixture) string { return "/stores/" + fx.scratch + "/write" },
		newReq: func(fx *fixture, r *prng) proto.Message {
			req := &openfgav1.WriteRequest{StoreId: fx.scratch, AuthorizationModelId: pick(r, fx.smodel, "")}
			n := r.Intn(4)
			if n > 0 {
				w := &openfgav1.WriteRequestWrites{OnDuplicate: pick(r, "", "ignore", "error")}
				for i := 0; i < n; i++ {
					o := fmt.Sprintf("document:w%d", r.Intn(50))
					t := tk(o, pick(r, "viewer", "editor", "owner", "blocked"), pick(r, "user:anne", "user:w"+fmt.Sprint(r.Intn(9)), "group:a#member"))
					if r.Chance(1, 4) {
						t = tkc(o, "viewer", "user:*", "cond_str", map[string]any{"s": "a"})
					}
					w.TupleKeys = append(w.TupleKeys, t)
				}
				req.Writes = w
			}
			if n == 0 || r.Chance(1, 3) {
				d := &openfgav1.WriteRequestDeletes{OnMissing: pick(r, "", "ignore", "error")}
				d.TupleKeys = append(d.TupleKeys, &openfgav1.TupleKeyWithoutCondition{Object: fmt.Sprintf("document:w%d", r.Intn(50)), Relation: "viewer", User: "user:anne"})
				req.Deletes = d
			}
			return req
		}, newResp: func() proto.Message { return &openfgav1.WriteResponse{} }},
	{name: "WriteAuthorizationModel", method: openfgav1.OpenFGAService_WriteAuthorizationModel_FullMethodName, httpVerb: "POST",
		httpPath: func(fx *fixture) string { return "/stores/" + fx.scratch + "/authorization-models" },
		newReq: func(fx *fixture, r *prng) proto.Message {
			m := parser.MustTransformDSLToProto(pick(r, baseDSL, pagingDSL))
			return &openfgav1.WriteAuthorizationModelRequest{StoreId: fx.scratch, SchemaVersion: m.GetSchemaVersion(),
				TypeDefinitions: m.GetTypeDefinitions(), Conditions: m.GetConditions()}
		}, newResp: func() proto.Message { return &openfgav1.WriteAuthorizationModelResponse{} }},
	{name: "ReadAuthorizationModel", method: openfgav1.OpenFGAService_ReadAuthorizationModel_FullMethodName, httpVerb: "GET",
		httpPath: func(fx *fixture) string { return "/stores/" + fx.store + "/authorization-models/" + fx.model },
		newReq: func(fx *fixture, r *prng) proto.Message {
			return &openfgav1.ReadAuthorizationModelRequest{StoreId: fx.store, Id: fx.model}
		}, newResp: func() proto.Message { return &openfgav1.ReadAuthorizationModelResponse{} }},
	{name: "ReadAuthorizationModels", method: openfgav1.OpenFGAService_ReadAuthorizationModels_FullMethodName, httpVerb: "GET",
		httpPath: func(fx *fixture) string { return "/stores/" + fx.pstore + "/authorization-models" },
		newReq: func(fx *fixture, r *prng) proto.Message {
			req := &openfgav1.ReadAuthorizationModelsRequest{StoreId: fx.pstore}
			if r.Bool() {
				req.PageSize = wrapperspb.Int32(int32(1 + r.Intn(3)))
			}
			return req
		}, newResp: func() proto.Message { return &openfgav1.ReadAuthorizationModelsResponse{} }},
	{name: "WriteAssertions", method: openfgav1.OpenFGAService_WriteAssertions_FullMethodName, httpVerb: "PUT",
		httpPath: func(fx *fixture) string { return "/stores/" + fx.store + "/assertions/" + fx.model },
		newReq: func(fx *fixture, r *prng) proto.Message {
			var as []*openfgav1.Assertion
			for i := 0; i < r.Intn(4); i++ {
				o := objs(r)
				a := &openfgav1.Assertion{TupleKey: &openfgav1.AssertionTupleKey{Object: o, Relation: relOf(o, r), User: users(r)}, Expectation: r.Bool(), Context: someContext(r)}
				if c := someCtxTuples(r); c != nil {
					a.ContextualTuples = c.GetTupleKeys()
				}
				as = append(as, a)
			}
			return &openfgav1.WriteAssertionsRequest{StoreId: fx.store, AuthorizationModelId: fx.model, Assertions: as}
		}, newResp: func() proto.Message { return &openfgav1.WriteAssertionsResponse{} }},
	{name: "ReadAssertions", method: openfgav1.OpenFGAService_ReadAssertions_FullMethodName, httpVerb: "GET",
		httpPath: func(fx *fixture) string { return "/stores/" + fx.store + "/assertions/" + fx.model },
		newReq: func(fx *fixture, r *prng) proto.Message {
			return &openfgav1.ReadAssertionsRequest{StoreId: fx.store, AuthorizationModelId: fx.model}
		}, newResp: func() proto.Message { return &openfgav1.ReadAssertionsResponse{} }},
	{name: "CreateStore", method: openfgav1.OpenFGAService_CreateStore_FullMethodName, httpVerb: "POST",
		httpPath: func(fx *fixture) string { return "/stores" },
		newReq: func(fx *fixture, r *prng) proto.Message {
			return &openfgav1.CreateStoreRequest{Name: "c19-" + fmt.Sprint(r.Intn(1000))}
		}, newResp: func() proto.Message { return &openfgav1.CreateStoreResponse{} }},
	{name: "GetStore", method: openfgav1.OpenFGAService_GetStore_FullMethodName, httpVerb: "GET", httpPath: stPath(""),
		newReq:  func(fx *fixture, r *prng) proto.Message { return &openfgav1.GetStoreRequest{StoreId: fx.store} },
		newResp: func() proto.Message { return &openfgav1.GetStoreResponse{} }},
	{name: "UpdateStore", method: openfgav1.OpenFGAService_UpdateStore_FullMethodName, httpVerb: "PATCH",
		httpPath: func(fx *fixture) string { return "/stores/" + fx.scratch },
		newReq: func(fx *fixture, r *prng) proto.Message {
			return &openfgav1.UpdateStoreRequest{StoreId: fx.scratch, Name: "c19-renamed"}
		}, newResp: func() proto.Message { return &openfgav1.UpdateStoreResponse{} }},
	{name: "DeleteStore", method: openfgav1.OpenFGAService_DeleteStore_FullMethodName, httpVerb: "DELETE",
		httpPath: func(fx *fixture) string { return "/stores/01ARZ3NDEKTSV4RRFFQ69G5FAV" },
		newReq: func(fx *fixture, r *prng) proto.Message {
			return &openfgav1.DeleteStoreRequest{StoreId: "01ARZ3NDEKTSV4RRFFQ69G5FAV"}
		}, newResp: func() proto.Message { return &openfgav1.DeleteStoreResponse{} }},
	{name: "ListStores", method: openfgav1.OpenFGAService_ListStores_FullMethodName, httpVerb: "GET",
		httpPath: func(fx *fixture) string { return "/stores" },
		newReq: func(fx *fixture, r *prng) proto.Message {
			req := &openfgav1.ListStoresRequest{}
			if r.Bool() {
				req.PageSize = wrapperspb.Int32(int32(1 + r.Intn(3)))
			}
			if r.Chance(1, 4) {
				req.Name = "c19-base"
			}
			return req
		}, newResp: func() proto.Message { return &openfgav1.ListStoresResponse{} }},
}

func rpcByName(n string) *rpcInfo {
	for _, x := range rpcs {
		if x.name == n {
			return x
		}
	}
	return nil
}
