//go:build verif

// Driver for C31: interleaved WriteAssertions / ReadAssertions histories over 3 stores x 3
// model ids (the same model ids exist in several stores) on the real server and on the raw
// datastore interface, memory and sqlite backends.  One record per history; the oracle replays
// it on Store/Assertions.v (DIFF) and evaluates the property predicate on the observed trace
// (PROP).
package main

import (
	"encoding/json"
	"fmt"
	"os"
	"strings"

	"google.golang.org/protobuf/proto"
	"google.golang.org/protobuf/types/known/structpb"

	openfgav1 "github.com/openfga/api/proto/openfga/v1"

	"github.com/openfga/openfga/internal/validation"
	"github.com/openfga/openfga/internal/verifharness/lib/rec"
	sh "github.com/openfga/openfga/internal/verifharness/lib/storehist"
	"github.com/openfga/openfga/pkg/server"
	"github.com/openfga/openfga/pkg/storage"
	tupleUtils "github.com/openfga/openfga/pkg/tuple"
	"github.com/openfga/openfga/pkg/typesystem"
)

const root = "/tmp/c31"

var modelDSL = []string{
	`model
  schema 1.1
type user
type group
  relations
    define member: [user]
type document
  relations
    define viewer: [user, group#member, user with cond1]
    define editor: [user]
condition cond1(x: int) {
  x < 100
}`,
	`model
  schema 1.1
type user
type document
  relations
    define viewer: [user]`,
	`model
  schema 1.1
type user
type group
  relations
    define member: [user]
type folder
  relations
    define owner: [user]
type document
  relations
    define viewer: [group#member]
    define owner: [user]`,
}

var typesystems []*typesystem.TypeSystem

func init() {
	for _, d := range modelDSL {
		ts, err := typesystem.New(sh.Model(d))
		if err != nil {
			panic(err)
		}
		typesystems = append(typesystems, ts)
	}
}

// ---- assertion generator -------------------------------------------------------------------

var objects = []string{"document:1", "document:2", "folder:1", "group:eng", "document:1", "doc", "d"}
var relations = []string{"viewer", "viewer", "editor", "owner", "member", "can view"}
var users = []string{"user:anne", "user:bob", "group:eng#member", "user:*", "anne", "user:anne", "u"}

func genValue(r *rec.Rand, depth int) *structpb.Value {
	switch r.Intn(7) {
	case 0:
		return structpb.NewNullValue()
	case 1:
		return structpb.NewBoolValue(r.Bool())
	case 2:
		return structpb.NewNumberValue(float64(r.Intn(2000)-1000) / 4)
	case 3:
		return structpb.NewStringValue(rec.Pick(r, []string{"", "a", "10.0.0.1", "é|x", "2024-01-01T00:00:00Z", "x y"}))
	case 4:
		if depth > 1 {
			return structpb.NewNumberValue(float64(r.Intn(9)))
		}
		n := r.Intn(3)
		vs := make([]*structpb.Value, n)
		for i := range vs {
			vs[i] = genValue(r, depth+1)
		}
		return structpb.NewListValue(&structpb.ListValue{Values: vs})
	case 5:
		if depth > 1 {
			return structpb.NewStringValue("deep")
		}
		return structpb.NewStructValue(genStruct(r, depth+1))
	}
	return structpb.NewNumberValue(float64(r.Intn(200)))
}

func genStruct(r *rec.Rand, depth int) *structpb.Struct {
	n := r.Intn(4)
	s := &structpb.Struct{Fields: map[string]*structpb.Value{}}
	for i := 0; i < n; i++ {
		s.Fields[rec.Pick(r, []string{"x", "y", "ip", "k|1", "nested", "z"})] = genValue(r, depth)
	}
	return s
}

func genCtxTuple(r *rec.Rand) *openfgav1.TupleKey {
	tk := &openfgav1.TupleKey{Object: rec.Pick(r, objects), Relation: rec.Pick(r, relations), User: rec.Pick(r, users)}
	switch r.Intn(6) {
	case 0:
		tk.Condition = &openfgav1.RelationshipCondition{Name: "cond1", Context: genStruct(r, 0)}
	case 1:
		tk.Condition = &openfgav1.RelationshipCondition{Name: "cond1"}
	case 2:
		if r.Chance(1, 3) {
			tk.Condition = &openfgav1.RelationshipCondition{Name: "nocond", Context: genStruct(r, 0)}
		}
	}
	return tk
}

// kind: 0 ordinary, 1 huge (for the size limit), 2 no tuple key, 3 too many contextual tuples
func genAssertion(r *rec.Rand, kind int) *openfgav1.Assertion {
	a := &openfgav1.Assertion{
		TupleKey:    &openfgav1.AssertionTupleKey{Object: rec.Pick(r, objects), Relation: rec.Pick(r, relations), User: rec.Pick(r, users)},
		Expectation: r.Bool(),
	}
	if r.Chance(9, 10) {
		// bias towards assertions that most models accept
		a.TupleKey = &openfgav1.AssertionTupleKey{Object: "document:" + rec.Pick(r, []string{"1", "2", "x|y"}), Relation: "viewer", User: rec.Pick(r, []string{"user:anne", "user:bob", "user:c|d"})}
	}
	nct := 0
	if r.Chance(1, 2) {
		nct = r.Range(1, 3)
	}
	if kind == 3 {
		nct = 21
	}
	for i := 0; i < nct; i++ {
		if r.Chance(5, 6) {
			a.ContextualTuples = append(a.ContextualTuples, &openfgav1.TupleKey{Object: "document:" + rec.Pick(r, []string{"1", "2"}), Relation: "viewer", User: rec.Pick(r, []string{"user:anne", "user:bob", "user:carl"})})
		} else {
			a.ContextualTuples = append(a.ContextualTuples, genCtxTuple(r))
		}
	}
	if r.Chance(1, 2) {
		a.Context = genStruct(r, 0)
	}
	switch kind {
	case 1:
		a.Context = &structpb.Struct{Fields: map[string]*structpb.Value{"blob": structpb.NewStringValue(strings.Repeat(rec.Pick(r, []string{"a", "b"}), r.Range(31900, 32050)))}}
	case 2:
		a.TupleKey = nil
	}
	return a
}

func genAssertions(r *rec.Rand, w *rec.Writer) []*openfgav1.Assertion {
	var out []*openfgav1.Assertion
	switch p := r.Intn(60); {
	case p == 0:
		w.Stat("gen_list_101", 1)
		for i := 0; i < 101; i++ {
			out = append(out, genAssertion(r, 0))
		}
	case p == 1:
		w.Stat("gen_list_100", 1)
		for i := 0; i < 100; i++ {
			out = append(out, &openfgav1.Assertion{TupleKey: &openfgav1.AssertionTupleKey{Object: "document:1", Relation: "viewer", User: "user:anne"}})
		}
	case p == 2:
		// two assertions of about 32000 bytes each: the total straddles the 64000 byte limit
		w.Stat("gen_list_huge", 1)
		out = append(out, genAssertion(r, 1), genAssertion(r, 1))
		if r.Chance(2, 3) {
			// hit the limit exactly: total proto.Size = 64000 + delta, delta in {-1, 0, 1}
			target := 64000 + r.Intn(3) - 1
			for tries := 0; tries < 4; tries++ {
				total := proto.Size(out[0]) + proto.Size(out[1])
				if total == target {
					break
				}
				cur := out[0].GetContext().GetFields()["blob"].GetStringValue()
				n := len(cur) + target - total
				if n < 1 {
					break
				}
				out[0].Context.Fields["blob"] = structpb.NewStringValue(strings.Repeat("c", n))
			}
			w.Stat(fmt.Sprintf("gen_list_huge_total_minus_64000_%d", proto.Size(out[0])+proto.Size(out[1])-64000), 1)
		}
	case p == 3:
		w.Stat("gen_list_nokey", 1)
		out = append(out, genAssertion(r, 0), genAssertion(r, 2))
	case p == 4:
		w.Stat("gen_list_21ctx", 1)
		out = append(out, genAssertion(r, 3))
	case p <= 9:
		w.Stat("gen_list_empty", 1)
		if r.Bool() {
			out = []*openfgav1.Assertion{}
		}
	default:
		w.Stat("gen_list_ordinary", 1)
		n := r.Range(1, 4)
		for i := 0; i < n; i++ {
			out = append(out, genAssertion(r, 0))
		}
	}
	return out
}

// deriveList builds a list from the one currently stored under a pair by ONE small change, so
// that rewrites of a pair differ from what is stored in a single field only.
func deriveList(r *rec.Rand, w *rec.Writer, prev []*openfgav1.Assertion) []*openfgav1.Assertion {
	out := cloneAll(prev)
	if len(out) == 0 {
		out = []*openfgav1.Assertion{genAssertion(r, 0)}
	}
	i := r.Intn(len(out))
	a := out[i]
	plainCT := func() *openfgav1.TupleKey {
		return &openfgav1.TupleKey{Object: "document:" + rec.Pick(r, []string{"1", "2"}), Relation: "viewer", User: rec.Pick(r, []string{"user:anne", "user:bob", "user:carl", "user:dora"})}
	}
	k := r.Intn(11)
	switch k {
	case 0: // the same list again
	case 1: // only the context of one assertion
		a.Context = &structpb.Struct{Fields: map[string]*structpb.Value{"x": structpb.NewNumberValue(float64(r.Intn(1000)))}}
	case 2: // one contextual tuple more
		a.ContextualTuples = append(a.ContextualTuples, plainCT())
	case 3: // one contextual tuple less
		if n := len(a.ContextualTuples); n > 0 {
			a.ContextualTuples = a.ContextualTuples[:n-1]
		} else {
			a.ContextualTuples = append(a.ContextualTuples, plainCT())
		}
	case 4: // one contextual tuple changed
		if n := len(a.ContextualTuples); n > 0 {
			a.ContextualTuples[r.Intn(n)] = plainCT()
		} else {
			a.ContextualTuples = append(a.ContextualTuples, plainCT())
		}
	case 5: // only the condition context of a contextual tuple
		found := false
		for _, ct := range a.ContextualTuples {
			if ct.GetCondition() != nil {
				ct.Condition.Context = &structpb.Struct{Fields: map[string]*structpb.Value{"x": structpb.NewNumberValue(float64(r.Intn(90)))}}
				found = true
				break
			}
		}
		if !found {
			ct := plainCT()
			ct.Condition = &openfgav1.RelationshipCondition{Name: "cond1", Context: &structpb.Struct{Fields: map[string]*structpb.Value{"x": structpb.NewNumberValue(float64(r.Intn(90)))}}}
			a.ContextualTuples = append(a.ContextualTuples, ct)
		}
	case 6: // only the expectation
		a.Expectation = !a.Expectation
	case 7: // only the order
		if len(out) > 1 {
			j := (i + 1 + r.Intn(len(out)-1)) % len(out)
			out[i], out[j] = out[j], out[i]
		} else {
			out = append(out, genAssertion(r, 0))
			out[0], out[1] = out[1], out[0]
		}
	case 8: // one assertion twice
		out = append(out, proto.Clone(a).(*openfgav1.Assertion))
	case 9: // the same tuple key and expectation twice in ONE request, differing in the context only
		c := proto.Clone(a).(*openfgav1.Assertion)
		c.Context = &structpb.Struct{Fields: map[string]*structpb.Value{"y": structpb.NewStringValue(rec.Pick(r, []string{"p", "q", "r"}))}}
		out = append(out, c)
	default: // ... differing in the contextual tuples only
		c := proto.Clone(a).(*openfgav1.Assertion)
		c.ContextualTuples = append(c.ContextualTuples, plainCT())
		out = append(out, c)
	}
	w.Stat(fmt.Sprintf("gen_list_derived_%d", k), 1)
	return out
}

func assertionValid(ts *typesystem.TypeSystem, a *openfgav1.Assertion) bool {
	if err := validation.ValidateUserObjectRelation(ts, tupleUtils.ConvertAssertionTupleKeyToTupleKey(a.GetTupleKey())); err != nil {
		return false
	}
	for _, ct := range a.GetContextualTuples() {
		if err := validation.ValidateTupleForWrite(ts, ct); err != nil {
			return false
		}
	}
	return true
}

// recAsrts encodes the list: ( (enc size wf valid) ... ); ts == nil: validity is irrelevant (1).
func recAsrts(as []*openfgav1.Assertion, ts *typesystem.TypeSystem, w *rec.Writer) rec.V {
	vs := make([]rec.V, len(as))
	for i, a := range as {
		wf := a.Validate() == nil
		valid := true
		if ts != nil && wf {
			valid = assertionValid(ts, a)
		}
		if w != nil {
			if !wf {
				w.Stat("asrt_not_wellformed", 1)
			} else if !valid {
				w.Stat("asrt_invalid_for_model", 1)
			} else {
				w.Stat("asrt_valid", 1)
			}
			if len(a.GetContextualTuples()) > 0 {
				w.Stat("asrt_with_contextual_tuples", 1)
			}
			if a.GetContext() != nil {
				w.Stat("asrt_with_context", 1)
			}
		}
		vs[i] = rec.L(rec.B(sh.Enc(a)), rec.I(proto.Size(a)), rec.Bool(wf), rec.Bool(valid))
	}
	return rec.L(vs...)
}

func recEncs(as []*openfgav1.Assertion) rec.V {
	vs := make([]rec.V, len(as))
	for i, a := range as {
		vs[i] = rec.B(sh.Enc(a))
	}
	return rec.L(vs...)
}

func cloneAll(as []*openfgav1.Assertion) []*openfgav1.Assertion {
	if as == nil {
		return nil
	}
	out := make([]*openfgav1.Assertion, len(as))
	for i, a := range as {
		out[i] = proto.Clone(a).(*openfgav1.Assertion)
	}
	return out
}

// ---- scenarios -----------------------------------------------------------------------------

type env struct {
	kind string
	be   *sh.Backend
	srv  *server.Server
	raw  storage.OpenFGADatastore
}

type desc struct {
	Seed    uint64 `json:"seed"`
	Backend string `json:"backend"`
	Layer   string `json:"layer"`
	Ops     int    `json:"ops"`
	Fixed   string `json:"fixed,omitempty"` // "pipe_witness": the history of datastore_memory_never_written_empty_refuted
}

const (
	opAddModel = 0
	opWrite    = 1
	opRead     = 2
)

// server-level scenario
func serverScenario(w *rec.Writer, e *env, d desc) {
	r := rec.NewRand(d.Seed)
	ctx := sh.Ctx
	ids := sh.NewIDMap()
	// three stores through the API
	var stores []string
	for i := 0; i < 3; i++ {
		res, err := e.srv.CreateStore(ctx, &openfgav1.CreateStoreRequest{Name: "shared-name"})
		if err != nil {
			panic(err)
		}
		stores = append(stores, res.GetId())
		ids.Bind(res.GetId(), sh.CanonID('S', i))
	}
	// a store id that is never created, and three model ids that are shared by the stores
	ghostStore := sh.NewULID()
	ids.Bind(ghostStore, sh.CanonID('S', 9))
	var models []string
	for j := 0; j < 3; j++ {
		m := sh.NewULID()
		models = append(models, m)
		ids.Bind(m, sh.CanonID('M', j))
	}
	ghostModel := sh.NewULID()
	ids.Bind(ghostModel, sh.CanonID('M', 9))
	nextModel := 10
	// kind of the model (s, m), -1 = does not exist
	kindOf := map[[2]string]int{}
	exists := func(s, m string) (int, bool) { k, ok := kindOf[[2]string{s, m}]; return k, ok }
	storeChoices := func() string {
		switch p := r.Intn(40); {
		case p == 0:
			return ghostStore
		case p == 1:
			return rec.Pick(r, []string{"", "abc", "01ARZ3NDEKTSV4RRFFQ69G5FA|", "01arz3ndektsv4rrffq69g5fav", stores[0] + "X", "0000000000000000000000000|"})
		}
		return stores[r.Intn(3)]
	}
	modelChoices := func(s string) string {
		switch p := r.Intn(40); {
		case p == 0:
			return ghostModel
		case p == 1:
			return rec.Pick(r, []string{"", "abc", "8ZZZZZZZZZZZZZZZZZZZZZZZZZ", "01ARZ3NDEKTSV4RRFFQ69G5FA|", strings.ToLower(models[0])})
		case p == 2:
			// a model id that exists only in some store (written through the API)
			var extra []string
			for k := range kindOf {
				if k[1] != models[0] && k[1] != models[1] && k[1] != models[2] {
					extra = append(extra, k[1])
				}
			}
			if len(extra) > 0 {
				return sh.SortedStrings(extra)[r.Intn(len(extra))]
			}
		}
		return models[r.Intn(3)]
	}
	var ops []rec.V
	stored := map[[2]string][]*openfgav1.Assertion{} // last accepted list per (store, model)
	addModel := func() {
		s := stores[r.Intn(3)]
		k := r.Intn(3)
		if r.Chance(1, 4) {
			// through the API: fresh id
			res, err := e.srv.WriteAuthorizationModel(ctx, &openfgav1.WriteAuthorizationModelRequest{
				StoreId: s, SchemaVersion: "1.1", TypeDefinitions: sh.Model(modelDSL[k]).GetTypeDefinitions(), Conditions: sh.Model(modelDSL[k]).GetConditions()})
			if err != nil {
				panic(err)
			}
			ids.Bind(res.GetAuthorizationModelId(), sh.CanonID('M', nextModel))
			nextModel++
			kindOf[[2]string{s, res.GetAuthorizationModelId()}] = k
			ops = append(ops, rec.L(rec.I(opAddModel), rec.S(ids.Canon(s)), rec.S(ids.Canon(res.GetAuthorizationModelId()))))
			w.Stat("op_addmodel_api", 1)
			return
		}
		m := models[r.Intn(3)]
		if _, ok := exists(s, m); ok {
			return
		}
		if err := e.raw.WriteAuthorizationModel(ctx, s, sh.ModelWithID(modelDSL[k], m)); err != nil {
			panic(err)
		}
		kindOf[[2]string{s, m}] = k
		ops = append(ops, rec.L(rec.I(opAddModel), rec.S(ids.Canon(s)), rec.S(ids.Canon(m))))
		w.Stat("op_addmodel_shared_id", 1)
	}
	// most (store, shared model id) pairs exist from the start, the others appear mid-history
	for _, s := range stores {
		for _, m := range models {
			if r.Chance(3, 4) {
				k := r.Intn(3)
				if err := e.raw.WriteAuthorizationModel(ctx, s, sh.ModelWithID(modelDSL[k], m)); err != nil {
					panic(err)
				}
				kindOf[[2]string{s, m}] = k
				ops = append(ops, rec.L(rec.I(opAddModel), rec.S(ids.Canon(s)), rec.S(ids.Canon(m))))
				w.Stat("op_addmodel_shared_id", 1)
			}
		}
	}
	for i := 0; i < d.Ops; i++ {
		switch p := r.Intn(20); {
		case p < 1:
			addModel()
		case p < 10:
			s := storeChoices()
			m := modelChoices(s)
			var as []*openfgav1.Assertion
			if prev, ok := stored[[2]string{s, m}]; ok && r.Chance(2, 5) {
				as = deriveList(r, w, prev)
			} else {
				as = genAssertions(r, w)
			}
			var ts *typesystem.TypeSystem
			if k, ok := exists(s, m); ok {
				ts = typesystems[k]
			}
			sent := recAsrts(as, ts, w)
			_, err := e.srv.WriteAssertions(ctx, &openfgav1.WriteAssertionsRequest{StoreId: s, AuthorizationModelId: m, Assertions: cloneAll(as)})
			cls := sh.ErrClass(err)
			if err == nil {
				stored[[2]string{s, m}] = cloneAll(as)
				// most rewrites are read back at once
				if r.Chance(1, 2) {
					res, rerr := e.srv.ReadAssertions(ctx, &openfgav1.ReadAssertionsRequest{StoreId: s, AuthorizationModelId: m})
					ops = append(ops, rec.L(rec.I(opWrite), rec.S(ids.Canon(s)), rec.S(ids.Canon(m)), sent, rec.I(cls), rec.L()))
					ops = append(ops, rec.L(rec.I(opRead), rec.S(ids.Canon(s)), rec.S(ids.Canon(m)), rec.L(), rec.I(sh.ErrClass(rerr)), recEncs(res.GetAssertions())))
					w.Stat("op_read_right_after_write", 1)
					w.Stat(fmt.Sprintf("op_write_class_%d", cls), 1)
					continue
				}
			}
			ops = append(ops, rec.L(rec.I(opWrite), rec.S(ids.Canon(s)), rec.S(ids.Canon(m)), sent, rec.I(cls), rec.L()))
			w.Stat(fmt.Sprintf("op_write_class_%d", cls), 1)
		default:
			s := storeChoices()
			m := modelChoices(s)
			res, err := e.srv.ReadAssertions(ctx, &openfgav1.ReadAssertionsRequest{StoreId: s, AuthorizationModelId: m})
			cls := sh.ErrClass(err)
			if err == nil && res.GetAuthorizationModelId() != m {
				w.PropFail("ReadAssertions answered for another model id than requested", map[string]any{"desc": d, "op": i})
			}
			ops = append(ops, rec.L(rec.I(opRead), rec.S(ids.Canon(s)), rec.S(ids.Canon(m)), rec.L(), rec.I(cls), recEncs(res.GetAssertions())))
			if err == nil && len(res.GetAssertions()) > 0 {
				w.Stat("op_read_nonempty", 1)
			} else {
				w.Stat(fmt.Sprintf("op_read_class_%d", cls), 1)
			}
		}
	}
	bk := 0
	if d.Backend == "sqlite" {
		bk = 1
	}
	w.Case(d, rec.I(1), rec.I(bk), rec.L(ops...))
	w.Stat("scenario_server_"+d.Backend, 1)
}

var rawStores = []string{"a", "a|b", "s1", "", "a|b|c", "01ARZ3NDEKTSV4RRFFQ69G5FAV", "a|"}
var rawModels = []string{"c", "b|c", "m", "", "|", "01ARZ3NDEKTSV4RRFFQ69G5FAV", "b", "|c"}

// datastore-level scenario: ids are arbitrary strings (nothing validates them there)
func datastoreScenario(w *rec.Writer, e *env, d desc) {
	r := rec.NewRand(d.Seed)
	ctx := sh.Ctx
	// ids are made unique per scenario by a prefix without '|', so that scenarios sharing one
	// datastore cannot influence each other
	prefix := fmt.Sprintf("q%x.", d.Seed)
	pipes := r.Chance(1, 2)
	rawStored := map[[2]string][]*openfgav1.Assertion{}
	var ops []rec.V
	pick := func(xs []string) string {
		for {
			x := rec.Pick(r, xs)
			if pipes || !strings.Contains(x, "|") {
				return x
			}
		}
	}
	if d.Fixed == "pipe_witness" {
		// Props/C31.v datastore_memory_never_written_empty_refuted: write ("a|b","c"), read ("a","b|c")
		as := []*openfgav1.Assertion{{TupleKey: &openfgav1.AssertionTupleKey{Object: "document:1", Relation: "viewer", User: "user:anne"}, Expectation: true}}
		err := e.raw.WriteAssertions(ctx, prefix+"a|b", "c", cloneAll(as))
		ops = append(ops, rec.L(rec.I(opWrite), rec.S("a|b"), rec.S("c"), recAsrts(as, nil, nil), rec.I(sh.ErrClass(err)), rec.L()))
		got, err := e.raw.ReadAssertions(ctx, prefix+"a", "b|c")
		ops = append(ops, rec.L(rec.I(opRead), rec.S("a"), rec.S("b|c"), rec.L(), rec.I(sh.ErrClass(err)), recEncs(got)))
		pipes = true
		d.Ops = 0
		w.Stat("fixed_pipe_witness_"+d.Backend, 1)
	}
	for i := 0; i < d.Ops; i++ {
		s := pick(rawStores)
		m := pick(rawModels)
		if r.Chance(1, 2) {
			var as []*openfgav1.Assertion
			if prev, ok := rawStored[[2]string{s, m}]; ok && r.Chance(1, 2) {
				as = deriveList(r, w, prev)
			} else {
				as = genAssertions(r, w)
			}
			rawStored[[2]string{s, m}] = cloneAll(as)
			sent := recAsrts(as, nil, nil)
			err := e.raw.WriteAssertions(ctx, prefix+s, m, cloneAll(as))
			ops = append(ops, rec.L(rec.I(opWrite), rec.S(s), rec.S(m), sent, rec.I(sh.ErrClass(err)), rec.L()))
			w.Stat("op_raw_write", 1)
		} else {
			got, err := e.raw.ReadAssertions(ctx, prefix+s, m)
			ops = append(ops, rec.L(rec.I(opRead), rec.S(s), rec.S(m), rec.L(), rec.I(sh.ErrClass(err)), recEncs(got)))
			if len(got) > 0 {
				w.Stat("op_raw_read_nonempty", 1)
			} else {
				w.Stat("op_raw_read_empty", 1)
			}
		}
	}
	bk := 0
	if d.Backend == "sqlite" {
		bk = 1
	}
	if pipes {
		w.Stat("scenario_datastore_with_pipes_"+d.Backend, 1)
	} else {
		w.Stat("scenario_datastore_no_pipes_"+d.Backend, 1)
	}
	w.Case(d, rec.I(0), rec.I(bk), rec.L(ops...))
}


func main() {
	o := rec.ParseFlags()
	w := rec.NewWriter(o.Out)
	defer w.Close()
	defer sh.CleanupRoot(root)

	envs := map[string]*env{}
	get := func(kind string) *env {
		if e, ok := envs[kind]; ok {
			return e
		}
		be, err := sh.Open(kind, root)
		if err != nil {
			panic(err)
		}
		e := &env{kind: kind, be: be, raw: be.DS}
		e.srv = be.NewServer()
		envs[kind] = e
		return e
	}
	defer func() {
		for _, e := range envs {
			e.srv.Close()
			e.be.Close()
		}
	}()
	run := func(d desc) {
		e := get(d.Backend)
		if d.Layer == "server" {
			serverScenario(w, e, d)
		} else {
			datastoreScenario(w, e, d)
		}
	}
	if o.Replay != "" {
		data, err := os.ReadFile(o.Replay)
		if err != nil {
			panic(err)
		}
		for _, line := range strings.Split(string(data), "\n") {
			line = strings.TrimSpace(line)
			if line == "" || line == "null" {
				continue
			}
			var d desc
			if err := json.Unmarshal([]byte(line), &d); err != nil || d.Backend == "" {
				// a PropFail description wraps the scenario description
				var wrap struct {
					Desc desc `json:"desc"`
				}
				if err2 := json.Unmarshal([]byte(line), &wrap); err2 != nil || wrap.Desc.Backend == "" {
					continue
				}
				d = wrap.Desc
			}
			run(d)
		}
		return
	}
	r := rec.NewRand(o.Seed)
	run(desc{Seed: o.Seed, Backend: "memory", Layer: "datastore", Fixed: "pipe_witness"})
	run(desc{Seed: o.Seed, Backend: "sqlite", Layer: "datastore", Fixed: "pipe_witness"})
	for i := 0; i < o.N; i++ {
		d := desc{Seed: r.Uint64(), Ops: r.Range(20, 70)}
		d.Backend = "memory"
		if i%3 == 2 || (o.Tier == "thorough" && i%2 == 1) {
			d.Backend = "sqlite"
		}
		d.Layer = "server"
		if r.Chance(1, 4) {
			d.Layer = "datastore"
		}
		run(d)
	}
}
