//go:build verif

// Driver for C32: a real in-process server (memory datastore, AuthZEN experimental flag on).
// Every case = one store.  The driver plans AuthZEN calls (Evaluation, Evaluations with every
// semantics option and top-level / per-item fields, SubjectSearch, ResourceSearch, ActionSearch),
// derives for each the native request it should be equivalent to (the "mirror": Check,
// BatchCheck, ListUsers, ListObjects), runs the native requests (twice: before and after, to
// drop unstable ones), runs the AuthZEN calls, and writes everything canonicalised.
//
//	kind "scenario": scen.Generate scenarios (models, conditions, tuples), native request space
//	                 mirrored as AuthZEN requests; a second, older model for the model-id header.
//	kind "probe":    a purpose-built store whose decisions read the mapping back: a grid of direct
//	                 tuples over (subject type/id, relation, resource type/id), and probe objects
//	                 whose condition c_k_v is "context[k] == v" for every key k that a merge of
//	                 properties and context can produce (clashes included).
//
// Record: 1 latestModel checks lists calls relations
//
//	check  = (user rel obj ctx model direct)        direct = (0 allowed) | (1 code httpstatus)
//	list   = (0 otype oid rel ftype ctx model out)  out = (0 ((k t id r)...)) | (1 code)     ListUsers
//	       | (1 user rel type ctx model out)        out = (0 (obj...)) | (1 code)            ListObjects
//	call   = (kind stable header subj res act ctx items sem observed extra)
//	ctx    = () absent | (((k v)...)) present;  entity = () | ((type id props)), props like ctx
package main

import (
	"bufio"
	"context"
	"encoding/json"
	"fmt"
	"os"
	"regexp"
	"sort"
	"strconv"
	"strings"

	"github.com/grpc-ecosystem/grpc-gateway/v2/runtime"
	"github.com/oklog/ulid/v2"
	authzenv1 "github.com/openfga/api/proto/authzen/v1"
	openfgav1 "github.com/openfga/api/proto/openfga/v1"
	"google.golang.org/grpc/metadata"
	"google.golang.org/grpc/status"
	"google.golang.org/protobuf/types/known/structpb"

	"github.com/openfga/openfga/internal/verifharness/lib/rec"
	"github.com/openfga/openfga/internal/verifharness/lib/scen"
	"github.com/openfga/openfga/pkg/server"
	servererrors "github.com/openfga/openfga/pkg/server/errors"
	"github.com/openfga/openfga/pkg/storage"
	"github.com/openfga/openfga/pkg/storage/memory"
	"github.com/openfga/openfga/pkg/typesystem"
)

// ---------------------------------------------------------------------------------------------
// descriptions (JSON, enough to replay)

type Props struct {
	M map[string]any `json:"m"` // non-nil when present (possibly empty)
}

type Ent struct {
	T string `json:"t"`
	I string `json:"i"`
	P *Props `json:"p,omitempty"`
}

type Item struct {
	S *Ent   `json:"s,omitempty"`
	R *Ent   `json:"r,omitempty"`
	A *Ent   `json:"a,omitempty"` // action: T = name
	C *Props `json:"c,omitempty"`
}

type Call struct {
	Kind   string  `json:"kind"` // eval | evals | ssearch | rsearch | asearch
	Header *string `json:"header,omitempty"`
	Item
	Items []Item `json:"items,omitempty"`
	Sem   *int   `json:"sem,omitempty"` // nil: no options
}

type caseDesc struct {
	Kind     string         `json:"kind"`
	OlderID  string         `json:"older_id"`
	LatestID string         `json:"latest_id"`
	Scenario *scen.Scenario `json:"scenario,omitempty"`
	Grid     []scen.Tuple   `json:"grid,omitempty"` // probe: the direct tuples of the grid
	Calls    []Call         `json:"calls"`
	Text     string         `json:"text,omitempty"`
}

// ---------------------------------------------------------------------------------------------
// the driver's own derivation of the mirror request (documented mapping; checked against the
// Coq model by the oracle and against the real handlers through the server)

func mergeCtx(c, s, r, a *Props) map[string]any {
	m := map[string]any{}
	if s != nil {
		for k, v := range s.M {
			m["subject_"+k] = v
		}
	}
	if r != nil {
		for k, v := range r.M {
			m["resource_"+k] = v
		}
	}
	if a != nil {
		for k, v := range a.M {
			m["action_"+k] = v
		}
	}
	if c != nil {
		for k, v := range c.M {
			m[k] = v
		}
	}
	if len(m) == 0 {
		return nil
	}
	return m
}

func entProps(e *Ent) *Props {
	if e == nil {
		return nil
	}
	return e.P
}

var ulidRe = regexp.MustCompile(`^[ABCDEFGHJKMNPQRSTVWXYZ0-9]{26}$`)
var nameRe50 = regexp.MustCompile(`^[^:#@\s]{1,50}$`)
var idRe500 = regexp.MustCompile(`^[^:#@\s]{1,500}$`)
var idRe256 = regexp.MustCompile(`^[^:#@\s]{1,256}$`)

func modelFromHeader(h *string) string {
	if h == nil || *h == "" {
		return ""
	}
	t := strings.TrimSpace(*h)
	if ulidRe.MatchString(t) {
		return t
	}
	return ""
}

// ---------------------------------------------------------------------------------------------
// native tables

type checkKey struct{ user, rel, obj, ctx, model string }

type directOut struct {
	err     bool
	allowed bool
	code    int
	status  int
}

type checkEntry struct {
	key      checkKey
	ctx      map[string]any
	out      directOut
	unstable bool
}

type listEntry struct {
	kind     int // 0 ListUsers, 1 ListObjects
	a, b, c  string
	d        string
	ctx      map[string]any
	model    string
	key      string
	out      []string // canonical result strings, sorted
	users    [][4]string
	err      bool
	code     int
	unstable bool
}

type runner struct {
	ctx     context.Context
	w       *rec.Writer
	srv     *server.Server
	store   string
	latest  string
	checks  []*checkEntry
	checkIx map[checkKey]int
	lists   []*listEntry
	listIx  map[string]int
}

func ctxCanon(m map[string]any) string {
	if m == nil {
		return ""
	}
	ks := make([]string, 0, len(m))
	for k := range m {
		ks = append(ks, k)
	}
	sort.Strings(ks)
	var sb strings.Builder
	for _, k := range ks {
		b, _ := json.Marshal(m[k])
		sb.WriteString(k + "=" + string(b) + ";")
	}
	return sb.String()
}

func (r *runner) canonModel(m string) string {
	if m == "" {
		return r.latest
	}
	return m
}

func grpcHTTP(err error) (int, int) {
	st, ok := status.FromError(err)
	if !ok {
		return -1, 500
	}
	code := st.Code()
	if code < 17 {
		return int(code), runtime.HTTPStatusFromCode(code)
	}
	return int(code), servererrors.NewEncodedError(int32(code), st.Message()).HTTPStatus()
}

func (r *runner) nativeCheck(e *checkEntry) directOut {
	resp, err := r.srv.Check(r.ctx, &openfgav1.CheckRequest{
		StoreId:              r.store,
		AuthorizationModelId: e.key.model,
		TupleKey:             &openfgav1.CheckRequestTupleKey{User: e.key.user, Relation: e.key.rel, Object: e.key.obj},
		Context:              scen.Struct(e.ctx),
	})
	if err != nil {
		c, h := grpcHTTP(err)
		return directOut{err: true, code: c, status: h}
	}
	return directOut{allowed: resp.GetAllowed()}
}

func (r *runner) addCheck(user, rel, obj string, ctx map[string]any, model string) int {
	k := checkKey{user, rel, obj, ctxCanon(ctx), r.canonModel(model)}
	if i, ok := r.checkIx[k]; ok {
		return i
	}
	e := &checkEntry{key: k, ctx: ctx}
	e.out = r.nativeCheck(e)
	r.checks = append(r.checks, e)
	r.checkIx[k] = len(r.checks) - 1
	r.w.Stat("native_checks", 1)
	return len(r.checks) - 1
}

func (r *runner) runList(e *listEntry) ([]string, [][4]string, bool, int) {
	if e.kind == 0 {
		resp, err := r.srv.ListUsers(r.ctx, &openfgav1.ListUsersRequest{
			StoreId: r.store, AuthorizationModelId: e.model,
			Object:      &openfgav1.Object{Type: e.a, Id: e.b},
			Relation:    e.c,
			UserFilters: []*openfgav1.UserTypeFilter{{Type: e.d}},
			Context:     scen.Struct(e.ctx),
		})
		if err != nil {
			c, _ := grpcHTTP(err)
			return nil, nil, true, c
		}
		var us [][4]string
		var out []string
		for _, u := range resp.GetUsers() {
			switch {
			case u.GetObject() != nil:
				us = append(us, [4]string{"0", u.GetObject().GetType(), u.GetObject().GetId(), ""})
			case u.GetWildcard() != nil:
				us = append(us, [4]string{"1", u.GetWildcard().GetType(), "", ""})
			case u.GetUserset() != nil:
				us = append(us, [4]string{"2", u.GetUserset().GetType(), u.GetUserset().GetId(), u.GetUserset().GetRelation()})
			}
		}
		sort.Slice(us, func(i, j int) bool { return fmt.Sprint(us[i]) < fmt.Sprint(us[j]) })
		for _, u := range us {
			out = append(out, fmt.Sprint(u))
		}
		return out, us, false, 0
	}
	resp, err := r.srv.ListObjects(r.ctx, &openfgav1.ListObjectsRequest{
		StoreId: r.store, AuthorizationModelId: e.model,
		User: e.a, Relation: e.b, Type: e.c, Context: scen.Struct(e.ctx),
	})
	if err != nil {
		c, _ := grpcHTTP(err)
		return nil, nil, true, c
	}
	out := append([]string{}, resp.GetObjects()...)
	sort.Strings(out)
	return out, nil, false, 0
}

func (r *runner) addList(kind int, a, b, c, d string, ctx map[string]any, model string) int {
	model = r.canonModel(model)
	key := fmt.Sprintf("%d|%s|%s|%s|%s|%s|%s", kind, a, b, c, d, ctxCanon(ctx), model)
	if i, ok := r.listIx[key]; ok {
		return i
	}
	e := &listEntry{kind: kind, a: a, b: b, c: c, d: d, ctx: ctx, model: model, key: key}
	e.out, e.users, e.err, e.code = r.runList(e)
	r.lists = append(r.lists, e)
	r.listIx[key] = len(r.lists) - 1
	r.w.Stat([]string{"native_listusers", "native_listobjects"}[kind], 1)
	return len(r.lists) - 1
}

// ---------------------------------------------------------------------------------------------
// proto construction

func pstruct(p *Props) *structpb.Struct {
	if p == nil {
		return nil
	}
	s, err := structpb.NewStruct(p.M)
	if err != nil {
		panic(err)
	}
	return s
}

func subj(e *Ent) *authzenv1.Subject {
	if e == nil {
		return nil
	}
	return &authzenv1.Subject{Type: e.T, Id: e.I, Properties: pstruct(e.P)}
}
func reso(e *Ent) *authzenv1.Resource {
	if e == nil {
		return nil
	}
	return &authzenv1.Resource{Type: e.T, Id: e.I, Properties: pstruct(e.P)}
}
func acti(e *Ent) *authzenv1.Action {
	if e == nil {
		return nil
	}
	return &authzenv1.Action{Name: e.T, Properties: pstruct(e.P)}
}

func (r *runner) hctx(h *string) context.Context {
	if h == nil {
		return r.ctx
	}
	return metadata.NewIncomingContext(r.ctx, metadata.Pairs("openfga-authorization-model-id", *h))
}

// ---------------------------------------------------------------------------------------------
// encoding

func encProps(p *Props) rec.V {
	if p == nil {
		return rec.L()
	}
	ks := make([]string, 0, len(p.M))
	for k := range p.M {
		ks = append(ks, k)
	}
	sort.Strings(ks)
	var vs []rec.V
	for _, k := range ks {
		b, _ := json.Marshal(p.M[k])
		vs = append(vs, rec.L(rec.S(k), rec.S(string(b))))
	}
	return rec.L(rec.L(vs...))
}

func encMap(m map[string]any) rec.V {
	if m == nil {
		return rec.L()
	}
	return encProps(&Props{M: m})
}

func encEnt(e *Ent) rec.V {
	if e == nil {
		return rec.L()
	}
	return rec.L(rec.L(rec.S(e.T), rec.S(e.I), encProps(e.P)))
}

func encItem(it Item) rec.V { return rec.L(encEnt(it.S), encEnt(it.R), encEnt(it.A), encProps(it.C)) }

func encHeader(h *string) rec.V {
	if h == nil {
		return rec.L()
	}
	return rec.L(rec.S(*h))
}

func encDirect(o directOut) rec.V {
	if o.err {
		return rec.L(rec.I(1), rec.I(o.code), rec.I(o.status))
	}
	return rec.L(rec.I(0), rec.Bool(o.allowed))
}

// ---------------------------------------------------------------------------------------------
// running one call

type callResult struct {
	observed      rec.V
	extra         rec.V
	mirrors       []int // indices of native checks (or lists) this call depends on
	lists         []int
	batchUnstable bool
	top           int   // mirror of the top-level fields (eval, evals without items), -1 if none
	item          []int // evals: mirror of every item, -1 when it cannot be built / is invalid
}

func resolveItem(top Item, it Item) Item {
	out := it
	if out.S == nil {
		out.S = top.S
	}
	if out.R == nil {
		out.R = top.R
	}
	if out.A == nil {
		out.A = top.A
	}
	if out.C == nil {
		out.C = top.C
	}
	return out
}

func validEnt(e *Ent, idRe *regexp.Regexp) bool {
	return e == nil || (nameRe50.MatchString(e.T) && idRe.MatchString(e.I))
}
func validAct(e *Ent) bool { return e == nil || nameRe50.MatchString(e.T) }

// mirrorCheck registers the native Check an item stands for (-1 when it cannot be built or is
// refused by request validation).
func (r *runner) mirrorCheck(it Item, model string) int {
	if it.S == nil || it.R == nil || it.A == nil {
		return -1
	}
	if !validEnt(it.S, idRe500) || !validEnt(it.R, idRe256) || !validAct(it.A) {
		return -1
	}
	return r.addCheck(it.S.T+":"+it.S.I, it.A.T, it.R.T+":"+it.R.I, mergeCtx(it.C, entProps(it.S), entProps(it.R), entProps(it.A)), model)
}

func respV(e *authzenv1.EvaluationResponse) rec.V {
	c := e.GetContext()
	if c == nil {
		return rec.L(rec.I(0), rec.Bool(e.GetDecision()))
	}
	st := -1
	if ev, ok := c.GetFields()["error"]; ok {
		if sv, ok := ev.GetStructValue().GetFields()["status"]; ok {
			st = int(sv.GetNumberValue())
		}
	}
	if e.GetDecision() || st < 0 {
		return rec.L(rec.I(2), rec.Bool(e.GetDecision()), rec.I(st))
	}
	return rec.L(rec.I(1), rec.I(st))
}

func errV(err error) rec.V {
	c, _ := grpcHTTP(err)
	return rec.L(rec.I(1), rec.I(c))
}

func (r *runner) plan(c Call) callResult {
	// registers the mirrors (first native pass)
	var res callResult
	res.top = -1
	model := modelFromHeader(c.Header)
	switch c.Kind {
	case "eval":
		if i := r.mirrorCheck(c.Item, model); i >= 0 {
			res.mirrors = append(res.mirrors, i)
			res.top = i
		}
	case "evals":
		if len(c.Items) == 0 {
			if i := r.mirrorCheck(c.Item, model); i >= 0 {
				res.mirrors = append(res.mirrors, i)
				res.top = i
			}
		}
		for _, it := range c.Items {
			i := r.mirrorCheck(resolveItem(c.Item, it), model)
			res.item = append(res.item, i)
			if i >= 0 {
				res.mirrors = append(res.mirrors, i)
			}
		}
	case "ssearch":
		if c.S != nil && c.R != nil && c.A != nil && nameRe50.MatchString(c.S.T) && validEnt(c.R, idRe256) && validAct(c.A) {
			res.lists = append(res.lists, r.addList(0, c.R.T, c.R.I, c.A.T, c.S.T, mergeCtx(c.C, entProps(c.S), entProps(c.R), entProps(c.A)), model))
		}
	case "rsearch":
		if c.S != nil && c.R != nil && c.A != nil && nameRe50.MatchString(c.R.T) && validEnt(c.S, idRe500) && validAct(c.A) {
			res.lists = append(res.lists, r.addList(1, c.S.T+":"+c.S.I, c.A.T, c.R.T, "", mergeCtx(c.C, entProps(c.S), entProps(c.R), entProps(c.A)), model))
		}
	}
	return res
}

// ---------------------------------------------------------------------------------------------

func (r *runner) execCall(c Call, relsOf func(string) ([]string, bool)) (observed, extra rec.V, mirrors []int) {
	hc := r.hctx(c.Header)
	extra = rec.L()
	switch c.Kind {
	case "eval":
		resp, err := r.srv.Evaluation(hc, &authzenv1.EvaluationRequest{StoreId: r.store, Subject: subj(c.S), Resource: reso(c.R), Action: acti(c.A), Context: pstruct(c.C)})
		if err != nil {
			return errV(err), extra, nil
		}
		return rec.L(rec.I(0), respV(resp)), extra, nil
	case "evals":
		req := &authzenv1.EvaluationsRequest{StoreId: r.store, Subject: subj(c.S), Resource: reso(c.R), Action: acti(c.A), Context: pstruct(c.C)}
		for _, it := range c.Items {
			req.Evaluations = append(req.Evaluations, &authzenv1.EvaluationsItemRequest{Subject: subj(it.S), Resource: reso(it.R), Action: acti(it.A), Context: pstruct(it.C)})
		}
		if c.Sem != nil {
			req.Options = &authzenv1.EvaluationsOptions{EvaluationsSemantic: authzenv1.EvaluationsSemantic(*c.Sem)}
		}
		// the native BatchCheck of the mirror items (execute_all view): per-item outcome and whole error
		sem := 0
		if c.Sem != nil {
			sem = *c.Sem
		}
		if len(c.Items) > 0 && sem == 0 {
			model := modelFromHeader(c.Header)
			breq := &openfgav1.BatchCheckRequest{StoreId: r.store, AuthorizationModelId: model}
			ok := true
			for i, it := range c.Items {
				ri := resolveItem(c.Item, it)
				if ri.S == nil || ri.R == nil || ri.A == nil {
					ok = false
					break
				}
				breq.Checks = append(breq.Checks, &openfgav1.BatchCheckItem{
					TupleKey:      &openfgav1.CheckRequestTupleKey{User: ri.S.T + ":" + ri.S.I, Relation: ri.A.T, Object: ri.R.T + ":" + ri.R.I},
					Context:       scen.Struct(mergeCtx(ri.C, entProps(ri.S), entProps(ri.R), entProps(ri.A))),
					CorrelationId: strconv.Itoa(i),
				})
			}
			if ok {
				bresp, err := r.srv.BatchCheck(r.ctx, breq)
				r.w.Stat("native_batchchecks", 1)
				if err != nil {
					cd, _ := grpcHTTP(err)
					extra = rec.L(rec.I(1), rec.I(cd))
				} else {
					var vs []rec.V
					for i := range c.Items {
						res := bresp.GetResult()[strconv.Itoa(i)]
						if e := res.GetError(); e != nil {
							st := 500
							if _, isInput := e.GetCode().(*openfgav1.CheckError_InputError); isInput {
								st = servererrors.NewEncodedError(int32(e.GetInputError()), e.GetMessage()).HTTPStatus()
							}
							vs = append(vs, rec.L(rec.I(1), rec.I(st)))
						} else {
							vs = append(vs, rec.L(rec.I(0), rec.Bool(res.GetAllowed())))
						}
					}
					extra = rec.L(rec.I(0), rec.L(vs...))
				}
			}
		}
		resp, err := r.srv.Evaluations(hc, req)
		if err != nil {
			return errV(err), extra, nil
		}
		var vs []rec.V
		for _, e := range resp.GetEvaluations() {
			vs = append(vs, respV(e))
		}
		return rec.L(rec.I(0), rec.L(vs...)), extra, nil
	case "ssearch":
		req := &authzenv1.SubjectSearchRequest{StoreId: r.store, Resource: reso(c.R), Action: acti(c.A), Context: pstruct(c.C)}
		if c.S != nil {
			req.Subject = &authzenv1.SubjectFilter{Type: c.S.T, Properties: pstruct(c.S.P)}
		}
		resp, err := r.srv.SubjectSearch(hc, req)
		if err != nil {
			return errV(err), extra, nil
		}
		var out []string
		for _, s := range resp.GetResults() {
			out = append(out, s.GetType()+"\x00"+s.GetId())
		}
		sort.Strings(out)
		var vs []rec.V
		for _, s := range out {
			p := strings.SplitN(s, "\x00", 2)
			vs = append(vs, rec.L(rec.S(p[0]), rec.S(p[1])))
		}
		return rec.L(rec.I(0), rec.L(vs...)), extra, nil
	case "rsearch":
		req := &authzenv1.ResourceSearchRequest{StoreId: r.store, Subject: subj(c.S), Action: acti(c.A), Context: pstruct(c.C)}
		if c.R != nil {
			req.Resource = &authzenv1.ResourceFilter{Type: c.R.T, Properties: pstruct(c.R.P)}
		}
		resp, err := r.srv.ResourceSearch(hc, req)
		if err != nil {
			return errV(err), extra, nil
		}
		var out []string
		for _, s := range resp.GetResults() {
			out = append(out, s.GetType()+"\x00"+s.GetId())
		}
		sort.Strings(out)
		var vs []rec.V
		for _, s := range out {
			p := strings.SplitN(s, "\x00", 2)
			vs = append(vs, rec.L(rec.S(p[0]), rec.S(p[1])))
		}
		return rec.L(rec.I(0), rec.L(vs...)), extra, nil
	case "asearch":
		// mirror: one native Check per relation of the resource type (no action properties)
		model := modelFromHeader(c.Header)
		var rels []string
		known := false
		if c.R != nil {
			rels, known = relsOf(c.R.T)
		}
		var rv []rec.V
		if known && c.S != nil && validEnt(c.S, idRe500) && validEnt(c.R, idRe256) {
			for _, rel := range rels {
				i := r.addCheck(c.S.T+":"+c.S.I, rel, c.R.T+":"+c.R.I, mergeCtx(c.C, entProps(c.S), entProps(c.R), nil), model)
				mirrors = append(mirrors, i)
				rv = append(rv, rec.S(rel))
			}
		}
		k := 0
		if known {
			k = 1
		}
		extra = rec.L(rec.I(k), rec.L(rv...))
		resp, err := r.srv.ActionSearch(hc, &authzenv1.ActionSearchRequest{StoreId: r.store, Subject: subj(c.S), Resource: reso(c.R), Context: pstruct(c.C)})
		if err != nil {
			return errV(err), extra, mirrors
		}
		var vs []rec.V
		for _, a := range resp.GetResults() {
			vs = append(vs, rec.S(a.GetName()))
		}
		return rec.L(rec.I(0), rec.L(vs...)), extra, mirrors
	}
	panic("unknown call kind " + c.Kind)
}

// expectation: what the driver itself expects the call to answer, from the mirrors.  It is used
// ONLY to decide which calls get confirmation reruns (native nondeterminism); verdicts are the
// oracle's.
func directV(o directOut) rec.V {
	if o.err {
		return rec.L(rec.I(1), rec.I(o.status))
	}
	return rec.L(rec.I(0), rec.Bool(o.allowed))
}

func pairsV(ps []string) rec.V {
	sort.Strings(ps)
	var vs []rec.V
	for _, s := range ps {
		p := strings.SplitN(s, "\x00", 2)
		vs = append(vs, rec.L(rec.S(p[0]), rec.S(p[1])))
	}
	return rec.L(rec.I(0), rec.L(vs...))
}

func (r *runner) expectation(c Call, res callResult, extra rec.V, asMirrors []int, asRels []string) (rec.V, bool) {
	// calls refused by request validation have no mirror to be confirmed against
	if !validEnt(c.S, idRe500) || !validEnt(c.R, idRe256) || !validAct(c.A) {
		if c.Kind == "eval" || c.Kind == "evals" || c.Kind == "asearch" {
			return "", false
		}
	}
	for _, it := range c.Items {
		if !validEnt(it.S, idRe500) || !validEnt(it.R, idRe256) || !validAct(it.A) {
			return "", false
		}
	}
	if c.Sem != nil && (*c.Sem < 0 || *c.Sem > 2) {
		return "", false
	}
	single := func(i int) (rec.V, bool) {
		if i < 0 {
			return "", false
		}
		o := r.checks[i].out
		if o.err {
			return rec.L(rec.I(1), rec.I(o.code)), true
		}
		return rec.L(rec.I(0), rec.L(rec.I(0), rec.Bool(o.allowed))), true
	}
	switch c.Kind {
	case "eval":
		return single(res.top)
	case "evals":
		if len(c.Items) == 0 {
			v, ok := single(res.top)
			if !ok {
				return "", false
			}
			if strings.HasPrefix(string(v), "( 0") {
				return rec.L(rec.I(0), rec.L(directV(r.checks[res.top].out))), true
			}
			return v, true
		}
		sem := 0
		if c.Sem != nil {
			sem = *c.Sem
		}
		if sem == 0 {
			// execute_all: the native BatchCheck views
			s := string(extra)
			if strings.HasPrefix(s, "( 1") {
				return extra, true
			}
			if strings.HasPrefix(s, "( 0") {
				return extra, true
			}
			return "", false
		}
		if sem != 1 && sem != 2 {
			return "", false
		}
		var vs []rec.V
		for _, i := range res.item {
			if i < 0 {
				vs = append(vs, rec.L(rec.I(1), rec.I(400)))
				if sem == 1 {
					break
				}
				continue
			}
			o := r.checks[i].out
			vs = append(vs, directV(o))
			if sem == 1 && (o.err || !o.allowed) {
				break
			}
			if sem == 2 && !o.err && o.allowed {
				break
			}
		}
		return rec.L(rec.I(0), rec.L(vs...)), true
	case "ssearch", "rsearch":
		if len(res.lists) == 0 {
			return "", false
		}
		e := r.lists[res.lists[0]]
		if e.err {
			return rec.L(rec.I(1), rec.I(e.code)), true
		}
		var ps []string
		if e.kind == 0 {
			for _, u := range e.users {
				switch u[0] {
				case "0":
					ps = append(ps, u[1]+"\x00"+u[2])
				case "1":
					ps = append(ps, u[1]+"\x00*")
				}
			}
		} else {
			for _, o := range e.out {
				if t, id, ok := strings.Cut(o, ":"); ok {
					ps = append(ps, t+"\x00"+id)
				}
			}
		}
		return pairsV(ps), true
	case "asearch":
		if len(asRels) == 0 {
			return "", false
		}
		var names []string
		for j, i := range asMirrors {
			if o := r.checks[i].out; !o.err && o.allowed {
				names = append(names, asRels[j])
			}
		}
		sort.Strings(names)
		return rec.L(rec.I(0), rec.LS(names)), true
	}
	return "", false
}

// viewsAgree: do the native BatchCheck views (extra) agree with the direct native Checks?
func viewsAgree(extra string, r *runner, items []int) bool {
	toks := strings.Fields(extra)
	// ( 0 ( ( 0 b ) ( 1 st ) ... ) )
	var views []string
	for i := 3; i+1 < len(toks); i++ {
		if toks[i] == "(" {
			views = append(views, toks[i+1]+" "+toks[i+2])
		}
	}
	if len(views) != len(items) {
		return false
	}
	for j, i := range items {
		if i < 0 {
			return false
		}
		o := r.checks[i].out
		switch {
		case o.err && !strings.HasPrefix(views[j], "1 "):
			return false
		case !o.err && o.allowed && views[j] != "0 1":
			return false
		case !o.err && !o.allowed && views[j] != "0 0":
			return false
		}
	}
	return true
}

func callKindCode(k string) int {
	switch k {
	case "eval":
		return 0
	case "evals":
		return 1
	case "ssearch":
		return 2
	case "rsearch":
		return 3
	}
	return 4
}

// runCase: native pass 1 (plan), AuthZEN calls, native pass 2 (stability), record.
func (r *runner) runCase(d *caseDesc, relsOf func(string) ([]string, bool)) {
	type planned struct {
		c        Call
		res      callResult
		observed rec.V
		extra    rec.V
		asM      []int
		suspect  bool
	}
	ps := make([]*planned, len(d.Calls))
	for i, c := range d.Calls {
		ps[i] = &planned{c: c, res: r.plan(c)}
	}
	for _, p := range ps {
		var extraMirrors []int
		p.observed, p.extra, extraMirrors = r.execCall(p.c, relsOf)
		p.res.mirrors = append(p.res.mirrors, extraMirrors...)
		p.asM = extraMirrors
		r.w.Stat("calls_"+p.c.Kind, 1)
		if p.c.Kind == "evals" {
			s := "none"
			if p.c.Sem != nil {
				s = strconv.Itoa(*p.c.Sem)
			}
			if len(p.c.Items) == 0 {
				s = "noitems"
			}
			r.w.Stat("evals_sem_"+s, 1)
			r.w.Stat("evals_items", len(p.c.Items))
		}
		if p.c.Header != nil {
			r.w.Stat("calls_with_header", 1)
		}
	}
	// stability pass
	for _, e := range r.checks {
		if o := r.nativeCheck(e); o != e.out {
			e.unstable = true
			r.w.Stat("native_check_unstable", 1)
		}
	}
	for _, e := range r.lists {
		out, _, isErr, code := r.runList(e)
		if isErr != e.err || code != e.code || strings.Join(out, ",") != strings.Join(e.out, ",") {
			e.unstable = true
			r.w.Stat("native_list_unstable", 1)
		}
	}
	// confirmation reruns of the calls whose answer is not what the mirrors suggest: when a native
	// mirror (Check, ListUsers, ListObjects, BatchCheck) does not answer the same every time, the
	// native API itself is nondeterministic on this store (known for tuple cycles under an
	// exclusion, C01 findings) and the call is dropped; otherwise it goes to the oracle as it is
	for _, p := range ps {
		var asRels []string
		if p.c.Kind == "asearch" && p.c.R != nil {
			asRels, _ = relsOf(p.c.R.T)
		}
		exp, ok := r.expectation(p.c, p.res, p.extra, p.asM, asRels)
		execAll := p.c.Kind == "evals" && len(p.c.Items) > 0 && (p.c.Sem == nil || *p.c.Sem == 0)
		if !ok || (p.c.Kind == "asearch" && len(p.asM) != len(asRels)) {
			continue
		}
		suspect := string(exp) != string(p.observed)
		if execAll && strings.HasPrefix(string(p.extra), "( 0") {
			// views must also agree with the direct checks
			if !viewsAgree(string(p.extra), r, p.res.item) {
				suspect = true
			}
		}
		if !suspect {
			continue
		}
		r.w.Stat("calls_confirmed_by_reruns", 1)
		if os.Getenv("C32_DEBUG") != "" {
			fmt.Fprintf(os.Stderr, "SUSPECT %s exp=%s obs=%s\n", p.c.Kind, exp, p.observed)
		}
		authzenVaries := false
		for k := 0; k < 8; k++ {
			for _, i := range p.res.mirrors {
				e := r.checks[i]
				if o := r.nativeCheck(e); o != e.out && !e.unstable {
					e.unstable = true
					r.w.Stat("native_check_unstable", 1)
				}
			}
			for _, i := range p.res.lists {
				e := r.lists[i]
				out, _, isErr, code := r.runList(e)
				if (isErr != e.err || code != e.code || strings.Join(out, ",") != strings.Join(e.out, ",")) && !e.unstable {
					e.unstable = true
					r.w.Stat("native_list_unstable", 1)
				}
			}
			obs, extra, _ := r.execCall(p.c, relsOf)
			if string(extra) != string(p.extra) {
				p.res.batchUnstable = true
			}
			if string(obs) != string(p.observed) {
				authzenVaries = true
			}
		}
		if p.res.batchUnstable {
			r.w.Stat("native_batchcheck_unstable", 1)
		}
		if authzenVaries {
			// the handlers are sequential code over the native calls: a varying answer on identical
			// input can only come from varying native answers
			r.w.Stat("authzen_answer_varies", 1)
			p.res.batchUnstable = true
		}
		p.suspect = true
	}
	// a store on which the native API was seen to be nondeterministic taints every call whose answer
	// is not the expected one (the mirror may have been sampled on the other side of the race)
	tainted := false
	for _, e := range r.checks {
		tainted = tainted || e.unstable
	}
	for _, e := range r.lists {
		tainted = tainted || e.unstable
	}
	for _, p := range ps {
		tainted = tainted || p.res.batchUnstable
	}
	if tainted {
		r.w.Stat("cases_with_nondeterministic_native_api", 1)
		for _, p := range ps {
			if p.suspect {
				p.res.batchUnstable = true
			}
		}
	}
	var cvs, lvs, callvs []rec.V
	for _, e := range r.checks {
		cvs = append(cvs, rec.L(rec.S(e.key.user), rec.S(e.key.rel), rec.S(e.key.obj), encMap(e.ctx), rec.S(e.key.model), encDirect(e.out)))
		switch {
		case e.out.err:
			r.w.Stat("native_check_error", 1)
		case e.out.allowed:
			r.w.Stat("native_check_allowed", 1)
		default:
			r.w.Stat("native_check_denied", 1)
		}
	}
	for _, e := range r.lists {
		var out rec.V
		if e.err {
			out = rec.L(rec.I(1), rec.I(e.code))
			r.w.Stat("native_list_error", 1)
		} else if e.kind == 0 {
			var us []rec.V
			for _, u := range e.users {
				k, _ := strconv.Atoi(u[0])
				us = append(us, rec.L(rec.I(k), rec.S(u[1]), rec.S(u[2]), rec.S(u[3])))
			}
			out = rec.L(rec.I(0), rec.L(us...))
			r.w.Stat("native_list_results", len(us))
		} else {
			out = rec.L(rec.I(0), rec.LS(e.out))
			r.w.Stat("native_list_results", len(e.out))
		}
		if e.kind == 0 {
			lvs = append(lvs, rec.L(rec.I(0), rec.S(e.a), rec.S(e.b), rec.S(e.c), rec.S(e.d), encMap(e.ctx), rec.S(e.model), out))
		} else {
			lvs = append(lvs, rec.L(rec.I(1), rec.S(e.a), rec.S(e.b), rec.S(e.c), encMap(e.ctx), rec.S(e.model), out))
		}
	}
	for _, p := range ps {
		stable := !p.res.batchUnstable
		for _, i := range p.res.mirrors {
			if r.checks[i].unstable {
				stable = false
			}
		}
		for _, i := range p.res.lists {
			if r.lists[i].unstable {
				stable = false
			}
		}
		if !stable {
			r.w.Stat("calls_skipped_unstable_native", 1)
		}
		var items []rec.V
		for _, it := range p.c.Items {
			items = append(items, encItem(it))
		}
		sem := rec.L()
		if p.c.Sem != nil {
			sem = rec.L(rec.I(*p.c.Sem))
		}
		callvs = append(callvs, rec.L(rec.I(callKindCode(p.c.Kind)), rec.Bool(stable), encHeader(p.c.Header),
			encEnt(p.c.S), encEnt(p.c.R), encEnt(p.c.A), encProps(p.c.C), rec.L(items...), sem, p.observed, p.extra))
	}
	r.w.Case(d, rec.I(1), rec.S(r.latest), rec.L(cvs...), rec.L(lvs...), rec.L(callvs...))
}

// ---------------------------------------------------------------------------------------------
// generators

var propKeys = []string{"x", "subject_x", "resource_x", "action_x"}
var ctxKeys = []string{"x", "subject_x", "resource_x", "action_x", "subject_subject_x"}

func randProps(r *rec.Rand, keys []string, pPresent, pEach int) *Props {
	if !r.Chance(pPresent, 10) {
		return nil
	}
	m := map[string]any{}
	for _, k := range keys {
		if r.Chance(pEach, 10) {
			m[k] = r.Range(1, 2)
		}
	}
	return &Props{M: m}
}

func strp(s string) *string { return &s }
func intp(i int) *int       { return &i }

func randHeader(r *rec.Rand, latest, older string) *string {
	switch r.Intn(20) {
	case 0:
		return strp(latest)
	case 1, 2:
		return strp(older)
	case 3:
		return strp("  " + older + "\t ")
	case 4:
		return strp(strings.ToLower(older))
	case 5:
		return strp(older + "0")
	case 6:
		return strp("")
	case 7:
		return strp(" " + latest)
	}
	return nil
}

func splitEnt(s string) *Ent {
	t, id := scen.SplitObj(s)
	return &Ent{T: t, I: id}
}

func cloneEnt(e *Ent) *Ent {
	if e == nil {
		return nil
	}
	c := *e
	return &c
}

// makeBatches builds Evaluations calls from a pool of complete items.
func makeBatches(r *rec.Rand, pool []Item, n int, latest, older string) []Call {
	var out []Call
	if len(pool) == 0 {
		return nil
	}
	for b := 0; b < n; b++ {
		size := r.Range(1, 8)
		if r.Chance(1, 25) {
			size = r.Range(49, 53) // around maxChecksPerBatchCheck
		}
		if r.Chance(1, 12) {
			size = 0
		}
		c := Call{Kind: "evals", Header: randHeader(r, latest, older)}
		switch r.Intn(6) {
		case 0:
		case 1:
			c.Sem = intp(0)
		case 2, 3:
			c.Sem = intp(1)
		case 4:
			c.Sem = intp(2)
		default:
			if r.Chance(1, 3) {
				c.Sem = intp(7)
			} else {
				c.Sem = intp(r.Range(1, 2))
			}
		}
		// top-level defaults from one pool element
		def := rec.Pick(r, pool)
		if r.Chance(2, 3) {
			c.S = cloneEnt(def.S)
		}
		if r.Chance(1, 2) {
			c.R = cloneEnt(def.R)
		}
		if r.Chance(2, 3) {
			c.A = cloneEnt(def.A)
		}
		if r.Chance(1, 2) {
			c.C = def.C
		}
		for i := 0; i < size; i++ {
			it := rec.Pick(r, pool)
			it.S, it.R, it.A = cloneEnt(it.S), cloneEnt(it.R), cloneEnt(it.A)
			// leave out what the top level supplies (sometimes even when it differs: the item then
			// stands for another request, which is fine)
			if c.S != nil && r.Chance(1, 2) {
				it.S = nil
			}
			if c.R != nil && r.Chance(1, 2) {
				it.R = nil
			}
			if c.A != nil && r.Chance(1, 2) {
				it.A = nil
			}
			if c.C != nil && r.Chance(1, 2) {
				it.C = nil
			}
			// a field that nobody supplies
			if r.Chance(1, 40) {
				switch r.Intn(3) {
				case 0:
					if c.S == nil {
						it.S = nil
					}
				case 1:
					if c.R == nil {
						it.R = nil
					}
				default:
					if c.A == nil {
						it.A = nil
					}
				}
			}
			c.Items = append(c.Items, it)
		}
		out = append(out, c)
	}
	return out
}

func malform(r *rec.Rand, it *Item) {
	switch r.Intn(7) {
	case 0:
		it.S = &Ent{T: it.S.T, I: it.S.I + "#member"}
	case 1:
		it.S = &Ent{T: "us:er", I: it.S.I}
	case 2:
		it.R = &Ent{T: it.R.T, I: ""}
	case 3:
		it.A = &Ent{T: "vie wer"}
	case 4:
		it.S = nil
	case 5:
		it.R = nil
	default:
		it.A = nil
	}
}

// ---- scenario cases ----

func planScenario(r *rec.Rand, s *scen.Scenario, latest, older string) *caseDesc {
	d := &caseDesc{Kind: "scenario", Scenario: s, Text: s.String()}
	var users []string
	for _, u := range s.Subjects(r, 4) {
		if !strings.Contains(u, "#") {
			users = append(users, u)
		}
	}
	objects := s.Objects(users...)
	type triple struct{ o, rel, u string }
	var triples []triple
	for _, o := range objects {
		t, _ := scen.SplitObj(o)
		td := s.Type(t)
		if td == nil {
			continue
		}
		for _, rd := range td.Rels {
			for _, u := range users {
				triples = append(triples, triple{o, rd.Name, u})
			}
		}
	}
	rec.Shuffle(r, triples)
	if len(triples) > 24 {
		triples = triples[:24]
	}
	var reqCtx *Props
	if s.ReqCtx != nil {
		reqCtx = &Props{M: s.ReqCtx}
	}
	var pool []Item
	for _, t := range triples {
		it := Item{S: splitEnt(t.u), R: splitEnt(t.o), A: &Ent{T: t.rel}, C: reqCtx}
		switch r.Intn(10) {
		case 0:
			it.S.P = &Props{M: map[string]any{"dept": "eng", "x": 5}}
		case 1:
			it.R.P = &Props{M: map[string]any{"x": -3}}
			it.A.P = &Props{M: map[string]any{}}
		case 2:
			it.C = &Props{M: map[string]any{}}
		case 3:
			it.C = nil
		case 4:
			it.C = &Props{M: map[string]any{"x": rec.Pick(r, []int{1, -1})}}
			it.S.P = &Props{M: map[string]any{"x": 1}}
		}
		pool = append(pool, it)
		c := Call{Kind: "eval", Header: randHeader(r, latest, older), Item: it}
		if r.Chance(1, 20) {
			malform(r, &c.Item)
		}
		d.Calls = append(d.Calls, c)
	}
	d.Calls = append(d.Calls, makeBatches(r, pool, r.Range(3, 5), latest, older)...)
	// a batch with a malformed item
	if len(pool) > 1 && r.Chance(1, 4) {
		c := Call{Kind: "evals", Sem: intp(r.Intn(3)), Items: []Item{pool[0], pool[1]}}
		malform(r, &c.Items[r.Intn(2)])
		d.Calls = append(d.Calls, c)
	}
	// searches
	var typeNames []string
	for _, td := range s.Types {
		typeNames = append(typeNames, td.Name)
	}
	for i := 0; i < 4 && len(triples) > 0; i++ {
		t := rec.Pick(r, triples)
		ft := rec.Pick(r, typeNames)
		if r.Chance(1, 2) {
			ft = "user"
		}
		c := Call{Kind: "ssearch", Header: randHeader(r, latest, older), Item: Item{S: &Ent{T: ft}, R: splitEnt(t.o), A: &Ent{T: t.rel}, C: reqCtx}}
		if r.Chance(1, 6) {
			c.S.P = &Props{M: map[string]any{"x": 1}}
		}
		d.Calls = append(d.Calls, c)
		t = rec.Pick(r, triples)
		ot, _ := scen.SplitObj(t.o)
		c2 := Call{Kind: "rsearch", Header: randHeader(r, latest, older), Item: Item{S: splitEnt(t.u), R: &Ent{T: ot}, A: &Ent{T: t.rel}, C: reqCtx}}
		if r.Chance(1, 6) {
			c2.R.P = &Props{M: map[string]any{"x": 1}}
		}
		d.Calls = append(d.Calls, c2)
	}
	for i := 0; i < 2 && len(triples) > 0; i++ {
		t := rec.Pick(r, triples)
		c := Call{Kind: "asearch", Item: Item{S: splitEnt(t.u), R: splitEnt(t.o), C: reqCtx}}
		if r.Chance(1, 8) {
			c.R = &Ent{T: "user", I: "a"}
		}
		if r.Chance(1, 10) {
			c.R = &Ent{T: "ghosttype", I: "1"}
		}
		d.Calls = append(d.Calls, c)
	}
	return d
}

// ---- probe cases ----

var mergedKeys = func() []string {
	set := map[string]bool{}
	for _, k := range ctxKeys {
		set[k] = true
	}
	for _, p := range []string{"subject_", "resource_", "action_"} {
		for _, k := range propKeys {
			set[p+k] = true
		}
	}
	var out []string
	for k := range set {
		out = append(out, k)
	}
	sort.Strings(out)
	return out
}()

func probeScenario(grid []scen.Tuple) *scen.Scenario {
	s := &scen.Scenario{Shape: "probe"}
	both := []scen.Restr{scen.RObj("ta"), scen.RObj("tb")}
	s.Types = []scen.TypeDef{
		{Name: "ta", Rels: []scen.RelDef{{Name: "ra", RW: scen.This(), Restr: both}, {Name: "rb", RW: scen.This(), Restr: both}}},
		{Name: "tb", Rels: []scen.RelDef{{Name: "ra", RW: scen.This(), Restr: both}, {Name: "rb", RW: scen.This(), Restr: both}}},
	}
	var restr []scen.Restr
	for _, k := range mergedKeys {
		for v := 1; v <= 2; v++ {
			restr = append(restr, scen.RObj("ta").With(fmt.Sprintf("c_%s_%d", k, v)))
		}
	}
	s.Types = append(s.Types, scen.TypeDef{Name: "probe", Rels: []scen.RelDef{{Name: "r", RW: scen.This(), Restr: restr}}})
	s.Tuples = append(s.Tuples, grid...)
	for _, k := range mergedKeys {
		for v := 1; v <= 2; v++ {
			s.Tuples = append(s.Tuples, scen.Tuple{Obj: fmt.Sprintf("probe:%s-%d", k, v), Rel: "r", User: "ta:ia", Cond: fmt.Sprintf("c_%s_%d", k, v)})
		}
	}
	return s
}

// probeModel: the protobuf model of the probe store (conditions c_k_v(k: int) { k == v }).
func probeModel(s *scen.Scenario) *openfgav1.AuthorizationModel {
	m := s.ModelProto()
	m.Conditions = map[string]*openfgav1.Condition{}
	for _, k := range mergedKeys {
		for v := 1; v <= 2; v++ {
			name := fmt.Sprintf("c_%s_%d", k, v)
			m.Conditions[name] = &openfgav1.Condition{
				Name:       name,
				Expression: fmt.Sprintf("%s == %d", k, v),
				Parameters: map[string]*openfgav1.ConditionParamTypeRef{k: {TypeName: openfgav1.ConditionParamTypeRef_TYPE_NAME_INT}},
			}
		}
	}
	return m
}

func planProbe(r *rec.Rand, latest, older string) *caseDesc {
	d := &caseDesc{Kind: "probe"}
	types := []string{"ta", "tb"}
	ids := []string{"ia", "ib"}
	rels := []string{"ra", "rb"}
	for _, ot := range types {
		for _, oi := range ids {
			for _, rel := range rels {
				for _, ut := range types {
					for _, ui := range ids {
						if r.Bool() {
							d.Grid = append(d.Grid, scen.Tuple{Obj: ot + ":" + oi, Rel: rel, User: ut + ":" + ui})
						}
					}
				}
			}
		}
	}
	var pool []Item
	mkGrid := func() Item {
		it := Item{S: &Ent{T: rec.Pick(r, types), I: rec.Pick(r, ids)}, R: &Ent{T: rec.Pick(r, types), I: rec.Pick(r, ids)}, A: &Ent{T: rec.Pick(r, rels)}}
		it.S.P = randProps(r, propKeys, 2, 5)
		it.C = randProps(r, ctxKeys, 2, 5)
		return it
	}
	mkMerge := func() Item {
		it := Item{S: &Ent{T: "ta", I: "ia"}, A: &Ent{T: "r"}}
		it.S.P = randProps(r, propKeys, 7, 5)
		rp := randProps(r, propKeys, 6, 5)
		it.A.P = randProps(r, propKeys, 6, 5)
		it.C = randProps(r, ctxKeys, 7, 5)
		m := mergeCtx(it.C, it.S.P, rp, it.A.P)
		// probe a key: mostly one that some source defines, with either value
		k := rec.Pick(r, mergedKeys)
		if len(m) > 0 && r.Chance(4, 5) {
			var ks []string
			for kk := range m {
				ks = append(ks, kk)
			}
			sort.Strings(ks)
			k = rec.Pick(r, ks)
		}
		it.R = &Ent{T: "probe", I: fmt.Sprintf("%s-%d", k, r.Range(1, 2)), P: rp}
		return it
	}
	for i := 0; i < 10; i++ {
		it := mkGrid()
		pool = append(pool, it)
		d.Calls = append(d.Calls, Call{Kind: "eval", Header: randHeader(r, latest, older), Item: it})
	}
	for i := 0; i < 22; i++ {
		it := mkMerge()
		pool = append(pool, it)
		d.Calls = append(d.Calls, Call{Kind: "eval", Header: randHeader(r, latest, older), Item: it})
	}
	d.Calls = append(d.Calls, makeBatches(r, pool, r.Range(4, 7), latest, older)...)
	for i := 0; i < 4; i++ {
		it := mkMerge()
		// subject filter with properties: the prefix is subject_ as for a subject
		d.Calls = append(d.Calls, Call{Kind: "ssearch", Header: randHeader(r, latest, older),
			Item: Item{S: &Ent{T: rec.Pick(r, []string{"ta", "ta", "tb"}), P: it.S.P}, R: it.R, A: it.A, C: it.C}})
		it2 := mkMerge()
		d.Calls = append(d.Calls, Call{Kind: "rsearch", Header: randHeader(r, latest, older),
			Item: Item{S: it2.S, R: &Ent{T: "probe", P: it2.R.P}, A: it2.A, C: it2.C}})
		g := mkGrid()
		d.Calls = append(d.Calls, Call{Kind: "ssearch", Item: Item{S: &Ent{T: g.S.T, P: g.S.P}, R: g.R, A: g.A, C: g.C}})
		d.Calls = append(d.Calls, Call{Kind: "rsearch", Item: Item{S: g.S, R: &Ent{T: g.R.T}, A: g.A, C: g.C}})
	}
	for i := 0; i < 3; i++ {
		it := mkMerge()
		d.Calls = append(d.Calls, Call{Kind: "asearch", Item: Item{S: it.S, R: it.R, C: it.C}})
		g := mkGrid()
		d.Calls = append(d.Calls, Call{Kind: "asearch", Item: Item{S: g.S, R: g.R, C: g.C}})
	}
	return d
}

// ---------------------------------------------------------------------------------------------

type harness struct {
	ctx context.Context
	w   *rec.Writer
	ds  storage.OpenFGADatastore
	srv *server.Server
}

// olderModel: same type names, no relations.
func olderModel(s *scen.Scenario) *openfgav1.AuthorizationModel {
	m := &openfgav1.AuthorizationModel{SchemaVersion: "1.1"}
	for _, td := range s.Types {
		m.TypeDefinitions = append(m.TypeDefinitions, &openfgav1.TypeDefinition{Type: td.Name})
	}
	return m
}

// setup creates the store with an older model and the latest model; returns ids.
func (h *harness) setup(s *scen.Scenario, latest *openfgav1.AuthorizationModel, olderID, latestID string) (string, bool) {
	latest.Id = latestID
	if _, err := typesystem.NewAndValidate(h.ctx, latest); err != nil {
		return "", false
	}
	storeID := ulid.Make().String()
	if _, err := h.ds.CreateStore(h.ctx, &openfgav1.Store{Id: storeID, Name: "verif"}); err != nil {
		panic(err)
	}
	om := olderModel(s)
	om.Id = olderID
	if err := h.ds.WriteAuthorizationModel(h.ctx, storeID, om); err != nil {
		panic(err)
	}
	if err := h.ds.WriteAuthorizationModel(h.ctx, storeID, latest); err != nil {
		panic(err)
	}
	env := &scen.Env{S: s, DS: h.ds, StoreID: storeID, Model: latest}
	if err := env.WriteTuples(h.ctx, s.Tuples); err != nil {
		panic(err)
	}
	return storeID, true
}

func (h *harness) run(d *caseDesc) {
	olderID, latestID := d.OlderID, d.LatestID
	var s *scen.Scenario
	var m *openfgav1.AuthorizationModel
	if d.Kind == "probe" {
		s = probeScenario(d.Grid)
		m = probeModel(s)
	} else {
		s = d.Scenario
		m = s.ModelProto()
	}
	storeID, ok := h.setup(s, m, olderID, latestID)
	if !ok {
		h.w.Stat("models_rejected", 1)
		return
	}
	h.w.Stat("cases_"+d.Kind, 1)
	if d.Kind == "scenario" {
		h.w.Stat("shape_"+s.Shape, 1)
	}
	r := &runner{ctx: h.ctx, w: h.w, srv: h.srv, store: storeID, latest: latestID,
		checkIx: map[checkKey]int{}, listIx: map[string]int{}}
	relsOf := func(t string) ([]string, bool) {
		td := s.Type(t)
		if td == nil {
			return nil, false
		}
		var out []string
		for _, rd := range td.Rels {
			out = append(out, rd.Name)
		}
		return out, true
	}
	r.runCase(d, relsOf)
}

// ids are part of the plan (headers mention them): derive them from the PRNG so that a replay
// reproduces the same strings
func planIDs(r *rec.Rand) (string, string) {
	mk := func() string {
		const alphabet = "0123456789ABCDEFGHJKMNPQRSTVWXYZ"
		b := []byte("01")
		for len(b) < 26 {
			b = append(b, alphabet[r.Intn(len(alphabet))])
		}
		return string(b)
	}
	older := mk()
	latest := mk()
	return older, latest
}

func main() {
	o := rec.ParseFlags()
	w := rec.NewWriter(o.Out)
	defer w.Close()
	ctx := context.Background()
	ds := memory.New()
	srv := server.MustNewServerWithOpts(server.WithDatastore(ds), server.WithExperimentals("authzen"))
	defer srv.Close()
	h := &harness{ctx: ctx, w: w, ds: ds, srv: srv}
	if o.Replay != "" {
		f, err := os.Open(o.Replay)
		if err != nil {
			panic(err)
		}
		defer f.Close()
		sc := bufio.NewScanner(f)
		sc.Buffer(make([]byte, 1<<20), 1<<26)
		for sc.Scan() {
			var d caseDesc
			if json.Unmarshal(sc.Bytes(), &d) != nil || d.Kind == "" {
				continue
			}
			h.run(&d)
		}
		return
	}
	r := rec.NewRand(o.Seed)
	for i := 0; i < o.N; i++ {
		rr := r.Fork()
		older, latest := planIDs(rr)
		var d *caseDesc
		if rr.Chance(1, 4) {
			d = planProbe(rr, latest, older)
		} else {
			s := scen.Generate(rr, scen.DefaultOpts())
			d = planScenario(rr, s, latest, older)
		}
		d.OlderID, d.LatestID = older, latest
		h.run(d)
	}
}
