//go:build verif

// Driver for C27: runs the real PresharedKeyAuthenticator and RemoteOidcAuthenticator (through
// the authn middleware's AuthFunc and directly) on generated authorization headers and on real
// signed JWTs verified against a JWKS served from a loopback httptest server, and writes the
// inputs (configuration, header values, the structure the token was built from) together with
// the observed outcome class and principal as records for the Coq oracle (Sec/Authn.v).
package main

import (
	"bufio"
	"context"
	"crypto/ecdsa"
	"crypto/elliptic"
	"crypto/rand"
	"crypto/rsa"
	"crypto/sha256"
	"encoding/base64"
	"encoding/hex"
	"encoding/json"
	"fmt"
	"math/big"
	"net/http"
	"net/http/httptest"
	"os"
	"sort"
	"strconv"
	"strings"
	"time"

	jwt "github.com/golang-jwt/jwt/v5"
	"google.golang.org/grpc/codes"
	"google.golang.org/grpc/metadata"
	"google.golang.org/grpc/status"

	openfgav1 "github.com/openfga/api/proto/openfga/v1"

	"github.com/openfga/openfga/internal/authn"
	"github.com/openfga/openfga/internal/authn/oidc"
	"github.com/openfga/openfga/internal/authn/presharedkey"
	mw "github.com/openfga/openfga/internal/middleware/authn"
	"github.com/openfga/openfga/internal/verifharness/lib/rec"
	"github.com/openfga/openfga/pkg/authclaims"
)

// ---------------------------------------------------------------------------------------
// authorization header variants

type hdrSpec struct {
	Variant int    `json:"v"`
	Other   string `json:"o,omitempty"` // hex: a second token used by the two-header variants
}

const nHdrVariants = 23

// headerValues returns the metadata to attach and the values the authorization key resolves to.
func headerValues(h hdrSpec, tok string) (metadata.MD, []string) {
	other, _ := hex.DecodeString(h.Other)
	key := "authorization"
	var vals []string
	switch h.Variant {
	case 0:
		vals = []string{"Bearer " + tok}
	case 1:
		vals = []string{"bearer " + tok}
	case 2:
		vals = []string{"BEARER " + tok}
	case 3:
		vals = []string{"bEaReR " + tok}
	case 4:
		vals = []string{"Bearer" + tok}
	case 5:
		vals = []string{"Bearer  " + tok}
	case 6:
		vals = []string{"Bearer " + tok + " "}
	case 7:
		vals = []string{" Bearer " + tok}
	case 8:
		vals = []string{"Basic " + tok}
	case 9:
		vals = []string{"Bearer: " + tok}
	case 10:
		vals = []string{"Bearer\t" + tok}
	case 11:
		return metadata.MD{}, nil
	case 12:
		vals = []string{""}
	case 13:
		vals = []string{"Bearer " + tok, "Bearer " + string(other)}
	case 14:
		vals = []string{"Bearer " + string(other), "Bearer " + tok}
	case 15:
		vals = []string{"Beaʀer " + tok}
	case 16:
		vals = []string{"Ｂearer " + tok}
	case 17:
		key = "AUTHORIZATION"
		vals = []string{"Bearer " + tok}
	case 18:
		return metadata.MD{"x-authorization": []string{"Bearer " + tok}}, nil
	case 19:
		vals = []string{"Bearers " + tok}
	case 20:
		vals = []string{"Beare " + tok}
	case 21:
		vals = []string{tok}
	case 22:
		vals = []string{"Beäer " + tok} // six bytes like "Bearer", one of them a two-byte rune
	}
	return metadata.MD{key: vals}, vals
}

func pickHdr(r *rec.Rand, others []string) hdrSpec {
	h := hdrSpec{}
	if r.Chance(2, 3) {
		h.Variant = r.Intn(4) // accepted spellings of the scheme
	} else {
		h.Variant = r.Intn(nHdrVariants)
	}
	if h.Variant == 13 || h.Variant == 14 {
		h.Other = hex.EncodeToString([]byte(rec.Pick(r, others)))
	}
	return h
}

// ---------------------------------------------------------------------------------------
// outcome classes

const (
	clsAccept  = 0
	clsMissing = 1
	clsReject  = 2 // unauthenticated (pre-shared) / invalid claims (OIDC)
	clsCtor    = 7 // the constructor refused the configuration
	clsOther   = 9
)

func classify(err error, rejectCode openfgav1.AuthErrorCode) int {
	if err == nil {
		return clsAccept
	}
	switch status.Code(err) {
	case codes.Code(openfgav1.AuthErrorCode_bearer_token_missing):
		return clsMissing
	case codes.Code(rejectCode):
		return clsReject
	}
	return clsOther
}

type observed struct {
	class    int
	subject  string
	clientID string
	scopes   []string
}

// authenticate runs the middleware's AuthFunc and the authenticator itself and checks that the
// middleware passes the result through unchanged.
func authenticate(w *rec.Writer, a authn.Authenticator, md metadata.MD, rejectCode openfgav1.AuthErrorCode, desc any) observed {
	ctx := metadata.NewIncomingContext(context.Background(), md)
	claims, err := a.Authenticate(ctx)
	o := observed{class: classify(err, rejectCode)}
	if err == nil {
		if claims == nil {
			o.class = clsOther
		} else {
			o.subject, o.clientID = claims.Subject, claims.ClientID
			for s := range claims.Scopes {
				o.scopes = append(o.scopes, s)
			}
			sort.Strings(o.scopes)
		}
	} else if claims != nil {
		w.PropFail("Authenticate returned claims together with an error", desc)
	}
	ctx2, err2 := mw.AuthFunc(a)(metadata.NewIncomingContext(context.Background(), md))
	if classify(err2, rejectCode) != classify(err, rejectCode) {
		w.PropFail("middleware AuthFunc and Authenticate disagree", desc)
	}
	if err2 == nil {
		c2, ok := authclaims.AuthClaimsFromContext(ctx2)
		if !ok || c2 == nil || claims == nil || c2.Subject != claims.Subject || c2.ClientID != claims.ClientID || len(c2.Scopes) != len(claims.Scopes) {
			w.PropFail("middleware AuthFunc did not put the authenticator's claims into the context", desc)
		}
	} else if ctx2 != nil {
		w.PropFail("middleware AuthFunc returned a context together with an error", desc)
	}
	return o
}

// ---------------------------------------------------------------------------------------
// pre-shared keys

type pskCase struct {
	Kind string   `json:"kind"`
	Keys []string `json:"keys"` // hex
	Tok  string   `json:"tok"`  // hex
	Hdr  hdrSpec  `json:"hdr"`
}

func hexAll(ss []string) []string {
	out := make([]string, len(ss))
	for i, s := range ss {
		out[i] = hex.EncodeToString([]byte(s))
	}
	return out
}

func unhexAll(ss []string) []string {
	out := make([]string, len(ss))
	for i, s := range ss {
		b, _ := hex.DecodeString(s)
		out[i] = string(b)
	}
	return out
}

func runPsk(w *rec.Writer, c pskCase) {
	keys := unhexAll(c.Keys)
	tokb, _ := hex.DecodeString(c.Tok)
	tok := string(tokb)
	md, vals := headerValues(c.Hdr, tok)
	digests := make([]rec.V, len(keys))
	for i, k := range keys {
		d := sha256.Sum256([]byte(k))
		digests[i] = rec.B(d[:])
	}
	a, err := presharedkey.NewPresharedKeyAuthenticator(keys)
	o := observed{class: clsCtor}
	if err == nil {
		o = authenticate(w, a, md, openfgav1.AuthErrorCode_unauthenticated, c)
		a.Close()
		if o.class == clsAccept && (o.subject != "" || o.clientID != "" || len(o.scopes) != 0) {
			o.class = clsOther
		}
	}
	w.Case(c, rec.I(1), rec.LS(keys), rec.LS(vals), rec.L(digests...), rec.I(o.class))
	w.Stat("psk.cases", 1)
	w.Stat(fmt.Sprintf("psk.class.%d", o.class), 1)
	w.Stat(fmt.Sprintf("psk.hdr.%02d", c.Hdr.Variant), 1)
}

var pskKeyLists = [][]string{
	{"key1"},
	{"key1", "key2"},
	{"key1", "key2", "key1"},
	{"Key1", "key1 ", " key1"},
	{""},
	{"", "k"},
	{"s3crét", "密钥", "secret"},
	{"a b", "a", "b"},
	{"0123456789abcdef0123456789abcdef0123456789abcdef0123456789abcdef", "0123456789abcdef0123456789abcdef0123456789abcdef0123456789abcdeF"},
	{"\xff\xfe", "\x00", "k\x00"},
	{},
}

func pskTokenVariants(keys []string) []string {
	out := []string{"", "not-a-key", "Bearer", "Bearer key1", " "}
	for _, k := range keys {
		out = append(out, k, k+"x", k+" ", " "+k, strings.ToUpper(k), strings.ToLower(k), k+k)
		if len(k) > 0 {
			out = append(out, k[:len(k)-1], k[1:])
			b := []byte(k)
			b[len(b)-1] ^= 1
			out = append(out, string(b))
		}
	}
	return out
}

func genPsk(w *rec.Writer, r *rec.Rand, n int, exhaustive bool) {
	if exhaustive {
		for _, keys := range pskKeyLists {
			for _, tok := range pskTokenVariants(keys) {
				for v := 0; v < nHdrVariants; v++ {
					h := hdrSpec{Variant: v}
					if v == 13 || v == 14 {
						h.Other = hex.EncodeToString([]byte("not-a-key"))
						if len(keys) > 0 && v == 14 {
							h.Other = hex.EncodeToString([]byte(keys[0]))
						}
					}
					runPsk(w, pskCase{Kind: "psk", Keys: hexAll(keys), Tok: hex.EncodeToString([]byte(tok)), Hdr: h})
				}
			}
		}
	}
	alphabet := []string{"a", "b", "K", "k", " ", "1", "é", "\x00", "\xff", "-", "."}
	word := func() string {
		var sb strings.Builder
		for i, m := 0, r.Intn(6); i < m; i++ {
			sb.WriteString(rec.Pick(r, alphabet))
		}
		return sb.String()
	}
	for i := 0; i < n; i++ {
		nk := r.Range(1, 5)
		if r.Chance(1, 40) {
			nk = 0
		}
		keys := make([]string, nk)
		for j := range keys {
			keys[j] = word()
			if j > 0 && r.Chance(1, 5) {
				keys[j] = keys[r.Intn(j)]
			}
		}
		var tok string
		if nk > 0 && r.Chance(1, 2) {
			tok = rec.Pick(r, keys)
		} else if nk > 0 && r.Chance(1, 2) {
			tok = rec.Pick(r, pskTokenVariants(keys))
		} else {
			tok = word()
		}
		others := append([]string{"zz"}, keys...)
		runPsk(w, pskCase{Kind: "psk", Keys: hexAll(keys), Tok: hex.EncodeToString([]byte(tok)), Hdr: pickHdr(r, others)})
	}
}

// ---------------------------------------------------------------------------------------
// OIDC: key material and the loopback issuer

type issuerEnv struct {
	srv     *httptest.Server
	k       [4]*rsa.PrivateKey // 1..3 are in the JWKS (kid-1 alg RS256, kid-2 no alg, kid-3 alg RS512); 0 is not
	ec      *ecdsa.PrivateKey
	auths   map[string]*oidc.RemoteOidcAuthenticator
	ctorErr map[string]bool
}

var jwkAlg = map[int]string{1: "RS256", 2: "", 3: "RS512"}

func newIssuerEnv() *issuerEnv {
	e := &issuerEnv{auths: map[string]*oidc.RemoteOidcAuthenticator{}, ctorErr: map[string]bool{}}
	for i := range e.k {
		k, err := rsa.GenerateKey(rand.Reader, 2048)
		if err != nil {
			panic(err)
		}
		e.k[i] = k
	}
	ec, err := ecdsa.GenerateKey(elliptic.P256(), rand.Reader)
	if err != nil {
		panic(err)
	}
	e.ec = ec
	mux := http.NewServeMux()
	mux.HandleFunc("/jwks", func(w http.ResponseWriter, _ *http.Request) {
		var keys []map[string]string
		for i := 1; i <= 3; i++ {
			pub := &e.k[i].PublicKey
			j := map[string]string{
				"kty": "RSA", "use": "sig", "kid": fmt.Sprintf("kid-%d", i),
				"n": base64.RawURLEncoding.EncodeToString(pub.N.Bytes()),
				"e": base64.RawURLEncoding.EncodeToString(big.NewInt(int64(pub.E)).Bytes()),
			}
			if jwkAlg[i] != "" {
				j["alg"] = jwkAlg[i]
			}
			keys = append(keys, j)
		}
		w.Header().Set("Content-Type", "application/json")
		_ = json.NewEncoder(w).Encode(map[string]any{"keys": keys})
	})
	mux.HandleFunc("/", func(w http.ResponseWriter, q *http.Request) {
		if !strings.HasSuffix(q.URL.Path, "/.well-known/openid-configuration") {
			http.NotFound(w, q)
			return
		}
		w.Header().Set("Content-Type", "application/json")
		_ = json.NewEncoder(w).Encode(map[string]string{"issuer": e.srv.URL, "jwks_uri": e.srv.URL + "/jwks"})
	})
	e.srv = httptest.NewServer(mux)
	return e
}

func (e *issuerEnv) close() {
	for _, a := range e.auths {
		a.Close()
	}
	e.srv.Close()
}

type cfgSpec struct {
	MainSuffix string   `json:"main"`    // appended to the loopback URL; "-" means the empty issuer
	Aliases    []string `json:"aliases"` // hex
	Audience   string   `json:"aud"`     // hex
	Subjects   []string `json:"subjects"`
	CIC        []string `json:"cic"`
}

func (e *issuerEnv) mainIssuer(c cfgSpec) string {
	if c.MainSuffix == "-" {
		return ""
	}
	return e.srv.URL + c.MainSuffix
}

func (e *issuerEnv) authenticator(c cfgSpec) *oidc.RemoteOidcAuthenticator {
	kb, _ := json.Marshal(c)
	key := string(kb)
	if a, ok := e.auths[key]; ok {
		return a
	}
	if e.ctorErr[key] {
		return nil
	}
	aud, _ := hex.DecodeString(c.Audience)
	a, err := oidc.NewRemoteOidcAuthenticator(e.mainIssuer(c), unhexAll(c.Aliases), string(aud), unhexAll(c.Subjects), unhexAll(c.CIC))
	if err != nil {
		e.ctorErr[key] = true
		return nil
	}
	e.auths[key] = a
	return a
}

// ---------------------------------------------------------------------------------------
// OIDC: token specifications

// jvSpec is one JSON claim value.
//
//	T: "m"/"mu"/"ml"/"mt" the main issuer (as is / upper-cased / in a list / trailing slash toggled) |
//	   "s" string S | "n" number N | "r" number now+N | "l" array of strings L |
//	   "b" array with a non-string element (L then a number) | "null" | "bool" | "obj"
type jvSpec struct {
	T string   `json:"t"`
	S string   `json:"s,omitempty"`
	N int64    `json:"n,omitempty"`
	L []string `json:"l,omitempty"`
}

type claimSpec struct {
	K string `json:"k"`
	V jvSpec `json:"v"`
}

type tokSpec struct {
	Malformed int         `json:"mal,omitempty"`
	AlgKind   int         `json:"algk,omitempty"` // 0 string Alg, 1 missing, 2 number
	Alg       string      `json:"alg"`
	Kid       int         `json:"kid"`    // 0 absent, 1..3 JWKS keys, 4 unknown, 5 a number
	Signer    int         `json:"signer"` // 0 the kid's key, 1 another JWKS key, 2 a key outside the JWKS, 3 signature bit flipped, 4 payload replaced after signing, 5 empty signature, 6 signed with RS384 under an RS256 header
	Claims    []claimSpec `json:"claims"`
}

var registeredAlgs = map[string]bool{
	"RS256": true, "RS384": true, "RS512": true, "PS256": true, "PS384": true, "PS512": true,
	"HS256": true, "HS384": true, "HS512": true, "ES256": true, "ES384": true, "ES512": true,
	"EdDSA": true, "none": true,
}

func b64(b []byte) string { return base64.RawURLEncoding.EncodeToString(b) }

func (v jvSpec) render(now int64, main string) (string, rec.V) {
	switch v.T {
	case "m": // the main issuer of the configuration (the loopback URL changes from run to run)
		return jvSpec{T: "s", S: main}.render(now, main)
	case "mu":
		return jvSpec{T: "s", S: strings.ToUpper(main)}.render(now, main)
	case "ml":
		return jvSpec{T: "l", L: []string{main}}.render(now, main)
	case "mt": // trailing slash toggled
		if strings.HasSuffix(main, "/") {
			return jvSpec{T: "s", S: strings.TrimSuffix(main, "/")}.render(now, main)
		}
		return jvSpec{T: "s", S: main + "/"}.render(now, main)
	case "s":
		j, _ := json.Marshal(v.S)
		return string(j), rec.L(rec.I(1), rec.S(v.S))
	case "n":
		return strconv.FormatInt(v.N, 10), rec.L(rec.I(2), rec.I64(v.N))
	case "r":
		return strconv.FormatInt(now+v.N, 10), rec.L(rec.I(2), rec.I64(now+v.N))
	case "l":
		l := v.L
		if l == nil {
			l = []string{}
		}
		j, _ := json.Marshal(l)
		return string(j), rec.L(rec.I(3), rec.LS(l))
	case "b":
		parts := []string{}
		for _, s := range v.L {
			j, _ := json.Marshal(s)
			parts = append(parts, string(j))
		}
		parts = append(parts, "5")
		return "[" + strings.Join(parts, ",") + "]", rec.L(rec.I(4))
	case "bool":
		return "true", rec.L(rec.I(5))
	case "obj":
		return `{"a":1}`, rec.L(rec.I(5))
	}
	return "null", rec.L(rec.I(5))
}

func renderClaims(cs []claimSpec, now int64, main string) (string, rec.V) {
	parts := make([]string, len(cs))
	vs := make([]rec.V, len(cs))
	for i, c := range cs {
		k, _ := json.Marshal(c.K)
		j, m := c.V.render(now, main)
		parts[i] = string(k) + ":" + j
		vs[i] = rec.L(rec.S(c.K), m)
	}
	return "{" + strings.Join(parts, ",") + "}", rec.L(vs...)
}

// build returns the token string and the structure the oracle's parse_jwt maps it to.
func (e *issuerEnv) build(t tokSpec, now int64, main string) (string, rec.V) {
	malformed := rec.L(rec.I(0))
	switch t.Malformed {
	case 1:
		return "eyJhbGciOiJSUzI1NiJ9.e30", malformed
	case 2:
		return "eyJhbGciOiJSUzI1NiJ9.e30.c2ln.c2ln", malformed
	case 3:
		return "!!!.e30.c2ln", malformed
	case 4:
		return b64([]byte("not json")) + ".e30.c2ln", malformed
	case 5:
		return b64([]byte(`{"alg":"RS256","kid":"kid-1"}`)) + "." + b64([]byte("[1,2]")) + ".c2ln", malformed
	case 6:
		return "", malformed
	case 7:
		return "not-a-jwt", malformed
	}
	hparts := []string{`"typ":"JWT"`}
	switch t.AlgKind {
	case 0:
		j, _ := json.Marshal(t.Alg)
		hparts = append(hparts, `"alg":`+string(j))
	case 2:
		hparts = append(hparts, `"alg":256`)
	}
	kid := rec.L(rec.I(0))
	kidKey := 0
	switch t.Kid {
	case 1, 2, 3:
		hparts = append(hparts, fmt.Sprintf(`"kid":"kid-%d"`, t.Kid))
		kidKey = t.Kid
	case 4:
		hparts = append(hparts, `"kid":"kid-9"`)
		kid = rec.L(rec.I(2))
	case 5:
		hparts = append(hparts, `"kid":1`)
		kid = rec.L(rec.I(1))
	}
	header := "{" + strings.Join(hparts, ",") + "}"
	payload, mclaims := renderClaims(t.Claims, now, main)
	signKey := kidKey
	if signKey == 0 {
		signKey = 1
	}
	switch t.Signer {
	case 1:
		signKey = signKey%3 + 1
	case 2:
		signKey = 0
	}
	signedPayload := payload
	if t.Signer == 4 {
		signedPayload = strings.TrimSuffix(payload, "}")
		if len(t.Claims) > 0 {
			signedPayload += ","
		}
		signedPayload += `"x":1}`
	}
	signingInput := b64([]byte(header)) + "." + b64([]byte(signedPayload))
	method := t.Alg
	if t.AlgKind != 0 || !registeredAlgs[t.Alg] {
		method = "RS256"
	}
	if t.Signer == 6 {
		method = "RS384"
	}
	var sig []byte
	var err error
	switch {
	case method == "none" || t.Signer == 5:
		sig = nil
	case strings.HasPrefix(method, "HS"):
		// the classic confusion attack: HMAC keyed with the public modulus
		sig, err = jwt.GetSigningMethod(method).Sign(signingInput, e.k[signKey].PublicKey.N.Bytes())
	case method == "ES256":
		sig, err = jwt.GetSigningMethod(method).Sign(signingInput, e.ec)
	case strings.HasPrefix(method, "RS") || strings.HasPrefix(method, "PS"):
		sig, err = jwt.GetSigningMethod(method).Sign(signingInput, e.k[signKey])
	default:
		sig, err = jwt.GetSigningMethod("RS256").Sign(signingInput, e.k[signKey])
	}
	if err != nil {
		panic(err)
	}
	if t.Signer == 3 && len(sig) > 0 {
		sig[len(sig)/2] ^= 0x40
	}
	tok := b64([]byte(header)) + "." + b64([]byte(payload)) + "." + b64(sig)
	algClass := 2
	if t.AlgKind == 0 && t.Alg == "RS256" {
		algClass = 0
	} else if t.AlgKind == 0 && registeredAlgs[t.Alg] {
		algClass = 1
	}
	if kidKey != 0 {
		hdrAlg := t.Alg
		am := jwkAlg[kidKey] == "" || (t.AlgKind == 0 && jwkAlg[kidKey] == hdrAlg)
		ver := t.Signer == 0 && algClass == 0
		kid = rec.L(rec.I(3), rec.Bool(am), rec.Bool(ver))
	}
	return tok, rec.L(rec.I(1), rec.I(algClass), kid, mclaims)
}

type oidcCase struct {
	Kind string  `json:"kind"`
	Cfg  cfgSpec `json:"cfg"`
	Hdr  hdrSpec `json:"hdr"`
	Tok  tokSpec `json:"tok"`
	Tag  string  `json:"tag,omitempty"`
}

// valsAround writes the header values without repeating the (long) token: a value containing
// the token is written as (1 before after), any other as (0 value).
func valsAround(vals []string, tok string) rec.V {
	vs := make([]rec.V, len(vals))
	for i, v := range vals {
		if j := strings.Index(v, tok); tok != "" && j >= 0 {
			vs[i] = rec.L(rec.I(1), rec.S(v[:j]), rec.S(v[j+len(tok):]))
		} else {
			vs[i] = rec.L(rec.I(0), rec.S(v))
		}
	}
	return rec.L(vs...)
}

func runOidc(w *rec.Writer, e *issuerEnv, c oidcCase) {
	aud, _ := hex.DecodeString(c.Cfg.Audience)
	a := e.authenticator(c.Cfg)
	now := time.Now().Unix()
	tok, structure := e.build(c.Tok, now, e.mainIssuer(c.Cfg))
	md, vals := headerValues(c.Hdr, tok)
	o := observed{class: clsCtor}
	if a != nil {
		o = authenticate(w, a, md, openfgav1.AuthErrorCode_invalid_claims, c)
	}
	w.Case(c, rec.I(2),
		rec.S(e.mainIssuer(c.Cfg)), rec.LS(unhexAll(c.Cfg.Aliases)), rec.B(aud),
		rec.LS(unhexAll(c.Cfg.Subjects)), rec.LS(unhexAll(c.Cfg.CIC)),
		rec.I64(now), valsAround(vals, tok),
		rec.L(rec.L(rec.S(tok), structure)),
		rec.I(o.class), rec.S(o.subject), rec.S(o.clientID), rec.LS(o.scopes))
	w.Stat("oidc.cases", 1)
	w.Stat(fmt.Sprintf("oidc.class.%d", o.class), 1)
	w.Stat("oidc.tag."+c.Tag, 1)
	if c.Tok.Malformed != 0 {
		w.Stat("oidc.malformed", 1)
	} else {
		w.Stat("oidc.alg."+c.Tok.Alg+fmt.Sprintf("/%d", c.Tok.AlgKind), 1)
		w.Stat(fmt.Sprintf("oidc.kid.%d", c.Tok.Kid), 1)
		w.Stat(fmt.Sprintf("oidc.signer.%d", c.Tok.Signer), 1)
	}
}

// ---------------------------------------------------------------------------------------
// OIDC: generators

func hx(s string) string { return hex.EncodeToString([]byte(s)) }

var (
	cfgPlain    = cfgSpec{MainSuffix: "", Aliases: nil, Audience: hx("aud-1"), Subjects: nil, CIC: nil}
	cfgSubjects = cfgSpec{MainSuffix: "", Aliases: hexAll([]string{"https://alias.one", "https://alias.two/"}), Audience: hx("aud-1"), Subjects: hexAll([]string{"alice", "bob"}), CIC: nil}
	cfgSlash    = cfgSpec{MainSuffix: "/", Aliases: hexAll([]string{"alias3"}), Audience: hx("https://api.example/"), Subjects: hexAll([]string{"alice"}), CIC: hexAll([]string{"cid", "azp"})}
	cfgEmptyAl  = cfgSpec{MainSuffix: "", Aliases: hexAll([]string{""}), Audience: hx("aud-1"), Subjects: nil, CIC: nil}
	cfgEmptySub = cfgSpec{MainSuffix: "", Aliases: nil, Audience: hx("aud-1"), Subjects: hexAll([]string{"alice", ""}), CIC: nil}
	cfgEmptyBth = cfgSpec{MainSuffix: "/t1", Aliases: hexAll([]string{"", "https://alias.one"}), Audience: hx("aud-1"), Subjects: hexAll([]string{""}), CIC: nil}
	cfgCicSub   = cfgSpec{MainSuffix: "", Aliases: hexAll([]string{"https://alias.one"}), Audience: hx(" "), Subjects: hexAll([]string{"bob"}), CIC: hexAll([]string{"sub"})}
	cfgNoMain   = cfgSpec{MainSuffix: "-", Aliases: nil, Audience: hx("aud-1"), Subjects: nil, CIC: nil}
	cfgNoAud    = cfgSpec{MainSuffix: "", Aliases: nil, Audience: "", Subjects: nil, CIC: nil}
	allCfgs     = []cfgSpec{cfgPlain, cfgSubjects, cfgSlash, cfgEmptyAl, cfgEmptySub, cfgEmptyBth, cfgCicSub, cfgNoMain, cfgNoAud}
)

func (e *issuerEnv) issValue(c cfgSpec, kind int) *jvSpec {
	switch kind {
	case 0:
		return &jvSpec{T: "m"}
	case 1: // an alias (of the configuration if it has one, else of another configuration)
		al := unhexAll(c.Aliases)
		if len(al) > 0 && al[len(al)-1] != "" {
			return &jvSpec{T: "s", S: al[len(al)-1]}
		}
		return &jvSpec{T: "s", S: "https://alias.one"}
	case 2:
		return &jvSpec{T: "s", S: "https://evil.example"}
	case 3:
		return nil
	case 4:
		return &jvSpec{T: "s", S: ""}
	case 5:
		return &jvSpec{T: "n", N: 7}
	case 6:
		return &jvSpec{T: "ml"}
	case 7:
		return &jvSpec{T: "mt"}
	case 8:
		return &jvSpec{T: "mu"}
	case 9:
		return &jvSpec{T: "null"}
	}
	return &jvSpec{T: "s", S: "https://alias.two/"}
}

func audValue(c cfgSpec, kind int) *jvSpec {
	ab, _ := hex.DecodeString(c.Audience)
	a := string(ab)
	switch kind {
	case 0:
		return &jvSpec{T: "s", S: a}
	case 1:
		return &jvSpec{T: "s", S: "other-aud"}
	case 2:
		return &jvSpec{T: "l", L: []string{"other-aud", a}}
	case 3:
		return nil
	case 4:
		return &jvSpec{T: "l", L: []string{"other-aud", "x"}}
	case 5:
		return &jvSpec{T: "l", L: []string{}}
	case 6:
		return &jvSpec{T: "l", L: []string{""}}
	case 7:
		return &jvSpec{T: "s", S: ""}
	case 8:
		return &jvSpec{T: "n", N: 1}
	case 9:
		return &jvSpec{T: "b", L: []string{a}}
	case 10:
		return &jvSpec{T: "l", L: []string{"", a}}
	case 11:
		return &jvSpec{T: "s", S: strings.ToUpper(a)}
	case 12:
		return &jvSpec{T: "s", S: a + "x"}
	case 13:
		return &jvSpec{T: "l", L: []string{a}}
	case 14:
		return &jvSpec{T: "null"}
	}
	return &jvSpec{T: "obj"}
}

func subValue(c cfgSpec, kind int) *jvSpec {
	subs := unhexAll(c.Subjects)
	switch kind {
	case 0:
		if len(subs) > 0 && subs[0] != "" {
			return &jvSpec{T: "s", S: subs[0]}
		}
		return &jvSpec{T: "s", S: "alice"}
	case 1:
		return &jvSpec{T: "s", S: "mallory"}
	case 2:
		return nil
	case 3:
		if len(subs) > 1 && subs[len(subs)-1] != "" {
			return &jvSpec{T: "s", S: subs[len(subs)-1]}
		}
		return &jvSpec{T: "s", S: "bob"}
	case 4:
		return &jvSpec{T: "s", S: ""}
	case 5:
		return &jvSpec{T: "n", N: 42}
	case 6:
		return &jvSpec{T: "null"}
	case 7:
		return &jvSpec{T: "l", L: []string{"alice"}}
	case 8:
		return &jvSpec{T: "s", S: "Alice"}
	}
	return &jvSpec{T: "s", S: "alice "}
}

func timeValue(kind int) *jvSpec {
	switch kind {
	case 0:
		return nil
	case 1:
		return &jvSpec{T: "r", N: -3600}
	case 2:
		return &jvSpec{T: "r", N: 3600}
	case 3:
		return &jvSpec{T: "n", N: 0}
	case 4:
		return &jvSpec{T: "r", N: -45}
	case 5:
		return &jvSpec{T: "r", N: 45}
	case 6:
		return &jvSpec{T: "s", S: "4102444800"}
	case 7:
		return &jvSpec{T: "null"}
	case 8:
		return &jvSpec{T: "n", N: -5}
	case 9:
		return &jvSpec{T: "n", N: 1}
	case 10:
		return &jvSpec{T: "n", N: 253402300799}
	}
	return &jvSpec{T: "bool"}
}

func addClaim(cs []claimSpec, k string, v *jvSpec) []claimSpec {
	if v == nil {
		return cs
	}
	return append(cs, claimSpec{K: k, V: *v})
}

// the exhaustive core: every combination of the dimensions the property names
func genOidcCore(w *rec.Writer, e *issuerEnv) {
	algs := []string{"RS256", "HS256", "none", "RS384"}
	for _, cfg := range []cfgSpec{cfgPlain, cfgSubjects} {
		for _, signer := range []int{0, 2} {
			for _, alg := range algs {
				for _, exp := range []int{0, 1, 2} {
					for _, iat := range []int{1, 2, 0} {
						for _, aud := range []int{0, 1, 2, 3} {
							for _, iss := range []int{0, 1, 2, 3} {
								for _, sub := range []int{0, 1, 2} {
									var cs []claimSpec
									cs = addClaim(cs, "iss", e.issValue(cfg, iss))
									cs = addClaim(cs, "sub", subValue(cfg, sub))
									cs = addClaim(cs, "aud", audValue(cfg, aud))
									cs = addClaim(cs, "exp", timeValue(exp))
									cs = addClaim(cs, "iat", timeValue(iat))
									runOidc(w, e, oidcCase{Kind: "oidc", Cfg: cfg, Hdr: hdrSpec{},
										Tok: tokSpec{Alg: alg, Kid: 1, Signer: signer, Claims: cs}, Tag: "core"})
								}
							}
						}
					}
				}
			}
		}
	}
	// configurations with empty alias / subject entries, and the constructor refusals
	for _, cfg := range []cfgSpec{cfgEmptyAl, cfgEmptySub, cfgEmptyBth, cfgCicSub, cfgSlash, cfgNoMain, cfgNoAud} {
		refused := cfg.MainSuffix == "-" || cfg.Audience == ""
		for iss := 0; iss <= 10; iss++ {
			for sub := 0; sub <= 9; sub++ {
				if refused && (iss > 0 || sub > 1) {
					continue // the constructor refuses these configurations: two cases each suffice
				}
				for _, exp := range []int{1, 2} {
					for _, nbf := range []int{0, 2} {
						var cs []claimSpec
						cs = addClaim(cs, "exp", timeValue(exp))
						cs = addClaim(cs, "nbf", timeValue(nbf))
						cs = addClaim(cs, "aud", audValue(cfg, 0))
						cs = addClaim(cs, "iss", e.issValue(cfg, iss))
						cs = addClaim(cs, "sub", subValue(cfg, sub))
						runOidc(w, e, oidcCase{Kind: "oidc", Cfg: cfg, Hdr: hdrSpec{},
							Tok: tokSpec{Alg: "RS256", Kid: 2, Signer: 0, Claims: cs}, Tag: "cfgs"})
					}
				}
			}
		}
	}
	// one-dimensional sweeps around a valid token: every value of every dimension
	base := func(cfg cfgSpec) map[string]*jvSpec {
		return map[string]*jvSpec{"iss": e.issValue(cfg, 0), "sub": subValue(cfg, 0), "aud": audValue(cfg, 0),
			"exp": timeValue(2), "iat": timeValue(1), "nbf": nil}
	}
	order := []string{"iss", "sub", "aud", "exp", "iat", "nbf"}
	mk := func(m map[string]*jvSpec, extra []claimSpec) []claimSpec {
		var cs []claimSpec
		for _, k := range order {
			cs = addClaim(cs, k, m[k])
		}
		return append(cs, extra...)
	}
	for _, cfg := range []cfgSpec{cfgPlain, cfgSubjects, cfgSlash, cfgCicSub} {
		for _, k := range []string{"exp", "iat", "nbf"} {
			for v := 0; v <= 11; v++ {
				m := base(cfg)
				m[k] = timeValue(v)
				runOidc(w, e, oidcCase{Kind: "oidc", Cfg: cfg, Tok: tokSpec{Alg: "RS256", Kid: 1, Claims: mk(m, nil)}, Tag: "sweep"})
			}
		}
		for v := 0; v <= 15; v++ {
			m := base(cfg)
			m["aud"] = audValue(cfg, v)
			runOidc(w, e, oidcCase{Kind: "oidc", Cfg: cfg, Tok: tokSpec{Alg: "RS256", Kid: 1, Claims: mk(m, nil)}, Tag: "sweep"})
		}
		for _, alg := range []string{"RS256", "RS384", "RS512", "PS256", "HS256", "HS384", "HS512", "ES256", "none", "rs256", "RS257", "", "EdDSA"} {
			for algk := 0; algk <= 2; algk++ {
				runOidc(w, e, oidcCase{Kind: "oidc", Cfg: cfg, Tok: tokSpec{Alg: alg, AlgKind: algk, Kid: 1, Claims: mk(base(cfg), nil)}, Tag: "sweep"})
			}
		}
		for kid := 0; kid <= 5; kid++ {
			for signer := 0; signer <= 6; signer++ {
				runOidc(w, e, oidcCase{Kind: "oidc", Cfg: cfg, Tok: tokSpec{Alg: "RS256", Kid: kid, Signer: signer, Claims: mk(base(cfg), nil)}, Tag: "sweep"})
			}
		}
		for mal := 1; mal <= 7; mal++ {
			runOidc(w, e, oidcCase{Kind: "oidc", Cfg: cfg, Tok: tokSpec{Malformed: mal}, Tag: "sweep"})
		}
		for v := 0; v < nHdrVariants; v++ {
			h := hdrSpec{Variant: v}
			if v == 13 || v == 14 {
				h.Other = hx("not-a-jwt")
			}
			runOidc(w, e, oidcCase{Kind: "oidc", Cfg: cfg, Hdr: h, Tok: tokSpec{Alg: "RS256", Kid: 1, Claims: mk(base(cfg), nil)}, Tag: "sweep"})
		}
		// client id, scope, duplicate keys
		extras := [][]claimSpec{
			{{K: "azp", V: jvSpec{T: "s", S: "app-1"}}},
			{{K: "client_id", V: jvSpec{T: "s", S: "app-2"}}},
			{{K: "azp", V: jvSpec{T: "n", N: 3}}, {K: "client_id", V: jvSpec{T: "s", S: "app-2"}}},
			{{K: "azp", V: jvSpec{T: "s", S: ""}}, {K: "client_id", V: jvSpec{T: "s", S: "app-2"}}},
			{{K: "cid", V: jvSpec{T: "s", S: "app-3"}}, {K: "azp", V: jvSpec{T: "s", S: "app-1"}}},
			{{K: "cid", V: jvSpec{T: "null"}}, {K: "azp", V: jvSpec{T: "s", S: "app-1"}}},
			{{K: "scope", V: jvSpec{T: "s", S: "read write"}}},
			{{K: "scope", V: jvSpec{T: "s", S: ""}}},
			{{K: "scope", V: jvSpec{T: "s", S: "a  b a "}}},
			{{K: "scope", V: jvSpec{T: "l", L: []string{"read"}}}},
			{{K: "scope", V: jvSpec{T: "n", N: 1}}},
			{{K: "exp", V: jvSpec{T: "r", N: -3600}}},
			{{K: "iss", V: jvSpec{T: "s", S: "https://evil.example"}}},
			{{K: "sub", V: jvSpec{T: "s", S: "mallory"}}},
			{{K: "aud", V: jvSpec{T: "s", S: "other-aud"}}},
		}
		for _, x := range extras {
			runOidc(w, e, oidcCase{Kind: "oidc", Cfg: cfg, Tok: tokSpec{Alg: "RS256", Kid: 1, Claims: mk(base(cfg), x)}, Tag: "sweep"})
			// the same extra claim placed first (a later duplicate overrides it)
			runOidc(w, e, oidcCase{Kind: "oidc", Cfg: cfg, Tok: tokSpec{Alg: "RS256", Kid: 1, Claims: append(append([]claimSpec{}, x...), mk(base(cfg), nil)...)}, Tag: "sweep"})
		}
	}
}

func randomCfg(r *rec.Rand) cfgSpec {
	if r.Chance(3, 5) {
		return rec.Pick(r, allCfgs[:7])
	}
	c := cfgSpec{Audience: hx(rec.Pick(r, []string{"aud-1", "https://api.example/", " "}))}
	c.MainSuffix = rec.Pick(r, []string{"", "/", "/t1"})
	aliasPool := []string{"https://alias.one", "https://alias.two/", "alias3", ""}
	for _, a := range aliasPool {
		if r.Chance(1, 4) {
			c.Aliases = append(c.Aliases, hx(a))
		}
	}
	subPool := []string{"alice", "bob", "", "alice "}
	for _, s := range subPool {
		if r.Chance(1, 4) {
			c.Subjects = append(c.Subjects, hx(s))
		}
	}
	switch r.Intn(4) {
	case 1:
		c.CIC = hexAll([]string{"cid", "azp"})
	case 2:
		c.CIC = hexAll([]string{"sub"})
	case 3:
		c.CIC = hexAll([]string{"client_id", "scope", "aud"})
	}
	if r.Chance(1, 60) {
		c.MainSuffix = "-"
	}
	if r.Chance(1, 60) {
		c.Audience = ""
	}
	return c
}

func genOidcRandom(w *rec.Writer, e *issuerEnv, r *rec.Rand, n int) {
	for i := 0; i < n; i++ {
		cfg := randomCfg(r)
		wild := r.Chance(1, 4) // every dimension random instead of mostly valid
		pick := func(valid int, nKinds int, pMut int) int {
			if wild || r.Chance(pMut, 10) {
				return r.Intn(nKinds)
			}
			return valid
		}
		t := tokSpec{Alg: "RS256", Kid: 1 + r.Intn(2)}
		if wild || r.Chance(1, 8) {
			t.Alg = rec.Pick(r, []string{"RS256", "RS256", "RS384", "RS512", "PS256", "HS256", "HS512", "ES256", "none", "rs256", "None", ""})
			if r.Chance(1, 10) {
				t.AlgKind = 1 + r.Intn(2)
			}
		}
		if wild || r.Chance(1, 8) {
			t.Kid = r.Intn(6)
		}
		if wild || r.Chance(1, 8) {
			t.Signer = r.Intn(7)
		}
		if r.Chance(1, 25) {
			t.Malformed = 1 + r.Intn(7)
		}
		type kv struct {
			k string
			v *jvSpec
		}
		kvs := []kv{
			{"iss", e.issValue(cfg, pick(r.Intn(2), 11, 2))},
			{"sub", subValue(cfg, pick(rec.Pick(r, []int{0, 3, 2}), 10, 2))},
			{"aud", audValue(cfg, pick(rec.Pick(r, []int{0, 2, 13, 10}), 16, 2))},
			{"exp", timeValue(pick(rec.Pick(r, []int{2, 5, 10}), 12, 2))},
			{"iat", timeValue(pick(rec.Pick(r, []int{0, 1, 4, 3}), 12, 1))},
			{"nbf", timeValue(pick(rec.Pick(r, []int{0, 0, 1, 4}), 12, 1))},
		}
		if r.Chance(1, 2) {
			kvs = append(kvs, kv{"azp", rec.Pick(r, []*jvSpec{{T: "s", S: "app-1"}, {T: "n", N: 1}, {T: "s", S: ""}, {T: "null"}})})
		}
		if r.Chance(1, 2) {
			kvs = append(kvs, kv{"client_id", rec.Pick(r, []*jvSpec{{T: "s", S: "app-2"}, {T: "l", L: []string{"x"}}})})
		}
		if r.Chance(1, 3) {
			kvs = append(kvs, kv{"cid", rec.Pick(r, []*jvSpec{{T: "s", S: "app-3"}, {T: "bool"}})})
		}
		if r.Chance(1, 2) {
			kvs = append(kvs, kv{"scope", rec.Pick(r, []*jvSpec{{T: "s", S: "read write"}, {T: "s", S: ""}, {T: "s", S: " a  b"}, {T: "n", N: 2}, {T: "l", L: []string{"a"}}, {T: "s", S: "é x x"}})})
		}
		if r.Chance(1, 10) { // a duplicate of one of the registered claims, before or after the original
			k := rec.Pick(r, []string{"iss", "sub", "aud", "exp", "iat", "nbf"})
			var v *jvSpec
			switch k {
			case "iss":
				v = e.issValue(cfg, r.Intn(11))
			case "sub":
				v = subValue(cfg, r.Intn(10))
			case "aud":
				v = audValue(cfg, r.Intn(16))
			default:
				v = timeValue(r.Intn(12))
			}
			kvs = append(kvs, kv{k, v})
		}
		rec.Shuffle(r, kvs)
		for _, x := range kvs {
			t.Claims = addClaim(t.Claims, x.k, x.v)
		}
		runOidc(w, e, oidcCase{Kind: "oidc", Cfg: cfg, Hdr: pickHdr(r, []string{"not-a-jwt", "a.b.c"}), Tok: t, Tag: "random"})
	}
}

// ---------------------------------------------------------------------------------------
// histories: one long-lived authenticator and one long-lived middleware AuthFunc (as in the
// running server), a sequence of presentations, and at every step a fresh authenticator +
// fresh AuthFunc built from the same configuration for comparison.

type histStep struct {
	AtMs int64   `json:"at"` // not before (start second)*1000 + AtMs
	Tok  int     `json:"tok"`
	Hdr  hdrSpec `json:"hdr"`
}

type oidcHist struct {
	Kind  string     `json:"kind"`
	Cfg   cfgSpec    `json:"cfg"`
	Toks  []tokSpec  `json:"toks"`
	Steps []histStep `json:"steps"`
	Tag   string     `json:"tag,omitempty"`
}

type oidcStepResult struct {
	now       int64
	vals      []string
	tok       string
	structure rec.V
	amb       bool
	mw        observed
	direct    int
	freshMw   int
	freshDir  int
}

func observeMw(af func(context.Context) (context.Context, error), md metadata.MD, rejectCode openfgav1.AuthErrorCode) observed {
	ctx2, err := af(metadata.NewIncomingContext(context.Background(), md))
	o := observed{class: classify(err, rejectCode)}
	if err == nil {
		c, ok := authclaims.AuthClaimsFromContext(ctx2)
		if !ok || c == nil {
			o.class = clsOther
			return o
		}
		o.subject, o.clientID = c.Subject, c.ClientID
		for s := range c.Scopes {
			o.scopes = append(o.scopes, s)
		}
		sort.Strings(o.scopes)
	} else if ctx2 != nil {
		o.class = clsOther
	}
	return o
}

func observeDirect(a authn.Authenticator, md metadata.MD, rejectCode openfgav1.AuthErrorCode) int {
	claims, err := a.Authenticate(metadata.NewIncomingContext(context.Background(), md))
	if (err == nil) != (claims != nil) {
		return clsOther
	}
	return classify(err, rejectCode)
}

func (e *issuerEnv) newAuth(c cfgSpec) (*oidc.RemoteOidcAuthenticator, error) {
	aud, _ := hex.DecodeString(c.Audience)
	return oidc.NewRemoteOidcAuthenticator(e.mainIssuer(c), unhexAll(c.Aliases), string(aud), unhexAll(c.Subjects), unhexAll(c.CIC))
}

// runOidcHist does not touch the writer (it runs concurrently with the other generators).
func runOidcHist(e *issuerEnv, h oidcHist) ([]oidcStepResult, error) {
	a, err := e.newAuth(h.Cfg)
	if err != nil {
		return nil, err
	}
	defer a.Close()
	af := mw.AuthFunc(a)
	start := time.Now().Unix()
	toks := make([]string, len(h.Toks))
	structs := make([]rec.V, len(h.Toks))
	for i, t := range h.Toks {
		toks[i], structs[i] = e.build(t, start, e.mainIssuer(h.Cfg))
	}
	var out []oidcStepResult
	for _, st := range h.Steps {
		if st.Tok < 0 || st.Tok >= len(toks) {
			continue
		}
		fresh, err := e.newAuth(h.Cfg)
		if err != nil {
			return nil, err
		}
		if d := time.Until(time.UnixMilli(start*1000 + st.AtMs)); d > 0 {
			time.Sleep(d)
		}
		md, vals := headerValues(st.Hdr, toks[st.Tok])
		r := oidcStepResult{vals: vals, tok: toks[st.Tok], structure: structs[st.Tok]}
		r.now = time.Now().Unix()
		r.mw = observeMw(af, md, openfgav1.AuthErrorCode_invalid_claims)
		r.direct = observeDirect(a, md, openfgav1.AuthErrorCode_invalid_claims)
		r.freshMw = observeMw(mw.AuthFunc(fresh), md, openfgav1.AuthErrorCode_invalid_claims).class
		r.freshDir = observeDirect(fresh, md, openfgav1.AuthErrorCode_invalid_claims)
		after := time.Now().Unix()
		fresh.Close()
		// a time claim crossed by the clock while the four calls ran: the step decides nothing
		for _, c := range h.Toks[st.Tok].Claims {
			if c.V.T == "r" && r.now < start+c.V.N && start+c.V.N <= after {
				r.amb = true
			}
		}
		out = append(out, r)
	}
	return out, nil
}

func writeOidcHist(w *rec.Writer, e *issuerEnv, h oidcHist, res []oidcStepResult, err error) {
	if err != nil {
		w.PropFail("history: the constructor refused a configuration it accepts elsewhere: "+err.Error(), h)
		return
	}
	aud, _ := hex.DecodeString(h.Cfg.Audience)
	steps := make([]rec.V, len(res))
	for i, r := range res {
		steps[i] = rec.L(rec.I64(r.now), valsAround(r.vals, r.tok), rec.L(rec.L(rec.S(r.tok), r.structure)), rec.Bool(r.amb),
			rec.L(rec.I(r.mw.class), rec.S(r.mw.subject), rec.S(r.mw.clientID), rec.LS(r.mw.scopes)),
			rec.I(r.direct), rec.I(r.freshMw), rec.I(r.freshDir))
		w.Stat("hist.oidc.steps", 1)
		w.Stat(fmt.Sprintf("hist.oidc.step.class.%d", r.mw.class), 1)
		if r.amb {
			w.Stat("hist.oidc.steps.ambiguous", 1)
		}
	}
	w.Case(h, rec.I(3), rec.S(e.mainIssuer(h.Cfg)), rec.LS(unhexAll(h.Cfg.Aliases)), rec.B(aud),
		rec.LS(unhexAll(h.Cfg.Subjects)), rec.LS(unhexAll(h.Cfg.CIC)), rec.L(steps...))
	w.Stat("hist.oidc", 1)
}

const (
	histLifetime = 3    // seconds: exp / iat / nbf of the short-lived tokens relative to the start
	histAfterMs  = 4200 // first presentation after that instant (>= 1.2 s past it)
)

func (e *issuerEnv) histTokens(cfg cfgSpec) []tokSpec {
	mk := func(m map[string]*jvSpec) []claimSpec {
		var cs []claimSpec
		for _, k := range []string{"iss", "sub", "aud", "exp", "iat", "nbf", "azp", "scope"} {
			cs = addClaim(cs, k, m[k])
		}
		return cs
	}
	base := func() map[string]*jvSpec {
		return map[string]*jvSpec{"iss": e.issValue(cfg, 0), "sub": subValue(cfg, 0), "aud": audValue(cfg, 0),
			"exp": {T: "r", N: 3600}, "iat": {T: "r", N: -10}, "azp": {T: "s", S: "app-1"}, "scope": {T: "s", S: "read write"}}
	}
	with := func(k string, v *jvSpec) []claimSpec { m := base(); m[k] = v; return mk(m) }
	return []tokSpec{
		0: {Alg: "RS256", Kid: 1, Claims: with("exp", &jvSpec{T: "r", N: histLifetime})},       // short-lived
		1: {Alg: "RS256", Kid: 2, Claims: mk(base())},                                          // long-lived
		2: {Alg: "RS256", Kid: 1, Signer: 3, Claims: mk(base())},                               // signature flipped
		3: {Alg: "RS256", Kid: 1, Claims: with("iat", &jvSpec{T: "r", N: histLifetime})},       // issued in the near future
		4: {Alg: "RS256", Kid: 1, Claims: with("nbf", &jvSpec{T: "r", N: histLifetime})},       // not valid yet
		5: {Alg: "RS256", Kid: 1, Claims: with("exp", &jvSpec{T: "r", N: -3600})},              // expired long ago
		6: {Alg: "RS256", Kid: 1, Claims: with("iss", e.issValue(cfg, 2))},                     // other issuer
		7: {Malformed: 7},                                                                      // not a JWT
		8: {Alg: "RS256", Kid: 1, Signer: 2, Claims: mk(base())},                               // key outside the JWKS
		9: {Alg: "RS256", Kid: 2, Claims: append(with("exp", &jvSpec{T: "r", N: histLifetime}), claimSpec{K: "cid", V: jvSpec{T: "s", S: "app-9"}})}, // short-lived, another string
		10: {Alg: "RS256", Kid: 4, Claims: mk(base())},                                         // unknown kid
	}
}

func oidcHistories(e *issuerEnv, r *rec.Rand) []oidcHist {
	s := func(at int64, tok int, hv int) histStep { return histStep{AtMs: at, Tok: tok, Hdr: hdrSpec{Variant: hv}} }
	A := int64(histAfterMs)
	hs := []oidcHist{
		{Cfg: cfgSubjects, Tag: "expiry", Steps: []histStep{s(0, 0, 0), s(A, 0, 0)}},
		{Cfg: cfgSubjects, Tag: "expiry-mixed", Steps: []histStep{s(0, 0, 0), s(0, 1, 0), s(300, 0, 1), s(300, 2, 0), s(600, 0, 0), s(600, 5, 0),
			s(A, 0, 0), s(A+100, 0, 2), s(A+100, 1, 0), s(A+300, 0, 0), s(A+300, 9, 0)}},
		{Cfg: cfgPlain, Tag: "iat-passes", Steps: []histStep{s(0, 3, 0), s(0, 1, 0), s(300, 3, 0), s(A, 3, 0), s(A+200, 3, 1), s(A+200, 2, 0)}},
		{Cfg: cfgSlash, Tag: "nbf-passes", Steps: []histStep{s(0, 4, 0), s(200, 4, 0), s(A, 4, 0), s(A+100, 4, 0)}},
		{Cfg: cfgSubjects, Tag: "alternate", Steps: []histStep{s(0, 1, 0), s(0, 2, 0), s(0, 1, 0), s(0, 6, 0), s(0, 1, 1), s(0, 7, 0), s(0, 1, 11),
			s(0, 1, 0), s(0, 8, 0), s(0, 1, 0), s(0, 10, 0), s(0, 1, 0), s(0, 10, 0), s(0, 5, 0), s(0, 1, 8), s(0, 1, 2)}},
		{Cfg: cfgPlain, Tag: "two-short", Steps: []histStep{s(0, 9, 0), s(0, 0, 0), s(100, 9, 3), s(A, 9, 0), s(A, 0, 0), s(A+200, 9, 0)}},
		{Cfg: cfgCicSub, Tag: "expiry", Steps: []histStep{s(0, 0, 0), s(0, 0, 0), s(A, 0, 0), s(A+200, 0, 0)}},
	}
	// two generated interleavings: a block before the instant, a block after it
	for k := 0; k < 2; k++ {
		h := oidcHist{Cfg: rec.Pick(r, []cfgSpec{cfgPlain, cfgSubjects, cfgSlash}), Tag: "generated"}
		for i, n := 0, r.Range(4, 8); i < n; i++ {
			h.Steps = append(h.Steps, s(int64(i*100), rec.Pick(r, []int{0, 0, 1, 2, 3, 4, 5, 6, 8, 9}), r.Intn(4)))
		}
		for i, n := 0, r.Range(4, 8); i < n; i++ {
			h.Steps = append(h.Steps, s(A+int64(i*80), rec.Pick(r, []int{0, 0, 0, 1, 3, 3, 4, 4, 9, 2}), r.Intn(4)))
		}
		hs = append(hs, h)
	}
	for i := range hs {
		hs[i].Kind = "oidchist"
		hs[i].Toks = e.histTokens(hs[i].Cfg)
	}
	return hs
}

type pskHistStep struct {
	Keys []string `json:"keys"` // hex
	Tok  string   `json:"tok"`  // hex
	Hdr  hdrSpec  `json:"hdr"`
}

type pskHist struct {
	Kind  string        `json:"kind"`
	Steps []pskHistStep `json:"steps"`
}

// runPskHist keeps one authenticator and one AuthFunc while the key list stays the same and
// rebuilds both when it changes (a restart with a new configuration).
func runPskHist(w *rec.Writer, h pskHist) {
	var a *presharedkey.PresharedKeyAuthenticator
	var af func(context.Context) (context.Context, error)
	prev := "\x00none"
	steps := make([]rec.V, 0, len(h.Steps))
	code := openfgav1.AuthErrorCode_unauthenticated
	for _, st := range h.Steps {
		keys := unhexAll(st.Keys)
		tokb, _ := hex.DecodeString(st.Tok)
		md, vals := headerValues(st.Hdr, string(tokb))
		if k := strings.Join(st.Keys, ","); k != prev {
			prev = k
			var err error
			a, err = presharedkey.NewPresharedKeyAuthenticator(keys)
			if err != nil {
				a, af = nil, nil
			} else {
				af = mw.AuthFunc(a)
			}
		}
		digests := make([]rec.V, len(keys))
		for i, k := range keys {
			d := sha256.Sum256([]byte(k))
			digests[i] = rec.B(d[:])
		}
		cm, cd, cf := clsCtor, clsCtor, clsCtor
		if a != nil {
			cm = observeMw(af, md, code).class
			cd = observeDirect(a, md, code)
		}
		if fresh, err := presharedkey.NewPresharedKeyAuthenticator(keys); err == nil {
			cf = observeMw(mw.AuthFunc(fresh), md, code).class
			if d := observeDirect(fresh, md, code); d != cf {
				cf = clsOther
			}
		}
		steps = append(steps, rec.L(rec.LS(keys), rec.L(digests...), rec.LS(vals), rec.I(cm), rec.I(cd), rec.I(cf)))
		w.Stat("hist.psk.steps", 1)
		w.Stat(fmt.Sprintf("hist.psk.step.class.%d", cm), 1)
	}
	w.Case(h, rec.I(4), rec.L(steps...))
	w.Stat("hist.psk", 1)
}

func genPskHist(w *rec.Writer, r *rec.Rand, n int) {
	st := func(keys []string, tok string, hv int) pskHistStep {
		return pskHistStep{Keys: hexAll(keys), Tok: hex.EncodeToString([]byte(tok)), Hdr: hdrSpec{Variant: hv}}
	}
	k12, k3, k1 := []string{"key1", "key2"}, []string{"key3"}, []string{"key1"}
	runPskHist(w, pskHist{Kind: "pskhist", Steps: []pskHistStep{
		st(k12, "key1", 0), st(k12, "nope", 0), st(k12, "key1", 1), st(k12, "key2", 0), st(k12, "key3", 0), st(k12, "key1", 0),
		st(k12, "key1", 8), st(k12, "key1", 11), st(k12, "key1", 0),
		st(k3, "key1", 0), st(k3, "key3", 0), st(k3, "key2", 0), st(k3, "key1", 0),
		st(k1, "key1", 0), st(k1, "key3", 0), st(k1, "key2", 0), st(k1, "key1", 2),
		st(nil, "key1", 0), st(k12, "key1", 0),
	}})
	lists := [][]string{k12, k3, k1, {"", "k"}, {"a b", "a"}}
	toks := []string{"key1", "key2", "key3", "", "k", "a b", "a", "b", "nope", "key1 ", " key1"}
	for i := 0; i < n; i++ {
		cur := rec.Pick(r, lists)
		h := pskHist{Kind: "pskhist"}
		for j, m := 0, r.Range(6, 14); j < m; j++ {
			if r.Chance(1, 4) {
				cur = rec.Pick(r, lists)
			}
			tok := rec.Pick(r, toks)
			if r.Chance(1, 2) {
				tok = rec.Pick(r, cur)
			}
			hv := 0
			if r.Chance(1, 4) {
				hv = r.Intn(nHdrVariants)
				if hv == 13 || hv == 14 {
					hv = 1
				}
			}
			h.Steps = append(h.Steps, st(cur, tok, hv))
		}
		runPskHist(w, h)
	}
}

// ---------------------------------------------------------------------------------------

func replay(w *rec.Writer, path string) {
	f, err := os.Open(path)
	if err != nil {
		panic(err)
	}
	defer f.Close()
	var e *issuerEnv
	sc := bufio.NewScanner(f)
	sc.Buffer(make([]byte, 1<<20), 1<<26)
	for sc.Scan() {
		line := strings.TrimSpace(sc.Text())
		if line == "" || line == "null" {
			continue
		}
		var k struct {
			Kind string `json:"kind"`
		}
		if json.Unmarshal([]byte(line), &k) != nil {
			continue
		}
		switch k.Kind {
		case "psk":
			var c pskCase
			if json.Unmarshal([]byte(line), &c) == nil {
				runPsk(w, c)
			}
		case "pskhist":
			var h pskHist
			if json.Unmarshal([]byte(line), &h) == nil {
				runPskHist(w, h)
			}
		case "oidchist":
			var h oidcHist
			if json.Unmarshal([]byte(line), &h) == nil {
				if e == nil {
					e = newIssuerEnv()
					defer e.close()
				}
				res, err := runOidcHist(e, h)
				writeOidcHist(w, e, h, res, err)
			}
		case "oidc":
			var c oidcCase
			if json.Unmarshal([]byte(line), &c) == nil {
				if e == nil {
					e = newIssuerEnv()
					defer e.close()
				}
				runOidc(w, e, c)
			}
		}
	}
}

func main() {
	o := rec.ParseFlags()
	w := rec.NewWriter(o.Out)
	defer w.Close()
	if o.Replay != "" {
		replay(w, o.Replay)
		return
	}
	r := rec.NewRand(o.Seed)
	e := newIssuerEnv()
	defer e.close()
	// the OIDC histories wait for short-lived tokens to expire: they run concurrently with
	// everything else and are written at the end
	hists := oidcHistories(e, r.Fork())
	type histOut struct {
		res []oidcStepResult
		err error
	}
	outs := make([]chan histOut, len(hists))
	for i := range hists {
		outs[i] = make(chan histOut, 1)
		go func(i int) {
			res, err := runOidcHist(e, hists[i])
			outs[i] <- histOut{res, err}
		}(i)
	}
	genPsk(w, r.Fork(), o.N/2, true)
	genPskHist(w, r.Fork(), 20)
	genOidcCore(w, e)
	genOidcRandom(w, e, r.Fork(), o.N)
	for i := range hists {
		ho := <-outs[i]
		writeOidcHist(w, e, hists[i], ho.res, ho.err)
	}
}
