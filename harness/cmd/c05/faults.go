//go:build verif

package main

import (
	"context"
	"errors"
	"sync"
	"sync/atomic"
	"time"

	openfgav1 "github.com/openfga/api/proto/openfga/v1"

	"github.com/openfga/openfga/internal/graph"
	"github.com/openfga/openfga/pkg/storage"
)

// errInjected is what the faulty datastore returns: a plain error, not a cancellation, not a
// condition-evaluation error.
var errInjected = errors.New("verif c05: injected datastore read failure")

// faultDS counts the reads of one ListObjects call (Read, ReadUserTuple, ReadUsersetTuples,
// ReadStartingWithUser — reverse expansion, confirming Checks and pipeline reads alike) and makes
// the failAt-th one (0-based, in arrival order) fail: variant 0 = the call returns the error,
// variant 1 = the call succeeds and the iterator's first Next / Head returns it
// (ReadUserTuple has no iterator: the call fails).  failAt < 0: count only.
type faultDS struct {
	storage.OpenFGADatastore
	failAt  int64
	variant int
	n       atomic.Int64
	hit     atomic.Bool
	method  atomic.Value // string: the method that was failed
}

func (d *faultDS) fail(method string) bool {
	k := d.n.Add(1) - 1
	if d.failAt >= 0 && k == d.failAt {
		d.hit.Store(true)
		d.method.Store(method)
		return true
	}
	return false
}

type failingIter struct{}

func (failingIter) Next(context.Context) (*openfgav1.Tuple, error) { return nil, errInjected }
func (failingIter) Head(context.Context) (*openfgav1.Tuple, error) { return nil, errInjected }
func (failingIter) Stop()                                           {}
func (failingIter) IsOrdered() bool                                 { return false }

func (d *faultDS) iter(method string, it storage.TupleIterator, err error) (storage.TupleIterator, error) {
	if !d.fail(method) {
		return it, err
	}
	if it != nil {
		it.Stop()
	}
	if d.variant == 1 {
		return failingIter{}, nil
	}
	return nil, errInjected
}

func (d *faultDS) Read(ctx context.Context, store string, f storage.ReadFilter, o storage.ReadOptions) (storage.TupleIterator, error) {
	it, err := d.OpenFGADatastore.Read(ctx, store, f, o)
	return d.iter("Read", it, err)
}

func (d *faultDS) ReadUsersetTuples(ctx context.Context, store string, f storage.ReadUsersetTuplesFilter, o storage.ReadUsersetTuplesOptions) (storage.TupleIterator, error) {
	it, err := d.OpenFGADatastore.ReadUsersetTuples(ctx, store, f, o)
	return d.iter("ReadUsersetTuples", it, err)
}

func (d *faultDS) ReadStartingWithUser(ctx context.Context, store string, f storage.ReadStartingWithUserFilter, o storage.ReadStartingWithUserOptions) (storage.TupleIterator, error) {
	it, err := d.OpenFGADatastore.ReadStartingWithUser(ctx, store, f, o)
	return d.iter("ReadStartingWithUser", it, err)
}

func (d *faultDS) ReadUserTuple(ctx context.Context, store string, f storage.ReadUserTupleFilter, o storage.ReadUserTupleOptions) (*openfgav1.Tuple, error) {
	if d.fail("ReadUserTuple") {
		return nil, errInjected
	}
	return d.OpenFGADatastore.ReadUserTuple(ctx, store, f, o)
}

// barrierResolver answers every top-level Check exactly like the wrapped resolver, but holds the
// answers of the first `parties` Checks back until all of them are computed and then hands them
// out at the same instant (bounded wait, bounded spin): the interleaving in which a batch of
// confirming Checks of one ListObjects request completes together.
type barrierResolver struct {
	graph.CheckResolver
	parties int32
	mu      sync.Mutex
	arrived int32
	release chan struct{}
	ready   atomic.Int32
}

func newBarrierResolver(inner graph.CheckResolver, parties int) *barrierResolver {
	return &barrierResolver{CheckResolver: inner, parties: int32(parties), release: make(chan struct{})}
}

func (r *barrierResolver) ResolveCheck(ctx context.Context, req *graph.ResolveCheckRequest) (*graph.ResolveCheckResponse, error) {
	resp, err := r.CheckResolver.ResolveCheck(ctx, req)
	r.mu.Lock()
	r.arrived++
	if r.arrived == r.parties {
		close(r.release)
	}
	late := r.arrived > r.parties
	r.mu.Unlock()
	if late {
		return resp, err
	}
	select {
	case <-r.release:
	case <-ctx.Done():
		return resp, err
	case <-time.After(300 * time.Millisecond):
		return resp, err
	}
	r.ready.Add(1)
	for spins := 0; r.ready.Load() < r.parties && spins < 2_000_000; spins++ {
	}
	return resp, err
}
