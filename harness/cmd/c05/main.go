//go:build verif

// Driver for C05: the real ListObjectsQuery (Execute and ExecuteStreamed) for the classic reverse
// expansion, its weighted-graph variant and the pipeline engine, on the memory backend and on
// sqlite (temporary file, the repo's own migrations), for object / wildcard / userset subjects
// and result limits {none, default 1000, 1, 2, n-1, n, n+1}; plus the real candidate stream of
// reverseexpand.ReverseExpandQuery.Execute (classic and weighted) with statuses.
//
// One record per scenario:
//
//	1 model conds tuples atoms maxdepth ( request ... )
//	request = ( subject pathx objtype rel ( run ... ) ( stream ... ) )
//	run     = ( backend engine mode limit errclass ( objid ... ) )     objid = interned id of the returned object
//	stream  = ( backend engine errclass ( ( objid status ) ... ) )    status 1 = NoFurtherEval, 0 = RequiresFurtherEval
//	backend 0 memory 1 sqlite; engine 0 classic 1 weighted 2 pipeline; mode 0 Execute 1 ExecuteStreamed
//	mode 2 / 3: a TRANSIENT Execute / ExecuteStreamed answer: it held fewer objects than another
//	answer to the same request allowed for, and an immediate repetition of the call did not
//	show the shortfall again (schedule-dependent behaviour; the repetition is recorded as mode 0 / 1)
//	errclass 0 none 1 condition 2 too-complex/depth 3 validation 4 other 5 deadline/slow 6 hang (no response)
//
// A request may carry a 7th element ( extra ... ):
//
//	extra = ( 1 backend engine k variant transient errclass ( objid ... ) )   FAULT run: unary, maxResults 1000, the
//	        k-th datastore read of the call failed with a plain error (variant 0: the read call, 1: the
//	        iterator's first Next); recorded only when the fault was hit; transient = 1: the answer was
//	        successful but shorter than the fault-free answer and two repetitions did not show that again
//	extra = ( 2 backend engine limit parties count errclass ( objid ... ) )   BARRIER trial(s): classic engine, the
//	        first `parties` confirming Checks were released at the same instant; count identical outcomes
package main

import (
	"bufio"
	"context"
	"database/sql"
	"encoding/json"
	"errors"
	"fmt"
	"os"
	"path/filepath"
	"strings"
	"sync"
	"time"

	"github.com/pressly/goose/v3"
	"google.golang.org/grpc"

	openfgav1 "github.com/openfga/api/proto/openfga/v1"

	"github.com/openfga/openfga/assets"
	"github.com/openfga/openfga/internal/cachecontroller"
	"github.com/openfga/openfga/internal/condition"
	"github.com/openfga/openfga/internal/graph"
	"github.com/openfga/openfga/internal/shared"
	"github.com/openfga/openfga/internal/utils/apimethod"
	"github.com/openfga/openfga/internal/verifharness/lib/rec"
	"github.com/openfga/openfga/internal/verifharness/lib/scen"
	"github.com/openfga/openfga/pkg/featureflags"
	"github.com/openfga/openfga/pkg/server/commands"
	"github.com/openfga/openfga/pkg/server/commands/reverseexpand"
	serverconfig "github.com/openfga/openfga/pkg/server/config"
	serverErrors "github.com/openfga/openfga/pkg/server/errors"
	"github.com/openfga/openfga/pkg/storage"
	"github.com/openfga/openfga/pkg/storage/sqlcommon"
	"github.com/openfga/openfga/pkg/storage/sqlite"
	"github.com/openfga/openfga/pkg/storage/storagewrappers"
	"github.com/openfga/openfga/pkg/tuple"
	"github.com/openfga/openfga/pkg/typesystem"
)

const (
	maxDepth = 25
	deadline = 4 * time.Second
	watchdog = deadline + 1500*time.Millisecond

	engClassic  = 0
	engWeighted = 1
	engPipeline = 2

	errNone       = 0
	errCond       = 1
	errComplex    = 2
	errValidation = 3
	errOther      = 4
	errSlow       = 5
	errHang       = 6 // the call did not return within the deadline plus 1.5 s (abandoned)
)

// Req is one ListObjects request of a scenario (part of the replay description).
type Req struct {
	User  string `json:"user"`
	Type  string `json:"type"`
	Rel   string `json:"rel"`
	Chunk int    `json:"chunk"` // pipeline tuning
	Procs int    `json:"procs"`
	Buf   int    `json:"buf"`
	// Fault: sweep "every single-read fault" over this request (memory backend, all engines).
	Fault bool `json:"fault,omitempty"`
	// Barrier: number of trials in which the confirming Checks of the classic engine are released
	// together (only when the request has >= 2 candidates that need a Check).
	Barrier int `json:"barrier,omitempty"`
}

func openSqlite(dir string) (storage.OpenFGADatastore, error) {
	// the steps of pkg/testfixtures/storage.(*sqliteTestContainer).RunSqliteTestDatabase
	goose.SetLogger(goose.NopLogger())
	goose.SetBaseFS(assets.EmbedMigrations)
	path := filepath.Join(dir, "database.db")
	uri := fmt.Sprintf("file:%s?_pragma=journal_mode(WAL)&_pragma=busy_timeout(5000)&_pragma=synchronous(NORMAL)", path)
	db, err := goose.OpenDBWithDriver("sqlite", uri)
	if err != nil {
		return nil, err
	}
	if err := goose.Up(db, assets.SqliteMigrationDir); err != nil {
		db.Close()
		return nil, err
	}
	if err := db.Close(); err != nil {
		return nil, err
	}
	// sqlite.New = PrepareDSN + sql.Open + NewWithDB; done by hand to keep idle connections
	// (database/sql's default of 2 makes the 10-way concurrent readers reopen the file constantly)
	dsn, err := sqlite.PrepareDSN(uri)
	if err != nil {
		return nil, err
	}
	sdb, err := sql.Open("sqlite", dsn)
	if err != nil {
		return nil, err
	}
	sdb.SetMaxIdleConns(64)
	return sqlite.NewWithDB(sdb, sqlcommon.NewConfig())
}

func classifyErr(err error) int {
	if err == nil {
		return errNone
	}
	// the weighted engine wraps evaluation errors in reverseexpand.ExecutionError (no Unwrap), and
	// HandleError hides that behind "Internal Server Error": look at every message of the chain
	for e := err; e != nil; e = errors.Unwrap(e) {
		if strings.Contains(e.Error(), condition.ErrEvaluationFailed.Error()) {
			return errCond
		}
	}
	switch {
	case errors.Is(err, condition.ErrEvaluationFailed):
		return errCond
	case errors.Is(err, graph.ErrResolutionDepthExceeded), errors.Is(err, serverErrors.ErrAuthorizationModelResolutionTooComplex):
		return errComplex
	case errors.Is(err, context.DeadlineExceeded), errors.Is(err, context.Canceled),
		errors.Is(err, serverErrors.ErrRequestDeadlineExceeded), errors.Is(err, serverErrors.ErrRequestCancelled):
		return errSlow
	}
	var tnf *tuple.TypeNotFoundError
	var rnf *tuple.RelationNotFoundError
	if errors.As(err, &tnf) || errors.As(err, &rnf) {
		return errValidation
	}
	msg := err.Error()
	if strings.Contains(msg, "invalid 'user' value") || strings.Contains(msg, "not found") {
		return errValidation
	}
	return errOther
}

type streamSrv struct {
	grpc.ServerStream
	ctx  context.Context
	mu   sync.Mutex
	objs []string
}

func (s *streamSrv) Send(m *openfgav1.StreamedListObjectsResponse) error {
	s.mu.Lock()
	s.objs = append(s.objs, m.GetObject())
	s.mu.Unlock()
	return nil
}
func (s *streamSrv) Context() context.Context { return s.ctx }

type runner struct {
	ctx      context.Context
	env      *scen.Env
	resolver graph.CheckResolver
	fellBack bool // set by list: the last pipeline call was served by the classic reverse expansion
}

func engineOpts(engine int, rq Req, limit uint32) []commands.ListObjectsQueryOption {
	var flags []string
	pipeline := false
	switch engine {
	case engWeighted:
		flags = []string{serverconfig.ExperimentalListObjectsOptimizations}
	case engPipeline:
		flags = []string{serverconfig.ExperimentalPipelineListObjects}
		pipeline = true
	}
	opts := []commands.ListObjectsQueryOption{
		commands.WithFeatureFlagClient(featureflags.NewDefaultClient(flags)),
		commands.WithListObjectsPipelineEnabled(pipeline),
		commands.WithListObjectsDeadline(deadline),
		commands.WithListObjectsMaxResults(limit),
		commands.WithResolveNodeLimit(maxDepth),
	}
	if pipeline {
		opts = append(opts, commands.WithListObjectsChunkSize(rq.Chunk), commands.WithListObjectsNumProcs(rq.Procs),
			commands.WithListObjectsBufferCapacity(rq.Buf))
	}
	return opts
}

// list runs one real ListObjects call under a watchdog: a call that does not return within the
// ListObjects deadline plus 1.5 s is abandoned (its goroutines leak) and reported as errHang.
func (r *runner) list(rq Req, engine, mode int, limit uint32) (int, []string) {
	return r.listWith(r.env.DS, r.resolver, rq, engine, mode, limit)
}

// listWith: the same with a substituted datastore (fault injection) or check resolver (barrier).
func (r *runner) listWith(ds storage.OpenFGADatastore, resolver graph.CheckResolver, rq Req, engine, mode int, limit uint32) (int, []string) {
	type res struct {
		ec   int
		objs []string
	}
	ch := make(chan res, 1)
	go func() {
		ec, objs, fellBack := r.list1(ds, resolver, rq, engine, mode, limit)
		if fellBack {
			r.fellBack = true
		}
		ch <- res{ec, objs}
	}()
	select {
	case x := <-ch:
		return x.ec, x.objs
	case <-time.After(watchdog):
		if os.Getenv("C05_DEBUG") != "" {
			fmt.Fprintf(os.Stderr, "HANG engine=%d mode=%d limit=%d req=%+v\n", engine, mode, limit, rq)
		}
		return errHang, nil
	}
}

// list1 runs one real ListObjects call; mode 0 = Execute, 1 = ExecuteStreamed.  fellBack: the
// pipeline was requested but the call went through evaluate (classic reverse expansion).
func (r *runner) list1(ds storage.OpenFGADatastore, resolver graph.CheckResolver, rq Req, engine, mode int, limit uint32) (int, []string, bool) {
	q, err := commands.NewListObjectsQuery(ds, resolver, r.env.StoreID, engineOpts(engine, rq, limit)...)
	if err != nil {
		panic(err)
	}
	ctx := typesystem.ContextWithTypesystem(r.ctx, r.env.TS)
	start := time.Now()
	var objs []string
	fellBack := false
	if mode == 0 {
		var res *commands.ListObjectsResponse
		res, err = q.Execute(ctx, &openfgav1.ListObjectsRequest{
			StoreId: r.env.StoreID, AuthorizationModelId: r.env.Model.GetId(),
			Type: rq.Type, Relation: rq.Rel, User: rq.User, Context: scen.Struct(r.env.S.ReqCtx),
		})
		if res != nil {
			objs = res.Objects
			fellBack = engine == engPipeline && !res.ResolutionMetadata.WasWeightedGraphUsed.Load()
		}
	} else {
		srv := &streamSrv{ctx: ctx}
		var md *commands.ListObjectsResolutionMetadata
		md, err = q.ExecuteStreamed(ctx, &openfgav1.StreamedListObjectsRequest{
			StoreId: r.env.StoreID, AuthorizationModelId: r.env.Model.GetId(),
			Type: rq.Type, Relation: rq.Rel, User: rq.User, Context: scen.Struct(r.env.S.ReqCtx),
		}, srv)
		srv.mu.Lock()
		objs = append([]string{}, srv.objs...)
		srv.mu.Unlock()
		if md != nil {
			fellBack = engine == engPipeline && !md.WasWeightedGraphUsed.Load()
		}
	}
	ec := classifyErr(err)
	if ec == errOther && os.Getenv("C05_DEBUG") != "" {
		fmt.Fprintf(os.Stderr, "other error: engine=%d mode=%d limit=%d req=%+v err=%v internal=%v\n%s\n", engine, mode, limit, rq, err, errors.Unwrap(err), r.env.S.String())
	}
	if ec == errNone && time.Since(start) > deadline*9/10 {
		ec = errSlow // the deadline may have truncated the result silently
	}
	return ec, objs, fellBack
}

type candidate struct {
	obj    string
	status int
}

// stream records the real candidate stream of ReverseExpandQuery.Execute, built the way
// ListObjectsQuery.evaluate builds it.
func (r *runner) stream(rq Req, weighted bool) (int, []candidate) {
	userObj, userRel := tuple.SplitObjectRelation(rq.User)
	userObjType, userObjID := tuple.SplitObject(userObj)
	var ref reverseexpand.IsUserRef = &reverseexpand.UserRefObject{Object: &openfgav1.Object{Type: userObjType, Id: userObjID}}
	if tuple.IsTypedWildcard(userObj) {
		ref = &reverseexpand.UserRefTypedWildcard{Type: tuple.GetType(userObj)}
	}
	if userRel != "" {
		ref = &reverseexpand.UserRefObjectRelation{ObjectRelation: &openfgav1.ObjectRelation{Object: userObj, Relation: userRel}}
	}
	ds := storagewrappers.NewRequestStorageWrapperWithCache(r.env.DS, nil,
		&storagewrappers.Operation{Method: apimethod.ListObjects, Concurrency: serverconfig.DefaultMaxConcurrentReadsForListObjects},
		storagewrappers.DataResourceConfiguration{
			Resources:     &shared.SharedDatastoreResources{CacheController: cachecontroller.NewNoopCacheController()},
			CacheSettings: serverconfig.NewDefaultCacheSettings(),
		})
	q := reverseexpand.NewReverseExpandQuery(ds, r.env.TS,
		reverseexpand.WithResolveNodeLimit(maxDepth),
		reverseexpand.WithResolveNodeBreadthLimit(serverconfig.DefaultResolveNodeBreadthLimit),
		reverseexpand.WithCheckResolver(r.resolver),
		reverseexpand.WithListObjectOptimizationsEnabled(weighted),
	)
	ctx, cancel := context.WithTimeout(typesystem.ContextWithTypesystem(r.ctx, r.env.TS), deadline)
	defer cancel()
	ch := make(chan *reverseexpand.ReverseExpandResult, 16)
	var out []candidate
	done := make(chan struct{})
	go func() {
		defer close(done)
		for c := range ch {
			st := 0
			if c.ResultStatus == reverseexpand.NoFurtherEvalStatus {
				st = 1
			}
			out = append(out, candidate{c.Object, st})
		}
	}()
	err := q.Execute(ctx, &reverseexpand.ReverseExpandRequest{
		StoreID: r.env.StoreID, ObjectType: rq.Type, Relation: rq.Rel, User: ref,
		Context: scen.Struct(r.env.S.ReqCtx),
	}, ch, reverseexpand.NewResolutionMetadata())
	if err != nil {
		close(ch) // Execute leaves the channel open when it fails
	}
	<-done
	return classifyErr(err), out
}

func limitsFor(n int) []uint32 {
	set := map[int]bool{}
	var out []uint32
	for _, l := range []int{1, 2, n - 1, n, n + 1} {
		if l > 0 && !set[l] {
			set[l] = true
			out = append(out, uint32(l))
		}
	}
	return out
}

var errNames = []string{"ok", "cond", "complex", "validation", "other", "slow", "hang"}
var engNames = []string{"classic", "weighted", "pipeline"}

func chooseRequests(r *rec.Rand, s *scen.Scenario, subjects []string, probe func(Req) int) []Req {
	var all []Req
	for _, u := range subjects {
		for _, td := range s.Types {
			for _, rd := range td.Rels {
				all = append(all, Req{User: u, Type: td.Name, Rel: rd.Name})
			}
		}
	}
	if len(all) == 0 {
		return nil
	}
	rec.Shuffle(r, all)
	if strings.HasPrefix(s.Shape, "c05-") {
		// the shapes of scen.GenerateC05 are about their derived relations: ask about those first
		var derived, plain []Req
		for _, q := range all {
			if rd := s.Rel(q.Type, q.Rel); rd != nil && rd.RW.Op != "this" {
				derived = append(derived, q)
			} else {
				plain = append(plain, q)
			}
		}
		all = append(derived, plain...)
	}
	var many, one, rest []Req
	for _, q := range all {
		switch n := probe(q); {
		case n >= 2:
			many = append(many, q)
		case n == 1:
			one = append(one, q)
		default:
			rest = append(rest, q)
		}
	}
	var out []Req
	take := func(l []Req, k int) {
		for i := 0; i < len(l) && i < k; i++ {
			out = append(out, l[i])
		}
	}
	if s.Shape == "c05-wide-intersection" {
		// every intersection of this shape holds exactly one object per user: ask about many of them
		take(many, 2)
		take(one, 5)
		take(rest, 1)
	} else {
		take(many, 3)
		take(one, 1)
		take(rest, 2)
	}
	for i := range out {
		out[i].Chunk = rec.Pick(r, []int{1, 2, 100})
		out[i].Procs = rec.Pick(r, []int{1, 3})
		out[i].Buf = rec.Pick(r, []int{1, 128})
	}
	return out
}

func runScenario(ctx context.Context, w *rec.Writer, r *rec.Rand, sq storage.OpenFGADatastore, s *scen.Scenario, reqs []Req, full, sweep bool) {
	envM, err := scen.NewEnv(ctx, s)
	if err != nil {
		if errors.Is(err, scen.ErrModelRejected) {
			w.Stat("models_rejected", 1)
			return
		}
		panic(err)
	}
	defer envM.Close()
	envS, err := scen.NewEnvOn(ctx, sq, s)
	if err != nil {
		panic(err)
	}
	w.Stat("models_accepted", 1)
	w.Stat("shape_"+s.Shape, 1)
	if os.Getenv("C05_DEBUG") != "" {
		js, _ := json.Marshal(s)
		fmt.Fprintf(os.Stderr, "SCENARIO %s\n%s\n", js, s.String())
	}
	in := scen.NewIntern()
	model := in.Model(s)
	conds := in.Conds(s)
	var tvs []rec.V
	for _, t := range s.Tuples {
		ce := envM.CEval(ctx, t)
		if ce == 2 {
			w.Stat("tuples_cond_error", 1)
		}
		tvs = append(tvs, in.Tuple(t, ce))
	}
	w.Stat("tuples", len(s.Tuples))

	resolver, closer := scen.Resolver(scen.NewForcedPlanner("default"), maxDepth)
	defer closer()
	runners := []*runner{{ctx: ctx, env: envM, resolver: resolver}, {ctx: ctx, env: envS, resolver: resolver}}

	var subjects []string
	if reqs == nil {
		subjects = s.Subjects(r, 4)
		reqs = chooseRequests(r, s, subjects, func(q Req) int {
			_, objs := runners[0].list(q, engClassic, 0, 0)
			return len(objs)
		})
		for i := range reqs {
			reqs[i].Barrier = 6
			if full {
				reqs[i].Barrier = 20
			}
			if sweep && i < 2 {
				reqs[i].Fault = true
			}
		}
	} else {
		for _, q := range reqs {
			subjects = append(subjects, q.User)
		}
	}
	objects := s.Objects(subjects...)
	atoms := in.Atoms(s, objects)

	var rvs []rec.V
	for _, rq := range reqs {
		ut, uid, urel := scen.SplitUser(rq.User)
		switch {
		case urel != "":
			w.Stat("subject_userset", 1)
		case uid == "*":
			w.Stat("subject_wildcard", 1)
		case ut == "user":
			w.Stat("subject_user", 1)
		default:
			w.Stat("subject_object", 1)
		}
		var pxs []rec.V
		for _, p := range envM.PathX(rq.User) {
			pxs = append(pxs, rec.L(rec.I(in.T(p[0])), rec.I(in.R(p[1]))))
		}
		var runs, streams []rec.V
		memRFE := 0 // candidates of the classic stream on memory that need a confirming Check
		emit := func(b, engine, mode int, limit uint32, ec int, objs []string) {
			if engine == engPipeline && runners[b].fellBack {
				engine = engClassic // effective engine
				w.Stat("calls_pipeline_fell_back_to_classic", 1)
			}
			runners[b].fellBack = false
			ids := make([]rec.V, 0, len(objs))
			for _, o := range objs {
				t, id := scen.SplitObj(o)
				if t != rq.Type {
					w.PropFail(fmt.Sprintf("ListObjects(type=%s) returned %q: an object of another type", rq.Type, o),
						map[string]any{"scenario": s, "requests": []Req{rq}})
				}
				ids = append(ids, rec.I(in.ID(id)))
			}
			runs = append(runs, rec.L(rec.I(b), rec.I(engine), rec.I(mode), rec.I(int(limit)), rec.I(ec), rec.L(ids...)))
			if os.Getenv("C05_DEBUG") != "" {
				fmt.Fprintf(os.Stderr, "run %v backend=%d engine=%s mode=%d limit=%d err=%s objs=%v\n", rq, b, engNames[engine], mode, limit, errNames[ec], objs)
			}
			w.Stat("calls", 1)
			w.Stat("calls_"+engNames[engine]+"_"+errNames[ec], 1)
		}
		hung := map[int]bool{}
		for b, rn := range runners {
			for engine := engClassic; engine <= engPipeline; engine++ {
				if hung[engine] {
					w.Stat("calls_skipped_after_hang", 1)
					continue // the hang does not depend on the backend; do not wait for it twice
				}
				ec0, objs0 := rn.list(rq, engine, 0, 0)
				emit(b, engine, 0, 0, ec0, objs0)
				if ec0 == errHang {
					hung[engine] = true
					continue // no response at all: the remaining calls of this engine would hang as well
				}
				if b == 0 && engine == engClassic {
					switch n := len(objs0); {
					case n == 0:
						w.Stat("result_empty", 1)
					case n == 1:
						w.Stat("result_1", 1)
					case n <= 3:
						w.Stat("result_2_3", 1)
					default:
						w.Stat("result_4plus", 1)
					}
				}
				// nref: the largest successful answer so far; a later successful answer that is
				// shorter than min(limit, nref) is repeated (up to 2 times) to tell
				// schedule-dependent shortfalls from systematic ones
				nref := 0
				if ec0 == errNone {
					nref = len(objs0)
				}
				call := func(mode int, limit uint32) {
					expected := nref
					if limit > 0 && int(limit) < expected {
						expected = int(limit)
					}
					ec, objs := rn.list(rq, engine, mode, limit)
					if ec == errNone && len(objs) < expected {
						for try := 0; try < 2; try++ {
							ec2, objs2 := rn.list(rq, engine, mode, limit)
							w.Stat("calls_repeated_after_shortfall", 1)
							if ec2 != errNone || len(objs2) >= expected {
								emit(b, engine, mode+2, limit, ec, objs) // transient
								w.Stat("calls_transient_shortfall", 1)
								ec, objs = ec2, objs2
								break
							}
						}
					}
					emit(b, engine, mode, limit, ec, objs)
					if ec == errNone && len(objs) > nref {
						nref = len(objs)
					}
				}
				call(1, 0)
				call(0, serverconfig.DefaultListObjectsMaxResults)
				lims := limitsFor(len(objs0))
				if !full && len(lims) > 3 && b == 1 {
					lims = lims[len(lims)-3:] // sqlite is slower: n-1, n, n+1 only
				}
				for _, l := range lims {
					call(0, l)
					w.Stat("calls_limited", 1)
				}
			}
			for wi, weighted := range []bool{false, true} {
				ec, cs := rn.stream(rq, weighted)
				var cvs []rec.V
				nf, rf := 0, 0
				for _, c := range cs {
					t, id := scen.SplitObj(c.obj)
					if t != rq.Type {
						w.PropFail(fmt.Sprintf("reverse expansion(type=%s) produced candidate %q of another type", rq.Type, c.obj),
							map[string]any{"scenario": s, "requests": []Req{rq}})
					}
					cvs = append(cvs, rec.L(rec.I(in.ID(id)), rec.I(c.status)))
					if c.status == 1 {
						nf++
					} else {
						rf++
					}
				}
				if os.Getenv("C05_DEBUG") != "" {
					fmt.Fprintf(os.Stderr, "stream %v backend=%d weighted=%v err=%s cands=%v\n", rq, b, weighted, errNames[ec], cs)
				}
				if b == 0 && !weighted {
					memRFE = rf
				}
				w.Stat("candidates_nofurther", nf)
				w.Stat("candidates_requires_check", rf)
				w.Stat("streams_"+errNames[ec], 1)
				streams = append(streams, rec.L(rec.I(b), rec.I(wi), rec.I(ec), rec.L(cvs...)))
			}
		}
		var extras []rec.V
		idsOf := func(objs []string) rec.V {
			ids := make([]rec.V, 0, len(objs))
			for _, o := range objs {
				t, id := scen.SplitObj(o)
				if t != rq.Type {
					w.PropFail(fmt.Sprintf("ListObjects(type=%s) returned %q: an object of another type", rq.Type, o),
						map[string]any{"scenario": s, "requests": []Req{rq}})
				}
				ids = append(ids, rec.I(in.ID(id)))
			}
			return rec.L(ids...)
		}
		rn := runners[0]
		if rq.Fault {
			// ---- every single-read fault (memory backend, every engine, unary, maxResults 1000) ----
			for engine := engClassic; engine <= engPipeline; engine++ {
				count := &faultDS{OpenFGADatastore: envM.DS, failAt: -1}
				ec0, objs0 := rn.listWith(count, rn.resolver, rq, engine, 0, serverconfig.DefaultListObjectsMaxResults)
				eff := engine
				if engine == engPipeline && rn.fellBack {
					eff = engClassic
				}
				rn.fellBack = false
				if ec0 != errNone {
					continue
				}
				n := int(count.n.Load())
				w.Stat("fault_reads_per_call", n)
				w.Stat("fault_sweeps", 1)
				maxPos := 24
				if full {
					maxPos = 80
				}
				var positions []int
				for k := 0; k < n; k++ {
					positions = append(positions, k)
				}
				if n > maxPos {
					rec.Shuffle(r, positions)
					positions = positions[:maxPos]
				}
				for _, k := range positions {
					variants := []int{k % 2}
					if n <= 12 {
						variants = []int{0, 1}
					}
					for _, variant := range variants {
						run := func() (int, []string, bool) {
							f := &faultDS{OpenFGADatastore: envM.DS, failAt: int64(k), variant: variant}
							ec, objs := rn.listWith(f, rn.resolver, rq, engine, 0, serverconfig.DefaultListObjectsMaxResults)
							rn.fellBack = false
							return ec, objs, f.hit.Load()
						}
						ec, objs, hit := run()
						if !hit {
							w.Stat("fault_not_hit", 1)
							continue
						}
						transient := 0
						if ec == errNone && len(objs) < len(objs0) {
							for try := 0; try < 2; try++ {
								ec2, objs2, hit2 := run()
								if hit2 && (ec2 != errNone || len(objs2) >= len(objs0)) {
									transient = 1
									break
								}
							}
						}
						w.Stat("fault_runs", 1)
						w.Stat("fault_runs_"+engNames[eff]+"_"+errNames[ec], 1)
						extras = append(extras, rec.L(rec.I(1), rec.I(0), rec.I(eff), rec.I(k), rec.I(variant), rec.I(transient), rec.I(ec), idsOf(objs)))
						if os.Getenv("C05_DEBUG") != "" {
							fmt.Fprintf(os.Stderr, "fault %v engine=%s k=%d/%d variant=%d transient=%d err=%s objs=%v (fault-free %v)\n", rq, engNames[eff], k, n, variant, transient, errNames[ec], objs, objs0)
						}
					}
				}
			}
		}
		if rq.Barrier > 0 && memRFE >= 2 {
			// ---- confirming Checks released together (classic engine) ----
			parties := memRFE
			if parties > 8 {
				parties = 8
			}
			limits := []uint32{uint32(parties - 1)}
			if parties >= 8 {
				limits = []uint32{7, 6, 3}
			}
			type outcome struct {
				limit uint32
				ec    int
				key   string
			}
			counts := map[outcome]int{}
			first := map[outcome][]string{}
			var order []outcome
			for trial := 0; trial < rq.Barrier; trial++ {
				l := limits[trial%len(limits)]
				ec, objs := rn.listWith(envM.DS, newBarrierResolver(rn.resolver, parties), rq, engClassic, 0, l)
				rn.fellBack = false
				o := outcome{l, ec, strings.Join(objs, ",")}
				if counts[o] == 0 {
					order = append(order, o)
					first[o] = objs
				}
				counts[o]++
				w.Stat("barrier_trials", 1)
			}
			for _, o := range order {
				extras = append(extras, rec.L(rec.I(2), rec.I(0), rec.I(engClassic), rec.I(int(o.limit)), rec.I(parties), rec.I(counts[o]), rec.I(o.ec), idsOf(first[o])))
			}
		}
		ot := rec.I(in.T(rq.Type))
		rvs = append(rvs, rec.L(in.Subject(rq.User), rec.L(pxs...), ot, rec.I(in.R(rq.Rel)), rec.L(runs...), rec.L(streams...), rec.L(extras...)))
		w.Stat("requests", 1)
	}
	nt := len(reqs) > 0
	desc := map[string]any{"scenario": s, "requests": reqs, "text": s.String()}
	if !nt {
		desc["nt"] = false
	}
	w.Case(desc, rec.I(1), model, conds, rec.L(tvs...), atoms, rec.I(maxDepth), rec.L(rvs...))
}

type witness struct {
	s    *scen.Scenario
	reqs []Req
}

// witnesses are the concrete inputs of the findings listed in checks/C05.findings.json; they are
// run first on every (non-replay) run, so each KNOWN flag is confirmed on the real code every time.
func witnesses() []witness {
	user := scen.TypeDef{Name: "user"}
	dflt := func(u, t, r string) Req { return Req{User: u, Type: t, Rel: r, Chunk: 100, Procs: 3, Buf: 128} }
	var out []witness
	// former finding F7 rswu_userset_leak (DESIGN.md section 8), repaired by a279b76: kept as a
	// regression scenario — sqlite must answer [doc:1] like memory, for all three engines
	out = append(out, witness{&scen.Scenario{Shape: "witness-rswu_userset_leak", Types: []scen.TypeDef{user,
		{Name: "group", Rels: []scen.RelDef{{Name: "member", RW: scen.This(), Restr: []scen.Restr{scen.RObj("user")}}}},
		{Name: "doc", Rels: []scen.RelDef{{Name: "viewer", RW: scen.This(),
			Restr: []scen.Restr{scen.RObj("user"), scen.RObj("group"), scen.RSet("group", "member")}}}},
	}, Tuples: []scen.Tuple{
		{Obj: "doc:1", Rel: "viewer", User: "group:1"},
		{Obj: "doc:2", Rel: "viewer", User: "group:1#member"},
		{Obj: "group:1", Rel: "member", User: "user:a"},
	}}, []Req{dflt("group:1", "doc", "viewer"), {User: "user:a", Type: "doc", Rel: "viewer", Chunk: 1, Procs: 1, Buf: 1}}})
	// limit0_error_swallowed: doc:1's condition cannot be evaluated, doc:2 is permitted
	out = append(out, witness{&scen.Scenario{Shape: "witness-limit0_error_swallowed", Conds: []string{"c1"}, Types: []scen.TypeDef{user,
		{Name: "group", Rels: []scen.RelDef{{Name: "member", RW: scen.This(), Restr: []scen.Restr{scen.RObj("user")}}}},
		{Name: "doc", Rels: []scen.RelDef{{Name: "viewer", RW: scen.This(),
			Restr: []scen.Restr{scen.RObj("user").With("c1"), scen.RSet("group", "member")}}}},
	}, Tuples: []scen.Tuple{
		{Obj: "doc:1", Rel: "viewer", User: "user:a", Cond: "c1"},
		{Obj: "doc:2", Rel: "viewer", User: "group:1#member"},
		{Obj: "group:1", Rel: "member", User: "user:a"},
	}}, []Req{dflt("user:a", "doc", "viewer")}})
	// weighted_degenerate_rewrite: editor: [user] and [user]
	out = append(out, witness{&scen.Scenario{Shape: "witness-weighted_degenerate_rewrite", Types: []scen.TypeDef{user,
		{Name: "doc", Rels: []scen.RelDef{{Name: "editor", RW: scen.Inter(scen.This(), scen.This()), Restr: []scen.Restr{scen.RObj("user")}}}},
	}, Tuples: []scen.Tuple{{Obj: "doc:1", Rel: "editor", User: "user:a"}}},
		[]Req{dflt("user:a", "doc", "editor")}})
	// pipeline_strict_condition_filter: user:* with c1 is accepted by ValidateTupleForRead because
	// `user with c1` carries c1 (F4); Check and the other engines use the tuple, the pipeline does not
	out = append(out, witness{&scen.Scenario{Shape: "witness-pipeline_strict_condition_filter", Conds: []string{"c1"},
		ReqCtx: map[string]any{"x": 1}, Types: []scen.TypeDef{user,
			{Name: "group", Rels: []scen.RelDef{{Name: "member", RW: scen.This(),
				Restr: []scen.Restr{scen.RObj("user").With("c1"), scen.RWild("user")}}}},
			{Name: "doc", Rels: []scen.RelDef{{Name: "editor", RW: scen.This(), Restr: []scen.Restr{scen.RSet("group", "member")}}}},
		}, Tuples: []scen.Tuple{
			{Obj: "group:3", Rel: "member", User: "user:*", Cond: "c1", Ctx: map[string]any{"x": 1}},
			{Obj: "doc:2", Rel: "editor", User: "group:3#member"},
		}}, []Req{dflt("user:a", "doc", "editor")}})
	// pipeline_streamed_error_failopen: doc:3 is blocked (condition met), doc:1's blocked-condition
	// cannot be evaluated: the streamed pipeline sends both and then fails
	out = append(out, witness{&scen.Scenario{Shape: "witness-pipeline_streamed_error_failopen", Conds: []string{"c1"}, Types: []scen.TypeDef{user,
		{Name: "doc", Rels: []scen.RelDef{
			{Name: "viewer", RW: scen.This(), Restr: []scen.Restr{scen.RObj("user")}},
			{Name: "blocked", RW: scen.This(), Restr: []scen.Restr{scen.RObj("user").With("c1")}},
			{Name: "allowed", RW: scen.Diff(scen.Comp("viewer"), scen.Comp("blocked"))},
		}}}, Tuples: []scen.Tuple{
		{Obj: "doc:1", Rel: "viewer", User: "user:b"},
		{Obj: "doc:3", Rel: "viewer", User: "user:b"},
		{Obj: "doc:1", Rel: "blocked", User: "user:b", Cond: "c1"},
		{Obj: "doc:3", Rel: "blocked", User: "user:b", Cond: "c1", Ctx: map[string]any{"x": 1}},
	}}, []Req{dflt("user:b", "doc", "allowed")}})
	// every single-read fault on an intersection and an exclusion with several candidates: a response
	// without error must be the complete permitted set, whatever read failed
	{
		var ts []scen.Tuple
		for i := 1; i <= 6; i++ {
			ts = append(ts, scen.Tuple{Obj: fmt.Sprintf("doc:%d", i), Rel: "viewer", User: "user:a"},
				scen.Tuple{Obj: fmt.Sprintf("doc:%d", i), Rel: "editor", User: "user:a"})
		}
		ts = append(ts, scen.Tuple{Obj: "doc:2", Rel: "blocked", User: "user:a"})
		out = append(out, witness{&scen.Scenario{Shape: "fixed-single-read-faults", Types: []scen.TypeDef{user,
			{Name: "doc", Rels: []scen.RelDef{
				{Name: "viewer", RW: scen.This(), Restr: []scen.Restr{scen.RObj("user")}},
				{Name: "editor", RW: scen.This(), Restr: []scen.Restr{scen.RObj("user")}},
				{Name: "blocked", RW: scen.This(), Restr: []scen.Restr{scen.RObj("user")}},
				{Name: "owner", RW: scen.Inter(scen.Comp("viewer"), scen.Comp("editor"))},
				{Name: "allowed", RW: scen.Diff(scen.Comp("viewer"), scen.Comp("blocked"))},
			}}}, Tuples: ts}, []Req{
			{User: "user:a", Type: "doc", Rel: "owner", Chunk: 100, Procs: 3, Buf: 128, Fault: true},
			{User: "user:a", Type: "doc", Rel: "allowed", Chunk: 2, Procs: 1, Buf: 1, Fault: true}}})
	}
	// one userset (team#member, itself assigned through group#member) reached from doc#viewer along two
	// different paths of equal depth, a different document on each
	out = append(out, witness{&scen.Scenario{Shape: "fixed-equal-depth-paths", Types: []scen.TypeDef{user,
		{Name: "group", Rels: []scen.RelDef{{Name: "member", RW: scen.This(), Restr: []scen.Restr{scen.RObj("user")}}}},
		{Name: "team", Rels: []scen.RelDef{{Name: "member", RW: scen.This(), Restr: []scen.Restr{scen.RSet("group", "member")}}}},
		{Name: "doc", Rels: []scen.RelDef{
			{Name: "parent", RW: scen.This(), Restr: []scen.Restr{scen.RObj("team")}},
			{Name: "owner", RW: scen.This(), Restr: []scen.Restr{scen.RObj("team")}},
			{Name: "editor", RW: scen.This(), Restr: []scen.Restr{scen.RSet("team", "member")}},
			{Name: "viewer", RW: scen.Union(scen.This(), scen.TTU("parent", "member")), Restr: []scen.Restr{scen.RSet("team", "member")}},
			{Name: "allowed", RW: scen.Union(scen.TTU("parent", "member"), scen.TTU("owner", "member"))},
			{Name: "blocked", RW: scen.Union(scen.Comp("editor"), scen.Comp("viewer"))},
		}}}, Tuples: []scen.Tuple{
		{Obj: "group:1", Rel: "member", User: "user:a"},
		{Obj: "team:1", Rel: "member", User: "group:1#member"},
		{Obj: "doc:1", Rel: "viewer", User: "team:1#member"},
		{Obj: "doc:2", Rel: "parent", User: "team:1"},
		{Obj: "doc:3", Rel: "owner", User: "team:1"},
		{Obj: "doc:4", Rel: "editor", User: "team:1#member"},
	}}, []Req{dflt("user:a", "doc", "viewer"), dflt("user:a", "doc", "allowed"), dflt("user:a", "doc", "blocked")}})
	// parent types whose names are prefixes of one another, with different conditions on the
	// tupleset restrictions (the pipeline pushes the restriction's condition list to the datastore)
	out = append(out, witness{&scen.Scenario{Shape: "fixed-prefix-types", Conds: []string{"c1"}, ReqCtx: map[string]any{"x": 1},
		Types: []scen.TypeDef{user,
			{Name: "folder", Rels: []scen.RelDef{{Name: "viewer", RW: scen.This(), Restr: []scen.Restr{scen.RObj("user")}}}},
			{Name: "folderx", Rels: []scen.RelDef{{Name: "viewer", RW: scen.This(), Restr: []scen.Restr{scen.RObj("user")}}}},
			{Name: "doc", Rels: []scen.RelDef{
				{Name: "parent", RW: scen.This(), Restr: []scen.Restr{scen.RObj("folder"), scen.RObj("folderx").With("c1")}},
				{Name: "viewer", RW: scen.TTU("parent", "viewer")},
			}}}, Tuples: []scen.Tuple{
			{Obj: "folder:1", Rel: "viewer", User: "user:a"},
			{Obj: "folderx:1", Rel: "viewer", User: "user:a"},
			{Obj: "folderx:2", Rel: "viewer", User: "user:b"},
			{Obj: "doc:1", Rel: "parent", User: "folder:1"},
			{Obj: "doc:2", Rel: "parent", User: "folderx:1", Cond: "c1", Ctx: map[string]any{"x": 1}},
			{Obj: "doc:3", Rel: "parent", User: "folderx:1", Cond: "c1", Ctx: map[string]any{"x": -1}},
			{Obj: "doc:4", Rel: "parent", User: "folderx:2", Cond: "c1"},
		}}, []Req{dflt("user:a", "doc", "viewer"), dflt("user:b", "doc", "viewer")}})
	// a batch of confirming Checks completing together against small limits (classic engine)
	{
		var ts []scen.Tuple
		for i := 1; i <= 24; i++ {
			ts = append(ts, scen.Tuple{Obj: fmt.Sprintf("doc:%d", i), Rel: "viewer", User: "user:a"})
		}
		out = append(out, witness{&scen.Scenario{Shape: "fixed-check-barrier", Types: []scen.TypeDef{user,
			{Name: "doc", Rels: []scen.RelDef{
				{Name: "blocked", RW: scen.This(), Restr: []scen.Restr{scen.RObj("user")}},
				{Name: "viewer", RW: scen.Diff(scen.This(), scen.Comp("blocked")), Restr: []scen.Restr{scen.RObj("user")}},
			}}}, Tuples: ts}, []Req{{User: "user:a", Type: "doc", Rel: "viewer", Chunk: 100, Procs: 3, Buf: 128, Barrier: 150}}})
	}
	return out
}

func main() {
	o := rec.ParseFlags()
	w := rec.NewWriter(o.Out)
	defer w.Close()
	ctx := context.Background()

	if err := os.MkdirAll("/tmp/c05", 0o755); err != nil {
		panic(err)
	}
	dir, err := os.MkdirTemp("/tmp/c05", "run-*")
	if err != nil {
		panic(err)
	}
	defer func() {
		os.RemoveAll(dir)
		os.Remove("/tmp/c05") // only succeeds when no other run is using it
	}()
	sq, err := openSqlite(dir)
	if err != nil {
		os.RemoveAll(dir)
		panic(err)
	}
	defer sq.Close()
	full := o.Tier == "thorough"

	if o.Replay != "" {
		f, err := os.Open(o.Replay)
		if err != nil {
			panic(err)
		}
		defer f.Close()
		sc := bufio.NewScanner(f)
		sc.Buffer(make([]byte, 1<<20), 1<<26)
		for sc.Scan() {
			var d struct {
				Scenario *scen.Scenario `json:"scenario"`
				Requests []Req          `json:"requests"`
			}
			if json.Unmarshal(sc.Bytes(), &d) != nil || d.Scenario == nil {
				continue
			}
			if d.Requests == nil {
				d.Requests = []Req{}
			}
			runScenario(ctx, w, rec.NewRand(1), sq, d.Scenario, d.Requests, true, false)
		}
		return
	}
	for _, wt := range witnesses() {
		runScenario(ctx, w, rec.NewRand(1), sq, wt.s, wt.reqs, true, false)
	}
	r := rec.NewRand(o.Seed)
	for i := 0; i < o.N; i++ {
		rr := r.Fork()
		var s *scen.Scenario
		if i%4 == 3 {
			// equal-depth multi-path usersets and wide intersections (harness/lib/scen/c05_shapes.go)
			s = scen.GenerateC05(rr, scen.DefaultOpts())
		} else {
			s = scen.Generate(rr, scen.DefaultOpts())
		}
		runScenario(ctx, w, rr, sq, s, nil, full, i%3 == 0)
	}
}
