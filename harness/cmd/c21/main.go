//go:build verif

package main

import (
	"context"
	"fmt"
	"unsafe"

	_ "github.com/openfga/openfga/internal/listobjects/pipeline"
)

//go:linkname newStatusPool github.com/openfga/openfga/internal/listobjects/pipeline/internal/track.NewStatusPool
func newStatusPool() unsafe.Pointer

//go:linkname spRegister github.com/openfga/openfga/internal/listobjects/pipeline/internal/track.(*StatusPool).Register
func spRegister(sp unsafe.Pointer) unsafe.Pointer

//go:linkname spWait github.com/openfga/openfga/internal/listobjects/pipeline/internal/track.(*StatusPool).Wait
func spWait(sp unsafe.Pointer, ctx context.Context) bool

//go:linkname rpInc github.com/openfga/openfga/internal/listobjects/pipeline/internal/track.(*Reporter).Inc
func rpInc(r unsafe.Pointer)

//go:linkname rpDec github.com/openfga/openfga/internal/listobjects/pipeline/internal/track.(*Reporter).Dec
func rpDec(r unsafe.Pointer)

//go:linkname rpReport github.com/openfga/openfga/internal/listobjects/pipeline/internal/track.(*Reporter).Report
func rpReport(r unsafe.Pointer)

func main() {
	sp := newStatusPool()
	r := spRegister(sp)
	rpInc(r)
	rpReport(r)
	ctx, cancel := context.WithCancel(context.Background())
	cancel()
	fmt.Println(spWait(sp, ctx))
	rpDec(r)
	fmt.Println(spWait(sp, context.Background()))
}
