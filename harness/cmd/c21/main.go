//go:build verif

// Driver for C21 (the ListObjects pipeline tears down cycles without losing work).
//
// Four kinds of cases are written for the Coq oracle (Conc/StatusPool.v, Conc/CycleGroup.v):
//
//	kind 1  a random sequence of calls on a real track.StatusPool (Register / Inc / Dec / Report /
//	        Wait), the pool's state read after every call;
//	kind 2  a random sequence of calls on a real worker.CycleGroup (Join / SignalReady / Inc /
//	        Dec / Wake / Sleep / WaitForAllReady / IsLeader / Next / String / Size);
//	kind 3  the teardown protocol of Basic.Execute played at METHOD granularity on a real
//	        CycleGroup: member goroutines, message-processing goroutines and the message queues
//	        are simulated by this driver (one logical thread performs one method call at a time,
//	        chosen by the PRNG among the enabled ones), every StatusPool / Membership call is made
//	        on the real objects, and the real state is read after every call.  The oracle replays
//	        the same schedule on the atomic-step model (each method call = the run of its atomic
//	        steps) and compares all projections;
//	kind 4  end to end: the real server (memory backend, experimental pipeline_list_objects) on
//	        generated CYCLIC authorization models x pipeline tunings x concurrent requests, the
//	        reference being the set of objects for which the real Check returns true.
//
// track and worker are internal to the pipeline package tree, so they are reached through
// go:linkname and their unexported state is read through layout-mirroring structs; a start-up
// self test aborts the run if the layouts do not match.
package main

import (
	"context"
	"encoding/json"
	"fmt"
	"os"
	"runtime"
	"sort"
	"strings"
	"sync"
	"sync/atomic"
	"time"
	"unsafe"

	openfgav1 "github.com/openfga/api/proto/openfga/v1"
	parser "github.com/openfga/language/pkg/go/transformer"

	_ "github.com/openfga/openfga/internal/listobjects/pipeline"
	"github.com/openfga/openfga/internal/verifharness/lib/rec"
	"github.com/openfga/openfga/pkg/server"
	"github.com/openfga/openfga/pkg/storage"
	"github.com/openfga/openfga/pkg/storage/memory"
	"github.com/openfga/openfga/pkg/typesystem"
)

// ---------------------------------------------------------------------------------------------
// the real objects, by linkname

const trackPkg = "github.com/openfga/openfga/internal/listobjects/pipeline/internal/track"
const workerPkg = "github.com/openfga/openfga/internal/listobjects/pipeline/internal/worker"

//go:linkname newStatusPool github.com/openfga/openfga/internal/listobjects/pipeline/internal/track.NewStatusPool
func newStatusPool() unsafe.Pointer

//go:linkname spRegister github.com/openfga/openfga/internal/listobjects/pipeline/internal/track.(*StatusPool).Register
func spRegister(sp unsafe.Pointer) unsafe.Pointer

//go:linkname spWait github.com/openfga/openfga/internal/listobjects/pipeline/internal/track.(*StatusPool).Wait
func spWait(sp unsafe.Pointer, ctx context.Context) bool

//go:linkname rpInc github.com/openfga/openfga/internal/listobjects/pipeline/internal/track.(*Reporter).Inc
func rpInc(r unsafe.Pointer)

//go:linkname rpDec github.com/openfga/openfga/internal/listobjects/pipeline/internal/track.(*Reporter).Dec
func rpDec(r unsafe.Pointer)

//go:linkname rpReport github.com/openfga/openfga/internal/listobjects/pipeline/internal/track.(*Reporter).Report
func rpReport(r unsafe.Pointer)

//go:linkname rpWait github.com/openfga/openfga/internal/listobjects/pipeline/internal/track.(*Reporter).Wait
func rpWait(r unsafe.Pointer, ctx context.Context) bool

//go:linkname newCycleGroup github.com/openfga/openfga/internal/listobjects/pipeline/internal/worker.NewCycleGroup
func newCycleGroup() unsafe.Pointer

//go:linkname cgJoin github.com/openfga/openfga/internal/listobjects/pipeline/internal/worker.(*CycleGroup).Join
func cgJoin(g unsafe.Pointer, label string) unsafe.Pointer

//go:linkname cgSize github.com/openfga/openfga/internal/listobjects/pipeline/internal/worker.(*CycleGroup).Size
func cgSize(g unsafe.Pointer) int

//go:linkname mSignalReady github.com/openfga/openfga/internal/listobjects/pipeline/internal/worker.(*Membership).SignalReady
func mSignalReady(m unsafe.Pointer)

//go:linkname mWaitForAllReady github.com/openfga/openfga/internal/listobjects/pipeline/internal/worker.(*Membership).WaitForAllReady
func mWaitForAllReady(m unsafe.Pointer, ctx context.Context) bool

//go:linkname mSleep github.com/openfga/openfga/internal/listobjects/pipeline/internal/worker.(*Membership).Sleep
func mSleep(m unsafe.Pointer, ctx context.Context)

//go:linkname mWake github.com/openfga/openfga/internal/listobjects/pipeline/internal/worker.(*Membership).Wake
func mWake(m unsafe.Pointer)

//go:linkname mInc github.com/openfga/openfga/internal/listobjects/pipeline/internal/worker.(*Membership).Inc
func mInc(m unsafe.Pointer)

//go:linkname mDec github.com/openfga/openfga/internal/listobjects/pipeline/internal/worker.(*Membership).Dec
func mDec(m unsafe.Pointer)

//go:linkname mIsLeader github.com/openfga/openfga/internal/listobjects/pipeline/internal/worker.(*Membership).IsLeader
func mIsLeader(m unsafe.Pointer) bool

//go:linkname mNext github.com/openfga/openfga/internal/listobjects/pipeline/internal/worker.(*Membership).Next
func mNext(m unsafe.Pointer) unsafe.Pointer

//go:linkname mString github.com/openfga/openfga/internal/listobjects/pipeline/internal/worker.(*Membership).String
func mString(m unsafe.Pointer) string

// layout mirrors (reporting.go / cycle.go)
type spMirror struct {
	mu         sync.Mutex
	pool       []bool
	inflight   atomic.Int64
	total      atomic.Int64
	zero       atomic.Bool
	ready      chan struct{}
	quiescence chan struct{}
}

type reporterMirror struct {
	index  int
	parent *spMirror
}

type memMirror struct {
	reporter *reporterMirror
	next     *memMirror
	prev     *memMirror
	label    string
	leader   bool
	wake     chan struct{}
	awake    atomic.Bool
}

type groupMirror struct {
	statusPool *spMirror
	size       int
	head       *memMirror
	tail       *memMirror
}

func closed(ch chan struct{}) bool {
	select {
	case <-ch:
		return true
	default:
		return false
	}
}

type poolObs struct {
	inflight, total    int64
	zero, ready, quiet bool
	bits               []bool
}

func readPool(p unsafe.Pointer) poolObs {
	sp := (*spMirror)(p)
	return poolObs{
		inflight: sp.inflight.Load(), total: sp.total.Load(), zero: sp.zero.Load(),
		ready: closed(sp.ready), quiet: closed(sp.quiescence),
		bits: append([]bool(nil), sp.pool...),
	}
}

func lb(bs []bool) rec.V {
	vs := make([]rec.V, len(bs))
	for i, b := range bs {
		vs[i] = rec.Bool(b)
	}
	return rec.L(vs...)
}

func (o poolObs) rec() rec.V {
	return rec.L(rec.I64(o.inflight), rec.I64(o.total), rec.Bool(o.zero), rec.Bool(o.ready), rec.Bool(o.quiet), lb(o.bits))
}

// selfTest checks that the mirrors describe the real layouts.
func selfTest() error {
	sp := newStatusPool()
	r0 := spRegister(sp)
	r1 := spRegister(sp)
	o := readPool(sp)
	if len(o.bits) != 2 || !o.bits[0] || !o.bits[1] || o.inflight != 0 || o.total != 0 || o.zero || o.ready || o.quiet {
		return fmt.Errorf("StatusPool mirror: unexpected fresh state %+v", o)
	}
	if (*reporterMirror)(r1).index != 1 || (*reporterMirror)(r0).parent != (*spMirror)(sp) {
		return fmt.Errorf("Reporter mirror mismatch")
	}
	rpInc(r0)
	rpInc(r1)
	rpReport(r0)
	o = readPool(sp)
	if o.inflight != 2 || o.total != 2 || o.bits[0] || !o.bits[1] || o.ready {
		return fmt.Errorf("StatusPool mirror: after inc/report %+v", o)
	}
	rpReport(r1)
	rpDec(r0)
	rpDec(r1)
	o = readPool(sp)
	if o.inflight != 0 || !o.zero || !o.ready || !o.quiet {
		return fmt.Errorf("StatusPool mirror: after quiescence %+v", o)
	}
	g := newCycleGroup()
	a := cgJoin(g, "A")
	b := cgJoin(g, "B")
	gm := (*groupMirror)(g)
	if gm.size != 2 || cgSize(g) != 2 || gm.head != (*memMirror)(b) || gm.tail != (*memMirror)(a) {
		return fmt.Errorf("CycleGroup mirror mismatch")
	}
	bm := (*memMirror)(b)
	if bm.label != "B" || !bm.leader || bm.prev != (*memMirror)(a) || bm.reporter.index != 1 || closed(bm.wake) || bm.awake.Load() {
		return fmt.Errorf("Membership mirror mismatch")
	}
	mWake(b)
	if !closed(bm.wake) || !bm.awake.Load() || mString(b) != "B->A->B" {
		return fmt.Errorf("Membership mirror mismatch after Wake")
	}
	return nil
}

func panics(f func()) (p bool) {
	defer func() {
		if recover() != nil {
			p = true
		}
	}()
	f()
	return false
}

// blocking calls: run in a goroutine; "returned" within the budget, or cancelled and joined
func callBlocking(expectReturn bool, f func(ctx context.Context) bool) (returned bool, value bool) {
	ctx, cancel := context.WithCancel(context.Background())
	defer cancel()
	done := make(chan bool, 1)
	go func() { done <- f(ctx) }()
	budget := 3 * time.Millisecond
	if expectReturn {
		budget = 10 * time.Second
	}
	select {
	case v := <-done:
		return true, v
	case <-time.After(budget):
		cancel()
		<-done
		return false, false
	}
}

// ---------------------------------------------------------------------------------------------
// kind 1: StatusPool call sequences

func kindPool(w *rec.Writer, seed uint64) {
	r := rec.NewRand(seed)
	sp := newStatusPool()
	var reps []unsafe.Pointer
	nops := r.Range(1, 24)
	waited := false
	var ops []rec.V
	for i := 0; i < nops; i++ {
		canReg := !waited && len(reps) < 5
		choices := []int{4}
		if canReg {
			choices = append(choices, 0, 0)
		}
		if len(reps) > 0 {
			choices = append(choices, 1, 1, 1, 2, 2, 2, 3, 3)
		}
		op := rec.Pick(r, choices)
		arg := 0
		if len(reps) > 0 {
			arg = r.Intn(len(reps))
		}
		res := 0
		switch op {
		case 0: // Register
			reps = append(reps, spRegister(sp))
			arg = len(reps) - 1
			w.Stat("pool_register", 1)
		case 1:
			rpInc(reps[arg])
		case 2:
			rpDec(reps[arg])
		case 3:
			// Register after the ready channel was closed makes a later Report close it again
			if panics(func() { rpReport(reps[arg]) }) {
				res = 3
				w.Stat("pool_report_panic_close_of_closed_ready", 1)
			}
		default: // Wait
			waited = true
			o := readPool(sp)
			expect := (len(o.bits) == 0 || o.ready) && (o.total <= 0 || o.quiet)
			var ret, val bool
			if len(reps) > 0 && r.Bool() {
				ret, val = callBlocking(expect, func(ctx context.Context) bool { return rpWait(reps[arg], ctx) })
			} else {
				ret, val = callBlocking(expect, func(ctx context.Context) bool { return spWait(sp, ctx) })
			}
			if ret && val {
				res = 1
				w.Stat("pool_wait_returned", 1)
			} else if ret {
				res = 2 // returned false without cancellation: never expected
			} else {
				w.Stat("pool_wait_blocked", 1)
			}
		}
		ops = append(ops, rec.L(rec.I(op), rec.I(arg), rec.I(res), readPool(sp).rec()))
	}
	w.Stat("pool_cases", 1)
	w.Case(map[string]any{"kind": 1, "seed": seed}, rec.I(1), rec.L(ops...))
}

// ---------------------------------------------------------------------------------------------
// kind 2: CycleGroup call sequences

type groupObs struct {
	pool    poolObs
	size    int
	leaders []bool
	next    []int
	wake    []bool
	awake   []bool
	paths   [][]int
}

func indexOf(ms []unsafe.Pointer, p unsafe.Pointer) int {
	for i, m := range ms {
		if m == p {
			return i
		}
	}
	return -1
}

func readGroup(g unsafe.Pointer, ms []unsafe.Pointer, withPaths bool) groupObs {
	gm := (*groupMirror)(g)
	o := groupObs{pool: readPool(unsafe.Pointer(gm.statusPool)), size: cgSize(g)}
	for _, m := range ms {
		mm := (*memMirror)(m)
		o.leaders = append(o.leaders, mIsLeader(m))
		o.next = append(o.next, indexOf(ms, mNext(m)))
		o.wake = append(o.wake, closed(mm.wake))
		o.awake = append(o.awake, mm.awake.Load())
		if withPaths {
			var path []int
			for _, lab := range strings.Split(mString(m), "->") {
				var k int
				fmt.Sscanf(lab, "m%d", &k)
				path = append(path, k)
			}
			o.paths = append(o.paths, path)
		}
	}
	return o
}

func (o groupObs) rec() rec.V {
	ps := make([]rec.V, len(o.paths))
	for i, p := range o.paths {
		ps[i] = rec.LI(p)
	}
	return rec.L(o.pool.rec(), rec.I(o.size), lb(o.leaders), rec.LI(o.next), lb(o.wake), lb(o.awake), rec.L(ps...))
}

func kindGroup(w *rec.Writer, seed uint64) {
	r := rec.NewRand(seed)
	g := newCycleGroup()
	var ms []unsafe.Pointer
	nops := r.Range(1, 30)
	var ops []rec.V
	for i := 0; i < nops; i++ {
		op := r.Intn(12)
		if len(ms) == 0 || (len(ms) < 6 && (i < 3 && r.Chance(2, 3) || op == 0)) {
			op = 0
		} else if op == 0 {
			op = 2
		}
		arg := 0
		if len(ms) > 0 {
			arg = r.Intn(len(ms))
		}
		res := 0
		switch op {
		case 0:
			ms = append(ms, cgJoin(g, fmt.Sprintf("m%d", len(ms))))
			arg = len(ms) - 1
			w.Stat("group_join", 1)
		case 1, 2:
			op = 1
			if panics(func() { mSignalReady(ms[arg]) }) {
				res = 3
				w.Stat("group_signal_ready_panic_close_of_closed_ready", 1)
			}
		case 3, 4:
			op = 2
			mInc(ms[arg])
		case 5, 6:
			op = 3
			mDec(ms[arg])
		case 7:
			op = 4
			mWake(ms[arg])
		case 8, 9:
			op = 5
			mm := (*memMirror)(ms[arg])
			expect := closed(mm.wake)
			ret, _ := callBlocking(expect, func(ctx context.Context) bool { mSleep(ms[arg], ctx); return ctx.Err() == nil })
			if ret {
				res = 1
			}
			w.Stat(fmt.Sprintf("group_sleep_%d", res), 1)
		default:
			op = 6
			o := readPool(unsafe.Pointer((*groupMirror)(g).statusPool))
			expect := (len(o.bits) == 0 || o.ready) && (o.total <= 0 || o.quiet)
			ret, val := callBlocking(expect, func(ctx context.Context) bool { return mWaitForAllReady(ms[arg], ctx) })
			if ret && val {
				res = 1
			} else if ret {
				res = 2
			}
			w.Stat(fmt.Sprintf("group_wait_%d", res), 1)
		}
		ops = append(ops, rec.L(rec.I(op), rec.I(arg), rec.I(res), readGroup(g, ms, true).rec()))
	}
	w.Stat("group_cases", 1)
	w.Case(map[string]any{"kind": 2, "seed": seed}, rec.I(2), rec.L(ops...))
}

// ---------------------------------------------------------------------------------------------
// kind 3: the protocol at method granularity

type msgT struct {
	dst  int
	kids []*msgT
}

func genMsg(r *rec.Rand, n, depth int, budget *int) *msgT {
	m := &msgT{dst: r.Intn(n)}
	*budget--
	if depth > 0 {
		k := r.Intn(3)
		if r.Chance(1, 4) {
			k = 0
		}
		for i := 0; i < k && *budget > 0; i++ {
			m.kids = append(m.kids, genMsg(r, n, depth-1, budget))
		}
	}
	return m
}

func (m *msgT) rec() rec.V {
	ks := make([]rec.V, len(m.kids))
	for i, k := range m.kids {
		ks[i] = k.rec()
	}
	return rec.L(rec.I(m.dst), rec.L(ks...))
}

func msgSize(m *msgT) int {
	s := 1
	for _, k := range m.kids {
		s += msgSize(k)
	}
	return s
}

// action codes
const (
	aSignalReady = 1 // TM: SignalReady
	aWaitAll     = 2 // TM: WaitForAllReady (res 1 returned / 0 blocked)
	aSleep       = 3 // TM: Sleep (res 1 returned / 0 blocked)
	aClose       = 4 // TM: listener.Close() of the next listener
	aWake        = 5 // TM: Next().Wake() (res = index of Next())
	aWaitRec     = 6 // TM: wgRecursive.Wait() returns
	aRecv        = 7 // TP: Recv (res 1 message / 2 drained (cancelled) / 0 closed -> return)
	aSend        = 8 // TP: MsgFunc + Send of the next child (res 1 enqueued / 0 failed -> Done)
	aFin         = 9 // TP: msg.Done() of the received message
	aCancel      = 10
)

type procT struct {
	owner, src int // src -1: standard sender
	kids       []*msgT
	holding    bool
	ended      bool
}

func kindProto(w *rec.Writer, seed uint64) {
	r := rec.NewRand(seed)
	n := r.Range(1, 4)
	if r.Chance(1, 10) {
		n = 5
	}
	np := r.Range(1, 2)
	g := newCycleGroup()
	ms := make([]unsafe.Pointer, n)
	for i := range ms {
		ms[i] = cgJoin(g, fmt.Sprintf("m%d", i))
	}
	// workload
	var stdRec []rec.V
	var procs []*procT
	for a := 0; a < n; a++ {
		for b := 0; b < n; b++ {
			for j := 0; j < np; j++ {
				procs = append(procs, &procT{owner: b, src: a})
			}
		}
	}
	nstd := r.Intn(2*n + 1)
	total := 0
	for i := 0; i < nstd; i++ {
		owner := r.Intn(n)
		var kids []*msgT
		budget := r.Range(1, 10)
		for k := r.Intn(4); k > 0 && budget > 0; k-- {
			kids = append(kids, genMsg(r, n, r.Intn(4), &budget))
		}
		ks := make([]rec.V, len(kids))
		for j, k := range kids {
			ks[j] = k.rec()
			total += msgSize(k)
		}
		stdRec = append(stdRec, rec.L(rec.I(owner), rec.L(ks...)))
		procs = append(procs, &procT{owner: owner, src: -1, kids: kids, ended: len(kids) == 0})
	}
	withCancel := r.Chance(1, 3)
	bias := r.Intn(4) // scheduling bias
	mpc := make([]int, n) // 0 before SignalReady, 1 WaitAll, 2 Sleep, 3 Cleanup, 4 Wake, 5 WaitRec, 6 done
	closedPos := make([]int, n)
	queues := map[[2]int][]*msgT{}
	cancelled := false
	probes := 0
	dropped := 0
	var tlog []rec.V
	var acts []rec.V

	type action struct{ kind, tid, idx int } // tid 0 = TM, 1 = TP, 2 = TC
	for step := 0; step < 4000; step++ {
		gm := (*groupMirror)(g)
		po := readPool(unsafe.Pointer(gm.statusPool))
		var en []action
		var blocked []action
		for i := 0; i < n; i++ {
			switch mpc[i] {
			case 0:
				ok := true
				for _, p := range procs {
					if p.src < 0 && p.owner == i && !p.ended {
						ok = false
					}
				}
				if ok {
					en = append(en, action{aSignalReady, 0, i})
				}
			case 1:
				if po.ready && (po.total <= 0 || po.quiet) {
					en = append(en, action{aWaitAll, 0, i})
				} else {
					blocked = append(blocked, action{aWaitAll, 0, i})
				}
			case 2:
				if closed((*memMirror)(ms[i]).wake) {
					en = append(en, action{aSleep, 0, i})
				} else {
					blocked = append(blocked, action{aSleep, 0, i})
				}
			case 3:
				en = append(en, action{aClose, 0, i})
			case 4:
				en = append(en, action{aWake, 0, i})
			case 5:
				ok := true
				for _, p := range procs {
					if p.src >= 0 && p.owner == i && !p.ended {
						ok = false
					}
				}
				if ok {
					en = append(en, action{aWaitRec, 0, i})
				}
			}
		}
		for k, p := range procs {
			if p.ended {
				continue
			}
			switch {
			case len(p.kids) > 0:
				en = append(en, action{aSend, 1, k})
			case p.holding:
				en = append(en, action{aFin, 1, k})
			case p.src >= 0:
				if len(queues[[2]int{p.src, p.owner}]) > 0 || p.owner < closedPos[p.src] {
					en = append(en, action{aRecv, 1, k})
				}
			}
		}
		if withCancel && !cancelled && r.Chance(1, 12) {
			en = append(en, action{aCancel, 2, 0})
		}
		if len(en) == 0 {
			break
		}
		var a action
		probe := false
		if len(blocked) > 0 && probes < 4 && r.Chance(1, 12) {
			a = rec.Pick(r, blocked)
			probe = true
			probes++
		} else {
			a = rec.Pick(r, en)
			// bias: prefer members (1), prefer processors (2), prefer the lowest thread (3)
			for tries := 0; tries < 3; tries++ {
				if bias == 1 && a.tid != 0 || bias == 2 && a.tid != 1 {
					a = rec.Pick(r, en)
				}
			}
			if bias == 3 && r.Chance(2, 3) {
				a = en[0]
			}
		}
		res := 0
		switch a.kind {
		case aSignalReady:
			mSignalReady(ms[a.idx])
			mpc[a.idx] = 1
		case aWaitAll:
			ret, val := callBlocking(!probe, func(ctx context.Context) bool { return mWaitForAllReady(ms[a.idx], ctx) })
			if ret && val {
				res = 1
				if mIsLeader(ms[a.idx]) {
					mpc[a.idx] = 3
				} else {
					mpc[a.idx] = 2
				}
			} else if ret {
				res = 2
			}
		case aSleep:
			ret, _ := callBlocking(!probe, func(ctx context.Context) bool { mSleep(ms[a.idx], ctx); return true })
			if ret {
				res = 1
				mpc[a.idx] = 3
			}
		case aClose:
			tlog = append(tlog, rec.L(rec.I(0), rec.I(a.idx), rec.I(closedPos[a.idx])))
			closedPos[a.idx]++
			if closedPos[a.idx] >= n {
				mpc[a.idx] = 4
			}
		case aWake:
			nx := mNext(ms[a.idx])
			res = indexOf(ms, nx)
			was := closed((*memMirror)(nx).wake)
			mWake(nx)
			if !was && closed((*memMirror)(nx).wake) {
				tlog = append(tlog, rec.L(rec.I(1), rec.I(res), rec.I(0)))
			}
			mpc[a.idx] = 5
		case aWaitRec:
			mpc[a.idx] = 6
		case aRecv:
			p := procs[a.idx]
			key := [2]int{p.src, p.owner}
			if q := queues[key]; len(q) > 0 {
				m := q[0]
				queues[key] = q[1:]
				p.holding = true
				if cancelled {
					res = 2
					dropped += msgSize(m)
				} else {
					res = 1
					p.kids = m.kids
				}
			} else {
				p.ended = true
			}
		case aSend:
			p := procs[a.idx]
			m := p.kids[0]
			p.kids = p.kids[1:]
			mInc(ms[p.owner])
			if cancelled || m.dst < closedPos[p.owner] {
				mDec(ms[p.owner])
				dropped += msgSize(m)
			} else {
				res = 1
				key := [2]int{p.owner, m.dst}
				queues[key] = append(queues[key], m)
			}
			if len(p.kids) == 0 && p.src < 0 {
				p.ended = true
			}
		case aFin:
			p := procs[a.idx]
			mDec(ms[p.owner])
			p.holding = false
		case aCancel:
			cancelled = true
			w.Stat("proto_cancelled", 1)
		}
		// bookkeeping the property predicate is evaluated on
		pend, held, queued := 0, 0, 0
		for i := 0; i < n; i++ {
			if mpc[i] == 0 {
				pend++
			}
		}
		for _, p := range procs {
			if p.holding {
				held++
			}
		}
		for _, q := range queues {
			queued += len(q)
		}
		o := readGroup(g, ms, false)
		acts = append(acts, rec.L(rec.I(a.kind), rec.I(a.tid), rec.I(a.idx), rec.I(res),
			o.pool.rec(), lb(o.wake), lb(o.awake), rec.L(rec.I(pend), rec.I(held), rec.I(queued), rec.I(dropped))))
		if probe {
			w.Stat("proto_probes", 1)
		}
	}
	fin := 1
	for i := 0; i < n; i++ {
		if mpc[i] != 6 {
			fin = 0
		}
	}
	for _, p := range procs {
		if !p.ended {
			fin = 0
		}
	}
	w.Stat("proto_cases", 1)
	w.Stat(fmt.Sprintf("proto_members_%d", n), 1)
	w.Stat("proto_actions", len(acts))
	w.Stat("proto_messages", total)
	if fin == 1 {
		w.Stat("proto_torn_down", 1)
	}
	w.Case(map[string]any{"kind": 3, "seed": seed},
		rec.I(3), rec.I(n), rec.I(np), rec.L(stdRec...), rec.L(acts...), rec.L(tlog...), rec.I(fin), rec.I(total))
}

// ---------------------------------------------------------------------------------------------
// kind 4: end to end

// a datastore wrapper that perturbs the goroutine schedule around reads
type yieldDS struct {
	storage.OpenFGADatastore
	ctr atomic.Uint64
	on  atomic.Bool
}

func (y *yieldDS) perturb() {
	if !y.on.Load() {
		return
	}
	c := y.ctr.Add(1)
	z := (c + 0x9e3779b97f4a7c15) * 0xbf58476d1ce4e5b9
	z ^= z >> 29
	switch z % 7 {
	case 0, 1:
		runtime.Gosched()
	case 2:
		time.Sleep(time.Duration(z>>8%200) * time.Microsecond)
	case 3:
		for i := 0; i < int(z>>8%4); i++ {
			runtime.Gosched()
		}
	case 4:
		// now and then a read that is much slower than the rest, so that some inputs of a cycle
		// member are still producing when the rest of the cycle has gone quiet
		if z>>8%5 == 0 {
			time.Sleep(time.Duration(500+z>>16%1500) * time.Microsecond)
		}
	}
}

func (y *yieldDS) ReadStartingWithUser(ctx context.Context, store string, f storage.ReadStartingWithUserFilter, o storage.ReadStartingWithUserOptions) (storage.TupleIterator, error) {
	y.perturb()
	it, err := y.OpenFGADatastore.ReadStartingWithUser(ctx, store, f, o)
	y.perturb()
	return it, err
}

func (y *yieldDS) Read(ctx context.Context, store string, f storage.ReadFilter, o storage.ReadOptions) (storage.TupleIterator, error) {
	y.perturb()
	return y.OpenFGADatastore.Read(ctx, store, f, o)
}

// Max > 0: the server's ListObjects max-results; the request then stops early, which cancels the
// pipeline's context and exercises teardown under cancellation (Close / drain)
// DL > 0: the server's ListObjects deadline in seconds (default 40).
type cfgT struct{ Chunk, Buf, Procs, Max, DL int }

type e2eEnv struct {
	ds      *yieldDS
	servers map[cfgT]*server.Server
	ref     *server.Server
}

func newEnv() *e2eEnv {
	y := &yieldDS{OpenFGADatastore: memory.New()}
	e := &e2eEnv{ds: y, servers: map[cfgT]*server.Server{}}
	e.ref = server.MustNewServerWithOpts(server.WithDatastore(y))
	return e
}

func (e *e2eEnv) srv(c cfgT) *server.Server {
	if s, ok := e.servers[c]; ok {
		return s
	}
	dl := 40
	if c.DL > 0 {
		dl = c.DL
	}
	s := server.MustNewServerWithOpts(
		server.WithDatastore(e.ds),
		server.WithExperimentals("pipeline_list_objects"),
		server.WithListObjectsPipelineEnabled(true),
		server.WithListObjectsChunkSize(c.Chunk),
		server.WithListObjectsBufferCapacity(c.Buf),
		server.WithListObjectsNumProcs(c.Procs),
		server.WithListObjectsDeadline(time.Duration(dl)*time.Second),
		server.WithListObjectsMaxResults(uint32(c.Max)),
	)
	e.servers[c] = s
	return s
}

type e2eCase struct {
	Kind   int        `json:"kind"`
	Seed   uint64     `json:"seed"`
	DSL    string     `json:"dsl"`
	Tuples [][3]string `json:"tuples"`
	User   string     `json:"user"`
	Type   string     `json:"type"`
	Rel    string     `json:"rel"`
	Cfgs   []cfgT     `json:"cfgs"`
	Conc   int        `json:"conc"`
	Procs  int        `json:"gomaxprocs"`
	NT     *bool      `json:"nt,omitempty"`
	Heavy  string     `json:"heavy,omitempty"` // high-volume scenario: regenerated from Seed on replay
	Watch  int        `json:"watch,omitempty"` // watchdog in seconds (default 60)
}

// genModel builds a cyclic authorization model and the universe of objects
func genModel(r *rec.Rand) (dsl string, types []string, shape string) {
	k := r.Range(1, 3)
	types = make([]string, k)
	for i := range types {
		types[i] = fmt.Sprintf("g%d", i)
	}
	var sb strings.Builder
	sb.WriteString("model\n  schema 1.1\ntype user\n")
	var shapes []string
	for i, t := range types {
		// direct usersets creating same-type recursion and tuple cycles
		direct := []string{"user"}
		for j, u := range types {
			p := 2
			if j == (i+1)%k {
				p = 5 // favour the ring g0 -> g1 -> ... -> g0
			}
			if r.Chance(p, 6) {
				if r.Chance(1, 5) {
					direct = append(direct, u+"#admin")
				} else {
					direct = append(direct, u+"#member")
				}
			}
		}
		var parents []string
		for _, u := range types {
			if r.Chance(1, 3) {
				parents = append(parents, u)
			}
		}
		adminDef := "[user]"
		switch r.Intn(8) {
		case 0:
			adminDef = "member"
		case 1:
			adminDef = "[user, " + types[r.Intn(k)] + "#member]"
		case 2:
			adminDef = "[user] or member"
		case 3:
			adminDef = "member or owner"
		case 4:
			adminDef = "[user, " + types[r.Intn(k)] + "#admin] or admin from parent"
		case 5:
			adminDef = "member from parent"
		}
		memberDef := "[" + strings.Join(direct, ", ") + "]"
		if r.Chance(1, 3) {
			memberDef += " or owner"
		}
		if len(parents) > 0 && r.Chance(2, 3) {
			memberDef += " or member from parent"
			shapes = append(shapes, "ttu")
		}
		if len(direct) > 1 {
			shapes = append(shapes, "userset")
		}
		sb.WriteString("type " + t + "\n  relations\n")
		if len(parents) == 0 {
			parents = []string{t}
		}
		sb.WriteString("    define parent: [" + strings.Join(parents, ", ") + "]\n")
		sb.WriteString("    define owner: [user]\n")
		sb.WriteString("    define admin: " + adminDef + "\n")
		sb.WriteString("    define member: " + memberDef + "\n")
	}
	// the document type on top of the cycles
	var via []string
	for _, t := range types {
		if r.Chance(1, 2) {
			via = append(via, t+"#member")
		}
	}
	if len(via) == 0 {
		via = []string{types[0] + "#member"}
	}
	sb.WriteString("type doc\n  relations\n")
	sb.WriteString("    define parent: [" + strings.Join(types, ", ") + "]\n")
	sb.WriteString("    define via: [" + strings.Join(via, ", ") + "]\n")
	sb.WriteString("    define allowed: [user]\n")
	sb.WriteString("    define blocked: [user]\n")
	top := r.Intn(6)
	switch top {
	case 0:
		sb.WriteString("    define viewer: via\n")
		shapes = append(shapes, "top_computed")
	case 1:
		sb.WriteString("    define viewer: member from parent\n")
		shapes = append(shapes, "top_ttu")
	case 2:
		sb.WriteString("    define viewer: via and allowed\n")
		shapes = append(shapes, "top_intersection")
	case 3:
		sb.WriteString("    define viewer: via but not blocked\n")
		shapes = append(shapes, "top_exclusion")
	case 4:
		sb.WriteString("    define viewer: [user] or via or member from parent\n")
		shapes = append(shapes, "top_union")
	default:
		sb.WriteString("    define viewer: (via and allowed) or (member from parent but not blocked)\n")
		shapes = append(shapes, "top_mixed")
	}
	sort.Strings(shapes)
	return sb.String(), types, strings.Join(shapes, "+")
}

func genTuples(r *rec.Rand, model *openfgav1.AuthorizationModel, types []string, m int) [][3]string {
	var out [][3]string
	seen := map[[3]string]bool{}
	users := []string{"user:u1", "user:u2", "user:u3"}
	density := r.Range(1, 4)
	for _, td := range model.GetTypeDefinitions() {
		for rel, meta := range td.GetMetadata().GetRelations() {
			for _, ref := range meta.GetDirectlyRelatedUserTypes() {
				for id := 1; id <= m; id++ {
					for tries := 0; tries < density; tries++ {
						if !r.Chance(1, 2) {
							continue
						}
						obj := fmt.Sprintf("%s:%d", td.GetType(), id)
						var u string
						switch {
						case ref.GetRelation() != "":
							u = fmt.Sprintf("%s:%d#%s", ref.GetType(), r.Range(1, m), ref.GetRelation())
						case ref.GetType() == "user":
							u = rec.Pick(r, users)
						default:
							u = fmt.Sprintf("%s:%d", ref.GetType(), r.Range(1, m))
						}
						t := [3]string{obj, rel, u}
						if !seen[t] && obj+"#"+rel != u {
							seen[t] = true
							out = append(out, t)
						}
					}
				}
			}
		}
	}
	sort.Slice(out, func(i, j int) bool { return fmt.Sprint(out[i]) < fmt.Sprint(out[j]) })
	return out
}

var cfgPool = []cfgT{{1, 1, 1, 0, 0}, {1, 2, 3, 0, 0}, {2, 1, 2, 0, 0}, {3, 8, 1, 0, 0}, {100, 128, 3, 0, 0}, {1, 128, 8, 0, 0}, {2, 2, 2, 0, 0}, {100, 1, 1, 0, 0},
	{1, 1, 1, 1, 0}, {1, 2, 3, 2, 0}, {2, 1, 2, 1, 0}, {100, 128, 3, 1, 0}}

// runE2E returns false when some request failed, hung or returned a set of the wrong size
func runE2E(w *rec.Writer, env *e2eEnv, c e2eCase, storeCounter *int) (good bool) {
	good = true
	watch := 60
	if c.Watch > 0 {
		watch = c.Watch
	}
	ctx := context.Background()
	model, err := parser.TransformDSLToProto(c.DSL)
	if err != nil {
		w.Stat("e2e_dsl_error", 1)
		return true
	}
	*storeCounter++
	st, err := env.ref.CreateStore(ctx, &openfgav1.CreateStoreRequest{Name: fmt.Sprintf("c21-%d", *storeCounter)})
	if err != nil {
		w.Stat("e2e_store_error", 1)
		return true
	}
	storeID := st.GetId()
	wm, err := env.ref.WriteAuthorizationModel(ctx, &openfgav1.WriteAuthorizationModelRequest{
		StoreId: storeID, SchemaVersion: model.GetSchemaVersion(), TypeDefinitions: model.GetTypeDefinitions(), Conditions: model.GetConditions()})
	if err != nil {
		w.Stat("e2e_model_invalid", 1)
		return true
	}
	modelID := wm.GetAuthorizationModelId()
	model.Id = modelID
	pipeline := false
	if ts, err := typesystem.NewAndValidate(ctx, model); err == nil && ts.GetWeightedGraph() != nil {
		pipeline = true
	}
	if c.Tuples == nil {
		return true
	}
	for i := 0; i < len(c.Tuples); i += 40 {
		j := min(i+40, len(c.Tuples))
		var tks []*openfgav1.TupleKey
		for _, t := range c.Tuples[i:j] {
			tks = append(tks, &openfgav1.TupleKey{Object: t[0], Relation: t[1], User: t[2]})
		}
		if _, err := env.ref.Write(ctx, &openfgav1.WriteRequest{StoreId: storeID, AuthorizationModelId: modelID,
			Writes: &openfgav1.WriteRequestWrites{TupleKeys: tks}}); err != nil {
			w.Stat("e2e_write_error", 1)
			return true
		}
	}
	// reference: the objects the real Check allows
	env.ds.on.Store(false)
	var expected []string
	ids := map[string]bool{}
	for _, t := range c.Tuples {
		if strings.HasPrefix(t[0], c.Type+":") {
			ids[t[0]] = true
		}
	}
	for id := 1; id <= 6; id++ {
		ids[fmt.Sprintf("%s:%d", c.Type, id)] = true
	}
	var objs []string
	for o := range ids {
		objs = append(objs, o)
	}
	sort.Strings(objs)
	for _, o := range objs {
		resp, err := env.ref.Check(ctx, &openfgav1.CheckRequest{StoreId: storeID, AuthorizationModelId: modelID,
			TupleKey: &openfgav1.CheckRequestTupleKey{Object: o, Relation: c.Rel, User: c.User}})
		if err != nil {
			w.Stat("e2e_check_error_skipped", 1)
			return true
		}
		if resp.GetAllowed() {
			expected = append(expected, o)
		}
	}
	env.ds.on.Store(true)
	defer env.ds.on.Store(false)
	old := runtime.GOMAXPROCS(c.Procs)
	defer runtime.GOMAXPROCS(old)
	type outT struct {
		objs []string
		code int // 0 ok, 1 error, 2 hang
	}
	var runs []rec.V
	for _, cfg := range c.Cfgs {
		srv := env.srv(cfg)
		outs := make([]outT, c.Conc)
		var wg sync.WaitGroup
		for q := 0; q < c.Conc; q++ {
			wg.Add(1)
			go func(q int) {
				defer wg.Done()
				done := make(chan outT, 1)
				go func() {
					resp, err := srv.ListObjects(ctx, &openfgav1.ListObjectsRequest{StoreId: storeID, AuthorizationModelId: modelID,
						Type: c.Type, Relation: c.Rel, User: c.User})
					if err != nil {
						done <- outT{code: 1}
						return
					}
					done <- outT{objs: append([]string(nil), resp.GetObjects()...)}
				}()
				select {
				case o := <-done:
					outs[q] = o
				case <-time.After(time.Duration(watch) * time.Second):
					outs[q] = outT{code: 2}
				}
			}(q)
		}
		wg.Wait()
		for _, o := range outs {
			sort.Strings(o.objs)
			runs = append(runs, rec.L(rec.I(cfg.Chunk), rec.I(cfg.Buf), rec.I(cfg.Procs), rec.I(cfg.Max), rec.I(o.code), rec.LS(o.objs)))
			if cfg.Max > 0 {
				w.Stat("e2e_requests_with_max_results", 1)
			}
			switch o.code {
			case 1:
				w.Stat("e2e_list_error", 1)
				good = false
			case 2:
				w.Stat("e2e_hang", 1)
				good = false
			default:
				if cfg.Max == 0 && len(o.objs) != len(expected) {
					good = false
				}
			}
		}
		w.Stat("e2e_requests", c.Conc)
	}
	w.Stat("e2e_cases", 1)
	if pipeline {
		w.Stat("e2e_pipeline_used", 1)
	} else {
		w.Stat("e2e_no_weighted_graph", 1)
		f := false
		c.NT = &f
	}
	if len(expected) > 0 {
		w.Stat("e2e_nonempty_expected", 1)
	}
	w.Stat("e2e_expected_objects", len(expected))
	var desc any = c
	if c.Heavy != "" {
		desc = map[string]any{"kind": 7, "seed": c.Seed, "heavy": c.Heavy, "cfgs": c.Cfgs, "expected": len(expected)}
		w.Stat("e2e_heavy_cases", 1)
		w.Stat("e2e_heavy_expected_objects", len(expected))
	}
	w.Case(desc, rec.I(4), rec.Bool(pipeline), rec.LS(expected), rec.L(runs...))
	return good
}

func kindE2E(w *rec.Writer, env *e2eEnv, seed uint64, storeCounter *int, thorough bool) {
	r := rec.NewRand(seed)
	dsl, types, shape := genModel(r)
	model, err := parser.TransformDSLToProto(dsl)
	if err != nil {
		w.Stat("e2e_dsl_error", 1)
		return
	}
	// validity and weighted graph first: do not spend tuples on rejected models
	if _, err := typesystem.NewAndValidate(context.Background(), model); err != nil {
		w.Stat("e2e_model_invalid", 1)
		return
	}
	w.Stat("e2e_shape_"+shape, 1)
	m := r.Range(2, 5)
	tuples := genTuples(r, model, types, m)
	ntargets := 2
	if thorough {
		ntargets = 3
	}
	for t := 0; t < ntargets; t++ {
		c := e2eCase{Kind: 4, Seed: seed, DSL: dsl, Tuples: tuples, User: rec.Pick(r, []string{"user:u1", "user:u2", "user:u3"})}
		if t == 0 || r.Chance(1, 2) {
			c.Type, c.Rel = "doc", "viewer"
		} else {
			c.Type, c.Rel = rec.Pick(r, types), rec.Pick(r, []string{"member", "member", "admin"})
		}
		ncfg := 2
		for i := 0; i < ncfg; i++ {
			c.Cfgs = append(c.Cfgs, rec.Pick(r, cfgPool))
		}
		c.Conc = r.Range(3, 8)
		c.Procs = rec.Pick(r, []int{1, 2, 4, 8, 16})
		runE2E(w, env, c, storeCounter)
	}
}

// ---------------------------------------------------------------------------------------------

func main() {
	o := rec.ParseFlags()
	w := rec.NewWriter(o.Out)
	defer w.Close()
	if err := selfTest(); err != nil {
		fmt.Fprintln(os.Stderr, "c21: layout self test failed:", err)
		w.Close()
		os.Exit(3)
	}
	env := newEnv()
	stores := 0
	thorough := o.Tier == "thorough"
	if o.Replay != "" {
		data, err := os.ReadFile(o.Replay)
		if err != nil {
			panic(err)
		}
		for _, line := range strings.Split(string(data), "\n") {
			line = strings.TrimSpace(line)
			if line == "" || line == "null" {
				continue
			}
			var c e2eCase
			if err := json.Unmarshal([]byte(line), &c); err != nil {
				continue
			}
			switch c.Kind {
			case 1:
				kindPool(w, c.Seed)
			case 2:
				kindGroup(w, c.Seed)
			case 3:
				kindProto(w, c.Seed)
			case 4:
				c.NT = nil
				for rep := 0; rep < 5; rep++ {
					runE2E(w, env, c, &stores)
				}
			case 5:
				for rep := 0; rep < 8; rep++ {
					kindFault(w, c.Seed)
				}
			case 6:
				kindQueueConfig(w)
			case 7:
				kindHeavy(w, env, c.Seed, &stores)
			case 8:
				for rep := 0; rep < 3; rep++ {
					kindDrainContract(w, c.Seed)
				}
			case 9:
				for rep := 0; rep < 3; rep++ {
					kindAbandoned(w, c.Seed)
				}
			}
		}
		return
	}
	r := rec.NewRand(o.Seed)
	kindQueueConfig(w)
	// volume first: a few high-volume cyclic scenarios (stop at the first one that goes wrong:
	// a wedged pipeline costs its whole deadline)
	nheavy := 3 + o.N/300
	for i := 0; i < nheavy; i++ {
		if !kindHeavy(w, env, r.Uint64(), &stores) {
			w.Stat("e2e_heavy_stopped_after_failure", 1)
			break
		}
	}
	for i := 0; i < o.N; i++ {
		kindPool(w, r.Uint64())
		kindGroup(w, r.Uint64())
		kindProto(w, r.Uint64())
		kindProto(w, r.Uint64())
	}
	for i := 0; i < 24+o.N/10; i++ {
		kindFault(w, r.Uint64())
	}
	// draining: the ProcessSender contract and cycles feeding an abandoned intersection / exclusion
	for i := 0; i < 16+o.N/20; i++ {
		kindDrainContract(w, r.Uint64())
	}
	for i := 0; i < 6+o.N/60; i++ {
		kindAbandoned(w, r.Uint64())
	}
	ne2e := o.N / 6
	for i := 0; i < ne2e; i++ {
		kindE2E(w, env, r.Uint64(), &stores, thorough)
	}
}
