//go:build verif

// C21 scenarios about DRAINING: a consumer whose own context is cancelled must keep consuming
// (and Done-ing) what its upstream still sends until the upstream closes the sender.
//
//	kind 8  the contract of Core.ProcessSender / DrainSender itself (shared by Basic, Intersection,
//	        Difference, Terminal): a real worker.Core listens to a real standard medium of small
//	        capacity (1..4) or the default 128; its context is cancelled (before the start, or after
//	        a few messages); a producer pushes more messages than the capacity and closes the
//	        medium.  The producer must never stay blocked and every message must be Done exactly
//	        once (count in = count Done);
//	kind 9  end to end on the real pipeline (pipeline.NewBuilder, synthetic store): a member of a
//	        cycle group (folder#viewer recursion) feeds the output AND an intersection / exclusion
//	        whose other operand is EMPTY (so that worker cancels its own derived context), with
//	        more messages on that edge than the buffer capacity (chains / fan-outs of 150-600 with
//	        the default capacity 128, 12-80 with capacities 1-4); the store delays the first
//	        `viewer` read until the empty operand has been served.  All objects must be delivered
//	        and the pipeline must terminate by itself.
package main

import (
	"context"
	"fmt"
	"sort"
	"sync"
	"sync/atomic"
	"time"
	"unsafe"

	parser "github.com/openfga/language/pkg/go/transformer"

	"github.com/openfga/openfga/internal/containers/mpsc"
	"github.com/openfga/openfga/internal/listobjects/pipeline"
	"github.com/openfga/openfga/internal/verifharness/lib/rec"
	"github.com/openfga/openfga/pkg/typesystem"
)

// ---------------------------------------------------------------------------------------------
// kind 8

type ifaceWords struct{ tab, data unsafe.Pointer }

//go:linkname coreSubscribe github.com/openfga/openfga/internal/listobjects/pipeline/internal/worker.(*Core).Subscribe
func coreSubscribe(c unsafe.Pointer, edge unsafe.Pointer, capacity int) ifaceWords

//go:linkname coreListen github.com/openfga/openfga/internal/listobjects/pipeline/internal/worker.(*Core).Listen
func coreListen(c unsafe.Pointer, s ifaceWords)

//go:linkname coreProcessSender github.com/openfga/openfga/internal/listobjects/pipeline/internal/worker.(*Core).ProcessSender
func coreProcessSender(c unsafe.Pointer, ctx context.Context, index int, processor ifaceWords)

//go:linkname coreCleanup github.com/openfga/openfga/internal/listobjects/pipeline/internal/worker.(*Core).Cleanup
func coreCleanup(c unsafe.Pointer)

//go:linkname chanMediumSend github.com/openfga/openfga/internal/listobjects/pipeline/internal/worker.(*ChannelMedium).Send
func chanMediumSend(m unsafe.Pointer, ctx context.Context, msg unsafe.Pointer) bool

//go:linkname messageDone github.com/openfga/openfga/internal/listobjects/pipeline/internal/worker.(*Message).Done
func messageDone(m unsafe.Pointer)

//go:linkname newMessagePool github.com/openfga/openfga/internal/listobjects/pipeline/internal/worker.NewMessagePool
func newMessagePool(size, capacity int) unsafe.Pointer

// layout mirrors of worker.Core and worker.Message (core.go)
type coreMirror struct {
	senders     []ifaceWords
	stats       []struct{}
	listeners   []ifaceWords
	MediumFunc  unsafe.Pointer
	MsgFunc     unsafe.Pointer
	Label       string
	Errors      *mpsc.Accumulator[error]
	Interpreter ifaceWords
	ChunkSize   int
	NumProcs    int
	Pool        unsafe.Pointer
}

type msgMirror struct {
	pool     unsafe.Pointer
	Value    []string
	Callback func()
}

var drainHangs int

func kindDrainContract(w *rec.Writer, seed uint64) {
	if drainHangs >= 2 {
		w.Stat("drain_contract_skipped_after_hangs", 1)
		return
	}
	r := rec.NewRand(seed)
	capacity := rec.Pick(r, []int{1, 2, 3, 4, 128})
	procs := r.Range(1, 3)
	total := capacity + r.Range(1, 3*min(capacity, 16)+8)
	cancelAfter := 0 // cancel the consumer's context before it starts ...
	if r.Chance(1, 3) {
		cancelAfter = r.Range(1, total) // ... or once that many messages have been released
	}
	producer := &coreMirror{ChunkSize: 1, NumProcs: 1}
	consumer := &coreMirror{ChunkSize: 1, NumProcs: procs, Errors: mpsc.NewAccumulator[error](), Pool: newMessagePool(1, 4)}
	snd := coreSubscribe(unsafe.Pointer(producer), nil, capacity)
	coreListen(unsafe.Pointer(consumer), snd)
	layout := len(producer.listeners) == 1 && len(consumer.senders) == 1 && len(consumer.stats) == 1 &&
		consumer.senders[0] == snd && producer.listeners[0].data == snd.data && consumer.NumProcs == procs
	if !layout {
		w.Stat("drain_contract_layout_mismatch", 1)
		w.Case(map[string]any{"kind": 8, "seed": seed}, rec.I(8), rec.Bool(false), rec.I(capacity), rec.I(procs), rec.I(total), rec.I(cancelAfter), rec.I(0), rec.I(0), rec.I(0))
		return
	}
	ctx, cancel := context.WithCancel(context.Background())
	if cancelAfter == 0 {
		cancel()
	}
	var released atomic.Int64
	var once sync.Once
	consumerDone := make(chan struct{})
	go func() {
		defer close(consumerDone)
		coreProcessSender(unsafe.Pointer(consumer), ctx, 0, ifaceWords{})
	}()
	producerDone := make(chan struct{})
	go func() {
		defer close(producerDone)
		for i := 0; i < total; i++ {
			m := &msgMirror{Value: []string{"x"}}
			m.Callback = func() {
				if released.Add(1) == int64(cancelAfter) {
					once.Do(cancel)
				}
			}
			// the producer itself is not cancelled
			if !chanMediumSend(snd.data, context.Background(), unsafe.Pointer(m)) {
				messageDone(unsafe.Pointer(m))
			}
		}
		coreCleanup(unsafe.Pointer(producer)) // closes the medium
	}()
	pd, cd := 1, 1
	select {
	case <-producerDone:
	case <-time.After(10 * time.Second):
		pd = 0
	}
	if pd == 1 {
		select {
		case <-consumerDone:
		case <-time.After(10 * time.Second):
			cd = 0
		}
	} else {
		cd = 0
	}
	cancel()
	if pd == 0 || cd == 0 {
		drainHangs++
	}
	w.Stat("drain_contract_cases", 1)
	w.Stat(fmt.Sprintf("drain_contract_capacity_%d", capacity), 1)
	if cancelAfter > 0 {
		w.Stat("drain_contract_cancel_midway", 1)
	}
	w.Case(map[string]any{"kind": 8, "seed": seed}, rec.I(8), rec.Bool(true), rec.I(capacity), rec.I(procs), rec.I(total),
		rec.I(cancelAfter), rec.I(int(released.Load())), rec.I(pd), rec.I(cd))
}

// ---------------------------------------------------------------------------------------------
// kind 9

const dslAbandoned = `model
  schema 1.1
type user
type folder
  relations
    define parent: [folder]
    define viewer: [user] or viewer from parent
    define approved: [user]
    define auditor: viewer and approved
    define special: approved but not viewer
    define can_view: viewer or auditor
    define can_view2: viewer or special
    define can_view3: viewer or auditor or special
`

type gatedStore struct {
	index    map[string][]string
	served   chan struct{} // closed when the empty operand has been read
	once     sync.Once
	viewOnce sync.Once
	delay    time.Duration
}

func (s *gatedStore) Read(ctx context.Context, q pipeline.ObjectQuery) pipeline.Receiver[pipeline.Item] {
	switch q.Relation {
	case "approved":
		defer s.once.Do(func() { close(s.served) })
	case "viewer":
		// the first read of the non-empty side waits until the empty operand has been served and
		// its worker has had time to give up
		s.viewOnce.Do(func() {
			select {
			case <-s.served:
				time.Sleep(s.delay)
			case <-time.After(1500 * time.Millisecond):
			case <-ctx.Done():
			}
		})
	}
	seen := map[string]bool{}
	var items []pipeline.Item
	for _, u := range q.Users {
		for _, o := range s.index[q.ObjectType+"|"+q.Relation+"|"+u] {
			if !seen[o] {
				seen[o] = true
				items = append(items, pipeline.Item{Value: o})
			}
		}
	}
	return &sliceRecv{items: items}
}

var abandonedHangs int

func kindAbandoned(w *rec.Writer, seed uint64) {
	if abandonedHangs >= 2 {
		w.Stat("abandoned_skipped_after_hangs", 1)
		return
	}
	r := rec.NewRand(seed)
	st := &gatedStore{index: map[string][]string{}, served: make(chan struct{}), delay: time.Duration(r.Range(40, 120)) * time.Millisecond}
	add := func(obj, rel, user string) {
		key := "folder|" + rel + "|" + user
		st.index[key] = append(st.index[key], obj)
	}
	// tuning: the default one with volume above its buffer capacity, or small buffers
	cfg := cfgT{Chunk: 100, Buf: 128, Procs: 3}
	size := r.Range(150, 600)
	if r.Chance(1, 2) {
		cfg = cfgT{Chunk: 1, Buf: r.Range(1, 4), Procs: r.Range(1, 3)}
		size = r.Range(12, 80)
	}
	shape := r.Intn(3)
	expected := []string{"folder:0"}
	add("folder:0", "viewer", "user:u1")
	switch shape {
	case 0: // a chain: one message per level whatever the chunk size
		for i := 1; i < size; i++ {
			add(fmt.Sprintf("folder:%d", i), "parent", fmt.Sprintf("folder:%d", i-1))
			expected = append(expected, fmt.Sprintf("folder:%d", i))
		}
	case 1: // a fan-out below the root, chunk size 1: one message per child
		cfg.Chunk = 1
		for i := 1; i < size; i++ {
			add(fmt.Sprintf("folder:%d", i), "parent", "folder:0")
			expected = append(expected, fmt.Sprintf("folder:%d", i))
		}
	default: // several chains
		k := r.Range(2, 4)
		for c := 0; c < k; c++ {
			prev := "folder:0"
			for i := 1; i < size/k+2; i++ {
				f := fmt.Sprintf("folder:c%d-%d", c, i)
				add(f, "parent", prev)
				expected = append(expected, f)
				prev = f
			}
		}
	}
	rel := rec.Pick(r, []string{"can_view", "can_view", "can_view", "can_view2", "can_view2", "can_view3", "can_view3", "auditor", "special"})
	if rel == "auditor" || rel == "special" {
		expected = nil // nobody is approved
	}
	model, err := parser.TransformDSLToProto(dslAbandoned)
	if err != nil {
		w.Stat("abandoned_dsl_error", 1)
		return
	}
	ts, err := typesystem.NewAndValidate(context.Background(), model)
	if err != nil || ts.GetWeightedGraph() == nil {
		w.Stat("abandoned_no_graph", 1)
		return
	}
	b, err := pipeline.NewBuilder(st, pipeline.WithChunkSize(cfg.Chunk), pipeline.WithBufferCapacity(cfg.Buf), pipeline.WithNumProcs(cfg.Procs))
	if err != nil {
		return
	}
	p, err := b.Build(context.Background(), ts.GetWeightedGraph(), pipeline.Spec{ObjectType: "folder", ObjectRelation: rel, SubjectType: "user", SubjectID: "u1"})
	if err != nil {
		w.Stat("abandoned_build_error", 1)
		return
	}
	// the consumer gives the pipeline a generous budget (the healthy pipeline needs well under a
	// second); the pipeline context itself is never cancelled before that
	ctx, cancel := context.WithTimeout(context.Background(), 12*time.Second)
	defer cancel()
	var got []string
	for {
		v, ok := p.Recv(ctx)
		if !ok {
			break
		}
		got = append(got, v)
	}
	hang := 0
	if ctx.Err() != nil {
		hang = 1
		abandonedHangs++
	}
	closed := make(chan struct{})
	go func() { p.Close(); close(closed) }()
	closeHang := 0
	select {
	case <-closed:
	case <-time.After(10 * time.Second):
		closeHang = 1
	}
	cls := 0
	if closeHang == 0 {
		cls = errClass(p.Err())
	}
	sort.Strings(got)
	sort.Strings(expected)
	w.Stat("abandoned_cases", 1)
	w.Stat("abandoned_rel_"+rel, 1)
	w.Stat(fmt.Sprintf("abandoned_shape_%d", shape), 1)
	if cfg.Buf == 128 {
		w.Stat("abandoned_default_capacity", 1)
	}
	w.Stat("abandoned_expected_objects", len(expected))
	w.Case(map[string]any{"kind": 9, "seed": seed}, rec.I(9), rec.I(hang), rec.I(closeHang), rec.I(cls),
		rec.I(cfg.Chunk), rec.I(cfg.Buf), rec.I(cfg.Procs), rec.I(size), rec.LS(expected), rec.LS(got))
}
