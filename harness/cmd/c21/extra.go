//go:build verif

// Further C21 scenarios:
//
//	kind 6  a direct check of the model's hypothesis "a Send on a cyclical edge never blocks":
//	        the mpmc queue behind worker.NewQueueMedium must be built with unlimited extensions;
//	kind 7  (recorded as kind 4) high-volume cyclic scenarios through the real server: TTU
//	        recursion, userset recursion and a two-type tuple cycle with a fan-out of hundreds per
//	        level, smallest pipeline tunings, Check-derived reference, hang watchdog;
//	kind 5  the real pipeline (pipeline.NewBuilder) on a synthetic ObjectStore that (sub 1) panics
//	        at the k-th read driven by a cyclical message: the request must end with the recovered
//	        error, never hang; (sub 2) blocks the k-th such read while the request is cancelled and
//	        closed, then delivers its rows: Close must return and Err must be nil or a context
//	        error.
package main

import (
	"context"
	"errors"
	"fmt"
	"strings"
	"sync/atomic"
	"time"
	"unsafe"

	parser "github.com/openfga/language/pkg/go/transformer"

	"github.com/openfga/openfga/internal/listobjects/pipeline"
	"github.com/openfga/openfga/internal/verifharness/lib/rec"
	"github.com/openfga/openfga/pkg/typesystem"
)

// ---------------------------------------------------------------------------------------------
// kind 6: the queue of a cyclical edge is unbounded

//go:linkname newQueueMedium github.com/openfga/openfga/internal/listobjects/pipeline/internal/worker.NewQueueMedium
func newQueueMedium(edge unsafe.Pointer, capacity int) unsafe.Pointer

// first fields of mpmc.Queue[T] (independent of T)
type queueMirror struct {
	data       []struct{}
	capacity   int
	full       chan struct{}
	empty      chan struct{}
	extensions int
	extended   int
}

type queueMediumMirror struct {
	key   unsafe.Pointer
	queue *queueMirror
	label string
}

func kindQueueConfig(w *rec.Writer) {
	qm := (*queueMediumMirror)(newQueueMedium(nil, 8))
	q := qm.queue
	layout := q != nil && q.capacity == 8 && len(q.data) == 8 && cap(q.full) == 1 && cap(q.empty) == 1 && q.extended == 0 && qm.label == "nil->nil"
	ext := 0
	if q != nil {
		ext = q.extensions
	}
	w.Stat("queue_config_checked", 1)
	w.Case(map[string]any{"kind": 6}, rec.I(6), rec.Bool(layout), rec.I(ext))
}

// ---------------------------------------------------------------------------------------------
// kind 7: volume

func heavyCase(seed uint64) e2eCase {
	r := rec.NewRand(seed)
	variant := rec.Pick(r, []string{"ttu", "userset", "ring2"})
	mids := r.Range(4, 8)
	leaves := r.Range(100, 180)
	c := e2eCase{Kind: 4, Seed: seed, Heavy: variant, User: "user:u1", Conc: 2, Procs: rec.Pick(r, []int{2, 4, 16}), Watch: 45}
	var tuples [][3]string
	switch variant {
	case "ttu":
		c.DSL = "model\n  schema 1.1\ntype user\ntype folder\n  relations\n    define parent: [folder]\n    define viewer: [user] or viewer from parent\n"
		c.Type, c.Rel = "folder", "viewer"
		tuples = append(tuples, [3]string{"folder:root", "viewer", "user:u1"})
		for i := 0; i < mids; i++ {
			m := fmt.Sprintf("folder:m%d", i)
			tuples = append(tuples, [3]string{m, "parent", "folder:root"})
			for j := 0; j < leaves; j++ {
				tuples = append(tuples, [3]string{fmt.Sprintf("%s-l%d", m, j), "parent", m})
			}
		}
	case "userset":
		c.DSL = "model\n  schema 1.1\ntype user\ntype group\n  relations\n    define member: [user, group#member]\n"
		c.Type, c.Rel = "group", "member"
		tuples = append(tuples, [3]string{"group:root", "member", "user:u1"})
		for i := 0; i < mids; i++ {
			m := fmt.Sprintf("group:m%d", i)
			tuples = append(tuples, [3]string{m, "member", "group:root#member"})
			for j := 0; j < leaves; j++ {
				tuples = append(tuples, [3]string{fmt.Sprintf("%s-l%d", m, j), "member", m + "#member"})
			}
		}
	default: // a tuple cycle over two types: team -> org -> team
		c.DSL = "model\n  schema 1.1\ntype user\ntype team\n  relations\n    define member: [user, org#member]\ntype org\n  relations\n    define member: [user, team#member]\n"
		c.Type, c.Rel = "team", "member"
		tuples = append(tuples, [3]string{"team:root", "member", "user:u1"})
		for i := 0; i < mids; i++ {
			m := fmt.Sprintf("org:m%d", i)
			tuples = append(tuples, [3]string{m, "member", "team:root#member"})
			for j := 0; j < leaves; j++ {
				tuples = append(tuples, [3]string{fmt.Sprintf("team:m%d-l%d", i, j), "member", m + "#member"})
			}
		}
	}
	c.Tuples = tuples
	// the smallest tunings, and now and then a large one
	c.Cfgs = []cfgT{{Chunk: 1, Buf: r.Range(1, 2), Procs: r.Range(1, 2), DL: 30}}
	if r.Chance(1, 2) {
		c.Cfgs = append(c.Cfgs, rec.Pick(r, []cfgT{{Chunk: 1, Buf: 2, Procs: 3, DL: 30}, {Chunk: 100, Buf: 128, Procs: 3, DL: 30}, {Chunk: 2, Buf: 1, Procs: 1, DL: 30}}))
	}
	return c
}

func kindHeavy(w *rec.Writer, env *e2eEnv, seed uint64, storeCounter *int) bool {
	c := heavyCase(seed)
	w.Stat("e2e_heavy_"+c.Heavy, 1)
	return runE2E(w, env, c, storeCounter)
}

// ---------------------------------------------------------------------------------------------
// kind 5: faults and cancellation in the middle of cyclical work, on the real pipeline

type sliceRecv struct{ items []pipeline.Item }

// rows that were fetched are delivered whatever the request context says
func (r *sliceRecv) Recv(context.Context) (pipeline.Item, bool) {
	if len(r.items) == 0 {
		return pipeline.Item{}, false
	}
	it := r.items[0]
	r.items = r.items[1:]
	return it, true
}
func (r *sliceRecv) Close() { r.items = nil }

type synthStore struct {
	index   map[string][]string // "type|relation|user" -> objects
	mode    int                 // 1 panic, 2 gate
	k       int64
	ctr     atomic.Int64
	fired   atomic.Bool
	reached chan struct{}
	release chan struct{}
}

func (s *synthStore) Read(_ context.Context, q pipeline.ObjectQuery) pipeline.Receiver[pipeline.Item] {
	cyc := false
	for _, u := range q.Users {
		if !strings.HasPrefix(u, "user:") {
			cyc = true
		}
	}
	if cyc && s.ctr.Add(1) == s.k {
		s.fired.Store(true)
		switch s.mode {
		case 1:
			panic("c21: storage fault while serving a cyclical message")
		case 2:
			close(s.reached)
			<-s.release
		}
	}
	seen := map[string]bool{}
	var items []pipeline.Item
	for _, u := range q.Users {
		for _, o := range s.index[q.ObjectType+"|"+q.Relation+"|"+u] {
			if !seen[o] {
				seen[o] = true
				items = append(items, pipeline.Item{Value: o})
			}
		}
	}
	return &sliceRecv{items: items}
}

const dslFolder = "model\n  schema 1.1\ntype user\ntype folder\n  relations\n    define parent: [folder]\n    define viewer: [user] or viewer from parent\n"
const dslRing = "model\n  schema 1.1\ntype user\ntype document\n  relations\n    define viewer: [team#member]\ntype team\n  relations\n    define member: [user, org#employee]\ntype org\n  relations\n    define employee: [user, team#member]\n"

func errClass(err error) int {
	switch {
	case err == nil:
		return 0
	case errors.Is(err, context.Canceled) || errors.Is(err, context.DeadlineExceeded):
		return 1
	case strings.Contains(err.Error(), "recovered from panic") || strings.Contains(err.Error(), "storage fault"):
		return 2
	}
	return 3
}

// hangs seen so far per sub-kind: after two, the sub-kind is not run any more (every hang costs
// the whole watchdog and leaks the pipeline's goroutines)
var faultHangs [3]int

func kindFault(w *rec.Writer, seed uint64) {
	r := rec.NewRand(seed)
	sub := 1 + r.Intn(2)
	if faultHangs[sub] >= 2 {
		w.Stat(fmt.Sprintf("fault_sub%d_skipped_after_hangs", sub), 1)
		return
	}
	st := &synthStore{index: map[string][]string{}, mode: sub, reached: make(chan struct{}), release: make(chan struct{})}
	add := func(obj, rel, user string) {
		t := strings.SplitN(obj, ":", 2)[0]
		key := t + "|" + rel + "|" + user
		st.index[key] = append(st.index[key], obj)
	}
	var dsl string
	var spec pipeline.Spec
	variant := r.Intn(2)
	ncyc := 0 // an estimate of the number of cyclical reads
	if variant == 0 {
		dsl = dslFolder
		spec = pipeline.Spec{ObjectType: "folder", ObjectRelation: "viewer", SubjectType: "user", SubjectID: "u1"}
		add("folder:0", "viewer", "user:u1")
		// further roots: with chunk size 1 several messages travel on the cyclical edge at once
		for j := r.Intn(3); j > 0; j-- {
			add(fmt.Sprintf("folder:r%d", j), "viewer", "user:u1")
			add(fmt.Sprintf("folder:c%d", j), "parent", fmt.Sprintf("folder:r%d", j))
		}
		nf := r.Range(2, 9)
		for i := 1; i < nf; i++ {
			add(fmt.Sprintf("folder:%d", i), "parent", fmt.Sprintf("folder:%d", r.Intn(i)))
		}
		ncyc = nf
	} else {
		dsl = dslRing
		spec = pipeline.Spec{ObjectType: "document", ObjectRelation: "viewer", SubjectType: "user", SubjectID: "u1"}
		add("team:0", "member", "user:u1")
		n := r.Range(1, 4)
		for i := 0; i < n; i++ {
			add(fmt.Sprintf("org:%d", i), "employee", fmt.Sprintf("team:%d#member", i))
			add(fmt.Sprintf("team:%d", i+1), "member", fmt.Sprintf("org:%d#employee", i))
			if r.Bool() {
				add(fmt.Sprintf("document:%d", i), "viewer", fmt.Sprintf("team:%d#member", i+1))
			}
		}
		ncyc = 3 * n
	}
	st.k = int64(r.Range(1, ncyc))
	model, err := parser.TransformDSLToProto(dsl)
	if err != nil {
		return
	}
	ts, err := typesystem.NewAndValidate(context.Background(), model)
	if err != nil || ts.GetWeightedGraph() == nil {
		w.Stat("fault_no_graph", 1)
		return
	}
	cfg := rec.Pick(r, []cfgT{{Chunk: 1, Buf: 1, Procs: 1}, {Chunk: 1, Buf: 2, Procs: 3}, {Chunk: 100, Buf: 128, Procs: 3}, {Chunk: 2, Buf: 8, Procs: 2}})
	b, err := pipeline.NewBuilder(st, pipeline.WithChunkSize(cfg.Chunk), pipeline.WithBufferCapacity(cfg.Buf), pipeline.WithNumProcs(cfg.Procs))
	if err != nil {
		return
	}
	ctx, cancel := context.WithCancel(context.Background())
	defer cancel()
	p, err := b.Build(ctx, ts.GetWeightedGraph(), spec)
	if err != nil {
		w.Stat("fault_build_error", 1)
		return
	}
	hang, cls, nobj, stalled := 0, 0, 0, 0
	const watchdog = 10 * time.Second
	if sub == 1 {
		// consume everything, close, look at the error
		done := make(chan error, 1)
		go func() {
			for {
				if _, ok := p.Recv(context.Background()); !ok {
					break
				}
				nobj++
			}
			p.Close()
			done <- p.Err()
		}()
		select {
		case e := <-done:
			cls = errClass(e)
		case <-time.After(4 * time.Second):
			// the consumer is parked in Recv although the fault has been reported: the pipeline
			// does not close itself.  The request context is cancelled (what the ListObjects
			// deadline does); after that teardown has to complete.
			stalled = 1
			cancel()
			select {
			case e := <-done:
				cls = errClass(e)
			case <-time.After(watchdog):
				hang = 1
			}
		}
		close(st.release)
	} else {
		select {
		case <-st.reached:
			// the gated read is in progress; let the members park, then cancel and close while the
			// cyclical message is still being processed
			time.Sleep(30 * time.Millisecond)
			cancel()
			closedCh := make(chan struct{})
			go func() { p.Close(); close(closedCh) }()
			time.Sleep(30 * time.Millisecond)
			close(st.release)
			select {
			case <-closedCh:
				cls = errClass(p.Err())
			case <-time.After(watchdog):
				hang = 1
			}
		case <-time.After(2 * time.Second):
			// the k-th cyclical read never happened: plain completion
			close(st.release)
			done := make(chan error, 1)
			go func() {
				for {
					if _, ok := p.Recv(context.Background()); !ok {
						break
					}
				}
				p.Close()
				done <- p.Err()
			}()
			select {
			case e := <-done:
				cls = errClass(e)
			case <-time.After(watchdog):
				hang = 1
			}
		}
	}
	fired := st.fired.Load()
	faultHangs[sub] += hang
	w.Stat(fmt.Sprintf("fault_sub%d_cases", sub), 1)
	if fired {
		w.Stat(fmt.Sprintf("fault_sub%d_fired", sub), 1)
	}
	w.Stat(fmt.Sprintf("fault_errclass_%d", cls), 1)
	if stalled == 1 {
		w.Stat(fmt.Sprintf("fault_sub1_stalled_until_cancel_procs%d", cfg.Procs), 1)
	}
	w.Case(map[string]any{"kind": 5, "seed": seed}, rec.I(5), rec.I(sub), rec.Bool(fired), rec.I(hang), rec.I(cls),
		rec.I(stalled), rec.I(variant), rec.I(int(st.k)), rec.I(cfg.Chunk), rec.I(cfg.Buf), rec.I(cfg.Procs))
}
