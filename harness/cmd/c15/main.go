//go:build verif

// Driver for C15 (the changelog faithfully records tuple history).
//
// Scenarios (one record each; the oracle replays them on Store/Memory.v / Store/SqlTxn.v and
// evaluates the property predicates on what the backends returned):
//   - histories of write requests over the 12-key universe (all option combinations, valid
//     and invalid, command layer and datastore) on memory and sqlite (temporary file under
//     /tmp/c15); after every step: all tuples, the whole changelog ascending and descending,
//     and per object type, each paged fully with random page sizes; at random steps also the
//     ReadChanges command, default page size, type-filtered descending, and far horizons;
//   - horizon scenarios with the real clock: old writes, a pause, new writes, then reads with
//     a horizon inside the pause (guard band; inconclusive timing is dropped, never reported):
//     on the datastore, and through the ReadChanges command with a non-zero horizon, page
//     sizes 1 / 2 / n/2 following continuation tokens to the end, a poll with the last token
//     after further writes, and on sqlite the command's real one-minute horizon against
//     changelog rows made two minutes older through a second connection.
package main

import (
	"bufio"
	"encoding/json"
	"fmt"
	"os"

	"github.com/openfga/openfga/internal/verifharness/lib/rec"
	sg "github.com/openfga/openfga/internal/verifharness/lib/storegen"
)

func statf(w *rec.Writer) func(string) { return func(k string) { w.Stat(k, 1) } }

func countOps(w *rec.Writer, rn *sg.Runner) {
	for i, op := range rn.Res.Ops {
		if op.Kind == sg.KindBackdate {
			continue
		}
		if op.Kind == sg.KindHorizonCmd {
			w.Stat("horizon_cmd_token_reads", 1)
			if op.Poll {
				w.Stat("horizon_cmd_polls", 1)
			}
			if rn.Res.Sql[i].Present && !rn.Res.Sql[i].Incon && (op.Real || (rn.Res.Mem[i].Present && !rn.Res.Mem[i].Incon)) {
				w.Stat("horizon_cmd_token_reads_conclusive", 1)
				w.Stat("horizon_cmd_entries_returned_sqlite", len(rn.Res.Sql[i].Asc))
				w.Stat(fmt.Sprintf("horizon_cmd_page_size_%d", min(op.PS, 3)), 1)
			}
			continue
		}
		if op.Kind == sg.KindHorizon {
			w.Stat("horizon_reads", 1)
			if !rn.Res.Mem[i].Incon && !rn.Res.Sql[i].Incon {
				w.Stat("horizon_reads_conclusive", 1)
				w.Stat("horizon_entries_returned_memory", len(rn.Res.Mem[i].Asc))
			}
			continue
		}
		w.Stat("ops", 1)
		if op.Mode == 0 {
			w.Stat("ops_command_layer", 1)
		} else {
			w.Stat("ops_datastore", 1)
		}
		if rn.Res.Mem[i].Present {
			w.Stat(fmt.Sprintf("memory_err_class_%d", rn.Res.Mem[i].Err), 1)
			if i == len(rn.Res.Ops)-1 {
				w.Stat("final_changelog_entries_memory", len(rn.Res.Mem[i].Asc))
				w.Stat("final_tuples_memory", len(rn.Res.Mem[i].Tuples))
			}
		}
		if rn.Res.Sql[i].Present {
			w.Stat(fmt.Sprintf("sqlite_err_class_%d", rn.Res.Sql[i].Err), 1)
		}
	}
}

func history(w *rec.Writer, seed uint64, p sg.Profile, steps int) {
	rn, err := sg.NewRunner(seed)
	if err != nil {
		panic(err)
	}
	defer rn.Close()
	r := rec.NewRand(seed)
	for i := 0; i < steps; i++ {
		op := sg.GenWrite(r, p, rn.Present(), statf(w))
		op.Tick = i + 1
		rn.Do(op, i == steps-1 || r.Chance(1, 3))
	}
	countOps(w, rn)
	w.Stat("histories_"+p.Name, 1)
	rn.Emit(w, p.Name, seed)
}

func horizon(w *rec.Writer, seed uint64) {
	rn, err := sg.NewRunner(seed)
	if err != nil {
		panic(err)
	}
	defer rn.Close()
	r := rec.NewRand(seed)
	p := sg.Profile{Name: "horizon", Mode: 2, PBadItem: 10, PDupKey: 10, MaxItems: 4, KeyLimit: 12}
	// old changes (tick 1); on sqlite they are additionally made two minutes older
	for i := 0; i < r.Range(4, 9); i++ {
		op := sg.GenWrite(r, p, rn.Present(), statf(w))
		op.Tick = 1
		rn.Do(op, false)
	}
	nOld := 0
	if n := len(rn.Res.Mem); n > 0 {
		nOld = len(rn.Res.Mem[n-1].Asc)
	}
	rn.Do(sg.Op{Kind: sg.KindBackdate}, false)
	// new changes (tick 3) after a pause; the scaled horizon lies inside the pause
	pause, hms := 900, 600
	for i := 0; i < r.Range(1, 3); i++ {
		op := sg.GenWrite(r, p, rn.Present(), statf(w))
		op.OnDup, op.OnMiss = sg.OptIgnore, sg.OptIgnore // so that new changes exist
		op.Tick = 3
		if i == 0 {
			op.SleepMs = pause
		}
		rn.Do(op, false)
	}
	types := []string{"", "", "doc", "folder", "group"}
	pageSizes := []int{1, 2, nOld/2 + 1}
	// datastore: exactly the old entries; everything; nothing
	rn.Do(sg.Op{Kind: sg.KindHorizon, Now: 3, H: 1, HMs: hms, Type: rec.Pick(r, types)}, false)
	rn.Do(sg.Op{Kind: sg.KindHorizon, Now: 3, H: 0, HMs: 0, Type: rec.Pick(r, types)}, false)
	rn.Do(sg.Op{Kind: sg.KindHorizon, Now: 3, H: 100, HMs: 3600000, Type: rec.Pick(r, types)}, false)
	// ReadChanges command with a non-zero horizon, following continuation tokens page by page
	typ := rec.Pick(r, types)
	rn.Do(sg.Op{Kind: sg.KindHorizonCmd, Now: 3, H: 1, HMs: hms, Type: typ, PS: rec.Pick(r, pageSizes)}, false)
	// further writes (tick 5), then the usual poll with the last token
	for i := 0; i < r.Range(1, 2); i++ {
		op := sg.GenWrite(r, p, rn.Present(), statf(w))
		op.OnDup, op.OnMiss = sg.OptIgnore, sg.OptIgnore
		op.Tick = 5
		rn.Do(op, false)
	}
	rn.Do(sg.Op{Kind: sg.KindHorizonCmd, Now: 5, H: 3, HMs: hms, Type: typ, PS: rec.Pick(r, pageSizes), Poll: true}, false)
	// sqlite: the command's real one-minute horizon against the backdated rows, paged, then polled
	typ2 := rec.Pick(r, types)
	rn.Do(sg.Op{Kind: sg.KindHorizonCmd, Now: 5, H: 3, Real: true, Type: typ2, PS: rec.Pick(r, pageSizes)}, false)
	rn.Do(sg.Op{Kind: sg.KindHorizonCmd, Now: 5, H: 3, Real: true, Type: typ2, PS: rec.Pick(r, pageSizes), Poll: true}, false)
	countOps(w, rn)
	w.Stat("histories_horizon", 1)
	rn.Emit(w, "horizon", seed)
}

func replay(w *rec.Writer, path string) {
	f, err := os.Open(path)
	if err != nil {
		panic(err)
	}
	defer f.Close()
	sc := bufio.NewScanner(f)
	sc.Buffer(make([]byte, 1<<20), 1<<28)
	for sc.Scan() {
		var h sg.History
		if err := json.Unmarshal(sc.Bytes(), &h); err != nil || len(h.Ops) == 0 {
			continue
		}
		rn, err := sg.NewRunner(h.Seed)
		if err != nil {
			panic(err)
		}
		for i, op := range h.Ops {
			rn.Do(op, i == len(h.Ops)-1)
		}
		countOps(w, rn)
		rn.Emit(w, h.Profile, h.Seed)
		rn.Close()
	}
}

func main() {
	o := rec.ParseFlags()
	sg.ScratchBase = "/tmp/c15"
	defer sg.Cleanup()
	w := rec.NewWriter(o.Out)
	defer w.Close()
	if o.Replay != "" {
		replay(w, o.Replay)
		return
	}
	r := rec.NewRand(o.Seed)
	for i := 0; i < o.N; i++ {
		s := r.Uint64()
		switch {
		case i%12 == 5:
			horizon(w, s)
		default:
			p := sg.Profiles[r.Intn(len(sg.Profiles))]
			steps := r.Range(8, 24)
			if o.Tier == "thorough" && r.Chance(1, 8) {
				steps = r.Range(40, 90)
			}
			history(w, s, p, steps)
		}
	}
}
