//go:build verif

// Driver for C16: three single-store histories that reuse every name (store name, object,
// relation and user names, model contents, one model id that exists in all three stores with
// different contents, assertion keys) are run (a) interleaved on ONE real server with all caches
// enabled and (b) each alone on a fresh server.  Per store, the observations of (a) must equal
// those of (b): any difference is a cross-store influence (PROP).  The interleaved run is also
// written as a record that the oracle replays on Store/Stores.v (DIFF).
package main

import (
	"context"
	"crypto/sha256"
	"encoding/hex"
	"encoding/json"
	"fmt"
	"os"
	"sort"
	"strings"
	"sync"
	"time"

	"google.golang.org/protobuf/types/known/wrapperspb"

	openfgav1 "github.com/openfga/api/proto/openfga/v1"

	"github.com/openfga/openfga/internal/verifharness/lib/rec"
	sh "github.com/openfga/openfga/internal/verifharness/lib/storehist"
	"github.com/openfga/openfga/pkg/server"
	"github.com/openfga/openfga/pkg/server/commands"
	"github.com/openfga/openfga/pkg/storage"
)

// property failures found while executing an operation (reported by the scenario)
var propFails []string

const root = "/tmp/c16"

func variantDSL(v int) string {
	pick := func(k int) string {
		if v&(1<<k) != 0 {
			return "viewer"
		}
		return "editor"
	}
	return "model\n  schema 1.1\ntype user\ntype document\n  relations\n    define viewer: [user]\n    define editor: [user]\n" +
		fmt.Sprintf("    define b0: %s\n    define b1: %s\n    define b2: %s\n", pick(0), pick(1), pick(2))
}

var variantModels [8]*openfgav1.AuthorizationModel

func init() {
	for v := 0; v < 8; v++ {
		variantModels[v] = sh.Model(variantDSL(v))
	}
}

var comboNames = []string{"v1_all_caches", "v2_all_caches"}

func comboOpts(c int) []server.OpenFGAServiceV1Option {
	opts := []server.OpenFGAServiceV1Option{
		server.WithCheckQueryCacheEnabled(true), server.WithCheckCacheLimit(10000), server.WithCheckQueryCacheTTL(time.Hour),
		server.WithCheckIteratorCacheEnabled(true), server.WithCheckIteratorCacheMaxResults(1000), server.WithCheckIteratorCacheTTL(time.Hour),
		server.WithListObjectsIteratorCacheEnabled(true), server.WithCacheControllerEnabled(true), server.WithSharedIteratorEnabled(true),
	}
	if c == 1 {
		opts = append(opts, server.WithExperimentals("weighted_graph_check"))
	}
	return opts
}

// ---- operation specs (symbolic: independent of the ids a run produces) ---------------------------

type tupleSpec struct{ Obj, Rel, User string }

func (t tupleSpec) String() string { return t.Obj + "#" + t.Rel + "@" + t.User }

type opSpec struct {
	Kind    string      // create seed delete get list listf wmodel rmodel lmodels wtuples readall changes check wasserts rasserts
	Variant int         // wmodel, seed
	ModelRef string     // rmodel / check / asserts: "", "shared", "ghost", "own:<i>"
	Dels    []tupleSpec // wtuples
	Wrs     []tupleSpec
	Check   tupleSpec // check: Obj, Rel = b0..b2, User
	Asserts []int     // wasserts: indices into the assertion catalogue
	Filter  string    // listf: "self", "self+other", "all"
	ByName  bool      // listf: also the name filter
	Page    int       // listf: page size (1..3), tokens are followed
}

var objs = []string{"document:1", "document:2", "document:3"}
var usrs = []string{"user:anne", "user:bob"}
var rels = []string{"viewer", "editor"}

func genTuple(r *rec.Rand) tupleSpec {
	return tupleSpec{rec.Pick(r, objs), rec.Pick(r, rels), rec.Pick(r, usrs)}
}

func assertionCatalogue() []*openfgav1.Assertion {
	var out []*openfgav1.Assertion
	for _, o := range objs {
		for _, u := range usrs {
			for _, e := range []bool{true, false} {
				out = append(out, &openfgav1.Assertion{TupleKey: &openfgav1.AssertionTupleKey{Object: o, Relation: "b0", User: u}, Expectation: e})
			}
		}
	}
	return out
}

var catalogue = assertionCatalogue()

func genHistory(r *rec.Rand, w *rec.Writer) []opSpec {
	h := []opSpec{{Kind: "create"}, {Kind: "seed", Variant: r.Intn(8)}}
	nOwn := 0
	modelRef := func() string {
		switch p := r.Intn(10); {
		case p < 3:
			return ""
		case p < 6:
			return "shared"
		case p == 6:
			return "ghost"
		}
		if nOwn == 0 {
			return "shared"
		}
		return fmt.Sprintf("own:%d", r.Intn(nOwn))
	}
	present := map[tupleSpec]bool{}
	n1 := r.Range(8, 20)
	for i := 0; i < n1; i++ {
		switch p := r.Intn(20); {
		case p < 2:
			h = append(h, opSpec{Kind: "wmodel", Variant: r.Intn(8)})
			nOwn++
		case p < 10:
			o := opSpec{Kind: "wtuples"}
			switch q := r.Intn(10); {
			case q < 6: // a valid write of a new tuple, sometimes two
				t := genTuple(r)
				o.Wrs = append(o.Wrs, t)
				if r.Chance(1, 4) {
					t2 := genTuple(r)
					if t2 != t {
						o.Wrs = append(o.Wrs, t2)
					}
				}
			case q < 9: // delete something (often present)
				var ps []tupleSpec
				for t := range present {
					ps = append(ps, t)
				}
				sort.Slice(ps, func(i, j int) bool { return ps[i].String() < ps[j].String() })
				if len(ps) > 0 && r.Chance(4, 5) {
					o.Dels = append(o.Dels, ps[r.Intn(len(ps))])
				} else {
					o.Dels = append(o.Dels, genTuple(r))
				}
			default: // one delete and one write
				o.Dels = append(o.Dels, genTuple(r))
				t := genTuple(r)
				if t != o.Dels[0] {
					o.Wrs = append(o.Wrs, t)
				}
			}
			// the generator tracks what is present so that most requests are accepted
			ok := true
			for _, t := range o.Dels {
				ok = ok && present[t]
			}
			for _, t := range o.Wrs {
				ok = ok && !present[t]
			}
			if ok {
				for _, t := range o.Dels {
					delete(present, t)
				}
				for _, t := range o.Wrs {
					present[t] = true
				}
			}
			h = append(h, o)
		case p < 12:
			h = append(h, opSpec{Kind: "readall"})
		case p < 14:
			h = append(h, opSpec{Kind: "changes"})
		case p < 15:
			h = append(h, opSpec{Kind: "rmodel", ModelRef: modelRef()})
		case p < 16:
			h = append(h, opSpec{Kind: "lmodels"})
		case p < 17:
			o := opSpec{Kind: "wasserts", ModelRef: modelRef()}
			for j := r.Intn(3); j >= 0; j-- {
				o.Asserts = append(o.Asserts, r.Intn(len(catalogue)))
			}
			h = append(h, o)
		case p < 18:
			h = append(h, opSpec{Kind: "rasserts", ModelRef: modelRef()})
		case p < 19:
			h = append(h, opSpec{Kind: "get"})
		default:
			if r.Bool() {
				h = append(h, opSpec{Kind: "list"})
			} else {
				h = append(h, genListF(r))
			}
		}
	}
	// phase 2: no tuple writes any more (the query caches are allowed to serve earlier results)
	n2 := r.Range(8, 25)
	deleteAt := -1
	if r.Chance(1, 3) {
		deleteAt = r.Intn(n2)
	}
	for i := 0; i < n2; i++ {
		if i == deleteAt {
			h = append(h, opSpec{Kind: "delete"})
			w.Stat("gen_history_with_delete_store", 1)
			// a deleted store must stay hidden under every filter combination and page size
			for _, f := range []string{"self", "self+other", "all"} {
				h = append(h, opSpec{Kind: "listf", Filter: f, ByName: r.Bool(), Page: r.Range(1, 3)})
			}
			h = append(h, opSpec{Kind: "get"})
			continue
		}
		switch p := r.Intn(20); {
		case p < 11:
			h = append(h, opSpec{Kind: "check", ModelRef: modelRef(), Check: tupleSpec{rec.Pick(r, objs), fmt.Sprintf("b%d", r.Intn(3)), rec.Pick(r, usrs)}})
		case p < 13:
			h = append(h, opSpec{Kind: "wmodel", Variant: r.Intn(8)})
			nOwn++
		case p < 14:
			h = append(h, opSpec{Kind: "rmodel", ModelRef: modelRef()})
		case p < 15:
			h = append(h, opSpec{Kind: "lmodels"})
		case p < 16:
			h = append(h, opSpec{Kind: "rasserts", ModelRef: modelRef()})
		case p < 17:
			h = append(h, opSpec{Kind: "readall"})
		case p < 18:
			h = append(h, opSpec{Kind: "changes"})
		case p < 19:
			h = append(h, opSpec{Kind: "get"})
		default:
			if r.Bool() {
				h = append(h, opSpec{Kind: "list"})
			} else {
				h = append(h, genListF(r))
			}
		}
	}
	return h
}

func genListF(r *rec.Rand) opSpec {
	return opSpec{Kind: "listf", Filter: rec.Pick(r, []string{"self", "self+other", "all"}), ByName: r.Bool(), Page: r.Range(1, 3)}
}

// ---- running ------------------------------------------------------------------------------------------

type storeRun struct {
	idx     int
	id      string   // real store id
	own     []string // real ids of the models written through the API
	shared  string
	ghost   string
	ghostStore string // a store id that is never created
	deleted bool
	obs     []string // canonical per-store observations
	canon   *sh.IDMap
}

type world struct {
	be  *sh.Backend
	srv *server.Server
	raw storage.OpenFGADatastore
}

func newWorld(backend string, combo int) *world {
	be, err := sh.Open(backend, root)
	if err != nil {
		panic(err)
	}
	raw := be.DS
	if leak := os.Getenv("VERIF_C16_SELFTEST_LEAK"); leak != "" {
		// self-test of the comparison only: a stand-in for a cache that forgets the store id
		// (never set by bin/check); the check must then report cross-store influence
		be.Disown()
		ds := &leakDS{OpenFGADatastore: raw, kind: leak, models: map[string]*openfgav1.AuthorizationModel{}, tuples: map[string]*openfgav1.Tuple{}}
		return &world{be: be, raw: raw, srv: server.MustNewServerWithOpts(append([]server.OpenFGAServiceV1Option{server.WithDatastore(ds)}, comboOpts(combo)...)...)}
	}
	return &world{be: be, raw: raw, srv: be.NewServer(comboOpts(combo)...)}
}

// leakDS simulates a shared cache whose key lacks the store id ("model": models by id only,
// "tuple": ReadUserTuple results by (object, relation, user) only).
type leakDS struct {
	storage.OpenFGADatastore
	kind   string
	mu     sync.Mutex
	models map[string]*openfgav1.AuthorizationModel
	tuples map[string]*openfgav1.Tuple
}

func (l *leakDS) ReadAuthorizationModel(ctx context.Context, store, id string) (*openfgav1.AuthorizationModel, error) {
	if l.kind != "model" {
		return l.OpenFGADatastore.ReadAuthorizationModel(ctx, store, id)
	}
	l.mu.Lock()
	defer l.mu.Unlock()
	if m, ok := l.models[id]; ok {
		return m, nil
	}
	m, err := l.OpenFGADatastore.ReadAuthorizationModel(ctx, store, id)
	if err == nil {
		l.models[id] = m
	}
	return m, err
}

func (l *leakDS) ReadUserTuple(ctx context.Context, store string, f storage.ReadUserTupleFilter, o storage.ReadUserTupleOptions) (*openfgav1.Tuple, error) {
	if l.kind != "tuple" {
		return l.OpenFGADatastore.ReadUserTuple(ctx, store, f, o)
	}
	k := f.Object + "#" + f.Relation + "@" + f.User
	l.mu.Lock()
	defer l.mu.Unlock()
	if t, ok := l.tuples[k]; ok {
		return t, nil
	}
	t, err := l.OpenFGADatastore.ReadUserTuple(ctx, store, f, o)
	if err == nil {
		l.tuples[k] = t
	}
	return t, err
}
func (w *world) close() { w.srv.Close(); w.be.Close() }

func (s *storeRun) model(ref string) string {
	switch {
	case ref == "":
		return ""
	case ref == "shared":
		return s.shared
	case ref == "ghost":
		return s.ghost
	}
	var i int
	fmt.Sscanf(ref, "own:%d", &i)
	if len(s.own) == 0 {
		return s.shared
	}
	return s.own[i%len(s.own)]
}

// symbolic name of a real model id, per store
func (s *storeRun) sym(id string) string {
	if id == "" {
		return "-"
	}
	if id == s.shared {
		return "shared"
	}
	for i, m := range s.own {
		if m == id {
			return fmt.Sprintf("own:%d", i)
		}
	}
	return "other"
}

func h8(b []byte) string { x := sha256.Sum256(b); return hex.EncodeToString(x[:6]) }

func tk(t tupleSpec) *openfgav1.TupleKey {
	return &openfgav1.TupleKey{Object: t.Obj, Relation: t.Rel, User: t.User}
}

// exec runs one operation of store s and returns its canonical observation and (for the
// interleaved run) the record for the oracle, built by mk with the global canonical id map.
func exec(wd *world, s *storeRun, o opSpec, allStores []*storeRun) (string, func(ids *sh.IDMap) rec.V) {
	ctx := sh.Ctx
	S := func(ids *sh.IDMap) rec.V { return rec.S(ids.Canon(s.id)) }
	switch o.Kind {
	case "create":
		res, err := wd.srv.CreateStore(ctx, &openfgav1.CreateStoreRequest{Name: "shared-name"})
		if err != nil {
			panic(err)
		}
		s.id = res.GetId()
		return "create -> 0 " + res.GetName(), func(ids *sh.IDMap) rec.V { return rec.L(rec.I(0), S(ids), rec.S(res.GetName()), rec.I(0)) }
	case "seed":
		m := sh.ModelWithID(variantDSL(o.Variant), s.shared)
		if err := wd.raw.WriteAuthorizationModel(ctx, s.id, m); err != nil {
			panic(err)
		}
		return fmt.Sprintf("seed v%d", o.Variant), func(ids *sh.IDMap) rec.V {
			return rec.L(rec.I(4), S(ids), rec.S(ids.Canon(s.shared)), rec.I(o.Variant), rec.I(0))
		}
	case "delete":
		_, err := wd.srv.DeleteStore(ctx, &openfgav1.DeleteStoreRequest{StoreId: s.id})
		cls := sh.ErrClass(err)
		if err == nil {
			s.deleted = true
		}
		return fmt.Sprintf("delete -> %d", cls), func(ids *sh.IDMap) rec.V { return rec.L(rec.I(1), S(ids), rec.I(cls)) }
	case "get":
		res, err := wd.srv.GetStore(ctx, &openfgav1.GetStoreRequest{StoreId: s.id})
		cls := sh.ErrClass(err)
		if s.deleted && err == nil {
			propFails = append(propFails, "deleted store is visible: GetStore answers for a deleted store")
		}
		return fmt.Sprintf("get -> %d %s", cls, res.GetName()), func(ids *sh.IDMap) rec.V {
			return rec.L(rec.I(2), S(ids), rec.I(cls), rec.S(res.GetName()))
		}
	case "list":
		res, err := wd.srv.ListStores(ctx, &openfgav1.ListStoresRequest{PageSize: wrapperspb.Int32(100)})
		cls := sh.ErrClass(err)
		listed := false
		var all []string
		for _, st := range res.GetStores() {
			all = append(all, st.GetId())
			if st.GetId() == s.id {
				listed = true
			}
		}
		if s.deleted && listed {
			propFails = append(propFails, "deleted store is visible: ListStores lists a deleted store")
		}
		return fmt.Sprintf("list -> %d self=%v", cls, listed), func(ids *sh.IDMap) rec.V {
			c := make([]string, len(all))
			for i, a := range all {
				c[i] = ids.Canon(a)
			}
			sort.Strings(c)
			return rec.L(rec.I(3), S(ids), rec.I(cls), rec.LS(c))
		}
	case "listf":
		// ListStores with the IDs filter (what access control passes), through the command and
		// through the datastore interface, following the continuation tokens
		filter := []string{s.id}
		other := s.ghostStore
		if allStores != nil {
			if o2 := allStores[(s.idx+1)%len(allStores)]; o2.id != "" {
				other = o2.id
			}
		}
		switch o.Filter {
		case "self+other":
			filter = append(filter, other)
		case "all":
			filter = []string{other, s.id, s.ghostStore}
			if allStores != nil {
				filter = nil
				for _, o2 := range allStores {
					if o2.id != "" {
						filter = append(filter, o2.id)
					}
				}
				filter = append(filter, s.ghostStore)
			}
		}
		name := ""
		if o.ByName {
			name = "shared-name"
		}
		var viaCmd, viaDS []string
		cls := 0
		q := commands.NewListStoresQuery(wd.raw)
		tok := ""
		for page := 0; page < 30; page++ {
			res, err := q.Execute(ctx, &openfgav1.ListStoresRequest{PageSize: wrapperspb.Int32(int32(o.Page)), ContinuationToken: tok, Name: name}, filter)
			if err != nil {
				cls = sh.ErrClass(err)
				break
			}
			for _, st := range res.GetStores() {
				viaCmd = append(viaCmd, st.GetId())
			}
			tok = res.GetContinuationToken()
			if tok == "" {
				break
			}
		}
		from := ""
		for page := 0; page < 30; page++ {
			sts, next, err := wd.raw.ListStores(ctx, storage.ListStoresOptions{IDs: filter, Name: name, Pagination: storage.NewPaginationOptions(int32(o.Page), from)})
			if err != nil {
				cls = 99
				break
			}
			for _, st := range sts {
				viaDS = append(viaDS, st.GetId())
			}
			from = next
			if from == "" {
				break
			}
		}
		if strings.Join(viaCmd, ",") != strings.Join(viaDS, ",") {
			propFails = append(propFails, "ListStores through the command and through the datastore interface differ")
		}
		listed := false
		for _, id := range viaCmd {
			if id == s.id {
				listed = true
			}
		}
		if s.deleted && listed {
			propFails = append(propFails, fmt.Sprintf("deleted store is visible: ListStores with IDs filter %q, name filter %v, page size %d lists a deleted store", o.Filter, o.ByName, o.Page))
		}
		return fmt.Sprintf("listf %s name=%v page=%d -> %d self=%v", o.Filter, o.ByName, o.Page, cls, listed), func(ids *sh.IDMap) rec.V {
			f := make([]string, len(filter))
			for i, a := range filter {
				f[i] = ids.Canon(a)
			}
			c := make([]string, len(viaCmd))
			for i, a := range viaCmd {
				c[i] = ids.Canon(a)
			}
			sort.Strings(c)
			return rec.L(rec.I(13), S(ids), rec.LS(f), rec.S(name), rec.I(cls), rec.LS(c))
		}
	case "wmodel":
		vm := variantModels[o.Variant]
		res, err := wd.srv.WriteAuthorizationModel(ctx, &openfgav1.WriteAuthorizationModelRequest{StoreId: s.id, SchemaVersion: "1.1", TypeDefinitions: vm.GetTypeDefinitions()})
		cls := sh.ErrClass(err)
		id := res.GetAuthorizationModelId()
		if err == nil {
			s.own = append(s.own, id)
		}
		return fmt.Sprintf("wmodel v%d -> %d %s", o.Variant, cls, s.sym(id)), func(ids *sh.IDMap) rec.V {
			return rec.L(rec.I(4), S(ids), rec.S(ids.Canon(id)), rec.I(o.Variant), rec.I(cls))
		}
	case "rmodel":
		mid := s.model(o.ModelRef)
		if mid == "" {
			mid = s.shared
		}
		res, err := wd.srv.ReadAuthorizationModel(ctx, &openfgav1.ReadAuthorizationModelRequest{StoreId: s.id, Id: mid})
		cls := sh.ErrClass(err)
		variant := -1
		if err == nil {
			variant = variantOf(res.GetAuthorizationModel())
		}
		return fmt.Sprintf("rmodel %s -> %d v%d", s.sym(mid), cls, variant), func(ids *sh.IDMap) rec.V {
			return rec.L(rec.I(5), S(ids), rec.S(ids.Canon(mid)), rec.I(cls), rec.I(variant+1))
		}
	case "lmodels":
		res, err := wd.srv.ReadAuthorizationModels(ctx, &openfgav1.ReadAuthorizationModelsRequest{StoreId: s.id, PageSize: wrapperspb.Int32(100)})
		cls := sh.ErrClass(err)
		var syms, real []string
		for _, m := range res.GetAuthorizationModels() {
			syms = append(syms, s.sym(m.GetId()))
			real = append(real, m.GetId())
		}
		return fmt.Sprintf("lmodels -> %d %s", cls, strings.Join(syms, ",")), func(ids *sh.IDMap) rec.V {
			c := make([]string, len(real))
			for i, a := range real {
				c[i] = ids.Canon(a)
			}
			return rec.L(rec.I(6), S(ids), rec.I(cls), rec.LS(c))
		}
	case "wtuples":
		req := &openfgav1.WriteRequest{StoreId: s.id}
		if len(o.Wrs) > 0 {
			req.Writes = &openfgav1.WriteRequestWrites{}
			for _, t := range o.Wrs {
				req.Writes.TupleKeys = append(req.Writes.TupleKeys, tk(t))
			}
		}
		if len(o.Dels) > 0 {
			req.Deletes = &openfgav1.WriteRequestDeletes{}
			for _, t := range o.Dels {
				req.Deletes.TupleKeys = append(req.Deletes.TupleKeys, &openfgav1.TupleKeyWithoutCondition{Object: t.Obj, Relation: t.Rel, User: t.User})
			}
		}
		_, err := wd.srv.Write(ctx, req)
		cls := sh.ErrClass(err)
		return fmt.Sprintf("wtuples d=%v w=%v -> %d", o.Dels, o.Wrs, cls), func(ids *sh.IDMap) rec.V {
			return rec.L(rec.I(7), S(ids), recTuples(o.Dels), recTuples(o.Wrs), rec.I(cls))
		}
	case "readall":
		res, err := wd.srv.Read(ctx, &openfgav1.ReadRequest{StoreId: s.id, PageSize: wrapperspb.Int32(100)})
		cls := sh.ErrClass(err)
		var ts []tupleSpec
		for _, t := range res.GetTuples() {
			ts = append(ts, tupleSpec{t.GetKey().GetObject(), t.GetKey().GetRelation(), t.GetKey().GetUser()})
		}
		sort.Slice(ts, func(i, j int) bool { return ts[i].String() < ts[j].String() })
		return fmt.Sprintf("readall -> %d %v", cls, ts), func(ids *sh.IDMap) rec.V {
			return rec.L(rec.I(8), S(ids), rec.I(cls), recTuples(ts))
		}
	case "changes":
		res, err := wd.srv.ReadChanges(ctx, &openfgav1.ReadChangesRequest{StoreId: s.id, PageSize: wrapperspb.Int32(100)})
		cls := sh.ErrClass(err)
		var parts []string
		var vs []rec.V
		for _, c := range res.GetChanges() {
			t := tupleSpec{c.GetTupleKey().GetObject(), c.GetTupleKey().GetRelation(), c.GetTupleKey().GetUser()}
			isWrite := c.GetOperation() == openfgav1.TupleOperation_TUPLE_OPERATION_WRITE
			parts = append(parts, fmt.Sprintf("%v:%s", isWrite, t))
			vs = append(vs, rec.L(rec.Bool(isWrite), rec.S(t.Obj), rec.S(t.Rel), rec.S(t.User)))
		}
		return fmt.Sprintf("changes -> %d %v", cls, parts), func(ids *sh.IDMap) rec.V {
			return rec.L(rec.I(9), S(ids), rec.I(cls), rec.L(vs...))
		}
	case "check":
		mid := s.model(o.ModelRef)
		res, err := wd.srv.Check(ctx, &openfgav1.CheckRequest{StoreId: s.id, AuthorizationModelId: mid,
			TupleKey: &openfgav1.CheckRequestTupleKey{Object: o.Check.Obj, Relation: o.Check.Rel, User: o.Check.User}})
		cls := sh.ErrClass(err)
		k := int(o.Check.Rel[1] - '0')
		return fmt.Sprintf("check %s m=%s -> %d %v", o.Check, s.sym(mid), cls, res.GetAllowed()), func(ids *sh.IDMap) rec.V {
			return rec.L(rec.I(10), S(ids), rec.S(o.Check.Obj), rec.I(k), rec.S(o.Check.User), rec.S(ids.Canon(mid)), rec.I(cls), rec.Bool(res.GetAllowed()))
		}
	case "wasserts":
		mid := s.model(o.ModelRef)
		if mid == "" {
			mid = s.shared
		}
		var as []*openfgav1.Assertion
		var encs []rec.V
		for _, i := range o.Asserts {
			as = append(as, catalogue[i])
			encs = append(encs, rec.I(i))
		}
		_, err := wd.srv.WriteAssertions(ctx, &openfgav1.WriteAssertionsRequest{StoreId: s.id, AuthorizationModelId: mid, Assertions: as})
		cls := sh.ErrClass(err)
		return fmt.Sprintf("wasserts m=%s %v -> %d", s.sym(mid), o.Asserts, cls), func(ids *sh.IDMap) rec.V {
			return rec.L(rec.I(11), S(ids), rec.S(ids.Canon(mid)), rec.L(encs...), rec.I(cls))
		}
	case "rasserts":
		mid := s.model(o.ModelRef)
		if mid == "" {
			mid = s.shared
		}
		res, err := wd.srv.ReadAssertions(ctx, &openfgav1.ReadAssertionsRequest{StoreId: s.id, AuthorizationModelId: mid})
		cls := sh.ErrClass(err)
		var got []int
		var encs []rec.V
		for _, a := range res.GetAssertions() {
			idx := -1
			for i, c := range catalogue {
				if string(sh.Enc(c)) == string(sh.Enc(a)) {
					idx = i
				}
			}
			got = append(got, idx)
			encs = append(encs, rec.I(idx+1))
		}
		return fmt.Sprintf("rasserts m=%s -> %d %v", s.sym(mid), cls, got), func(ids *sh.IDMap) rec.V {
			return rec.L(rec.I(12), S(ids), rec.S(ids.Canon(mid)), rec.I(cls), rec.L(encs...))
		}
	}
	panic("unknown op " + o.Kind)
}

func variantOf(m *openfgav1.AuthorizationModel) int {
	for _, td := range m.GetTypeDefinitions() {
		if td.GetType() != "document" {
			continue
		}
		v := 0
		for k := 0; k < 3; k++ {
			if td.GetRelations()[fmt.Sprintf("b%d", k)].GetComputedUserset().GetRelation() == "viewer" {
				v |= 1 << k
			}
		}
		return v
	}
	return -1
}

func recTuples(ts []tupleSpec) rec.V {
	vs := make([]rec.V, len(ts))
	for i, t := range ts {
		vs[i] = rec.L(rec.S(t.Obj), rec.S(t.Rel), rec.S(t.User))
	}
	return rec.L(vs...)
}

type desc struct {
	Seed    uint64 `json:"seed"`
	Backend string `json:"backend"`
	Combo   int    `json:"combo"`
	Kind    string `json:"kind,omitempty"` // "" = interleaved histories, "concurrent" = gated two-store case
}

func scenario(w *rec.Writer, d desc) {
	r := rec.NewRand(d.Seed)
	var hs [3][]opSpec
	for k := 0; k < 3; k++ {
		hs[k] = genHistory(r, w)
	}
	shared := sh.NewULID()
	ghost := "7ZZZZZZZZZZZZZZZZZZZZZZGHT"
	// a random interleaving that keeps each store's order
	var order []int
	left := []int{len(hs[0]), len(hs[1]), len(hs[2])}
	for left[0]+left[1]+left[2] > 0 {
		k := r.Intn(3)
		if left[k] == 0 {
			continue
		}
		// runs of a few operations of the same store, then switch
		n := r.Range(1, 3)
		for ; n > 0 && left[k] > 0; n-- {
			order = append(order, k)
			left[k]--
		}
	}
	// (a) interleaved
	wd := newWorld(d.Backend, d.Combo)
	var runs [3]*storeRun
	ghostStore := sh.NewULID()
	for k := range runs {
		runs[k] = &storeRun{idx: k, shared: shared, ghost: ghost, ghostStore: ghostStore}
	}
	propFails = nil
	pos := [3]int{}
	var mk []func(ids *sh.IDMap) rec.V
	for _, k := range order {
		o := hs[k][pos[k]]
		pos[k]++
		obs, f := exec(wd, runs[k], o, runs[:])
		runs[k].obs = append(runs[k].obs, obs)
		mk = append(mk, f)
		stat := "op_" + o.Kind
		if i := strings.Index(obs, "-> "); i >= 0 {
			stat += "_class_" + strings.SplitN(obs[i+3:], " ", 2)[0]
		}
		if o.Kind == "check" && (strings.HasSuffix(obs, " true") || strings.HasSuffix(obs, " false")) {
			stat += obs[strings.LastIndex(obs, " "):]
			if o.ModelRef != "" {
				stat += " named_" + strings.SplitN(o.ModelRef, ":", 2)[0]
			}
		}
		w.Stat(strings.ReplaceAll(stat, " ", "_"), 1)
	}
	wd.close()
	for _, pf := range propFails {
		w.PropFail(pf, map[string]any{"desc": d, "run": "interleaved"})
	}
	// global canonical ids: stores by index, model ids by rank (the shared id is the oldest)
	ids := sh.NewIDMap()
	ids.Bind(ghostStore, "S9")
	var allModels []string
	for k, s := range runs {
		ids.Bind(s.id, fmt.Sprintf("S%d", k))
		allModels = append(allModels, s.own...)
	}
	allModels = append(allModels, shared)
	sort.Strings(allModels)
	for rank, m := range allModels {
		ids.Bind(m, fmt.Sprintf("M%03d", rank))
	}
	ops := make([]rec.V, len(mk))
	for i, f := range mk {
		ops[i] = f(ids)
	}
	w.Case(d, rec.I(bk(d)), rec.I(d.Combo), rec.L(ops...))
	// (b) each store alone
	for k := 0; k < 3; k++ {
		wd := newWorld(d.Backend, d.Combo)
		s := &storeRun{idx: k, shared: shared, ghost: ghost, ghostStore: ghostStore}
		propFails = nil
		for _, o := range hs[k] {
			obs, _ := exec(wd, s, o, nil)
			s.obs = append(s.obs, obs)
		}
		wd.close()
		for _, pf := range propFails {
			w.PropFail(pf, map[string]any{"desc": d, "run": "alone", "store": k})
		}
		if len(s.obs) != len(runs[k].obs) {
			w.PropFail("interleaved and isolated runs of a store have different lengths", map[string]any{"desc": d, "store": k})
			continue
		}
		for i := range s.obs {
			if s.obs[i] != runs[k].obs[i] {
				w.PropFail("an operation on one store is answered differently when operations on other stores are interleaved",
					map[string]any{"desc": d, "store": k, "op": i, "interleaved": runs[k].obs[i], "alone": s.obs[i]})
				break
			}
		}
	}
	w.Stat("scenario_"+d.Backend+"_"+comboNames[d.Combo], 1)
}

// concurrentIsolation: store A's latest-model lookup is held in flight (gated datastore) while a
// model-less Check for store B arrives.  B's answer must be the answer B gets on a server of its
// own.  Same names everywhere; A's and B's latest models answer the Check differently.
func concurrentIsolation(w *rec.Writer, d desc) {
	ctx := sh.Ctx
	type answer struct {
		cls     int
		allowed bool
	}
	setup := func(srv *server.Server, variant int) string {
		res, err := srv.CreateStore(ctx, &openfgav1.CreateStoreRequest{Name: "shared-name"})
		if err != nil {
			panic(err)
		}
		vm := variantModels[variant]
		if _, err := srv.WriteAuthorizationModel(ctx, &openfgav1.WriteAuthorizationModelRequest{StoreId: res.GetId(), SchemaVersion: "1.1", TypeDefinitions: vm.GetTypeDefinitions()}); err != nil {
			panic(err)
		}
		if _, err := srv.Write(ctx, &openfgav1.WriteRequest{StoreId: res.GetId(), Writes: &openfgav1.WriteRequestWrites{
			TupleKeys: []*openfgav1.TupleKey{{Object: "document:1", Relation: "viewer", User: "user:anne"}}}}); err != nil {
			panic(err)
		}
		return res.GetId()
	}
	check := func(srv *server.Server, store string) answer {
		res, err := srv.Check(ctx, &openfgav1.CheckRequest{StoreId: store,
			TupleKey: &openfgav1.CheckRequestTupleKey{Object: "document:1", Relation: "b0", User: "user:anne"}})
		return answer{sh.ErrClass(err), res.GetAllowed()}
	}
	// (a) both stores on one server, A's lookup in flight
	be, err := sh.Open(d.Backend, root)
	if err != nil {
		panic(err)
	}
	gate := sh.NewGate(be.DS)
	be.Disown()
	srv := server.MustNewServerWithOpts(append([]server.OpenFGAServiceV1Option{server.WithDatastore(gate)}, comboOpts(d.Combo)...)...)
	a := setup(srv, 0) // b0 false
	b := setup(srv, 1) // b0 true
	gate.Arm(a)
	ac, bc := make(chan answer, 1), make(chan answer, 1)
	go func() { ac <- check(srv, a) }()
	<-gate.Entered()
	go func() { bc <- check(srv, b) }()
	var together answer
	doneBefore := false
	select {
	case together = <-bc:
		doneBefore = true
	case <-time.After(1500 * time.Millisecond):
	}
	gate.Release()
	ansA := <-ac
	if !doneBefore {
		together = <-bc
	}
	srv.Close()
	be.Close()
	// (b) store B alone
	wd := newWorld(d.Backend, d.Combo)
	alone := check(wd.srv, setup(wd.srv, 1))
	wd.close()
	if together != alone {
		w.PropFail("cross-store: a model-less Check on one store is answered differently while another store's latest-model lookup is in flight",
			map[string]any{"desc": d, "together": fmt.Sprintf("%d %v", together.cls, together.allowed), "alone": fmt.Sprintf("%d %v", alone.cls, alone.allowed)})
	}
	if ansA.cls != 0 || ansA.allowed {
		w.PropFail("cross-store: the store whose lookup was held is not answered from its own model", map[string]any{"desc": d})
	}
	w.Case(d, rec.I(9), rec.I(bk(d)), rec.I(d.Combo), rec.Bool(doneBefore), rec.I(together.cls), rec.Bool(together.allowed), rec.I(alone.cls), rec.Bool(alone.allowed))
	if doneBefore {
		w.Stat("concurrent_other_store_not_blocked", 1)
	} else {
		w.Stat("concurrent_other_store_waited_for_release", 1)
	}
	w.Stat("scenario_concurrent_"+d.Backend+"_"+comboNames[d.Combo], 1)
}

func bk(d desc) int {
	if d.Backend == "sqlite" {
		return 1
	}
	return 0
}

func main() {
	o := rec.ParseFlags()
	w := rec.NewWriter(o.Out)
	defer w.Close()
	defer sh.CleanupRoot(root)
	if o.Replay != "" {
		data, err := os.ReadFile(o.Replay)
		if err != nil {
			panic(err)
		}
		for _, line := range strings.Split(string(data), "\n") {
			line = strings.TrimSpace(line)
			if line == "" || line == "null" {
				continue
			}
			var d desc
			if err := json.Unmarshal([]byte(line), &d); err != nil || d.Backend == "" {
				var wrap struct {
					Desc desc `json:"desc"`
				}
				if err2 := json.Unmarshal([]byte(line), &wrap); err2 != nil || wrap.Desc.Backend == "" {
					continue
				}
				d = wrap.Desc
			}
			if d.Kind == "concurrent" {
				concurrentIsolation(w, d)
			} else {
				scenario(w, d)
			}
		}
		return
	}
	r := rec.NewRand(o.Seed)
	for i, bkd := range []string{"memory", "sqlite", "sqlite", "memory"} {
		concurrentIsolation(w, desc{Seed: r.Uint64(), Backend: bkd, Combo: i % 2, Kind: "concurrent"})
	}
	for i := 0; i < o.N; i++ {
		d := desc{Seed: r.Uint64(), Backend: "memory", Combo: r.Intn(2)}
		if i%3 == 2 || (o.Tier == "thorough" && i%2 == 1) {
			d.Backend = "sqlite"
		}
		scenario(w, d)
	}
}
