//go:build verif

// Driver for C12 (writes are atomic and honour on_duplicate / on_missing).
//
// Scenarios (one record each; the oracle replays them on Store/Memory.v and Store/SqlTxn.v):
//   - histories of write requests over a 12-key universe with every option combination,
//     through commands.WriteCommand and directly through storage Write, on the memory backend
//     and on sqlite (temporary file under /tmp/c12), including invalid / malformed requests;
//   - fault scenarios on sqlite: the k-th statement of the write transaction fails, for every k,
//     then the same request succeeds; crash scenarios: the database files are copied at every
//     statement boundary (what kill -9 leaves behind) and reopened;
//   - bulk requests that need more than one SQL batch.
//
// After every operation all tuples and the whole changelog are read back (several ways).
package main

import (
	"bufio"
	"encoding/json"
	"fmt"
	"os"

	"github.com/openfga/openfga/internal/verifharness/lib/rec"
	sg "github.com/openfga/openfga/internal/verifharness/lib/storegen"
)

func statf(w *rec.Writer) func(string) { return func(k string) { w.Stat(k, 1) } }

func countOps(w *rec.Writer, rn *sg.Runner) {
	for i, op := range rn.Res.Ops {
		if op.Kind != sg.KindWrite {
			continue
		}
		w.Stat("ops", 1)
		if op.Mode == 0 {
			w.Stat("ops_command_layer", 1)
		} else {
			w.Stat("ops_datastore", 1)
		}
		w.Stat(fmt.Sprintf("opt_dup%d_miss%d", op.OnDup, op.OnMiss), 1)
		if rn.Res.Mem[i].Present {
			w.Stat(fmt.Sprintf("memory_err_class_%d", rn.Res.Mem[i].Err), 1)
		}
		if rn.Res.Sql[i].Present {
			w.Stat(fmt.Sprintf("sqlite_err_class_%d", rn.Res.Sql[i].Err), 1)
		}
		if op.Fault > 0 {
			w.Stat("fault_points", 1)
		}
		if op.Crash {
			w.Stat("crash_snapshots", len(rn.Res.Sql[i].Crash))
		}
	}
}

func history(w *rec.Writer, seed uint64, p sg.Profile, steps int) {
	rn, err := sg.NewRunner(seed)
	if err != nil {
		panic(err)
	}
	defer rn.Close()
	r := rec.NewRand(seed)
	for i := 0; i < steps; i++ {
		op := sg.GenWrite(r, p, rn.Present(), statf(w))
		op.Tick = i + 1
		rn.Do(op, i == steps-1 || r.Chance(1, 5))
	}
	countOps(w, rn)
	w.Stat("histories_"+p.Name, 1)
	rn.Emit(w, p.Name, seed)
}

// fault scenario: a prefix builds some state, then one request is attempted with the k-th
// statement failing for k = 1, 2, ... until it goes through; then a second request runs with
// crash snapshots at every statement boundary.
func faults(w *rec.Writer, seed uint64) {
	rn, err := sg.NewRunner(seed)
	if err != nil {
		panic(err)
	}
	defer rn.Close()
	r := rec.NewRand(seed)
	p := sg.Profile{Name: "fault", Mode: 1, MaxItems: 4, KeyLimit: 12}
	tick := 0
	for i := 0; i < r.Range(1, 4); i++ {
		op := sg.GenWrite(r, p, rn.Present(), statf(w))
		op.OnDup, op.OnMiss = sg.OptIgnore, sg.OptIgnore
		tick++
		op.Tick = tick
		rn.Do(op, false)
	}
	for round := 0; round < 2; round++ {
		target := sg.GenWrite(r, p, rn.Present(), statf(w))
		if round == 1 {
			target.Mode = r.Intn(2) // injected failures only below the command layer (it reads the model first)
		}
		if r.Chance(4, 5) {
			target.OnDup, target.OnMiss = sg.OptIgnore, sg.OptIgnore
		}
		if round == 0 {
			last := func() sg.Obs { return rn.Res.Sql[len(rn.Res.Sql)-1] }
			attempt := func(k, flav int, bad bool) sg.Obs {
				op := target
				op.Fault, op.BadConn, op.Flav = k, bad, flav
				tick++
				op.Tick = tick
				rn.Do(op, false)
				w.Stat(fmt.Sprintf("fault_flavour_%d", flav), 1)
				return last()
			}
			for k := 1; k <= 14; k++ {
				// database/sql retries a BEGIN that fails with ErrBadConn on a fresh connection, so that
				// flavour is only injected inside the transaction
				o := attempt(k, sg.FlavPlain, k > 1 && r.Chance(1, 3))
				if o.Err != sg.EInjected {
					break
				}
				if len(o.Trace) != k {
					continue
				}
				atCommit := o.Trace[k-1] == "commit"
				if atCommit {
					// COMMIT fails with SQLITE_BUSY: busyRetry tries again on a finished transaction
					attempt(k, sg.FlavBusy, false)
				}
				if prev := ""; k >= 2 {
					prev = o.Trace[k-2]
					// the request context ends after statement k-1 (a DELETE / INSERT: the SELECT runs on a
					// context that ignores cancellation): database/sql rolls back on its own
					if (prev == "delete" || prev == "insert" || prev == "changelog") && (atCommit || r.Chance(1, 2)) {
						attempt(k, sg.FlavCancel, false)
					}
				}
			}
		} else {
			target.Crash = true
			tick++
			target.Tick = tick
			rn.Do(target, true)
		}
	}
	// the Write command over a datastore whose transaction lost a race and was rolled back
	// (ErrWriteConflictOnDelete / OnInsert, nothing applied), for all nine option combinations
	pc := sg.Profile{Name: "conflict", Mode: 0, PBadItem: 15, PDupKey: 15, MaxItems: 4, KeyLimit: 12}
	for od := 0; od < 3; od++ {
		for om := 0; om < 3; om++ {
			op := sg.GenWrite(r, pc, rn.Present(), statf(w))
			op.Mode, op.OnDup, op.OnMiss = 0, od, om
			op.Fault, op.Flav = 1, sg.FlavConflictDelete
			if r.Chance(1, 3) {
				op.Flav = sg.FlavConflictInsert
			}
			tick++
			op.Tick = tick
			rn.Do(op, false)
			w.Stat(fmt.Sprintf("fault_flavour_%d", op.Flav), 1)
		}
	}
	countOps(w, rn)
	w.Stat("histories_fault", 1)
	rn.Emit(w, "fault", seed)
}

// races: k concurrent Write requests on overlapping tuples of one fresh store per round; many
// cheap rounds on the memory backend (with ballast tuples), fewer on sqlite.
func races(w *rec.Writer, seed uint64, memRounds, sqlRounds int) {
	r := rec.NewRand(seed)
	mem, err := sg.NewMemory()
	if err != nil {
		panic(err)
	}
	defer mem.Close()
	sq, err := sg.NewSqlite()
	if err != nil {
		panic(err)
	}
	defer sq.Close()
	one := func(b *sg.Backend, ballast int) {
		k := r.Range(2, 8)
		init, reqs := sg.GenRace(r, k, statf(w))
		o, err := sg.RunRace(b, ballast, init, reqs)
		if err != nil {
			w.PropFail("harness: race could not run: "+err.Error(), nil)
			return
		}
		sg.EmitRace(w, b, ballast, init, reqs, o, seed)
		w.Stat("races_"+b.Name, 1)
		if o.Reordered {
			// not an atomicity failure (the entries are all there and the race is judged on them as
			// a multiset), but a listed defect of the sqlite changelog order
			w.Stat("race_sqlite_entry_sorted_before_older_entries", 1)
			w.Known("sqlite_changelog_order_not_commit_order",
				"an entry written by a request that started after an earlier write had completed sorts (by ULID) before that write's entry",
				sg.RaceDesc{Kind: "race", Backend: b.Name, Ballast: ballast, Init: init, Reqs: reqs, Seed: seed})
		}
		w.Stat(fmt.Sprintf("race_width_%d", k), 1)
		for _, e := range o.Errs {
			w.Stat(fmt.Sprintf("race_%s_err_class_%d", b.Name, e), 1)
		}
	}
	for i := 0; i < memRounds; i++ {
		one(mem, 300)
	}
	for i := 0; i < sqlRounds; i++ {
		one(sq, 0)
	}
}

func bulk(w *rec.Writer, seed uint64) {
	rn, err := sg.NewRunner(seed)
	if err != nil {
		panic(err)
	}
	defer rn.Close()
	r := rec.NewRand(seed)
	for i := 0; i < 5; i++ {
		mode := 1
		if i >= 3 {
			mode = 0 // twice through the command layer: 99 / 100 / 101 items against the limit of 100
		}
		op := sg.GenBulk(r, rn.Present(), mode)
		op.Tick = i + 1
		if i == 2 {
			op.Crash = true
		}
		rn.Do(op, i == 4)
	}
	countOps(w, rn)
	w.Stat("histories_bulk", 1)
	rn.Emit(w, "bulk", seed)
}

func replay(w *rec.Writer, path string) {
	f, err := os.Open(path)
	if err != nil {
		panic(err)
	}
	defer f.Close()
	sc := bufio.NewScanner(f)
	sc.Buffer(make([]byte, 1<<20), 1<<28)
	for sc.Scan() {
		var rd sg.RaceDesc
		if err := json.Unmarshal(sc.Bytes(), &rd); err == nil && rd.Kind == "race" {
			// a race is not deterministic: run the same requests a number of times
			var b *sg.Backend
			var err error
			if rd.Backend == "sqlite" {
				b, err = sg.NewSqlite()
			} else {
				b, err = sg.NewMemory()
			}
			if err != nil {
				panic(err)
			}
			for i := 0; i < 200; i++ {
				if o, err := sg.RunRace(b, rd.Ballast, rd.Init, rd.Reqs); err == nil {
					sg.EmitRace(w, b, rd.Ballast, rd.Init, rd.Reqs, o, rd.Seed)
				}
			}
			b.Close()
			continue
		}
		var h sg.History
		if err := json.Unmarshal(sc.Bytes(), &h); err != nil || len(h.Ops) == 0 {
			continue
		}
		rn, err := sg.NewRunner(h.Seed)
		if err != nil {
			panic(err)
		}
		for i, op := range h.Ops {
			rn.Do(op, i == len(h.Ops)-1)
		}
		countOps(w, rn)
		rn.Emit(w, h.Profile, h.Seed)
		rn.Close()
	}
}

func main() {
	o := rec.ParseFlags()
	sg.ScratchBase = "/tmp/c12"
	defer sg.Cleanup()
	w := rec.NewWriter(o.Out)
	defer w.Close()
	if o.Replay != "" {
		replay(w, o.Replay)
		return
	}
	r := rec.NewRand(o.Seed)
	// concurrent histories first (cheap): about 3 memory rounds and 0.4 sqlite rounds per case
	races(w, r.Uint64(), 3*o.N, (2*o.N)/5)
	for i := 0; i < o.N; i++ {
		s := r.Uint64()
		switch {
		case i%5 == 3:
			faults(w, s)
		case i%20 == 7:
			bulk(w, s)
		default:
			p := sg.Profiles[r.Intn(len(sg.Profiles))]
			steps := r.Range(6, 16)
			if o.Tier == "thorough" && r.Chance(1, 10) {
				steps = r.Range(30, 60)
			}
			history(w, s, p, steps)
		}
	}
}
