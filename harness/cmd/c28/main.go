//go:build verif

// Driver for C28: continuation tokens round-trip and resist tampering.
//
// Runs the real pkg/encoder encoders and serializer, the real pkg/encrypter GCMEncrypter
// (real AES-GCM keys, nonce fed through crypto/rand.Reader so that every case is reproducible)
// and the real ReadChangesQuery / ReadQuery commands (with stub datastores that only record the
// position they are asked to resume from) and writes inputs and observed outputs as records
// for the Coq oracle (Codec/Base64.v, Codec/Token.v).
//
// Record kinds (first value):
//
//	1 data enc decOk dec                 Base64Encoder.Encode(data), Decode of that
//	2 s ok dec                           Base64Encoder.Decode(s) for an arbitrary string
//	3 u t serOk ser desOk du dt          StringContinuationTokenSerializer round trip
//	4 tok ok u t                         Deserialize of an arbitrary string
//	5 cfg ( (nonce plain sealed)* ) ( (nonce u t tokE tokRC tokR)* )
//	      ( (s ty decOk dec rcOut rcU rOut rU)* )   token scenario, see scenario()
//	6 cfg ( (nonce data sealed)? ) nonce data tok decOk dec   Encoder.Encode(data) for arbitrary data
//	                                     (what ListStores / ReadAuthorizationModels do), Decode of that
//
// Besides the records, the property's own predicate is evaluated directly on the implementation
// (w.PropFail): round trips, and "every presented string that the GCM encoder accepts carries,
// byte for byte, a ciphertext issued under the key, and resolves to that token's position".
package main

import (
	"bufio"
	"bytes"
	"context"
	"crypto/aes"
	"crypto/cipher"
	crand "crypto/rand"
	"crypto/sha256"
	"encoding/base64"
	"encoding/json"
	"fmt"
	"os"
	"strconv"
	"strings"
	"unicode/utf8"

	openfgav1 "github.com/openfga/api/proto/openfga/v1"

	"github.com/openfga/openfga/internal/verifharness/lib/rec"
	"github.com/openfga/openfga/pkg/encoder"
	"github.com/openfga/openfga/pkg/encrypter"
	"github.com/openfga/openfga/pkg/server/commands"
	serverErrors "github.com/openfga/openfga/pkg/server/errors"
	"github.com/openfga/openfga/pkg/storage"
	"github.com/openfga/openfga/pkg/storage/sqlcommon"
)

// ---------------------------------------------------------------------------------------------
// stub datastores: record Pagination.From, return a chosen continuation value

type stubChangelog struct {
	called bool
	from   string
	typ    string
	next   string
}

func (s *stubChangelog) ReadChanges(_ context.Context, _ string, f storage.ReadChangesFilter, o storage.ReadChangesOptions) ([]*openfgav1.TupleChange, string, error) {
	s.called, s.from, s.typ = true, o.Pagination.From, f.ObjectType
	return nil, s.next, nil
}

type stubDatastore struct {
	storage.OpenFGADatastore // nil: any other method would panic (none is called by ReadQuery)
	called                   bool
	from                     string
	next                     string
}

func (s *stubDatastore) ReadPage(_ context.Context, _ string, _ storage.ReadFilter, o storage.ReadPageOptions) ([]*openfgav1.Tuple, string, error) {
	s.called, s.from = true, o.Pagination.From
	return nil, s.next, nil
}

// outcome classes of a resume
const (
	outInvalid  = 0
	outMismatch = 1
	outStart    = 2
	outFrom     = 3
	outOther    = 9
)

var outNames = map[int]string{outInvalid: "invalid", outMismatch: "mismatch", outStart: "start", outFrom: "from", outOther: "other"}

func classify(err error, called bool, from string) (int, string) {
	switch {
	case err == nil && called && from == "":
		return outStart, ""
	case err == nil && called:
		return outFrom, from
	case err == serverErrors.ErrInvalidContinuationToken:
		return outInvalid, ""
	case err == serverErrors.ErrMismatchObjectType:
		return outMismatch, ""
	}
	return outOther, ""
}

var ctx = context.Background()

const storeID = "01HVMMBCMGZNT3SED4Z17ECXCA"

func resumeReadChanges(enc encoder.Encoder, ty, tok string) (int, string) {
	be := &stubChangelog{}
	q := commands.NewReadChangesQuery(be, commands.WithReadChangesQueryEncoder(enc),
		commands.WithContinuationTokenSerializer(encoder.NewStringContinuationTokenSerializer()))
	_, err := q.Execute(ctx, &openfgav1.ReadChangesRequest{StoreId: storeID, Type: ty, ContinuationToken: tok})
	if err == nil && be.typ != ty {
		return outOther, ""
	}
	return classify(err, be.called, be.from)
}

func resumeRead(enc encoder.Encoder, tok string) (int, string) {
	ds := &stubDatastore{}
	q := commands.NewReadQuery(ds, commands.WithReadQueryEncoder(enc),
		commands.WithReadQueryTokenSerializer(encoder.NewStringContinuationTokenSerializer()))
	_, err := q.Execute(ctx, &openfgav1.ReadRequest{StoreId: storeID, ContinuationToken: tok})
	return classify(err, ds.called, ds.from)
}

// feedNonce makes the next read from crypto/rand.Reader return exactly nonce.
func feedNonce(nonce []byte) { crand.Reader = bytes.NewReader(nonce) }

func issueReadChanges(enc encoder.Encoder, nonce []byte, u, ty string) (string, bool) {
	be := &stubChangelog{next: u}
	q := commands.NewReadChangesQuery(be, commands.WithReadChangesQueryEncoder(enc),
		commands.WithContinuationTokenSerializer(encoder.NewStringContinuationTokenSerializer()))
	feedNonce(nonce)
	resp, err := q.Execute(ctx, &openfgav1.ReadChangesRequest{StoreId: storeID, Type: ty})
	if err != nil {
		return "", false
	}
	return resp.GetContinuationToken(), true
}

func issueRead(enc encoder.Encoder, nonce []byte, u string) (string, bool) {
	ds := &stubDatastore{next: u}
	q := commands.NewReadQuery(ds, commands.WithReadQueryEncoder(enc),
		commands.WithReadQueryTokenSerializer(encoder.NewStringContinuationTokenSerializer()))
	feedNonce(nonce)
	resp, err := q.Execute(ctx, &openfgav1.ReadRequest{StoreId: storeID})
	if err != nil {
		return "", false
	}
	return resp.GetContinuationToken(), true
}

// ---------------------------------------------------------------------------------------------
// encoder configurations (the numbering is shared with ocaml/c28_oracle.ml)

const (
	cfgNoop       = 0 // NoopEncoder
	cfgB64        = 1 // Base64Encoder (what cmd/run configures)
	cfgNoopB64    = 2 // TokenEncoder(NoopEncrypter, Base64Encoder)
	cfgGcmB64     = 3 // TokenEncoder(GCMEncrypter, Base64Encoder)
	cfgGcmNoop    = 4 // TokenEncoder(GCMEncrypter, NoopEncoder)
	cfgGcmNoopB64 = 5 // TokenEncoder(GCMEncrypter, TokenEncoder(NoopEncrypter, Base64Encoder))
)

var cfgNames = []string{"noop", "b64", "noop+b64", "gcm+b64", "gcm+noop", "gcm+(noop+b64)"}

func isGcm(cfg int) bool { return cfg >= cfgGcmB64 }

func buildEncoder(cfg int, key string) encoder.Encoder {
	mk := func() *encrypter.GCMEncrypter {
		g, err := encrypter.NewGCMEncrypter(key)
		if err != nil {
			panic(err)
		}
		return g
	}
	switch cfg {
	case cfgNoop:
		return encoder.NoopEncoder{}
	case cfgB64:
		return encoder.NewBase64Encoder()
	case cfgNoopB64:
		return encoder.NewTokenEncoder(encrypter.NewNoopEncrypter(), encoder.NewBase64Encoder())
	case cfgGcmB64:
		return encoder.NewTokenEncoder(mk(), encoder.NewBase64Encoder())
	case cfgGcmNoop:
		return encoder.NewTokenEncoder(mk(), encoder.NoopEncoder{})
	default:
		return encoder.NewTokenEncoder(mk(), encoder.NewTokenEncoder(encrypter.NewNoopEncrypter(), encoder.NewBase64Encoder()))
	}
}

// innerDecode is the decoding below the encrypter (Go's own base64), used only by the direct
// property predicate.
func innerDecode(cfg int, s string) ([]byte, bool) {
	if cfg == cfgGcmNoop || cfg == cfgNoop {
		return []byte(s), true
	}
	b, err := base64.URLEncoding.DecodeString(s)
	return b, err == nil
}

func innerEncode(cfg int, b []byte) string {
	if cfg == cfgGcmNoop || cfg == cfgNoop {
		return string(b)
	}
	return base64.URLEncoding.EncodeToString(b)
}

// independent AES-GCM (the thing the Coq model keeps abstract): key = SHA-256(key string)
func refSeal(key string, nonce, plain []byte) []byte {
	k := sha256.Sum256([]byte(key))
	c, err := aes.NewCipher(k[:])
	if err != nil {
		panic(err)
	}
	g, err := cipher.NewGCM(c)
	if err != nil {
		panic(err)
	}
	return g.Seal(nil, nonce, plain, nil)
}

// ---------------------------------------------------------------------------------------------
// generators

const crockford = "0123456789ABCDEFGHJKMNPQRSTVWXYZ"

func genUlid(r *rec.Rand) string {
	switch r.Intn(20) {
	case 0, 1, 2, 3, 4, 5, 6, 7: // a ULID (memory ReadChanges)
		b := make([]byte, 26)
		b[0] = crockford[r.Intn(8)]
		for i := 1; i < 26; i++ {
			b[i] = crockford[r.Intn(32)]
		}
		return string(b)
	case 8, 9, 10, 11: // a decimal offset (memory ReadPage)
		return strconv.Itoa(r.Intn(100000))
	case 12: // '|' inside: outside the round-trip side condition
		return rec.Pick(r, []string{"a|b", "|", "|x", "x|", "01HV|7", "||"})
	case 13: // non-ASCII / invalid UTF-8 / control
		return rec.Pick(r, []string{"é", "\U0001F600id", "\xff\xfe", "a\x00b", "\n", "x\ny", "\r\n", "=", "ü|"})
	case 14: // long
		n := r.Range(100, 400)
		b := make([]byte, n)
		for i := range b {
			b[i] = byte(r.Range(33, 126))
		}
		return string(b)
	case 15:
		return ""
	case 16:
		return rec.Pick(r, []string{"a", "ab", "abc", "abcd", "abcde", "0"})
	default: // arbitrary bytes
		n := r.Range(1, 12)
		b := make([]byte, n)
		for i := range b {
			b[i] = byte(r.Intn(256))
		}
		return string(b)
	}
}

func genType(r *rec.Rand) string {
	switch r.Intn(12) {
	case 0, 1, 2:
		return ""
	case 3, 4, 5:
		return rec.Pick(r, []string{"document", "folder", "user", "group", "d"})
	case 6:
		return rec.Pick(r, []string{"doc|x", "|", "a||b", "|doc"})
	case 7:
		return rec.Pick(r, []string{"dé", "\U0001F600", "\xff", "a b", "t\n", "\x00"})
	case 8:
		n := r.Range(60, 300)
		b := make([]byte, n)
		for i := range b {
			b[i] = byte(r.Range(97, 122))
		}
		return string(b)
	default:
		n := r.Range(1, 8)
		b := make([]byte, n)
		for i := range b {
			b[i] = "abcdefgh_-|0"[r.Intn(12)]
		}
		return string(b)
	}
}

var keys = []string{"key-1", "another key", "", "k", "clé-\U0001F511", "0123456789abcdef0123456789abcdef0123456789"}

func genNonce(r *rec.Rand) []byte {
	b := make([]byte, 12)
	switch r.Intn(8) {
	case 0: // all zero
	case 1:
		for i := range b {
			b[i] = 0xff
		}
	default:
		for i := range b {
			b[i] = byte(r.Intn(256))
		}
	}
	return b
}

func randBytes(r *rec.Rand, n int) []byte {
	b := make([]byte, n)
	for i := range b {
		b[i] = byte(r.Intn(256))
	}
	return b
}

// ---------------------------------------------------------------------------------------------
// kinds 1..4

func caseEncode(w *rec.Writer, desc any, data []byte) {
	e := encoder.NewBase64Encoder()
	s, err := e.Encode(data)
	if err != nil {
		w.PropFail("Base64Encoder.Encode returned an error", desc)
		return
	}
	d, derr := e.Decode(s)
	if derr != nil || !bytes.Equal(d, data) {
		w.PropFail("Base64Encoder: Decode(Encode(data)) != data", map[string]any{"data": fmt.Sprintf("%x", data), "enc": s})
	}
	w.Case(desc, rec.I(1), rec.B(data), rec.S(s), rec.Bool(derr == nil), rec.B(d))
	w.Stat("b64_encode", 1)
	w.Stat(fmt.Sprintf("b64_encode_len_mod3=%d", len(data)%3), 1)
}

func caseDecode(w *rec.Writer, desc any, s string) {
	e := encoder.NewBase64Encoder()
	d, err := e.Decode(s)
	if err != nil {
		d = nil
	}
	w.Case(desc, rec.I(2), rec.S(s), rec.Bool(err == nil), rec.B(d))
	w.Stat("b64_decode", 1)
	if err == nil {
		w.Stat("b64_decode_ok", 1)
		if strings.ContainsAny(s, "\r\n") {
			w.Stat("b64_decode_ok_with_newline", 1)
		}
		if s2, _ := e.Encode(d); s2 != s {
			w.Stat("b64_decode_ok_noncanonical", 1)
		}
	}
}

func caseSerialize(w *rec.Writer, desc any, u, t string) {
	ser := encoder.NewStringContinuationTokenSerializer()
	b, err := ser.Serialize(u, t)
	var du, dt string
	desOK := false
	if err == nil {
		var derr error
		du, dt, derr = ser.Deserialize(string(b))
		desOK = derr == nil
		if !desOK {
			du, dt = "", ""
		}
	} else {
		b = nil
	}
	w.Case(desc, rec.I(3), rec.S(u), rec.S(t), rec.Bool(err == nil), rec.B(b), rec.Bool(desOK), rec.S(du), rec.S(dt))
	w.Stat("serialize", 1)
	sideCond := u != "" && !strings.Contains(u, "|")
	if sideCond {
		w.Stat("serialize_side_condition_holds", 1)
		if err != nil || !desOK || du != u || dt != t {
			w.PropFail("String serializer: Deserialize(Serialize(u,t)) != (u,t) although u is non-empty and has no '|'",
				map[string]any{"u": u, "t": t, "du": du, "dt": dt})
		}
	}
	// the SQL (JSON) serializer that cmd/run uses for the SQL datastores: not modelled, direct predicate only
	if u != "" && utf8.ValidString(u) && utf8.ValidString(t) {
		sq := sqlcommon.NewSQLContinuationTokenSerializer()
		jb, jerr := sq.Serialize(u, t)
		if jerr != nil {
			w.PropFail("SQL serializer: Serialize failed on a non-empty ulid", map[string]any{"u": u, "t": t})
		} else if ju, jt, jderr := sq.Deserialize(string(jb)); jderr != nil || ju != u || jt != t {
			w.PropFail("SQL serializer: Deserialize(Serialize(u,t)) != (u,t)", map[string]any{"u": u, "t": t, "du": ju, "dt": jt})
		}
		w.Stat("sql_serializer_roundtrip", 1)
	}
}

func caseDeserialize(w *rec.Writer, desc any, tok string) {
	ser := encoder.NewStringContinuationTokenSerializer()
	u, t, err := ser.Deserialize(tok)
	if err != nil {
		u, t = "", ""
	}
	w.Case(desc, rec.I(4), rec.S(tok), rec.Bool(err == nil), rec.S(u), rec.S(t))
	w.Stat("deserialize", 1)
	if err == nil {
		w.Stat("deserialize_ok", 1)
		if b, serr := ser.Serialize(u, t); serr != nil || string(b) != tok {
			w.PropFail("String serializer: Serialize(Deserialize(tok)) != tok", map[string]any{"tok": tok})
		}
	}
}

var b64Symbols = []string{"A", "Q", "_", "-", "=", "\n", "\r", "+", "/", " ", "z", "9", "\x00", "\xff"}

func randB64ish(r *rec.Rand) string {
	// a valid encoding, then a few edits
	data := randBytes(r, r.Intn(14))
	s := []byte(base64.URLEncoding.EncodeToString(data))
	edits := r.Intn(4)
	for i := 0; i < edits; i++ {
		sym := rec.Pick(r, b64Symbols)
		switch r.Intn(5) {
		case 0: // insert
			p := r.Intn(len(s) + 1)
			s = append(s[:p], append([]byte(sym), s[p:]...)...)
		case 1: // replace
			if len(s) > 0 {
				s[r.Intn(len(s))] = sym[0]
			}
		case 2: // delete
			if len(s) > 0 {
				p := r.Intn(len(s))
				s = append(s[:p], s[p+1:]...)
			}
		case 3: // change the last character before the padding (unused bits)
			p := len(s) - 1
			for p >= 0 && (s[p] == '=' || s[p] == '\n' || s[p] == '\r') {
				p--
			}
			if p >= 0 {
				s[p] = "ABCDEFGHIJKLMNOPQRSTUVWXYZabcdefghijklmnopqrstuvwxyz0123456789-_"[r.Intn(64)]
			}
		default: // append
			s = append(s, sym...)
		}
	}
	return string(s)
}

func randTokenish(r *rec.Rand) string {
	switch r.Intn(6) {
	case 0:
		return genUlid(r) + "|" + genType(r)
	case 1:
		return genUlid(r)
	case 2:
		return "|" + genType(r)
	case 3:
		return genUlid(r) + "||" + genType(r)
	case 4:
		return ""
	default:
		n := r.Intn(8)
		b := make([]byte, n)
		for i := range b {
			b[i] = "ab|\x00\xff\n"[r.Intn(6)]
		}
		return string(b)
	}
}

// ---------------------------------------------------------------------------------------------
// kind 5: token scenario

type issuedTok struct {
	nonce  []byte
	u, t   string
	tokE   string // enc.Encode(Serialize(u,t))                      ("" when Serialize fails)
	tokRC  string // ReadChanges response token for continuation u   (type t)
	tokR   string // Read response token for continuation u          (type "")
	ctE    []byte // nonce||sealed of u|t   (what tokE / tokRC carry under GCM)
	ctR    []byte // nonce||sealed of u|    (what tokR carries under GCM)
	issued bool
}

type presented struct {
	class string
	s, ty string
}

func flipBit(b []byte, r *rec.Rand) []byte {
	c := append([]byte(nil), b...)
	if len(c) > 0 {
		c[r.Intn(len(c))] ^= 1 << uint(r.Intn(8))
	}
	return c
}

func mutations(r *rec.Rand, cfg int, a, b *issuedTok, otherKeyTok string) []presented {
	s := a.tokRC
	ty := a.t
	sb := []byte(s)
	var out []presented
	add := func(class, s, ty string) { out = append(out, presented{class, s, ty}) }
	add("orig", s, ty)
	add("orig_direct", a.tokE, ty)
	add("orig_read_token", a.tokR, ty)
	add("orig_other_type", s, ty+"x")
	add("second", b.tokRC, b.t)
	add("second_with_first_type", b.tokRC, ty)
	add("other_key", otherKeyTok, ty)
	add("empty", "", ty)
	add("newlines_only", rec.Pick(r, []string{"\n", "\r\n", "\r", "\n\n\r"}), ty)
	// byte-level mutations of the token string
	add("flip_char_bit", string(flipBit(sb, r)), ty)
	if len(sb) > 0 {
		add("truncate", s[:r.Intn(len(sb))], ty)
		add("truncate_quantum", s[:min(len(sb), 4*r.Intn(len(sb)/4+1))], ty)
		p := r.Intn(len(sb))
		add("delete_char", s[:p]+s[p+1:], ty)
		add("insert_newline", s[:p]+rec.Pick(r, []string{"\n", "\r", "\r\n"})+s[p:], ty)
		add("insert_char", s[:p]+rec.Pick(r, []string{"A", "=", "_", " ", "\x00"})+s[p:], ty)
		q := r.Intn(len(sb))
		sw := append([]byte(nil), sb...)
		sw[p], sw[q] = sw[q], sw[p]
		add("swap_chars", string(sw), ty)
		// unused bits of the last quantum / last char
		lp := len(sb) - 1
		for lp >= 0 && sb[lp] == '=' {
			lp--
		}
		if lp >= 0 {
			lc := append([]byte(nil), sb...)
			lc[lp] = "ABCDEFGHIJKLMNOPQRSTUVWXYZabcdefghijklmnopqrstuvwxyz0123456789-_"[r.Intn(64)]
			add("change_last_char", string(lc), ty)
		}
	}
	add("extend", s+rec.Pick(r, []string{"A", "AAAA", "=", "\n", "QQ==", " ", s}), ty)
	// splice two issued tokens
	s2 := b.tokRC
	if len(s) > 0 && len(s2) > 0 {
		k := r.Intn(len(s))
		k2 := k
		if k2 > len(s2) {
			k2 = len(s2)
		}
		add("splice", s[:k]+s2[k2:], ty)
		add("splice_rev", s2[:k2]+s[k:], ty)
	}
	// mutations below the transport encoding: decode with Go's base64, edit the raw bytes, re-encode
	if raw, ok := innerDecode(cfg, s); ok && len(raw) > 0 {
		add("raw_flip_bit", innerEncode(cfg, flipBit(raw, r)), ty)
		if len(raw) >= 28 {
			n := append([]byte(nil), raw...)
			n[r.Intn(12)] ^= 1 << uint(r.Intn(8))
			add("raw_flip_nonce", innerEncode(cfg, n), ty)
			tg := append([]byte(nil), raw...)
			tg[len(tg)-1-r.Intn(16)] ^= 1 << uint(r.Intn(8))
			add("raw_flip_tag", innerEncode(cfg, tg), ty)
			if len(raw) > 28 {
				ct := append([]byte(nil), raw...)
				ct[12+r.Intn(len(raw)-28)] ^= 1 << uint(r.Intn(8))
				add("raw_flip_ciphertext", innerEncode(cfg, ct), ty)
			}
		}
		add("raw_truncate", innerEncode(cfg, raw[:r.Intn(len(raw))]), ty)
		add("raw_short", innerEncode(cfg, raw[:min(len(raw), r.Intn(12)+1)]), ty)
		add("raw_nonce_only", innerEncode(cfg, raw[:min(len(raw), 12)]), ty)
		add("raw_extend", innerEncode(cfg, append(append([]byte(nil), raw...), randBytes(r, r.Range(1, 5))...)), ty)
		if raw2, ok2 := innerDecode(cfg, s2); ok2 && len(raw2) >= 12 && len(raw) >= 12 {
			// nonce of one token, body of the other
			add("raw_splice_nonce", innerEncode(cfg, append(append([]byte(nil), raw[:12]...), raw2[12:]...)), ty)
		}
	}
	// forgeries that never saw the key
	plain := a.u + "|" + a.t
	add("forge_plaintext", innerEncode(cfg, []byte(plain)), ty)
	add("forge_random", innerEncode(cfg, randBytes(r, r.Range(1, 60))), ty)
	add("forge_plain_string", plain, ty)
	return out
}

func scenario(w *rec.Writer, sub uint64) {
	r := rec.NewRand(sub)
	cfg := rec.Pick(r, []int{cfgNoop, cfgB64, cfgB64, cfgNoopB64, cfgGcmB64, cfgGcmB64, cfgGcmB64, cfgGcmB64, cfgGcmB64, cfgGcmNoop, cfgGcmNoopB64})
	key := rec.Pick(r, keys)
	key2 := key + "'"
	enc := buildEncoder(cfg, key)
	enc2 := buildEncoder(cfg, key2)
	desc := map[string]any{"kind": "scenario", "sub": strconv.FormatUint(sub, 10), "cfg": cfgNames[cfg], "key": key}
	w.Stat("scenario", 1)
	w.Stat("scenario_cfg="+cfgNames[cfg], 1)

	var toks [2]*issuedTok
	var table []rec.V
	ser := encoder.NewStringContinuationTokenSerializer()
	for i := range toks {
		it := &issuedTok{nonce: genNonce(r), u: genUlid(r), t: genType(r)}
		if i == 1 && r.Chance(1, 3) {
			it.u = toks[0].u // same position, other nonce/type
		}
		if i == 1 && r.Chance(1, 4) {
			it.nonce = toks[0].nonce // nonce reuse
		}
		toks[i] = it
		if b, err := ser.Serialize(it.u, it.t); err == nil {
			feedNonce(it.nonce)
			s, eerr := enc.Encode(b)
			if eerr != nil {
				w.PropFail("Encoder.Encode failed", desc)
			}
			it.tokE = s
		}
		var ok1, ok2 bool
		it.tokRC, ok1 = issueReadChanges(enc, it.nonce, it.u, it.t)
		it.tokR, ok2 = issueRead(enc, it.nonce, it.u)
		if !ok1 || !ok2 {
			w.PropFail("issuing a continuation token failed", map[string]any{"desc": desc, "u": it.u, "t": it.t})
		}
		if it.u != "" {
			it.issued = true
			p1, p2 := []byte(it.u+"|"+it.t), []byte(it.u+"|")
			s1, s2 := refSeal(key, it.nonce, p1), refSeal(key, it.nonce, p2)
			it.ctE = append(append([]byte(nil), it.nonce...), s1...)
			it.ctR = append(append([]byte(nil), it.nonce...), s2...)
			table = append(table, rec.L(rec.B(it.nonce), rec.B(p1), rec.B(s1)), rec.L(rec.B(it.nonce), rec.B(p2), rec.B(s2)))
			w.Stat("issued_tokens", 1)
		} else {
			w.Stat("issued_empty_ulid", 1)
		}
	}
	a, b := toks[0], toks[1]
	// the same position under another key (same nonce)
	feedNonce(a.nonce)
	otherKeyTok := ""
	if pb, err := ser.Serialize(a.u, a.t); err == nil {
		otherKeyTok, _ = enc2.Encode(pb)
	}

	// direct round-trip predicate on the implementation
	sideCond := func(u string) bool { return u != "" && !strings.Contains(u, "|") }
	for _, it := range toks {
		if !sideCond(it.u) {
			continue
		}
		w.Stat("roundtrip_checked", 1)
		if o, u := resumeReadChanges(enc, it.t, it.tokRC); o != outFrom || u != it.u {
			w.PropFail("ReadChanges: issued token does not resume at its position", map[string]any{"desc": desc, "u": it.u, "t": it.t, "outcome": o, "got": u})
		}
		if o, u := resumeRead(enc, it.tokR); o != outFrom || u != it.u {
			w.PropFail("Read: issued token does not resume at its position", map[string]any{"desc": desc, "u": it.u, "outcome": o, "got": u})
		}
		if d, err := enc.Decode(it.tokE); err != nil || string(d) != it.u+"|"+it.t {
			w.PropFail("Encoder: Decode(Encode(token)) != token", map[string]any{"desc": desc, "u": it.u, "t": it.t})
		}
	}

	pres := mutations(r, cfg, a, b, otherKeyTok)
	var presV []rec.V
	for _, p := range pres {
		d, derr := enc.Decode(p.s)
		if derr != nil {
			d = nil
		}
		rcO, rcU := resumeReadChanges(enc, p.ty, p.s)
		rO, rU := resumeRead(enc, p.s)
		presV = append(presV, rec.L(rec.S(p.s), rec.S(p.ty), rec.Bool(derr == nil), rec.B(d),
			rec.I(rcO), rec.S(rcU), rec.I(rO), rec.S(rU)))
		w.Stat("presented", 1)
		grp := "plain"
		if isGcm(cfg) {
			grp = "gcm"
		}
		w.Stat(fmt.Sprintf("%s[%s]->%s", grp, p.class, outNames[rcO]), 1)
		if !isGcm(cfg) {
			continue
		}
		// THE property predicate, on the implementation alone: whatever is accepted carries an issued
		// ciphertext byte for byte and resolves to that token's position.
		accepted := derr == nil && len(d) > 0
		raw, rawOK := innerDecode(cfg, p.s)
		if derr == nil && len(d) == 0 {
			w.Stat("gcm_empty_shortcut", 1)
			if !rawOK || len(raw) != 0 || rcO != outStart || rO != outStart {
				w.PropFail("GCM encoder decoded a non-empty input to the empty token", map[string]any{"desc": desc, "s": p.s, "class": p.class})
			}
		}
		if accepted {
			w.Stat("gcm_accepted", 1)
			var owner *issuedTok
			viaRead := false
			for _, it := range toks {
				if it.issued && rawOK && bytes.Equal(raw, it.ctE) {
					owner = it
				} else if it.issued && rawOK && bytes.Equal(raw, it.ctR) {
					owner, viaRead = it, true
				}
			}
			if owner == nil {
				w.PropFail("GCM encoder accepted a string that carries no ciphertext issued under the key",
					map[string]any{"desc": desc, "s": p.s, "class": p.class, "decoded": string(d)})
				continue
			}
			if p.s != owner.tokE && p.s != owner.tokRC && p.s != owner.tokR {
				w.Stat("gcm_accepted_malleable_string_same_ciphertext", 1)
			}
			wantT := owner.t
			if viaRead {
				wantT = ""
			}
			if string(d) != owner.u+"|"+wantT {
				w.PropFail("GCM encoder decoded an issued ciphertext to another plaintext", map[string]any{"desc": desc, "s": p.s, "class": p.class})
			}
			if sideCond(owner.u) {
				if rO != outFrom || rU != owner.u {
					w.PropFail("Read resolved an issued ciphertext to another position", map[string]any{"desc": desc, "s": p.s, "class": p.class, "got": rU, "want": owner.u})
				}
				if wantT == p.ty && (rcO != outFrom || rcU != owner.u) {
					w.PropFail("ReadChanges resolved an issued ciphertext to another position", map[string]any{"desc": desc, "s": p.s, "class": p.class, "got": rcU, "want": owner.u})
				}
				if wantT != p.ty && rcO != outMismatch {
					w.PropFail("ReadChanges accepted a token issued for another type", map[string]any{"desc": desc, "s": p.s, "class": p.class, "tokenType": wantT, "requestType": p.ty})
				}
			}
		} else if rcO == outFrom || rcO == outMismatch || rO == outFrom {
			w.PropFail("a command resolved a token that the encoder rejects", map[string]any{"desc": desc, "s": p.s, "class": p.class})
		}
	}

	var issV []rec.V
	for _, it := range toks {
		issV = append(issV, rec.L(rec.B(it.nonce), rec.S(it.u), rec.S(it.t), rec.S(it.tokE), rec.S(it.tokRC), rec.S(it.tokR)))
	}
	w.Case(desc, rec.I(5), rec.I(cfg), rec.L(table...), rec.L(issV...), rec.L(presV...))
}

// kind 6: Encoder.Encode / Decode on arbitrary data (no serializer), every configuration
func caseEncoder(w *rec.Writer, sub uint64) {
	r := rec.NewRand(sub)
	cfg := r.Intn(6)
	key := rec.Pick(r, keys)
	enc := buildEncoder(cfg, key)
	nonce := genNonce(r)
	var data []byte
	switch r.Intn(6) {
	case 0: // empty: the len(data)==0 short cut of Encrypt
	case 1:
		data = randBytes(r, r.Range(1, 3))
	case 2:
		data = []byte(genUlid(r))
	case 3:
		data = randBytes(r, r.Range(4, 80))
	case 4:
		data = []byte(rec.Pick(r, []string{"\n", "=", "\r\n", "|", "\x00"}))
	default:
		data = []byte(genUlid(r) + "|" + genType(r))
	}
	desc := map[string]any{"kind": "encoder", "sub": strconv.FormatUint(sub, 10), "cfg": cfgNames[cfg], "key": key, "len": len(data)}
	feedNonce(nonce)
	tok, err := enc.Encode(data)
	if err != nil {
		w.PropFail("Encoder.Encode failed", desc)
		return
	}
	d, derr := enc.Decode(tok)
	if derr != nil || !bytes.Equal(d, data) {
		w.PropFail("Encoder: Decode(Encode(data)) != data", desc)
	}
	if derr != nil {
		d = nil
	}
	var table []rec.V
	if len(data) > 0 {
		table = append(table, rec.L(rec.B(nonce), rec.B(data), rec.B(refSeal(key, nonce, data))))
	}
	w.Case(desc, rec.I(6), rec.I(cfg), rec.L(table...), rec.B(nonce), rec.B(data), rec.S(tok), rec.Bool(derr == nil), rec.B(d))
	w.Stat("encoder_case", 1)
	w.Stat("encoder_case_cfg="+cfgNames[cfg], 1)
	if len(data) == 0 {
		w.Stat("encoder_case_empty_data", 1)
	}
}

// ---------------------------------------------------------------------------------------------

func replay(w *rec.Writer, path string) {
	f, err := os.Open(path)
	if err != nil {
		panic(err)
	}
	defer f.Close()
	sc := bufio.NewScanner(f)
	sc.Buffer(make([]byte, 1<<20), 1<<26)
	for sc.Scan() {
		var d map[string]any
		if json.Unmarshal(sc.Bytes(), &d) != nil {
			continue
		}
		if c, ok := d["desc"].(map[string]any); ok { // PropFail descriptions wrap the case description
			d = c
		}
		str := func(k string) string {
			if h, ok := d[k+"_hex"].(string); ok {
				var b []byte
				fmt.Sscanf(h, "%x", &b)
				return string(b)
			}
			s, _ := d[k].(string)
			return s
		}
		switch d["kind"] {
		case "encode":
			caseEncode(w, d, []byte(str("data")))
		case "decode":
			caseDecode(w, d, str("s"))
		case "serialize":
			caseSerialize(w, d, str("u"), str("t"))
		case "deserialize":
			caseDeserialize(w, d, str("tok"))
		case "scenario":
			sub, _ := strconv.ParseUint(fmt.Sprint(d["sub"]), 10, 64)
			scenario(w, sub)
		case "encoder":
			sub, _ := strconv.ParseUint(fmt.Sprint(d["sub"]), 10, 64)
			caseEncoder(w, sub)
		}
	}
}

func hx(s string) string { return fmt.Sprintf("%x", s) }

func main() {
	o := rec.ParseFlags()
	w := rec.NewWriter(o.Out)
	defer w.Close()
	if o.Replay != "" {
		replay(w, o.Replay)
		return
	}
	r := rec.NewRand(o.Seed)
	// the thorough tier runs 4 consecutive seeds: the (seed-independent) large exhaustive parts are
	// done by exactly one of them
	thorough := o.Tier == "thorough" && o.Seed%4 == 1

	// ---- exhaustive parts ----
	// all 0-, 1-byte inputs; all 2-byte inputs in the thorough tier (a stride of them otherwise)
	caseEncode(w, map[string]any{"kind": "encode", "data_hex": ""}, nil)
	for a := 0; a < 256; a++ {
		d := []byte{byte(a)}
		caseEncode(w, map[string]any{"kind": "encode", "data_hex": hx(string(d))}, d)
	}
	stride := 37
	if thorough {
		stride = 1
	}
	for i := int(o.Seed % uint64(stride)); i < 65536; i += stride {
		d := []byte{byte(i >> 8), byte(i)}
		caseEncode(w, map[string]any{"kind": "encode", "data_hex": hx(string(d))}, d)
	}
	// all strings over 14 symbols up to length 4 (5 in the thorough tier) through Decode
	maxL := 4
	if thorough {
		maxL = 5
	}
	var gen func(prefix string, depth int)
	gen = func(prefix string, depth int) {
		caseDecode(w, map[string]any{"kind": "decode", "s_hex": hx(prefix), "nt": depth > 0}, prefix)
		if depth == maxL {
			return
		}
		for _, s := range b64Symbols {
			gen(prefix+s, depth+1)
		}
	}
	gen("", 0)
	// serializer over small vocabularies
	for _, u := range []string{"", "a", "|", "a|b", "01HVMMBCMGZNT3SED4Z17ECXCA", "42", "é", "\xff"} {
		for _, t := range []string{"", "doc", "|", "a|b", "é"} {
			caseSerialize(w, map[string]any{"kind": "serialize", "u_hex": hx(u), "t_hex": hx(t)}, u, t)
			caseDeserialize(w, map[string]any{"kind": "deserialize", "tok_hex": hx(u + t)}, u+t)
		}
	}

	// ---- generated part ----
	for i := 0; i < o.N; i++ {
		switch r.Intn(10) {
		case 0, 1:
			n := r.Intn(48)
			if r.Chance(1, 10) {
				n = r.Range(48, 600)
			}
			d := randBytes(r, n)
			caseEncode(w, map[string]any{"kind": "encode", "data_hex": hx(string(d))}, d)
		case 2, 3:
			s := randB64ish(r)
			caseDecode(w, map[string]any{"kind": "decode", "s_hex": hx(s)}, s)
		case 4:
			u, t := genUlid(r), genType(r)
			caseSerialize(w, map[string]any{"kind": "serialize", "u_hex": hx(u), "t_hex": hx(t)}, u, t)
		case 5:
			tok := randTokenish(r)
			caseDeserialize(w, map[string]any{"kind": "deserialize", "tok_hex": hx(tok)}, tok)
		case 6:
			caseEncoder(w, r.Uint64())
		default:
			scenario(w, r.Uint64())
		}
	}
}
