//go:build verif

// Driver for C26: an in-process server with access control enabled (experimental
// `enable-access-control`, WithAccessControlParams) over a real datastore that holds a real
// access-control store (the model of pkg/server/server_authz_test.go) and several target
// stores with a modular model.  For every generated scenario and every caller identity
// (client ids with store-, module- and system-level grants, wildcard grants, no claims, empty
// client id, ids that are not valid user ids) it
//   - asks the control store directly (Check / ListObjects with the skip-authz context and
//     contextual tuples built here, not by authz.go) what it grants: the grant table;
//   - calls EVERY store-scoped RPC handler on every store with a valid minimal request, several
//     Write requests spanning module sets, ListStores (all pages, with and without name filter),
//     CreateStore, DeleteStore, and records allowed / forbidden (+ whether the target store's
//     data was touched before a denial, through a counting datastore wrapper).
// One record per (scenario, identity); the oracle evaluates Sec/Authz.v on the grant table.
package main

import (
	"context"
	"encoding/base64"
	"encoding/json"
	"errors"
	"fmt"
	"os"
	"reflect"
	"sort"
	"strconv"
	"strings"
	"sync"
	"unsafe"

	"google.golang.org/grpc"
	"google.golang.org/grpc/codes"
	"google.golang.org/grpc/metadata"
	"google.golang.org/grpc/status"
	"google.golang.org/protobuf/types/known/wrapperspb"

	authzenv1 "github.com/openfga/api/proto/authzen/v1"
	openfgav1 "github.com/openfga/api/proto/openfga/v1"

	"github.com/openfga/openfga/internal/authz"
	"github.com/openfga/openfga/internal/verifharness/lib/rec"
	"github.com/openfga/openfga/internal/verifharness/lib/storehist"
	"github.com/openfga/openfga/pkg/authclaims"
	"github.com/openfga/openfga/pkg/logger"
	"github.com/openfga/openfga/pkg/server"
	"github.com/openfga/openfga/pkg/storage"
	"github.com/openfga/openfga/pkg/tuple"
	"github.com/openfga/openfga/pkg/typesystem"
)

// the access-control model of pkg/server/server_authz_test.go
const rootStoreModel = `
model
  schema 1.1

type system
  relations
    define can_call_create_stores: [application, application:*] or admin
    define can_call_list_stores: [application, application:*] or admin
    define admin: [application]

type application

type module
  relations
    define can_call_write: [application] or writer or writer from store
    define store: [store]
    define writer: [application]

type store
  relations
    define system: [system]
    define creator: [application]
    define can_call_delete_store: [application] or admin
    define can_call_get_store: [application] or admin
    define can_call_check: [application] or reader
    define can_call_expand: [application] or reader
    define can_call_list_objects: [application] or reader
    define can_call_list_users: [application] or reader
    define can_call_read: [application] or reader
    define can_call_read_assertions: [application] or reader or model_writer
    define can_call_read_authorization_models: [application] or reader or model_writer
    define can_call_read_changes: [application] or reader
    define can_call_write: [application] or writer
    define can_call_write_assertions: [application] or model_writer
    define can_call_write_authorization_models: [application] or model_writer
    define model_writer: [application] or admin
    define reader: [application] or admin
    define writer: [application] or admin
    define admin: [application] or creator or admin from system
`

// relations of the control model (must be the CanCall* constants of authz.go; the oracle looks
// them up in the regenerated table and fails on an unknown name)
var storeRelations = []string{
	"can_call_read_authorization_models", "can_call_read", "can_call_write", "can_call_list_objects",
	"can_call_check", "can_call_list_users", "can_call_write_assertions", "can_call_read_assertions",
	"can_call_write_authorization_models", "can_call_get_store", "can_call_delete_store",
	"can_call_expand", "can_call_read_changes",
}
var systemRelations = []string{"can_call_list_stores", "can_call_create_stores"}
var storeRoles = []string{"reader", "writer", "model_writer", "admin", "creator"}

const forbiddenCode = codes.Code(openfgav1.AuthErrorCode_forbidden)

// ---------------------------------------------------------------------------------------------
// target store model: types with and without `module` metadata

type typeInfo struct {
	module string
	rels   map[string]string // relation -> relation-level module ("" = none)
}

var targetTypes = map[string]typeInfo{
	"core": {"", map[string]string{"member": ""}},
	"ma1":  {"ma", map[string]string{"member": ""}},
	"ma2":  {"ma", map[string]string{"member": ""}},
	"mb1":  {"mb", map[string]string{"member": ""}},
	"mc1":  {"mc", map[string]string{"member": ""}},
	"mix":  {"ma", map[string]string{"viewer": "mb", "editor": ""}},
	"ext":  {"", map[string]string{"extra": "mc", "plain": ""}},
}
var targetTypeOrder = []string{"core", "ma1", "ma2", "mb1", "mc1", "mix", "ext"}
var moduleNames = []string{"ma", "mb", "mc", "zz"}

func targetModel() []*openfgav1.TypeDefinition {
	tds := []*openfgav1.TypeDefinition{{Type: "user"}}
	for _, tn := range targetTypeOrder {
		ti := targetTypes[tn]
		td := &openfgav1.TypeDefinition{
			Type:      tn,
			Relations: map[string]*openfgav1.Userset{},
			Metadata:  &openfgav1.Metadata{Module: ti.module, Relations: map[string]*openfgav1.RelationMetadata{}},
		}
		rels := make([]string, 0, len(ti.rels))
		for r := range ti.rels {
			rels = append(rels, r)
		}
		sort.Strings(rels)
		for _, r := range rels {
			td.Relations[r] = &openfgav1.Userset{Userset: &openfgav1.Userset_This{}}
			td.Metadata.Relations[r] = &openfgav1.RelationMetadata{
				DirectlyRelatedUserTypes: []*openfgav1.RelationReference{{Type: "user"}},
				Module:                   ti.rels[r],
			}
		}
		tds = append(tds, td)
	}
	return tds
}

// what extractModulesFromTuples will find for (type, relation), from the description above
// kind: 0 type not found, 1 relation not found, 2 module (possibly empty)
func lookup(typ, rel string) (int, string) {
	ti, ok := targetTypes[typ]
	if !ok {
		if typ == "user" {
			return 1, ""
		}
		return 0, ""
	}
	rm, ok := ti.rels[rel]
	if !ok {
		return 1, ""
	}
	if rm != "" {
		return 2, rm
	}
	return 2, ti.module
}

type tupleSpec struct {
	Type, Rel string
	Delete    bool
}

var writeCandidates = [][2]string{
	{"core", "member"}, {"ma1", "member"}, {"ma2", "member"}, {"mb1", "member"}, {"mc1", "member"},
	{"mix", "viewer"}, {"mix", "editor"}, {"ext", "extra"}, {"ext", "plain"},
	{"ghost", "member"}, {"ma1", "nope"},
}

// ---------------------------------------------------------------------------------------------
// counting datastore wrapper + header-capturing transport

type tracker struct {
	mu      sync.Mutex
	touched map[string]bool
	listIDs []string // "nil" | "empty" | "n=<k>" for each ListStores call
	headers []string
}

func (t *tracker) reset() {
	t.mu.Lock()
	t.touched = map[string]bool{}
	t.listIDs = nil
	t.headers = nil
	t.mu.Unlock()
}
func (t *tracker) touch(s string) {
	t.mu.Lock()
	t.touched[s] = true
	t.mu.Unlock()
}
func (t *tracker) was(s string) bool {
	t.mu.Lock()
	defer t.mu.Unlock()
	return t.touched[s]
}

// response headers: the values are recorded (resolveTypesystem sends the resolved model id)
func (t *tracker) SetHeader(_ context.Context, _, value string) {
	t.mu.Lock()
	t.headers = append(t.headers, value)
	t.mu.Unlock()
}

// how many response headers carry a model id of store s
func (t *tracker) modelHeaders(s *tstore) int {
	t.mu.Lock()
	defer t.mu.Unlock()
	n := 0
	for _, v := range t.headers {
		for _, m := range s.modelIDs {
			if v == m {
				n++
			}
		}
	}
	return n
}

type countDS struct {
	storage.OpenFGADatastore
	t *tracker
}

func (d *countDS) Read(ctx context.Context, store string, f storage.ReadFilter, o storage.ReadOptions) (storage.TupleIterator, error) {
	d.t.touch(store)
	return d.OpenFGADatastore.Read(ctx, store, f, o)
}
func (d *countDS) ReadPage(ctx context.Context, store string, f storage.ReadFilter, o storage.ReadPageOptions) ([]*openfgav1.Tuple, string, error) {
	d.t.touch(store)
	return d.OpenFGADatastore.ReadPage(ctx, store, f, o)
}
func (d *countDS) ReadUserTuple(ctx context.Context, store string, f storage.ReadUserTupleFilter, o storage.ReadUserTupleOptions) (*openfgav1.Tuple, error) {
	d.t.touch(store)
	return d.OpenFGADatastore.ReadUserTuple(ctx, store, f, o)
}
func (d *countDS) ReadUsersetTuples(ctx context.Context, store string, f storage.ReadUsersetTuplesFilter, o storage.ReadUsersetTuplesOptions) (storage.TupleIterator, error) {
	d.t.touch(store)
	return d.OpenFGADatastore.ReadUsersetTuples(ctx, store, f, o)
}
func (d *countDS) ReadStartingWithUser(ctx context.Context, store string, f storage.ReadStartingWithUserFilter, o storage.ReadStartingWithUserOptions) (storage.TupleIterator, error) {
	d.t.touch(store)
	return d.OpenFGADatastore.ReadStartingWithUser(ctx, store, f, o)
}
func (d *countDS) Write(ctx context.Context, store string, dl storage.Deletes, w storage.Writes, opts ...storage.TupleWriteOption) error {
	d.t.touch(store)
	return d.OpenFGADatastore.Write(ctx, store, dl, w, opts...)
}
func (d *countDS) ReadAuthorizationModel(ctx context.Context, store, id string) (*openfgav1.AuthorizationModel, error) {
	d.t.touch(store)
	return d.OpenFGADatastore.ReadAuthorizationModel(ctx, store, id)
}
func (d *countDS) ReadAuthorizationModels(ctx context.Context, store string, o storage.ReadAuthorizationModelsOptions) ([]*openfgav1.AuthorizationModel, string, error) {
	d.t.touch(store)
	return d.OpenFGADatastore.ReadAuthorizationModels(ctx, store, o)
}
func (d *countDS) FindLatestAuthorizationModel(ctx context.Context, store string) (*openfgav1.AuthorizationModel, error) {
	d.t.touch(store)
	return d.OpenFGADatastore.FindLatestAuthorizationModel(ctx, store)
}
func (d *countDS) WriteAuthorizationModel(ctx context.Context, store string, m *openfgav1.AuthorizationModel) error {
	d.t.touch(store)
	return d.OpenFGADatastore.WriteAuthorizationModel(ctx, store, m)
}
func (d *countDS) DeleteStore(ctx context.Context, id string) error {
	d.t.touch(id)
	return d.OpenFGADatastore.DeleteStore(ctx, id)
}
func (d *countDS) GetStore(ctx context.Context, id string) (*openfgav1.Store, error) {
	d.t.touch(id)
	return d.OpenFGADatastore.GetStore(ctx, id)
}
func (d *countDS) ListStores(ctx context.Context, o storage.ListStoresOptions) ([]*openfgav1.Store, string, error) {
	d.t.mu.Lock()
	switch {
	case o.IDs == nil:
		d.t.listIDs = append(d.t.listIDs, "nil")
	case len(o.IDs) == 0:
		d.t.listIDs = append(d.t.listIDs, "empty")
	default:
		d.t.listIDs = append(d.t.listIDs, fmt.Sprintf("n=%d", len(o.IDs)))
	}
	d.t.mu.Unlock()
	return d.OpenFGADatastore.ListStores(ctx, o)
}
func (d *countDS) WriteAssertions(ctx context.Context, store, modelID string, a []*openfgav1.Assertion) error {
	d.t.touch(store)
	return d.OpenFGADatastore.WriteAssertions(ctx, store, modelID, a)
}
func (d *countDS) ReadAssertions(ctx context.Context, store, modelID string) ([]*openfgav1.Assertion, error) {
	d.t.touch(store)
	return d.OpenFGADatastore.ReadAssertions(ctx, store, modelID)
}
func (d *countDS) ReadChanges(ctx context.Context, store string, f storage.ReadChangesFilter, o storage.ReadChangesOptions) ([]*openfgav1.TupleChange, string, error) {
	d.t.touch(store)
	return d.OpenFGADatastore.ReadChanges(ctx, store, f, o)
}

// ---------------------------------------------------------------------------------------------
// fault shim between the authorizer and the server's Check / ListObjects (authz.ServerInterface):
// counts the authorization checks of one call and, when armed, makes the k-th one fail
// (mode "error": that check returns an error; mode "cancel": the request context is cancelled
// when the k-th check is issued and that check and every later one return the context's error)

type faultShim struct {
	srv    *server.Server
	mu     sync.Mutex
	n      int
	k      int // 0 = not armed
	cancel context.CancelFunc
	fromK  bool
	fired  bool
}

func (f *faultShim) arm(k int, fromK bool, cancel context.CancelFunc) {
	f.mu.Lock()
	f.n, f.k, f.fromK, f.cancel, f.fired = 0, k, fromK, cancel, false
	f.mu.Unlock()
}

func (f *faultShim) step(ctx context.Context) error {
	f.mu.Lock()
	defer f.mu.Unlock()
	f.n++
	if f.k == 0 {
		return nil
	}
	if f.fromK && f.n >= f.k {
		f.fired = true
		if f.cancel != nil {
			f.cancel()
		}
		if err := ctx.Err(); err != nil {
			return err
		}
		return context.Canceled
	}
	if !f.fromK && f.n == f.k {
		f.fired = true
		return errors.New("injected failure of an authorization check")
	}
	return nil
}

func (f *faultShim) Check(ctx context.Context, req *openfgav1.CheckRequest) (*openfgav1.CheckResponse, error) {
	if err := f.step(ctx); err != nil {
		return nil, err
	}
	return f.srv.Check(ctx, req)
}

func (f *faultShim) ListObjects(ctx context.Context, req *openfgav1.ListObjectsRequest) (*openfgav1.ListObjectsResponse, error) {
	if err := f.step(ctx); err != nil {
		return nil, err
	}
	return f.srv.ListObjects(ctx, req)
}

// installShim replaces the server's authorizer by one of the same kind (authz.NewAuthorizer, same
// configuration) whose ServerInterface is the shim.  The field is unexported: reflect + unsafe.
func installShim(srv *server.Server, storeID, modelID string) *faultShim {
	sh := &faultShim{srv: srv}
	f := reflect.ValueOf(srv).Elem().FieldByName("authorizer")
	if !f.IsValid() {
		must(errors.New("Server has no field `authorizer`"), "install fault shim")
	}
	var a authz.AuthorizerInterface = authz.NewAuthorizer(&authz.Config{StoreID: storeID, ModelID: modelID}, sh, logger.NewNoopLogger())
	reflect.NewAt(f.Type(), unsafe.Pointer(f.UnsafeAddr())).Elem().Set(reflect.ValueOf(&a).Elem())
	return sh
}

// ---------------------------------------------------------------------------------------------
// scenario

type tstore struct {
	id, name, canon string
	modelID         string
	modelIDs        []string // every model id the store ever had
	deleted         bool
	root            bool
	hasModel        bool
}

type identity struct {
	Label    string // canonical label for the record
	NoClaims bool
	ClientID string
}

type world struct {
	be     *storehist.Backend
	srv    *server.Server
	tr     *tracker
	skip   context.Context
	stores []*tstore // index 0 = the access-control store
	ghost  string    // a store id that never existed
	uniq   int
	shim   *faultShim
	mid    *string // probes: the authorization model id to put into the request (nil = default)
}

func (w *world) ctxFor(id identity) context.Context {
	if id.NoClaims {
		return context.Background()
	}
	return authclaims.ContextWithAuthClaims(context.Background(), &authclaims.AuthClaims{ClientID: id.ClientID})
}

func must(err error, what string) {
	if err != nil {
		fmt.Fprintf(os.Stderr, "c26: %s: %v\n", what, err)
		os.Exit(2)
	}
}

// class of an RPC outcome: 0 ok, 1 forbidden, 2 any other error
func classOf(err error) (int, int) {
	if err == nil {
		return 0, 0
	}
	st, ok := status.FromError(err)
	if !ok {
		return 2, -1
	}
	if st.Code() == forbiddenCode {
		return 1, int(st.Code())
	}
	return 2, int(st.Code())
}

type desc struct {
	Kind     string `json:"kind"`
	ScenSeed uint64 `json:"scen_seed"`
	Backend  string `json:"backend"`
	Identity string `json:"identity"`
	Handler  string `json:"handler,omitempty"`
	NT       bool   `json:"nt"`
}

type grantTuple struct{ obj, rel, user string }

// generate the root-store tuples for one client
func genGrants(r *rec.Rand, w *world, clientID string, profile int) []grantTuple {
	user := "application:" + clientID
	var out []grantTuple
	add := func(obj, rel string) { out = append(out, grantTuple{obj, rel, user}) }
	targets := w.stores
	switch profile {
	case 0: // nothing
	case 1: // may list stores, nothing else (F9 situation)
		add("system:fga", "can_call_list_stores")
	case 2: // may list, may get some
		add("system:fga", "can_call_list_stores")
		for _, s := range targets {
			if r.Chance(1, 2) {
				add("store:"+s.id, "can_call_get_store")
			}
		}
	case 3: // system admin
		add("system:fga", "admin")
	case 6: // may list; may get every target store (and a store that never existed): after
		// deletions the accessible id list is as long as, or longer than, the live store list
		add("system:fga", "can_call_list_stores")
		for _, s := range targets[1:] {
			add("store:"+s.id, "can_call_get_store")
		}
		add("store:"+w.ghost, "can_call_get_store")
		if r.Chance(1, 3) {
			add("store:"+targets[1].id, "can_call_delete_store")
		}
	case 4: // module-level writer
		for _, s := range targets[1:] {
			for _, m := range moduleNames[:3] {
				if r.Chance(1, 2) {
					add(fmt.Sprintf("module:%s|%s", s.id, m), rec.Pick(r, []string{"can_call_write", "writer"}))
				}
			}
		}
		if r.Chance(1, 2) {
			add("system:fga", "can_call_list_stores")
		}
	default: // random mixture
		for _, s := range targets {
			switch r.Intn(5) {
			case 0:
			case 1, 2:
				add("store:"+s.id, rec.Pick(r, storeRoles))
			default:
				k := r.Range(2, 7)
				for i := 0; i < k; i++ {
					add("store:"+s.id, rec.Pick(r, storeRelations))
				}
			}
			if !s.root && r.Chance(1, 3) {
				add(fmt.Sprintf("module:%s|%s", s.id, rec.Pick(r, moduleNames)), rec.Pick(r, []string{"can_call_write", "writer"}))
			}
		}
		if r.Chance(1, 2) {
			add("system:fga", rec.Pick(r, []string{"can_call_list_stores", "can_call_create_stores", "admin"}))
		}
		if r.Chance(1, 4) {
			// a grant on a store id that does not exist
			add("store:"+w.ghost, "can_call_get_store")
		}
	}
	// dedupe
	seen := map[grantTuple]bool{}
	var ded []grantTuple
	for _, g := range out {
		if !seen[g] {
			seen[g] = true
			ded = append(ded, g)
		}
	}
	return ded
}

func (w *world) canon(id string) string {
	for _, s := range w.stores {
		if s.id == id {
			return s.canon
		}
	}
	if id == w.ghost {
		return "ghost"
	}
	return "?" + fmt.Sprint(len(id))
}

// direct question to the control store, with contextual tuples built here
func (w *world) grant(clientID, rel, object string, ctxTuples []*openfgav1.TupleKey) int {
	root := w.stores[0]
	resp, err := w.srv.Check(w.skip, &openfgav1.CheckRequest{
		StoreId:              root.id,
		AuthorizationModelId: root.modelID,
		TupleKey:             &openfgav1.CheckRequestTupleKey{User: "application:" + clientID, Relation: rel, Object: object},
		ContextualTuples:     &openfgav1.ContextualTupleKeys{TupleKeys: ctxTuples},
	})
	if err != nil {
		return 2
	}
	if resp.GetAllowed() {
		return 1
	}
	return 0
}

type callRec struct {
	handler, method string
	store           *tstore
	lookups         []rec.V
	class, code     int
	touched         bool
	headers         int
}

type streamStub struct {
	ctx context.Context
	grpc.ServerStream
}

func (c *streamStub) Context() context.Context                            { return c.ctx }
func (c *streamStub) SetHeader(metadata.MD) error                         { return nil }
func (c *streamStub) SendHeader(metadata.MD) error                        { return nil }
func (c *streamStub) SetTrailer(metadata.MD)                              {}
func (c *streamStub) SendMsg(any) error                                   { return nil }
func (c *streamStub) RecvMsg(any) error                                   { return nil }
func (c *streamStub) Send(*openfgav1.StreamedListObjectsResponse) error   { return nil }

var ckKey = &openfgav1.CheckRequestTupleKey{User: "user:u", Relation: "member", Object: "core:1"}

// one call of a store-scoped handler with a valid minimal request
func (w *world) callHandler(ctx context.Context, h string, s *tstore) error {
	srv := w.srv
	sub := &authzenv1.Subject{Type: "user", Id: "u"}
	res := &authzenv1.Resource{Type: "core", Id: "1"}
	act := &authzenv1.Action{Name: "member"}
	mid, amid := "", s.modelID // optional model id (default: latest) / required model id
	if w.mid != nil {
		mid, amid = *w.mid, *w.mid
	}
	switch h {
	case "Write":
		w.uniq++
		_, err := srv.Write(ctx, &openfgav1.WriteRequest{StoreId: s.id, AuthorizationModelId: mid,
			Writes: &openfgav1.WriteRequestWrites{TupleKeys: []*openfgav1.TupleKey{tuple.NewTupleKey(fmt.Sprintf("core:p%d", w.uniq), "member", "user:u")}, OnDuplicate: "ignore"}})
		return err
	case "Check":
		_, err := srv.Check(ctx, &openfgav1.CheckRequest{StoreId: s.id, AuthorizationModelId: mid, TupleKey: ckKey})
		return err
	case "BatchCheck":
		_, err := srv.BatchCheck(ctx, &openfgav1.BatchCheckRequest{StoreId: s.id, AuthorizationModelId: mid, Checks: []*openfgav1.BatchCheckItem{{TupleKey: ckKey, CorrelationId: "a"}}})
		return err
	case "Expand":
		_, err := srv.Expand(ctx, &openfgav1.ExpandRequest{StoreId: s.id, AuthorizationModelId: mid, TupleKey: &openfgav1.ExpandRequestTupleKey{Relation: "member", Object: "core:1"}})
		return err
	case "ListObjects":
		_, err := srv.ListObjects(ctx, &openfgav1.ListObjectsRequest{StoreId: s.id, AuthorizationModelId: mid, Type: "core", Relation: "member", User: "user:u"})
		return err
	case "StreamedListObjects":
		return srv.StreamedListObjects(&openfgav1.StreamedListObjectsRequest{StoreId: s.id, AuthorizationModelId: mid, Type: "core", Relation: "member", User: "user:u"}, &streamStub{ctx: ctx})
	case "ListUsers":
		_, err := srv.ListUsers(ctx, &openfgav1.ListUsersRequest{StoreId: s.id, AuthorizationModelId: mid, Object: &openfgav1.Object{Type: "core", Id: "1"}, Relation: "member",
			UserFilters: []*openfgav1.UserTypeFilter{{Type: "user"}}})
		return err
	case "Read":
		_, err := srv.Read(ctx, &openfgav1.ReadRequest{StoreId: s.id})
		return err
	case "ReadChanges":
		_, err := srv.ReadChanges(ctx, &openfgav1.ReadChangesRequest{StoreId: s.id})
		return err
	case "ReadAssertions":
		_, err := srv.ReadAssertions(ctx, &openfgav1.ReadAssertionsRequest{StoreId: s.id, AuthorizationModelId: amid})
		return err
	case "WriteAssertions":
		_, err := srv.WriteAssertions(ctx, &openfgav1.WriteAssertionsRequest{StoreId: s.id, AuthorizationModelId: amid,
			Assertions: []*openfgav1.Assertion{{TupleKey: &openfgav1.AssertionTupleKey{User: "user:u", Relation: "member", Object: "core:1"}, Expectation: false}}})
		return err
	case "ReadAuthorizationModel":
		_, err := srv.ReadAuthorizationModel(ctx, &openfgav1.ReadAuthorizationModelRequest{StoreId: s.id, Id: amid})
		return err
	case "ReadAuthorizationModels":
		_, err := srv.ReadAuthorizationModels(ctx, &openfgav1.ReadAuthorizationModelsRequest{StoreId: s.id})
		return err
	case "WriteAuthorizationModel":
		resp, err := srv.WriteAuthorizationModel(ctx, &openfgav1.WriteAuthorizationModelRequest{StoreId: s.id, TypeDefinitions: targetModel(), SchemaVersion: typesystem.SchemaVersion1_1})
		if err == nil {
			s.modelID = resp.GetAuthorizationModelId()
			s.modelIDs = append(s.modelIDs, s.modelID)
		}
		return err
	case "GetStore":
		_, err := srv.GetStore(ctx, &openfgav1.GetStoreRequest{StoreId: s.id})
		return err
	case "DeleteStore":
		_, err := srv.DeleteStore(ctx, &openfgav1.DeleteStoreRequest{StoreId: s.id})
		return err
	case "Evaluation":
		_, err := srv.Evaluation(ctx, &authzenv1.EvaluationRequest{StoreId: s.id, Subject: sub, Resource: res, Action: act})
		return err
	case "Evaluations":
		_, err := srv.Evaluations(ctx, &authzenv1.EvaluationsRequest{StoreId: s.id, Subject: sub, Resource: res, Action: act})
		return err
	case "Evaluations#batch":
		_, err := srv.Evaluations(ctx, &authzenv1.EvaluationsRequest{StoreId: s.id, Subject: sub, Action: act,
			Evaluations: []*authzenv1.EvaluationsItemRequest{{Resource: res}, {Resource: &authzenv1.Resource{Type: "core", Id: "2"}}}})
		return err
	case "SubjectSearch":
		_, err := srv.SubjectSearch(ctx, &authzenv1.SubjectSearchRequest{StoreId: s.id, Resource: res, Action: act, Subject: &authzenv1.SubjectFilter{Type: "user"}})
		return err
	case "ResourceSearch":
		_, err := srv.ResourceSearch(ctx, &authzenv1.ResourceSearchRequest{StoreId: s.id, Subject: sub, Action: act, Resource: &authzenv1.ResourceFilter{Type: "core"}})
		return err
	case "ActionSearch":
		_, err := srv.ActionSearch(ctx, &authzenv1.ActionSearchRequest{StoreId: s.id, Subject: sub, Resource: res})
		return err
	case "GetConfiguration":
		_, err := srv.GetConfiguration(ctx, &authzenv1.GetConfigurationRequest{StoreId: s.id})
		return err
	}
	return fmt.Errorf("driver: unknown handler %s", h)
}

// handler -> API method whose relation guards it ("" = no authorization at all).  The Coq side
// pins the delegation lists (handlers_without_own_authz_reviewed) and the own-method rule
// (handlers_check_own_method).
var handlerMethod = [][2]string{
	{"Check", "Check"}, {"BatchCheck", "BatchCheck"}, {"Expand", "Expand"}, {"ListObjects", "ListObjects"},
	{"StreamedListObjects", "StreamedListObjects"}, {"ListUsers", "ListUsers"}, {"Read", "Read"},
	{"ReadChanges", "ReadChanges"}, {"ReadAssertions", "ReadAssertions"}, {"WriteAssertions", "WriteAssertions"},
	{"ReadAuthorizationModel", "ReadAuthorizationModel"}, {"ReadAuthorizationModels", "ReadAuthorizationModels"},
	{"WriteAuthorizationModel", "WriteAuthorizationModel"}, {"GetStore", "GetStore"},
	{"Evaluation", "Check"}, {"Evaluations", "Check"}, {"Evaluations#batch", "BatchCheck"},
	{"SubjectSearch", "ListUsers"}, {"ResourceSearch", "StreamedListObjects"}, {"ActionSearch", "BatchCheck"},
	{"GetConfiguration", ""},
}

// which relation to ask the control store about, per API method (the oracle uses its own table)
var relationOfMethod = map[string]string{
	"ReadAuthorizationModel": "can_call_read_authorization_models", "ReadAuthorizationModels": "can_call_read_authorization_models",
	"Read": "can_call_read", "Write": "can_call_write", "ListObjects": "can_call_list_objects", "StreamedListObjects": "can_call_list_objects",
	"Check": "can_call_check", "BatchCheck": "can_call_check", "ListUsers": "can_call_list_users", "WriteAssertions": "can_call_write_assertions",
	"ReadAssertions": "can_call_read_assertions", "WriteAuthorizationModel": "can_call_write_authorization_models",
	"GetStore": "can_call_get_store", "DeleteStore": "can_call_delete_store", "Expand": "can_call_expand", "ReadChanges": "can_call_read_changes",
}

var mutating = map[string]bool{"WriteAssertions": true, "WriteAuthorizationModel": true}

func (w *world) doCall(id identity, h, method string, s *tstore) callRec {
	w.tr.reset()
	err := w.callHandler(w.ctxFor(id), h, s)
	cl, code := classOf(err)
	if h == "DeleteStore" && err == nil {
		s.deleted = true
	}
	hd := 0
	if !s.root {
		hd = w.tr.modelHeaders(s)
	}
	return callRec{handler: h, method: method, store: s, class: cl, code: code, touched: !s.root && w.tr.was(s.id), headers: hd}
}

func (w *world) doWrite(r *rec.Rand, id identity, s *tstore, explicitModel bool) callRec {
	k := r.Range(1, 4)
	var specs []tupleSpec
	// bias: mostly module-carrying tuples so that the module branch is reached
	for i := 0; i < k; i++ {
		var c [2]string
		switch {
		case r.Chance(1, 10):
			c = rec.Pick(r, writeCandidates[9:]) // unknown type / relation
		case r.Chance(1, 5):
			c = rec.Pick(r, [][2]string{{"core", "member"}, {"ext", "plain"}})
		default:
			c = rec.Pick(r, writeCandidates[1:8])
		}
		specs = append(specs, tupleSpec{Type: c[0], Rel: c[1], Delete: r.Chance(1, 3)})
	}
	if r.Chance(1, 2) && k > 1 {
		// confine to the module of the first tuple
		for i := 1; i < k; i++ {
			k0, m0 := lookup(specs[0].Type, specs[0].Rel)
			if k0 == 2 && m0 != "" {
				for tries := 0; tries < 8; tries++ {
					c := rec.Pick(r, writeCandidates[1:8])
					if kk, mm := lookup(c[0], c[1]); kk == 2 && mm == m0 {
						specs[i].Type, specs[i].Rel = c[0], c[1]
						break
					}
				}
			}
		}
	}
	req := &openfgav1.WriteRequest{StoreId: s.id}
	if explicitModel {
		req.AuthorizationModelId = s.modelID
	}
	var lookups []rec.V
	// the Go code walks writes first, then deletes
	for pass := 0; pass < 2; pass++ {
		for _, sp := range specs {
			if sp.Delete != (pass == 1) {
				continue
			}
			w.uniq++
			obj := fmt.Sprintf("%s:o%d", sp.Type, w.uniq)
			if sp.Delete {
				if req.Deletes == nil {
					req.Deletes = &openfgav1.WriteRequestDeletes{OnMissing: "ignore"}
				}
				req.Deletes.TupleKeys = append(req.Deletes.TupleKeys, &openfgav1.TupleKeyWithoutCondition{Object: obj, Relation: sp.Rel, User: "user:u"})
			} else {
				if req.Writes == nil {
					req.Writes = &openfgav1.WriteRequestWrites{OnDuplicate: "ignore"}
				}
				req.Writes.TupleKeys = append(req.Writes.TupleKeys, tuple.NewTupleKey(obj, sp.Rel, "user:u"))
			}
			kind, mod := lookup(sp.Type, sp.Rel)
			lookups = append(lookups, rec.L(rec.I(kind), rec.S(mod)))
		}
	}
	w.tr.reset()
	_, err := w.srv.Write(w.ctxFor(id), req)
	cl, code := classOf(err)
	return callRec{handler: "Write", method: "Write", store: s, lookups: lookups, class: cl, code: code,
		touched: !s.root && w.tr.was(s.id), headers: w.tr.modelHeaders(s)}
}

func callV(c callRec) rec.V {
	return rec.L(rec.S(c.handler), rec.S(c.method), rec.S(c.store.canon), rec.L(c.lookups...),
		rec.I(c.class), rec.I(c.code), rec.Bool(c.touched), rec.I(c.headers), rec.Bool(c.store.hasModel))
}

func (w *world) listStores(id identity, name string, pageSize int) (int, []string, []string) {
	return w.listStoresFrom(id, name, pageSize, "")
}

// listStoresFrom reads every page from the given continuation token on
func (w *world) listStoresFrom(id identity, name string, pageSize int, token string) (int, []string, []string) {
	w.tr.reset()
	var ids []string
	for page := 0; page < 50; page++ {
		req := &openfgav1.ListStoresRequest{Name: name, ContinuationToken: token}
		if pageSize > 0 {
			req.PageSize = wrapperspb.Int32(int32(pageSize))
		}
		resp, err := w.srv.ListStores(w.ctxFor(id), req)
		if err != nil {
			cl, _ := classOf(err)
			return cl, nil, w.tr.listIDs
		}
		for _, s := range resp.GetStores() {
			ids = append(ids, w.canon(s.GetId()))
		}
		token = resp.GetContinuationToken()
		if token == "" {
			break
		}
	}
	sort.Strings(ids)
	return 0, ids, w.tr.listIDs
}

// forgedTokens: continuation tokens that were not handed out for this listing.  sqlite: the token
// is the base64 of a store id (rows with id >= token follow); memory: base64 of an offset into the
// caller's filtered list.  Returns (token, position in the id-ordered live list / offset).
func forgedTokens(r *rec.Rand, backend string, liveIDs []string) [][2]any {
	var out [][2]any
	n := len(liveIDs)
	pos := []int{0, n - 1, n}
	if n > 2 {
		pos = append(pos, r.Range(1, n-2))
	}
	for _, p := range pos {
		if p < 0 {
			continue
		}
		var raw string
		if backend == "sqlite" {
			if p < n {
				raw = liveIDs[p]
			} else {
				raw = "7ZZZZZZZZZZZZZZZZZZZZZZZZZ" // sorts after every ULID of this run
			}
		} else {
			raw = strconv.Itoa(p)
		}
		out = append(out, [2]any{base64.URLEncoding.EncodeToString([]byte(raw)), p})
	}
	return out
}

func runScenario(wr *rec.Writer, scenSeed uint64, backend string) {
	r := rec.NewRand(scenSeed)
	be, err := storehist.Open(backend, "/tmp/C26/db")
	must(err, "open backend")
	defer be.Close()
	tr := &tracker{}
	tr.reset()
	ds := &countDS{OpenFGADatastore: be.DS, t: tr}
	skip := authclaims.ContextWithSkipAuthzCheck(context.Background(), true)

	// the access-control store must exist before the server is built (its ids are options):
	// create it directly in the datastore
	rootID, rootModelID := storehist.NewULID(), storehist.NewULID()
	_, err = ds.CreateStore(context.Background(), &openfgav1.Store{Id: rootID, Name: "root-store"})
	must(err, "create root store")
	must(ds.WriteAuthorizationModel(context.Background(), rootID, storehist.ModelWithID(rootStoreModel, rootModelID)), "write root model")

	srv := server.MustNewServerWithOpts(
		server.WithDatastore(ds),
		server.WithExperimentals("enable-access-control", "authzen"),
		server.WithAccessControlParams(true, rootID, rootModelID, "oidc"),
		server.WithTransport(tr),
		server.WithAuthzenBaseURL("https://pdp.example"),
	)
	if !srv.IsAccessControlEnabled() {
		must(fmt.Errorf("access control is not enabled"), "server options")
	}
	w := &world{be: be, srv: srv, tr: tr, skip: skip, ghost: storehist.NewULID()}
	w.shim = installShim(srv, rootID, rootModelID)
	be.Disown() // srv.Close() closes the datastore
	w.stores = append(w.stores, &tstore{id: rootID, name: "root-store", canon: "root", modelID: rootModelID, root: true, hasModel: true})

	nStores := r.Range(2, 4)
	names := []string{"alpha", "beta", "alpha", "gamma"} // two stores share a name
	for i := 0; i < nStores; i++ {
		cs, err := srv.CreateStore(skip, &openfgav1.CreateStoreRequest{Name: names[i]})
		must(err, "create target store")
		wm, err := srv.WriteAuthorizationModel(skip, &openfgav1.WriteAuthorizationModelRequest{StoreId: cs.GetId(), TypeDefinitions: targetModel(), SchemaVersion: typesystem.SchemaVersion1_1})
		must(err, "write target model")
		w.stores = append(w.stores, &tstore{id: cs.GetId(), name: names[i], canon: fmt.Sprintf("s%d", i), modelID: wm.GetAuthorizationModelId(),
			modelIDs: []string{wm.GetAuthorizationModelId()}, hasModel: true})
	}
	// one store without any model: what does an unauthorized Write learn about it?
	bare, err := srv.CreateStore(skip, &openfgav1.CreateStoreRequest{Name: "bare"})
	must(err, "create bare store")
	// (requests that need a model id carry a well-formed id that does not exist)
	w.stores = append(w.stores, &tstore{id: bare.GetId(), name: "bare", canon: "bare", modelID: storehist.NewULID()})

	// identities
	ids := []identity{
		{Label: "noclaims", NoClaims: true},
		{Label: "empty", ClientID: ""},
		{Label: "stranger", ClientID: "stranger"},
	}
	nClients := r.Range(4, 6)
	profiles := []int{1, 2, 3, 4, 5, 5, 5, 6}
	rec.Shuffle(r, profiles)
	if profiles[0] != 6 && r.Chance(2, 3) {
		profiles[1] = 6
	}
	var grants []grantTuple
	for i := 0; i < nClients; i++ {
		cid := fmt.Sprintf("c%d", i)
		ids = append(ids, identity{Label: cid, ClientID: cid})
		gs := genGrants(r, w, cid, profiles[i])
		grants = append(grants, gs...)
		wr.Stat(fmt.Sprintf("profile_%d", profiles[i]), 1)
	}
	// ids that are not plain user ids
	odd := rec.Pick(r, []string{"*", "a b", "x#member", "c0 ", "C0"})
	ids = append(ids, identity{Label: "odd:" + odd, ClientID: odd})
	// wildcard grants apply to every client id
	wild := r.Intn(4)
	if wild == 1 || wild == 3 {
		grants = append(grants, grantTuple{"system:fga", "can_call_list_stores", "application:*"})
	}
	if wild == 2 || wild == 3 {
		grants = append(grants, grantTuple{"system:fga", "can_call_create_stores", "application:*"})
	}
	wr.Stat(fmt.Sprintf("wildcard_grants_%d", wild), 1)
	// sometimes the system tuple is really stored for one store (authz.go passes it contextually)
	if r.Chance(1, 4) {
		grants = append(grants, grantTuple{"store:" + w.stores[1].id, "system", "system:fga"})
	}
	root := w.stores[0]
	for i := 0; i < len(grants); i += 20 {
		j := i + 20
		if j > len(grants) {
			j = len(grants)
		}
		var tks []*openfgav1.TupleKey
		for _, g := range grants[i:j] {
			tks = append(tks, tuple.NewTupleKey(g.obj, g.rel, g.user))
		}
		_, err := srv.Write(skip, &openfgav1.WriteRequest{StoreId: root.id, AuthorizationModelId: root.modelID,
			Writes: &openfgav1.WriteRequestWrites{TupleKeys: tks, OnDuplicate: "ignore"}})
		must(err, "write grants")
	}

	type perID struct {
		id       identity
		grantsV  []rec.V
		laV      rec.V
		calls    []callRec
		lists    []rec.V
		create   int
		deletes  []callRec
		storesV  []rec.V
		lateV    []rec.V // ListStores after the deletions / creations
		lateG    []rec.V // grants on the stores created after the grant tables were taken
	}
	var all []*perID

	sysTuple := func(sid string) *openfgav1.TupleKey {
		return &openfgav1.TupleKey{User: "system:fga", Relation: "system", Object: "store:" + sid}
	}

	// phase 1: grant tables (the control store's tuples never change afterwards)
	for _, id := range ids {
		p := &perID{id: id}
		all = append(all, p)
		if id.NoClaims {
			p.laV = rec.L(rec.I(1))
			continue
		}
		for _, rel := range systemRelations {
			p.grantsV = append(p.grantsV, rec.L(rec.S(rel), rec.I(0), rec.S(""), rec.S(""), rec.I(w.grant(id.ClientID, rel, "system:fga", nil))))
		}
		for _, s := range w.stores {
			for _, rel := range append(append([]string{}, storeRelations...), systemRelations...) {
				res := w.grant(id.ClientID, rel, "store:"+s.id, []*openfgav1.TupleKey{sysTuple(s.id)})
				p.grantsV = append(p.grantsV, rec.L(rec.S(rel), rec.I(1), rec.S(s.canon), rec.S(""), rec.I(res)))
			}
			for _, m := range moduleNames {
				obj := fmt.Sprintf("module:%s|%s", s.id, m)
				res := w.grant(id.ClientID, "can_call_write", obj, []*openfgav1.TupleKey{
					{User: "store:" + s.id, Relation: "store", Object: obj}, sysTuple(s.id)})
				p.grantsV = append(p.grantsV, rec.L(rec.S("can_call_write"), rec.I(2), rec.S(s.canon), rec.S(m), rec.I(res)))
			}
		}
		lo, err := srv.ListObjects(skip, &openfgav1.ListObjectsRequest{StoreId: root.id, AuthorizationModelId: root.modelID,
			Type: "store", Relation: "can_call_get_store", User: "application:" + id.ClientID})
		if err != nil {
			p.laV = rec.L(rec.I(1))
		} else {
			var acc []string
			for _, o := range lo.GetObjects() {
				acc = append(acc, w.canon(strings.TrimPrefix(o, "store:")))
			}
			sort.Strings(acc)
			p.laV = rec.L(rec.I(0), rec.LS(acc))
		}
	}

	// phase 2: every store-scoped handler on every store, writes over module sets, ListStores
	for pi, p := range all {
		visit := w.stores
		if pi < 3 || strings.HasPrefix(p.id.Label, "odd:") {
			// identities without any grant of their own: the control store, one target, the bare store
			visit = []*tstore{w.stores[0], w.stores[1+r.Intn(len(w.stores)-2)], w.stores[len(w.stores)-1]}
		}
		for _, s := range visit {
			hs := append([][2]string{}, handlerMethod...)
			rec.Shuffle(r, hs)
			for _, hm := range hs {
				if (s.root || !s.hasModel) && mutating[hm[0]] {
					continue // the control store and the model-less store stay as they are
				}
				p.calls = append(p.calls, w.doCall(p.id, hm[0], hm[1], s))
			}
			if !s.root {
				nw := r.Range(3, 5)
				for i := 0; i < nw; i++ {
					p.calls = append(p.calls, w.doWrite(r, p.id, s, r.Chance(1, 3) && s.hasModel))
				}
			}
		}
		sorted := append([]*tstore{}, w.stores...)
		sort.Slice(sorted, func(i, j int) bool { return sorted[i].id < sorted[j].id })
		var storesV []rec.V
		var liveIDs []string
		for _, s := range sorted {
			storesV = append(storesV, rec.L(rec.S(s.canon), rec.S(s.name)))
			liveIDs = append(liveIDs, s.id)
		}
		p.storesV = storesV
		for _, variant := range []struct {
			name string
			page int
		}{{"", 0}, {"alpha", r.Range(1, 2)}, {"", r.Range(1, 3)}, {"nosuch", 0}} {
			cl, got, idsSeen := w.listStores(p.id, variant.name, variant.page)
			p.lists = append(p.lists, rec.L(rec.S(variant.name), rec.I(cl), rec.LS(got), rec.LS(idsSeen), rec.I(-1)))
		}
		for _, ft := range forgedTokens(r, backend, liveIDs) {
			cl, got, idsSeen := w.listStoresFrom(p.id, "", r.Range(0, 3), ft[0].(string))
			p.lists = append(p.lists, rec.L(rec.S(""), rec.I(cl), rec.LS(got), rec.LS(idsSeen), rec.I(ft[1].(int))))
			wr.Stat("liststores_forged_token", 1)
		}
	}
	// probes: an UNAUTHORISED caller against target stores in the states that make work done
	// before the authorization decision observable: a store with a model, a store without any
	// model, a store id that never existed; requests naming the latest model, a well-formed model
	// id that does not exist, a malformed model id.  The answer must be the same forbidden answer
	// whatever the state of the target store (or the same request-validation answer), and
	// nothing of the target store may be read or put into the response headers.
	{
		ghostStore := &tstore{id: w.ghost, name: "ghost", canon: "ghost", modelID: storehist.NewULID()}
		bareStore := w.stores[len(w.stores)-1]
		states := []*tstore{w.stores[1], bareStore, ghostStore}
		unknownModel, malformed := storehist.NewULID(), "not-a-ulid"
		withModelID := map[string]bool{"Write": true, "Check": true, "BatchCheck": true, "Expand": true, "ListObjects": true,
			"StreamedListObjects": true, "ListUsers": true, "ReadAssertions": true, "WriteAssertions": true, "ReadAuthorizationModel": true}
		probeHandlers := append([][2]string{{"Write", "Write"}, {"DeleteStore", "DeleteStore"}}, handlerMethod...)
		for _, pid := range []identity{{Label: "noclaims", NoClaims: true}, {Label: "stranger", ClientID: "stranger"}} {
			for _, hm := range probeHandlers {
				var grantsV []rec.V
				if !pid.NoClaims && hm[1] != "" {
					rel := relationOfMethod[hm[1]]
					for _, st := range states {
						res := w.grant(pid.ClientID, rel, "store:"+st.id, []*openfgav1.TupleKey{sysTuple(st.id)})
						grantsV = append(grantsV, rec.L(rec.S(rel), rec.I(1), rec.S(st.canon), rec.S(""), rec.I(res)))
					}
				}
				variants := []struct {
					label string
					mid   *string
				}{{"default", nil}}
				if withModelID[hm[0]] {
					variants = append(variants, struct {
						label string
						mid   *string
					}{"unknown-model-id", &unknownModel}, struct {
						label string
						mid   *string
					}{"malformed-model-id", &malformed})
				}
				var probesV []rec.V
				for _, v := range variants {
					var answers []rec.V
					for _, st := range states {
						w.mid = v.mid
						c := w.doCall(pid, hm[0], hm[1], st)
						w.mid = nil
						answers = append(answers, rec.L(rec.S(st.canon), rec.I(c.class), rec.I(c.code), rec.Bool(c.touched), rec.I(c.headers)))
						wr.Stat("probe_calls", 1)
						wr.Stat(fmt.Sprintf("probe_class_%d", c.class), 1)
					}
					probesV = append(probesV, rec.L(rec.S(v.label), rec.L(answers...)))
				}
				claimsState := 1
				if pid.NoClaims {
					claimsState = 0
				}
				var stV []rec.V
				for _, st := range states {
					stV = append(stV, rec.L(rec.S(st.canon), rec.S(st.name)))
				}
				wr.Case(desc{Kind: "probe", ScenSeed: scenSeed, Backend: backend, Identity: pid.Label, Handler: hm[0], NT: true},
					rec.I(5), rec.I(claimsState), rec.S(pid.ClientID), rec.L(stV...), rec.L(grantsV...), rec.L(rec.I(1)),
					rec.S(hm[0]), rec.S(hm[1]), rec.L(probesV...))
				wr.Stat("probe_records", 1)
			}
		}
	}

	// faults: the k-th authorization check of a call fails (error), or the request context is
	// cancelled when the k-th check is issued; k is swept past the number of checks a call makes.
	// Writes confined to one module, spanning two modules, module-less; other handlers;
	// ListStores (checks: system object, then ListObjects).  Whatever fails, a call that the
	// control store does not authorize must not be let through.
	{
		type fcase struct {
			handler string
			specs   [][2]string // Write only
		}
		fcases := []fcase{
			{"Write", [][2]string{{"ma1", "member"}}}, {"Write", [][2]string{{"mb1", "member"}, {"mix", "viewer"}}},
			{"Write", [][2]string{{"ma1", "member"}, {"mb1", "member"}}}, {"Write", [][2]string{{"core", "member"}}},
			{"Write", [][2]string{{"mc1", "member"}, {"ext", "extra"}}},
			{"Check", nil}, {"Read", nil}, {"GetStore", nil}, {"ListObjects", nil}, {"ReadChanges", nil},
		}
		var subjects []*perID
		for _, p := range all {
			if p.id.Label == "stranger" {
				subjects = append(subjects, p)
			}
		}
		clients := all[3 : 3+nClients]
		for _, i := range []int{r.Intn(nClients), r.Intn(nClients), r.Intn(nClients)} {
			dup := false
			for _, q := range subjects {
				dup = dup || q == clients[i]
			}
			if !dup {
				subjects = append(subjects, clients[i])
			}
		}
		for _, p := range subjects {
			var faultsV, lsV []rec.V
			for _, st := range w.stores[1 : len(w.stores)-1] {
				for _, fc := range fcases {
					for k := 1; k <= 3; k++ {
						for _, fromK := range []bool{false, true} {
							if fc.specs == nil && k == 3 {
								continue
							}
							ctx, cancel := context.WithCancel(w.ctxFor(p.id))
							var lookups []rec.V
							var err error
							w.tr.reset()
							if fc.handler == "Write" {
								req := &openfgav1.WriteRequest{StoreId: st.id, Writes: &openfgav1.WriteRequestWrites{OnDuplicate: "ignore"}}
								for _, sp := range fc.specs {
									w.uniq++
									req.Writes.TupleKeys = append(req.Writes.TupleKeys, tuple.NewTupleKey(fmt.Sprintf("%s:f%d", sp[0], w.uniq), sp[1], "user:u"))
									kind, mod := lookup(sp[0], sp[1])
									lookups = append(lookups, rec.L(rec.I(kind), rec.S(mod)))
								}
								w.shim.arm(k, fromK, cancel)
								_, err = w.srv.Write(ctx, req)
							} else {
								w.shim.arm(k, fromK, cancel)
								err = w.callHandler(ctx, fc.handler, st)
							}
							fired, nchecks := w.shim.fired, w.shim.n
							w.shim.arm(0, false, nil)
							cancel()
							cl, code := classOf(err)
							faultsV = append(faultsV, rec.L(rec.S(fc.handler), rec.S(fc.handler), rec.S(st.canon), rec.L(lookups...),
								rec.I(k), rec.Bool(fromK), rec.I(cl), rec.I(code), rec.Bool(fired), rec.I(nchecks)))
							wr.Stat("fault_calls", 1)
							if fired {
								wr.Stat("fault_fired", 1)
								wr.Stat(fmt.Sprintf("fault_fired_class_%d", cl), 1)
							}
						}
					}
				}
			}
			for k := 1; k <= 3; k++ {
				for _, fromK := range []bool{false, true} {
					ctx, cancel := context.WithCancel(w.ctxFor(p.id))
					w.shim.arm(k, fromK, cancel)
					resp, err := w.srv.ListStores(ctx, &openfgav1.ListStoresRequest{})
					fired := w.shim.fired
					w.shim.arm(0, false, nil)
					cancel()
					cl, _ := classOf(err)
					var got []string
					for _, st := range resp.GetStores() {
						got = append(got, w.canon(st.GetId()))
					}
					sort.Strings(got)
					lsV = append(lsV, rec.L(rec.I(k), rec.Bool(fromK), rec.I(cl), rec.LS(got), rec.Bool(fired)))
					wr.Stat("fault_calls", 1)
				}
			}
			claimsState := 1
			wr.Case(desc{Kind: "fault", ScenSeed: scenSeed, Backend: backend, Identity: p.id.Label, NT: true},
				rec.I(6), rec.I(claimsState), rec.S(p.id.ClientID), rec.L(p.storesV...), rec.L(p.grantsV...), p.laV,
				rec.L(faultsV...), rec.L(lsV...), rec.S(backend))
			wr.Stat("fault_records", 1)
		}
	}

	// phase 3: CreateStore, then DeleteStore (stores disappear, so this comes last)
	orig := append([]*tstore{}, w.stores...)
	for pi, p := range all {
		w.tr.reset()
		resp, err := srv.CreateStore(w.ctxFor(p.id), &openfgav1.CreateStoreRequest{Name: fmt.Sprintf("made-by-%d", pi)})
		p.create, _ = classOf(err)
		if err == nil {
			w.stores = append(w.stores, &tstore{id: resp.GetId(), name: resp.GetName(), canon: fmt.Sprintf("new%d", pi)})
		}
	}
	for _, p := range all {
		for _, s := range orig[1:] {
			p.deletes = append(p.deletes, w.doCall(p.id, "DeleteStore", "DeleteStore", s))
		}
	}
	// phase 4: housekeeping by the operator (skip-authz context): more stores are deleted -- the
	// grant tuples on them stay in the control store, so the authorizer keeps listing their ids --
	// and new stores without any grant appear; then ListStores again as every identity
	mode := r.Intn(3)
	wr.Stat(fmt.Sprintf("housekeeping_mode_%d", mode), 1)
	var liveTargets []*tstore
	for _, s := range w.stores[1:] {
		if !s.deleted {
			liveTargets = append(liveTargets, s)
		}
	}
	rec.Shuffle(r, liveTargets)
	keep := len(liveTargets)
	switch mode {
	case 1:
		keep = (len(liveTargets) + 1) / 2
	case 2:
		keep = r.Intn(2)
	}
	for i, s := range liveTargets {
		if i >= keep {
			_, err := srv.DeleteStore(skip, &openfgav1.DeleteStoreRequest{StoreId: s.id})
			must(err, "housekeeping delete")
			s.deleted = true
		}
	}
	for i, k := 0, r.Intn(3); i < k; i++ {
		resp, err := srv.CreateStore(skip, &openfgav1.CreateStoreRequest{Name: fmt.Sprintf("late-%d", i)})
		must(err, "housekeeping create")
		w.stores = append(w.stores, &tstore{id: resp.GetId(), name: resp.GetName(), canon: fmt.Sprintf("late%d", i)})
	}
	// the live store list, from the datastore itself
	var liveV []rec.V
	var liveIDs4 []string
	nLive := 0
	{
		token := ""
		for {
			resp, err := srv.ListStores(skip, &openfgav1.ListStoresRequest{ContinuationToken: token})
			must(err, "list live stores")
			for _, st := range resp.GetStores() {
				c := w.canon(st.GetId())
				if strings.HasPrefix(c, "?") {
					must(fmt.Errorf("store %s (%s) is unknown to the driver", st.GetId(), st.GetName()), "live stores")
				}
				liveV = append(liveV, rec.L(rec.S(c), rec.S(st.GetName())))
				liveIDs4 = append(liveIDs4, st.GetId())
				nLive++
			}
			token = resp.GetContinuationToken()
			if token == "" {
				break
			}
		}
	}
	for _, p := range all {
		if !p.id.NoClaims {
			for _, s := range w.stores[len(orig):] {
				res := w.grant(p.id.ClientID, "can_call_get_store", "store:"+s.id, []*openfgav1.TupleKey{sysTuple(s.id)})
				p.lateG = append(p.lateG, rec.L(rec.S("can_call_get_store"), rec.I(1), rec.S(s.canon), rec.S(""), rec.I(res)))
			}
		}
		for _, variant := range []struct {
			name string
			page int
		}{{"", 0}, {"", r.Range(1, 3)}, {"alpha", 0}} {
			cl, got, idsSeen := w.listStores(p.id, variant.name, variant.page)
			p.lateV = append(p.lateV, rec.L(rec.S(variant.name), rec.I(cl), rec.LS(got), rec.LS(idsSeen), rec.I(-1)))
			if cl == 0 {
				for _, seen := range idsSeen {
					var k int
					if n, _ := fmt.Sscanf(seen, "n=%d", &k); n == 1 {
						if k >= nLive {
							wr.Stat("late_liststores_ids_ge_live", 1)
						} else {
							wr.Stat("late_liststores_ids_lt_live", 1)
						}
						break
					}
				}
			}
		}
	}

	if !sort.StringsAreSorted(liveIDs4) {
		must(errors.New("ListStores did not return the stores in id order"), "live stores")
	}
	for _, p := range all {
		for _, ft := range forgedTokens(r, backend, liveIDs4) {
			cl, got, idsSeen := w.listStoresFrom(p.id, "", r.Range(0, 3), ft[0].(string))
			p.lateV = append(p.lateV, rec.L(rec.S(""), rec.I(cl), rec.LS(got), rec.LS(idsSeen), rec.I(ft[1].(int))))
			wr.Stat("liststores_forged_token", 1)
		}
	}

	for _, p := range all {
		var plainV, modelFirstV []rec.V
		for _, c := range append(p.calls, p.deletes...) {
			if c.handler == "Write" || c.handler == "ActionSearch" {
				modelFirstV = append(modelFirstV, callV(c))
			} else {
				plainV = append(plainV, callV(c))
			}
			wr.Stat("calls", 1)
			wr.Stat(fmt.Sprintf("class_%d", c.class), 1)
			if c.class == 2 {
				wr.Stat(fmt.Sprintf("other_error_%s_%d", c.handler, c.code), 1)
			}
			if c.handler == "Write" {
				wr.Stat("write_requests", 1)
				wr.Stat(fmt.Sprintf("write_class_%d", c.class), 1)
			}
		}
		claimsState := 1
		if p.id.NoClaims {
			claimsState = 0
		}
		head := []rec.V{rec.I(claimsState), rec.S(p.id.ClientID), rec.L(p.storesV...), rec.L(p.grantsV...), p.laV}
		d := desc{Kind: "identity", ScenSeed: scenSeed, Backend: backend, Identity: p.id.Label, NT: true}
		// kind 1: handlers that authorize first; kind 3: Write and ActionSearch (they resolve the
		// store's model before they authorize); kind 2: ListStores and CreateStore
		wr.Case(d, append(append([]rec.V{rec.I(1)}, head...), rec.L(plainV...))...)
		wr.Case(d, append(append([]rec.V{rec.I(3)}, head...), rec.L(modelFirstV...))...)
		wr.Case(d, append(append([]rec.V{rec.I(2)}, head...), rec.L(p.lists...), rec.I(p.create), rec.S(backend))...)
		// kind 4: ListStores after stores were deleted and created
		head4 := []rec.V{rec.I(claimsState), rec.S(p.id.ClientID), rec.L(liveV...), rec.L(append(append([]rec.V{}, p.grantsV...), p.lateG...)...), p.laV}
		wr.Case(d, append(append([]rec.V{rec.I(4)}, head4...), rec.L(p.lateV...), rec.I(-1), rec.S(backend))...)
		wr.Stat("identities", 1)
	}
	wr.Stat("scenarios_"+backend, 1)
	srv.Close()
}

func main() {
	o := rec.ParseFlags()
	wr := rec.NewWriter(o.Out)
	defer wr.Close()
	defer os.RemoveAll("/tmp/C26/db")
	if o.Replay != "" {
		data, err := os.ReadFile(o.Replay)
		must(err, "read replay file")
		done := map[string]bool{}
		for _, line := range strings.Split(string(data), "\n") {
			line = strings.TrimSpace(line)
			if line == "" || line == "null" {
				continue
			}
			var d desc
			if json.Unmarshal([]byte(line), &d) != nil || (d.Kind != "identity" && d.Kind != "probe" && d.Kind != "fault") {
				continue
			}
			key := fmt.Sprintf("%d/%s", d.ScenSeed, d.Backend)
			if done[key] {
				continue
			}
			done[key] = true
			runScenario(wr, d.ScenSeed, d.Backend)
		}
		return
	}
	r := rec.NewRand(o.Seed*0x9e3779b97f4a7c15 + 26)
	for i := 0; i < o.N; i++ {
		backend := "memory"
		if i%4 == 3 {
			backend = "sqlite"
		}
		runScenario(wr, r.Uint64(), backend)
	}
}
