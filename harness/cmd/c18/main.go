//go:build verif

package main

import (
	"context"
	"fmt"

	openfgav1 "github.com/openfga/api/proto/openfga/v1"
	"github.com/oklog/ulid/v2"
	"google.golang.org/grpc/status"

	"github.com/openfga/openfga/internal/validation"
	"github.com/openfga/openfga/internal/verifharness/lib/scen"
	"github.com/openfga/openfga/pkg/server/commands"
	"github.com/openfga/openfga/pkg/storage/memory"
	"github.com/openfga/openfga/pkg/typesystem"
)

func main() {
	ctx := context.Background()
	s := &scen.Scenario{Conds: []string{"c1"}, Types: []scen.TypeDef{{Name: "user"},
		{Name: "group", Rels: []scen.RelDef{{Name: "member", RW: scen.This(), Restr: []scen.Restr{scen.RObj("user")}}}},
		{Name: "doc", Rels: []scen.RelDef{
			{Name: "viewer", RW: scen.This(), Restr: []scen.Restr{scen.RObj("user"), scen.RWild("user").With("c1"), scen.RObj("group"), scen.RSet("group", "member").With("c1"), scen.RSet("doc", "viewer")}},
		}}}}
	m := s.ModelProto()
	m.Id = ulid.Make().String()
	ts, err := typesystem.NewAndValidate(ctx, m)
	fmt.Println("validate model:", err)
	ds := memory.New()
	storeID := ulid.Make().String()
	ds.CreateStore(ctx, &openfgav1.Store{Id: storeID, Name: "verif"})
	ds.WriteAuthorizationModel(ctx, storeID, m)
	try := func(t scen.Tuple) {
		tk := t.Proto()
		e1 := validation.ValidateTupleForWrite(ts, tk)
		_, e2 := commands.NewWriteCommand(ds).Execute(ctx, &openfgav1.WriteRequest{StoreId: storeID, AuthorizationModelId: m.Id, Writes: &openfgav1.WriteRequestWrites{TupleKeys: []*openfgav1.TupleKey{tk}}})
		code := 0
		if e2 != nil {
			st, _ := status.FromError(e2)
			code = int(st.Code())
		}
		fmt.Printf("%-40s cond=%-3s ctx=%v direct=%v | write code=%d %v\n", t.Key(), t.Cond, t.Ctx, e1, code, e2)
	}
	try(scen.Tuple{Obj: "doc:1", Rel: "viewer", User: "user:a"})
	try(scen.Tuple{Obj: "doc:2", Rel: "viewer", User: "user:a", Cond: "c1", Ctx: map[string]any{"x": 1}})
	try(scen.Tuple{Obj: "doc:3", Rel: "viewer", User: "user:*"})
	try(scen.Tuple{Obj: "doc:4", Rel: "viewer", User: "group:1#member"})
	try(scen.Tuple{Obj: "doc:5", Rel: "viewer", User: "group:1#member", Cond: "c1"})
	try(scen.Tuple{Obj: "doc:6", Rel: "viewer", User: "group:1", Cond: "c1"})
	try(scen.Tuple{Obj: "doc:7", Rel: "viewer", User: "doc:7#viewer"})
	try(scen.Tuple{Obj: "doc:8", Rel: "viewer", User: "user:a", Cond: "c1", Ctx: map[string]any{"y": 1}})
	try(scen.Tuple{Obj: "doc:9", Rel: "viewer", User: "user:*", Cond: "c1", Ctx: map[string]any{"x": "abc"}})
	try(scen.Tuple{Obj: "doc:9", Rel: "viewer", User: "user:*", Cond: "c1", Ctx: map[string]any{"x": "12"}})
	tk := &openfgav1.TupleKey{Object: "doc:10", Relation: "viewer", User: "user:a", Condition: &openfgav1.RelationshipCondition{Name: ""}}
	fmt.Println("empty name:", validation.ValidateTupleForWrite(ts, tk))
	// contextual
	env := &scen.Env{S: s, DS: ds, StoreID: storeID, Model: m, TS: ts}
	res, closer := scen.Resolver(scen.NewForcedPlanner("default"), 25)
	defer closer()
	for _, t := range []scen.Tuple{{Obj: "doc:7", Rel: "viewer", User: "doc:7#viewer"}, {Obj: "doc:4", Rel: "viewer", User: "group:1#member"}, {Obj: "doc:4", Rel: "viewer", User: "ghost:1"}} {
		o, msg := env.Check(ctx, res, "doc:1", "viewer", "user:a", []scen.Tuple{t})
		fmt.Println("ctx", t.Key(), o, msg)
	}
}
