//go:build verif

// Driver for C18 (tuple validation accepts exactly what the model allows).
//
// For every generated model (scen.Generate with richer condition parameter lists, and the
// hand-made shapes of scen.C18Custom, some of which the model validator refuses and which are
// therefore written to the datastore directly) the driver enumerates ALL tuples over the model
// vocabulary: every (object type, relation) x every user form (object / typed wildcard / userset
// of every type and relation, the tuple's own object#relation) x condition variants (none, every
// defined condition with fitting / empty / partial / random / unknown-parameter / control-character
// contexts, undefined, empty and malformed condition names), plus a malformed stream (unknown type
// or relation, empty id, bare user id, `*`, wildcards and usersets in every position, spaces,
// control characters, ...), and observes
//
//	kind 1  per tuple: validation.ValidateTupleForWrite (error class), and for a sample:
//	        commands.WriteCommand.Execute on a store with resident tuples (accept / gRPC code, the
//	        store before and after), the tuple as a contextual tuple of CheckQuery (typed error),
//	        ListUsers request validation and Expand (gRPC code);
//	kind 2  per batch: a Write request with several writes and deletes, options and a small
//	        entity limit: result class and the store before / after.
//
// Records are decoded by ocaml/c18_oracle.ml and compared with coq/Sem/ValidWrite.v.
package main

import (
	"bufio"
	"context"
	"encoding/json"
	"errors"
	"fmt"
	"os"
	"sort"
	"strings"

	"github.com/oklog/ulid/v2"
	openfgav1 "github.com/openfga/api/proto/openfga/v1"
	"google.golang.org/grpc/codes"
	"google.golang.org/grpc/status"
	"google.golang.org/protobuf/proto"

	"github.com/openfga/openfga/internal/graph"
	"github.com/openfga/openfga/internal/validation"
	"github.com/openfga/openfga/internal/verifharness/lib/rec"
	"github.com/openfga/openfga/internal/verifharness/lib/scen"
	"github.com/openfga/openfga/pkg/server/commands"
	"github.com/openfga/openfga/pkg/server/commands/listusers"
	"github.com/openfga/openfga/pkg/storage"
	"github.com/openfga/openfga/pkg/storage/memory"
	"github.com/openfga/openfga/pkg/tuple"
	"github.com/openfga/openfga/pkg/typesystem"
)

const (
	ctxLimit = 64 // conditionContextByteLimit given to the Write command
	maxWrite = 6  // MaxTuplesPerWrite of the datastore
)

// ---------------------------------------------------------------------------------------------
// tuple cases

type tcase struct {
	Obj, Rel, User string
	HasCond        bool
	CondName       string
	Ctx            *scen.C18Ctx // nil: no context message at all
	Tag            string
}

func (t tcase) proto() *openfgav1.TupleKey {
	tk := &openfgav1.TupleKey{Object: t.Obj, Relation: t.Rel, User: t.User}
	if t.HasCond {
		rc := &openfgav1.RelationshipCondition{Name: t.CondName}
		if t.Ctx != nil {
			rc.Context = scen.Struct(t.Ctx.Map())
		}
		tk.Condition = rc
	}
	return tk
}

func (t tcase) key() string { return t.Obj + "#" + t.Rel + "@" + t.User }

func (t tcase) size() int {
	if !t.HasCond || t.Ctx == nil {
		return 0
	}
	return proto.Size(scen.Struct(t.Ctx.Map()))
}

// (obj rel user cond) with cond = () | (name ctx size)
func (t tcase) v() rec.V {
	c := rec.L()
	if t.HasCond {
		ctx := rec.L()
		if t.Ctx != nil {
			ctx = t.Ctx.V()
		}
		c = rec.L(rec.S(t.CondName), ctx, rec.I(t.size()))
	}
	return rec.L(rec.S(t.Obj), rec.S(t.Rel), rec.S(t.User), c)
}

// error classes of validation.ValidateTupleForWrite
const (
	clOK = iota
	clTypeNotFound
	clRelNotFound
	clInvalidTuple
	clInvalidCond
	clOther = 9
)

var clNames = map[int]string{clOK: "ok", clTypeNotFound: "type_not_found", clRelNotFound: "relation_not_found",
	clInvalidTuple: "invalid_tuple", clInvalidCond: "invalid_conditional_tuple", clOther: "other"}

func classify(err error) int {
	if err == nil {
		return clOK
	}
	var ice *tuple.InvalidConditionalTupleError
	var ite *tuple.InvalidTupleError
	// errors.As with the Is-methods of pkg/tuple would match by type only; look at the concrete value
	for e := err; e != nil; e = errors.Unwrap(e) {
		if x, ok := e.(*tuple.InvalidConditionalTupleError); ok { //nolint:errorlint
			ice = x
			break
		}
		if x, ok := e.(*tuple.InvalidTupleError); ok { //nolint:errorlint
			ite = x
			break
		}
	}
	switch {
	case ice != nil:
		return clInvalidCond
	case ite != nil:
		switch ite.Cause.(type) { //nolint:errorlint
		case *tuple.TypeNotFoundError:
			return clTypeNotFound
		case *tuple.RelationNotFoundError:
			return clRelNotFound
		}
		return clInvalidTuple
	}
	return clOther
}

// gRPC code classes of the APIs that map the validation error through HandleTupleValidateError
func codeClass(err error) int {
	if err == nil {
		return 0
	}
	st, ok := status.FromError(err)
	if !ok {
		return 0 // not a validation refusal: the request got past validation
	}
	switch st.Code() {
	case codes.Code(openfgav1.ErrorCode_invalid_tuple):
		return 1
	case codes.Code(openfgav1.ErrorCode_validation_error):
		return 2
	}
	return 0
}

// result classes of the Write command
func writeClass(err error) int {
	if err == nil {
		return 0
	}
	st, ok := status.FromError(err)
	if !ok {
		return 9
	}
	switch st.Code() {
	case codes.Code(openfgav1.ErrorCode_invalid_write_input):
		return 1
	case codes.Code(openfgav1.ErrorCode_validation_error):
		return 2
	case codes.Code(openfgav1.ErrorCode_cannot_allow_duplicate_tuples_in_one_request):
		return 3
	case codes.Code(openfgav1.ErrorCode_exceeded_entity_limit):
		return 4
	case codes.Code(openfgav1.ErrorCode_write_failed_due_to_invalid_input):
		return 5
	}
	return 9
}

// ---------------------------------------------------------------------------------------------
// the environment of one model

type menv struct {
	m        *scen.C18Model
	ds       storage.OpenFGADatastore
	storeID  string
	modelID  string
	ts       *typesystem.TypeSystem
	valid    bool // accepted by the model validator
	in       *scen.Intern
	resolver graph.CheckResolver
	resident []tcase
}

var errNoTypesystem = errors.New("typesystem.New failed")

func newEnv(ctx context.Context, m *scen.C18Model, resolver graph.CheckResolver) (*menv, error) {
	p := m.Proto()
	p.Id = ulid.Make().String()
	e := &menv{m: m, modelID: p.GetId(), in: scen.NewIntern(), resolver: resolver}
	if ts, err := typesystem.NewAndValidate(ctx, p); err == nil {
		e.ts, e.valid = ts, true
	} else {
		ts, err2 := typesystem.New(p)
		if err2 != nil {
			return nil, errNoTypesystem
		}
		e.ts = ts
	}
	e.ds = memory.New(memory.WithMaxTuplesPerWrite(maxWrite))
	e.storeID = ulid.Make().String()
	if _, err := e.ds.CreateStore(ctx, &openfgav1.Store{Id: e.storeID, Name: "verif"}); err != nil {
		return nil, err
	}
	if err := e.ds.WriteAuthorizationModel(ctx, e.storeID, p); err != nil {
		return nil, err
	}
	return e, nil
}

type stored struct{ Obj, Rel, User, Cond string }

func (e *menv) readAll(ctx context.Context) []stored {
	it, err := e.ds.Read(ctx, e.storeID, storage.ReadFilter{}, storage.ReadOptions{})
	if err != nil {
		panic(err)
	}
	defer it.Stop()
	var out []stored
	for {
		t, err := it.Next(ctx)
		if err != nil {
			break
		}
		k := t.GetKey()
		out = append(out, stored{k.GetObject(), k.GetRelation(), k.GetUser(), k.GetCondition().GetName()})
	}
	sort.Slice(out, func(i, j int) bool {
		a, b := out[i], out[j]
		return a.Obj+"\x00"+a.Rel+"\x00"+a.User+"\x00"+a.Cond < b.Obj+"\x00"+b.Rel+"\x00"+b.User+"\x00"+b.Cond
	})
	return out
}

func sameStore(a, b []stored) bool {
	if len(a) != len(b) {
		return false
	}
	for i := range a {
		if a[i] != b[i] {
			return false
		}
	}
	return true
}

func storeV(s []stored) rec.V {
	vs := make([]rec.V, len(s))
	for i, x := range s {
		vs[i] = rec.L(rec.S(x.Obj), rec.S(x.Rel), rec.S(x.User), rec.S(x.Cond))
	}
	return rec.L(vs...)
}

func (e *menv) writeCmd() *commands.WriteCommand {
	return commands.NewWriteCommand(e.ds, commands.WithConditionContextByteLimit(ctxLimit))
}

// ---------------------------------------------------------------------------------------------
// vocabulary

func idFor(t string) string {
	if t == "user" {
		return "a"
	}
	return "1"
}

type pair struct {
	Obj, Rel string
	Bad      bool
}

func (e *menv) pairs() []pair {
	s := e.m.S
	var ps []pair
	var anyT, anyR string
	for _, td := range s.Types {
		for _, rd := range td.Rels {
			ps = append(ps, pair{td.Name + ":" + idFor(td.Name), rd.Name, false})
			if anyT == "" {
				anyT, anyR = td.Name, rd.Name
			}
		}
	}
	if anyT == "" {
		return ps
	}
	o := anyT + ":1"
	// a relation defined on another type only
	other := ""
	for _, td := range s.Types {
		for _, rd := range td.Rels {
			if s.Rel(anyT, rd.Name) == nil {
				other = rd.Name
			}
		}
	}
	bad := []pair{
		{"ghost:1", anyR, true}, {o, "ghost", true}, {"user:a", anyR, true},
		{anyT + ":", anyR, true}, {":1", anyR, true}, {anyT, anyR, true}, {anyT + ":*", anyR, true},
		{o + "#" + anyR, anyR, true}, {anyT + ":a b", anyR, true}, {o + ":2", anyR, true}, {"", anyR, true},
		{anyT + ":a*", anyR, true}, {anyT + ":é", anyR, true}, {anyT + ":x\x01", anyR, true},
		{o, "", true}, {o, "vie wer", true}, {o, "a#b", true}, {o, "a:b", true}, {o, "a@b", true}, {o, anyR + "\x01", true},
		{o, anyR + "*", true},
	}
	if other != "" {
		bad = append(bad, pair{o, other, true})
	}
	return append(ps, bad...)
}

type uform struct {
	User string
	Bad  bool // malformed / unknown names: only a few condition variants are crossed with it
}

func (e *menv) users(p pair) []uform {
	s := e.m.S
	var us []uform
	for _, td := range s.Types {
		us = append(us, uform{td.Name + ":" + idFor(td.Name), false}, uform{td.Name + ":*", false})
		for _, rd := range td.Rels {
			us = append(us, uform{td.Name + ":" + idFor(td.Name) + "#" + rd.Name, false})
		}
	}
	self := p.Obj + "#" + p.Rel
	found := false
	for _, u := range us {
		if u.User == self {
			found = true
		}
	}
	if !found {
		us = append(us, uform{self, false})
	}
	u := "user"
	g := ""
	gr := "member"
	for _, td := range s.Types {
		if len(td.Rels) > 0 {
			g, gr = td.Name, td.Rels[0].Name
			break
		}
	}
	if g == "" {
		g = "user"
	}
	bad := []string{
		"ghost:1", "ghost:*", "ghost:1#" + gr, g + ":1#ghost", "anne", "*", u + ":", u, ":1",
		g + ":*#" + gr, g + ":1#", u + ":a b", g + ":1#mem ber", "", g + ":1#" + gr + "#" + gr,
		u + ":a*", "us*r:1", g + ":1#mem*ber", u + ":1:2", "\x01", u + ":é", g + ":1#mem@ber",
		g + ":a*#" + gr, "gr*up:1#" + gr, u + ":x\u0085", "#" + gr, g + ":#" + gr, u + ":*:*",
	}
	for _, b := range bad {
		us = append(us, uform{b, true})
	}
	return us
}

// condition variants of a tuple
func (e *menv) condVariants(r *rec.Rand, full bool) []tcase {
	out := []tcase{{Tag: "nocond"}}
	m := e.m
	for _, c := range m.Conds {
		fit := scen.NewC18Ctx()
		for _, p := range c.Params {
			fit.Set(p.Name, scen.C18FitVal(r, p.Type, 0))
		}
		out = append(out, tcase{HasCond: true, CondName: c.Name, Ctx: fit, Tag: "fit"})
		if !full {
			continue
		}
		out = append(out, tcase{HasCond: true, CondName: c.Name, Ctx: nil, Tag: "nilctx"})
		out = append(out, tcase{HasCond: true, CondName: c.Name, Ctx: scen.NewC18Ctx(), Tag: "emptyctx"})
		// partial
		if len(c.Params) > 1 {
			pc := scen.NewC18Ctx()
			for _, p := range c.Params {
				if r.Bool() {
					pc.Set(p.Name, scen.C18FitVal(r, p.Type, 0))
				}
			}
			out = append(out, tcase{HasCond: true, CondName: c.Name, Ctx: pc, Tag: "partial"})
		}
		// random kinds
		for k := 0; k < 2; k++ {
			rc := scen.NewC18Ctx()
			for _, p := range c.Params {
				if r.Chance(3, 4) {
					rc.Set(p.Name, scen.C18RandVal(r, 0))
				} else {
					rc.Set(p.Name, scen.C18FitVal(r, p.Type, 0))
				}
			}
			out = append(out, tcase{HasCond: true, CondName: c.Name, Ctx: rc, Tag: "randomctx"})
		}
		// one mistyped parameter among fitting ones
		if len(c.Params) > 0 {
			wc := fit.Clone()
			p := rec.Pick(r, c.Params)
			wc.Set(p.Name, scen.C18RandVal(r, 0))
			out = append(out, tcase{HasCond: true, CondName: c.Name, Ctx: wc, Tag: "onewrong"})
		}
		// every parameter once with a value that just misses its type
		for _, p := range c.Params {
			nm := fit.Clone()
			nm.Set(p.Name, scen.C18NearMiss(r, p.Type, 0))
			out = append(out, tcase{HasCond: true, CondName: c.Name, Ctx: nm, Tag: "nearmiss"})
		}
		// container parameters: each alone (the context that is cast first decides what a per-type
		// cache would hold), and each with a value that fits a SIBLING of the same container type
		for _, p := range c.Params {
			if p.Type.Elem == nil {
				continue
			}
			one := scen.NewC18Ctx()
			one.Set(p.Name, scen.C18NonEmptyFit(r, p.Type))
			out = append(out, tcase{HasCond: true, CondName: c.Name, Ctx: one, Tag: "oneparam"})
			for _, q := range c.C18Siblings(p) {
				sc := scen.NewC18Ctx()
				sc.Set(p.Name, scen.C18NonEmptyFit(r, q.Type))
				out = append(out, tcase{HasCond: true, CondName: c.Name, Ctx: sc, Tag: "siblingfit"})
			}
		}
		// unknown parameter
		uc := fit.Clone()
		uc.Set(rec.Pick(r, []string{"zz", "X", "x ", "k\x03"}), scen.C18RandVal(r, 1))
		out = append(out, tcase{HasCond: true, CondName: c.Name, Ctx: uc, Tag: "unknownparam"})
		// a control character somewhere
		if len(c.Params) > 0 {
			cc := fit.Clone()
			p := rec.Pick(r, c.Params)
			cc.Set(p.Name, scen.C18Val{K: 6, Go: "bad\x00value"})
			out = append(out, tcase{HasCond: true, CondName: c.Name, Ctx: cc, Tag: "ctlvalue"})
		}
	}
	und := scen.NewC18Ctx()
	und.Set("x", scen.C18Val{K: 2, A: true, B: true, Go: 1.0})
	out = append(out, tcase{HasCond: true, CondName: "zz", Ctx: und, Tag: "undefined"})
	if full {
		out = append(out,
			tcase{HasCond: true, CondName: "", Ctx: nil, Tag: "emptyname"},
			tcase{HasCond: true, CondName: "c\x011", Ctx: nil, Tag: "ctlname"},
			tcase{HasCond: true, CondName: "nocond", Ctx: nil, Tag: "undefined2"})
	}
	return out
}

// pad a fitting context so that its encoded size is exactly `want` bytes (nil if impossible)
func (e *menv) sized(r *rec.Rand, c scen.C18Cond, want int) *scen.C18Ctx {
	for _, p := range c.Params {
		var mk func(n int) scen.C18Val
		switch p.Type.Kind {
		case scen.PString, scen.PAny:
			mk = func(n int) scen.C18Val { return scen.C18Val{K: 3, S: 2, Go: strings.Repeat("q", n)} }
		case scen.PInt, scen.PUint, scen.PDouble:
			mk = func(n int) scen.C18Val { return scen.C18Val{K: 3, S: 0, B: true, Go: strings.Repeat("0", n) + "1"} }
		default:
			continue
		}
		for n := 1; n < want+8; n++ {
			ctx := scen.NewC18Ctx()
			ctx.Set(p.Name, mk(n))
			sz := proto.Size(scen.Struct(ctx.Map()))
			if sz == want {
				return ctx
			}
			if sz > want {
				break
			}
		}
	}
	return nil
}

// ---------------------------------------------------------------------------------------------

type obs struct {
	direct, write, check, lusers, expand int
}

func (o obs) v() rec.V {
	return rec.L(rec.I(o.direct), rec.I(o.write), rec.I(o.check), rec.I(o.lusers), rec.I(o.expand))
}

type budget struct{ acc, rej, batches int }

func (e *menv) envV() (rec.V, rec.V, rec.V) {
	in := e.in
	model := in.Model(e.m.S)
	// well-formed names that occur in the malformed stream but not in the model
	in.T("ghost")
	in.R("ghost")
	var cds, cnames []rec.V
	for _, c := range e.m.Conds {
		var ps []rec.V
		for _, p := range c.Params {
			ps = append(ps, rec.L(rec.S(p.Name), p.Type.V()))
		}
		cds = append(cds, rec.L(rec.I(in.C(c.Name)), rec.L(ps...)))
	}
	for _, n := range []string{"zz", "nocond"} {
		in.C(n)
	}
	seen := map[string]bool{}
	add := func(n string) {
		if n != "" && !seen[n] {
			seen[n] = true
			cnames = append(cnames, rec.L(rec.S(n), rec.I(in.C(n))))
		}
	}
	for _, c := range e.m.Conds {
		add(c.Name)
	}
	for _, td := range e.m.S.Types {
		for _, rd := range td.Rels {
			for _, x := range rd.Restr {
				add(x.Cond)
			}
		}
	}
	add("zz")
	add("nocond")
	var tn, rn []rec.V
	for i, n := range in.TypeNames {
		tn = append(tn, rec.L(rec.S(n), rec.I(i+1)))
	}
	for i, n := range in.RelNames {
		rn = append(rn, rec.L(rec.S(n), rec.I(i+1)))
	}
	return rec.L(rec.L(tn...), rec.L(rn...), rec.L(cnames...)), model, rec.L(cds...)
}

func (e *menv) observeDirect(t tcase) int {
	return classify(validation.ValidateTupleForWrite(e.ts, t.proto()))
}

// the tuple through the real Write command; the store must change exactly when it is accepted
func (e *menv) observeWrite(ctx context.Context, w *rec.Writer, t tcase, desc any) int {
	before := e.readAll(ctx)
	tk := t.proto()
	_, err := e.writeCmd().Execute(ctx, &openfgav1.WriteRequest{StoreId: e.storeID, AuthorizationModelId: e.modelID,
		Writes: &openfgav1.WriteRequestWrites{TupleKeys: []*openfgav1.TupleKey{tk}}})
	after := e.readAll(ctx)
	cl := writeClass(err)
	if err != nil {
		if !sameStore(before, after) {
			w.PropFail(fmt.Sprintf("a rejected write changed the store: %s (%v)", t.key(), err), desc)
		}
		return cl
	}
	if len(after) != len(before)+1 {
		w.PropFail(fmt.Sprintf("an accepted write did not add exactly one tuple: %s", t.key()), desc)
	}
	found := false
	for _, s := range after {
		if s.Obj == t.Obj && s.Rel == t.Rel && s.User == t.User {
			found = true
			cn := ""
			if t.HasCond {
				cn = t.CondName
			}
			if s.Cond != cn {
				w.PropFail(fmt.Sprintf("stored condition %q differs from the written one %q: %s", s.Cond, cn, t.key()), desc)
			}
		}
	}
	if !found {
		w.PropFail(fmt.Sprintf("an accepted write is not readable: %s", t.key()), desc)
	}
	// delete it again through the command (deletes are validated differently)
	_, err = e.writeCmd().Execute(ctx, &openfgav1.WriteRequest{StoreId: e.storeID, AuthorizationModelId: e.modelID,
		Deletes: &openfgav1.WriteRequestDeletes{TupleKeys: []*openfgav1.TupleKeyWithoutCondition{{Object: t.Obj, Relation: t.Rel, User: t.User}}}})
	if err != nil || !sameStore(before, e.readAll(ctx)) {
		w.PropFail(fmt.Sprintf("deleting the written tuple did not restore the store: %s (%v)", t.key(), err), desc)
	}
	return cl
}

func (e *menv) checkTarget() (string, string) {
	for _, td := range e.m.S.Types {
		for _, rd := range td.Rels {
			return td.Name + ":1", rd.Name
		}
	}
	return "", ""
}

func (e *menv) observeCtx(ctx context.Context, t tcase) (int, int, int) {
	obj, rel := e.checkTarget()
	tk := t.proto()
	check, lu, ex := -1, -1, -1
	ot, oid := scen.SplitObj(obj)
	err := listusers.ValidateListUsersRequest(ctx, &openfgav1.ListUsersRequest{
		StoreId: e.storeID, AuthorizationModelId: e.modelID,
		Object: &openfgav1.Object{Type: ot, Id: oid}, Relation: rel,
		UserFilters:      []*openfgav1.UserTypeFilter{{Type: "user"}},
		ContextualTuples: []*openfgav1.TupleKey{tk}}, e.ts)
	lu = codeClass(err)
	if !e.valid {
		return check, lu, ex
	}
	cmd := commands.NewCheckCommand(e.ds, e.resolver, e.ts)
	_, err = cmd.Execute(ctx, &commands.CheckCommandParams{
		StoreID:          e.storeID,
		TupleKey:         &openfgav1.CheckRequestTupleKey{Object: obj, Relation: rel, User: "user:a"},
		ContextualTuples: &openfgav1.ContextualTupleKeys{TupleKeys: []*openfgav1.TupleKey{tk}},
	})
	var ite *commands.InvalidTupleError
	if err != nil && errors.As(err, &ite) {
		check = classify(ite.Cause)
	} else {
		check = clOK
	}
	_, err = commands.NewExpandQuery(e.ds).Execute(typesystem.ContextWithTypesystem(ctx, e.ts), &openfgav1.ExpandRequest{
		StoreId: e.storeID, AuthorizationModelId: e.modelID,
		TupleKey:         &openfgav1.ExpandRequestTupleKey{Object: obj, Relation: rel},
		ContextualTuples: &openfgav1.ContextualTupleKeys{TupleKeys: []*openfgav1.TupleKey{tk}},
	})
	ex = codeClass(err)
	return check, lu, ex
}

type mdesc struct {
	Seed  uint64 `json:"seed"`
	I     int    `json:"i"`
	G     int    `json:"g"`
	Tier  string `json:"tier"`
	W     bool   `json:"witness,omitempty"` // the fixed witness model instead of generated model i
	Shape string `json:"shape"`
	Pair  string `json:"pair,omitempty"`
	Text  string `json:"text,omitempty"`
	NT    bool   `json:"nt"`
}

func modelText(m *scen.C18Model) string {
	var sb strings.Builder
	s := *m.S
	s.Tuples = nil
	sb.WriteString(s.String())
	for _, c := range m.Conds {
		var ps []string
		for _, p := range c.Params {
			ps = append(ps, p.Name+": "+p.Type.String())
		}
		fmt.Fprintf(&sb, "condition %s(%s)\n", c.Name, strings.Join(ps, ", "))
	}
	return sb.String()
}

// runModel emits the records of model i (only group `only` when >= 0).
func runModel(ctx context.Context, w *rec.Writer, seed uint64, i int, tier string, only int, witness bool, resolver graph.CheckResolver) {
	r := rec.NewRand(seed*0x9e3779b97f4a7c15 + uint64(i)*0xbf58476d1ce4e5b9 + 1)
	var m *scen.C18Model
	if witness {
		m = scen.C18Witness()
	} else if i < 9 {
		m = scen.C18Custom(r, i) // every hand-made shape once per run
	} else if i == 9 || (i > 11 && r.Chance(1, 25)) {
		m = scen.C18Collisions(r) // names whose concatenations collide, once per run and now and then
	} else if i == 10 || i == 11 {
		m = scen.C18Custom(r, []int{0, 2}[i-10]) // kind-mix and tupleset under separator-rich names
		scen.C18Rename(r, m)
	} else if r.Chance(1, 2) {
		// prefer models the validator accepts (three attempts), keep a refused one otherwise
		for k := 0; k < 3; k++ {
			m = scen.C18Upgrade(r, scen.Generate(r, scen.DefaultOpts()))
			if _, err := typesystem.NewAndValidate(ctx, m.Proto()); err == nil {
				break
			}
		}
	} else {
		m = scen.C18Custom(r, -1)
	}
	if !witness && i > 11 && m.Shape != "name-collisions" && r.Chance(1, 3) {
		scen.C18Rename(r, m) // separator-rich names are a standing ingredient
	}
	e, err := newEnv(ctx, m, resolver)
	if err != nil {
		if errors.Is(err, errNoTypesystem) {
			w.Stat("models_typesystem_new_failed", 1)
			return
		}
		panic(err)
	}
	defer e.ds.Close()
	w.Stat("models", 1)
	w.Stat("shape_"+m.Shape, 1)
	if e.valid {
		w.Stat("models_validated", 1)
	} else {
		w.Stat("models_refused_by_validator_written_directly", 1)
	}
	bud := budget{acc: 40, rej: 40, batches: 4}
	if tier == "thorough" {
		bud = budget{acc: 250, rej: 250, batches: 12}
	}
	envV, modelV, cdsV := e.envV()
	text := modelText(m)

	// resident tuples: a few tuples the real validator accepts, written directly
	pairs := e.pairs()
	var accepted []tcase
	type group struct {
		p     pair
		cases []tcase
	}
	var groups []group
	for _, p := range pairs {
		var nc, wc, selfc, sizedc []tcase
		for _, u := range e.users(p) {
			full := !p.Bad && !u.Bad
			for _, cv := range e.condVariants(r, full) {
				if (p.Bad || u.Bad) && cv.Tag != "nocond" && cv.Tag != "fit" {
					continue
				}
				t := cv
				t.Obj, t.Rel, t.User = p.Obj, p.Rel, u.User
				switch {
				case t.User == t.Obj+"#"+t.Rel:
					selfc = append(selfc, t)
				case t.HasCond:
					wc = append(wc, t)
				default:
					nc = append(nc, t)
				}
			}
		}
		// size boundary variants on this pair: every user form the relation mentions
		if !p.Bad {
			otype, _ := scen.SplitObj(p.Obj)
			if reld := m.S.Rel(otype, p.Rel); reld != nil {
				for _, x := range reld.Restr {
					if x.Cond == "" || m.Cond(x.Cond) == nil {
						continue
					}
					var u string
					switch x.Kind {
					case scen.KObj:
						u = x.Type + ":" + idFor(x.Type)
					case scen.KWild:
						u = x.Type + ":*"
					default:
						u = x.Type + ":" + idFor(x.Type) + "#" + x.Rel
					}
					for _, sz := range []int{ctxLimit - 1, ctxLimit, ctxLimit + 1, 4 * ctxLimit} {
						if c := e.sized(r, *m.Cond(x.Cond), sz); c != nil {
							sizedc = append(sizedc, tcase{Obj: p.Obj, Rel: p.Rel, User: u, HasCond: true, CondName: x.Cond, Ctx: c, Tag: "sized"})
						}
					}
					// the mostly-valid stream: what the restriction asks for, with several fitting contexts
					for k := 0; k < 4; k++ {
						fc := scen.NewC18Ctx()
						for _, pp := range m.Cond(x.Cond).Params {
							if k == 0 || r.Chance(4, 5) {
								fc.Set(pp.Name, scen.C18FitVal(r, pp.Type, 0))
							}
						}
						wc = append(wc, tcase{Obj: p.Obj, Rel: p.Rel, User: u, HasCond: true, CondName: x.Cond, Ctx: fc, Tag: "restriction-directed"})
					}
				}
			}
		}
		groups = append(groups, group{p, nc}, group{p, wc}, group{p, selfc}, group{p, sizedc})
	}
	// observe everything directly; collect samples for the commands
	type slot struct{ g, k int }
	var accSlots, rejSlots, mustSlots []slot
	observed := make([][]obs, len(groups))
	for gi, g := range groups {
		observed[gi] = make([]obs, len(g.cases))
		for k, t := range g.cases {
			d := e.observeDirect(t)
			observed[gi][k] = obs{d, -1, -1, -1, -1}
			w.Stat("tuples", 1)
			w.Stat("direct_"+clNames[d], 1)
			w.Stat("variant_"+t.Tag, 1)
			switch {
			case t.User == t.Obj+"#"+t.Rel || t.Tag == "sized":
				mustSlots = append(mustSlots, slot{gi, k})
			case d == clOK:
				accSlots = append(accSlots, slot{gi, k})
				accepted = append(accepted, t)
			default:
				rejSlots = append(rejSlots, slot{gi, k})
			}
		}
	}
	rec.Shuffle(r, accSlots)
	rec.Shuffle(r, rejSlots)
	if len(accSlots) > bud.acc {
		accSlots = accSlots[:bud.acc]
	}
	if len(rejSlots) > bud.rej {
		rejSlots = rejSlots[:bud.rej]
	}
	if len(mustSlots) > bud.acc+bud.rej {
		rec.Shuffle(r, mustSlots)
		mustSlots = mustSlots[:bud.acc+bud.rej]
	}
	// resident tuples
	seenKey := map[string]bool{}
	for _, t := range accepted {
		if len(e.resident) >= 3 {
			break
		}
		rt := t
		o, _ := scen.SplitObj(t.Obj)
		rt.Obj = o + ":res" + fmt.Sprint(len(e.resident))
		if seenKey[rt.key()] || rt.User == rt.Obj+"#"+rt.Rel {
			continue
		}
		seenKey[rt.key()] = true
		if err := e.ds.Write(ctx, e.storeID, nil, storage.Writes{rt.proto()}); err == nil {
			e.resident = append(e.resident, rt)
		}
	}
	for _, sl := range append(append(mustSlots, accSlots...), rejSlots...) {
		t := groups[sl.g].cases[sl.k]
		if only >= 0 && sl.g != only {
			continue
		}
		d := mdesc{Seed: seed, I: i, W: witness, G: sl.g, Tier: tier, Shape: m.Shape, Pair: t.key()}
		o := &observed[sl.g][sl.k]
		o.write = e.observeWrite(ctx, w, t, d)
		o.check, o.lusers, o.expand = e.observeCtx(ctx, t)
		w.Stat("through_write_command", 1)
		w.Stat(fmt.Sprintf("write_class_%d", o.write), 1)
		if o.check >= 0 {
			w.Stat("through_check_expand", 1)
		}
	}
	for gi, g := range groups {
		if only >= 0 && gi != only {
			continue
		}
		if len(g.cases) == 0 {
			continue
		}
		var tv []rec.V
		for k, t := range g.cases {
			tv = append(tv, rec.L(t.v(), observed[gi][k].v()))
		}
		w.Case(mdesc{Seed: seed, I: i, W: witness, G: gi, Tier: tier, Shape: m.Shape, Pair: g.p.Obj + "#" + g.p.Rel, Text: text, NT: true},
			rec.I(1), envV, modelV, cdsV, rec.I(ctxLimit), rec.Bool(e.valid), rec.L(tv...))
	}
	// batches
	var all []tcase
	for _, g := range groups {
		all = append(all, g.cases...)
	}
	// context typing must not depend on what was validated before (fresh typesystem per sequence)
	var allObs []int
	for gi := range groups {
		for k := range groups[gi].cases {
			allObs = append(allObs, observed[gi][k].direct)
		}
	}
	hpairs := e.history(ctx, w, r, all, allObs, mdesc{Seed: seed, I: i, W: witness, G: -1, Tier: tier, Shape: m.Shape})
	nextG := len(groups)
	emitFor := func(kind string) func(vs ...rec.V) {
		gi := nextG
		nextG++
		if only >= 0 && gi != only {
			return nil
		}
		d := mdesc{Seed: seed, I: i, W: witness, G: gi, Tier: tier, Shape: m.Shape, Pair: kind, Text: text, NT: true}
		return func(vs ...rec.V) {
			w.Case(d, append([]rec.V{rec.I(2), envV, modelV, cdsV, rec.I(ctxLimit), rec.I(maxWrite)}, vs...)...)
		}
	}
	hd := mdesc{Seed: seed, I: i, W: witness, G: -1, Tier: tier, Shape: m.Shape}
	e.sequences(w, r, all, allObs, tier, hd)
	e.sameShapeBatches(ctx, w, r, all, allObs, tier, emitFor)
	e.mixedBatches(ctx, w, r, accepted, all, allObs, emitFor)
	e.pairBatches(ctx, w, r, hpairs, emitFor)
	for b := 0; b < bud.batches; b++ {
		e.batch(ctx, w, r, accepted, all, emitFor("random"))
	}
}

// wellFormed: ValidateUserObjectRelation passes (the tuple reaches the restriction checks).
func (e *menv) wellFormed(t tcase) bool {
	return validation.ValidateUserObjectRelation(e.ts, t.proto()) == nil
}

func seqText(ts []tcase) string {
	var p []string
	for _, t := range ts {
		x := t.key()
		if t.HasCond {
			x += fmt.Sprintf(" (condition %s %v)", t.CondName, ctxMap(t))
		}
		p = append(p, x)
	}
	return "[" + strings.Join(p, ", ") + "]"
}

// sequences: validation must be a function of (model, tuple) only.  Tuples of DIFFERENT
// (object type, relation) pairs are validated one after the other on ONE fresh typesystem: every
// ordered pair (both orders) of a pool, and shuffled sequences of 3-6; the verdict for a tuple must
// be its verdict when it is validated first (alone), and the one observed on the shared typesystem.
func (e *menv) sequences(w *rec.Writer, r *rec.Rand, all []tcase, allObs []int, tier string, d mdesc) {
	type item struct {
		t      tcase
		shared int
	}
	byPair := map[string][]item{}
	var order []string
	for k, t := range all {
		if t.HasCond && t.Tag != "fit" {
			continue
		}
		pk := t.Obj + "#" + t.Rel
		if allObs[k] != clOK && (len(byPair[pk]) > 0 && byPair[pk][len(byPair[pk])-1].shared != clOK || !e.wellFormed(t)) {
			continue // of the refused ones only the first well-formed one after the accepted ones
		}
		if _, ok := byPair[pk]; !ok {
			order = append(order, pk)
		}
		if len(byPair[pk]) < 4 {
			byPair[pk] = append(byPair[pk], item{t, allObs[k]})
		}
	}
	var pool []item
	poolPair := []int{}
	for pi, pk := range order {
		for _, it := range byPair[pk] {
			pool = append(pool, it)
			poolPair = append(poolPair, pi)
		}
	}
	if len(pool) < 2 {
		return
	}
	nPairs, nLong := 30, 6
	if tier == "thorough" {
		nPairs, nLong = 150, 20
	}
	// pairs whose "type<sep>relation" strings coincide come first (all of them, capped), the rest at random
	joined := func(k int) map[string]bool {
		t := pool[k].t
		ot, _ := scen.SplitObj(t.Obj)
		out := map[string]bool{}
		for _, sep := range []string{"", "-", "_", ".", "/", "|", "#", ":", " "} {
			out[sep+"\x00"+ot+sep+t.Rel] = true
		}
		return out
	}
	type op struct{ a, b int }
	var ops, colliding []op
	for a := range pool {
		ja := joined(a)
		for b := a + 1; b < len(pool); b++ {
			if poolPair[a] == poolPair[b] {
				continue
			}
			hit := false
			for k := range joined(b) {
				if ja[k] {
					hit = true
				}
			}
			if hit {
				colliding = append(colliding, op{a, b})
			} else {
				ops = append(ops, op{a, b})
			}
		}
	}
	rec.Shuffle(r, ops)
	rec.Shuffle(r, colliding)
	if len(colliding) > 2*nPairs {
		colliding = colliding[:2*nPairs]
	}
	if len(ops) > nPairs {
		ops = ops[:nPairs]
	}
	w.Stat("sequences_colliding_names", len(colliding))
	ops = append(colliding, ops...)
	alone := map[int]int{}
	report := func(seq []int, pos, got, want int) {
		var ts []tcase
		for _, k := range seq {
			ts = append(ts, pool[k].t)
		}
		w.PropFail(fmt.Sprintf("validation depends on history: %s is %s when validated alone but %s at position %d of the sequence %s on one typesystem",
			pool[seq[pos]].t.key(), clNames[want], clNames[got], pos, seqText(ts)), d)
	}
	run := func(seq []int) {
		var ts []tcase
		for _, k := range seq {
			ts = append(ts, pool[k].t)
		}
		got := e.fresh(ts)
		w.Stat("sequences_on_one_typesystem", 1)
		if _, ok := alone[seq[0]]; !ok {
			alone[seq[0]] = got[0]
			if got[0] != pool[seq[0]].shared {
				w.PropFail(fmt.Sprintf("validation depends on history: %s is %s on a fresh typesystem and %s on the one that validated other tuples before",
					pool[seq[0]].t.key(), clNames[got[0]], clNames[pool[seq[0]].shared]), d)
			}
		}
		for pos, k := range seq {
			want, ok := alone[k]
			if !ok {
				want = e.fresh([]tcase{pool[k].t})[0]
				alone[k] = want
			}
			if got[pos] != want {
				report(seq, pos, got[pos], want)
			}
		}
	}
	for _, o := range ops {
		run([]int{o.a, o.b})
		run([]int{o.b, o.a})
	}
	for k := 0; k < nLong; k++ {
		n := r.Range(3, 6)
		idx := make([]int, len(pool))
		for j := range idx {
			idx[j] = j
		}
		rec.Shuffle(r, idx)
		if n > len(idx) {
			n = len(idx)
		}
		run(idx[:n])
	}
}

// sameShapeBatches: Write requests mixing a VALID and an INVALID tuple of the same shape (same
// object type, relation and user type; they differ by wildcard-ness, userset relation or condition)
// in both orders and with a second valid one in front: accepted iff every tuple is valid.
func (e *menv) sameShapeBatches(ctx context.Context, w *rec.Writer, r *rec.Rand, all []tcase, allObs []int, tier string,
	emitFor func(string) func(vs ...rec.V)) {
	type bucket struct{ ok, bad []tcase }
	bk := map[string]*bucket{}
	var order []string
	for k, t := range all {
		if t.Tag != "nocond" && t.Tag != "fit" {
			continue
		}
		if t.User == t.Obj+"#"+t.Rel {
			continue
		}
		ut, _, _ := scen.SplitUser(t.User)
		key := t.Obj + "#" + t.Rel + "@" + ut
		if allObs[k] != clOK && !e.wellFormed(t) {
			continue
		}
		b := bk[key]
		if b == nil {
			b = &bucket{}
			bk[key] = b
			order = append(order, key)
		}
		if allObs[k] == clOK {
			b.ok = append(b.ok, t)
		} else {
			b.bad = append(b.bad, t)
		}
	}
	var keys []string
	for _, k := range order {
		if len(bk[k].ok) > 0 && len(bk[k].bad) > 0 {
			keys = append(keys, k)
		}
	}
	rec.Shuffle(r, keys)
	max := 8
	if tier == "thorough" {
		max = 40
	}
	if len(keys) > max {
		keys = keys[:max]
	}
	at := func(t tcase, k int) tcase {
		ot, _ := scen.SplitObj(t.Obj)
		t.Obj = fmt.Sprintf("%s:s%d", ot, k)
		return t
	}
	for _, k := range keys {
		b := bk[k]
		good, good2, bad := rec.Pick(r, b.ok), rec.Pick(r, b.ok), rec.Pick(r, b.bad)
		for _, ws := range [][]tcase{
			{at(good, 0), at(bad, 1)},
			{at(bad, 0), at(good, 1)},
			{at(good, 0), at(good2, 1), at(bad, 2)},
			{at(good, 0), at(bad, 1), at(good2, 2)},
		} {
			e.execBatch(ctx, w, "sameshape", ws, nil, "", "", false, false, emitFor("sameshape"))
		}
	}
}

// fresh validates the tuples in order on a typesystem of their own.
func (e *menv) fresh(ts []tcase) []int {
	tsys, err := typesystem.New(e.m.Proto())
	if err != nil {
		panic(err)
	}
	out := make([]int, len(ts))
	for k, t := range ts {
		out[k] = classify(validation.ValidateTupleForWrite(tsys, t.proto()))
	}
	return out
}

// history: for every condition, all context variants of one user the condition is allowed for are
// validated (a) alone, (b) after another variant, in both orders, each sequence on a fresh
// typesystem; the answers must be those of (a), and those observed on the shared typesystem.
// Returns (A, B) pairs for the Write-level version.
func (e *menv) history(ctx context.Context, w *rec.Writer, r *rec.Rand, all []tcase, allObs []int, d mdesc) [][2]tcase {
	var pairs [][2]tcase
	for _, c := range e.m.Conds {
		carrier := -1
		for k, t := range all {
			if t.HasCond && t.CondName == c.Name && allObs[k] == clOK && t.Tag == "fit" && t.User != t.Obj+"#"+t.Rel {
				carrier = k
				break
			}
		}
		if carrier < 0 {
			continue
		}
		ct := all[carrier]
		var cands []tcase
		var shared []int
		for k, t := range all {
			if t.HasCond && t.CondName == c.Name && t.Obj == ct.Obj && t.Rel == ct.Rel && t.User == ct.User && t.Tag != "sized" {
				cands = append(cands, t)
				shared = append(shared, allObs[k])
			}
		}
		single := make([]int, len(cands))
		for k, t := range cands {
			single[k] = e.fresh([]tcase{t})[0]
			w.Stat("history_single", 1)
			if single[k] != shared[k] {
				w.PropFail(fmt.Sprintf("validation depends on history: %s (condition %s, variant %s, context %v) is %s on a fresh typesystem and %s on the one that validated other tuples before",
					t.key(), t.CondName, t.Tag, ctxMap(t), clNames[single[k]], clNames[shared[k]]), d)
			}
		}
		var okIdx []int
		for k := range cands {
			if single[k] == clOK {
				okIdx = append(okIdx, k)
			}
		}
		for b, tb := range cands {
			a := r.Intn(len(cands))
			if len(okIdx) > 0 && r.Chance(3, 4) {
				a = rec.Pick(r, okIdx) // an accepted context primes whatever state there is
			}
			ta := cands[a]
			for _, seq := range [][2]int{{a, b}, {b, a}} {
				got := e.fresh([]tcase{cands[seq[0]], cands[seq[1]]})
				w.Stat("history_sequences", 1)
				for pos := 0; pos < 2; pos++ {
					if got[pos] != single[seq[pos]] {
						t := cands[seq[pos]]
						o := cands[seq[1-pos]]
						w.PropFail(fmt.Sprintf("validation depends on history: %s (condition %s, context %v) is %s alone but %s at position %d of a sequence with context %v",
							t.key(), t.CondName, ctxMap(t), clNames[single[seq[pos]]], clNames[got[pos]], pos, ctxMap(o)), d)
					}
				}
			}
			if single[a] == clOK && (tb.Tag == "siblingfit" || tb.Tag == "nearmiss" || tb.Tag == "oneparam" || r.Chance(1, 6)) {
				pairs = append(pairs, [2]tcase{ta, tb})
			}
		}
	}
	return pairs
}

func ctxMap(t tcase) any {
	if t.Ctx == nil {
		return nil
	}
	return t.Ctx.Map()
}

// mixedBatches: Write requests of 2-5 tuples in which ONE tuple (or delete) is invalid, for every
// invalidity class at the first, a middle and the last position, the others valid: the request
// must be refused and nothing stored.
func (e *menv) mixedBatches(ctx context.Context, w *rec.Writer, r *rec.Rand, accepted, all []tcase, allObs []int,
	emitFor func(string) func(vs ...rec.V)) {
	if len(accepted) == 0 {
		return
	}
	filler := func(k int) tcase {
		t := rec.Pick(r, accepted)
		ot, _ := scen.SplitObj(t.Obj)
		t.Obj = fmt.Sprintf("%s:m%d", ot, k)
		return t
	}
	byClass := map[string][]tcase{}
	for k, t := range all {
		self := t.User == t.Obj+"#"+t.Rel
		switch {
		case self && allObs[k] == clOK:
			byClass["self"] = append(byClass["self"], t)
		case t.Tag == "sized" && allObs[k] == clOK && t.size() > ctxLimit:
			byClass["oversize"] = append(byClass["oversize"], t)
		case allObs[k] != clOK && !self:
			byClass[clNames[allObs[k]]] = append(byClass[clNames[allObs[k]]], t)
		}
	}
	for _, cl := range []string{"self", "oversize", "type_not_found", "relation_not_found", "invalid_tuple", "invalid_conditional_tuple"} {
		ts := byClass[cl]
		for pos := 0; pos < 3; pos++ {
			emit := emitFor("mixed-" + cl + "-" + []string{"first", "middle", "last"}[pos])
			if len(ts) == 0 {
				continue
			}
			bad := rec.Pick(r, ts)
			n := r.Range(2, 5)
			if pos == 1 && n < 3 {
				n = 3
			}
			at := []int{0, r.Range(1, n-2+boolInt(n < 3)), n - 1}[pos]
			var writes []tcase
			for k := 0; k < n; k++ {
				if k == at {
					writes = append(writes, bad)
				} else {
					writes = append(writes, filler(k))
				}
			}
			e.execBatch(ctx, w, "mixed-"+cl, writes, nil, "", "", false, false, emit)
		}
	}
	// a malformed user among the deletes
	for pos := 0; pos < 3; pos++ {
		emit := emitFor("mixed-delete-" + []string{"first", "middle", "last"}[pos])
		bad := tcase{Obj: "doc:1", Rel: "viewer", User: rec.Pick(r, []string{"a b", "user:a#x#y", "us er:1", ":", "user:a:b"})}
		var deletes []tcase
		good := append([]tcase{}, e.resident...)
		rec.Shuffle(r, good)
		switch pos {
		case 0:
			deletes = append([]tcase{bad}, good...)
		case 1:
			if len(good) >= 2 {
				deletes = append(append([]tcase{good[0]}, bad), good[1:]...)
			} else {
				deletes = append(good, bad)
			}
		default:
			deletes = append(good, bad)
		}
		var writes []tcase
		for k := 0; k < r.Range(0, 2); k++ {
			writes = append(writes, filler(k))
		}
		e.execBatch(ctx, w, "mixed-delete", writes, deletes, "", "", false, false, emit)
	}
}

func boolInt(b bool) int {
	if b {
		return 1
	}
	return 0
}

// pairBatches: two conditioned tuples of the same condition in one Write, in both orders.
func (e *menv) pairBatches(ctx context.Context, w *rec.Writer, r *rec.Rand, pairs [][2]tcase, emitFor func(string) func(vs ...rec.V)) {
	rec.Shuffle(r, pairs)
	if len(pairs) > 10 {
		pairs = pairs[:10]
	}
	for _, p := range pairs {
		for ord := 0; ord < 2; ord++ {
			a, b := p[ord], p[1-ord]
			ot, _ := scen.SplitObj(a.Obj)
			a.Obj, b.Obj = ot+":p0", ot+":p1"
			e.execBatch(ctx, w, "pair", []tcase{a, b}, nil, "", "", false, false, emitFor("pair"))
		}
	}
}

// one Write request with several writes and deletes
func (e *menv) batch(ctx context.Context, w *rec.Writer, r *rec.Rand, accepted, all []tcase, emit func(vs ...rec.V)) {
	var writes []tcase
	nw := r.Range(0, 5)
	if r.Chance(1, 10) {
		nw = r.Range(5, 8)
	}
	for k := 0; k < nw; k++ {
		var t tcase
		switch {
		case len(accepted) > 0 && r.Chance(9, 10):
			t = rec.Pick(r, accepted)
		case len(all) > 0:
			t = rec.Pick(r, all)
		default:
			continue
		}
		if r.Chance(3, 4) {
			o, _ := scen.SplitObj(t.Obj)
			if o != "" && t.User != t.Obj+"#"+t.Rel {
				t.Obj = o + ":b" + fmt.Sprint(r.Intn(4))
			}
		}
		writes = append(writes, t)
	}
	if len(writes) > 0 && r.Chance(1, 8) { // a duplicate inside the request
		writes = append(writes, writes[r.Intn(len(writes))])
	}
	if len(e.resident) > 0 && r.Chance(1, 8) { // a tuple that is already stored
		writes = append(writes, rec.Pick(r, e.resident))
	}
	var deletes []tcase
	nd := r.Intn(3)
	for k := 0; k < nd; k++ {
		switch {
		case len(e.resident) > 0 && r.Chance(2, 3):
			deletes = append(deletes, rec.Pick(r, e.resident))
		case r.Chance(1, 3):
			deletes = append(deletes, tcase{Obj: "doc:1", Rel: "viewer", User: rec.Pick(r, []string{"a b", "user:a#x#y", "us er:1", ""})})
		case len(all) > 0:
			// only complete keys: an object without id or an empty relation is matched as a PATTERN by
			// the memory backend (C12 finding memory_partial_key_match), which is not this property's subject
			t := rec.Pick(r, all)
			if ot, oid := scen.SplitObj(t.Obj); ot != "" && oid != "" && t.Rel != "" {
				deletes = append(deletes, t)
			}
		}
	}
	conflict := false
	for _, t := range writes {
		for _, x := range e.resident {
			if x.key() == t.key() {
				conflict = true
			}
		}
	}
	opts := []string{"", "error", "bogus"}
	od := rec.Pick(r, opts)
	if !conflict && r.Chance(1, 4) {
		od = "ignore"
	}
	om := rec.Pick(r, []string{"", "error", "ignore", "bogus", "", ""})
	if r.Chance(2, 3) {
		od = ""
	}
	emptyWrites, emptyDeletes := r.Chance(1, 2), r.Chance(1, 2)
	e.execBatch(ctx, w, "random", writes, deletes, od, om, emptyWrites, emptyDeletes, emit)
}

// execBatch runs one Write request (nothing when emit is nil: replay of another group), records
// class and store before / after, and restores the resident tuples.
func (e *menv) execBatch(ctx context.Context, w *rec.Writer, kind string, writes, deletes []tcase, od, om string,
	emptyWrites, emptyDeletes bool, emit func(vs ...rec.V)) {
	if emit == nil {
		return
	}
	before := e.readAll(ctx)
	req := &openfgav1.WriteRequest{StoreId: e.storeID, AuthorizationModelId: e.modelID}
	if len(writes) > 0 || emptyWrites {
		req.Writes = &openfgav1.WriteRequestWrites{OnDuplicate: od}
		for _, t := range writes {
			req.Writes.TupleKeys = append(req.Writes.TupleKeys, t.proto())
		}
	} else {
		od = ""
	}
	if len(deletes) > 0 || emptyDeletes {
		req.Deletes = &openfgav1.WriteRequestDeletes{OnMissing: om}
		for _, t := range deletes {
			req.Deletes.TupleKeys = append(req.Deletes.TupleKeys, &openfgav1.TupleKeyWithoutCondition{Object: t.Obj, Relation: t.Rel, User: t.User})
		}
	} else {
		om = ""
	}
	_, err := e.writeCmd().Execute(ctx, req)
	after := e.readAll(ctx)
	cl := writeClass(err)
	w.Stat("batches", 1)
	w.Stat("batches_"+kind, 1)
	w.Stat(fmt.Sprintf("batch_class_%d", cl), 1)
	if err != nil && !sameStore(before, after) {
		w.PropFail(fmt.Sprintf("a rejected write request changed the store (%v)", err), nil)
	}
	optV := func(s string) rec.V {
		switch s {
		case "", "error":
			return rec.I(0)
		case "ignore":
			return rec.I(1)
		}
		return rec.I(2)
	}
	var wv, dv []rec.V
	for _, t := range writes {
		wv = append(wv, t.v())
	}
	for _, t := range deletes {
		dv = append(dv, rec.L(rec.S(t.Obj), rec.S(t.Rel), rec.S(t.User)))
	}
	emit(storeV(before), rec.L(dv...), rec.L(wv...), optV(od), optV(om), rec.I(cl), storeV(after))
	// restore the resident set so that later cases see the same store
	if !sameStore(before, after) {
		var del storage.Deletes
		for _, s := range after {
			del = append(del, &openfgav1.TupleKeyWithoutCondition{Object: s.Obj, Relation: s.Rel, User: s.User})
		}
		for len(del) > 0 {
			n := len(del)
			if n > maxWrite {
				n = maxWrite
			}
			if err := e.ds.Write(ctx, e.storeID, del[:n], nil); err != nil {
				panic(err)
			}
			del = del[n:]
		}
		var ws storage.Writes
		for _, t := range e.resident {
			ws = append(ws, t.proto())
		}
		if len(ws) > 0 {
			if err := e.ds.Write(ctx, e.storeID, nil, ws); err != nil {
				panic(err)
			}
		}
	}
}

func main() {
	o := rec.ParseFlags()
	w := rec.NewWriter(o.Out)
	defer w.Close()
	ctx := context.Background()
	resolver, closer := scen.Resolver(scen.NewForcedPlanner("default"), 25)
	defer closer()
	if o.Replay != "" {
		f, err := os.Open(o.Replay)
		if err != nil {
			panic(err)
		}
		defer f.Close()
		sc := bufio.NewScanner(f)
		sc.Buffer(make([]byte, 1<<20), 1<<26)
		for sc.Scan() {
			var d mdesc
			if json.Unmarshal(sc.Bytes(), &d) != nil || d.Tier == "" {
				continue
			}
			runModel(ctx, w, d.Seed, d.I, d.Tier, d.G, d.W, resolver) // g < 0: the whole model
		}
		return
	}
	for i := 0; i < o.N; i++ {
		runModel(ctx, w, o.Seed, i, o.Tier, -1, false, resolver)
	}
}
