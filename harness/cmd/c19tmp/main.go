//go:build verif

package main

import (
	"context"
	"fmt"
	"os"
	"runtime/pprof"
	"strconv"
	"time"

	openfgav1 "github.com/openfga/api/proto/openfga/v1"
	parser "github.com/openfga/language/pkg/go/transformer"

	"github.com/openfga/openfga/pkg/typesystem"
)

func main() {
	mode := os.Args[1]
	n, _ := strconv.Atoi(os.Args[2])
	dsl := "model\n  schema 1.1\ntype user\ntype document\n  relations\n    define parent: [document]\n"
	for i := 0; i < n; i++ {
		switch mode {
		case "a": // e_i = e_{i+1} or e_{i+1} or e_{i+1} from parent
			dsl += fmt.Sprintf("    define e%d: e%d or e%d or e%d from parent\n", i, i+1, i+1, i+1)
		case "b": // two computed
			dsl += fmt.Sprintf("    define e%d: e%d or e%d\n", i, i+1, i+1)
		case "c": // ttu only twice
			dsl += fmt.Sprintf("    define e%d: e%d from parent or e%d from parent\n", i, i+1, i+1)
		case "e": // plain chain
			dsl += fmt.Sprintf("    define e%d: e%d\n", i, i+1)
		case "d": // two different relations a_i, b_i both referencing next level
			dsl += fmt.Sprintf("    define e%d: e%d and e%d\n", i, i+1, i+1)
		}
	}
	dsl += fmt.Sprintf("    define e%d: [user]\n", n)
	m := parser.MustTransformDSLToProto(dsl)
	m.Id = "01ARZ3NDEKTSV4RRFFQ69G5FAV"
	fmt.Println("model bytes", len(dsl))
	if len(os.Args) > 3 {
		f, _ := os.Create(os.Args[3])
		pprof.StartCPUProfile(f)
		go func() { time.Sleep(8 * time.Second); pprof.StopCPUProfile(); f.Close(); os.Exit(0) }()
	}
	t0 := time.Now()
	_, err := typesystem.NewAndValidate(context.Background(), m)
	fmt.Println(mode, n, time.Since(t0), err)
	_ = openfgav1.AuthorizationModel{}
}
