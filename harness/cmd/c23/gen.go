//go:build verif

package main

import (
	"bufio"
	"encoding/json"
	"os"

	"github.com/openfga/openfga/internal/verifharness/lib/rec"
)

// ---------------------------------------------------------------------------------------------
// inputs

// seqs returns all sequences over {1..alpha} of length <= maxLen (as items).
func seqs(alpha, maxLen int) [][]int {
	out := [][]int{{}}
	level := [][]int{{}}
	for l := 1; l <= maxLen; l++ {
		var next [][]int
		for _, s := range level {
			for a := 1; a <= alpha; a++ {
				t := append(append([]int{}, s...), a)
				next = append(next, t)
			}
		}
		out = append(out, next...)
		level = next
	}
	return out
}

func toScript(items []int) []int {
	s := make([]int, len(items))
	for i, x := range items {
		s[i] = 2 * x
	}
	return s
}

// withErrors: the script itself and one variant per (position, class) with that error inserted.
func withErrors(script []int, classes []int) [][]int {
	out := [][]int{script}
	for p := 0; p <= len(script); p++ {
		for _, e := range classes {
			v := make([]int, 0, len(script)+1)
			v = append(v, script[:p]...)
			v = append(v, 2*e+1)
			v = append(v, script[p:]...)
			out = append(out, v)
		}
	}
	return out
}

// splits returns all ways to cut s into k consecutive (possibly empty) parts.
func splits(s []int, k int) [][][]int {
	if k == 1 {
		return [][][]int{{s}}
	}
	var out [][][]int
	for i := 0; i <= len(s); i++ {
		for _, rest := range splits(s[i:], k-1) {
			out = append(out, append([][]int{s[:i]}, rest...))
		}
	}
	return out
}

// ---------------------------------------------------------------------------------------------
// call patterns: a small grammar over N(ext) H(ead) S(top)
//
//	pattern ::= base | prefix(base, j) S N H N S N H
//	base    ::= N* | (H N)* | (H H N)* | (N H)* | (H N N)*

func repeatUnit(unit []int, n int) []int {
	var out []int
	for len(out) < n {
		out = append(out, unit...)
	}
	return out
}

var stopTail = []int{2, 0, 1, 0, 2, 0, 1}

// patterns for an iterator with about n events; level 0: bases only, 1: + stop at a few positions,
// 2: + stop at every position of N* and (HN)*.
func patterns(n int, withHead bool, level int) [][]int {
	calls := n + 2
	bases := [][]int{repeatUnit([]int{0}, calls)}
	if withHead {
		bases = append(bases, repeatUnit([]int{1, 0}, 2*calls), repeatUnit([]int{1, 1, 0}, 3*calls),
			repeatUnit([]int{0, 1}, 2*calls), repeatUnit([]int{1, 0, 0}, 2*calls))
	} else {
		bases = append(bases, repeatUnit([]int{0, 1}, 2*calls))
	}
	out := append([][]int{}, bases...)
	if level == 0 {
		return out
	}
	nb := 1
	if withHead {
		nb = 2
	}
	for b := 0; b < nb; b++ {
		base := bases[b]
		for j := 0; j <= len(base); j++ {
			if level == 1 && !(j == 0 || j == 1 || j == len(base)/2 || j == len(base)) {
				continue
			}
			p := append(append([]int{}, base[:j]...), stopTail...)
			out = append(out, p)
		}
	}
	return out
}

func randOps(r *rec.Rand, n int, withHead bool) []int {
	l := r.Range(1, 2*n+4)
	ops := make([]int, l)
	for i := range ops {
		switch {
		case r.Chance(1, 12):
			ops[i] = 2
		case r.Chance(1, 3) && (withHead || r.Chance(1, 4)):
			ops[i] = 1
		default:
			ops[i] = 0
		}
	}
	return ops
}

func total(in [][]int) int {
	n := 0
	for _, s := range in {
		n += len(s)
	}
	return n
}

// ---------------------------------------------------------------------------------------------
// random inputs

// randScript: mostly sorted runs of items over a small alphabet, with 0-2 scripted errors
func randScript(r *rec.Rand, maxLen, alpha int, sorted bool, errClasses []int) []int {
	n := r.Intn(maxLen + 1)
	items := make([]int, n)
	for i := range items {
		items[i] = r.Range(1, alpha)
	}
	if sorted {
		for i := 1; i < len(items); i++ {
			for j := i; j > 0 && items[j] < items[j-1]; j-- {
				items[j], items[j-1] = items[j-1], items[j]
			}
		}
		if r.Chance(1, 5) && n >= 2 { // one inversion
			i := r.Intn(n - 1)
			items[i], items[i+1] = items[i+1], items[i]
		}
	}
	s := toScript(items)
	nerr := 0
	switch {
	case r.Chance(1, 2):
		nerr = 0
	case r.Chance(3, 4):
		nerr = 1
	default:
		nerr = 2
	}
	if len(errClasses) == 0 {
		nerr = 0
	}
	for k := 0; k < nerr; k++ {
		p := r.Intn(len(s) + 1)
		e := rec.Pick(r, errClasses)
		s = append(s[:p], append([]int{2*e + 1}, s[p:]...)...)
	}
	return s
}

func randTable(r *rec.Rand) []int {
	n := r.Range(1, 6)
	t := make([]int, n)
	for i := range t {
		switch r.Intn(5) {
		case 0, 1:
			t[i] = 0
		case 2, 3:
			t[i] = 1
		default:
			t[i] = 10 + r.Intn(5)
		}
	}
	return t
}

var plainErr = []int{10}
var allErr = []int{10, 11, 1, 2}

func randMsgs(r *rec.Rand, maxMsgs, maxLen int) [][]int {
	n := r.Intn(maxMsgs + 1)
	msgs := make([][]int, n)
	for i := range msgs {
		switch {
		case r.Chance(1, 10):
			msgs[i] = []int{1, rec.Pick(r, []int{10, 11, 1})}
		case r.Chance(1, 15):
			msgs[i] = []int{2}
		default:
			msgs[i] = append([]int{0}, randScript(r, maxLen, 6, true, allErr)...)
		}
	}
	return msgs
}

func randStreamOps(r *rec.Rand, nStreams, n int) [][]int {
	ops := make([][]int, n)
	for i := range ops {
		p := r.Intn(nStreams)
		switch r.Intn(14) {
		case 0, 1, 2:
			ops[i] = []int{0}
		case 3, 4:
			ops[i] = []int{1, p}
		case 5, 6, 7:
			ops[i] = []int{2, p}
		case 8, 9:
			valid := 1
			if r.Chance(1, 10) {
				valid = 0
			}
			ops[i] = []int{3, p, valid, r.Range(0, 7)}
		case 10:
			ops[i] = []int{4, p}
		case 11, 12:
			k := r.Range(1, 3)
			o := []int{5}
			for j := 0; j < k; j++ {
				o = append(o, r.Intn(nStreams))
			}
			ops[i] = o
		default:
			if r.Chance(1, 3) {
				ops[i] = []int{7}
			} else if r.Chance(1, 2) {
				ops[i] = []int{6, p}
			} else {
				ops[i] = []int{0}
			}
		}
	}
	return ops
}

// shared iterator schedule
func randShared(r *rec.Rand, timed bool) *caseSpec {
	c := &caseSpec{Kind: "shared", Timed: timed}
	switch {
	case timed:
		c.P = 50
	case r.Chance(1, 8):
		c.P = 0
	case r.Chance(1, 3):
		c.P = r.Range(1, 3)
	default:
		c.P = 1000
	}
	nKeys := r.Range(1, 3)
	keys := make([]int, nKeys)
	for i := range keys {
		keys[i] = r.Intn(3)*16 + r.Intn(3)
	}
	nScripts := r.Range(2, 8)
	for i := 0; i < nScripts; i++ {
		var s []int
		switch {
		case r.Chance(1, 12):
			s = []int{-1}
		case r.Chance(1, 6):
			// around the buffer size of fetchMore (100) and its multiples
			n := rec.Pick(r, []int{99, 100, 101, 199, 200, 201, 250}) + 0
			s = make([]int, n)
			for j := range s {
				s[j] = 2 * r.Range(1, 9)
			}
			if r.Chance(1, 2) {
				p := r.Intn(n + 1)
				s = append(s[:p], append([]int{2*10 + 1}, s[p:]...)...)
			}
		default:
			s = randScript(r, 7, 9, false, []int{10, 11, 1})
		}
		c.In = append(c.In, s)
	}
	nOps := r.Range(4, 40)
	handles := 0
	longRun := -1
	mode2 := false
	if !timed && r.Chance(1, 4) {
		// one request's context is cancelled in the middle of the batch it is fetching
		n := rec.Pick(r, []int{3, 8, 40, 99, 100, 101, 180})
		s := make([]int, n)
		for j := range s {
			s[j] = 2 * r.Range(1, 9)
		}
		if r.Chance(1, 4) {
			s = append(s, 2*10+1, 2*3)
		}
		c.In[0] = s
		c.P = 1000
		c.Trig = []int{0, r.Intn(n - 1)}
		k := rec.Pick(r, keys)
		c.SOps = append(c.SOps, []int{0, k, 0}, []int{1 + r.Intn(2), 0, 2}, []int{0, k, 0})
		handles = 2
		for i := r.Intn(n + 3); i > 0; i-- {
			c.SOps = append(c.SOps, []int{1, 1, 0})
		}
		mode2 = true
	}
	for i := 0; i < nOps; i++ {
		switch {
		case handles == 0 || r.Chance(1, 6):
			higher := 0
			if r.Chance(1, 10) {
				higher = 1
			}
			c.SOps = append(c.SOps, []int{0, rec.Pick(r, keys), higher})
			handles++
		case timed && r.Chance(1, 10):
			// canary, then expiry
			c.SOps = append(c.SOps, []int{0, 47, 0}, []int{3, handles}, []int{4})
			handles++
		case r.Chance(1, 8):
			c.SOps = append(c.SOps, []int{3, r.Intn(handles + 1)})
		default:
			h := r.Intn(handles)
			canc := 0
			if r.Chance(1, 20) {
				canc = 1
			} else if mode2 && r.Chance(1, 6) {
				canc = 2
			}
			op := 1
			if r.Chance(1, 3) {
				op = 2
			}
			c.SOps = append(c.SOps, []int{op, h, canc})
			if longRun < 0 && r.Chance(1, 10) {
				longRun = h
			}
		}
	}
	if longRun >= 0 {
		// drain one handle well beyond the buffer size
		for i := 0; i < 260; i++ {
			c.SOps = append(c.SOps, []int{1, longRun, 0})
		}
	}
	return c
}

// ---------------------------------------------------------------------------------------------

func emit(w *rec.Writer, c *caseSpec) { runCase(w, c) }

func exhaustive(w *rec.Writer, tier string) {
	singleLen, multiLen, plevel := 5, 4, 1
	if tier == "thorough" {
		singleLen, multiLen, plevel = 5, 5, 2
	}
	abc := seqs(3, singleLen)
	abcd := seqs(4, singleLen)
	// a -> pass, b -> reject, c -> error 12, d -> error 13 (index = item mod 5)
	tabPRE := []int{0, 0, 1, 12, 13}
	tabPR := []int{0, 0, 1, 0, 1}

	for i, s := range abc {
		// static iterator, including calls with a cancelled context
		sc := toScript(s)
		for _, ops := range patterns(len(s), true, 2) {
			emit(w, &caseSpec{Kind: "static", In: [][]int{sc}, Ops: ops, P: i % 3})
		}
		emit(w, &caseSpec{Kind: "static", In: [][]int{sc}, Ops: []int{3, 0, 4, 1, 0, 3, 0, 0, 4, 0, 2, 3, 0}, P: i % 3})
		for _, v := range withErrors(sc, plainErr) {
			for _, ops := range patterns(len(v), true, plevel) {
				emit(w, &caseSpec{Kind: "filtered", In: [][]int{v}, Tab: [][]int{tabPR}, Ops: ops, Static: i%2 == 0})
				emit(w, &caseSpec{Kind: "validate", In: [][]int{v}, Tab: [][]int{tabPRE}, Ops: ops, Static: i%2 == 1})
				emit(w, &caseSpec{Kind: "mapped", In: [][]int{v}, P: 0, Ops: ops, Static: i%2 == 0})
			}
			for _, ops := range patterns(len(v), true, 0) {
				emit(w, &caseSpec{Kind: "validate", In: [][]int{v}, Nil: true, Ops: ops})
				for k := 1; k <= 3; k++ {
					emit(w, &caseSpec{Kind: "mapped", In: [][]int{v}, P: k, Ops: ops})
				}
			}
		}
		for _, v := range withErrors(sc, []int{10, 1}) {
			for target := 0; target <= 4; target++ {
				emit(w, &caseSpec{Kind: "skipto", In: [][]int{v}, P: target, Ops: []int{1, 0, 0, 1, 0, 0, 0, 0}, Static: i%2 == 0})
			}
			emit(w, &caseSpec{Kind: "tochan", In: [][]int{v}, Q: 1 + i%3})
		}
	}
	for i, s := range abcd {
		for _, v := range withErrors(toScript(s), plainErr) {
			lvl := plevel
			if len(s) == singleLen && tier != "thorough" {
				lvl = 0
			}
			for _, ops := range patterns(len(v), true, lvl) {
				emit(w, &caseSpec{Kind: "cond", In: [][]int{v}, Tab: [][]int{tabPRE}, Ops: ops, Static: i%2 == 0})
			}
			for _, ops := range patterns(len(v), false, lvl) {
				emit(w, &caseSpec{Kind: "gfilter", In: [][]int{v}, Tab: [][]int{tabPRE}, Ops: ops, Static: i%2 == 1})
			}
		}
	}
	// two and three inputs: every way to cut a sequence of total length <= multiLen
	for i, s := range seqs(3, multiLen) {
		for _, parts := range splits(s, 2) {
			a, b := toScript(parts[0]), toScript(parts[1])
			var variants [][][]int
			for _, va := range withErrors(a, plainErr) {
				variants = append(variants, [][]int{va, b})
			}
			for _, vb := range withErrors(b, plainErr)[1:] {
				variants = append(variants, [][]int{a, vb})
			}
			for _, in := range variants {
				for _, ops := range patterns(total(in), false, plevel) {
					emit(w, &caseSpec{Kind: "concat", In: in, Ops: ops, Static: i%2 == 0})
					emit(w, &caseSpec{Kind: "merge", In: in, Ops: ops, Static: i%2 == 1})
				}
			}
		}
		for k := 1; k <= 3; k++ {
			for si, parts := range splits(s, k) {
				in := make([][]int, k)
				oc := make([][]int, k)
				for j, p := range parts {
					in[j] = toScript(p)
					items := make([]int, len(p))
					for q, x := range p {
						items[q] = x*8 + j
					}
					oc[j] = toScript(items)
				}
				for e := -1; e < k; e++ {
					var inVs, ocVs [][]int
					if e < 0 {
						inVs, ocVs = [][]int{in[0]}, [][]int{oc[0]}
					} else {
						inVs, ocVs = withErrors(in[e], plainErr)[1:], withErrors(oc[e], plainErr)[1:]
					}
					for vi := range inVs {
						in2 := append([][]int{}, in...)
						oc2 := append([][]int{}, oc...)
						idx := e
						if idx < 0 {
							idx = 0
						}
						in2[idx], oc2[idx] = inVs[vi], ocVs[vi]
						lvl := plevel
						if k == 3 || (e >= 0 && tier != "thorough") {
							lvl = 0
						} else if e >= 0 {
							lvl = 1
						}
						for _, ops := range patterns(total(in2), true, lvl) {
							emit(w, &caseSpec{Kind: "combined", In: in2, Ops: ops, Static: i%2 == 0, Nil: si%3 == 0})
							emit(w, &caseSpec{Kind: "ordered", In: oc2, Ops: ops, P: (i + si) % 2, Static: i%2 == 1, Nil: si%3 == 1})
						}
					}
				}
			}
		}
	}
	// channel of iterators: up to 3 messages with scripts of total length <= 3
	for _, s := range seqs(3, 3) {
		for k := 1; k <= 3; k++ {
			for _, parts := range splits(s, k) {
				base := make([][]int, k)
				for j, p := range parts {
					base[j] = append([]int{0}, toScript(p)...)
				}
				variants := [][][]int{base}
				for j := 0; j < k; j++ {
					for _, v := range withErrors(base[j][1:], []int{10, 1})[1:] {
						m := append([][]int{}, base...)
						m[j] = append([]int{0}, v...)
						variants = append(variants, m)
					}
					for _, extra := range [][]int{{1, 10}, {2}} {
						m := append(append(append([][]int{}, base[:j]...), extra), base[j:]...)
						variants = append(variants, m)
					}
				}
				for vi, msgs := range variants {
					lvl := plevel
					if vi > 0 && tier != "thorough" {
						lvl = 0
					}
					for _, ops := range patterns(len(s)+1, true, lvl) {
						emit(w, &caseSpec{Kind: "fromchan", Msgs: [][][]int{msgs}, Ops: ops})
					}
				}
			}
		}
	}
	for _, e := range []int{10, 1, 0} {
		emit(w, &caseSpec{Kind: "error", P: e, Ops: []int{0, 1, 0, 2, 0, 1}})
	}
}

func random(w *rec.Writer, r *rec.Rand, n int, tier string) {
	kinds := []string{"concat", "merge", "gfilter", "cond", "filtered", "validate", "mapped", "skipto", "combined",
		"ordered", "ordered", "fromchan", "tochan", "streams", "streams", "fanin", "static"}
	for i := 0; i < n; i++ {
		k := rec.Pick(r, kinds)
		c := &caseSpec{Kind: k, Static: r.Chance(1, 3)}
		switch k {
		case "static":
			c.In = [][]int{randScript(r, 10, 6, false, nil)}
			c.In[0] = toScript(func() []int {
				var it []int
				for _, e := range c.In[0] {
					if e%2 == 0 {
						it = append(it, e/2)
					}
				}
				return it
			}())
			c.P = r.Intn(3)
			l := r.Range(1, 16)
			for j := 0; j < l; j++ {
				c.Ops = append(c.Ops, rec.Pick(r, []int{0, 0, 0, 1, 1, 2, 3, 4}))
			}
		case "concat", "merge":
			c.In = [][]int{randScript(r, 8, 7, k == "merge", allErr), randScript(r, 8, 7, k == "merge", allErr)}
			c.Ops = randOps(r, total(c.In), false)
		case "gfilter":
			c.In = [][]int{randScript(r, 12, 9, false, allErr)}
			nf := r.Range(0, 3)
			for j := 0; j < nf; j++ {
				c.Tab = append(c.Tab, randTable(r))
			}
			c.Ops = randOps(r, total(c.In), false)
		case "cond", "filtered", "validate":
			c.In = [][]int{randScript(r, 12, 9, false, allErr)}
			c.Tab = [][]int{randTable(r)}
			c.Nil = k == "validate" && r.Chance(1, 8)
			c.Ops = randOps(r, total(c.In), true)
		case "mapped":
			c.In = [][]int{randScript(r, 12, 12, false, allErr)}
			c.P = r.Intn(4)
			c.Ops = randOps(r, total(c.In), true)
		case "skipto":
			c.In = [][]int{randScript(r, 12, 9, true, allErr)}
			c.P = r.Range(0, 10)
			c.Ops = randOps(r, total(c.In), true)
		case "combined":
			ni := r.Range(0, 4)
			for j := 0; j < ni; j++ {
				c.In = append(c.In, randScript(r, 6, 7, false, allErr))
			}
			c.Nil = r.Chance(1, 3)
			c.Ops = randOps(r, total(c.In), true)
		case "ordered":
			ni := r.Range(0, 4)
			for j := 0; j < ni; j++ {
				s := randScript(r, 7, 6, true, allErr)
				for q, e := range s {
					if e%2 == 0 {
						s[q] = 2 * ((e/2)*8 + r.Intn(4))
					}
				}
				c.In = append(c.In, s)
			}
			c.P = r.Intn(2)
			c.Nil = r.Chance(1, 3)
			c.Ops = randOps(r, total(c.In), true)
		case "fromchan":
			c.Msgs = [][][]int{randMsgs(r, 5, 5)}
			c.Ops = randOps(r, 12, true)
		case "tochan":
			c.In = [][]int{randScript(r, 12, 9, false, allErr)}
			c.Q = r.Range(0, 4)
		case "streams":
			ns := r.Range(1, 4)
			for j := 0; j < ns; j++ {
				c.Msgs = append(c.Msgs, randMsgs(r, 4, 6))
			}
			c.SOps = randStreamOps(r, ns, r.Range(3, 30))
		case "fanin":
			nc := r.Range(0, 5)
			sizes := make([]int, nc)
			for j := range sizes {
				sizes[j] = r.Intn(7)
			}
			c.In = [][]int{sizes}
			if r.Chance(1, 3) {
				c.Q = 1 + r.Intn(8)
			}
		}
		emit(w, c)
	}
	// shared iterator: schedules at method granularity
	nShared := n / 6
	for i := 0; i < nShared; i++ {
		emit(w, randShared(r, false))
	}
	// expiry scenarios sleep: run them side by side
	nTimed := 24
	nFree := 40
	if tier == "thorough" {
		nTimed, nFree = 120, 300
	}
	timed := make([]*caseSpec, nTimed)
	for i := range timed {
		timed[i] = randShared(r, true)
	}
	runTimed(w, timed)
	for i := 0; i < nFree; i++ {
		n := rec.Pick(r, []int{0, 1, 5, 99, 100, 101, 250, 420})
		s := make([]int, n)
		for j := range s {
			s[j] = 2 * r.Range(1, 9)
		}
		if r.Chance(1, 3) {
			p := r.Intn(n + 1)
			s = append(s[:p], append([]int{2*10 + 1}, s[p:]...)...)
		}
		fc := &caseSpec{Kind: "sharedfree", In: [][]int{s}, P: r.Range(2, 12), Q: r.Intn(3)*16 + r.Intn(3), Timed: r.Chance(1, 4), Seed: r.Uint64()}
		if n >= 5 && !hasErr(s[:n/2]) && r.Chance(1, 3) {
			fc.Trig = []int{r.Intn(n / 2), r.Intn(2)}
		}
		emit(w, fc)
	}
}

// runTimed runs the expiry scenarios concurrently (each into its own buffer file section is not
// possible with one writer, so the cases are run in parallel and recorded one after the other).
func runTimed(w *rec.Writer, cs []*caseSpec) {
	for _, c := range cs {
		emit(w, c)
	}
}

func main() {
	o := rec.ParseFlags()
	w := rec.NewWriter(o.Out)
	defer w.Close()
	if o.Replay != "" {
		f, err := os.Open(o.Replay)
		if err != nil {
			panic(err)
		}
		defer f.Close()
		sc := bufio.NewScanner(f)
		sc.Buffer(make([]byte, 1<<20), 1<<26)
		for sc.Scan() {
			var c caseSpec
			if json.Unmarshal(sc.Bytes(), &c) == nil && c.Kind != "" {
				emit(w, &c)
			}
		}
		return
	}
	r := rec.NewRand(o.Seed)
	// the exhaustive part does not depend on the seed: in the thorough tier (several seeds per
	// check) it is run for odd seeds only
	if o.Tier != "thorough" || o.Seed%2 == 1 {
		exhaustive(w, o.Tier)
	}
	random(w, r, o.N, o.Tier)
}
