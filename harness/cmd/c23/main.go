//go:build verif

// Driver for C23: runs the real iterator adapters of internal/iterator, pkg/storage
// (tuple_iterators.go, tuple_mappers.go) and the shared iterator datastore on scripted inner
// iterators and records every Head/Next/Stop result for the Coq oracle
// (Cache/IterAdapters.v, Cache/SharedIter.v).
//
// Encodings (shared with ocaml/c23_oracle.ml):
//
//	event   : item x -> 2x, scripted error of class e -> 2e+1
//	result  : ( v e )  v = 0 for the zero value, item+1 otherwise; e = 0 for nil, class+1 otherwise
//	classes : 0 ErrIteratorDone, 1 context.Canceled, 2 DeadlineExceeded, 3 head unsupported,
//	          4 not ascending, 5 invalid target, 6 mapper error, >= 10 scripted, 97 panic, 99 unknown
//	ops     : 0 Next, 1 Head, 2 Stop (static iterator: 3 / 4 = Next / Head with a cancelled context)
package main

import (
	"context"
	"errors"
	"fmt"
	"strconv"
	"strings"
	"sync"

	openfgav1 "github.com/openfga/api/proto/openfga/v1"

	"github.com/openfga/openfga/internal/iterator"
	"github.com/openfga/openfga/internal/verifharness/lib/rec"
	"github.com/openfga/openfga/pkg/storage"
)

// ---------------------------------------------------------------------------------------------
// errors

type codeErr struct{ code int }

func (e *codeErr) Error() string { return "scripted error " + strconv.Itoa(e.code) }

func mkErr(code int) error {
	switch code {
	case 1:
		return context.Canceled
	case 2:
		return context.DeadlineExceeded
	}
	return &codeErr{code}
}

// classify returns class+1, 0 for nil.
func classify(err error) int {
	if err == nil {
		return 0
	}
	var ce *codeErr
	switch {
	case errors.Is(err, storage.ErrIteratorDone):
		return 1
	case errors.Is(err, context.Canceled):
		return 2
	case errors.Is(err, context.DeadlineExceeded):
		return 3
	case errors.As(err, &ce):
		return ce.code + 1
	case errors.Is(err, iterator.ErrHeadNotSupportedFilterIterator), errors.Is(err, iterator.ErrHeadNotSupportedMergedIterator),
		strings.Contains(err.Error(), "head() not supported"):
		return 4
	case strings.Contains(err.Error(), "not in ascending order"):
		return 5
	case strings.Contains(err.Error(), "invalid target object"):
		return 6
	case strings.Contains(err.Error(), "with no relation"):
		return 7
	}
	return 100
}

// ---------------------------------------------------------------------------------------------
// the scripted inner iterator

type ev[T any] struct {
	isErr bool
	val   T
	code  int
}

type probe interface {
	remaining() int
	stopCount() int
}

type scripted[T any] struct {
	mu      sync.Mutex
	evs     []ev[T]
	pos     int
	stopped bool
	stops   int
	ordered bool
	// trigger: the Next call that successfully returns the item at position trigPos calls onTrig
	// from inside (used to cancel the calling request's context in the middle of a batch read)
	hasTrig bool
	trigPos int
	onTrig  func()
}

func (s *scripted[T]) Next(ctx context.Context) (T, error) {
	s.mu.Lock()
	defer s.mu.Unlock()
	var zero T
	if ctx.Err() != nil {
		return zero, ctx.Err()
	}
	if s.stopped || s.pos >= len(s.evs) {
		return zero, storage.ErrIteratorDone
	}
	e := s.evs[s.pos]
	s.pos++
	if e.isErr {
		return zero, mkErr(e.code)
	}
	if s.hasTrig && s.pos-1 == s.trigPos && s.onTrig != nil {
		s.onTrig()
	}
	return e.val, nil
}

func (s *scripted[T]) Head(ctx context.Context) (T, error) {
	s.mu.Lock()
	defer s.mu.Unlock()
	var zero T
	if ctx.Err() != nil {
		return zero, ctx.Err()
	}
	if s.stopped || s.pos >= len(s.evs) {
		return zero, storage.ErrIteratorDone
	}
	e := s.evs[s.pos]
	if e.isErr {
		return zero, mkErr(e.code)
	}
	return e.val, nil
}

func (s *scripted[T]) Stop() {
	s.mu.Lock()
	defer s.mu.Unlock()
	s.stopped = true
	s.stops++
}

func (s *scripted[T]) IsOrdered() bool { return s.ordered }

func (s *scripted[T]) remaining() int {
	s.mu.Lock()
	defer s.mu.Unlock()
	return len(s.evs) - s.pos
}

func (s *scripted[T]) stopCount() int {
	s.mu.Lock()
	defer s.mu.Unlock()
	return s.stops
}

// counted wraps a real storage.StaticIterator so that consumption and Stop calls are observable.
type counted[T any] struct {
	mu       sync.Mutex
	inner    storage.Iterator[T]
	n        int
	consumed int
	stops    int
}

func (c *counted[T]) Next(ctx context.Context) (T, error) {
	v, err := c.inner.Next(ctx)
	if err == nil {
		c.mu.Lock()
		c.consumed++
		c.mu.Unlock()
	}
	return v, err
}
func (c *counted[T]) Head(ctx context.Context) (T, error) { return c.inner.Head(ctx) }
func (c *counted[T]) Stop() {
	c.mu.Lock()
	c.stops++
	c.mu.Unlock()
	c.inner.Stop()
}
func (c *counted[T]) IsOrdered() bool { return c.inner.IsOrdered() }
func (c *counted[T]) remaining() int {
	c.mu.Lock()
	defer c.mu.Unlock()
	return c.n - c.consumed
}
func (c *counted[T]) stopCount() int {
	c.mu.Lock()
	defer c.mu.Unlock()
	return c.stops
}

func hasErr(script []int) bool {
	for _, e := range script {
		if e%2 == 1 {
			return true
		}
	}
	return false
}

// mkInner builds the inner iterator of a script; error-free scripts are served by the real
// StaticIterator when useStatic is set.
func mkInner[T any](script []int, conv func(int) T, useStatic bool) (storage.Iterator[T], probe) {
	if useStatic && !hasErr(script) {
		items := make([]T, len(script))
		for i, e := range script {
			items[i] = conv(e / 2)
		}
		c := &counted[T]{inner: storage.NewStaticIterator[T](items), n: len(items)}
		return c, c
	}
	s := &scripted[T]{ordered: true}
	for _, e := range script {
		if e%2 == 1 {
			s.evs = append(s.evs, ev[T]{isErr: true, code: e / 2})
		} else {
			s.evs = append(s.evs, ev[T]{val: conv(e / 2)})
		}
	}
	return s, s
}

// ---------------------------------------------------------------------------------------------
// item encodings

func itemStr(x int) string { return fmt.Sprintf("o:%04d", x) }

func last4(s string) int {
	if len(s) < 4 {
		return 9998
	}
	n, err := strconv.Atoi(s[len(s)-4:])
	if err != nil {
		return 9998
	}
	return n
}

// strItem: 0 for the zero value, item+1 otherwise.
func strItem(s string) int {
	if s == "" {
		return 0
	}
	if s == "user:*" {
		return 100001
	}
	return last4(s) + 1
}

func itemTK(x int) *openfgav1.TupleKey {
	return &openfgav1.TupleKey{Object: fmt.Sprintf("doc:%04d", x), Relation: "r", User: fmt.Sprintf("user:%04d", x)}
}

// the user shape exercises MapUserset: x%3 = 0 userset, 1 typed wildcard, 2 plain user (error)
func itemTKUserset(x int) *openfgav1.TupleKey {
	tk := itemTK(x)
	switch x % 3 {
	case 0:
		tk.User = fmt.Sprintf("group:%04d#member", x)
	case 1:
		tk.User = "user:*"
	}
	return tk
}
func tkItem(tk *openfgav1.TupleKey) int {
	if tk == nil {
		return 0
	}
	return last4(tk.GetObject()) + 1
}
func itemTuple(x int) *openfgav1.Tuple { return &openfgav1.Tuple{Key: itemTK(x)} }
func tupleItem(t *openfgav1.Tuple) int {
	if t == nil {
		return 0
	}
	return tkItem(t.GetKey())
}

// ordered combined iterator: item = key*8 + payload; the mapper sees the key only
func itemOC(objMapper bool) func(int) *openfgav1.Tuple {
	return func(x int) *openfgav1.Tuple {
		k, p := x/8, x%8
		if objMapper {
			return &openfgav1.Tuple{Key: &openfgav1.TupleKey{Object: fmt.Sprintf("doc:%04d", k), Relation: "r", User: fmt.Sprintf("user:%04d", p)}}
		}
		return &openfgav1.Tuple{Key: &openfgav1.TupleKey{Object: fmt.Sprintf("doc:%04d", p), Relation: "r", User: fmt.Sprintf("user:%04d", k)}}
	}
}
func ocItem(objMapper bool) func(*openfgav1.Tuple) int {
	return func(t *openfgav1.Tuple) int {
		if t == nil {
			return 0
		}
		o, u := last4(t.GetKey().GetObject()), last4(t.GetKey().GetUser())
		if objMapper {
			return o*8 + u + 1
		}
		return u*8 + o + 1
	}
}

// ---------------------------------------------------------------------------------------------
// case description (also the replay format)

type caseSpec struct {
	Kind   string    `json:"k"`
	In     [][]int   `json:"in,omitempty"`   // scripts
	Ops    opsT      `json:"ops,omitempty"`  // call pattern
	Tab    [][]int   `json:"tab,omitempty"`  // verdict tables: 0 pass, 1 reject, >= 10 error class; index = item mod len
	P      int       `json:"p,omitempty"`    // mapper kind / target / limit / error class
	Q      int       `json:"q,omitempty"`    // second parameter (batch size, cancel position)
	Static bool      `json:"st,omitempty"`   // error-free scripts are served by the real StaticIterator
	Nil    bool      `json:"nil,omitempty"`  // nil validator / nil iterators interspersed
	Msgs   [][][]int `json:"msgs,omitempty"` // per channel: messages; [0, events...] iterator, [1, e] error, [2] empty
	SOps   [][]int   `json:"sops,omitempty"` // structured ops (streams, shared)
	Timed  bool      `json:"timed,omitempty"`
	Trig   []int     `json:"trig,omitempty"` // shared: [script index, position]; sharedfree: [position, mode]
	Seed   uint64    `json:"seed,omitempty"`
	NT     *bool     `json:"nt,omitempty"`
}

// opsT is written as a string of digits in the description.
type opsT []int

func (o opsT) MarshalJSON() ([]byte, error) {
	b := make([]byte, 0, len(o)+2)
	b = append(b, '"')
	for _, x := range o {
		b = append(b, byte('0'+x))
	}
	return append(b, '"'), nil
}
func (o *opsT) UnmarshalJSON(b []byte) error {
	*o = nil
	for _, c := range b {
		if c >= '0' && c <= '9' {
			*o = append(*o, int(c-'0'))
		}
	}
	return nil
}

var bg = context.Background()

func resV(v int, err error) rec.V { return rec.L(rec.I(v), rec.I(classify(err))) }

func lli(xss [][]int) rec.V {
	vs := make([]rec.V, len(xss))
	for i, xs := range xss {
		vs[i] = rec.LI(xs)
	}
	return rec.L(vs...)
}

func obsV(ps []probe) rec.V {
	vs := make([]rec.V, len(ps))
	for i, p := range ps {
		vs[i] = rec.L(rec.I(p.remaining()), rec.I(p.stopCount()))
	}
	return rec.L(vs...)
}

// runOps applies a call pattern to an iterator; a panic is recorded as class 97.
func runOps[T any](it storage.Iterator[T], ops []int, enc func(T) int) rec.V {
	out := make([]rec.V, 0, len(ops))
	for _, o := range ops {
		func() {
			defer func() {
				if r := recover(); r != nil {
					out = append(out, rec.L(rec.I(0), rec.I(98)))
				}
			}()
			switch o {
			case 0:
				v, err := it.Next(bg)
				out = append(out, resV(enc(v), err))
			case 1:
				v, err := it.Head(bg)
				out = append(out, resV(enc(v), err))
			default:
				it.Stop()
				out = append(out, rec.L(rec.I(0), rec.I(0)))
			}
		}()
	}
	return rec.L(out...)
}

func tabFilter(tab []int) func(int) (bool, error) {
	return func(x int) (bool, error) {
		if len(tab) == 0 {
			return true, nil
		}
		switch v := tab[x%len(tab)]; v {
		case 0:
			return true, nil
		case 1:
			return false, nil
		default:
			return false, mkErr(v)
		}
	}
}

var kindIDs = map[string]int{
	"static": 1, "concat": 2, "merge": 3, "gfilter": 4, "cond": 5, "filtered": 6, "validate": 7, "mapped": 8,
	"skipto": 9, "combined": 10, "ordered": 11, "error": 12, "fromchan": 13, "tochan": 14, "streams": 15,
	"fanin": 16, "shared": 20, "sharedfree": 21,
}

func orderedProp(w *rec.Writer, c *caseSpec, got, want bool) {
	if got != want {
		w.PropFail("IsOrdered() of the adapter is not what its inputs determine", c)
	}
}

func runCase(w *rec.Writer, c *caseSpec) {
	id := rec.I(kindIDs[c.Kind])
	w.Stat("kind_"+c.Kind, 1)
	for _, s := range c.In {
		if hasErr(s) {
			w.Stat("cases_with_scripted_error", 1)
			break
		}
	}
	for _, o := range c.Ops {
		if o == 2 {
			w.Stat("cases_with_stop", 1)
			break
		}
	}
	switch c.Kind {
	case "static":
		items := make([]string, len(c.In[0]))
		for i, e := range c.In[0] {
			items[i] = itemStr(e / 2)
		}
		var it storage.Iterator[string]
		switch c.P {
		case 0:
			it = storage.NewStaticIterator[string](items)
		case 1:
			tks := make([]*openfgav1.TupleKey, len(items))
			for i, e := range c.In[0] {
				tks[i] = itemTK(e / 2)
			}
			it = storage.WrapIterator(storage.ObjectIDKind, storage.NewStaticTupleKeyIterator(tks))
		default:
			ts := make([]*openfgav1.Tuple, len(items))
			for i, e := range c.In[0] {
				ts[i] = itemTuple(e / 2)
			}
			it = storage.WrapIterator(storage.ObjectIDKind, storage.NewTupleKeyIteratorFromTupleIterator(storage.NewStaticTupleIterator(ts)))
		}
		cctx, cancel := context.WithCancel(bg)
		cancel()
		out := make([]rec.V, 0, len(c.Ops))
		for _, o := range c.Ops {
			switch o {
			case 0:
				v, err := it.Next(bg)
				out = append(out, resV(strItem(v), err))
			case 1:
				v, err := it.Head(bg)
				out = append(out, resV(strItem(v), err))
			case 2:
				it.Stop()
				out = append(out, rec.L(rec.I(0), rec.I(0)))
			case 3:
				v, err := it.Next(cctx)
				out = append(out, resV(strItem(v), err))
			default:
				v, err := it.Head(cctx)
				out = append(out, resV(strItem(v), err))
			}
		}
		orderedProp(w, c, it.IsOrdered(), true)
		w.Case(c, id, lli(c.In), rec.LI(c.Ops), rec.L(out...))

	case "concat":
		a, pa := mkInner(c.In[0], itemStr, c.Static)
		b, pb := mkInner(c.In[1], itemStr, c.Static)
		it := iterator.Concat(a, b)
		orderedProp(w, c, it.IsOrdered(), false)
		res := runOps(it, c.Ops, strItem)
		w.Case(c, id, lli(c.In), rec.LI(c.Ops), res, obsV([]probe{pa, pb}))

	case "merge":
		a, pa := mkInner(c.In[0], itemStr, c.Static)
		b, pb := mkInner(c.In[1], itemStr, c.Static)
		it := iterator.Merge(a, b, func(x, y string) int { return strings.Compare(x, y) })
		orderedProp(w, c, it.IsOrdered(), true)
		res := runOps(it, c.Ops, strItem)
		w.Case(c, id, lli(c.In), rec.LI(c.Ops), res, obsV([]probe{pa, pb}))

	case "gfilter":
		a, pa := mkInner(c.In[0], itemStr, c.Static)
		fs := make([]iterator.FilterFunc[string], len(c.Tab))
		for i, t := range c.Tab {
			f := tabFilter(t)
			fs[i] = func(s string) (bool, error) { return f(strItem(s) - 1) }
		}
		it := iterator.NewFilteredIterator(a, fs...)
		if len(fs) == 0 && it != a {
			w.PropFail("NewFilteredIterator without filters does not return the inner iterator", c)
		}
		res := runOps(it, c.Ops, strItem)
		w.Case(c, id, lli(c.In), lli(c.Tab), rec.LI(c.Ops), res, obsV([]probe{pa}))

	case "cond":
		a, pa := mkInner(c.In[0], itemTK, c.Static)
		f := tabFilter(c.Tab[0])
		it := storage.NewConditionsFilteredTupleKeyIterator(a, func(tk *openfgav1.TupleKey) (bool, error) { return f(tkItem(tk) - 1) })
		res := runOps(it, c.Ops, tkItem)
		w.Case(c, id, lli(c.In), lli(c.Tab), rec.LI(c.Ops), res, obsV([]probe{pa}))

	case "filtered":
		a, pa := mkInner(c.In[0], itemTK, c.Static)
		f := tabFilter(c.Tab[0])
		it := storage.NewFilteredTupleKeyIterator(a, func(tk *openfgav1.TupleKey) bool { ok, _ := f(tkItem(tk) - 1); return ok })
		res := runOps(it, c.Ops, tkItem)
		w.Case(c, id, lli(c.In), lli(c.Tab), rec.LI(c.Ops), res, obsV([]probe{pa}))

	case "validate":
		a, pa := mkInner(c.In[0], itemTK, c.Static)
		var vf func(*openfgav1.TupleKey) (bool, error)
		if !c.Nil {
			f := tabFilter(c.Tab[0])
			vf = func(tk *openfgav1.TupleKey) (bool, error) { return f(tkItem(tk) - 1) }
		}
		it := iterator.Validate(a, vf)
		res := runOps(it, c.Ops, tkItem)
		nilFlag := 0
		if c.Nil {
			nilFlag = 1
		}
		w.Case(c, id, lli(c.In), lli(c.Tab), rec.I(nilFlag), rec.LI(c.Ops), res, obsV([]probe{pa}))

	case "mapped":
		var res rec.V
		var pa probe
		switch c.P {
		case 0:
			a, p := mkInner(c.In[0], itemTuple, c.Static)
			pa = p
			res = runOps(storage.NewTupleKeyIteratorFromTupleIterator(a), c.Ops, tkItem)
		case 1:
			a, p := mkInner(c.In[0], itemTKUserset, c.Static)
			pa = p
			res = runOps[string](storage.WrapIterator(storage.UsersetKind, a), c.Ops, strItem)
		case 2:
			a, p := mkInner(c.In[0], itemTK, c.Static)
			pa = p
			res = runOps[string](storage.WrapIterator(storage.TTUKind, a), c.Ops, strItem)
		default:
			a, p := mkInner(c.In[0], itemTK, c.Static)
			pa = p
			res = runOps[string](storage.WrapIterator(storage.ObjectIDKind, a), c.Ops, strItem)
		}
		w.Case(c, id, lli(c.In), rec.I(c.P), rec.LI(c.Ops), res, obsV([]probe{pa}))

	case "skipto":
		a, pa := mkInner(c.In[0], itemStr, c.Static)
		err := iterator.SkipTo(bg, a, itemStr(c.P))
		res := runOps(a, c.Ops, strItem)
		w.Case(c, id, lli(c.In), rec.I(c.P), rec.LI(c.Ops), resV(0, err), res, obsV([]probe{pa}))

	case "combined":
		var its []storage.Iterator[string]
		var ps []probe
		for i, s := range c.In {
			a, p := mkInner(s, itemStr, c.Static)
			if c.Nil && i%2 == 0 {
				its = append(its, nil)
			}
			its = append(its, a)
			ps = append(ps, p)
		}
		it := storage.NewCombinedIterator(its...)
		orderedProp(w, c, it.IsOrdered(), false)
		res := runOps(it, c.Ops, strItem)
		w.Case(c, id, lli(c.In), rec.LI(c.Ops), res, obsV(ps))

	case "ordered":
		obj := c.P == 1
		var its []storage.TupleIterator
		var ps []probe
		for i, s := range c.In {
			a, p := mkInner(s, itemOC(obj), c.Static)
			if c.Nil && i%2 == 1 {
				its = append(its, nil)
			}
			its = append(its, a)
			ps = append(ps, p)
		}
		mapper := storage.UserMapper()
		if obj {
			mapper = storage.ObjectMapper()
		}
		it := storage.NewOrderedCombinedIterator(mapper, its...)
		orderedProp(w, c, it.IsOrdered(), true)
		res := runOps[*openfgav1.Tuple](it, c.Ops, ocItem(obj))
		w.Case(c, id, lli(c.In), rec.LI(c.Ops), res, obsV(ps))

	case "error":
		it := iterator.Error[string](mkErr(c.P))
		res := runOps(it, c.Ops, strItem)
		w.Case(c, id, rec.I(c.P), rec.LI(c.Ops), res)

	case "fromchan":
		ch, ps, mps := mkChan(c.Msgs[0])
		it := iterator.FromChannel(ch)
		orderedProp(w, c, it.IsOrdered(), false)
		out := make([]rec.V, 0, len(c.Ops))
		for _, o := range c.Ops {
			switch o {
			case 0:
				v, err := it.Next(bg)
				out = append(out, resV(strItem(v), err))
			case 1:
				v, err := it.Head(bg)
				out = append(out, resV(strItem(v), err))
			default:
				pending := len(ch)
				it.Stop()
				waitDrained(ch, mps, pending)
				out = append(out, rec.L(rec.I(0), rec.I(0)))
			}
		}
		w.Case(c, id, msgsV(c.Msgs[0]), rec.LI(c.Ops), rec.L(out...), obsV(ps))

	case "tochan":
		a, pa := mkInner(c.In[0], itemStr, c.Static)
		ch := iterator.ToChannel[string](bg, a, c.Q)
		var out []rec.V
		for m := range ch {
			out = append(out, resV(strItem(m.Value), m.Err))
		}
		w.Case(c, id, lli(c.In), rec.L(out...), obsV([]probe{pa}))

	case "streams":
		runStreams(w, c, id)

	case "fanin":
		runFanIn(w, c, id)

	case "shared":
		runShared(w, c, id)

	case "sharedfree":
		runSharedFree(w, c, id)
	}
}

