//go:build verif

package main

import (
	"context"
	"runtime"
	"time"

	"github.com/openfga/openfga/internal/iterator"
	"github.com/openfga/openfga/internal/verifharness/lib/rec"
)

func msgsV(msgs [][]int) rec.V {
	vs := make([]rec.V, len(msgs))
	for i, m := range msgs {
		vs[i] = rec.LI(m)
	}
	return rec.L(vs...)
}

// mkChan fills and closes a channel.  ps: the probes of the iterator messages in order;
// mps: one entry per message (nil for error / empty messages).
func mkChan(msgs [][]int) (chan *iterator.Msg, []probe, []probe) {
	ch := make(chan *iterator.Msg, len(msgs)+1)
	var ps []probe
	mps := make([]probe, len(msgs))
	for i, m := range msgs {
		var msg *iterator.Msg
		switch m[0] {
		case 0:
			a, p := mkInner(m[1:], itemStr, false)
			ps = append(ps, p)
			mps[i] = p
			msg = &iterator.Msg{Iter: a}
		case 1:
			msg = &iterator.Msg{Err: mkErr(m[1])}
		default:
			msg = &iterator.Msg{}
		}
		ch <- msg
	}
	close(ch)
	return ch, ps, mps
}

// waitDrained waits for the asynchronous iterator.Drain that a Stop starts: the channel is empty
// and the iterators of the messages that were still queued (the last `pending` ones) are stopped.
func waitDrained(ch chan *iterator.Msg, mps []probe, pending int) {
	deadline := time.Now().Add(5 * time.Second)
	for spin := 0; spin < 200 || time.Now().Before(deadline); spin++ {
		ok := len(ch) == 0
		if ok {
			for i := len(mps) - pending; i < len(mps); i++ {
				if i >= 0 && mps[i] != nil && mps[i].stopCount() == 0 {
					ok = false
				}
			}
		}
		if ok {
			return
		}
		runtime.Gosched()
		if spin > 200 {
			time.Sleep(10 * time.Microsecond)
		}
	}
}

// streams ops: [0] CleanDone, [1 p] Head, [2 p] Next, [3 p valid target] SkipToTargetObject,
// [4 p] Drain, [5 p...] NextItemInSliceStreams, [6 p] Stop, [7] Streams.Stop
func runStreams(w *rec.Writer, c *caseSpec, id rec.V) {
	type sinfo struct {
		ch  chan *iterator.Msg
		mps []probe
	}
	var infos []sinfo
	var all []*iterator.Stream
	var ps []probe
	byStream := map[*iterator.Stream]int{}
	for i, msgs := range c.Msgs {
		ch, p, mps := mkChan(msgs)
		infos = append(infos, sinfo{ch, mps})
		ps = append(ps, p...)
		s := iterator.NewStream(i, ch)
		byStream[s] = i
		all = append(all, s)
	}
	streams := iterator.NewStreams(all)
	active := all
	stop := func(s *iterator.Stream) {
		in := infos[byStream[s]]
		pending := len(in.ch)
		s.Stop()
		waitDrained(in.ch, in.mps, pending)
	}
	out := make([]rec.V, 0, len(c.SOps))
	one := func(v int, err error, items []int) rec.V { return rec.L(rec.I(v), rec.I(classify(err)), rec.LI(items)) }
	for _, o := range c.SOps {
		pos := -1
		if len(o) > 1 && o[0] != 5 {
			pos = o[1]
			if pos >= len(active) {
				out = append(out, one(0, nil, nil))
				continue
			}
		}
		switch o[0] {
		case 0:
			act, err := streams.CleanDone(bg)
			var idxs []int
			if err == nil {
				active = act
				for _, s := range act {
					idxs = append(idxs, s.Idx())
				}
			}
			out = append(out, one(0, err, idxs))
		case 1:
			v, err := active[pos].Head(bg)
			out = append(out, one(strItem(v), err, nil))
		case 2:
			v, err := active[pos].Next(bg)
			out = append(out, one(strItem(v), err, nil))
		case 3:
			target := itemStr(o[3])
			if o[2] == 0 {
				target = "not-an-object"
			}
			err := active[pos].SkipToTargetObject(bg, target)
			out = append(out, one(0, err, nil))
		case 4:
			batch, err := active[pos].Drain(bg)
			var items []int
			for _, s := range batch {
				items = append(items, strItem(s)-1)
			}
			out = append(out, one(0, err, items))
		case 5:
			ok := true
			for _, p := range o[1:] {
				if p >= len(active) {
					ok = false
				}
			}
			if !ok {
				out = append(out, one(0, nil, nil))
				continue
			}
			v, err := iterator.NextItemInSliceStreams(bg, active, o[1:])
			out = append(out, one(strItem(v), err, nil))
		case 6:
			stop(active[pos])
			out = append(out, one(0, nil, nil))
		default:
			// Streams.Stop stops the streams of its current list, one after the other
			pend := make([]int, len(active))
			for i, s := range active {
				pend[i] = len(infos[byStream[s]].ch)
			}
			streams.Stop()
			for i, s := range active {
				in := infos[byStream[s]]
				waitDrained(in.ch, in.mps, pend[i])
			}
			out = append(out, one(0, nil, nil))
		}
	}
	msgsAll := make([]rec.V, len(c.Msgs))
	for i, m := range c.Msgs {
		msgsAll[i] = msgsV(m)
	}
	sops := make([]rec.V, len(c.SOps))
	for i, o := range c.SOps {
		sops[i] = rec.LI(o)
	}
	w.Case(c, id, rec.L(msgsAll...), rec.L(sops...), rec.L(out...), obsV(ps))
}

// fan-in: every message is tagged (channel, position) through the single item of its iterator
func runFanIn(w *rec.Writer, c *caseSpec, id rec.V) {
	var chans []<-chan *iterator.Msg
	var ps [][]probe
	total := 0
	for ci, n := range c.In[0] {
		msgs := make([][]int, n)
		for j := 0; j < n; j++ {
			msgs[j] = []int{0, 2 * (ci*64 + j)}
		}
		ch, p, _ := mkChan(msgs)
		chans = append(chans, ch)
		ps = append(ps, p)
		total += n
	}
	ctx, cancel := context.WithCancel(bg)
	defer cancel()
	out := iterator.FanInIteratorChannels(ctx, chans)
	var tags []rec.V
	delivered := map[int]bool{}
	got := 0
	if c.Q > 0 && got >= c.Q-1 {
		cancel()
	}
	for m := range out {
		got++
		if m.Iter != nil {
			v, _ := m.Iter.Next(bg)
			t := strItem(v) - 1
			delivered[t] = true
			tags = append(tags, rec.L(rec.I(t/64), rec.I(t%64)))
		}
		if c.Q > 0 && got >= c.Q-1 {
			cancel()
		}
	}
	// the specification, directly on the implementation: every message is delivered or stopped
	for ci := range ps {
		for j, p := range ps[ci] {
			d := delivered[ci*64+j]
			s := p.stopCount() > 0
			if !d && !s {
				w.PropFail("fan-in: a message was neither delivered nor stopped", c)
			}
			if c.Q == 0 && !d {
				w.PropFail("fan-in without cancellation lost a message", c)
			}
		}
	}
	if c.Q > 0 {
		w.Stat("fanin_cancelled", 1)
	}
	q := 0
	if c.Q > 0 {
		q = 1
	}
	w.Case(c, id, rec.LI(c.In[0]), rec.I(q), rec.L(tags...))
}
